/-
  RoModel.Fault — the single-source machine semantics extended with *faults* (C07).

  Every invocation of user-supplied code (an operator callback, the subscribe function of the
  source, the source's teardown, one of the final observer's three callbacks) has an `Outcome`:
  it returns, it panics with an error value, it panics with a non-error value, or (error-aware
  callbacks only: the `MapErr` family) it returns an error. What a panic turns into is decided by
  the kernel wrappers, modelled here line by line:

    observer.go:142-158   tryNext    — recover ⇒ `tryError(newObserverError(err))` on the *same*
                                        observer; the status word is NOT flipped
    observer.go:160-184   tryError / tryComplete — recover ⇒ `OnUnhandledError(newObserverError(err))`
    observable.go:303-321 SubscribeWithContext — recover around `subscription.Add(s.subscribe(…))`
                                        ⇒ `subscription.Error(newObservableError(err)); subscription.Unsubscribe()`
    subscription.go:82-98   Add      — a teardown added after disposal runs at once, unprotected
                                        (deferred unlock), so its panic reaches the recover above
    subscription.go:107-150 Unsubscribe — every finalizer runs under `execFinalizer`; the panics are
                                        collected as `newUnsubscriptionError`s and re-raised joined
                                        after the loop
    subscriber.go:176-241 subscriberImpl — Error/Complete call `unsubscribe()` after releasing the
                                        producer lock, so a re-raised teardown panic travels to
                                        whoever delivered the terminal

  The pipeline is the one of `runOp`:   source ─U─O─[operator closure]─D─F   where U is the
  subscriber the source's `SubscribeWithContext` creates around the operator's upstream observer
  O (`NewObserverWithContext(onNext, onError, onComplete)`), D the subscriber the operator's own
  `SubscribeWithContext` creates around the final observer F.

  Core Lean only.
-/
import RoModel.Machine
namespace Ro.Fault
open Ro

/-- the three ways an invocation of user code can fail -/
inductive Fault
  | panicErr (e : Err)     -- panic(err)
  | panicVal (n : Nat)     -- panic(<a non-error value>)
  | errRet (e : Err)       -- `return …, err` (callbacks with an error result only)
deriving DecidableEq, Repr

/-- what one invocation of user-supplied code does -/
inductive Outcome (ρ : Type)
  | ok (r : ρ)
  | panicErr (e : Err)
  | panicVal (n : Nat)
  | errRet (e : Err)
deriving Repr

/-- `recoverValueToError` (errors.go:28-34): the error a recovered panic value is turned into;
    `none` when the fault is not a panic -/
def Fault.recovered : Fault → Option Err
  | .panicErr e => some e
  | .panicVal n => some (.panicVal n)
  | .errRet _ => none

/-- the outcome of invocation `k` of a callback that would return `r`, under a plan -/
def outcomeOf {ρ : Type} (plan : Nat → Option Fault) (k : Nat) (r : ρ) : Outcome ρ :=
  match plan k with
  | none => .ok r
  | some (.panicErr e) => .panicErr e
  | some (.panicVal n) => .panicVal n
  | some (.errRet e) => .errRet e

/-- the panic (already converted by `recoverValueToError`) that invocation `k` raises, if any -/
def panicAt (plan : Nat → Option Fault) (k : Nat) : Option Err := (plan k).bind Fault.recovered

/-- Which invocations of user code fail, and how. Indices count invocations of that callback
    within one subscription, from 0. -/
structure Plan where
  /-- the operator's callback invoked from the Next callback of its upstream observer -/
  cbN : Nat → Option Fault := fun _ => none
  /-- … from the Error callback (`Tap`'s onError, `Catch`'s handler) -/
  cbE : Nat → Option Fault := fun _ => none
  /-- … from the Complete callback (`Tap`'s onComplete, `ThrowIfEmpty`'s throw) -/
  cbC : Nat → Option Fault := fun _ => none
  /-- … from the operator's subscribe function, before it subscribes upstream (`TapOnSubscribe`) -/
  cbS : Option Fault := none
  /-- the source's subscribe function panics right before emitting notification `j`
      (after the last one when `j` ≥ the script length) -/
  srcSub : Option (Nat × Fault) := none
  /-- the source's teardown panics -/
  srcTd : Option Fault := none
  /-- the final observer's callbacks -/
  fN : Nat → Option Fault := fun _ => none
  fE : Nat → Option Fault := fun _ => none
  fC : Nat → Option Fault := fun _ => none

/-- An operator machine together with where its closure calls user code. -/
structure FMachine (σ α β : Type) where
  base : Machine σ α β
  /-- in this state the Next callback invokes the user callback *first thing* (before any
      assignment to the closure's locals and before any emission) — read off the Go closure -/
  callsN : σ → Ctx → α → Bool := fun _ _ _ => false
  callsE : σ → Bool := fun _ => false
  callsC : σ → Bool := fun _ => false
  /-- the subscribe function invokes a user callback before it subscribes upstream -/
  callsS : Bool := false
  /-- reaction to an error *returned* by the Next-position callback (operator_transformations.go:
      136-142, `MapErr` family); `none`: the callback type has no error result -/
  onErrRet : Option (σ → Ctx → α → Err → σ × List (Notif β)) := none
  /-- number of `execFinalizer` frames between the downstream subscription and the upstream
      subscriber's `Unsubscribe` (1 for `return sub.Unsubscribe`; 2 for `Catch`, which returns the
      `Unsubscribe` of a composite subscription) -/
  tdWraps : Nat := 1

/-- run-time state of one subscription of `source |> op` observed by a final observer -/
structure St (σ α β : Type) where
  ms : σ
  /-- U.status = 0 / D.status = 0 -/
  uOpen : Bool := true
  dOpen : Bool := true
  /-- the source's teardown is in U's finalizer list; U's subscription is `done` -/
  uReg : Bool := false
  uDone : Bool := false
  /-- the operator's teardown (`sub.Unsubscribe`) is in D's finalizer list; D's subscription is `done` -/
  dReg : Bool := false
  dDone : Bool := false
  nN : Nat := 0
  nE : Nat := 0
  nC : Nat := 0
  fnN : Nat := 0
  fnE : Nat := 0
  fnC : Nat := 0
  /-- every invocation of a callback of the final observer, in order (the invocation that then
      panics is recorded too: the user's code was entered) -/
  trace : List (Notif β) := []
  drops : List (Drop α β) := []
  /-- `OnUnhandledError` -/
  unhandled : List Err := []
  /-- times the source's teardown ran -/
  rel : Nat := 0
  /-- times the source was subscribed -/
  subs : Nat := 0
  /-- ghost: the recovered value of every panic injected so far -/
  fired : List Err := []

variable {σ α β : Type}

def St.fire (s : St σ α β) (p : Err) : St σ α β := { s with fired := s.fired ++ [p] }
def St.unh (s : St σ α β) (e : Err) : St σ α β := { s with unhandled := s.unhandled ++ [e] }

/-! ### the final observer F (`observerImpl` around the user's three callbacks) -/

/-- `F.tryError` (observer.go:160-171): the user's error callback; its panic goes to the hook -/
def fTryError (P : Plan) (s : St σ α β) (c : Ctx) (e : Err) : St σ α β :=
  let s1 := { s with trace := s.trace ++ [.error c e], fnE := s.fnE + 1 }
  match panicAt P.fE s.fnE with
  | some q => (s1.fire q).unh (.observer q)
  | none => s1

/-- `F.tryNext` (observer.go:142-158): a panic of the user's next callback is handed to the same
    observer's error callback; **the status word stays 0** -/
def fNext (P : Plan) (s : St σ α β) (c : Ctx) (v : β) : St σ α β :=
  let s1 := { s with trace := s.trace ++ [.next c v], fnN := s.fnN + 1 }
  match panicAt P.fN s.fnN with
  | some p => fTryError P (s1.fire p) c (.observer p)
  | none => s1

/-- `F.tryComplete` (observer.go:173-184) -/
def fComplete (P : Plan) (s : St σ α β) (c : Ctx) : St σ α β :=
  let s1 := { s with trace := s.trace ++ [.complete c], fnC := s.fnC + 1 }
  match panicAt P.fC s.fnC with
  | some q => (s1.fire q).unh (.observer q)
  | none => s1

/-! ### the two subscriptions. A result `(s, some x)` means: the call panics with `x`. -/

/-- `U.Subscription.Unsubscribe()` (subscription.go:107-150): runs the source's teardown if it is
    registered; a panicking teardown is re-raised as the join of one `unsubscriptionError`
    (a join of one error is identified with that error) -/
def uUnsub (P : Plan) (s : St σ α β) : St σ α β × Option Err :=
  if s.uDone then (s, none) else
  if s.uReg then
    match P.srcTd.bind Fault.recovered with
    | some t => (({ s with uDone := true, rel := s.rel + 1 }).fire t, some (.unsubscription t))
    | none => ({ s with uDone := true, rel := s.rel + 1 }, none)
  else ({ s with uDone := true }, none)

/-- the operator's teardown `sub.Unsubscribe` = `U.Unsubscribe()` (subscriber.go:232-236): only
    the caller that wins the CAS runs the finalizers -/
def opTeardown (P : Plan) (s : St σ α β) : St σ α β × Option Err :=
  if s.uOpen then uUnsub P { s with uOpen := false } else (s, none)

def wrapUn : Nat → Err → Err
  | 0, e => e
  | n + 1, e => .unsubscription (wrapUn n e)

/-- `D.Subscription.Unsubscribe()` -/
def dUnsub (P : Plan) (w : Nat) (s : St σ α β) : St σ α β × Option Err :=
  if s.dDone then (s, none) else
  if s.dReg then
    match opTeardown P { s with dDone := true } with
    | (s2, some x) => (s2, some (wrapUn w x))
    | (s2, none) => (s2, none)
  else ({ s with dDone := true }, none)

/-- `D.Unsubscribe()` called from outside (subscriber.go:232-236) -/
def dUnsubscribe (P : Plan) (w : Nat) (s : St σ α β) : St σ α β × Option Err :=
  if s.dOpen then dUnsub P w { s with dOpen := false } else (s, none)

/-! ### the downstream subscriber D (subscriber.go:176-230) -/

def dPush (P : Plan) (w : Nat) (s : St σ α β) : Notif β → St σ α β × Option Err
  | .next c v =>
    if s.dOpen then (fNext P s c v, none) else ({ s with drops := s.drops ++ [.down (.next c v)] }, none)
  | .error c e =>
    if s.dOpen then dUnsub P w (fTryError P { s with dOpen := false } c e)
    else dUnsub P w { s with drops := s.drops ++ [.down (.error c e)] }
  | .complete c =>
    if s.dOpen then dUnsub P w (fComplete P { s with dOpen := false } c)
    else dUnsub P w { s with drops := s.drops ++ [.down (.complete c)] }

/-- the emissions of one reaction of the operator closure, in order; a panic aborts the rest -/
def dPushAll (P : Plan) (w : Nat) (s : St σ α β) : List (Notif β) → St σ α β × Option Err
  | [] => (s, none)
  | n :: ns =>
    match dPush P w s n with
    | (s1, some x) => (s1, some x)
    | (s1, none) => dPushAll P w s1 ns

/-! ### the operator closure and its upstream observer O -/

/-- the body of O's Error callback -/
def opError (fm : FMachine σ α β) (P : Plan) (s : St σ α β) (c : Ctx) (e : Err) : St σ α β × Option Err :=
  if fm.callsE s.ms then
    match panicAt P.cbE s.nE with
    | some q => (({ s with nE := s.nE + 1 }).fire q, some q)
    | none => dPushAll P fm.tdWraps { s with nE := s.nE + 1, ms := (fm.base.onError s.ms c e).1 } (fm.base.onError s.ms c e).2
  else dPushAll P fm.tdWraps { s with ms := (fm.base.onError s.ms c e).1 } (fm.base.onError s.ms c e).2

/-- `O.tryError` -/
def oTryError (fm : FMachine σ α β) (P : Plan) (s : St σ α β) (c : Ctx) (e : Err) : St σ α β :=
  match opError fm P s c e with
  | (s1, some q) => s1.unh (.observer q)
  | (s1, none) => s1

/-- the body of O's Complete callback -/
def opComplete (fm : FMachine σ α β) (P : Plan) (s : St σ α β) (c : Ctx) : St σ α β × Option Err :=
  if fm.callsC s.ms then
    match panicAt P.cbC s.nC with
    | some q => (({ s with nC := s.nC + 1 }).fire q, some q)
    | none => dPushAll P fm.tdWraps { s with nC := s.nC + 1, ms := (fm.base.onComplete s.ms c).1 } (fm.base.onComplete s.ms c).2
  else dPushAll P fm.tdWraps { s with ms := (fm.base.onComplete s.ms c).1 } (fm.base.onComplete s.ms c).2

/-- `O.tryComplete` -/
def oTryComplete (fm : FMachine σ α β) (P : Plan) (s : St σ α β) (c : Ctx) : St σ α β :=
  match opComplete fm P s c with
  | (s1, some q) => s1.unh (.observer q)
  | (s1, none) => s1

/-- the reaction of the Next callback once the user callback has returned normally. When an
    emission panics (a re-raised teardown panic out of `destination.Error/Complete`) the rest of
    the closure body is skipped: the catalogue closures that emit a terminal from their Next
    callback assign their locals *after* that emission (`TakeWhile`: `skipping = true`,
    operator_filter.go:432-433), so the locals keep their old values. -/
def opNextOk (fm : FMachine σ α β) (P : Plan) (s : St σ α β) (c : Ctx) (v : α) : St σ α β × Option Err :=
  match dPushAll P fm.tdWraps { s with ms := (fm.base.onNext s.ms c v).1 } (fm.base.onNext s.ms c v).2 with
  | (s1, some x) => ({ s1 with ms := s.ms }, some x)
  | (s1, none) => (s1, none)

/-- the body of O's Next callback -/
def opNext (fm : FMachine σ α β) (P : Plan) (s : St σ α β) (c : Ctx) (v : α) : St σ α β × Option Err :=
  if fm.callsN s.ms c v then
    match P.cbN s.nN with
    | some (.errRet e) =>
      match fm.onErrRet with
      | some h => dPushAll P fm.tdWraps { s with nN := s.nN + 1, ms := (h s.ms c v e).1 } (h s.ms c v e).2
      | none => opNextOk fm P { s with nN := s.nN + 1 } c v
    | some (.panicErr p) => (({ s with nN := s.nN + 1 }).fire p, some p)
    | some (.panicVal n) => (({ s with nN := s.nN + 1 }).fire (.panicVal n), some (.panicVal n))
    | none => opNextOk fm P { s with nN := s.nN + 1 } c v
  else opNextOk fm P s c v

/-- the recover handler of `O.tryNext`: the recovered panic is given to O's *own* error callback,
    wrapped by `newObserverError`, without closing O -/
def oRecoverNext (fm : FMachine σ α β) (P : Plan) (c : Ctx) : St σ α β × Option Err → St σ α β
  | (s1, some p) => oTryError fm P s1 c (.observer p)
  | (s1, none) => s1

def oTryNext (fm : FMachine σ α β) (P : Plan) (s : St σ α β) (c : Ctx) (v : α) : St σ α β :=
  oRecoverNext fm P c (opNext fm P s c v)

/-! ### the upstream subscriber U: one notification from the producer -/

/-- `U.NextWithContext / ErrorWithContext / CompleteWithContext`. `(s, some x)`: the call
    panics with `x` into the producer's goroutine. -/
def uFeed (fm : FMachine σ α β) (P : Plan) (s : St σ α β) (x : Notif α) : St σ α β × Option Err :=
  match x with
  | .next c v =>
    if s.uOpen then (oTryNext fm P s c v, none) else ({ s with drops := s.drops ++ [.up x] }, none)
  | .error c e =>
    if s.uOpen then uUnsub P (oTryError fm P { s with uOpen := false } c e)
    else uUnsub P { s with drops := s.drops ++ [.up x] }
  | .complete c =>
    if s.uOpen then uUnsub P (oTryComplete fm P { s with uOpen := false } c)
    else uUnsub P { s with drops := s.drops ++ [.up x] }

/-! ### Subscribe -/

def srcPanicAt (P : Plan) (i : Nat) (atEnd : Bool) : Option Err :=
  match P.srcSub with
  | some (j, f) => if j == i || (atEnd && j ≥ i) then f.recovered else none
  | none => none

/-- the scripted source's subscribe function: plays `inside`, then returns its teardown — or
    panics on the way -/
def srcBody (fm : FMachine σ α β) (P : Plan) : Nat → List (Notif α) → St σ α β → St σ α β × Option Err
  | i, [], s =>
    match srcPanicAt P i true with
    | some p => (s.fire p, some p)
    | none => (s, none)
  | i, x :: xs, s =>
    match srcPanicAt P i false with
    | some p => (s.fire p, some p)
    | none =>
      match uFeed fm P s x with
      | (s1, some q) => (s1, some q)
      | (s1, none) => srcBody fm P (i + 1) xs s1

/-- the recover handler of the source's `SubscribeWithContext` (observable.go:313-317) -/
def srcCatch (fm : FMachine σ α β) (P : Plan) (sub : Ctx) (s : St σ α β) (p : Err) : St σ α β × Option Err :=
  match uFeed fm P s (.error sub (.observable p)) with
  | (s1, some q) => (s1, some q)
  | (s1, none) => opTeardown P s1

/-- the source's `SubscribeWithContext` with the operator's observer -/
def srcSubscribe (fm : FMachine σ α β) (P : Plan) (sub : Ctx) (inside : List (Notif α)) (s : St σ α β) :
    St σ α β × Option Err :=
  match srcBody fm P 0 inside { s with subs := s.subs + 1 } with
  | (s1, some p) => srcCatch fm P sub s1 p
  | (s1, none) =>
    -- `subscription.Add(teardown)`
    if s1.uDone then
      match P.srcTd.bind Fault.recovered with
      | some t => srcCatch fm P sub (({ s1 with rel := s1.rel + 1 }).fire t) t
      | none => ({ s1 with rel := s1.rel + 1 }, none)
    else ({ s1 with uReg := true }, none)

/-- the recover handler of the operator's `SubscribeWithContext` -/
def opCatch (P : Plan) (w : Nat) (sub : Ctx) (s : St σ α β) (p : Err) : St σ α β × Option Err :=
  match dPush P w s (.error sub (.observable p)) with
  | (s1, some q) => (s1, some q)
  | (s1, none) => dUnsubscribe P w s1

/-- the operator's subscribe function -/
def opBody (fm : FMachine σ α β) (P : Plan) (sub : Ctx) (inside : List (Notif α)) (s : St σ α β) :
    St σ α β × Option Err :=
  match (if fm.callsS then P.cbS.bind Fault.recovered else none) with
  | some p => (s.fire p, some p)
  | none =>
    match dPushAll P fm.tdWraps { s with ms := (fm.base.onSubscribe s.ms sub).1 } (fm.base.onSubscribe s.ms sub).2 with
    | (s1, some q) => (s1, some q)
    | (s1, none) => if fm.base.subscribes then srcSubscribe fm P sub inside s1 else (s1, none)

/-- `observableImpl.SubscribeWithContext` of `source |> op` with the final observer.
    `(s, some x)`: `Subscribe` itself panics with `x`. -/
def opSubscribe (fm : FMachine σ α β) (P : Plan) (sub : Ctx) (inside : List (Notif α)) : St σ α β × Option Err :=
  match opBody fm P sub inside { ms := fm.base.init } with
  | (s1, some p) => opCatch P fm.tdWraps sub s1 p
  | (s1, none) =>
    -- `subscription.Add(sub.Unsubscribe)` (the degenerate `Empty()` returns no teardown)
    if !fm.base.subscribes then (s1, none)
    else if s1.dDone then
      match opTeardown P s1 with
      | (s2, some x) => opCatch P fm.tdWraps sub s2 x
      | (s2, none) => (s2, none)
    else ({ s1 with dReg := true }, none)

/-! ### a whole run, as the harness drives it -/

/-- notifications the producer pushes after `Subscribe` has returned; panics that reach the
    pushing goroutine are collected -/
def pushAfter (fm : FMachine σ α β) (P : Plan) : St σ α β × List Err → List (Notif α) → St σ α β × List Err
  | acc, [] => acc
  | (s, esc), x :: xs =>
    if s.subs = 0 then pushAfter fm P (s, esc) xs
    else pushAfter fm P ((uFeed fm P s x).1, esc ++ (uFeed fm P s x).2.toList) xs

structure Result (σ α β : Type) where
  /-- after the script -/
  st : St σ α β
  escaped : List Err
  /-- after the follow-up notification and the final external `Unsubscribe` -/
  fin : St σ α β
  escapedFin : List Err

/-- state and escaped panics after the script (sync: played inside `Subscribe`; hot: pushed after) -/
def runScript (fm : FMachine σ α β) (P : Plan) (mode : SrcMode) (sub : Ctx) (raw : List (Notif α)) :
    St σ α β × List Err :=
  match mode with
  | .sync => ((opSubscribe fm P sub raw).1, (opSubscribe fm P sub raw).2.toList)
  | .hot => pushAfter fm P ((opSubscribe fm P sub []).1, (opSubscribe fm P sub []).2.toList) raw

/-- Run `source |> op` under a fault plan: the script, then one follow-up value pushed by the
    producer (is everything still usable?), then `Unsubscribe()` from outside. -/
def run (fm : FMachine σ α β) (P : Plan) (mode : SrcMode) (sub : Ctx) (raw : List (Notif α))
    (followUp : Notif α) : Result σ α β :=
  let r1 := runScript fm P mode sub raw
  let r2 := pushAfter fm P (r1.1, []) [followUp]
  let r3 := dUnsubscribe P fm.tdWraps r2.1
  { st := r1.1, escaped := r1.2, fin := r3.1, escapedFin := r2.2 ++ r3.2.toList }

/-! ### fault injection as a plain machine (Next-position faults only)

  For plans that only touch the operator's Next-position callback the faulty operator is again a
  `Machine` (state: closure locals × invocation counter), so `runOp` and every theorem about it
  apply; `RoProofs/Fault.lean` proves that `run` and `runOp (inject …)` agree. -/

def inject (fm : FMachine σ α β) (cbN : Nat → Option Fault) : Machine (σ × Nat) α β where
  init := (fm.base.init, 0)
  subscribes := fm.base.subscribes
  onSubscribe s c := (((fm.base.onSubscribe s.1 c).1, s.2), (fm.base.onSubscribe s.1 c).2)
  onNext s c v :=
    if fm.callsN s.1 c v then
      match cbN s.2 with
      | some (.errRet e) =>
        match fm.onErrRet with
        | some h => (((h s.1 c v e).1, s.2 + 1), (h s.1 c v e).2)
        | none => (((fm.base.onNext s.1 c v).1, s.2 + 1), (fm.base.onNext s.1 c v).2)
      | some (.panicErr p) => (((fm.base.onError s.1 c (.observer p)).1, s.2 + 1), (fm.base.onError s.1 c (.observer p)).2)
      | some (.panicVal n) =>
        (((fm.base.onError s.1 c (.observer (.panicVal n))).1, s.2 + 1), (fm.base.onError s.1 c (.observer (.panicVal n))).2)
      | none => (((fm.base.onNext s.1 c v).1, s.2 + 1), (fm.base.onNext s.1 c v).2)
    else (((fm.base.onNext s.1 c v).1, s.2), (fm.base.onNext s.1 c v).2)
  onError s c e := (((fm.base.onError s.1 c e).1, s.2), (fm.base.onError s.1 c e).2)
  onComplete s c := (((fm.base.onComplete s.1 c).1, s.2), (fm.base.onComplete s.1 c).2)

/-! ### the subscription kernel on its own: any number of finalizers, any subset panicking -/

/-- one finalizer under `execFinalizer` (subscription.go:190-205): `none` = it returns,
    `some e` = it panics with `e`; the result is the error the loop collects -/
def execFinalizer (f : Option Err) : Option Err := f.map Err.unsubscription

/-- the loop of `subscriptionImpl.Unsubscribe` (subscription.go:133-149) over the finalizer list it
    swapped out: (finalizers run, collected errors). The collected errors are re-raised joined
    after the loop iff there is at least one. -/
def finStep (acc : Nat × List Err) (f : Option Err) : Nat × List Err :=
  (acc.1 + 1, match execFinalizer f with | some e => acc.2 ++ [e] | none => acc.2)

def runFinalizers (fs : List (Option Err)) : Nat × List Err := fs.foldl finStep (0, [])

/-! ### `go` statements that run user code

  `recoverUnhandledError` (errors.go:36-47) turns a panic of the goroutine body into a call of the
  unhandled-error hook; a bare `go func` lets it kill the process. -/

inductive GoResult
  | returned
  | unhandled (e : Err)
  | crash (e : Err)
deriving DecidableEq, Repr

def goBody (recovered : Bool) (panic : Option Err) : GoResult :=
  match panic with
  | none => .returned
  | some p => if recovered then .unhandled p else .crash p

/-- `Future(factory)` (operator_creation.go:458-473): the factory runs on a goroutine of the
    library; its value is delivered as `Next, Complete`, its returned error as `Error` — but a
    *panic* of the factory is only seen by the wrapper of the goroutine: the subscriber is not told. -/
structure GoRun where
  res : GoResult
  /-- what the subscriber's callbacks receive -/
  seen : List (Notif Int) := []
deriving DecidableEq, Repr

def futureRun (recovered : Bool) (panic : Option Err) (v : Int) : GoRun :=
  match panic with
  | none => { res := .returned, seen := [.next {} v, .complete {}] }
  | some p => { res := goBody recovered (some p), seen := [] }

/-! ### a destination that is not an `observerImpl`

  `Observer[T]` is an interface; a hand-written implementation has no `tryNext` around its code.
  `subscriberImpl.NextWithContext` (subscriber.go:176-199) calls it between `s.mu.Lock()` and
  `s.mu.Unlock()` **without `defer`**: a panic travels up to the recover of
  `SubscribeWithContext` with the mutex still locked, and the handler's
  `subscription.ErrorWithContext` (subscriber.go:207-221) starts with `s.mu.Lock()`. -/

structure RawRun where
  /-- `Subscribe` never returns -/
  hang : Bool := false
  /-- calls received by the hand-written observer -/
  seen : List (Notif Int) := []
deriving DecidableEq, Repr

/-- a synchronous source emitting `vs` into a hand-written observer whose `Next` fails as planned;
    `safe`: the observable was built with a real mutex (`NewSafeObservable`); `deferred`: the
    unlock of `subscriberImpl.NextWithContext` is deferred (regenerated fact `RoGen.FaultFacts`) -/
def rawObserverRun (deferred safe : Bool) (fN : Nat → Option Fault) : Nat → List Int → RawRun → RawRun
  | _, [], r => r
  | k, v :: vs, r =>
    match panicAt fN k with
    | none => rawObserverRun deferred safe fN (k + 1) vs { r with seen := r.seen ++ [.next {} v] }
    | some p =>
      -- the panic leaves `NextWithContext`; the subscribe function is abandoned; the recover
      -- handler calls `ErrorWithContext`, which takes the mutex
      if safe && !deferred then { r with seen := r.seen ++ [.next {} v], hang := true }
      else { r with seen := r.seen ++ [.next {} v, .error {} (.observable p)] }

end Ro.Fault

/-
  RoModel.RateLimit — the two rate-limiting operators of plugins/ratelimit (property C20).

  (a) native limiter, `plugins/ratelimit/native/operator.go:27-41`, in LOGICAL time:

        Pipe2(source, GroupBy(keyGetter),
              MergeMap(PipeOp3(WindowWhen(Interval(interval)), Map(Take(count)), MergeAll())))

      The input is a timeline of `item k v` (the source emits `v`, whose key is `k`) and `tick k`
      (the `Interval` ticker of key `k`'s group fires: every group subscribes its own
      `Interval`, `operator_transformations.go:667` → `operator_creation.go:85-113`, so ticks are
      per key). Two descriptions are given and proved equal (RoProofs/RateLimit.lean):
       * the composition of small list models of the pieces the Go code composes
         (`group` = GroupBy, `windowWhen` = WindowWhen, `takeEach` = Map(Take n), `mergeAll` =
         MergeAll over windows that follow one another) — `perKey`;
       * the logical-time execution of that composition (`run`): GroupBy routes each event to
         the state of its key's group (`operator_transformations.go:354-366`), the group's
         `WindowWhen ; Take ; MergeAll` reacts as a Mealy machine whose state is the number of
         items the current window's `Take` has seen (`winStep`; `operator_filter.go:353-366`,
         a tick completes the window and opens a fresh one, `operator_transformations.go:624-645`),
         and MergeMap/MergeAll forward every emission in place (`operator_combining.go:143-147`).
      A tick for a key that has no group yet is not an event of the system (no ticker exists);
      both descriptions treat it as a no-op.

  (b) ulule limiter, `plugins/ratelimit/ulule/operator.go:25-49`: parametric in the store. The
      store is an oracle `History → key → Ans` (History = the keys it was asked so far); the
      operator asks once per item and forwards the item iff the store answered "not reached";
      a store failure is forwarded as an error.

  (c) the timed reading used by the real-time check: window numbers on a grid of period `w` with
      an arbitrary alignment `o` (`Consistent`), and the executable acceptor of observed traces
      (`accepts`), whose soundness is proved in RoProofs/RateLimitAccept.lean.

  Core Lean only (linked into the driver).
-/
import RoModel.Basic
namespace Ro.RateLimit
open Ro

variable {κ α : Type}

/-! ### vocabulary -/

/-- one event of the logical timeline -/
inductive Ev (κ α : Type)
  | item (k : κ) (v : α)
  | tick (k : κ)
deriving DecidableEq, Repr

/-- one event of a single group's substream -/
inductive GEv (α : Type)
  | item (v : α)
  | tick
deriving DecidableEq, Repr

/-- how the source ends -/
inductive End
  | never
  | complete
  | error (e : Err)
deriving DecidableEq, Repr

/-- what reaches the downstream observer -/
inductive Out (κ α : Type)
  | item (k : κ) (v : α)
  | complete
  | error (e : Err)
deriving DecidableEq, Repr

def End.toOut : End → List (Out κ α)
  | .never => []
  | .complete => [.complete]
  | .error e => [.error e]

/-- the items of a timeline, in order -/
def items : List (Ev κ α) → List (κ × α)
  | [] => []
  | .item k v :: r => (k, v) :: items r
  | .tick _ :: r => items r

/-! ### (a) the pieces, as list functions -/

/-- GroupBy: the substream of key `k` — its items and the ticks of its own ticker -/
def group [DecidableEq κ] (k : κ) : List (Ev κ α) → List (GEv α)
  | [] => []
  | .item k' v :: r => if k' = k then .item v :: group k r else group k r
  | .tick k' :: r => if k' = k then .tick :: group k r else group k r

/-- WindowWhen: (the window that is open at the start, the windows opened by later ticks) -/
def windowWhen : List (GEv α) → List α × List (List α)
  | [] => ([], [])
  | .item v :: r => (v :: (windowWhen r).1, (windowWhen r).2)
  | .tick :: r => ([], (windowWhen r).1 :: (windowWhen r).2)

/-- all windows of a group, in order (there is always a first one:
    `operator_transformations.go:647` "create and send first window") -/
def windows (g : List (GEv α)) : List (List α) := (windowWhen g).1 :: (windowWhen g).2

/-- Map(Take n) -/
def takeEach (n : Nat) (ws : List (List α)) : List (List α) := ws.map (List.take n)

/-- MergeAll over windows that follow one another: concatenation -/
def mergeAll (ws : List (List α)) : List α := ws.flatten

/-- what one group lets through: `WindowWhen ; Map(Take n) ; MergeAll` -/
def pipeline (n : Nat) (g : List (GEv α)) : List α := mergeAll (takeEach n (windows g))

/-- what the limiter lets through of key `k` -/
def perKey [DecidableEq κ] (n : Nat) (k : κ) (tl : List (Ev κ α)) : List α := pipeline n (group k tl)

/-! ### (a) the logical-time execution -/

/-- one group's `WindowWhen ; Take n ; MergeAll` as a Mealy machine; state `c` = items seen by
    the current window's Take -/
def winStep (n c : Nat) : GEv α → Nat × List α
  | .item v => (c + 1, if c < n then [v] else [])
  | .tick => (0, [])

def winRun (n : Nat) : Nat → List (GEv α) → List α
  | _, [] => []
  | c, e :: r => (winStep n c e).2 ++ winRun n (winStep n c e).1 r

/-- per-key state of GroupBy's `groups` map -/
def setKey [DecidableEq κ] (st : κ → Nat) (k : κ) (c : Nat) : κ → Nat := fun k' => if k' = k then c else st k'

def runFrom [DecidableEq κ] (n : Nat) : (κ → Nat) → List (Ev κ α) → List (κ × α)
  | _, [] => []
  | st, .item k v :: r =>
      (if st k < n then [(k, v)] else []) ++ runFrom n (setKey st k (st k + 1)) r
  | st, .tick k :: r => runFrom n (setKey st k 0) r

def run [DecidableEq κ] (n : Nat) (tl : List (Ev κ α)) : List (κ × α) := runFrom n (fun _ => 0) tl

/-- the native limiter: the passed items in timeline order, then the source's ending
    (GroupBy forwards the source's error/completion to its destination first,
    `operator_transformations.go:368-379`; MergeAll completes once every group has,
    `operator_combining.go:126-135`) -/
def native [DecidableEq κ] (n : Nat) (tl : List (Ev κ α)) (e : End) : List (Out κ α) :=
  (run n tl).map (fun p => Out.item p.1 p.2) ++ e.toOut

/-! ### (a') schedules: a tick that lands inside the completion of the source

  `WindowWhen` handles the completion of its source in two steps (`operator_transformations.go`):
  `flush(ctx, true)` closes the current window under the mutex, then
  `destination.CompleteWithContext(ctx)`; the boundary (`Interval`) is served by another goroutine,
  so a tick can be served in between. `flush` records under the mutex that the last window has
  been closed (`closed`), and a later `flush` returns at once: such a tick opens nothing, and the
  schedule has no influence on what the limiter delivers.
  (Before /repo commit a396a6b the tick opened a fresh window that `MergeAll` subscribed to and that
  nobody ever completed: the completion of the source was lost. The harness keeps driving these
  schedules, `latetick=all`.) -/

/-- the native limiter under a schedule that also says which keys' tickers fire inside the
    completion of the source (`late`): those ticks are ignored -/
def nativeSched [DecidableEq κ] (n : Nat) (tl : List (Ev κ α)) (e : End) (_late : List κ) : List (Out κ α) :=
  native n tl e

/-! ### (b) ulule -/

/-- an answer of `limiter.Get`: `(rate, nil)` with `rate.Reached`, or `(_, err)` -/
inductive Ans
  | ok (reached : Bool)
  | fail (e : Err)
deriving DecidableEq, Repr

/-- the store: a function of the keys it was asked before and the key it is asked now -/
abbrev Store (κ : Type) := List κ → κ → Ans

/-- `operator.go:31-40`: ask the store; error → `destination.Error`, not reached →
    `destination.Next`, reached → nothing. Returns what is delivered downstream. After a store
    failure the destination is closed: nothing more is delivered (the terminal of the source is
    refused too). -/
def ululeFrom (store : Store κ) : List κ → List (κ × α) → End → List (Out κ α)
  | _, [], e => e.toOut
  | h, (k, v) :: r, e =>
      match store h k with
      | .ok false => .item k v :: ululeFrom store (h ++ [k]) r e
      | .ok true => ululeFrom store (h ++ [k]) r e
      | .fail x => [.error x]

def ulule (store : Store κ) (inp : List (κ × α)) (e : End) : List (Out κ α) := ululeFrom store [] inp e

/-- the answers the store gives along the input (as long as it is asked: a synchronous source
    keeps calling the observer after a failure — the upstream subscription is only returned once
    `Subscribe` is over, `operator.go:27-45` — so `sync := true` keeps asking) -/
def answersFrom (store : Store κ) (sync : Bool) : List κ → List (κ × α) → List Ans
  | _, [] => []
  | h, (k, _) :: r =>
      match store h k with
      | .fail x => .fail x :: (if sync then answersFrom store sync (h ++ [k]) r else [])
      | a => a :: answersFrom store sync (h ++ [k]) r

def answers (store : Store κ) (sync : Bool) (inp : List (κ × α)) : List Ans := answersFrom store sync [] inp

/-- the output as a function of recorded answers only: keep the items answered "not reached" up
    to the first failure -/
def byAnswers : List (κ × α) → List Ans → End → List (Out κ α)
  | [], _, e => e.toOut
  | _ :: _, [], e => e.toOut
  | (k, v) :: r, .ok false :: as, e => .item k v :: byAnswers r as e
  | _ :: r, .ok true :: as, e => byAnswers r as e
  | _ :: _, .fail x :: _, _ => [.error x]

/-! ### (c) timed reading and the acceptor of observed traces -/

/-- window number of instant `t` on the grid of period `w` shifted by `o` (any alignment) -/
def widx (w o t : Nat) : Nat := (t + o) / w

/-- the items of a group carry their instants; the ticks are exactly the grid crossings:
    an item in window number `j` has `widx t = j`, a tick moves to window `j+1` -/
def Consistent (w o : Nat) : Nat → List (GEv (Nat × α)) → Prop
  | _, [] => True
  | j, .item p :: r => widx w o p.1 = j ∧ Consistent w o j r
  | j, .tick :: r => Consistent w o (j + 1) r

/-- the sound bound: a span of length `L` meets at most ⌊(L+slack)/w⌋ + 2 windows -/
def bound (n w slack L : Nat) : Nat := n * ((L + slack) / w + 2)

structure Cfg where
  n : Nat          -- quota
  w : Nat          -- window, µs
  slack : Nat := 0 -- µs added to every span (0 = the bound of the property statement)
deriving Repr

/-- an input item as the harness emitted it: `t0` read before the emission, `t1` after it returned -/
structure InItem (κ α : Type) where
  key : κ
  val : α
  t0 : Nat
  t1 : Nat
deriving Repr

/-- an item as the recording observer saw it -/
structure ObsItem (κ α : Type) where
  key : κ
  val : α
  ts : Nat
deriving Repr

def inKey [DecidableEq κ] (k : κ) (inp : List (InItem κ α)) : List α := (inp.filter (fun i => i.key = k)).map (·.val)
def obsKey [DecidableEq κ] (k : κ) (obs : List (ObsItem κ α)) : List α := (obs.filter (fun i => i.key = k)).map (·.val)
def obsTimes [DecidableEq κ] (k : κ) (obs : List (ObsItem κ α)) : List Nat := (obs.filter (fun i => i.key = k)).map (·.ts)

/-- number of instants of `ts` in the closed span [lo, hi] -/
def countIn (ts : List Nat) (lo hi : Nat) : Nat := (ts.filter (fun t => lo ≤ t && t ≤ hi)).length

/-- the quota bound on every span between two passed items -/
def quotaOk (c : Cfg) (ts : List Nat) : Bool :=
  ts.all (fun lo => ts.all (fun hi => !(lo ≤ hi) || countIn ts lo hi ≤ bound c.n c.w c.slack (hi - lo)))

/-- independence oracle: the ticker of a key is created after the key's first item was emitted
    and fires no earlier than `w` later, so an item among the first `n` of its key whose emission
    returned before `t0(first item of the key) + w` sits in the key's first window and must pass -/
def freshOk [DecidableEq κ] [DecidableEq α] (c : Cfg) (inp : List (InItem κ α)) (obs : List (ObsItem κ α)) : Bool :=
  inp.all (fun i =>
    match (inp.filter (fun j => j.key = i.key)).head? with
    | none => true
    | some f =>
        (((inp.filter (fun j => j.key = i.key)).take c.n).all (fun j =>
          !(j.t1 < f.t0 + c.w) || (obsKey j.key obs).contains j.val)))

/-- acceptor of an observed trace of the native limiter -/
def accepts [DecidableEq κ] [DecidableEq α] (c : Cfg) (inp : List (InItem κ α)) (e : End)
    (obs : List (ObsItem κ α)) (term : End) : Bool :=
  obs.all (fun o => (obsKey o.key obs).isSublist (inKey o.key inp) && quotaOk c (obsTimes o.key obs))
  && freshOk c inp obs
  && decide (term = e)

end Ro.RateLimit

/-
  RoModel.Render — canonical text form of values, errors, contexts and notifications, shared by
  the Lean driver and (re-implemented identically) the Go harness.
-/
import RoModel.Machine
namespace Ro

class Render (α : Type) where
  render : α → String

export Render (render)

instance : Render Int := ⟨fun i => toString i⟩
instance : Render Nat := ⟨fun i => toString i⟩
instance : Render Bool := ⟨fun b => if b then "t" else "f"⟩
instance : Render Unit := ⟨fun _ => "u"⟩
instance {α} [Render α] : Render (List α) := ⟨fun l => "[" ++ ";".intercalate (l.map render) ++ "]"⟩
instance {α β} [Render α] [Render β] : Render (α × β) := ⟨fun p => "(" ++ render p.1 ++ ":" ++ render p.2 ++ ")"⟩

def renderCtx (c : Ctx) : String :=
  if c.isNil then "nil" else if c.marks.isEmpty then "-" else ".".intercalate (c.marks.map toString)

def renderErr : Err → String
  | .user n => "u" ++ toString n
  | .sentinel n => "s" ++ toString n
  | .panicVal n => "p" ++ toString n
  | .observer e => "ob(" ++ renderErr e ++ ")"
  | .observable e => "oe(" ++ renderErr e ++ ")"
  | .unsubscription e => "un(" ++ renderErr e ++ ")"

instance : Render Err := ⟨renderErr⟩

/-- notification without its context (used for materialised values and drops) -/
def renderNotifBare {α} [Render α] : Notif α → String
  | .next _ v => "N" ++ render v
  | .error _ e => "E" ++ renderErr e
  | .complete _ => "C"

instance {α} [Render α] : Render (Notif α) := ⟨fun n => "<" ++ renderNotifBare n ++ ">"⟩

def renderNotif {α} [Render α] (n : Notif α) : String :=
  renderNotifBare n ++ "/" ++ renderCtx n.ctx

def renderTrace {α} [Render α] (l : List (Notif α)) : String :=
  if l.isEmpty then "-" else ",".intercalate (l.map renderNotif)

def renderDrop {α β} [Render α] [Render β] : Drop α β → String
  | .up n => renderNotifBare n
  | .down n => renderNotifBare n

def renderDrops {α β} [Render α] [Render β] (l : List (Drop α β)) : String :=
  if l.isEmpty then "-" else ",".intercalate (l.map renderDrop)

def renderNats (l : List Nat) : String :=
  if l.isEmpty then "-" else ",".intercalate (l.map toString)

/-- sort rendered entries (Go maps have no order; the harness sorts the same strings) -/
def insertSorted (p : String) : List String → List String
  | [] => [p]
  | q :: qs => if p < q then p :: q :: qs else q :: insertSorted p qs

def renderMap {κ β} [Render κ] [Render β] (m : List (κ × β)) : String :=
  let ps := (m.map (fun p => render p.1 ++ ":" ++ render p.2)).foldr insertSorted []
  "{" ++ ";".intercalate ps ++ "}"

/-- a map-valued output -/
structure MapVal (κ β : Type) where
  entries : List (κ × β)

instance {κ β} [Render κ] [Render β] : Render (MapVal κ β) := ⟨fun m => renderMap m.entries⟩

end Ro

/-
  RoModel.CutIn — the operator-level half of C06 and C03 (add-only companion of Machine.lean):

  §1  `runOpCutIn`: a hot source, an operator machine, and a final observer that calls
      `Unsubscribe` on its own subscription while it is handling its k-th delivered notification
      (or: another goroutine does so while that callback is in progress — the same state change).
  §2  `collect`: what `ro.Collect` / `ro.CollectWithContext` return for a run (observable.go:327-362).
  §3  the finalizer loop of `subscriptionImpl.Unsubscribe` (subscription.go:114-150) over trees of
      subscriptions with panicking teardowns.

  Core Lean only: linked into the `driver` executable.
-/
import RoModel.Machine
namespace Ro
variable {σ α β : Type}

/-! ## §1 Unsubscribe from inside the observer's callback

  Go, read line by line. The final observer sits in the downstream subscriber `S`
  (`subscriberImpl`, subscriber.go:141-168). `S.NextWithContext` (176-197) loads `status`; if it is
  0 it calls the observer. Inside that call the observer calls `S.Unsubscribe()` (259-263): the CAS
  `status 0 → 2` succeeds (no lock is needed: 142-145), `s.Subscription.Unsubscribe()` runs the
  finalizers at once (subscription.go:114-150), among them the teardown the operator's subscribe
  function returned, i.e. the upstream `Unsubscribe` — the hot source is released *before the
  callback returns*. When the callback has returned, the operator may still be in the middle of its
  reaction to the current input (`Flatten`, `EndWith`, `StartWith`'s prefix loop …): each further
  `destination.Next/Error/Complete` finds `status ≠ 0` and is handed to `OnDroppedNotification`
  (193, 213, 235). Later inputs are refused by the operator's own upstream subscriber, which the
  teardown closed (CAS in its `Unsubscribe`).
  If the k-th delivered notification is the terminal one, `S.ErrorWithContext`/`CompleteWithContext`
  has already swapped `status` (208, 230): the observer's `Unsubscribe` loses the CAS and does
  nothing; `S` unsubscribes itself after the callback (218, 240) — same final state.
  When the k-th delivery happens during `Subscribe` (subscribe-time emissions: `StartWith`), the
  teardown does not exist yet; `subscription.Add` (observable.go:310, subscription.go:86-87) runs it
  as soon as the subscribe function returns: `RunSt.afterSubscribe`. -/

/-- hand one emission to the downstream subscriber; the observer unsubscribes itself while handling
    the `k`-th notification it is given (1-based; `k = 0`: never) -/
def RunSt.pushCutIn (k : Nat) (r : RunSt σ α β) (n : Notif β) : RunSt σ α β :=
  if r.downOpen then
    { r with out := r.out ++ [n], downOpen := !n.isTerminal && (r.out.length + 1 != k) }
  else
    { r with drops := r.drops ++ [.down n] }

def RunSt.pushAllCutIn (k : Nat) (r : RunSt σ α β) (ns : List (Notif β)) : RunSt σ α β :=
  ns.foldl (RunSt.pushCutIn k) r

/-- one upstream notification of a hot source -/
def RunSt.feedCutIn (m : Machine σ α β) (k : Nat) (r : RunSt σ α β) (x : Notif α) : RunSt σ α β :=
  if r.upOpen then
    (({ r with st := (m.step r.st x).1 }).pushAllCutIn k (m.step r.st x).2).settle .hot x.isTerminal r.out.length
  else
    { r with drops := r.drops ++ [.up x], steps := r.steps ++ [0] }

def Machine.startCutIn (m : Machine σ α β) (sub : Ctx) (k : Nat) : RunSt σ α β :=
  ({ st := (m.onSubscribe m.init sub).1 } : RunSt σ α β).pushAllCutIn k (m.onSubscribe m.init sub).2

/-- Run a raw script over a hot source; the final observer calls `Unsubscribe` on its own
    subscription (a ready-made `Subscriber`, so the handle exists from the start) during its
    `k`-th callback. -/
def runOpCutIn (m : Machine σ α β) (sub : Ctx) (raw : List (Notif α)) (k : Nat) : RunSt σ α β :=
  let r0 := m.startCutIn sub k
  if m.subscribes then raw.foldl (RunSt.feedCutIn m k) (r0.afterSubscribe .hot) else r0

/-- The variant with the handle *returned by Subscribe*: an observer that decides to unsubscribe
    during a callback that runs inside `Subscribe` has no handle yet and does it as soon as
    `Subscribe` has returned — an external `Unsubscribe` before the first input (`runOpCut … 0`). -/
def runOpCutInRet (m : Machine σ α β) (sub : Ctx) (raw : List (Notif α)) (k : Nat) : RunSt σ α β :=
  if 0 < k && k ≤ (m.start sub).out.length then runOpCut m sub raw 0 else runOpCutIn m sub raw k

/-! ## §2 Collect

  `CollectWithContext` (observable.go:337-362) subscribes an observer with three callbacks —
  append the value; store the error and the context; store the context — then calls `sub.Wait()`
  and returns the three locals. `Wait` (subscription.go:172-183) returns exactly when the
  subscription is done; without an external `Unsubscribe` the subscriber is done exactly when it has
  forwarded a terminal notification (subscriber.go:218, 240): `downOpen = false`. -/

structure CollectSt (β : Type) where
  values : List β := []
  lastCtx : Option Ctx := none
  err : Option Err := none
deriving Repr, DecidableEq

/-- the three callbacks of observable.go:345-356 -/
def CollectSt.on (s : CollectSt β) : Notif β → CollectSt β
  | .next _ v => { s with values := s.values ++ [v] }
  | .error c e => { s with err := some e, lastCtx := some c }
  | .complete c => { s with lastCtx := some c }

/-- the locals after the observer has been given `out` -/
def collectFold (out : List (Notif β)) : CollectSt β := out.foldl CollectSt.on {}

/-- `Collect` on a finished run: `none` = `Wait` does not return -/
def collect (r : RunSt σ α β) : Option (CollectSt β) :=
  if r.downOpen then none else some (collectFold r.out)

/-! ## §3 The finalizer loop with panicking teardowns

  `subscriptionImpl.Unsubscribe` (subscription.go:114-150): under the lock, set `done`, take the
  list; after unlocking run every finalizer through `execFinalizer` (186-201), which turns a panic
  `e` into `newUnsubscriptionError(recoverValueToError(e))`; after the loop, if any error was
  collected, `panic(xerrors.Join(errs...))`. A finalizer is either a user teardown or the
  `Unsubscribe` of another subscription (operator's upstream subscriber, composite subscription):
  the panic escaping from that inner `Unsubscribe` is, for the outer loop, one more panicking
  finalizer. -/

/-- what travels as a panic value / error through the teardown chain -/
inductive TErr
  | val (e : Err)              -- the value a teardown panicked with (`recoverValueToError`)
  | un (e : TErr)              -- `newUnsubscriptionError` (errors.go)
  | join (es : List TErr)      -- `xerrors.Join` (internal/xerrors/join.go)
deriving Repr

/-- a finalizer: a user teardown (identified by `id`, panicking with `panic` if given), the
    `Unsubscribe` of an inner subscription holding its own finalizer list, or a Go closure that
    performs several release actions one after the other WITHOUT isolating them
    (`func() { subscriptions.Unsubscribe(); stop() }`, operator_utility.go:647-650): a panic in one
    action ends the closure, the remaining actions are skipped and the panic escapes unwrapped;
    or a closure that DEFERS its library-internal release actions
    (`func() { defer stop(); subscriptions.Unsubscribe() }`, operator_utility.go:647-653 since fix
    694a874): the body runs, then the releases `rel` (ids of actions that cannot panic: closing a
    channel once) run whether or not the body panicked, and the body's panic escapes unwrapped -/
inductive Fin
  | leaf (id : Nat) (panic : Option Err)
  | sub (fs : List Fin)
  | closure (fs : List Fin)
  | deferred (body : Fin) (rel : List Nat)
deriving Repr

mutual
/-- calling one finalizer: (teardowns run, in order; the panic that escapes from the call) -/
def Fin.run : Fin → List Nat × Option TErr
  | .leaf id p => ([id], p.map TErr.val)
  | .sub fs =>
    let r := Fin.loop fs
    (r.1, if r.2.isEmpty then none else some (.join r.2))
  | .closure fs => Fin.seq fs
  | .deferred body rel => let a := Fin.run body; (a.1 ++ rel, a.2)
/-- the loop of subscription.go:136-142: every finalizer runs; errors are collected -/
def Fin.loop : List Fin → List Nat × List TErr
  | [] => ([], [])
  | f :: fs =>
    let a := Fin.run f
    let b := Fin.loop fs
    (a.1 ++ b.1, (match a.2 with | some e => [TErr.un e] | none => []) ++ b.2)
/-- the statements of a closure: the first panic ends it -/
def Fin.seq : List Fin → List Nat × Option TErr
  | [] => ([], none)
  | f :: fs =>
    let a := Fin.run f
    match a.2 with
    | some e => (a.1, some e)
    | none => let b := Fin.seq fs; (a.1 ++ b.1, b.2)
end

mutual
/-- no unisolated multi-action closure anywhere in the tree (a deferred release is isolated) -/
def Fin.closureFree : Fin → Bool
  | .leaf _ _ => true
  | .sub fs => Fin.closureFreeL fs
  | .closure _ => false
  | .deferred body _ => Fin.closureFree body
def Fin.closureFreeL : List Fin → Bool
  | [] => true
  | f :: fs => Fin.closureFree f && Fin.closureFreeL fs
end

/-- `Unsubscribe` of a subscription whose finalizer list is `fs` -/
def unsubscribe (fs : List Fin) : List Nat × Option TErr := Fin.run (.sub fs)

mutual
/-- the root causes inside a raised value, left to right -/
def TErr.leaves : TErr → List Err
  | .val e => [e]
  | .un e => TErr.leaves e
  | .join es => TErr.leavesL es
def TErr.leavesL : List TErr → List Err
  | [] => []
  | e :: es => TErr.leaves e ++ TErr.leavesL es
end

mutual
/-- the user teardowns of a tree, depth first -/
def Fin.ids : Fin → List Nat
  | .leaf id _ => [id]
  | .sub fs => Fin.idsL fs
  | .closure fs => Fin.idsL fs
  | .deferred body rel => Fin.ids body ++ rel
def Fin.idsL : List Fin → List Nat
  | [] => []
  | f :: fs => Fin.ids f ++ Fin.idsL fs
end

mutual
/-- the USER teardowns of a tree (those that may panic), depth first: `ids` without the
    library-internal releases of deferred closures -/
def Fin.uids : Fin → List Nat
  | .leaf id _ => [id]
  | .sub fs => Fin.uidsL fs
  | .closure fs => Fin.uidsL fs
  | .deferred body _ => Fin.uids body
def Fin.uidsL : List Fin → List Nat
  | [] => []
  | f :: fs => Fin.uids f ++ Fin.uidsL fs
end

mutual
/-- the values the panicking teardowns of a tree panic with, depth first -/
def Fin.panics : Fin → List Err
  | .leaf _ p => p.toList
  | .sub fs => Fin.panicsL fs
  | .closure fs => Fin.panicsL fs
  | .deferred body _ => Fin.panics body
def Fin.panicsL : List Fin → List Err
  | [] => []
  | f :: fs => Fin.panics f ++ Fin.panicsL fs
end

/-- is the raised value what `Unsubscribe` raises: a join of unsubscription errors -/
def TErr.isJoinOfUn : TErr → Bool
  | .join es => !es.isEmpty && es.all (fun e => match e with | .un _ => true | _ => false)
  | _ => false

mutual
/-- give the teardowns of a tree their panic values: `pan` maps a teardown id to the value -/
def Fin.assign (pan : Nat → Option Err) : Fin → Fin
  | .leaf id _ => .leaf id (pan id)
  | .sub fs => .sub (Fin.assignL pan fs)
  | .closure fs => .closure (Fin.assignL pan fs)
  | .deferred body rel => .deferred (Fin.assign pan body) rel
def Fin.assignL (pan : Nat → Option Err) : List Fin → List Fin
  | [] => []
  | f :: fs => Fin.assign pan f :: Fin.assignL pan fs
end

end Ro

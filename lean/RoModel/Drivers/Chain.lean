/-
  RoModel.Drivers.Chain — `kind=chain` (random chains of int→int operators composed with
  `Machine.seq`) and `kind=reuse` (C12: the same pipeline subscribed several times, one operator
  value applied to two sources).
-/
import RoModel.DriverCore
namespace Ro.Driver.Drivers.Chain
open Ro Ro.Driver

/-- a machine Int → Int with its state type hidden -/
structure AnyM where
  σ : Type
  m : Machine σ Int Int

def AnyM.seq (a b : AnyM) : AnyM := ⟨_, a.m.seq b.m⟩

/-- the chainable (Int → Int) operators -/
def lookupII (op : String) (p : List Int) (var : String) (cbs : List Cb) : Option AnyM :=
  match op, p, cbs with
  | "Filter", [], [cb] => (mkPred var cb).map (fun f => ⟨_, filterM f⟩)
  | "Distinct", [], [] => some ⟨_, distinctByM (fun c (v : Int) => (c, v))⟩
  | "DistinctBy", [], [cb] =>
      (unary cb.name).map (fun f => ⟨_, distinctByM (fun c (v : Int) => (tagWith (if hasCtx var then cb.tag else none) c, f v))⟩)
  | "IgnoreElements", [], [] => some ⟨_, ignoreElementsM (α := Int)⟩
  | "Skip", [n], [] => some ⟨_, skipM (α := Int) (natOf n)⟩
  | "SkipWhile", [], [cb] => (mkPred var cb).map (fun f => ⟨_, skipWhileM f⟩)
  | "SkipLast", [n], [] => some ⟨_, skipLastM (α := Int) (natOf n)⟩
  | "Take", [n], [] => if n == 0 then none else some ⟨_, takeM (α := Int) (natOf n)⟩
  | "TakeWhile", [], [cb] => (mkPred var cb).map (fun f => ⟨_, takeWhileM f⟩)
  | "TakeLast", [n], [] => if n == 0 then none else some ⟨_, takeLastM (α := Int) (natOf n)⟩
  | "Head", [], [] => some ⟨_, headM (α := Int)⟩
  | "Tail", [], [] => some ⟨_, tailM (α := Int)⟩
  | "First", [], [cb] => (mkPred var cb).map (fun f => ⟨_, firstM f⟩)
  | "Last", [], [cb] => (mkPred var cb).map (fun f => ⟨_, lastM f⟩)
  | "ElementAt", [n], [] => some ⟨_, elementAtM (α := Int) (natOf n)⟩
  | "ElementAtOrDefault", [n, d], [] => some ⟨_, elementAtOrDefaultM (natOf n) d⟩
  | "Map", [], [cb] => (mkProj var cb).map (fun f => ⟨_, mapM f⟩)
  | "MapTo", [b], [] => some ⟨_, mapToM (α := Int) b⟩
  | "MapErr", [k], [cb] => (mkProjErr var cb k).map (fun f => ⟨_, mapErrM f⟩)
  | "Scan", [seed], [cb] => (mkRed var cb).map (fun f => ⟨_, scanM f seed⟩)
  | "StartWith", pre, [] => some ⟨_, startWithM pre⟩
  | "EndWith", suf, [] => some ⟨_, endWithM suf⟩
  | "Tap", [], [] => some ⟨_, idM (α := Int)⟩
  | "TapOnSubscribe", [], [] => some ⟨_, idM (α := Int)⟩
  | "TapOnFinalize", [], [] => some ⟨_, idM (α := Int)⟩
  | "Serialize", [], [] => some ⟨_, idM (α := Int)⟩
  | "OnErrorReturn", [v], [] => some ⟨_, onErrorReturnM v⟩
  | "ThrowIfEmpty", [k], [] => some ⟨_, throwIfEmptyM (α := Int) (.user (natOf k))⟩
  | "MaterializeDematerialize", [], [] => some ⟨_, (materializeM (α := Int)).seq dematerializeM⟩
  | "Find", [], [cb] => (mkBoolPred var cb).map (fun f => ⟨_, findM f⟩)
  | "DefaultIfEmpty", [d], [] => some ⟨_, defaultIfEmptyM Ctx.bg d⟩
  | "DefaultIfEmptyWithContext", [d, m], [] => some ⟨_, defaultIfEmptyM ({ marks := [natOf m] }) d⟩
  | "Sum", [], [] => some ⟨_, sumM⟩
  | "Min", [], [] => some ⟨_, minM⟩
  | "Max", [], [] => some ⟨_, maxM⟩
  | "Clamp", [lo, hi], [] => some ⟨_, clampM lo hi⟩
  | "Reduce", [seed], [cb] => (mkRed var cb).map (fun f => ⟨_, reduceM f seed⟩)
  -- RoModel/Ops/More.lean
  | "ContextWithValue", [m], [] =>
      some (if (ctxWithValueUp (natOf m) Ctx.bg).marks.contains (natOf m)
        then ⟨_, (ctxWithValueM (α := Int) upMark).seq (ctxWithValueM (natOf m))⟩
        else ⟨_, ctxWithValueM (α := Int) (natOf m)⟩)
  | "ContextWithTimeout", [], [] => some ⟨_, contextMapM (α := Int) (fun c _ => c)⟩
  | "ContextWithDeadline", [], [] => some ⟨_, contextMapM (α := Int) (fun c _ => c)⟩
  | "ContextMap", [], [cb] => (ctxMapCb var cb).map (fun f => ⟨_, contextMapM (α := Int) f⟩)
  | "TapOnSubscribeWithContext", [], [] => some ⟨_, idM (α := Int)⟩
  | "DoOnSubscribe", [], [] => some ⟨_, idM (α := Int)⟩
  | "DoOnFinalize", [], [] => some ⟨_, idM (α := Int)⟩
  | "DelayEach", [], [] => some ⟨_, idM (α := Int)⟩
  | "TimeInterval", [], [] => some ⟨_, (timedM (α := Int) (fun _ => ())).mapOut Prod.fst⟩
  | "Timestamp", [], [] => some ⟨_, (timedM (α := Int) (fun _ => ())).mapOut Prod.fst⟩
  | name, [], [] => (tapSel name).map (fun sel => ⟨_, tapM sel⟩)
  | _, _, _ => none

def parseStage (t : String) : Option AnyM :=
  match t.splitOn "/" with
  | [name, var, cb, ps] =>
    let p := if ps == "-" then [] else (ps.splitOn ".").filterMap String.toInt?
    let cbs := if cb == "-" then [] else [parseCb cb]
    lookupII name p var cbs
  | _ => none

def buildChain : List AnyM → Option AnyM
  | [] => none
  | [a] => some a
  | a :: rest => (buildChain rest).map (fun r => a.seq r)

/-- left-nested composition, as the Go pipe builds it: ((src |> a) |> b) |> c -/
def buildChainL : List AnyM → Option AnyM
  | [] => none
  | a :: rest => some (rest.foldl AnyM.seq a)

def runChain (c : Case) : String :=
  let sub := parseCtx (c.getD "sub" "-")
  let mode := if c.getD "mode" "sync" == "hot" then SrcMode.hot else SrcMode.sync
  let cut := (c.get "cut").bind String.toNat?
  match ((c.getD "ops" "").splitOn "|").mapM parseStage, parseScript sub (c.getD "src" "-") with
  | some stages, some raw =>
    match buildChainL stages with
    | some a =>
      let r := match cut with
        | none => runOp a.m mode sub raw
        | some k => runOpCut a.m sub raw k
      let rel := if a.m.subscribes && (!r.upOpen || !r.downOpen) then 1 else 0
      let closed := if r.downOpen then 0 else 1
      s!"res {c.id} trace={renderTrace r.out} subs={a.m.subs} rel={rel} closed={closed}"
    | none => s!"res {c.id} unsupported"
  | none, _ => s!"res {c.id} unsupported"
  | _, none => s!"res {c.id} bad-script"

/-- C12: every subscription of a machine-modelled pipeline is the same run; applying the operator
    value to another source does not interfere -/
def runReuse (c : Case) : String :=
  let sub : Ctx := { marks := [7] }
  let cbs := match c.get "cb" with
    | some s => if s == "-" then [] else (s.splitOn ",").map parseCb
    | none => []
  let go (src : String) : Option (String × Nat) :=
    match parseScript sub src, lookup (c.getD "op" "?") (parseInts (c.getD "p" "-")) (c.getD "var" "plain") cbs with
    | some raw, some run =>
      -- reuse the op runner and keep its `trace=` and `subs=` fields
      let line := run .sync sub raw none
      let fields := (line.splitOn " ").filterMap splitKV
      let tr := ((fields.find? (·.1 == "trace")).map (·.2)).getD "?"
      let sb := (((fields.find? (·.1 == "subs")).bind (·.2.toNat?))).getD 0
      some (tr, sb)
    | _, _ => none
  match go (c.getD "src" "-"), go (c.getD "src2" "-") with
  | some (t, s1), some (b, s2) =>
    s!"res {c.id} built=0 b1={b} t1={t} t2={t} t3={t} conc=1 t4={b} subs1={s1 * 7 + s2} subs2={s2}"
  | _, _ => s!"res {c.id} unsupported"

/-- `kind=reusemulti` (C12): an operator value that captures other observables, applied to several
    sources, behaves like fresh operator values applied to each (pipelines are functions of their
    source); nothing is subscribed at construction -/
def runReuseMulti (c : Case) : String := s!"res {c.id} same=1 built=0"

end Ro.Driver.Drivers.Chain

/-
  RoModel.Drivers.ObsShared — `kind=sharedobs` (C01; go/harness/sharedobs.go): one observer attached through Subscribe to two
  hot sources; events `a:N1@1` / `b:C@2` in arrival order.
    case 2 kind=sharedobs via=plain sub=7 ev=a:N1@1,b:N2@2,a:C@3,b:N3@4
    res 2 trace=N1/7.1,N2/7.2,C/7.3 drops=N3
-/
import RoModel.DriverCore
import RoModel.ObsShared
namespace Ro.Driver.Drivers.ObsShared
open Ro Ro.Driver

def parseEv (sub : Ctx) (t : String) : Option (Nat × Notif Int) :=
  match t.splitOn ":" with
  | [w, tok] => (parseTok sub tok).map (fun n => (if w == "a" then 0 else 1, n))
  | _ => none

def run (c : Case) : String :=
  let sub := parseCtx (c.getD "sub" "-")
  let s := c.getD "ev" "-"
  match (if s == "-" || s == "" then some [] else (s.splitOn ",").mapM (parseEv sub)) with
  | some evs =>
    let r := Ro.ObsShared.run evs
    let drops := if r.dropped.isEmpty then "-" else ",".intercalate (r.dropped.map renderNotifBare)
    s!"res {c.id} trace={renderTrace r.trace} drops={drops}"
  | none => s!"res {c.id} bad-case"

end Ro.Driver.Drivers.ObsShared

/-
  RoModel.Drivers.Prom — `kind=prom` (property C19): a pipeline built with the enterprise
  `roprometheus.PipeN` (pipe=ee) or by plain application (pipe=ro) over a chain of int→int
  catalogue operators and stand-alone counting operators, licence on/off, one or several
  subscriptions each with its own raw script. Mirrors go/harness/prom.go.

    case 7 kind=prom pipe=ee lic=on mode=hot conc=0 chain=Take:2:plain:x/CntN:x:plain:x/Map:x:ctx:dbl+t51 (x stands for a dash) sub=7 cut=-,1 srcs=N1@1,N2@2,C@3;N5@1
    res 7 traces=N2/7.1.51,N4/7.2.51,C/7.2;- rel=1;1 ssub=1;1 m=subs:2,in:2,out:2,lag:2,proc:2.2.2 x=2
-/
import RoModel.DriverCore
import RoModel.Prom
namespace Ro.Driver.Drivers.Prom
open Ro Ro.Driver Ro.Prom

/-! The int→int catalogue operators (go/harness/ops.go, `chain: true`) as packed machines: the same
    table as `Ro.Driver.lookup`, restricted to that subset. It is a list of (name, builder) so that
    statements about *every* stage the driver can build are proved entry by entry. -/

/-- parameters × variant × callbacks → stage -/
abbrev Builder := List Int → String → List Cb → Option (AnyM Int)

def b0 (a : AnyM Int) : Builder := fun p _ cbs =>
  match p, cbs with | [], [] => some a | _, _ => none
def b1 (f : Int → AnyM Int) : Builder := fun p _ cbs =>
  match p, cbs with | [n], [] => some (f n) | _, _ => none
def b2 (f : Int → Int → AnyM Int) : Builder := fun p _ cbs =>
  match p, cbs with | [n, d], [] => some (f n d) | _, _ => none
def bList (f : List Int → AnyM Int) : Builder := fun p _ cbs =>
  match cbs with | [] => some (f p) | _ => none
def bPred (f : Pred Int → AnyM Int) : Builder := fun p var cbs =>
  match p, cbs with | [], [cb] => (mkPred var cb).map f | _, _ => none
def bProj (f : (Ctx → Int → Nat → Ctx × Int) → AnyM Int) : Builder := fun p var cbs =>
  match p, cbs with | [], [cb] => (mkProj var cb).map f | _, _ => none
def bBool (f : (Ctx → Int → Nat → Bool) → AnyM Int) : Builder := fun p var cbs =>
  match p, cbs with | [], [cb] => (mkBoolPred var cb).map f | _, _ => none
def bProjErr (f : (Ctx → Int → Nat → Int × Ctx × Option Err) → AnyM Int) : Builder := fun p var cbs =>
  match p, cbs with | [k], [cb] => (mkProjErr var cb k).map f | _, _ => none
def bRed (f : (Ctx → Int → Int → Nat → Ctx × Int) → Int → AnyM Int) : Builder := fun p var cbs =>
  match p, cbs with | [seed], [cb] => (mkRed var cb).map (fun g => f g seed) | _, _ => none
def bKey (f : (Ctx → Int → Ctx × Int) → AnyM Int) : Builder := fun p var cbs =>
  match p, cbs with
  | [], [cb] => (unary cb.name).map (fun g => f (fun c v => (tagWith (if hasCtx var then cb.tag else none) c, g v)))
  | _, _ => none

def stageTable : List (String × Builder) := [
  -- operator_filter.go
  ("Filter", bPred (fun f => AnyM.of (filterM f))),
  ("Distinct", b0 (AnyM.of (distinctByM (fun c (v : Int) => (c, v))))),
  ("DistinctBy", bKey (fun k => AnyM.of (distinctByM k))),
  ("IgnoreElements", b0 (AnyM.of (ignoreElementsM (α := Int)))),
  ("Skip", b1 (fun n => AnyM.of (skipM (α := Int) (natOf n)))),
  ("SkipWhile", bPred (fun f => AnyM.of (skipWhileM f))),
  ("SkipLast", b1 (fun n => AnyM.of (skipLastM (α := Int) (natOf n)))),
  ("Take", b1 (fun n => if n == 0 then AnyM.of (emptyM (α := Int) (β := Int)) else AnyM.of (takeM (α := Int) (natOf n)))),
  ("TakeWhile", bPred (fun f => AnyM.of (takeWhileM f))),
  ("TakeLast", b1 (fun n => if n == 0 then AnyM.of (emptyM (α := Int) (β := Int)) else AnyM.of (takeLastM (α := Int) (natOf n)))),
  ("Head", b0 (AnyM.of (headM (α := Int)))),
  ("Tail", b0 (AnyM.of (tailM (α := Int)))),
  ("First", bPred (fun f => AnyM.of (firstM f))),
  ("Last", bPred (fun f => AnyM.of (lastM f))),
  ("ElementAt", b1 (fun n => AnyM.of (elementAtM (α := Int) (natOf n)))),
  ("ElementAtOrDefault", b2 (fun n d => AnyM.of (elementAtOrDefaultM (natOf n) d))),
  -- operator_transformations.go and the single-source operators of combining / utility
  ("Map", bProj (fun f => AnyM.of (mapM f))),
  ("MapTo", b1 (fun b => AnyM.of (mapToM (α := Int) b))),
  ("MapErr", bProjErr (fun f => AnyM.of (mapErrM f))),
  ("Scan", bRed (fun f seed => AnyM.of (scanM f seed))),
  ("StartWith", bList (fun pre => AnyM.of (startWithM pre))),
  ("EndWith", bList (fun suf => AnyM.of (endWithM suf))),
  ("Tap", b0 (AnyM.of (idM (α := Int)))),
  ("TapOnSubscribe", b0 (AnyM.of (idM (α := Int)))),
  ("TapOnFinalize", b0 (AnyM.of (idM (α := Int)))),
  ("Serialize", b0 (AnyM.of (idM (α := Int)))),
  ("OnErrorReturn", b1 (fun v => AnyM.of (onErrorReturnM v))),
  ("ThrowIfEmpty", b1 (fun k => AnyM.of (throwIfEmptyM (α := Int) (.user (natOf k))))),
  ("MaterializeDematerialize", b0 (AnyM.of ((materializeM (α := Int)).seq dematerializeM))),
  -- operator_conditional.go / operator_math.go
  ("Find", bBool (fun f => AnyM.of (findM f))),
  ("DefaultIfEmpty", b1 (fun d => AnyM.of (defaultIfEmptyM Ctx.bg d))),
  ("DefaultIfEmptyWithContext", b2 (fun d m => AnyM.of (defaultIfEmptyM ({ marks := [natOf m] }) d))),
  ("Sum", b0 (AnyM.of sumM)),
  ("Min", b0 (AnyM.of minM)),
  ("Max", b0 (AnyM.of maxM)),
  ("Clamp", b2 (fun lo hi => AnyM.of (clampM lo hi))),
  ("Reduce", bRed (fun f seed => AnyM.of (reduceM f seed)))]

def stageOf (op : String) (p : List Int) (var : String) (cbs : List Cb) : Option (AnyM Int) :=
  (stageTable.find? (fun e => e.1 == op)).bind (fun e => e.2 p var cbs)

/-- the plugin's stand-alone operators; with the licence off they are `return source` -/
def standalone (lic : Bool) : String → Option (AnyM Int)
  | "CntN" => some (if lic then AnyM.cntNext else AnyM.off)
  | "CntE" => some (if lic then AnyM.cntError else AnyM.off)
  | "CntC" => some (if lic then AnyM.cntComplete else AnyM.off)
  | "CntS" => some (if lic then AnyM.cntSub else AnyM.off)
  | "Lag" => some (if lic then AnyM.lag else AnyM.off)
  | _ => none

/-- a chain element `Name:params:variant:callback`; the flag says "stand-alone counter" -/
def parseElem (lic : Bool) (t : String) : Option (AnyM Int × Bool) :=
  match t.splitOn ":" with
  | [name, p, var, cb] =>
    match standalone lic name with
    | some a => some (a, true)
    | none => (stageOf name (parseInts p) var (if cb == "-" || cb == "" then [] else [parseCb cb])).map (fun a => (a, false))
  | _ => none

def parseChain (lic : Bool) (s : String) : Option (List (AnyM Int × Bool)) :=
  if s == "-" || s == "" then some [] else (s.splitOn "/").mapM (parseElem lic)

def parseCuts (s : String) (n : Nat) : List (Option Nat) :=
  let f := s.splitOn ","
  (List.range n).map (fun j => (f[j]?).bind String.toNat?)

def renderNatsDot (l : List Nat) : String :=
  if l.isEmpty then "-" else ".".intercalate (l.map toString)

def addLists (a b : List Nat) : List Nat :=
  if a.isEmpty then b else if b.isEmpty then a else List.zipWith (· + ·) a b

structure SubRes where
  trace : String
  rel : Nat
  ssub : Nat
  counters : Counters
  extra : List Nat

def runSub (ee lic hot : Bool) (sub : Ctx) (ms : List (AnyM Int)) (raw : List (Notif Int)) (cut : Option Nat) : SubRes :=
  if ee && lic then
    let r := run hot sub (instrument ms) raw cut
    { trace := renderTrace (eraseL r.out), rel := r.rel, ssub := r.srcSubs,
      counters := counters ms r.cfg, extra := tailTallies ms r.cfg.2 }
  else
    let r := run hot sub ms raw cut
    { trace := renderTrace (eraseL r.out), rel := r.rel, ssub := r.srcSubs, counters := {}, extra := tallies ms r.cfg }

def run (c : Case) : String :=
  let lic := c.getD "lic" "off" == "on"
  let ee := c.getD "pipe" "ee" == "ee"
  let hot := c.getD "mode" "sync" == "hot"
  let sub := parseCtx (c.getD "sub" "-")
  let groups := (c.getD "srcs" "-").splitOn ";"
  match parseChain lic (c.getD "chain" "-"), groups.mapM (parseScript sub) with
  | none, _ => s!"res {c.id} unsupported"
  | _, none => s!"res {c.id} bad-script"
  | some elems, some scripts =>
    let ms := elems.map (·.1)
    if ee && (ms.length < 1 || ms.length > 24) then s!"res {c.id} unsupported" else
    let cuts := parseCuts (c.getD "cut" "-") scripts.length
    let rs := (scripts.zip cuts).map (fun sc => runSub ee lic hot sub ms sc.1 (if hot then sc.2 else none))
    let tot := rs.foldl (fun acc r => acc.add r.counters) ({ proc := ms.map (fun _ => 0) } : Counters)
    let ex := rs.foldl (fun acc r => addLists acc r.extra) []
    -- with the licence off the stand-alone operators hold no counter: the harness reads 0
    let exSel := if lic then ex else (elems.filter (·.2)).map (fun _ => 0)
    let m := if !ee then "-" else if !lic then "off"
      else s!"subs:{tot.subs},in:{tot.inN},out:{tot.outN},lag:{tot.lag},proc:{renderNatsDot tot.proc}"
    let x := renderNatsDot exSel
    let sep := ";"
    s!"res {c.id} traces={sep.intercalate (rs.map (·.trace))} rel={sep.intercalate (rs.map (fun r => toString r.rel))} ssub={sep.intercalate (rs.map (fun r => toString r.ssub))} m={m} x={x}"

end Ro.Driver.Drivers.Prom

/-
  RoModel.Drivers.Prom — `kind=prom` (property C19): a pipeline built with the enterprise
  `roprometheus.PipeN` (pipe=ee) or by plain application (pipe=ro) over a chain of int→int
  catalogue operators and stand-alone counting operators, licence on/off, one or several
  subscriptions each with its own raw script. Mirrors go/harness/prom.go.

    case 7 kind=prom pipe=ee lic=on mode=hot conc=0 chain=Take:2:plain:x/CntN:x:plain:x/Map:x:ctx:dbl+t51 (x stands for a dash) sub=7 cut=-,1 srcs=N1@1,N2@2,C@3;N5@1
    res 7 traces=N2/7.1.51,N4/7.2.51,C/7.2;- rel=1;1 ssub=1;1 m=subs:2,in:2,out:2,lag:2,proc:2.2.2 x=2
-/
import RoModel.DriverCore
import RoModel.Prom
namespace Ro.Driver.Drivers.Prom
open Ro Ro.Driver Ro.Prom

/-- the int→int catalogue operators (go/harness/ops.go, `chain: true`) as packed machines;
    same table as `Ro.Driver.lookup`, restricted to that subset -/
def stageOf (op : String) (p : List Int) (var : String) (cbs : List Cb) : Option (AnyM Int) :=
  match op, p, cbs with
  | "Filter", [], [cb] => (mkPred var cb).map (fun f => AnyM.of (filterM f))
  | "Distinct", [], [] => some (AnyM.of (distinctByM (fun c (v : Int) => (c, v))))
  | "DistinctBy", [], [cb] =>
      (unary cb.name).map (fun f => AnyM.of (distinctByM (fun c (v : Int) => (tagWith (if hasCtx var then cb.tag else none) c, f v))))
  | "IgnoreElements", [], [] => some (AnyM.of (ignoreElementsM (α := Int)))
  | "Skip", [n], [] => some (AnyM.of (skipM (α := Int) (natOf n)))
  | "SkipWhile", [], [cb] => (mkPred var cb).map (fun f => AnyM.of (skipWhileM f))
  | "SkipLast", [n], [] => some (AnyM.of (skipLastM (α := Int) (natOf n)))
  | "Take", [n], [] => some (if n == 0 then AnyM.of (emptyM (α := Int) (β := Int)) else AnyM.of (takeM (α := Int) (natOf n)))
  | "TakeWhile", [], [cb] => (mkPred var cb).map (fun f => AnyM.of (takeWhileM f))
  | "TakeLast", [n], [] => some (if n == 0 then AnyM.of (emptyM (α := Int) (β := Int)) else AnyM.of (takeLastM (α := Int) (natOf n)))
  | "Head", [], [] => some (AnyM.of (headM (α := Int)))
  | "Tail", [], [] => some (AnyM.of (tailM (α := Int)))
  | "First", [], [cb] => (mkPred var cb).map (fun f => AnyM.of (firstM f))
  | "Last", [], [cb] => (mkPred var cb).map (fun f => AnyM.of (lastM f))
  | "ElementAt", [n], [] => some (AnyM.of (elementAtM (α := Int) (natOf n)))
  | "ElementAtOrDefault", [n, d], [] => some (AnyM.of (elementAtOrDefaultM (natOf n) d))
  | "Map", [], [cb] => (mkProj var cb).map (fun f => AnyM.of (mapM f))
  | "MapTo", [b], [] => some (AnyM.of (mapToM (α := Int) b))
  | "MapErr", [k], [cb] => (mkProjErr var cb k).map (fun f => AnyM.of (mapErrM f))
  | "Scan", [seed], [cb] => (mkRed var cb).map (fun f => AnyM.of (scanM f seed))
  | "StartWith", pre, [] => some (AnyM.of (startWithM pre))
  | "EndWith", suf, [] => some (AnyM.of (endWithM suf))
  | "Tap", [], [] => some (AnyM.of (idM (α := Int)))
  | "TapOnSubscribe", [], [] => some (AnyM.of (idM (α := Int)))
  | "TapOnFinalize", [], [] => some (AnyM.of (idM (α := Int)))
  | "Serialize", [], [] => some (AnyM.of (idM (α := Int)))
  | "OnErrorReturn", [v], [] => some (AnyM.of (onErrorReturnM v))
  | "ThrowIfEmpty", [k], [] => some (AnyM.of (throwIfEmptyM (α := Int) (.user (natOf k))))
  | "MaterializeDematerialize", [], [] => some (AnyM.of ((materializeM (α := Int)).seq dematerializeM))
  | "Find", [], [cb] => (mkBoolPred var cb).map (fun f => AnyM.of (findM f))
  | "DefaultIfEmpty", [d], [] => some (AnyM.of (defaultIfEmptyM Ctx.bg d))
  | "DefaultIfEmptyWithContext", [d, m], [] => some (AnyM.of (defaultIfEmptyM ({ marks := [natOf m] }) d))
  | "Sum", [], [] => some (AnyM.of sumM)
  | "Min", [], [] => some (AnyM.of minM)
  | "Max", [], [] => some (AnyM.of maxM)
  | "Clamp", [lo, hi], [] => some (AnyM.of (clampM lo hi))
  | "Reduce", [seed], [cb] => (mkRed var cb).map (fun f => AnyM.of (reduceM f seed))
  | _, _, _ => none

/-- the plugin's stand-alone operators; with the licence off they are `return source` -/
def standalone (lic : Bool) : String → Option (AnyM Int)
  | "CntN" => some (if lic then AnyM.cntNext else AnyM.off)
  | "CntE" => some (if lic then AnyM.cntError else AnyM.off)
  | "CntC" => some (if lic then AnyM.cntComplete else AnyM.off)
  | "CntS" => some (if lic then AnyM.cntSub else AnyM.off)
  | "Lag" => some (if lic then AnyM.lag else AnyM.off)
  | _ => none

/-- a chain element `Name:params:variant:callback`; the flag says "stand-alone counter" -/
def parseElem (lic : Bool) (t : String) : Option (AnyM Int × Bool) :=
  match t.splitOn ":" with
  | [name, p, var, cb] =>
    match standalone lic name with
    | some a => some (a, true)
    | none => (stageOf name (parseInts p) var (if cb == "-" || cb == "" then [] else [parseCb cb])).map (fun a => (a, false))
  | _ => none

def parseChain (lic : Bool) (s : String) : Option (List (AnyM Int × Bool)) :=
  if s == "-" || s == "" then some [] else (s.splitOn "/").mapM (parseElem lic)

def parseCuts (s : String) (n : Nat) : List (Option Nat) :=
  let f := s.splitOn ","
  (List.range n).map (fun j => (f[j]?).bind String.toNat?)

def renderNatsDot (l : List Nat) : String :=
  if l.isEmpty then "-" else ".".intercalate (l.map toString)

def addLists (a b : List Nat) : List Nat :=
  if a.isEmpty then b else if b.isEmpty then a else List.zipWith (· + ·) a b

structure SubRes where
  trace : String
  rel : Nat
  ssub : Nat
  counters : Counters
  extra : List Nat

def runSub (ee lic hot : Bool) (sub : Ctx) (ms : List (AnyM Int)) (raw : List (Notif Int)) (cut : Option Nat) : SubRes :=
  if ee && lic then
    let r := run hot sub (instrument ms) raw cut
    { trace := renderTrace (eraseL r.out), rel := r.rel, ssub := r.srcSubs,
      counters := counters ms r.cfg, extra := tailTallies ms r.cfg.2 }
  else
    let r := run hot sub ms raw cut
    { trace := renderTrace (eraseL r.out), rel := r.rel, ssub := r.srcSubs, counters := {}, extra := tallies ms r.cfg }

def run (c : Case) : String :=
  let lic := c.getD "lic" "off" == "on"
  let ee := c.getD "pipe" "ee" == "ee"
  let hot := c.getD "mode" "sync" == "hot"
  let sub := parseCtx (c.getD "sub" "-")
  let groups := (c.getD "srcs" "-").splitOn ";"
  match parseChain lic (c.getD "chain" "-"), groups.mapM (parseScript sub) with
  | none, _ => s!"res {c.id} unsupported"
  | _, none => s!"res {c.id} bad-script"
  | some elems, some scripts =>
    let ms := elems.map (·.1)
    if ee && (ms.length < 1 || ms.length > 24) then s!"res {c.id} unsupported" else
    let cuts := parseCuts (c.getD "cut" "-") scripts.length
    let rs := (scripts.zip cuts).map (fun sc => runSub ee lic hot sub ms sc.1 (if hot then sc.2 else none))
    let tot := rs.foldl (fun acc r => acc.add r.counters) ({ proc := ms.map (fun _ => 0) } : Counters)
    let ex := rs.foldl (fun acc r => addLists acc r.extra) []
    -- with the licence off the stand-alone operators hold no counter: the harness reads 0
    let exSel := if lic then ex else (elems.filter (·.2)).map (fun _ => 0)
    let m := if !ee then "-" else if !lic then "off"
      else s!"subs:{tot.subs},in:{tot.inN},out:{tot.outN},lag:{tot.lag},proc:{renderNatsDot tot.proc}"
    let x := renderNatsDot exSel
    let sep := ";"
    s!"res {c.id} traces={sep.intercalate (rs.map (·.trace))} rel={sep.intercalate (rs.map (fun r => toString r.rel))} ssub={sep.intercalate (rs.map (fun r => toString r.ssub))} m={m} x={x}"

end Ro.Driver.Drivers.Prom

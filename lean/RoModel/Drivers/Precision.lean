/-
  RoModel.Drivers.Precision — `kind=precision` (C04; go/harness/precision.go): FloorWithPrecision / CeilWithPrecision over
  dyadic inputs; both sides print the INTEGER n with result = n / 10^places.
    case 3 kind=precision op=Floor places=2 k=2 ms=5,-7,1234
    res 3 ns=125,-175,30850
-/
import RoModel.DriverCore
import RoModel.Ops.Precision
import RoModel.Spec.More
namespace Ro.Driver.Drivers.Precision
open Ro Ro.Driver

def run (c : Case) : String :=
  let places := ((c.get "places").bind String.toInt?).getD 0
  let k := ((c.get "k").bind String.toNat?).getD 0
  let ms := parseInts (c.getD "ms" "-")
  if c.getD "ctxrun" "-" == "1" then
    -- a per-item map: one output per input, each with the context of its own notification (C09: the regenerated CtxFlow rows of the
    -- precision operators; RoModel/Ops/Precision.lean models the values only)
    let n := ms.length
    let cs := (List.range n).map (fun i => s!"N/7.{i + 1}") ++ [s!"C/7.{n + 1}"]
    s!"res {c.id} ctxs={",".intercalate cs}"
  else
  let f := if c.getD "op" "Floor" == "Ceil" then Ro.Precision.ceilN else Ro.Precision.floorN
  let ns := ms.map (fun m => toString (f m k places))
  s!"res {c.id} ns={if ns.isEmpty then "-" else ",".intercalate ns} term=C"

/-- `kind=numtype` (go/harness/numtype.go): Average over narrow integer element types. The specification `Spec.average` (RoProps/C04:
    the operator machine equals it for every script) divides the exact integer sum by the count; the harness generates lists whose
    mean is integral, so `div` is integer division and the integer is compared. -/
def runNumType (c : Case) : String :=
  let vals := parseInts (c.getD "vals" "-")
  if c.getD "op" "" != "Average" || vals.isEmpty then s!"res {c.id} unsupported" else
  let out := Ro.Spec.average (fun (s : Int) (n : Nat) => s / (n : Int)) (0 : Int) (vals.map (fun v => (({} : Ctx), v))) (.complete {})
  match out with
  | [.next _ m, .complete _] => s!"res {c.id} out={m}"
  | _ => s!"res {c.id} out=?"

end Ro.Driver.Drivers.Precision

/-
  RoModel.Drivers.Create — `kind=create`: a synchronous creation operator of
  RoModel/Ops/Create.lean, optionally wrapped (`Defer`, `Defer(Iif(…))`), optionally with a chain of
  machines downstream, subscribed twice (C12: every subscription is the same run; user callbacks
  are invoked once per subscription).

    case <id> kind=create op=Range p=1,4 fault=- wrap=- down=<stages as in kind=chain> sub=7
    res  <id> trace=… drops=… t2=… calls=…
-/
import RoModel.DriverCore
import RoModel.Drivers.Chain
import RoModel.Ops.Create
namespace Ro.Driver.Drivers.Create
open Ro Ro.Driver

/-- `e3` = panic(error user-3), `v3` = panic(non-error value 3) -/
def parseFault (s : String) : Option Err :=
  match s.toList with
  | 'e' :: r => (String.ofList r).toNat?.map Err.user
  | 'v' :: r => (String.ofList r).toNat?.map Err.panicVal
  | _ => none

/-- `1,2;-;3` -/
def parseGroups (s : String) : List (List Int) :=
  if s == "-" || s == "" then [] else (s.splitOn ";").map parseInts

def baseGen (op : String) (ps : String) (fault : Option Err) : Option (Gen Int) :=
  match op, parseInts ps with
  | "Of", vs => some (ofG vs)
  | "Just", vs => some (ofG vs)
  | "FromSlice", _ => some (fromSliceG (parseGroups ps))
  | "Empty", [] => some emptyG
  | "Throw", [k] => some (throwG (.user (natOf k)))
  | "Range", [s, e] => some (rangeG s e)
  | "RangeWithStep", [s, e, st] => if st ≤ 0 then none else some (rangeStepG s e st)
  | "Repeat", [item, count] => some (repeatG item (natOf count))
  | "Start", [v] => some (startG (match fault with | none => .ok v | some e => .panic e))
  | _, _ => none

/-- wrappers, innermost first: `defer` = Defer(() ↦ g); `deferP<fault>` = Defer(panicking factory);
    `iifT` = Defer(Iif(true, g, Throw(99))); `iifF` = Defer(Iif(false, Throw(99), g)) -/
def applyWrap (g : Gen Int) (w : String) : Option (Gen Int) :=
  if w == "defer" then some (deferG (.ok g))
  else if w == "iifT" then some (deferG (.ok (iifG true g (throwG (.user 99)))))
  else if w == "iifF" then some (deferG (.ok (iifG false (throwG (.user 99)) g)))
  else if w.startsWith "deferP" then (parseFault (w.drop 6).toString).map (fun e => deferG (.panic e))
  else none

/-- the refused notifications of a chain of stages over a synchronous source, stage by stage: what
    stage k delivers (its gated output) is the script stage k+1 sees; each stage's own run records what
    its upstream subscriber and the subscriber below it refused. Sorted (the harness sorts the same
    strings): the refusals of different stages interleave in time. -/
def stageDrops (stages : List Chain.AnyM) (sub : Ctx) (script : List (Notif Int)) : List String :=
  let acc := stages.foldl (fun (acc : List (Notif Int) × List String) a =>
    let r := runOp a.m .sync sub acc.1
    (r.out, acc.2 ++ r.drops.map renderDrop)) (script, [])
  acc.2.foldr insertSorted []

def parseWraps (s : String) : List String := if s == "-" || s == "" then [] else s.splitOn ","

def run (c : Case) : String :=
  let sub := parseCtx (c.getD "sub" "-")
  let fault := parseFault (c.getD "fault" "-")
  match baseGen (c.getD "op" "?") (c.getD "p" "-") fault with
  | none => s!"res {c.id} unsupported"
  | some g0 =>
    match (parseWraps (c.getD "wrap" "-")).foldlM applyWrap g0 with
    | none => s!"res {c.id} unsupported"
    | some g =>
      let calls := 2 * (g sub).calls
      let down := c.getD "down" "-"
      if down == "-" then
        let tr := renderTrace (g.delivered sub)
        let dr := if (g.dropped sub).isEmpty then "-" else ",".intercalate ((g.dropped sub).map renderNotifBare)
        s!"res {c.id} trace={tr} drops={dr} t2={tr} calls={calls}"
      else
        match (down.splitOn "|").mapM Chain.parseStage with
        | none => s!"res {c.id} unsupported"
        | some stages =>
          match Chain.buildChainL stages with
          | none => s!"res {c.id} unsupported"
          | some a =>
            let r := g.pipe a.m sub
            let tr := renderTrace r.out
            let dr := if stages.length ≤ 1 then renderDrops r.drops
              else (let l := stageDrops stages sub ((g sub).raw sub); if l.isEmpty then "-" else ",".intercalate l)
            s!"res {c.id} trace={tr} drops={dr} t2={tr} calls={calls}"

end Ro.Driver.Drivers.Create

/-
  RoModel.Drivers.Share — `kind=share`, `kind=conn`, `kind=sharec` (property C11).
  Case fields: api=config|share|sharereplay<N>|sharereplayZ<N>  conn=publish|behavior|replay<N>|replayU
               flags=⊆ECZ  pre=<tokens>;<tokens>;…  ev=S,U<i>,N<v>,E<n>,C[,K,D]   (conn: reset=0|1)
-/
import RoModel.DriverCore
import RoModel.Share
import RoModel.Connectable
namespace Ro.Driver.Drivers.Share
open Ro Ro.Driver Ro.Share

def parseConn (s : String) : Option Conn :=
  if s == "publish" then some .publish
  else if s == "behavior" then some (.behavior 0)
  else if s == "replayU" then some .replayAll
  else if s.startsWith "replay" then ((s.drop 6).toString.toNat?).map Conn.replay
  else none

def parseEvTok (t : String) : Option Ev :=
  match t.toList with
  | 'N' :: r => (String.ofList r).toInt?.map Ev.next
  | 'E' :: r => (String.ofList r).toNat?.map (fun n => Ev.error (.user n))
  | ['C'] => some .complete
  | _ => none

def parsePre (s : String) : Option (List (List Ev)) :=
  if s == "-" || s == "" then some []
  else (s.splitOn ";").mapM fun g => if g == "-" || g == "" then some [] else (g.splitOn ",").mapM parseEvTok

/-- the k-th upstream subscription plays the k-th prefix, the last one being repeated -/
def preOf (l : List (List Ev)) (k : Nat) : List Ev := l.getD k (l.getLast?.getD [])

def parseFlags (s : String) : Flags :=
  { onError := s.contains 'E', onComplete := s.contains 'C', onZero := s.contains 'Z' }

/-- configuration: from `api` for the aliases (operator_connectable.go:39-46, 197-235) -/
def parseCfg (c : Case) (pre : List (List Ev)) : Option Cfg :=
  let api := c.getD "api" "config"
  if api == "config" then
    (parseConn (c.getD "conn" "publish")).map fun conn => { conn := conn, flags := parseFlags (c.getD "flags" "-"), pre := preOf pre }
  else if api == "share" then
    some { conn := .publish, flags := ⟨true, true, true⟩, pre := preOf pre }
  -- `-1` = ReplaySubjectUnlimitedBufferSize: the replay subject keeps everything
  else if api == "sharereplayZ-1" then some { conn := .replayAll, flags := ⟨true, false, true⟩, pre := preOf pre }
  else if api == "sharereplay-1" then some { conn := .replayAll, flags := ⟨true, false, false⟩, pre := preOf pre }
  else if api.startsWith "sharereplayZ" then
    ((api.drop 12).toString.toNat?).map fun n => { conn := .replay n, flags := ⟨true, false, true⟩, pre := preOf pre }
  else if api.startsWith "sharereplay" then
    ((api.drop 11).toString.toNat?).map fun n => { conn := .replay n, flags := ⟨true, false, false⟩, pre := preOf pre }
  else none

def parseEvent (t : String) : Option Event :=
  match t.toList with
  | ['S'] => some .sub
  | 'U' :: r => (String.ofList r).toNat?.map Event.unsub
  | _ => (parseEvTok t).map Event.src

def parseEvents (s : String) : Option (List Event) :=
  if s == "-" || s == "" then some [] else (s.splitOn ",").mapM parseEvent

/-- `S[e1;e2;…]`: a subscriber arrives and `e1 e2 …` happen inside the source's Subscribe -/
def parseNEvent (t : String) : Option NEvent :=
  if t.startsWith "S[" && t.endsWith "]" then
    let inner := ((t.drop 2).toString.dropEnd 1).toString
    (if inner == "" then some [] else (inner.splitOn ";").mapM parseEvent).map NEvent.subNested
  else (parseEvent t).map NEvent.plain

def parseNEvents (s : String) : Option (List NEvent) :=
  if s == "-" || s == "" then some [] else (s.splitOn ",").mapM parseNEvent

def renderSErr : SErr → String
  | .user n => "u" ++ toString n

def renderEv : Ev → String
  | .next v => "N" ++ toString v
  | .error e => "E" ++ renderSErr e
  | .complete => "C"

def renderTraces (l : List (List Ev)) : String :=
  if l.isEmpty then "-" else "|".intercalate (l.map fun t => if t.isEmpty then "-" else ".".intercalate (t.map renderEv))

def renderList (l : List String) : String := if l.isEmpty then "-" else ",".intercalate l

/-- `src=just:1,2`: `ro.Just(1, 2)` plays `N1,N2,C` inside every Subscribe (operator_creation.go) -/
def justPre (c : Case) : Option (List (List Ev)) :=
  let s := c.getD "src" "probe"
  if s.startsWith "just:" then
    some [((parseInts (s.drop 5).toString).map Ev.next) ++ [Ev.complete]]
  else none

/-- C09: the k-th upstream subscription is made with the context of the subscriber that created generation k
    (subscriber i subscribes with the markers 7, 70+i) -/
def renderUctx (s : Ro.Share.St) : String :=
  let l := ((List.range s.ngens).filter (fun g => (s.gens g).upSub)).map fun g => s!"7.{70 + (s.gens g).creator}"
  if l.isEmpty then "-" else ";".intercalate l

def run (c : Case) : String :=
  match (justPre c).orElse (fun _ => parsePre (c.getD "pre" "-")), parseNEvents (c.getD "ev" "-") with
  | some pre, some evs =>
    match parseCfg c pre with
    | none => s!"res {c.id} unsupported"
    | some cfg =>
      let s := Ro.Share.nrun cfg evs
      let up := if (justPre c).isSome then [] else (Ro.Share.ncounters cfg {} evs).map fun p => s!"{p.1}/{p.2}"
      let uctx := if (justPre c).isSome then "-" else renderUctx s
      -- twin=1: the same operator value applied to a second source with a subscriber of its own: the two shared observables have
      -- nothing in common (the state of Share lives in the observable it returns, C12 reapply), so this run is unchanged
      let twin := if c.getD "twin" "-" == "1" then " twin=ok" else ""
      s!"res {c.id} traces={renderTraces (Ro.Share.traces s)} up={renderList up} drops={renderList (s.drops.map renderEv)} unhandled=- escaped=- uctx={uctx}{twin}"
  | _, _ => s!"res {c.id} bad-case"

/-! ### kind=sharet: a subscriber re-subscribes from inside its terminal callback

  `C!k` / `E<n>!k`: the source's terminal arrives and subscriber `k`, if this terminal reaches it, subscribes a new
  subscriber from inside its callback.  Generated only with the reset flag of that terminal set: the proxy drops the
  finished generation before it forwards the terminal (operator_connectable.go:134-152), the newcomer therefore
  starts a fresh generation that shares nothing with the one being wound up, and the nested subscription is the
  sequence `terminal, S` (the model's modelling assumption for this kind; the correspondence checks it case by
  case).  The counters are read after the whole event. -/

def splitBang (t : String) : String × Option Nat :=
  match t.splitOn "!" with
  | [a, b] => (a, b.toNat?)
  | _ => (t, none)

/-- desugar, deciding with the model whether subscriber `k` receives the terminal -/
def desugarTerm (cfg : Cfg) : List String → List NEvent → List Bool → Option (List NEvent × List Bool)
  | [], acc, rep => some (acc, rep)
  | t :: rest, acc, rep =>
    match splitBang t with
    | (a, some k) =>
      match parseEvent a with
      | none => none
      | some e =>
        let before := ((Ro.Share.traces (Ro.Share.nrun cfg acc)).getD k []).length
        let after := ((Ro.Share.traces (Ro.Share.nrun cfg (acc ++ [.plain e]))).getD k []).length
        if after > before then desugarTerm cfg rest (acc ++ [.plain e, .plain .sub]) (rep ++ [false, true])
        else desugarTerm cfg rest (acc ++ [.plain e]) (rep ++ [true])
    | (_, none) =>
      match parseNEvent t with
      | none => none
      | some e => desugarTerm cfg rest (acc ++ [e]) (rep ++ [true])

def runTerm (c : Case) : String :=
  let toks := let s := c.getD "ev" "-"; if s == "-" || s == "" then [] else s.splitOn ","
  match parsePre (c.getD "pre" "-") with
  | none => s!"res {c.id} bad-case"
  | some pre =>
    match parseCfg c pre with
    | none => s!"res {c.id} unsupported"
    | some cfg =>
      match desugarTerm cfg toks [] [] with
      | none => s!"res {c.id} bad-case"
      | some (evs, rep) =>
        let s := Ro.Share.nrun cfg evs
        let up := ((Ro.Share.ncounters cfg {} evs).zip rep).filterMap fun (p, r) => if r then some s!"{p.1}/{p.2}" else none
        s!"res {c.id} traces={renderTraces (Ro.Share.traces s)} up={renderList up} drops={renderList (s.drops.map renderEv)} unhandled=- escaped=- uctx={renderUctx s}{if c.getD "twin" "-" == "1" then " twin=ok" else ""}"

/-! ### connectable -/

open Ro.Connectable in
def parseCEvent (t : String) : Option CEvent :=
  match t.toList with
  | ['S'] => some .sub
  | ['K'] => some .connect
  | ['D'] => some .disconnect
  | 'U' :: r => (String.ofList r).toNat?.map CEvent.unsub
  | _ => (parseEvTok t).map CEvent.src

open Ro.Connectable in
def runConn (c : Case) : String :=
  let evs? := let s := c.getD "ev" "-"; if s == "-" || s == "" then some [] else (s.splitOn ",").mapM parseCEvent
  let conn? := if c.getD "api" "config" == "default" then some Conn.publish else parseConn (c.getD "conn" "publish")
  let reset := c.getD "api" "config" == "default" || c.getD "reset" "1" == "1"
  match parsePre (c.getD "pre" "-"), evs?, conn? with
  | some pre, some evs, some conn =>
    let cfg : CCfg := { conn := conn, resetOnDisconnect := reset, pre := preOf pre }
    let s := Ro.Connectable.run cfg evs
    let up := (Ro.Connectable.counters cfg (CSt.init cfg) evs).map fun p => s!"{p.1}/{p.2}"
    let same := s.same.map fun b => if b then "1" else "0"
    s!"res {c.id} traces={renderTraces (Ro.Connectable.traces s)} up={renderList up} same={renderList same} drops={renderList (s.drops.map renderEv)} unhandled=- escaped=-"
  | _, _, _ => s!"res {c.id} bad-case"

/-- the concurrent variant is checked on the implementation only; the expected result is constant -/
def runConc (c : Case) : String := s!"res {c.id} inv=- nd=0 ti=0"

/-- re-entrant scenario (a subscriber comes and goes from inside the source's `Subscribe`): outside
    the model's events; witnessed on the implementation only (known finding "late release") -/
def runScenario (c : Case) : String := s!"res {c.id} not-modelled"

end Ro.Driver.Drivers.Share

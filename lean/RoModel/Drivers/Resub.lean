/-
  RoModel.Drivers.Resub — `kind=resub` (property C15): a re-subscribing operator over a list of
  attempt outcomes. Case fields as in go/harness/resub.go.
-/
import RoModel.DriverCore
import RoModel.Resub
namespace Ro.Driver.Drivers.Resub
open Ro Ro.Driver Ro.Resub

/-- `N3@1,N4@2,E1@3` → an outcome: values, then exactly one terminal at the end -/
def parseItem (t : String) : Option (String × Nat) :=
  match t.splitOn "@" with
  | [b, m] => m.toNat?.map (fun k => (b, k))
  | [b] => some (b, 0)
  | _ => none

def parseOutcome (s : String) : Option Outcome := do
  let items ← (s.splitOn ",").mapM parseItem
  match items.reverse with
  | [] => none
  | (f, fm) :: revVals =>
    let fin ← match f.toList with
      | ['C'] => some Fin.complete
      | 'E' :: r => (String.ofList r).toNat?.map Fin.error
      | _ => none
    let vals ← revVals.reverse.mapM (fun (p : String × Nat) =>
      match p.1.toList with
      | 'N' :: r => (String.ofList r).toInt?.map (fun v => (p.2, v))
      | _ => none)
    pure { vals := vals, fmark := fm, fin := fin }

def parseOutcomes (s : String) : Option (List Outcome) :=
  if s == "-" || s == "" then some [] else (s.splitOn ";").mapM parseOutcome

/-- `pre`, `a<i>n<j>` (before the j-th notification of attempt i), `a<i>t` (in its teardown) -/
def parseCancel (outs : List Outcome) (s : String) : Option (Option Nat) :=
  if s == "-" then some none
  else if s == "pre" then some (some 0)
  else match s.toList with
    | 'a' :: r =>
      let body := String.ofList r
      if body.endsWith "t" then
        ((body.dropEnd 1).toString.toNat?).map (fun i => some i)
      else match body.splitOn "n" with
        | [a, b] =>
          match a.toNat?, b.toNat? with
          | some i, some j =>
            -- the point exists only if attempt i has a j-th notification
            if 1 ≤ i && j < (outcomeAt outs (i - 1)).vals.length + 1 then some (some i) else some none
          | _, _ => none
        | _ => none
    | _ => none

def renderEv : Ev → String
  | .s i => "s" ++ toString i
  | .t i => "t" ++ toString i

def renderLog (l : List Ev) : String :=
  if l.isEmpty then "-" else ",".intercalate (l.map renderEv)

def nat1 (p : List Int) : Option Nat :=
  match p with
  | [n] => if n < 0 then none else some n.toNat
  | _ => none

def run (c : Case) : String :=
  let sub := parseCtx (c.getD "sub" "-")
  let op := c.getD "op" "?"
  let p := parseInts (c.getD "p" "-")
  let mode := if c.getD "mode" "sync" == "async" then Mode.async else if c.getD "mode" "sync" == "tdrace" then Mode.tdrace else Mode.sync
  let cutS := c.getD "cut" "-"
  let cut : Option Nat := if cutS == "-" then none else cutS.toNat?
  let cutBad := cutS != "-" && (cut == none || cut == some 0)
  let conds := if c.getD "cond" "-" == "-" then [] else (c.getD "cond" "-").toList.map (· == 't')
  let ct := if c.getD "var" "plain" == "ictx" then (c.getD "ct" "0").toNat?.getD 0 else 0
  let cancelS := c.getD "cancel" "-"
  match parseOutcomes (c.getD "srcs" "-") with
  | none => s!"res {c.id} bad-script"
  | some outs =>
    let isRetry := op == "Retry" || op == "RetryWithConfig"
    if cutBad || (op == "Catch" && mode != Mode.sync && cut.isSome) || (cancelS != "-" && !isRetry)
        || (mode == Mode.tdrace && (op == "Catch" || cut.isSome || cancelS != "-")) then
      s!"res {c.id} unsupported"
    else
      let r : Option Result :=
        match op with
        | "Retry" => if p.isEmpty then (parseCancel outs cancelS).map (fun cn => retry ⟨0, false, false⟩ sub cn outs) else none
        | "RetryWithConfig" =>
          match p with
          | [m, d, rs] =>
            -- d = 2: a long delay, only with a cancellation before or during the first attempt
            if m < 0 || (d == 2 && !(cancelS == "pre" || cancelS.startsWith "a1")) then none else
              (parseCancel outs cancelS).map (fun cn => retry ⟨m.toNat, d != 0, rs != 0⟩ sub cn outs)
          | _ => none
        | "RepeatWith" => (nat1 p).map (fun n => repeatWith n sub cut outs)
        | "While" => some (while_ ct sub conds outs)
        | "DoWhile" => some (doWhile ct sub conds outs)
        | "Catch" => some (catch_ mode sub outs)
        | "OnErrorResumeNextWith" => (nat1 p).map (fun k => onErrorResumeNext k sub outs)
        | "Concat" => (nat1 p).map (fun n => concat n sub outs)
        | _ => none
      match r with
      | none => s!"res {c.id} unsupported"
      | some r =>
        let r := if mode == Mode.tdrace then { r with log := overlapLog r.attempts } else r
        -- with the long delay the context is cancelled before any delay starts: the delay `select`
        -- (:199-208) returns at once, the run is prompt
        let prompt := match op, p with
          | "RetryWithConfig", [_, 2, _] => " prompt=1"
          | _, _ => ""
        -- decoy=1: the operator value was applied to a second upstream afterwards; a pipeline is a function of its own source
        -- (C12 reapply theorems), so that upstream is never subscribed and nothing else changes
        let decoy := if c.getD "decoy" "-" == "1" then " decoy=0" else ""
        -- again=1: the same pipeline subscribed once more after the first run is over, the scripted source starting over: the second
        -- run is the first one again (C12 resubscribe theorems: no state survives a subscription)
        let again := if c.getD "again" "-" == "1" then " again=same" else ""
        s!"res {c.id} trace={renderTrace (deliver cut r.raw)} log={renderLog r.log} attempts={r.attempts} live={maxLive r.log} evals={r.evals}{prompt}{decoy}{again}"

end Ro.Driver.Drivers.Resub

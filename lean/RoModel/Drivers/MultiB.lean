/-
  RoModel.Drivers.MultiB — `kind=multib`: one multi-source operator over hot sources.
    case <id> kind=multib op=<Op> var=<variant> n=<sources> outer=<C|E<k>|-> key=<cb> delay=<d>
              [cut=<k>] srcs=<script>;<script>;… order=<i>,<i>,…
  (`cut=k`: the downstream unsubscribes from outside after the first k entries of the interleaving)
  Result: delivered trace (inner observables rendered as what their recorder received), refused
  notifications (sorted), per-source released flags and subscription counts; and, when the case
  carries `spec=1` (model side only), `spec=` (what Spec.* assigns to the arrivals of this case) and `known=` (the known-deviation
  classes of RoModel/Spec/MultiB.lean `Known.*` the case falls in), which the check uses to compare
  the implementation with the specification directly.
-/
import RoModel.DriverCore
import RoModel.MultiB.CombineLatest
import RoModel.MultiB.Concat
import RoModel.MultiB.BufferWhen
import RoModel.MultiB.WindowWhen
import RoModel.MultiB.GroupBy
import RoModel.Spec.MultiB
namespace Ro.Driver.Drivers.MultiB
open Ro Ro.Driver Ro.MultiB

def evOfNotif : Notif Int → Ev Int
  | .next _ v => .next v
  | .error _ e => .error e
  | .complete _ => .complete

def parseEvs (s : String) : Option (List (Ev Int)) := (parseScript {} s).map (·.map evOfNotif)

def parseScripts (s : String) : Option (List (List (Ev Int))) :=
  if s == "" then some [] else (s.splitOn ";").mapM parseEvs

def parseOuter (s : String) : Option OuterEnd :=
  match s.toList with
  | ['C'] => some .complete
  | ['-'] => some .never
  | 'E' :: r => (String.ofList r).toNat?.map (fun k => OuterEnd.error (.user k))
  | _ => none

def renderEv {γ : Type} (f : γ → String) : Ev γ → String
  | .next v => "N" ++ f v
  | .error e => "E" ++ renderErr e
  | .complete => "C"

def joinOrDash (l : List String) : String := if l.isEmpty then "-" else ",".intercalate l

def renderInt (i : Int) : String := toString i
def renderTuple (l : List Int) : String := "(" ++ ":".intercalate (l.map renderInt) ++ ")"
def renderSlice (l : List Int) : String := "[" ++ ";".intercalate (l.map renderInt) ++ "]"
def renderInner (l : List (Ev Int)) : String := "[" ++ ";".intercalate (l.map (renderEv renderInt)) ++ "]"

def renderDropped {β : Type} (f : β → String) : Dropped Int β → String
  | .up _ x => renderEv renderInt x
  | .down x => renderEv f x
  | .subj x => renderEv renderInt x

def result {σ β : Type} (n : Nat) (r : Ro.MultiB.St σ Int β) (trace : String) (f : β → String) : String :=
  let drops := (r.drops.map (renderDropped f)).foldr insertSorted []
  let rel := (List.range n).map (fun i => if r.released i then "1" else "0")
  let subs := (List.range n).map (fun i => toString (r.subs i))
  s!"trace={trace} drops={joinOrDash drops} rel={joinOrDash rel} subs={joinOrDash subs}"

def runC {σ β : Type} (m : Ro.MultiB.Machine σ Int β) (scripts : List (List (Ev Int))) (order : List Nat) (cut : Option Nat) : Ro.MultiB.St σ Int β :=
  match cut with
  | none => Ro.MultiB.run m scripts order
  | some k => Ro.MultiB.runCut m scripts order k

def plain {σ β : Type} (m : Ro.MultiB.Machine σ Int β) (f : β → String) (scripts : List (List (Ev Int))) (order : List Nat) (cut : Option Nat) : String :=
  let r := runC m scripts order cut
  result m.n r (joinOrDash (r.out.map (renderEv f))) f

def keyFn (name : String) : Option (Int → Nat → Int) :=
  match unary name with
  | some f => some (fun v _ => f v)
  | none => unaryI name

def renderTrace {γ : Type} (f : γ → String) (l : List (Ev γ)) : String := joinOrDash (l.map (renderEv f))

def knownList (l : List (String × Bool)) : String := joinOrDash ((l.filter (·.2)).map (·.1))

def run (c : Case) : String :=
  let n := ((c.getD "n" "2").toNat?).getD 2
  let order := (parseInts (c.getD "order" "-")).map Int.toNat
  let cut := (c.get "cut").bind String.toNat?
  match parseScripts (c.getD "srcs" ""), parseOuter (c.getD "outer" "C") with
  | some scripts, some outer =>
    let arr := arrivals (scriptsFn scripts) order
    let body : Option String :=
      match c.getD "op" "?" with
      | "Zip" => some (plain (zipM n) renderTuple scripts order cut
          ++ s!" spec={renderTrace renderTuple (Spec.zip n arr)} known={knownList [("zipCompleteUnsub", Known.zipCompleteUnsub n [] 0 arr)]}")
      | "ZipAll" => some (plain (zipAllM n outer) renderSlice scripts order cut
          ++ s!" spec={renderTrace renderSlice (Spec.zipAll n outer arr)} known={knownList [("zipAllOuterCompletes", Known.zipAllOuterCompletes n outer)]}")
      | "CombineLatest" => some (plain (combineLatestM n) renderTuple scripts order cut
          ++ s!" spec={renderTrace renderTuple (Spec.combineLatest n arr)} known=-")
      | "CombineLatestAll" => some (plain (combineLatestAllM n outer) renderSlice scripts order cut
          ++ s!" spec={renderTrace renderSlice (Spec.combineLatestAll n outer arr)} known=-")
      | "ConcatAll" =>
        let specSubs := (List.range n).map (fun j => if Spec.concatSubscribed n arr j then "1" else "0")
        some (plain (concatM n outer) renderInt scripts order cut
          ++ s!" spec={renderTrace renderInt (Spec.concat n outer arr)} specsubs={joinOrDash specSubs} known={knownList [("concatInnerError", Known.concatInnerError n arr)]}")
      | "BufferWhen" => some (plain bufferWhenM renderSlice scripts order cut
          ++ s!" spec={renderTrace renderSlice (Spec.bufferWhen arr)} known=-")
      | "WindowWhen" =>
        let r := runC (windowWhenM (α := Int)) scripts order cut
        some (result 2 r (renderTrace renderInner (viewOut r.m.wins r.out)) toString
          ++ s!" spec={renderTrace renderInner (Spec.windowWhen arr)} known=-")
      | "GroupBy" =>
        (keyFn (c.getD "key" "mod2")).map (fun key =>
          let delay := ((c.getD "delay" "0").toNat?).getD 0
          let r := runC (groupByM key delay) scripts order cut
          result 1 r (renderTrace renderInner (viewOut (r.m.groups.map (·.2)) r.out)) toString
            ++ s!" spec={renderTrace renderInner (Spec.groupBy key arr)} known={knownList [("groupByLate", Known.groupByLate delay arr), ("groupByErrorCompletesGroups", Known.groupByErrorCompletesGroups arr)]}")
      | _ => none
    -- the model-only fields are printed on request, so that plain result lines are equal on both sides
    let strip (b : String) : String :=
      if c.get "spec" == some "1" then b else (b.splitOn " spec=").headD b
    match body with
    | some b => s!"res {c.id} {strip b}"
    | none => s!"res {c.id} unsupported"
  | _, _ => s!"res {c.id} bad-script"

end Ro.Driver.Drivers.MultiB

/-
  RoModel.Drivers.MultiB — `kind=multib`: one multi-source operator over hot sources.
    case <id> kind=multib op=<Op> var=<variant> n=<sources> outer=<C|E<k>|-> key=<cb> delay=<d>
              srcs=<script>;<script>;… order=<i>,<i>,…
  Result: delivered trace (inner observables rendered as what their recorder received), refused
  notifications (sorted), per-source released flags and subscription counts.
-/
import RoModel.DriverCore
import RoModel.MultiB.CombineLatest
import RoModel.MultiB.Concat
import RoModel.MultiB.BufferWhen
import RoModel.MultiB.WindowWhen
import RoModel.MultiB.GroupBy
namespace Ro.Driver.Drivers.MultiB
open Ro Ro.Driver Ro.MultiB

def evOfNotif : Notif Int → Ev Int
  | .next _ v => .next v
  | .error _ e => .error e
  | .complete _ => .complete

def parseEvs (s : String) : Option (List (Ev Int)) := (parseScript {} s).map (·.map evOfNotif)

def parseScripts (s : String) : Option (List (List (Ev Int))) :=
  if s == "" then some [] else (s.splitOn ";").mapM parseEvs

def parseOuter (s : String) : Option OuterEnd :=
  match s.toList with
  | ['C'] => some .complete
  | ['-'] => some .never
  | 'E' :: r => (String.ofList r).toNat?.map (fun k => OuterEnd.error (.user k))
  | _ => none

def renderEv {γ : Type} (f : γ → String) : Ev γ → String
  | .next v => "N" ++ f v
  | .error e => "E" ++ renderErr e
  | .complete => "C"

def joinOrDash (l : List String) : String := if l.isEmpty then "-" else ",".intercalate l

def renderInt (i : Int) : String := toString i
def renderTuple (l : List Int) : String := "(" ++ ":".intercalate (l.map renderInt) ++ ")"
def renderSlice (l : List Int) : String := "[" ++ ";".intercalate (l.map renderInt) ++ "]"
def renderInner (l : List (Ev Int)) : String := "[" ++ ";".intercalate (l.map (renderEv renderInt)) ++ "]"

def renderDropped {β : Type} (f : β → String) : Dropped Int β → String
  | .up _ x => renderEv renderInt x
  | .down x => renderEv f x
  | .subj x => renderEv renderInt x

def result {σ β : Type} (n : Nat) (r : Ro.MultiB.St σ Int β) (trace : String) (f : β → String) : String :=
  let drops := (r.drops.map (renderDropped f)).foldr insertSorted []
  let rel := (List.range n).map (fun i => if r.released i then "1" else "0")
  let subs := (List.range n).map (fun i => toString (r.subs i))
  s!"trace={trace} drops={joinOrDash drops} rel={joinOrDash rel} subs={joinOrDash subs}"

def plain {σ β : Type} (m : Ro.MultiB.Machine σ Int β) (f : β → String) (scripts : List (List (Ev Int))) (order : List Nat) : String :=
  let r := Ro.MultiB.run m scripts order
  result m.n r (joinOrDash (r.out.map (renderEv f))) f

def keyFn (name : String) : Option (Int → Nat → Int) :=
  match unary name with
  | some f => some (fun v _ => f v)
  | none => unaryI name

def run (c : Case) : String :=
  let n := ((c.getD "n" "2").toNat?).getD 2
  let order := (parseInts (c.getD "order" "-")).map Int.toNat
  match parseScripts (c.getD "srcs" ""), parseOuter (c.getD "outer" "C") with
  | some scripts, some outer =>
    let body : Option String :=
      match c.getD "op" "?" with
      | "Zip" => some (plain (zipM n) renderTuple scripts order)
      | "ZipAll" => some (plain (zipAllM n outer) renderSlice scripts order)
      | "CombineLatest" => some (plain (combineLatestM n) renderTuple scripts order)
      | "CombineLatestAll" => some (plain (combineLatestAllM n outer) renderSlice scripts order)
      | "ConcatAll" => some (plain (concatM n outer) renderInt scripts order)
      | "BufferWhen" => some (plain bufferWhenM renderSlice scripts order)
      | "WindowWhen" =>
        let r := Ro.MultiB.run (windowWhenM (α := Int)) scripts order
        some (result 2 r (joinOrDash ((viewOut r.m.wins r.out).map (renderEv renderInner))) toString)
      | "GroupBy" =>
        (keyFn (c.getD "key" "mod2")).map (fun key =>
          let delay := ((c.getD "delay" "0").toNat?).getD 0
          let r := Ro.MultiB.run (groupByM key delay) scripts order
          result 1 r (joinOrDash ((viewOut (r.m.groups.map (·.2)) r.out).map (renderEv renderInner))) toString)
      | _ => none
    match body with
    | some b => s!"res {c.id} {b}"
    | none => s!"res {c.id} unsupported"
  | _, _ => s!"res {c.id} bad-script"

end Ro.Driver.Drivers.MultiB

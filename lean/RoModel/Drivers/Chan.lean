/-
  RoModel.Drivers.Chan — `kind=chan` (deterministic, compared with equality) and `kind=chanv`
  (reference values for the schedule-dependent validation runs) for ToChannel, FromChannel,
  ObserveOn / SubscribeOn and Collect. The model is run under a canonical schedule; the compared
  fields do not depend on the schedule (RoProofs/Chan.lean: `pipe_complete`, `from_complete`).
-/
import RoModel.DriverCore
import RoModel.Chan
namespace Ro.Driver.Drivers.Chan
open Ro Ro.Driver Ro.Chan

def renderBare (l : List (Notif Int)) : String :=
  if l.isEmpty then "-" else ",".intercalate (l.map renderNotifBare)

def renderErrs (l : List Err) : String :=
  if l.isEmpty then "-" else ",".intercalate (l.map renderErr)

def fuelFor (raw : List (Notif Int)) : Nat := 40 * (raw.length + 4)

/-- the three steps of an external `Unsubscribe()` -/
def unsub (cfg : Cfg) (s : St Int) : St Int := run cfg s [.ctl, .ctl, .ctl]

/-- Canonical schedule. sync source: the whole script, producer first, consumer whenever the
    producer is blocked. hot source: one notification at a time, each handled to quiescence;
    `Unsubscribe()` before notification `cut`. A stream that has not terminated is unsubscribed
    at the end (the harness needs the channel closed to finish). -/
def runPipe (cfg : Cfg) (raw : List (Notif Int)) (cut : Option Nat) (finalUnsub : Bool := true) : St Int :=
  let fuel := fuelFor raw
  let s0 : St Int := init cfg []
  let s0 := if cfg.toChan then next cfg s0 .ctl else s0   -- the hand-out comes first
  let feed (s : St Int) (xs : List (Notif Int)) : St Int := greedy cfg [.prod, .cons] fuel { s with src := s.src ++ xs }
  let s1 :=
    if cfg.hot then
      let go := fun (acc : St Int × Nat) (x : Notif Int) =>
        let s := if cut == some acc.2 then unsub cfg acc.1 else acc.1
        (feed s [x], acc.2 + 1)
      (raw.foldl go (s0, 0)).1
    else feed s0 raw
  let late := match cut with | some k => k ≥ raw.length | none => false
  let s2 := if late || (finalUnsub && s1.once == false) then unsub cfg s1 else s1
  greedy cfg [.prod, .cons] fuel s2

def ctxOfLastSent (s : St Int) : Ctx :=
  match s.sent.getLast? with
  | some n => n.ctx
  | none => {}

def downTraceStr (sub : Ctx) (s : St Int) : String :=
  let l := (if s.handed then ["Nch/" ++ renderCtx sub] else []) ++
           (if s.destCompleted then ["C/" ++ renderCtx (ctxOfLastSent s)] else [])
  if l.isEmpty then "-" else ",".intercalate l

def failsStr (s : St Int) : String :=
  renderErrs ((s.fails.map (fun x => (failedSend x).unhandled)).flatten)

/-- what reaches the caller: nothing from failed sends; the source's teardown panic (p7), wrapped
    by the two `execFinalizer`s it crosses, after the deferred `stop()` has run -/
def escapedStr (s : St Int) : String :=
  if !(s.fails.all (fun x => (failedSend x).escaped.isNone)) then "panic"
  else if s.raised then "tdpanic" else "-"

def dropsStr (s : St Int) : String :=
  let l := s.dropsDown.map renderNotifBare ++ s.dropsUp.map renderNotifBare ++ (if s.handDropped then ["Nch"] else [])
  if l.isEmpty then "-" else ",".intercalate l

def toChannelRes (sub : Ctx) (s : St Int) : String :=
  s!"read={renderBare s.got} closed={if s.closed then 1 else 0} closes={s.closes} trace={downTraceStr sub s} drops={dropsStr s} unh={failsStr s} escaped={escapedStr s}"

def detachRes (s : St Int) (tdp : Bool := false) : String :=
  s!"trace={renderTrace s.out} drops={dropsStr s} unh={failsStr s} escaped={escapedStr s}" ++
    (if tdp then s!" gone={if s.closed then 1 else 0}" else "")

/-- FromChannel: values `vs`, user closes or abandons, `Unsubscribe()` before value `cut` -/
def runFrom (cap : Nat) (sub : Ctx) (vs : List Int) (willClose : Bool) (cut : Option Nat) : FSt Int :=
  let fuel := 40 * (vs.length + 4)
  let funsub (s : FSt Int) : FSt Int := frun s [.ctl, .ctl, .ctl]
  match cut with
  | some k =>
    let s1 := fgreedy [.prod, .cons] fuel (finit cap sub (vs.take k) false)
    -- the user is parked in `fin`; give it the rest of its program
    let s2 := funsub s1
    fgreedy [.quit, .prod, .cons] fuel { s2 with inp := vs.drop k, willClose := willClose, upc := .idle }
  | none =>
    let s1 := fgreedy [.prod, .cons] fuel (finit cap sub vs willClose)
    if willClose then s1 else fgreedy [.quit, .prod, .cons] fuel (funsub s1)

def valsOf (raw : List (Notif Int)) : List Int := (values raw).map (·.2)

def collectRes (r : Option (Collected Int)) : String :=
  match r with
  | none => "blocks"
  | some c =>
    let ctx := match c.ctx with | some x => renderCtx x | none => "nil"
    -- Error(nil) (script token E0, model value `sentinel 0`): what Collect returns as its error IS nil
    let err := match c.err with | some (.sentinel 0) => "-" | some e => renderErr e | none => "-"
    s!"vals={render c.vals} err={err} ctx={ctx}"

def run (c : Case) : String :=
  let sub := parseCtx (c.getD "sub" "-")
  let cap := (c.getD "cap" "1").toNat?.getD 1
  let hot := c.getD "mode" "sync" == "hot"
  let cut := (c.get "cut").bind String.toNat?
  let tdp := c.getD "tdp" "0" == "1"
  match parseScript sub (c.getD "src" "-") with
  | none => s!"res {c.id} bad-script"
  | some raw =>
    match c.getD "op" "?" with
    | "ToChannel" => s!"res {c.id} {toChannelRes sub (runPipe { cap := cap, toChan := true, hot := hot, upPanic := tdp } raw cut)}"
    | "ObserveOn" => s!"res {c.id} {detachRes (runPipe { cap := cap, hot := hot, upPanic := tdp } raw cut) tdp}"
    | "SubscribeOn" =>
      -- Subscribe returns only when the stream has ended: the harness runs terminated scripts only
      if ending raw == .never || cut.isSome then s!"res {c.id} unsupported"
      else s!"res {c.id} {detachRes (runPipe { cap := cap, hot := hot } raw cut (finalUnsub := false))}"
    | "FromChannel" =>
      let s := runFrom cap sub (valsOf raw) (c.getD "close" "1" == "1") cut
      s!"res {c.id} trace={renderTrace s.out} donecloses={s.doneCloses} leak={match s.cpc with | .exited => 0 | _ => 1}"
    | "FromChannelBacklog" =>
      -- a buffered channel with a long backlog whose consumer leaves after k values: the reader stops at its next `select`
      -- (close(done) happens before the teardown returns; RoProps/C17.fromChannel_stops_reading, fromChannel_cut: nothing is received once done is closed,
      -- up to the receives the select had already committed to), so what it has not read stays in the channel for the next consumer
      s!"res {c.id} backlog=kept"
    | "Collect" =>
      match c.getD "via" "-" with
      | "ObserveOn" =>
        let s := runPipe { cap := cap, hot := false } raw none (finalUnsub := false)
        s!"res {c.id} {collectRes (if s.downOpen then none else some (collectOf s.out))}"
      | _ => s!"res {c.id} {collectRes (collect raw)}"
    | _ => s!"res {c.id} unsupported"

/-! `kind=chanv`: reference values for the oracles on the implementation -/

/-- ToChannel with the main thread parked before the hand-out until the goroutine is quiescent -/
def runPark (cap : Nat) (raw : List (Notif Int)) : St Int :=
  let cfg : Cfg := { cap := cap, toChan := true, hot := false }
  let fuel := fuelFor raw
  let s1 := greedy cfg [.prod] fuel (init cfg raw)
  let s2 := next cfg s1 .ctl
  let s3 := greedy cfg [.prod, .cons] fuel s2
  let s4 := if s3.once then s3 else unsub cfg s3
  greedy cfg [.prod, .cons] fuel s4

def runV (c : Case) : String :=
  let sub := parseCtx (c.getD "sub" "-")
  let cap := (c.getD "cap" "1").toNat?.getD 1
  match parseScript sub (c.getD "src" "-") with
  | none => s!"res {c.id} bad-script"
  | some raw =>
    let op := c.getD "op" "?"
    if c.getD "scen" "-" == "park" then
      s!"res {c.id} {toChannelRes sub (runPark cap raw)}"
    else if op == "FromChannel" then
      s!"res {c.id} full={renderTrace ((valsOf raw).map (Notif.next sub) ++ [Notif.complete sub])} bound={cap + 2}"
    else if op == "ToChannel" then
      s!"res {c.id} full={renderBare (gate raw)} bound={cap + 2}"
    else
      s!"res {c.id} full={renderTrace (gate raw)} bound={cap + 2}"

end Ro.Driver.Drivers.Chan

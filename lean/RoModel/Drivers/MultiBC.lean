/-
  RoModel.Drivers.MultiBC — `kind=multibc`: the concurrent clause of C05 for Zip / CombineLatest /
  BufferWhen / WindowWhen on tiny scripts. The harness drives every source from its own goroutine
  many times and reports the set of delivered traces it has seen; the model side prints
    allowed=  the specification's value on every arrival order compatible with the scripts
    logical=  the logical model's value on every arrival order (includes the known logical deviations)
    reach=    every trace the micro-step model (RoModel/MultiB/Micro.lean) can deliver, over all schedules
  The check requires seen ⊆ reach (the micro-step model covers the real code) and reports
  seen \ (allowed ∪ logical) as the concurrent deviation (known finding when listed). A trace followed by
  `!deadlock` means: delivered, and then a goroutine blocked forever on the operator's own mutex.
-/
import RoModel.Drivers.MultiB
import RoModel.MultiB.Micro
namespace Ro.Driver.Drivers.MultiBC
open Ro Ro.Driver Ro.MultiB Ro.MultiB.Micro Ro.Driver.Drivers.MultiB

def sortedSet (l : List String) : String :=
  let s := l.foldr insertSorted []
  let d := s.foldl (fun acc x => if acc.getLast? == some x then acc else acc ++ [x]) []
  if d.isEmpty then "none" else "|".intercalate d

def run (c : Case) : String :=
  let n := ((c.getD "n" "2").toNat?).getD 2
  match parseScripts (c.getD "srcs" "") with
  | none => s!"res {c.id} bad-script"
  | some scripts =>
    let ords := allOrders scripts
    let arr := fun (π : List Nat) => arrivals (scriptsFn scripts) π
    let fuel := 96
    let body : Option (List String × List String × List String) :=
      match c.getD "op" "?" with
      | "Zip" => some (
          ords.map (fun π => Drivers.MultiB.renderTrace renderTuple (Spec.zip n (arr π))),
          ords.map (fun π => Drivers.MultiB.renderTrace renderTuple (Ro.MultiB.run (zipM n) scripts π).out),
          (reach (zipMM n) fuel ((zipMM n).start scripts)).map (fun s => Drivers.MultiB.renderTrace renderTuple s.out ++ (if s.dead then "!deadlock" else "")))
      | "CombineLatest" => some (
          ords.map (fun π => Drivers.MultiB.renderTrace renderTuple (Spec.combineLatest n (arr π))),
          ords.map (fun π => Drivers.MultiB.renderTrace renderTuple (Ro.MultiB.run (combineLatestM n) scripts π).out),
          (reach (clMM n) fuel ((clMM n).start scripts)).map (fun s => Drivers.MultiB.renderTrace renderTuple s.out))
      | "BufferWhen" => some (
          ords.map (fun π => Drivers.MultiB.renderTrace renderSlice (Spec.bufferWhen (arr π))),
          ords.map (fun π => Drivers.MultiB.renderTrace renderSlice (Ro.MultiB.run bufferWhenM scripts π).out),
          (reach bwMM fuel (bwMM.start scripts)).map (fun s => Drivers.MultiB.renderTrace renderSlice s.out))
      | "WindowWhen" => some (
          ords.map (fun π => Drivers.MultiB.renderTrace renderInner (Spec.windowWhen (arr π))),
          ords.map (fun π => let r := Ro.MultiB.run (windowWhenM (α := Int)) scripts π; Drivers.MultiB.renderTrace renderInner (viewOut r.m.wins r.out)),
          (reach wwMM fuel (wwMM.start scripts)).map (fun s => Drivers.MultiB.renderTrace renderInner (viewOut s.shared.wins s.out)))
      | _ => none
    match body with
    | some (a, l, r) => s!"res {c.id} allowed={sortedSet a} logical={sortedSet l} reach={sortedSet r}"
    | none => s!"res {c.id} unsupported"

end Ro.Driver.Drivers.MultiBC

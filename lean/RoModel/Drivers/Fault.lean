/-
  RoModel.Drivers.Fault — `kind=fault`: one single-source operator over one raw script under a
  fault plan (C07).

    case 7 kind=fault op=Map p=- var=ictx cb=addi+t53 mode=hot sub=7 src=N1@1,N2@2,C@3 faults=cb:1:pe5,fe:0:pv2

  faults: `pos:index:what`, pos ∈ cb (operator callback, Next position) | cbe | cbc | cbs |
  ss (source subscribe function, index = notifications emitted before the panic) | st (source
  teardown) | fn fe fc (final observer); what ∈ pe<n> (panic with user error n) | pv<n> (panic with
  a non-error value) | pw<n> (panic with oe(ob(u<n>)): an error the library itself wrapped twice before) |
  er<n> (return user error n; MapErr only).

  Other shapes of the same kind:
    op=Finalizers fs=ok,pe1,pv2      — subscriptionImpl.Unsubscribe over a finalizer list
    op=Go:<Operator> faults=…        — a library goroutine running user code (child process on the Go side)
-/
import RoModel.DriverCore
import RoModel.Fault.Ops
import RoGen.Catalogue
import RoGen.FaultFacts
namespace Ro.Driver.Drivers.Fault
open Ro Ro.Driver Ro.Fault

def parseWhat (s : String) : Option Fault.Fault :=
  match s.toList with
  | 'p' :: 'e' :: r => (String.ofList r).toNat?.map (fun n => .panicErr (.user n))
  | 'p' :: 'v' :: r => (String.ofList r).toNat?.map (fun n => .panicVal n)
  -- an error that already went through the library twice (`ro.Observable: ro.Observer: user-n`), handed back by user code
  | 'p' :: 'w' :: r => (String.ofList r).toNat?.map (fun n => .panicErr (.observable (.observer (.user n))))
  | 'e' :: 'r' :: r => (String.ofList r).toNat?.map (fun n => .errRet (.user n))
  | _ => none

/-- (position, index, fault) -/
def parseFaults (s : String) : Option (List (String × Nat × Fault.Fault)) :=
  if s == "-" || s == "" then some [] else
  (s.splitOn ",").mapM (fun t =>
    match t.splitOn ":" with
    | [pos, idx, what] =>
      match idx.toNat?, parseWhat what with
      | some i, some f => some (pos, i, f)
      | _, _ => none
    | _ => none)

def at_ (fs : List (String × Nat × Fault.Fault)) (pos : String) : Nat → Option Fault.Fault := fun k =>
  (fs.find? (fun t => t.1 == pos && t.2.1 == k)).map (·.2.2)

def first (fs : List (String × Nat × Fault.Fault)) (pos : String) : Option (Nat × Fault.Fault) :=
  (fs.find? (fun t => t.1 == pos)).map (·.2)

def mkPlan (fs : List (String × Nat × Fault.Fault)) : Plan :=
  { cbN := at_ fs "cb", cbE := at_ fs "cbe", cbC := at_ fs "cbc", cbS := (first fs "cbs").map (·.2),
    srcSub := first fs "ss", srcTd := (first fs "st").map (·.2),
    fN := at_ fs "fn", fE := at_ fs "fe", fC := at_ fs "fc" }

def renderErrs (l : List Err) : String :=
  if l.isEmpty then "-" else ",".intercalate (l.map renderErr)

abbrev FRunner := Plan → SrcMode → Ctx → List (Notif Int) → String

def frunner {σ β : Type} [Render β] (fm : FMachine σ Int β) : FRunner := fun P mode sub raw =>
  let r := Fault.run fm P mode sub raw (.next (sub.tag 9) 99)
  s!"trace={renderTrace r.st.trace} drops={renderDrops r.st.drops} unh={renderErrs r.st.unhandled} esc={renderErrs r.escaped} rel={r.st.rel} subs={r.st.subs} " ++
  s!"ftrace={renderTrace (r.fin.trace.drop r.st.trace.length)} fdrops={renderDrops (r.fin.drops.drop r.st.drops.length)} " ++
  s!"funh={renderErrs (r.fin.unhandled.drop r.st.unhandled.length)} fesc={renderErrs r.escapedFin} frel={r.fin.rel} usable=1"

/-- operator name × parameters × variant × callbacks → fault runner -/
def lookupF (op : String) (p : List Int) (var : String) (cbs : List Cb) : Option FRunner :=
  match op, p, cbs with
  | "Filter", [], [cb] => (mkPred var cb).map (fun f => frunner (filterF f))
  | "DistinctBy", [], [cb] =>
      (unary cb.name).map (fun f => frunner (distinctByF (fun c (v : Int) => (tagWith (if hasCtx var then cb.tag else none) c, f v))))
  | "SkipWhile", [], [cb] => (mkPred var cb).map (fun f => frunner (skipWhileF f))
  | "TakeWhile", [], [cb] => (mkPred var cb).map (fun f => frunner (takeWhileF f))
  | "First", [], [cb] => (mkPred var cb).map (fun f => frunner (firstF f))
  | "Last", [], [cb] => (mkPred var cb).map (fun f => frunner (lastF f))
  | "Map", [], [cb] => (mkProj var cb).map (fun f => frunner (mapF f))
  | "MapErr", [], [cb] =>
      (mkProj var cb).map (fun f => frunner (mapErrF (fun c v i => ((f c v i).2, (f c v i).1, none))))
  | "Scan", [seed], [cb] => (mkRed var cb).map (fun f => frunner (scanF f seed))
  | "ToMap", [], [cb] =>
      (unary cb.name).map (fun f =>
        frunner (always ((toMapM (fun _ (v : Int) _ => (f v, v))).mapOut (fun m => MapVal.mk m))))
  | "All", [], [cb] => (mkBoolPred var cb).map (fun f => frunner (allF f))
  | "Contains", [], [cb] => (mkBoolPred var cb).map (fun f => frunner (containsF f))
  | "Find", [], [cb] => (mkBoolPred var cb).map (fun f => frunner (findF f))
  | "Reduce", [seed], [cb] => (mkRed var cb).map (fun f => frunner (reduceF f seed))
  -- callbacks in Error / Complete / subscribe position
  | "Tap", [], [] => some (frunner (tapF (α := Int)))
  | "ThrowIfEmpty", [k], [] => some (frunner (throwIfEmptyF (α := Int) (.user (natOf k))))
  | "Catch", [v], [] => some (frunner (catchF (fun c _ => [Notif.next c v, Notif.complete c])))
  | "TapOnSubscribe", [], [] => some (frunner (tapOnSubscribeF (α := Int)))
  -- operators without callbacks (faults in the source and in the final observer only)
  -- a hand-written observer subscribed directly to the source: what the source's own subscriber lets through (the identity machine)
  | "RawDirect", [], [] => some (frunner (plain (skipM (α := Int) 0)))
  | "Take", [n], [] => if n == 0 then none else some (frunner (plain (takeM (α := Int) (natOf n))))
  | "Skip", [n], [] => some (frunner (plain (skipM (α := Int) (natOf n))))
  | "ToSlice", [], [] => some (frunner (plain (toSliceM (α := Int))))
  | "OnErrorReturn", [v], [] => some (frunner (plain (onErrorReturnM v)))
  | "EndWith", suf, [] => some (frunner (plain (endWithM suf)))
  | _, _, _ => none

/-- `fs=ok,pe1,pv2` -/
def parseFinalizers (s : String) : Option (List (Option Err)) :=
  if s == "-" || s == "" then some [] else
  (s.splitOn ",").mapM (fun t => if t == "ok" then some none else (parseWhat t).map Fault.recovered)

def goRecovered (op : String) : Option Bool :=
  (RoGen.Catalogue.table.find? (fun r => r.name == op)).bind (fun r => (r.goStmts.find? (fun _ => true)).map (·.recovered))

def renderGo : GoResult → String
  | .returned => "crash=0 unh=-"
  | .unhandled e => s!"crash=0 unh={renderErr e}"
  | .crash _ => "crash=1 unh=-"

def run (c : Case) : String :=
  let op := c.getD "op" "?"
  if op == "Finalizers" then
    match parseFinalizers (c.getD "fs" "-") with
    | some fs =>
      let r := runFinalizers fs
      s!"res {c.id} ran={r.1} raised={renderErrs r.2}"
    | none => s!"res {c.id} bad-faults"
  else if op.startsWith "Go:RawObserver:" then
    match parseFaults (c.getD "faults" "-") with
    | some fs =>
      let deferred := ((RoGen.FaultFacts.deferredUnlock.find? (·.1 == "subscriberImpl.NextWithContext")).map (·.2.1)).getD false
      let r := rawObserverRun deferred (op == "Go:RawObserver:safe") (at_ fs "fn") 0 [1, 2] {}
      let seen := if r.seen.isEmpty then "-" else ",".intercalate (r.seen.map renderNotifBare)
      s!"res {c.id} crash=0 hang={if r.hang then 1 else 0} how={if r.hang then "-" else "returned"} seen={seen}"
    | none => s!"res {c.id} bad-faults"
  else if op.startsWith "Go:" then
    match parseFaults (c.getD "faults" "-"), goRecovered (op.drop 3).toString with
    | some fs, some rec =>
      -- the goroutine body runs the user function named by the (single) fault position
      let p := (fs.head?).bind (fun t => t.2.2.recovered)
      -- FromChannel: the goroutine delivers the completion; the subscriber's finalizers
      -- [close(done), the user's callback] run on it and the collected panic is re-raised
      -- Never / ThrowOnContextCancel: the goroutine sends the terminal on context cancellation, the subscriber's
      -- finalizers run on it; ToChannel: the goroutine registers its upstream subscription on a subscription that
      -- was disposed in the meantime, which unsubscribes the source — whose teardown is the user's — at once
      let name := (op.drop 3).toString
      let viaFinalizers := name == "FromChannel" || name == "Never" || name == "ThrowOnContextCancel" || name == "ToChannel"
      let p' := if viaFinalizers then (runFinalizers [none, p]).2.head? else p
      let isFuture := name == "Future"
      let seen : List (Notif Int) :=
        if isFuture then (futureRun p 1).seen
        else if name == "FromChannel" then [.complete {}] else []
      let seenS := if name == "Never" || name == "ThrowOnContextCancel" then "Ectxcanceled"   -- `ctx.Err()` of the cancelled context
        else if seen.isEmpty then "-" else ",".intercalate (seen.map renderNotifBare)
      -- Future catches the factory's panic itself; the wrapper of its goroutine has nothing left to do
      let p' := if isFuture then none else p'
      s!"res {c.id} {renderGo (goBody rec p')} seen={seenS}"
    | none, _ => s!"res {c.id} bad-faults"
    | _, none => s!"res {c.id} unsupported"
  else
  let sub := parseCtx (c.getD "sub" "-")
  let mode := if c.getD "mode" "sync" == "hot" then SrcMode.hot else SrcMode.sync
  let cbs := match c.get "cb" with
    | some s => if s == "-" then [] else (s.splitOn ",").map parseCb
    | none => []
  match parseScript sub (c.getD "src" "-"), lookupF op (parseInts (c.getD "p" "-")) (c.getD "var" "plain") cbs,
        parseFaults (c.getD "faults" "-") with
  | some raw, some run, some fs => s!"res {c.id} {run (mkPlan fs) mode sub raw}"
  | none, _, _ => s!"res {c.id} bad-script"
  | _, none, _ => s!"res {c.id} unsupported"
  | _, _, none => s!"res {c.id} bad-faults"

end Ro.Driver.Drivers.Fault

/-
  RoModel.Drivers.More — `kind=tap`: the `Tap*` / `Do*` family with its side effects
  (`tapM`: the state is the log of callback invocations), and `kind=pipe`: a pipeline built by
  manual nesting, by the typed `PipeN` / `PipeOpN` and by the reflective `Pipe` / `PipeOp` — one
  model (the chain of machines, Drivers/Chain.lean) for all five.

    case <id> kind=tap op=TapOnNext mode=hot cut=2 sub=7 src=N1@1,N2@2,C@3
    res  <id> trace=… fx=…
    case <id> kind=pipe n=3 ops=…|…|… mode=sync cut=- sub=7 src=…
    res  <id> trace=… subs=… rel=… closed=… eq=1111
-/
import RoModel.DriverCore
import RoModel.Drivers.Chain
namespace Ro.Driver.Drivers.More
open Ro Ro.Driver

def runIn {σ β : Type} (m : Machine σ Int β) (mode : SrcMode) (sub : Ctx) (raw : List (Notif Int)) (cut : Option Nat) :
    RunSt σ Int β :=
  match cut with
  | none => runOp m mode sub raw
  | some k => runOpCut m sub raw k

def renderBares {α} [Render α] (l : List (Notif α)) : String :=
  if l.isEmpty then "-" else ",".intercalate (l.map renderNotifBare)

def renderCtxs {α} (l : List (Notif α)) : String :=
  if l.isEmpty then "-" else ",".intercalate (l.map (fun n => renderCtx n.ctx))

def runTap (c : Case) : String :=
  let sub := parseCtx (c.getD "sub" "-")
  let mode := if c.getD "mode" "sync" == "hot" then SrcMode.hot else SrcMode.sync
  let cut := (c.get "cut").bind String.toNat?
  let op := c.getD "op" "?"
  -- the plain forms hand no context to the user's callback
  let withCtx := op.endsWith "WithContext"
  match parseScript sub (c.getD "src" "-") with
  | none => s!"res {c.id} bad-script"
  | some raw =>
    match tapSel op with
    | some sel =>
      let r := runIn (tapM sel) mode sub raw cut
      s!"res {c.id} trace={renderTrace r.out} fx={renderBares r.st} fxc={if withCtx then renderCtxs r.st else "-"}"
    | none =>
      let r := runIn (idM (α := Int)) mode sub raw cut
      if op == "TapOnSubscribe" || op == "DoOnSubscribe" || op == "TapOnSubscribeWithContext" || op == "DoOnSubscribeWithContext" then
        -- the callback runs once, with the subscription context, before the source is subscribed
        s!"res {c.id} trace={renderTrace r.out} fx=S fxc={if withCtx then renderCtx sub else "-"}"
      else if op == "TapOnFinalize" || op == "DoOnFinalize" then
        -- the callback runs when the teardown runs: once the subscription has ended either way
        let fin := !r.upOpen || !r.downOpen
        s!"res {c.id} trace={renderTrace r.out} fx={if fin then "F" else "-"} fxc=-"
      else s!"res {c.id} unsupported"

def runPipe (c : Case) : String := Chain.runChain c ++ " eq=1111"

end Ro.Driver.Drivers.More

/-
  RoModel.Drivers.Kernel — `kind=kernel`: scripts of API calls against one subscriber.

    case <id> kind=kernel mode=safe|unsafe|eventually dest=obs|nil panicky=<ids> scripts=<s0>;<s1>;…
    script ::= token,…   token ::= N<v> | E<e> | C | U | A<f> | W<f> | Q

  One thread: the model is run to quiescence and its whole log is printed (`log=`); the harness
  prints the log recorded from the real subscriber; the two must be identical.
  Several threads: real schedules are not replayable without a deterministic scheduler, so the
  harness prints only the verdict of the log predicates on the recorded log, and this handler
  prints the verdict of the same predicates (`Kernel.Preds`) on the model's log for a few canonical
  schedules (docs/kernel.md: the strong tie for the concurrent kernel is program equality).
-/
import RoModel.DriverCore
import RoModel.Kernel.Expected
import RoModel.Kernel.Preds
namespace Ro.Driver.Drivers.Kernel
open Ro Ro.Driver Ro.Kernel

def parseCall (t : String) : Option ApiCall :=
  match t.toList with
  | 'N' :: r => (String.ofList r).toNat?.map ApiCall.next
  | 'E' :: r => (String.ofList r).toNat?.map ApiCall.error
  | ['C'] => some .complete
  | ['U'] => some .unsubscribe
  | 'A' :: r => (String.ofList r).toNat?.map ApiCall.add
  | 'W' :: r => (String.ofList r).toNat?.map ApiCall.wait
  | ['Q'] => some .isClosed
  | _ => none

def parseScripts (s : String) : Option (List (List ApiCall)) :=
  (s.splitOn ";").mapM fun sc => if sc == "-" || sc == "" then some [] else (sc.splitOn ",").mapM parseCall

def parseMode : String → Mode
  | "unsafe" => .unsafeMode
  | "eventually" => .eventuallySafe
  | _ => .safe

def callTok : ApiCall → String
  | .next v => s!"N{v}"
  | .error e => s!"E{e}"
  | .complete => "C"
  | .unsubscribe => "U"
  | .add f => s!"A{f}"
  | .wait f => s!"W{f}"
  | .isClosed => "Q"

def kindTok : Kind → Nat → String
  | .next, x => s!"N{x}"
  | .error, x => s!"E{x}"
  | .complete, _ => "C"

def resTok : Res → String
  | .unit => "u"
  | .bool true => "t"
  | .bool false => "f"
  | .panicked => "p"

/-- the finalizer Wait registers is internal to the library: its run is not visible to the harness -/
def renderEv (waitIds : List FinId) : Ev → Option String
  | .call t c => some s!"c{t}:{callTok c}"
  | .ret t c r => some s!"r{t}:{callTok c}:{resTok r}"
  | .cbBegin t k x => some s!"b{t}:{kindTok k x}"
  | .cbEnd t k x => some s!"e{t}:{kindTok k x}"
  | .drop t k x => some s!"d{t}:{kindTok k x}"
  | .finRun t f => if waitIds.contains f then none else some s!"f{t}:{f}"
  | .appended _ _ => none
  | .raised t fs => some s!"x{t}:{".".intercalate (fs.map toString)}"

def renderLog (waitIds : List FinId) (log : List Ev) : String :=
  match log.filterMap (renderEv waitIds) with
  | [] => "-"
  | l => ",".intercalate l

def waitIdsOf (scripts : List (List ApiCall)) : List FinId :=
  scripts.flatten.filterMap fun | .wait f => some f | _ => none

/-- the log predicates, in the order the harness checks them -/
def verdict (mode : Mode) (scripts : List (List ApiCall)) (s : St) : String :=
  let log := s.sh.log
  let serial := mode != .unsafeMode || singleProducer scripts
  if serial && !noOverlapLog log then "overlap"
  else if serial && !grammarLog log then "grammar"
  else if !finOnceLog log then "fin-twice"
  else if s.sh.done && s.threads.all (fun th => th.ctl.stack.isEmpty) && !finAllLog log then "fin-missing"
  else if !raiseLog log then "raise-early"
  else if !cutLog log then "delivered-after-close"
  else if !isClosedLog log then "isclosed-false"
  else if !waitLog log then "wait-early"
  else if !s.sh.destNil && !terminalLog log then "terminal-lost"
  else "ok"

def schedules (n : Nat) : List (List Tid) :=
  let ids := List.range n
  [ids, ids.reverse, ids.flatMap (fun t => List.replicate 40 t), ids.reverse.flatMap (fun t => List.replicate 40 t),
   ids.flatMap (fun t => [t, t, t]), ids.reverse.flatMap (fun t => [t, t])]

def run (c : Case) : String :=
  let mode := parseMode (c.getD "mode" "safe")
  let destNil := c.getD "dest" "obs" == "nil"
  let panicky := (parseInts (c.getD "panicky" "-")).map Int.toNat
  match parseScripts (c.getD "scripts" "-") with
  | none => s!"res {c.id} bad-script"
  | some scripts =>
    let s0 := init mode destNil panicky scripts
    match scripts with
    | [_] =>
      let s := runRounds Expected.progs [0] 2000 s0
      s!"res {c.id} log={renderLog (waitIdsOf scripts) s.sh.log} verdict={verdict mode scripts s}"
    | _ =>
      let vs := (schedules scripts.length).map fun order => verdict mode scripts (runRounds Expected.progs order 2000 s0)
      s!"res {c.id} verdict={(vs.find? (· != "ok")).getD "ok"}"

end Ro.Driver.Drivers.Kernel

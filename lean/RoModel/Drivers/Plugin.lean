/-
  RoModel.Drivers.Plugin — `kind=plugin` (property C18): the data-plugin operators whose wrapped
  function is modelled in Lean, run as lift machines over the same items the Go harness feeds to
  the real operator (go/harness/plugin*.go). For every other operator the answer is `out=~`
  (the wrapped function is an uninterpreted parameter; the harness compares the operator with the
  library function directly).

  Source of a case: item i is delivered with the context `7.(i+1)`, the terminal with `7.90`
  (`pSource`). Rendering: `N<value>/<ctx>`, `E<err>/<ctx>`, `C/<ctx>`; byte strings `x<hex>`;
  renderings longer than 256 characters are clipped to `#<len>.<fnv64>` on both sides.
-/
import RoModel.DriverCore
import RoModel.Plugins.Lift
import RoModel.Plugins.Base64
import RoModel.Plugins.Strconv
import RoModel.Plugins.Text
import RoModel.Plugins.Sort
import RoModel.Plugins.Reader
namespace Ro.Driver.Drivers.Plugin
open Ro Ro.Driver Ro.Plugins

def errSyntax : Err := .sentinel 101
def errRange : Err := .sentinel 102
def errCorrupt : Err := .sentinel 103

def renderPErr : Err → String
  | .sentinel 101 => "syntax"
  | .sentinel 102 => "range"
  | .sentinel 103 => "corrupt"
  | e => renderErr e

structure Hex where
  bs : Bytes

instance : Render Hex := ⟨fun h => "x" ++ renderHex h.bs⟩

def renderPNotif {α} [Render α] : Notif α → String
  | .next c v => "N" ++ render v ++ "/" ++ renderCtx c
  | .error c e => "E" ++ renderPErr e ++ "/" ++ renderCtx c
  | .complete c => "C/" ++ renderCtx c

def renderPTrace {α} [Render α] (l : List (Notif α)) : String :=
  if l.isEmpty then "-" else ",".intercalate (l.map renderPNotif)

def subCtx : Ctx := { marks := [7] }

def mkRaw {α} (items : List α) (end_ : String) : List (Notif α) :=
  let vs := items.zipIdx.map (fun p => Notif.next (subCtx.tag (p.2 + 1)) p.1)
  let t : List (Notif α) :=
    if end_ == "C" then [.complete (subCtx.tag 90)]
    else match (end_.drop 1).toNat? with
      | some n => if end_.startsWith "E" then [.error (subCtx.tag 90) (.user n)] else []
      | none => []
  vs ++ t

def runM {σ α β} [Render β] (m : Machine σ α β) (items : List α) (end_ : String) : String :=
  clip (renderPTrace (runOp m .sync subCtx (mkRaw items end_)).out)

def numErr : Strconv.NumErr → Err
  | .syntax => errSyntax
  | .range => errRange

def atoiF (s : Bytes) : Int × Option Err :=
  match Strconv.atoi s with
  | .ok n => (n, none)
  | .error e => (0, some (numErr e))

def parseBoolF (s : Bytes) : Bool × Option Err :=
  match Strconv.parseBool s with
  | some b => (b, none)
  | none => (false, some errSyntax)

def b64 (name : String) : Base64.Enc :=
  if name == "url" then Base64.urlEnc
  else if name == "rawstd" then Base64.rawStd
  else if name == "rawurl" then Base64.rawUrl
  else Base64.std

def decodeF (e : Base64.Enc) (s : Bytes) : Hex × Option Err :=
  match Base64.decode e s with
  | some bs => (⟨bs⟩, none)
  | none => (⟨[]⟩, some errCorrupt)

def bytesToString (bs : Bytes) : String := String.ofList (bs.map Char.ofNat)

/-- decimal items (`Itoa`, `FormatInt`, sort keys) arrive as the hex of their decimal text -/
def intOfItem (bs : Bytes) : Int := ((bytesToString bs).toInt?).getD 0

def sortLt (name : String) : Int → Int → Bool :=
  if name == "nat" then fun a b => a < b
  else if name == "desc" then fun a b => b / 100 < a / 100
  else fun a b => a / 100 < b / 100

def insertInt (x : Int) : List Int → List Int
  | [] => [x]
  | y :: ys => if x ≤ y then x :: y :: ys else y :: insertInt x ys

def renderInts (l : List Int) : String :=
  if l.isEmpty then "-" else ",".intercalate (l.map toString)

/-- the script of `Read` results the harness' reader produces: `plan` chunk sizes cut from the
    data, the last one together with the final error for `fin=data…`, otherwise one more read
    that returns only the error -/
def readScript (data : Bytes) (plan : List Nat) (fin : String) : List Reader.Read :=
  let withData := fin.startsWith "data"
  let f := if withData then (fin.drop 4).toString else fin
  let err : Reader.RErr := if f == "eof" then .eof else .other ((f.drop 3).toNat?.getD 0)
  let rec go (d : Bytes) : List Nat → List Reader.Read
    | [] => [⟨[], some err⟩]
    | [n] =>
      let k := min (min n Reader.bufSize) d.length
      if withData then [⟨d.take k, some err⟩] else [⟨d.take k, none⟩, ⟨[], some err⟩]
    | n :: rest =>
      let k := min (min n Reader.bufSize) d.length
      ⟨d.take k, none⟩ :: go (d.drop k) rest
  go data plan

def stdPlan (total : Nat) : List Nat :=
  (List.replicate (total / Reader.bufSize) Reader.bufSize) ++ (if total % Reader.bufSize > 0 then [total % Reader.bufSize] else [])

def parsePlan (p : String) (total : Nat) : List Nat :=
  if p == "std" || p == "-" || p == "" then stdPlan total else (p.splitOn ".").filterMap String.toNat?

def renderChunks (chunks : List Bytes) (term : Option String) : String :=
  let ns := chunks.map (fun b => "Nx" ++ renderHex b ++ "/7")
  let all := ns ++ (match term with | some t => [t] | none => [])
  if all.isEmpty then "-" else ",".intercalate all

def termStr : Reader.Term → Option String
  | .complete => some "C/7"
  | .error k => some ("Eu" ++ toString k ++ "/7")
  | .none => none

def run (c : Case) : String :=
  let op := c.getD "op" "?"
  let ps := let p := c.getD "p" "-"; if p == "-" || p == "" then [] else p.splitOn ","
  let end_ := c.getD "end" "C"
  match parseItems (c.getD "in" "-") with
  | none => s!"res {c.id} bad-items"
  | some items =>
    let unmodelled := s!"res {c.id} out=~"
    let res (o : String) := s!"res {c.id} out={o}"
    match op with
    | "strconv.Atoi" => res (runM (liftMapErr atoiF) items end_)
    | "strconv.ParseInt" => if ps == ["10", "64"] then res (runM (liftMapErr atoiF) items end_) else unmodelled
    | "strconv.Itoa" => res (runM (liftMap (fun (n : Int) => Hex.mk (Strconv.itoa n))) (items.map intOfItem) end_)
    | "strconv.FormatInt" =>
      if ps == ["10"] then res (runM (liftMap (fun (n : Int) => Hex.mk (Strconv.itoa n))) (items.map intOfItem) end_) else unmodelled
    | "strconv.RoundTrip" =>
      res (runM ((liftMap (fun (n : Int) => Strconv.itoa n)).seq (liftMapErr atoiF)) (items.map intOfItem) end_)
    | "strconv.ParseBool" => res (runM (liftMapErr parseBoolF) items end_)
    | "strconv.FormatBool" =>
      res (runM (liftMap (fun (b : Bytes) => Hex.mk (Strconv.formatBool (b == [116])))) items end_)
    | "base64.Encode" => res (runM (liftMap (fun bs => Hex.mk (Base64.encode (b64 (ps.headD "std")) bs))) items end_)
    | "base64.Decode" => res (runM (liftMapErr (decodeF (b64 (ps.headD "std")))) items end_)
    | "base64.RoundTrip" =>
      let e := b64 (ps.headD "std")
      res (runM ((liftMap (Base64.encode e)).seq (liftMapErr (decodeF e))) items end_)
    | "strings.Ellipsis" =>
      let n := ((ps.headD "0").toInt?).getD 0
      res (runM (liftMap (fun bs => Hex.mk (Text.ellipsis bs n))) items end_)
    | "bytes.Ellipsis" =>
      let n := ((ps.headD "0").toInt?).getD 0
      let cap := ((c.getD "cap" "0").toNat?).getD 0
      -- the harness puts every item in its own array: 4 sentinel bytes, the data, `cap` spare bytes
      let written := items.any (fun bs =>
        let h := List.replicate 4 238 ++ bs ++ List.replicate cap 238
        (Text.ellipsisB h ⟨4, bs.length, bs.length + cap⟩ n).1 != h)
      s!"{res (runM (liftMap (fun bs => Hex.mk (Text.ellipsis bs n))) items end_)} mut={if written then 1 else 0}"
    | "sort.Sort" | "sort.SortFunc" | "sort.SortStableFunc" =>
      let lt := sortLt (ps.headD "bykey")
      let xs := items.map intOfItem
      -- Sort / SortFunc: sort.Slice (above 12 elements the stable sort stands in for pdqsort and only
      -- keys + bag are compared); SortStableFunc: sort.SliceStable
      let sorter := if op == "sort.SortStableFunc" then Sort.stableSort lt else Sort.sortSlice (Sort.stableSort lt) lt
      let out := runM (Sort.sortM sorter) xs end_
      if end_ == "C" then
        let sorted := sorter xs
        s!"{res out} keys={clip (renderInts (sorted.map (· / 100)))} bag={clip (renderInts (xs.foldr insertInt []))} n={xs.length}"
      else s!"{res out} keys=- bag=- n={xs.length}"
    | "stdio.NewIOReader" =>
      let data := items.headD []
      let script := readScript data (parsePlan (c.getD "p" "std") data.length) (c.getD "fin" "eof")
      -- `retained`: what an observer that kept the chunks sees after the run (fresh arrays: the chunks)
      let r := Reader.runIOReader script
      s!"{res (clip (renderChunks r.chunks (termStr r.term)))} retained={clip (renderChunks r.chunks none)}"
    | _ => unmodelled

end Ro.Driver.Drivers.Plugin

/-
  RoModel.Drivers.SeqEq — `kind=seqeq` (C04; go/harness/seqeq.go): SequenceEqual over two synchronous sources.
    case 4 kind=seqeq a=1,2,3 enda=C b=1,2 endb=E3
    res 4 out=T,C spec=Eu3        out: what the code delivers (model of RoModel/Ops/SeqEq.lean); spec: the documented function
-/
import RoModel.DriverCore
import RoModel.Ops.SeqEq
namespace Ro.Driver.Drivers.SeqEq
open Ro Ro.Driver Ro.SeqEq

def parseEnd (s : String) : Option End :=
  match s.toList with
  | ['C'] => some .complete
  | 'E' :: r => (String.ofList r).toNat?.map (fun n => End.error (.user n))
  | _ => none

def renderOut : Out → String
  | .val true => "T"
  | .val false => "F"
  | .complete => "C"
  | .error e => "E" ++ renderErr e

def renderOuts (l : List Out) : String := if l.isEmpty then "-" else ",".intercalate (l.map renderOut)

def run (c : Case) : String :=
  match parseEnd (c.getD "enda" "C"), parseEnd (c.getD "endb" "C") with
  | some ea, some eb =>
    let a := parseInts (c.getD "a" "-")
    let b := parseInts (c.getD "b" "-")
    s!"res {c.id} out={renderOuts (impl a ea b eb)} spec={renderOuts (spec a ea b eb)}"
  | _, _ => s!"res {c.id} bad-case"

end Ro.Driver.Drivers.SeqEq

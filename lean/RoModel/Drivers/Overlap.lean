/-
  RoModel.Drivers.Overlap — `kind=overlap` (C02 search / validation): `Merge` of several
  goroutine-driven sources followed by a chain of operators. The model side is `emitMode` over the
  regenerated rows (RoProps/C02b): when the subscriber MergeAll emits into is a locking one the
  final observer's callbacks must never overlap (`expect=serialized`); otherwise overlap is possible
  (`expect=may-overlap`, the known unsafe pass-through deviation).
-/
import RoModel.DriverCore
import RoModel.FactPreds
import RoGen.Catalogue
namespace Ro.Driver.Drivers.Overlap
open Ro Ro.Driver Ro.Facts

def rowOf (n : String) : Option OpFact := RoGen.Catalogue.table.find? (·.name == n)

def run (c : Case) : String :=
  let names := (c.getD "rows" "").splitOn ","
  match (("MergeAll" :: names).filter (· ≠ "")).mapM rowOf with
  | some rows =>
    match emitMode rows with
    | some m => if serializedMode m then s!"res {c.id} expect=serialized" else s!"res {c.id} expect=may-overlap"
    | none => s!"res {c.id} unsupported"
  | none => s!"res {c.id} unsupported"

/-- `kind=subjoverlap`: publish, behavior, replay and async broadcast while holding `s.mu`, so the
    callbacks of each subscriber are serialised whatever subscriber it is. The unicast subject
    delivers AFTER releasing `s.mu` and relies on the lock of the subscriber it wraps its observer
    in — `NewSubscriber(destination)` reuses a destination that already is a Subscriber, so behind
    an unsafe pass-through operator (the C02 known finding) nothing serialises its deliveries. -/
def runSubj (c : Case) : String :=
  let unsafeVia := knownUnsafePassThrough.any (fun n => n == c.getD "via" "direct" || n == c.getD "via" "direct" ++ "WithContext")
  if c.getD "subject" "publish" == "unicast" && unsafeVia then s!"res {c.id} expect=may-overlap grammar=ok"
  else s!"res {c.id} expect=serialized grammar=ok"

end Ro.Driver.Drivers.Overlap

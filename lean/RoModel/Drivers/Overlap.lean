/-
  RoModel.Drivers.Overlap — `kind=overlap` (C02 search / validation): `Merge` of several
  goroutine-driven sources followed by a chain of operators. The model side is `emitMode` over the
  regenerated rows (RoProps/C02b): when the subscriber MergeAll emits into is a locking one the
  final observer's callbacks must never overlap (`expect=serialized`); otherwise overlap is possible
  (`expect=may-overlap`, the known unsafe pass-through deviation).
-/
import RoModel.DriverCore
import RoModel.FactPreds
import RoGen.Catalogue
namespace Ro.Driver.Drivers.Overlap
open Ro Ro.Driver Ro.Facts

def rowOf (n : String) : Option OpFact := RoGen.Catalogue.table.find? (·.name == n)

def run (c : Case) : String :=
  -- `Row#variant`: the same row with another parameter choice on the harness side
  let names := ((c.getD "rows" "").splitOn ",").map fun n => (n.splitOn "#").headD n
  match (("MergeAll" :: names).filter (· ≠ "")).mapM rowOf with
  | some rows =>
    match emitMode rows with
    | some m => if serializedMode m then s!"res {c.id} expect=serialized" else s!"res {c.id} expect=may-overlap"
    | none => s!"res {c.id} unsupported"
  | none => s!"res {c.id} unsupported"

/-- `kind=subjoverlap`: publish, behavior, replay and async broadcast while holding `s.mu`, so the
    callbacks of each subscriber are serialised whatever subscriber it is. The unicast subject
    delivers AFTER releasing `s.mu` and relies on the lock of the subscriber it wraps its observer
    in — `NewSubscriber(destination)` reuses a destination that already is a Subscriber, so behind
    an unsafe pass-through operator (the C02 known finding) nothing serialises its deliveries. -/
def runSubj (c : Case) : String :=
  let unsafeVia := knownUnsafePassThrough.any (fun n => n == c.getD "via" "direct" || n == c.getD "via" "direct" ++ "WithContext")
  if c.getD "subject" "publish" == "unicast" && unsafeVia then s!"res {c.id} expect=may-overlap grammar=ok"
  else s!"res {c.id} expect=serialized grammar=ok"

/-- `kind=overlap2`: every multi-feeder operator with all its inputs driven from goroutines of their own
    (go/harness/overlap.go). The chain of regenerated rows whose `emitMode` decides which subscriber the
    concurrent feeders emit into: the operator's own row for the operators that merge their feeders themselves;
    `MergeAll` followed by the operator for the ones that receive an already merged stream (a multi-source
    fallback / continuation) and may hand their destination through. -/
def chainOf : String → List String
  | "TakeUntil" => ["TakeUntil"]
  | "SkipUntil" => ["SkipUntil"]
  | "SampleWhen" => ["SampleWhen"]
  | "ThrottleWhen" => ["ThrottleWhen"]
  | "BufferWhen" => ["BufferWhen"]
  | "WindowWhen" => ["MergeAll"]            -- the windows are merged again by the harness
  | "MergeWith" => ["MergeAll"]
  | "MergeMap" => ["MergeAll"]
  | "RaceWith" => ["RaceWith"]
  | "Zip2" => ["ZipWith1"]
  | "Zip3" => ["ZipWith2"]
  | "CombineLatest2" => ["CombineLatestWith1"]
  | "CombineLatest3" => ["CombineLatestWith2"]
  | "CombineLatestAll" => ["CombineLatestAll"]
  | "ZipAll" => ["ZipAll"]
  | "Catch" => ["MergeAll", "Catch"]
  | "OnErrorResumeNextWith" => ["MergeAll", "OnErrorResumeNextWith"]
  | "Concat" => ["MergeAll", "ConcatAll"]
  | "StartWith" => ["MergeAll", "StartWith"]
  | "Defer" => ["MergeAll", "Defer"]
  | "Timeout" => ["Timeout"]
  | "BufferWithTimeOrCount" => ["BufferWithTimeOrCount"]
  | "Delay" => ["Delay"]
  | _ => []

def run2 (c : Case) : String :=
  match chainOf (c.getD "op" "?") with
  | [] => s!"res {c.id} unsupported"
  | names =>
    match names.mapM rowOf with
    | some rows =>
      match emitMode rows with
      | some m => if serializedMode m then s!"res {c.id} expect=serialized" else s!"res {c.id} expect=may-overlap"
      | none => s!"res {c.id} unsupported"
    | none => s!"res {c.id} unsupported"

/-- `kind=overlap3`: the library's own sources and the context operators, subscribed with a context that is cancelled
    while a callback runs (go/harness/overlap.go). The row of the source: serialized when it is built with a locking
    constructor or has a single emitting goroutine (the row predicate of RoProps/C02b.table_ok). -/
def rowName3 : String → String
  | "FutureMap" | "FutureErr" => "Future"
  | "RangeWithInterval" => "Interval"      -- Pipe2(Interval, Map, Take)
  | n => n

def run3 (c : Case) : String :=
  match rowOf (rowName3 (c.getD "op" "?")) with
  | some r => if r.serialized || !r.multiFeeder then s!"res {c.id} expect=serialized" else s!"res {c.id} expect=may-overlap"
  | none => s!"res {c.id} unsupported"

end Ro.Driver.Drivers.Overlap

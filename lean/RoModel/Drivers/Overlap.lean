/-
  RoModel.Drivers.Overlap — `kind=overlap` (C02 search / validation): `Merge` of several
  goroutine-driven sources followed by a chain of operators. The model side is `emitMode` over the
  regenerated rows (RoProps/C02b): when the subscriber MergeAll emits into is a locking one the
  final observer's callbacks must never overlap (`expect=serialized`); otherwise overlap is possible
  (`expect=may-overlap`, the known unsafe pass-through deviation).
-/
import RoModel.DriverCore
import RoModel.FactPreds
import RoGen.Catalogue
namespace Ro.Driver.Drivers.Overlap
open Ro Ro.Driver Ro.Facts

def rowOf (n : String) : Option OpFact := RoGen.Catalogue.table.find? (·.name == n)

def run (c : Case) : String :=
  let names := (c.getD "rows" "").splitOn ","
  match (("MergeAll" :: names).filter (· ≠ "")).mapM rowOf with
  | some rows =>
    match emitMode rows with
    | some m => if serializedMode m then s!"res {c.id} expect=serialized" else s!"res {c.id} expect=may-overlap"
    | none => s!"res {c.id} unsupported"
  | none => s!"res {c.id} unsupported"

end Ro.Driver.Drivers.Overlap

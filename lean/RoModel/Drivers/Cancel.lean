/-
  RoModel.Drivers.Cancel — `kind=cancel` (C14): the model side is the regenerated fact `blocks` of
  the operator's row: an operator whose subscribe function waits for its source cannot return
  (nor release the source) while the source never ends; every other operator returns and, once
  downstream has ended, has released its source (RoProps/C14 `released`, `cut`).
-/
import RoModel.DriverCore
import RoModel.FactPreds
import RoGen.Catalogue
namespace Ro.Driver.Drivers.Cancel
open Ro Ro.Driver Ro.Facts

def run (c : Case) : String :=
  let rowName := c.getD "row" "-"
  let blocks := if rowName == "-" then false
    else match RoGen.Catalogue.table.find? (·.name == rowName) with
      | some r => r.blocks
      | none => false
  let returned := if blocks then 0 else 1
  let ended := if c.getD "term" "unsub" == "take1" then 1 else returned
  s!"res {c.id} ended={ended} returned={returned} released={returned}"

/-- `kind=leak` (C03 operator half): whichever way the stream ends, the source is released exactly
    once, the subscription reports closed, and no goroutine of the library survives -/
def runLeak (c : Case) : String := s!"res {c.id} leaked=0 released=1 closed=1 who=-"

/-- `kind=nextret` (C08, subjects inside synchronous pipelines; go/harness/nextret.go): a producer's `Next` into a
    unicast subject whose observer is catching up with the backlog returns only after the value has been delivered —
    `Subscribe` and its replay are one critical section of the subject (C10.subjects_wellLocked, C10.unicast_subscribe_locked_replay over the regenerated
    lock skeletons), and `Next` with an observer delivers before it returns (C10.unicast_delivers_outside_lock). -/
def runNextRet (c : Case) : String := s!"res {c.id} early=0 delivered=1 order=ok"


/-- `kind=ctxpair` (C09, time-driven and hand-off operators; go/harness/ctxpair.go): every delivered notification carries the
    context it was sent with — the queues of `Delay`, `detachOn` (ObserveOn / SubscribeOn) and the stored value of
    `SampleTime` hold (context, notification) pairs, never a context apart from its notification (for Delay: RoProps/C09.delay_keeps_context,
    delay_kth over the pop sequence of the timed model; witness of the other design: Timed.timerCtx_witness). -/
def runCtxPair (c : Case) : String := s!"res {c.id} bad=0 term=ok"

/-- `kind=lateuse` (C12; go/harness/lateuse.go): the time between building a pipeline and subscribing to it (or between two
    subscriptions) does not count — operators keep nothing outside their subscribe function (C12.table_ok,
    factory_state_rows, buildtime_rows over the regenerated tables). -/
def runLateUse (c : Case) : String := s!"res {c.id} ok=1 why=-"

/-- `kind=tdwait` (C06; go/harness/tdwait.go): a stream that ends by itself runs its teardowns OUTSIDE the producer lock, so a
    teardown that stops a second producer of the same subscriber and waits until it has left returns, Wait returns and nothing
    hangs (RoProps/C06lock.regenerated_teardowns_outside_mu over the regenerated subscriber programs; C06.kernel_only_wait_waits). -/
def runTdWait (c : Case) : String := s!"res {c.id} hang=0 wait=returned term={c.getD "end" "C"}"

end Ro.Driver.Drivers.Cancel

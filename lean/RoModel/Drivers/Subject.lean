/-
  RoModel.Drivers.Subject — `kind=subject`: one subject, one operation sequence (C10).

    case <id> kind=subject op=<publish|behavior|replay|async|unicast> p=<n|-1|-> src=N1,S0,N2,E1,U0,S1,C
    res <id> r0=<trace> r1=<trace> r2=<trace> drops=<bare notifications> st=<per step: count has closed thrown completed> dev=<ids> pin=<ids> reg=<ids>

  `late`: identities in the excluded class of `unicast_definition_partial` (theorem: dev = late);
  `spec<i>`: for each deviating identity, what the definition says it should have received.
  `dev`: the subscriber identities whose received trace in the model differs from the sequential
  definition `Spec.received` (theorems: only unicast late subscribers with a backlog); `pin`: same
  against the pinned variant of the unicast definition (theorem: never); `reg`: identities whose
  registration / the status differ from `Spec.subscribed` / `Spec.status` (theorem: never).
  These three fields are computed from the model and the definition only (validation of the
  theorems' statements on the executed cases; the implementation's line does not have them).

  The k-th operation (1-based) carries the context with markers `7.k`; for `Subscribe` that is the
  subscriber context.  `p`: buffer size of replay/unicast (`-1` unlimited), initial value of behavior.
-/
import RoModel.DriverCore
import RoModel.Subjects
import RoModel.SubjectsX
import RoModel.Spec.Subjects
namespace Ro.Driver.Drivers.Subject
open Ro Ro.Driver Ro.Subj

def opCtx (k : Nat) : Ctx := { marks := [7, k] }

def parseOp (k : Nat) (t : String) : Option (Op Int) :=
  match t.toList with
  | 'N' :: r => (String.ofList r).toInt?.map (Op.next (opCtx k))
  | 'E' :: r => (String.ofList r).toNat?.map (fun n => Op.error (opCtx k) (.user n))
  | ['C'] => some (.complete (opCtx k))
  | 'S' :: r => (String.ofList r).toNat?.map (fun i => Op.subscribe i (opCtx k))
  | 'U' :: r => (String.ofList r).toNat?.map Op.unsubscribe
  | _ => none

def parseOps (s : String) : Option (List (Op Int)) :=
  if s == "-" || s == "" then some []
  else ((s.splitOn ",").zipIdx).mapM (fun p => parseOp (p.2 + 1) p.1)

def capOf (p : List Int) : Option (Option Nat) :=
  match p with
  | [n] => if n == -1 then some none else if n ≥ 0 then some (some n.toNat) else Option.none
  | _ => Option.none

def parseKind (op : String) (p : List Int) : Option (Kind Int) :=
  match op with
  | "publish" => some .publish
  | "behavior" => (match p with | [v] => some (.behavior v) | _ => none)
  | "replay" => (capOf p).map .replay
  | "async" => some .async
  | "unicast" => (capOf p).map .unicast
  | _ => none

def renderBare (l : List (Notif Int)) : String :=
  if l.isEmpty then "-" else ",".intercalate (l.map renderNotifBare)

def renderSt (s : State Int) : String :=
  toString s.countObservers ++ render s.hasObserver ++ render s.isClosed ++ render s.hasThrown ++ render s.isCompleted

def pinned (k : Kind Int) : List (Op Int) → Nat → List (Notif Int) :=
  match k with
  | .unicast cap => Spec.unicastPinned cap
  | k => Spec.received k

def renderResult (k : Kind Int) (ops : List (Op Int)) : String :=
  let s := run k ops
  let sts := (scan k k.init ops).map renderSt
  let ids := [0, 1, 2]
  let dev := ids.filter (fun i => (s.sub i).got != Spec.received k ops i)
  let pin := ids.filter (fun i => (s.sub i).got != pinned k ops i)
  let reg := ids.filter (fun i => (s.observers.contains i) != Spec.subscribed k ops i)
    ++ (if s.status = Spec.status ops then [] else [9])
  let late := match k with
    | .unicast cap => ids.filter (fun i => Spec.lateWithBacklog cap ops i)
    | _ => []
  let specs := " ".intercalate (dev.map (fun i => s!"spec{i}={renderTrace (Spec.received k ops i)}"))
  s!"r0={renderTrace (s.sub 0).got} r1={renderTrace (s.sub 1).got} r2={renderTrace (s.sub 2).got} drops={renderBare s.drops} st={if sts.isEmpty then "-" else ",".intercalate sts} dev={renderNats dev} pin={renderNats pin} reg={renderNats reg} late={renderNats late}{if dev.isEmpty then "" else " " ++ specs}"

def run (c : Case) : String :=
  match parseKind (c.getD "op" "?") (parseInts (c.getD "p" "-")), parseOps (c.getD "src" "-") with
  | some k, some ops => s!"res {c.id} {renderResult k ops}"
  | none, _ => s!"res {c.id} unsupported"
  | _, none => s!"res {c.id} bad-script"

/-! ### `kind=subjx`: subscribing with a ready-made Subscriber (go/harness/subjx.go)

  `X i` (a Subscriber that is already unsubscribed) and `Y i` (a Subscriber that unsubscribes itself inside its first Next
  callback) are reduced to the sequential model: the subject runs `Subscribe i`, and `Unsubscribe i` follows at the point
  where the subscriber closed itself; what the subscription delivered to a subscriber that was closed by then went to the
  dropped-notification hook instead. -/

def parseXOp (k : Nat) (t : String) : Option XOp :=
  match t.toList with
  | 'X' :: r => (String.ofList r).toNat?.map (fun i => XOp.dead i (opCtx k))
  | 'Y' :: r => (String.ofList r).toNat?.map (fun i => XOp.selfUnsub i (opCtx k))
  | _ => (parseOp k t).map XOp.plain

def parseXOps (s : String) : Option (List XOp) :=
  if s == "-" || s == "" then some []
  else ((s.splitOn ",").zipIdx).mapM (fun p => parseXOp (p.2 + 1) p.1)

def runX (c : Case) : String :=
  match parseKind (c.getD "op" "?") (parseInts (c.getD "p" "-")), parseXOps (c.getD "src" "-") with
  | some k, some ops =>
    let (final, sts) := ops.foldl (fun (acc : (State Int × List Nat) × List String) o =>
      let st' := stepX k acc.1 o
      (st', acc.2 ++ [renderSt st'.1])) ((k.init, []), [])
    let s := final.1
    s!"res {c.id} r0={renderTrace (s.sub 0).got} r1={renderTrace (s.sub 1).got} r2={renderTrace (s.sub 2).got} drops={renderBare s.drops} st={if sts.isEmpty then "-" else ",".intercalate sts} hang=0"
  | none, _ => s!"res {c.id} unsupported"
  | _, none => s!"res {c.id} bad-script"

end Ro.Driver.Drivers.Subject

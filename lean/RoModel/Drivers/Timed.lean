/-
  RoModel.Drivers.Timed — `kind=timed` (property C16): the case line carries the timed trace that the
  harness OBSERVED on the real library (`obs=`, written after the run); this handler only parses it
  and evaluates the proved acceptor `Ro.Timed.accepts`. Format: go/harness/timed.go.
-/
import RoModel.DriverCore
import RoModel.Spec.Timed
namespace Ro.Driver.Drivers.Timed
open Ro Ro.Driver Ro.Timed

def parseOp : String → Option Op
  | "Delay" => some .delay
  | "DelayEach" => some .delayEach
  | "Timeout" => some .timeout
  | "Interval" => some .interval
  | "IntervalWithInitial" => some .intervalWithInitial
  | "Timer" => some .timer
  | "RangeWithInterval" => some .rangeWithInterval
  | "RangeWithStepAndInterval" => some .rangeWithInterval     -- the same clause with `step=` from the case line
  | "RepeatWithInterval" => some .rangeWithInterval           -- `RangeWithInterval(0, count, d) |> Map(_ ↦ item)`: see `run`
  | "ThrottleTime" => some .throttleTime
  | "SampleTime" => some .sampleTime
  | "BufferWithTime" => some .bufferWithTime
  | "BufferWithTimeOrCount" => some .bufferWithTimeOrCount
  | _ => none

/-- `N3`, `B1.2.3`, `B`, `Eu7`, `Eto`, `Ecc`, `Eot`, `C` -/
def parseTN (s : String) : Option TN :=
  match s.toList with
  | 'N' :: r => (String.ofList r).toInt?.map TN.next
  | 'B' :: r =>
    let body := String.ofList r
    if body.isEmpty then some (.buf []) else ((body.splitOn ".").mapM String.toInt?).map TN.buf
  | ['C'] => some .complete
  | 'E' :: 'u' :: r => (String.ofList r).toNat?.map (fun n => TN.error (errUser n))
  | ['E', 't', 'o'] => some (.error errTimeout)
  | ['E', 'c', 'c'] => some (.error errCancelled)
  | ['E', 'o', 't'] => some (.error errOther)
  | _ => none

def parseEv (s : String) : Option Ev :=
  match s.splitOn ":" with
  | [a, b, n] => do
    let t0 ← a.toNat?
    let t1 ← b.toNat?
    let tn ← parseTN n
    pure ⟨t0, t1, tn⟩
  | _ => none

def parseEvs (s : String) : Option (List Ev) :=
  if s == "-" || s == "" then some [] else (s.splitOn ",").mapM parseEv

def parseCut (s : String) : Option Cut :=
  match s.splitOn ":" with
  | ["-"] => some .none
  | ["u", a, b] => do pure (.unsubOut (← a.toNat?) (← b.toNat?))
  | ["i", k, a, b] => do pure (.unsubIn (← k.toNat?) (← a.toNat?) (← b.toNat?))
  | ["c", a, b] => do pure (.cancel (← a.toNat?) (← b.toNat?))
  | _ => none

def parseObs (s : String) : Option (TimedTrace × String) :=
  match s.splitOn "|" with
  | [sub, em, dl, cut, flags] => do
    let t ← sub.toNat?
    let es ← parseEvs em
    let ds ← parseEvs dl
    let c ← parseCut cut
    pure ({ sub := t, emits := es, dels := ds, cut := c }, flags)
  | _ => none

def natField (c : Case) (k : String) : Nat := ((c.get k).bind String.toNat?).getD 0
def intField (c : Case) (k : String) : Int := ((c.get k).bind String.toInt?).getD 0

def run (c : Case) : String :=
  let obs := c.getD "obs" ""
  if obs == "unsupported" then s!"res {c.id} unsupported"
  else if obs.startsWith "harness-panic" then s!"res {c.id} {obs.replace ":" "="}"
  else
  match parseOp (c.getD "op" "?"), parseObs obs with
  | some op, some (tr0, flags) =>
    -- RepeatWithInterval(item, count, d) (operator_creation.go:326-339) is `RangeWithInterval(0, count, d)` with every value mapped to
    -- `item`: judged by the range clause over [0 : count) after putting the index back in place of each delivered `item`
    -- (anything else than `item` becomes a value no range contains)
    let tr : TimedTrace :=
      if c.getD "op" "?" == "RepeatWithInterval" then
        { tr0 with dels := tr0.dels.mapIdx (fun k e => match e.n with
            | .next v => { e with n := .next (if v == intField c "item" then (k : Int) else -1) }
            | _ => e) }
      else tr0
    let cfg : Cfg := { op := op, d := natField c "d", d2 := natField c "d2", n := natField c "n",
                       a := intField c "a", b := intField c "b", step := ((c.get "step").bind String.toNat?).getD 1 }
    let hto := if flags == "T" then " hto=1" else ""
    if accepts cfg tr then s!"res {c.id} accept=1{hto}"
    else s!"res {c.id} accept=0{hto} why={why cfg tr}"
  | none, _ => s!"res {c.id} unsupported"
  | _, none => s!"res {c.id} bad-obs"

end Ro.Driver.Drivers.Timed

/-
  RoModel.Drivers.Multi — `kind=multi`: one multi-source operator of the first half of the C05 family
  over per-probe scripts and an interleaving.

    case 7 kind=multi op=TakeUntil sub=7 srcs=N1@1,N2@2,C@3;N5@1 sync=0,0 order=0,1,0,0 cut=-
    res  7 trace=N1/7.1,C/7.1 drops=N2,C steps=1,1,0,0 subs=1,1 rel=1,1 sctx=7,7

  `srcs` are the probes the harness builds (`;`-separated scripts), `sync` says which of them play
  their script inside Subscribe, `order` names the hot probe that sends its next notification,
  `cut` (optional) is the number of steps after which the final subscription is unsubscribed.
  A probe sends `N v@m` with the context it was subscribed with, tagged `m` (go/harness/core.go
  `emit`), so the absolute contexts depend on the context each probe is subscribed with: `sub` for
  every operator here except the inner probes of MergeMap, which are subscribed with the context
  of the outer value that names them (tagged by the projection). The driver assumes that context
  when it parses the scripts and checks the assumption against what the machine did (`sctx`).
-/
import RoModel.DriverCore
import RoModel.Multi.OpsA
import RoModel.Spec.Multi
import RoModel.Multi.Micro
namespace Ro.Driver.Drivers.Multi
open Ro Ro.Driver Ro.Multi

def renderMDrops (l : List (MDrop Int Int)) : String :=
  if l.isEmpty then "-" else ",".intercalate (l.map (fun d => match d with
    | .up _ n => renderNotifBare n
    | .down n => renderNotifBare n))

/-- the run of `runMulti` / `runMultiCut`, step by step, with per-step emission counts -/
def runSteps {σ : Type} (m : MMachine σ Int Int) (cfg : Sources Int) (sub : Ctx) (order : List Nat) (cut : Option Nat) :
    MSt σ Int Int × List Nat :=
  let stepAll := fun (acc : (MSt σ Int Int × (Nat → Nat)) × List Nat) (ks : List Nat) =>
    ks.foldl (fun (acc : (MSt σ Int Int × (Nat → Nat)) × List Nat) k =>
      match nextEvent cfg acc.1.2 k with
      | none => (acc.1, acc.2 ++ [0])
      | some e =>
        let r' := feed m cfg acc.1.1 e
        ((r', setAt acc.1.2 k (acc.1.2 k + 1)), acc.2 ++ [r'.out.length - acc.1.1.out.length])) acc
  match cut with
  | none => let a := stepAll ((bootSt m cfg sub, fun _ => 0), []) order; (a.1.1, a.2)
  | some c =>
    let a := stepAll ((bootSt m cfg sub, fun _ => 0), []) (order.take c)
    let b := stepAll ((a.1.1.cut m, a.1.2), a.2) (order.drop c)
    (b.1.1, b.2)

def listNats (l : List Nat) : String := if l.isEmpty then "-" else ",".intercalate (l.map toString)

/-- `off` = model index of probe 0 (1 for the Merge family, whose source 0 is `Just(...)`) -/
def report {σ : Type} (id : String) (m : MMachine σ Int Int) (cfg : Sources Int) (sub : Ctx) (order : List Nat)
    (cut : Option Nat) (off nProbes : Nat) (assumed : Nat → Ctx) (wantSpec : Bool) (spec : List (MEvent Int) → List (Notif Int)) : String :=
  let (r, steps) := runSteps m cfg sub (order.map (· + off)) cut
  let ks := (List.range nProbes).map (· + off)
  if r.overflow then s!"res {id} unsupported-depth"
  else if ks.any (fun k => r.subs k > 0 && r.sctx k != assumed k) then s!"res {id} bad-subctx-assumption"
  else
    let sctx := ",".intercalate (ks.map (fun k => if r.subs k = 0 then "x" else renderCtx (r.sctx k)))
    -- the definition's output for this arrival order (all probes hot, no external cut): Spec.* of RoModel/Spec/Multi.lean
    let allHot := ks.all (fun k => !cfg.sync k)
    -- printed only on request (`want=spec`), so that the two result streams of the correspondence are identical
    let specS := if !wantSpec then "" else if allHot && cut.isNone then " spec=" ++ renderTrace (spec (eventsOf cfg (order.map (· + off)))) else " spec=n/a"
    s!"res {id} trace={renderTrace r.out} drops={renderMDrops r.drops} steps={listNats steps} subs={listNats (ks.map r.subs)} rel={listNats (ks.map r.rel)} sctx={sctx}{specS}"

def splitScripts (s : String) : List String := if s == "-" || s == "" then [] else s.splitOn ";"

/-- the projection of the harness's MergeMapIWithContext: value `v` names probe `v`, the context is tagged `40 + i` -/
def mergeMapProj (c : Ctx) (v : Int) (i : Nat) : Ctx × Nat := (c.tag (40 + i), v.toNat)

/-- the context inner probe `k` of MergeMap is subscribed with, read off the outer script:
    the outer value `k` is the `i`-th value; its context is `sub` tagged with its mark, then `40 + i` -/
def mergeMapBase (sub : Ctx) (outer : List (Notif Int)) (k : Nat) : Ctx :=
  let vals := outer.filterMap (fun n => match n with | .next c v => some (c, v) | _ => none)
  match (vals.zipIdx.find? (fun p => p.1.2 == Int.ofNat k)) with
  | some ((c, _), i) => c.tag (40 + i)
  | none => sub

def nodup (l : List Int) : Bool := match l with
  | [] => true
  | x :: xs => !xs.contains x && nodup xs

def run (c : Case) : String :=
  let sub := parseCtx (c.getD "sub" "-")
  let op := c.getD "op" "?"
  let raws := splitScripts (c.getD "srcs" "-")
  let n := raws.length
  let syncs := (parseInts (c.getD "sync" "-")).map (· != 0)
  let order := (parseInts (c.getD "order" "-")).map Int.toNat
  let cut := (c.get "cut").bind String.toNat?
  let ws := c.getD "want" "-" == "spec"
  let plain := raws.mapM (parseScript sub)
  match plain with
  | none => s!"res {c.id} bad-script"
  | some scripts =>
    if op == "Merge" || op == "MergeWith" || op == "MergeWithN" || op == "MergeAll" then
      let cfg := Sources.ofLists (justScript sub n :: scripts) (true :: syncs)
      report c.id mergeM cfg sub order cut 1 n (fun _ => sub) ws
        (fun evs => Spec.merge sub n (Spec.gateEvents (Spec.restrict (fun k => decide (1 ≤ k ∧ k ≤ n)) evs)))
    else if op == "MergeMap" then
      match scripts with
      | [] => s!"res {c.id} unsupported"
      | outer :: _ =>
        let vals := outer.filterMap (fun x => match x with | .next _ v => some v | _ => none)
        if !(nodup vals && vals.all (fun v => 1 ≤ v && v < Int.ofNat n)) then s!"res {c.id} unsupported"
        else
          let base := fun k => if k = 0 then sub else mergeMapBase sub outer k
          match (raws.zipIdx.mapM (fun p => parseScript (base p.2) p.1)) with
          | none => s!"res {c.id} bad-script"
          | some scripts' =>
            report c.id (mergeAllM mergeMapProj) (Sources.ofLists scripts' syncs) sub order cut 0 n base ws
              (fun evs => Spec.mergeAll 1 Ctx.nil (Spec.heard mergeMapProj (fun k => k == 0) (fun _ => false) 0 evs))
    else if op == "Race" || op == "RaceWith" || op == "Amb" then
      if n < 2 then s!"res {c.id} unsupported"
      else report c.id (raceM n) (Sources.ofLists scripts syncs) sub order cut 0 n (fun _ => sub) ws
        (fun evs => Spec.race (Spec.restrict (fun k => decide (k < n)) evs))
    else if n != 2 then s!"res {c.id} unsupported"
    else
      let cfg := Sources.ofLists scripts syncs
      let heard2 := fun (evs : List (MEvent Int)) => Spec.gateEvents (Spec.restrict (fun k => decide (k < 2)) evs)
      if op == "TakeUntil" then report c.id takeUntilM cfg sub order cut 0 n (fun _ => sub) ws (fun evs => Spec.takeUntil true (heard2 evs))
      else if op == "SkipUntil" then report c.id skipUntilM cfg sub order cut 0 n (fun _ => sub) ws (fun evs => Spec.skipUntil true false (heard2 evs))
      else if op == "SampleWhen" then report c.id sampleWhenM cfg sub order cut 0 n (fun _ => sub) ws (fun evs => Spec.sampleWhen none (heard2 evs))
      else if op == "ThrottleWhen" then report c.id throttleWhenM cfg sub order cut 0 n (fun _ => sub) ws (fun evs => Spec.throttleWhen false (heard2 evs))
      else s!"res {c.id} unsupported"

/-- `kind=multipark`: the harness parks the signal of TakeUntil inside its callback while the source goes on and
    reports whether the delivered trace is the trace of some interleaving. The model's answer is a theorem
    (`C05a.takeUntil_concurrent`: every schedule of atomic actions is explained by an arrival order). -/
def runPark (c : Case) : String :=
  if c.getD "op" "?" == "TakeUntil" then s!"res {c.id} park=explained" else s!"res {c.id} unsupported"

/-- `kind=multimicro`: TakeUntil under a schedule of atomic actions (RoModel/Multi/Micro.lean):
    `sched` entry 0 = the source thread handles its next notification, 1 = the signal thread's next micro-step -/
def runMicro (c : Case) : String :=
  let sub := parseCtx (c.getD "sub" "-")
  let sched := (parseInts (c.getD "sched" "-")).map Int.toNat
  match (splitScripts (c.getD "srcs" "-")).mapM (parseScript sub), c.getD "op" "?" with
  | some [source, signal], "TakeUntil" => s!"res {c.id} trace={renderTrace (Micro.takeUntilMicro source signal sched)}"
  | _, _ => s!"res {c.id} unsupported"

end Ro.Driver.Drivers.Multi

/-
  RoModel.Drivers.Race — kind=race (C13). Nothing is modelled case by case: a race scenario is
  a concurrent program run under the Go race detector to validate the regenerated `Locksets`
  table and to search for a failing input. The proof of C13 is the lockset theorem
  (RoProofs.Lockset) over that table; this handler only echoes the case.
-/
import RoModel.DriverCore
namespace Ro.Driver.Drivers.Race
open Ro Ro.Driver

def run (c : Case) : String := s!"res {c.id} ok"

end Ro.Driver.Drivers.Race

/-
  RoModel.Drivers.Rate — `kind=rate` (property C20).
    op=native-log : the logical model `RateLimit.native` on the timeline → `out=`
    op=ulule      : `RateLimit.ulule` over the deterministic store of the harness → `out= ans=`
    op=native-rt  : the proved acceptor `RateLimit.accepts` on the trace the harness observed
                     (`in=`, `obs=`, `term=` written into the case line after the run) → `accept=`
-/
import RoModel.DriverCore
import RoModel.RateLimit
namespace Ro.Driver.Drivers.Rate
open Ro Ro.Driver Ro.RateLimit

def parseEnd (s : String) : End :=
  if s == "C" then .complete
  else match s.toList with
    | 'E' :: 'u' :: r => match (String.ofList r).toNat? with | some n => .error (.user n) | none => .never
    | 'E' :: r => match (String.ofList r).toNat? with | some n => .error (.user n) | none => .never
    | _ => .never

/-- `i0:1`, `0:1@120`, `t0` -/
def parseEv (t : String) : Option (Ev Nat Nat) :=
  match t.toList with
  | 't' :: r => (String.ofList r).toNat?.map Ev.tick
  | cs =>
    let body := String.ofList (match cs with | 'i' :: r => r | _ => cs)
    let kv := (body.splitOn "@").headD ""
    match kv.splitOn ":" with
    | [k, v] => match k.toNat?, v.toNat? with
      | some k, some v => some (.item k v)
      | _, _ => none
    | _ => none

def parseTl (s : String) : Option (List (Ev Nat Nat)) :=
  if s == "-" || s == "" then some [] else (s.splitOn ",").mapM parseEv

def keysOf (tl : List (Ev Nat Nat)) : List Nat := ((items tl).map (·.1)).eraseDups

def renderOut : Out Nat Nat → String
  | .item k v => s!"{k}:{v}"
  | .complete => "C"
  | .error e => "E" ++ renderErr e

def renderOuts (l : List (Out Nat Nat)) : String :=
  if l.isEmpty then "-" else ",".intercalate (l.map renderOut)

def renderAns : Ans → String
  | .ok true => "t"
  | .ok false => "f"
  | .fail e => "E" ++ renderErr e

/-- the harness's `detStore`: epochs of `p` calls; a key is reached once asked more than `m` times
    in the epoch; call number `failAt` fails with user error 9 -/
def detStore (m p : Nat) (failAt : Option Nat) : Store Nat := fun h k =>
  let c := h.length
  let seg := h.drop ((c / p) * p)
  let cnt := (seg.filter (· == k)).length + 1
  if failAt == some c then .fail (.user 9) else .ok (decide (cnt > m))

def parseIn (s : String) : Option (List (InItem Nat Nat)) :=
  if s == "-" || s == "" then some [] else
  (s.splitOn ",").mapM (fun t => match (t.splitOn ":").map String.toNat? with
    | [some k, some v, some t0, some t1] => some { key := k, val := v, t0 := t0, t1 := t1 }
    | _ => none)

def parseObs (s : String) : Option (List (ObsItem Nat Nat)) :=
  if s == "-" || s == "" then some [] else
  (s.splitOn ",").mapM (fun t => match t.splitOn "@" with
    | [kv, ts] => match (kv.splitOn ":").map String.toNat?, ts.toNat? with
      | [some k, some v], some ts => some { key := k, val := v, ts := ts }
      | _, _ => none
    | _ => none)

/-- which clause rejects (diagnostic only; the verdict is `accepts`) -/
def why (c : Cfg) (inp : List (InItem Nat Nat)) (e : End) (obs : List (ObsItem Nat Nat)) (term : End) : String :=
  match obs.find? (fun o => !(obsKey o.key obs).isSublist (inKey o.key inp)) with
  | some o => s!"order(key{o.key})"
  | none =>
  match obs.find? (fun o => !quotaOk c (obsTimes o.key obs)) with
  | some o => s!"quota(key{o.key})"
  | none =>
  if !freshOk c inp obs then "fresh"
  else if term != e then "terminal"
  else "-"

def run (c : Case) : String :=
  match c.getD "op" "?" with
  | "native-log" =>
    match parseTl (c.getD "tl" "-") with
    | some tl =>
      let n := (c.getD "n" "1").toNat?.getD 1
      -- latetick=all: the harness can deliver the late tick of a group whose current window still
      -- has quota left at the end (its Take is still listening: see go/harness/rate.go); those
      -- are the late keys of the schedule
      let late := if c.getD "latetick" "-" == "all" then
          (keysOf tl).filter (fun k => decide (((windows (group k tl)).getLast?.getD []).length < n))
        else []
      s!"res {c.id} out={renderOuts (nativeSched n tl (parseEnd (c.getD "end" "-")) late)}"
    | none => s!"res {c.id} bad-script"
  | "ulule" =>
    match parseTl (c.getD "tl" "-"), (c.getD "store" "1/3/-1").splitOn "/" with
    | some tl, [m, p, f] =>
      let store := detStore (m.toNat?.getD 0) (p.toNat?.getD 1) f.toNat?
      let inp := items tl
      let e := parseEnd (c.getD "end" "-")
      let sync := c.getD "mode" "sync" == "sync"
      let as := answers store sync inp
      let ans := if as.isEmpty then "-" else ",".intercalate (as.map renderAns)
      s!"res {c.id} out={renderOuts (ulule store inp e)} ans={ans}"
    | _, _ => s!"res {c.id} bad-script"
  | "native-twin" =>
    -- the same limiter VALUE applied to two sources, both subscriptions alive, the first one then cancelled / unsubscribed: a
    -- pipeline is a function of its own source (C12 reapply; the limiter keeps nothing outside its subscribe functions: the
    -- regenerated BuildTime table), so the second stream goes on: one item per window, spaced more than a window apart, all delivered
    s!"res {c.id} items={c.getD "k" "5"} term=C"
  | "native-rt" =>
    match c.get "in", c.get "obs" with
    | some i, some o =>
      match parseIn i, parseObs o with
      | some inp, some obs =>
        let cfg : Cfg := { n := (c.getD "n" "1").toNat?.getD 1, w := (c.getD "w" "1").toNat?.getD 1, slack := (c.getD "slack" "0").toNat?.getD 0 }
        let e := parseEnd (c.getD "end" "-")
        let term := parseEnd (c.getD "term" "-")
        if c.getD "after" "0" != "0" then s!"res {c.id} accept=f why=after-terminal" else
        if accepts cfg inp e obs term then s!"res {c.id} accept=t why=-"
        else
          -- second verdict with the slack the harness measured on its own ticker (2·jit): reported
          -- separately, the Go side always answers `accept=t why=-`
          let jit := (c.getD "jit" "0").toNat?.getD 0
          let cfg' : Cfg := { cfg with slack := cfg.slack + 2 * jit }
          let w2 := if accepts cfg' inp e obs term then "t" else "f"
          s!"res {c.id} accept=f why={why cfg inp e obs term} withslack={w2}"
      | _, _ => s!"res {c.id} accept=f why=unparsable-observation"
    | _, _ => s!"res {c.id} accept=f why=no-observation"
  | _ => s!"res {c.id} unsupported"

end Ro.Driver.Drivers.Rate

/-
  RoModel.Drivers.NilObs — `kind=nilobs` (C07 / C01; go/harness/nilobs.go): an observer with nil callbacks under a
  panicking Next callback; the model is RoModel/ObsNil.lean.
    case 5 kind=nilobs cbs=n-c src=N1@1,N2@2,C@3 faults=1:pe5 sub=7
-/
import RoModel.DriverCore
import RoModel.ObsNil
namespace Ro.Driver.Drivers.NilObs
open Ro Ro.Driver

def parseWhat (s : String) : Option Err :=
  match s.toList with
  | 'p' :: 'e' :: r => (String.ofList r).toNat?.map Err.user
  | 'p' :: 'v' :: r => (String.ofList r).toNat?.map Err.panicVal
  | 'p' :: 'w' :: r => (String.ofList r).toNat?.map (fun n => Err.observable (.observer (.user n)))
  | _ => none

def parsePlan (s : String) : Option (List (Nat × Err)) :=
  if s == "-" || s == "" then some [] else
  (s.splitOn ",").mapM fun t =>
    match t.splitOn ":" with
    | [k, w] => match k.toNat?, parseWhat w with
      | some i, some e => some (i, e)
      | _, _ => none
    | _ => none

def run (c : Case) : String :=
  let sub := parseCtx (c.getD "sub" "-")
  match parseScript sub (c.getD "src" "-"), parsePlan (c.getD "faults" "-") with
  | some script, some plan =>
    let cbs := c.getD "cbs" "nec"
    let cfg : ObsNil.Cfg := ⟨cbs.contains 'n', cbs.contains 'e', cbs.contains 'c'⟩
    let fault : Nat → Option Err := fun k => (plan.find? (·.1 == k)).map (·.2)
    let r := ObsNil.run cfg fault script
    let errs := if r.unhandled.isEmpty then "-" else ",".intercalate (r.unhandled.map renderErr)
    let drops := if r.dropped.isEmpty then "-" else ",".intercalate (r.dropped.map renderNotifBare)
    s!"res {c.id} trace={renderTrace r.trace} drops={drops} unh={errs} esc=-"
  | _, _ => s!"res {c.id} bad-case"

end Ro.Driver.Drivers.NilObs

/-
  RoModel.Drivers.NilObs — `kind=nilobs` (C07 / C01; go/harness/nilobs.go): an observer with nil callbacks under a
  panicking Next callback; the model is RoModel/ObsNil.lean.
    case 5 kind=nilobs cbs=n-c src=N1@1,N2@2,C@3 faults=1:pe5 sub=7
-/
import RoModel.DriverCore
import RoModel.ObsNil
import RoModel.ObsPartial
namespace Ro.Driver.Drivers.NilObs
open Ro Ro.Driver

def parseWhat (s : String) : Option Err :=
  match s.toList with
  | 'p' :: 'e' :: r => (String.ofList r).toNat?.map Err.user
  | 'p' :: 'v' :: r => (String.ofList r).toNat?.map Err.panicVal
  | 'p' :: 'w' :: r => (String.ofList r).toNat?.map (fun n => Err.observable (.observer (.user n)))
  | _ => none

def parsePlan (s : String) : Option (List (Nat × Err)) :=
  if s == "-" || s == "" then some [] else
  (s.splitOn ",").mapM fun t =>
    match t.splitOn ":" with
    | [k, w] => match k.toNat?, parseWhat w with
      | some i, some e => some (i, e)
      | _, _ => none
    | _ => none

/-- `ctor=`: the partial observers and NewObserver (observer.go:67-82, 204-263); the second component: the user's callback
    receives the context -/
def parseCtor : String → Option (ObsPartial.Ctor × Bool)
  | "OnNext" => some (.onNext, false)
  | "OnNextWithContext" => some (.onNext, true)
  | "OnError" => some (.onError, false)
  | "OnErrorWithContext" => some (.onError, true)
  | "OnComplete" => some (.onComplete, false)
  | "OnCompleteWithContext" => some (.onComplete, true)
  | "Noop" => some (.noop, true)
  | "NewObserver" => some (.full, false)
  | _ => none

def renderSeen (withCtx : Bool) (l : List (Notif Int)) : String :=
  if withCtx then renderTrace l else if l.isEmpty then "-" else ",".intercalate (l.map renderNotifBare)

def runPartial (c : Case) (k : ObsPartial.Ctor) (withCtx : Bool) : String :=
  let sub := parseCtx (c.getD "sub" "-")
  match parseScript sub (c.getD "src" "-"), parsePlan (c.getD "faults" "-") with
  | some script, some plan =>
    let fault : Nat → Option Err := fun k => (plan.find? (·.1 == k)).map (·.2)
    let r := ObsPartial.run k fault script
    let errs := if r.unhandled.isEmpty then "-" else ",".intercalate (r.unhandled.map renderErr)
    let drops := if r.dropped.isEmpty then "-" else ",".intercalate (r.dropped.map renderNotifBare)
    s!"res {c.id} trace={renderSeen withCtx r.seen} drops={drops} unh={errs} esc=-"
  | _, _ => s!"res {c.id} bad-case"

def run (c : Case) : String :=
  match c.get "ctor" with
  | some name =>
    match parseCtor name with
    | some (k, w) => runPartial c k w
    | none => s!"res {c.id} unsupported"
  | none =>
  let sub := parseCtx (c.getD "sub" "-")
  match parseScript sub (c.getD "src" "-"), parsePlan (c.getD "faults" "-") with
  | some script, some plan =>
    let cbs := c.getD "cbs" "nec"
    let cfg : ObsNil.Cfg := ⟨cbs.contains 'n', cbs.contains 'e', cbs.contains 'c'⟩
    let fault : Nat → Option Err := fun k => (plan.find? (·.1 == k)).map (·.2)
    let r := ObsNil.run cfg fault script
    let errs := if r.unhandled.isEmpty then "-" else ",".intercalate (r.unhandled.map renderErr)
    let drops := if r.dropped.isEmpty then "-" else ",".intercalate (r.dropped.map renderNotifBare)
    s!"res {c.id} trace={renderTrace r.trace} drops={drops} unh={errs} esc=-"
  | _, _ => s!"res {c.id} bad-case"

end Ro.Driver.Drivers.NilObs

/-
  RoModel.Drivers.Cut — `kind=cutin` (C06: Unsubscribe from inside the observer's callback, or
  from another goroutine while a callback is in progress), `kind=collect` (C06: Collect) and
  `kind=teardown` (C03: panicking teardowns below operators), computed by the executable
  definitions of RoModel/CutIn.lean.
-/
import RoModel.DriverCore
import RoModel.Drivers.Chain
import RoModel.CutIn
namespace Ro.Driver.Drivers.Cut
open Ro Ro.Driver

/-- a machine over Int inputs with its state and output types hidden -/
structure AnyR where
  σ : Type
  β : Type
  inst : Render β
  m : Machine σ Int β

def anyR {σ β : Type} [r : Render β] (m : Machine σ Int β) : AnyR := ⟨σ, β, r, m⟩

/-- every catalogue operator as a machine: the chainable ones through `Chain.lookupII`, the
    others (outputs that are not Int, `Empty()` cases, the composite `Flatten` set-up) as in
    `DriverCore.lookup` -/
def lookupAny (op : String) (p : List Int) (var : String) (cbs : List Cb) : Option AnyR :=
  match Chain.lookupII op p var cbs with
  | some a => some (anyR a.m)
  | none =>
    match op, p, cbs with
    | "Take", [_], [] => some (anyR (emptyM (α := Int) (β := Int)))
    | "TakeLast", [_], [] => some (anyR (emptyM (α := Int) (β := Int)))
    | "Flatten", [k], [] =>
        some (anyR ((mapM (fun c (v : Int) _ => (c, (List.range (natOf k)).map (fun (j : Nat) => v + Int.ofNat j)))).seq flattenM))
    | "BufferWithCount", [n], [] => some (anyR (bufferCountM (α := Int) (natOf n)))
    | "Pairwise", [], [] => some (anyR (pairwiseM (α := Int)))
    | "Materialize", [], [] => some (anyR (materializeM (α := Int)))
    | "ToSlice", [], [] => some (anyR (toSliceM (α := Int)))
    | "ToMap", [], [cb] =>
        (unary cb.name).map (fun f => anyR ((toMapM (fun _ (v : Int) _ => (f v, v))).mapOut (fun m => MapVal.mk m)))
    | "All", [], [cb] => (mkBoolPred var cb).map (fun f => anyR (allM f))
    | "Contains", [], [cb] => (mkBoolPred var cb).map (fun f => anyR (containsM f))
    | "Count", [], [] => some (anyR (countM (α := Int)))
    | _, _, _ => none

def parseCbs (c : Case) : List Cb :=
  match c.get "cb" with
  | some s => if s == "-" then [] else (s.splitOn ",").map parseCb
  | none => []

/-- the machine of a case: `op=` (single operator) or `ops=` (chain) -/
def machineOf (c : Case) : Option AnyR :=
  match c.get "ops" with
  | some s =>
    match (s.splitOn "|").mapM Chain.parseStage with
    | some stages => (Chain.buildChainL stages).map (fun a => anyR a.m)
    | none => none
  | none => lookupAny (c.getD "op" "?") (parseInts (c.getD "p" "-")) (c.getD "var" "plain") (parseCbs c)

/-! ### kind=cutin -/

def runCutIn (c : Case) : String :=
  let sub := parseCtx (c.getD "sub" "-")
  let k := ((c.get "k").bind String.toNat?).getD 0
  let ret := c.getD "handle" "ready" == "ret"
  let isChain := (c.get "ops").isSome
  match parseScript sub (c.getD "src" "-"), machineOf c with
  | some raw, some a =>
    let _ : Render a.β := a.inst
    -- `who=self` and `who=other` are the same state change (see RoModel/CutIn.lean §1)
    let r := if ret then runOpCutInRet a.m sub raw k else runOpCutIn a.m sub raw k
    let rel := if a.m.subscribes && (!r.upOpen || !r.downOpen) then 1 else 0
    let closed := if r.downOpen then 0 else 1
    let drops := if isChain then "~" else renderDrops r.drops
    s!"res {c.id} trace={renderTrace r.out} drops={drops} rel={rel} closed={closed}"
  | none, _ => s!"res {c.id} bad-script"
  | _, none => s!"res {c.id} unsupported"

/-! ### kind=collect -/

def renderOptErr : Option Err → String
  | none => "nil"
  | some (.sentinel 0) => "nil"   -- Error(nil) (script token E0): the error Collect returns IS nil
  | some e => renderErr e

def runCollect (c : Case) : String :=
  let sub := parseCtx (c.getD "sub" "-")
  let mode := if c.getD "mode" "sync" == "sync" then SrcMode.sync else SrcMode.hot
  -- `mode=wait`: Subscription.Wait asked directly (same gathering observer, slow terminal callback):
  -- it returns exactly when Collect would, and never while the terminal callback is in progress
  let early := if c.getD "mode" "sync" == "wait" then " early=0" else ""
  match parseScript sub (c.getD "src" "-"), machineOf c with
  | some raw, some a =>
    let _ : Render a.β := a.inst
    match collect (runOp a.m mode sub raw) with
    | none => s!"res {c.id} ret=0 vals=- err=- lctx=-{early}"
    | some r =>
      let lctx := match r.lastCtx with | some x => renderCtx x | none => "nil"
      s!"res {c.id} ret=1 vals={render r.values} err={renderOptErr r.err} lctx={lctx}{early}"
  | none, _ => s!"res {c.id} bad-script"
  | _, none => s!"res {c.id} unsupported"

/-! ### kind=teardown

  The subscription trees of the set-ups, read from the code (ids: 1 = teardown of the first probe,
  2 = `TapOnFinalize`'s callback or the second probe's teardown, 3 = third probe):
   * `plain`  probe |> op: the downstream subscriber holds the operator's teardown, which is the
     `Unsubscribe` of the subscriber the probe was given (operator template,
     operator_transformations.go:54-76); pass-through operators hand the downstream subscriber
     itself to the probe (operator_combining.go:932-944) — a flatter tree with the same leaves;
   * `tapAbove`  probe |> op |> TapOnFinalize(cb): operator_utility.go:202-214 — the callback runs
     in the same finalizer, after `sub.Unsubscribe()` (which is the downstream subscriber itself);
   * `tapBelow`  probe |> TapOnFinalize(cb) |> op;
   * `merge` Merge(p1, p2[, p3]) (operator_combining.go:114-168), `takeUntil` p1 |> TakeUntil(p2)
     (operator_filter.go:510-548), `combineLatest` CombineLatest2(p1, p2)
     (operator_combining.go:244-318): one composite subscription holding the sources in
     subscription order; `race` / `race3` / `raceWith`: Race over 2 / 3 probes torn down before any source has
     notified (the teardown's throw-away composite subscription holds every stored source).
   * `leak` probe |> op for the operators that own a goroutine or a timer (go/harness/leak.go):
     `ObserveOn` (detachOn, operator_utility.go:647-653: `defer stop(); subscriptions.Unsubscribe()`),
     `ThrowOnContextCancel` (operator_context.go:295-301: `defer close(done); sub.Unsubscribe()`) and
     `ToChannel` (operator_sink.go: `defer closeChan(); subscriptions.Unsubscribe()`) release their
     goroutine / channel (id 90) in a DEFERRED action of the teardown closure since fix 694a874: it
     runs even when a teardown upstream panics (before the fix it followed the upstream
     `Unsubscribe` unisolated and was skipped: `Fin.closure`, RoProofs/CutIn `closure_skips_witness`).
  When the stream ends by the source's own terminal (`end=complete|error`) the subscription that is
  unsubscribed is the probe's own subscriber (subscriber.go:218, 240), caller: the emitting source. -/

def setupTree (setup : String) (ending : String) (op : String := "") : Option (List Fin) :=
  let l (i : Nat) : Fin := .leaf i none
  match setup, ending == "unsub" with
  | "leak", true =>
    if op == "ObserveOn" || op == "ToChannel" then some [.deferred (.sub [.sub [l 1]]) [90]]
    else if op == "ThrowOnContextCancel" then some [.deferred (.sub [l 1]) [90]]
    else some [.sub [l 1], l 90]
  | "plain", true => some [.sub [l 1]]
  | "plain", false => some [l 1]
  | "tapAbove", true => some [.sub [l 1], l 2]
  | "tapBelow", true => some [.sub [l 1, l 2]]
  | "tapBelow", false => some [l 1, l 2]
  | "merge", true => some [.sub [.sub [l 1], .sub [l 2], .sub []]]
  | "merge3", true => some [.sub [.sub [l 1], .sub [l 2], .sub [l 3], .sub []]]
  | "takeUntil", true => some [.sub [.sub [l 1], .sub [l 2]]]
  | "combineLatest", true => some [.sub [.sub [.sub [l 1], .sub [l 2]]]]
  -- RaceWith (operator_combining.go:1031-1044, :1094-1096): the teardown collects the stored subscriptions in a
  -- fresh composite subscription and unsubscribes that; nobody has won yet, so every source is still stored
  | "race", true => some [.sub [.sub [l 1], .sub [l 2]]]
  | "race3", true => some [.sub [.sub [l 1], .sub [l 2], .sub [l 3]]]
  | "raceWith", true => some [.sub [.sub [l 1], .sub [l 2], .sub [l 3]]]
  | _, _ => none

def parseErrTok (s : String) : Option Err :=
  match s.toList with
  | 'u' :: r => (String.ofList r).toNat?.map Err.user
  | 'p' :: r => (String.ofList r).toNat?.map Err.panicVal
  | _ => none

/-- `pan=1:u5,2:p6` -/
def parsePan (s : String) : Nat → Option Err :=
  let entries : List (Nat × Err) :=
    if s == "-" || s == "" then [] else
      (s.splitOn ",").filterMap (fun t => match t.splitOn ":" with
        | [i, e] => match i.toNat?, parseErrTok e with
          | some i, some e => some (i, e)
          | _, _ => none
        | _ => none)
  fun id => (entries.find? (·.1 == id)).map (·.2)

def runTeardown (c : Case) : String :=
  let setup := c.getD "setup" "plain"
  match setupTree setup (c.getD "end" "unsub") (c.getD "op" "") with
  | none => s!"res {c.id} unsupported"
  | some tree =>
    -- an operator that never subscribes to its source (`Take(0)`) opens no subscription at all
    let subscribes := if setup == "leak" then true else match c.get "op" with
      | some op => match lookupAny op (parseInts (c.getD "p" "-")) (c.getD "var" "plain") (parseCbs c) with
        | some a => a.m.subscribes
        | none => true
      | none => true
    let tree := if subscribes then tree else []
    let r := unsubscribe (Fin.assignL (parsePan (c.getD "pan" "-")) tree)
    -- ids from 90 on are releases inside the library (stop a goroutine): visible as a leak only
    let user := r.1.filter (· < 90)
    let ran := renderNats user
    let leak := if setup == "leak" then s!" leaked={if r.1.contains 90 then 0 else 1}" else ""
    match r.2 with
    | none => s!"res {c.id} ran={ran} raised=- at=- again=0 closed=1{leak}"
    | some e =>
      let raised := if e.isJoinOfUn then "un(" ++ "+".intercalate (e.leaves.map renderErr) ++ ")" else "bad"
      s!"res {c.id} ran={ran} raised={raised} at={user.length} again=0 closed=1{leak}"

end Ro.Driver.Drivers.Cut

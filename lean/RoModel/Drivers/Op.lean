/-
  RoModel.Drivers.Op — `kind=op`: one single-source operator over one raw script.
-/
import RoModel.DriverCore
namespace Ro.Driver.Drivers.Op
open Ro Ro.Driver

def run (c : Case) : String :=
  let sub := parseCtx (c.getD "sub" "-")
  let mode := if c.getD "mode" "sync" == "hot" then SrcMode.hot else SrcMode.sync
  let cut := (c.get "cut").bind String.toNat?
  let cbs := match c.get "cb" with
    | some s => if s == "-" then [] else (s.splitOn ",").map parseCb
    | none => []
  match parseScript sub (c.getD "src" "-"), lookup (c.getD "op" "?") (parseInts (c.getD "p" "-")) (c.getD "var" "plain") cbs with
  | some raw, some run => s!"res {c.id} {run mode sub raw cut}"
  | none, _ => s!"res {c.id} bad-script"
  | _, none => s!"res {c.id} unsupported"

end Ro.Driver.Drivers.Op

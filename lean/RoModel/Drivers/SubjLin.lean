/-
  RoModel.Drivers.SubjLin — `kind=subjlin`: is a recorded concurrent history of a real subject
  linearizable with respect to the executable model?   (C10; SEARCH / VALIDATION — the theorem is
  `C10.subjects_linearizable`.)

    case <id> kind=subjlin op=<kind> p=<p> hist=<tok>:<opid>:<call>:<ret>,… r0=<trace> r1=<trace> r2=<trace>
    res <id> lin=ok | lin=uu | lin=micro | lin=none

  * `ok`: a brute-force search found an order of the operations, compatible with real time (an
    operation that returned before another was called comes first), whose sequential run in the
    model gives every subscriber exactly the recorded trace; the order is then validated with the
    very predicate of the meta-theorem, `Lin.isLinearization (subjectObj k)`.
  * `uu`: multicast kinds; not `ok`, but explained by the micro-step reading `Kind.micro` in which an
    `Unsubscribe` of another goroutine (it takes no subject lock) runs between two iterations of
    the broadcast loop(s) of the operation in progress — the known class "Unsubscribe is not
    atomic with a broadcast in progress" (`C10.unsubscribe_not_atomic_witness`, `C10.micro_agrees`).
  * `micro`: unicast only; not `ok`, but explained by the two-step reading of Next/Error/Complete
    (`unicastLocked` under the mutex, `unicastDeliver` later, both inside the call's interval) —
    the known class "unicast delivers outside the lock" (`C10.unicast_lost_value_witness`).
  * `none`: no explanation found.
-/
import RoModel.DriverCore
import RoModel.Drivers.Subject
namespace Ro.Driver.Drivers.SubjLin
open Ro Ro.Driver Ro.Subj

structure H where
  idx : Nat          -- position in the history
  op : Op Int
  call : Nat
  ret : Nat
  isUnsub : Bool

def parseH (idx : Nat) (t : String) : Option H :=
  match t.splitOn ":" with
  | [tok, id, c, r] =>
    match id.toNat?, c.toNat?, r.toNat? with
    | some id, some c, some r =>
      (Subject.parseOp id tok).map (fun o => { idx := idx, op := o, call := c, ret := r,
                                                isUnsub := match o with | .unsubscribe _ => true | _ => false })
    | _, _, _ => none
  | _ => none

def parseHist (s : String) : Option (List H) :=
  if s == "-" || s == "" then some [] else ((s.splitOn ",").zipIdx).mapM (fun p => parseH p.2 p.1)

def strs (l : List (Notif Int)) : List String := l.map renderNotif

def obsOf (s : String) : List String := if s == "-" || s == "" then [] else s.splitOn ","

def prefixOk (s : State Int) (obs : List (List String)) : Bool :=
  (obs.zipIdx).all (fun p => (strs (s.sub p.2).got).isPrefixOf p.1)

def finalOk (s : State Int) (obs : List (List String)) : Bool :=
  (obs.zipIdx).all (fun p => strs (s.sub p.2).got == p.1)

/-- `a` may come next: nothing still to be placed had returned before `a` was called -/
def minimal (a : H) (rest : List H) : Bool :=
  rest.all (fun b => b.idx == a.idx || !(b.ret < a.call))

/-- depth-first search for an order; returns the positions in that order -/
def search (k : Kind Int) (obs : List (List String)) : Nat → State Int → List H → Option (List Nat)
  | 0, s, rest => if rest.isEmpty && finalOk s obs then some [] else none
  | fuel + 1, s, rest =>
    if rest.isEmpty then (if finalOk s obs then some [] else none)
    else rest.firstM (fun a =>
      if minimal a rest then
        let s' := k.step s a.op
        if prefixOk s' obs then
          (search k obs fuel s' (rest.filter (fun b => b.idx != a.idx))).map (a.idx :: ·)
        else none
      else none)

/-- the operation in progress of the multicast micro-step search -/
structure Cur where
  a : H
  visits : List (State Int → State Int)
  post : State Int → State Int

/-- multicast, micro-steps: operations under `s.mu` run one at a time, each as `Kind.micro` says;
    an `Unsubscribe` (no subject lock) may run between two visits of the operation in progress,
    provided real time allows it (it was not called after that operation had returned) -/
def searchMM (k : Kind Int) (obs : List (List String)) : Nat → State Int → List H → Option Cur → Bool
  | 0, s, rest, cur => rest.isEmpty && cur.isNone && finalOk s obs
  | fuel + 1, s, rest, none =>
    if rest.isEmpty then finalOk s obs
    else rest.any (fun a =>
      minimal a rest &&
        (match k.micro s a.op with
         | some m => prefixOk m.pre obs &&
             searchMM k obs fuel m.pre (rest.filter (fun b => b.idx != a.idx)) (some ⟨a, m.visits, m.post⟩)
         | none => prefixOk (k.step s a.op) obs &&
             searchMM k obs fuel (k.step s a.op) (rest.filter (fun b => b.idx != a.idx)) none))
  | fuel + 1, s, rest, some cu =>
    (match cu.visits with
     | [] => prefixOk (cu.post s) obs && searchMM k obs fuel (cu.post s) rest none
     | f :: fs => prefixOk (f s) obs && searchMM k obs fuel (f s) rest (some { cu with visits := fs }))
    || rest.any (fun u =>
      u.isUnsub && minimal u rest && !(cu.a.ret < u.call) && prefixOk (k.step s u.op) obs &&
        searchMM k obs fuel (k.step s u.op) (rest.filter (fun b => b.idx != u.idx)) (some cu))

/-- unicast, micro-steps: an operation is started (its part under the mutex) and, if that left a
    pending delivery, finished later; an operation may start only when every operation that had
    returned before its call is finished -/
def searchMicro (cap : Option Nat) (obs : List (List String)) :
    Nat → State Int → List H → List (H × Pending Int) → Bool
  | 0, s, rest, pend => rest.isEmpty && pend.isEmpty && finalOk s obs
  | fuel + 1, s, rest, pend =>
    if rest.isEmpty && pend.isEmpty then finalOk s obs
    else
      pend.any (fun p =>
        let s' := unicastDeliver s p.2
        prefixOk s' obs && searchMicro cap obs fuel s' rest (pend.filter (fun q => q.1.idx != p.1.idx)))
      || rest.any (fun a =>
        minimal a rest && pend.all (fun q => !(q.1.ret < a.call)) &&
          (let r := unicastLocked cap s a.op
           prefixOk r.1 obs &&
             searchMicro cap obs fuel r.1 (rest.filter (fun b => b.idx != a.idx))
               (match r.2 with | some p => (a, p) :: pend | none => pend)))

def toHOps (h : List H) : List (Lin.HOp (Op Int) Unit) :=
  h.map (fun a => { op := a.op, call := a.call, ret := some (a.ret, ()) })

def verdict (k : Kind Int) (h : List H) (obs : List (List String)) : String :=
  match search k obs h.length k.init h with
  | some lin =>
    -- validation of the witness with the definition used by the meta-theorem
    if Lin.isLinearization (subjectObj k) (toHOps h) lin && finalOk (Lin.finalState (subjectObj k) (toHOps h) lin) obs
    then "ok" else "bad-witness"
  | none =>
    match k with
    | .unicast cap => if searchMicro cap obs (2 * h.length) k.init h [] then "micro" else "none"
    | _ => if searchMM k obs (16 * h.length + 16) k.init h none then "uu" else "none"

def run (c : Case) : String :=
  match Subject.parseKind (c.getD "op" "?") (parseInts (c.getD "p" "-")), parseHist (c.getD "hist" "-") with
  | some k, some h =>
    let obs := [obsOf (c.getD "r0" "-"), obsOf (c.getD "r1" "-"), obsOf (c.getD "r2" "-")]
    s!"res {c.id} lin={verdict k h obs}"
  | none, _ => s!"res {c.id} unsupported"
  | _, none => s!"res {c.id} bad-script"

end Ro.Driver.Drivers.SubjLin

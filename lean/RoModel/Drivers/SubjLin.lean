/-
  RoModel.Drivers.SubjLin — `kind=subjlin`: is a recorded concurrent history of a real subject
  linearizable with respect to the executable model?   (C10; SEARCH / VALIDATION — the theorem is
  `C10.subjects_linearizable`.)

    case <id> kind=subjlin op=<kind> p=<p> hist=<tok>:<opid>:<call>:<ret>,… r0=<trace> r1=<trace> r2=<trace>
    res <id> lin=ok | lin=uu | lin=micro | lin=none

  * `ok`: a brute-force search found an order of the operations, compatible with real time (an
    operation that returned before another was called comes first), whose sequential run in the
    model gives every subscriber exactly the recorded trace; the order is then validated with the
    very predicate of the meta-theorem, `Lin.isLinearization (subjectObj k)`.
  * `uu`: not `ok`, but explained when the real-time order between two `Unsubscribe` calls is
    ignored — the known class "Unsubscribe does not take s.mu" (`C10.unsubscribe_not_atomic_witness`).
  * `micro`: unicast only; not `ok`, but explained by the two-step reading of Next/Error/Complete
    (`unicastLocked` under the mutex, `unicastDeliver` later, both inside the call's interval) —
    the known class "unicast delivers outside the lock" (`C10.unicast_lost_value_witness`).
  * `none`: no explanation found.
-/
import RoModel.DriverCore
import RoModel.Drivers.Subject
namespace Ro.Driver.Drivers.SubjLin
open Ro Ro.Driver Ro.Subj

structure H where
  idx : Nat          -- position in the history
  op : Op Int
  call : Nat
  ret : Nat
  isUnsub : Bool

def parseH (idx : Nat) (t : String) : Option H :=
  match t.splitOn ":" with
  | [tok, id, c, r] =>
    match id.toNat?, c.toNat?, r.toNat? with
    | some id, some c, some r =>
      (Subject.parseOp id tok).map (fun o => { idx := idx, op := o, call := c, ret := r,
                                                isUnsub := match o with | .unsubscribe _ => true | _ => false })
    | _, _, _ => none
  | _ => none

def parseHist (s : String) : Option (List H) :=
  if s == "-" || s == "" then some [] else ((s.splitOn ",").zipIdx).mapM (fun p => parseH p.2 p.1)

def strs (l : List (Notif Int)) : List String := l.map renderNotif

def obsOf (s : String) : List String := if s == "-" || s == "" then [] else s.splitOn ","

def prefixOk (s : State Int) (obs : List (List String)) : Bool :=
  (obs.zipIdx).all (fun p => (strs (s.sub p.2).got).isPrefixOf p.1)

def finalOk (s : State Int) (obs : List (List String)) : Bool :=
  (obs.zipIdx).all (fun p => strs (s.sub p.2).got == p.1)

/-- `a` may come next: nothing still to be placed had returned before `a` was called -/
def minimal (relaxUU : Bool) (a : H) (rest : List H) : Bool :=
  rest.all (fun b => b.idx == a.idx || !(b.ret < a.call) || (relaxUU && a.isUnsub && b.isUnsub))

/-- depth-first search for an order; returns the positions in that order -/
def search (k : Kind Int) (relaxUU : Bool) (obs : List (List String)) : Nat → State Int → List H → Option (List Nat)
  | 0, s, rest => if rest.isEmpty && finalOk s obs then some [] else none
  | fuel + 1, s, rest =>
    if rest.isEmpty then (if finalOk s obs then some [] else none)
    else rest.firstM (fun a =>
      if minimal relaxUU a rest then
        let s' := k.step s a.op
        if prefixOk s' obs then
          (search k relaxUU obs fuel s' (rest.filter (fun b => b.idx != a.idx))).map (a.idx :: ·)
        else none
      else none)

/-- unicast, micro-steps: an operation is started (its part under the mutex) and, if that left a
    pending delivery, finished later; an operation may start only when every operation that had
    returned before its call is finished -/
def searchMicro (cap : Option Nat) (obs : List (List String)) :
    Nat → State Int → List H → List (H × Pending Int) → Bool
  | 0, s, rest, pend => rest.isEmpty && pend.isEmpty && finalOk s obs
  | fuel + 1, s, rest, pend =>
    if rest.isEmpty && pend.isEmpty then finalOk s obs
    else
      pend.any (fun p =>
        let s' := unicastDeliver s p.2
        prefixOk s' obs && searchMicro cap obs fuel s' rest (pend.filter (fun q => q.1.idx != p.1.idx)))
      || rest.any (fun a =>
        minimal false a rest && pend.all (fun q => !(q.1.ret < a.call)) &&
          (let r := unicastLocked cap s a.op
           prefixOk r.1 obs &&
             searchMicro cap obs fuel r.1 (rest.filter (fun b => b.idx != a.idx))
               (match r.2 with | some p => (a, p) :: pend | none => pend)))

def toHOps (h : List H) : List (Lin.HOp (Op Int) Unit) :=
  h.map (fun a => { op := a.op, call := a.call, ret := some (a.ret, ()) })

def verdict (k : Kind Int) (h : List H) (obs : List (List String)) : String :=
  match search k false obs h.length k.init h with
  | some lin =>
    -- validation of the witness with the definition used by the meta-theorem
    if Lin.isLinearization (subjectObj k) (toHOps h) lin && finalOk (Lin.finalState (subjectObj k) (toHOps h) lin) obs
    then "ok" else "bad-witness"
  | none =>
    match search k true obs h.length k.init h with
    | some _ => "uu"
    | none =>
      match k with
      | .unicast cap => if searchMicro cap obs (2 * h.length) k.init h [] then "micro" else "none"
      | _ => "none"

def run (c : Case) : String :=
  match Subject.parseKind (c.getD "op" "?") (parseInts (c.getD "p" "-")), parseHist (c.getD "hist" "-") with
  | some k, some h =>
    let obs := [obsOf (c.getD "r0" "-"), obsOf (c.getD "r1" "-"), obsOf (c.getD "r2" "-")]
    s!"res {c.id} lin={verdict k h obs}"
  | none, _ => s!"res {c.id} unsupported"
  | _, none => s!"res {c.id} bad-script"

end Ro.Driver.Drivers.SubjLin

/-
  RoModel.Kernel.Expected — the kernel methods of the pinned tree in the statement language,
  written by hand from the Go sources (file:line cited per method). `go/extract/kernel.go`
  regenerates the same table from the working tree (`RoGen.Kernel.table`); the property files
  decide `Stmt.beqTable RoGen.Kernel.table Expected.table = true`.

  Core Lean only (linked into the driver).
-/
import RoModel.Kernel.Conc
namespace Ro.Kernel.Expected
open Ro.Kernel Stmt

/-- subscriber.go:176-197 -/
def subNext : Prog := [
  ifNil .destination [ret] [],
  ifFld .backpressure 1
    [tryLock .mu [] [drop .next, ret]]
    [lock .mu],
  ifLoadEq .status 0 [callDest .next] [drop .next],
  unlock .mu ]

/-- subscriber.go:205-219 — the call of `s.unsubscribe()` is NOT guarded by the CAS result -/
def subError : Prog := [
  lock .mu,
  ifCas .status 0 1 [ifNil .destination [] [callDest .error]] [drop .error],
  unlock .mu,
  callSelf .subUnsubInner ]

/-- subscriber.go:227-241 -/
def subComplete : Prog := [
  lock .mu,
  ifCas .status 0 2 [ifNil .destination [] [callDest .complete]] [drop .complete],
  unlock .mu,
  callSelf .subUnsubInner ]

/-- subscriber.go:259-263 — takes no lock -/
def subUnsubscribe : Prog := [ ifCas .status 0 2 [callSelf .subUnsubInner] [] ]

/-- subscriber.go:265-268 -/
def subUnsubInner : Prog := [ callSelf .snUnsubscribe ]

/-- subscriber.go:244-256 -/
def subIsClosed : Prog := [ retLoad .status .ne 0 ]
def subHasThrown : Prog := [ retLoad .status .eq 1 ]
def subIsCompleted : Prog := [ retLoad .status .eq 2 ]

/-- subscription.go:78-91 — the unlock is deferred; `teardown()` runs under `subMu`, not under recover -/
def snAdd : Prog := [
  ifNil .teardown [ret] [],
  lock .subMu,
  deferUnlock .subMu,
  ifFld .done 1 [runNow] [appendFinalizer] ]

/-- subscription.go:114-150 -/
def snUnsubscribe : Prog := [
  lock .subMu,
  ifFld .done 1 [unlock .subMu, ret] [],
  setDone,
  ifFld .finalizers 0 [unlock .subMu, ret] [],
  swapFinalizers,
  unlock .subMu,
  runTaken,
  raiseJoined ]

/-- subscription.go:156-161 -/
def snIsClosed : Prog := [ lock .subMu, deferUnlock .subMu, retFld .done ]

/-- subscription.go:172-183 — `ch` has capacity 1, so the signalling finalizer never blocks -/
def snWait : Prog := [ callSelf .snAdd, recv ]

/-- observer.go:107-114 — `o.onNext == nil || atomic.LoadInt32(&o.status) != 0` -/
def obNext : Prog := [
  ifNil .onNext [drop .next, ret] [],
  ifLoadEq .obsStatus 0 [] [drop .next, ret],
  userCb .next ]

/-- observer.go:120-127 — `o.onError == nil || !atomic.CompareAndSwapInt32(&o.status, 0, 1)` -/
def obError : Prog := [
  ifNil .onError [drop .error, ret] [],
  ifCas .obsStatus 0 1 [] [drop .error, ret],
  userCb .error ]

/-- observer.go:133-140 -/
def obComplete : Prog := [
  ifNil .onComplete [drop .complete, ret] [],
  ifCas .obsStatus 0 2 [] [drop .complete, ret],
  userCb .complete ]

def table : List (Meth × Prog) := [
  (.subNext, subNext), (.subError, subError), (.subComplete, subComplete),
  (.subUnsubscribe, subUnsubscribe), (.subUnsubInner, subUnsubInner),
  (.subIsClosed, subIsClosed), (.subHasThrown, subHasThrown), (.subIsCompleted, subIsCompleted),
  (.snAdd, snAdd), (.snUnsubscribe, snUnsubscribe), (.snIsClosed, snIsClosed), (.snWait, snWait),
  (.obNext, obNext), (.obError, obError), (.obComplete, obComplete) ]

def progs : Meth → Prog := lookup table

/-- subscriber.go:100-113 `NewSubscriberWithConcurrencyMode`: mode ↦ (mutex constructor, backpressure).
    This is what `Conc.Shared.noLock` (unsafe ⇒ the no-op mutex) and `Shared.fld .backpressure`
    (eventually-safe ⇒ Drop = 1) build in. -/
def modes : List (String × String × Nat) :=
  [("ConcurrencyModeSafe", "NewMutexWithLock", 0), ("ConcurrencyModeUnsafe", "NewMutexWithoutLock", 0),
   ("ConcurrencyModeEventuallySafe", "NewMutexWithLock", 1)]

/-- internal/xsync/mutex.go: `MutexWithLock` delegates to a sync.Mutex (:37-61), `MutexWithoutLock`
    does nothing and its TryLock answers true (:106-124) -/
def mutexes : List (String × String) := [("MutexWithLock", "sync"), ("MutexWithoutLock", "noop")]

/-- observable.go:303-321 `observableImpl.SubscribeWithContext` -/
def subscribeWrapper : List String :=
  ["newSubscriber(s.mode)", "try", "add(subscribe(ctx,sub))", "catch", "error(observable)", "unsubscribe", "return sub"]

/-- observable.go `CollectWithContext`: gather values, store the terminal's error and context, return
    when `Wait` returns — unconditionally (what `CutIn.collect` and `kernel_wait_returns_when_done`
    together describe) -/
def collectWrapper : List String :=
  ["values := empty", "var lastCtx", "var err",
   "sub := subscribe(ctx, observer(append value; store error and ctx; store ctx))", "wait",
   "return values, lastCtx, err"]

/-- subscriber.go:117-139 `newSubscriberImpl`: a destination that already is a Subscriber is returned AS IT IS — so one
    observer wrapped once (by the caller, or by the downstream operator) has one status word however often and to whatever it
    is attached, and the mode that serializes a pipeline stage is the mode of the subscriber that was created first
    (property C02's reuse clause; the gate of `RoModel/ObsShared.lean`); otherwise a fresh subscriber (status 0, the mutex and
    backpressure of the requested mode, its own subscription) is allocated and, when the destination has a subscription of its
    own, linked to it -/
def subscriberCtor : List String :=
  ["reuse a destination that is a Subscriber", "alloc Subscription backpressure destination mode mu status",
   "link the destination's subscription", "return"]

end Ro.Kernel.Expected

/-
  RoModel.Kernel.Conc — the concurrent kernel: one subscriber, its destination, its subscription,
  `n` threads each with a script of API calls, interleaved by an arbitrary schedule (`List Tid`).

  `step` is an interpreter for the statement language of `Kernel.Prog`: a thread's control state is
  its stack of frames (remaining statements + deferred unlocks), one transition per
  synchronisation-relevant action. What the methods *do* is not in this file: it is the program
  table handed to `step` (`Kernel.Expected.table`, proved equal to the table regenerated from the
  Go sources). What is fixed here is the meaning of each statement:

  * `lock`/`unlock`/`tryLock` on `mu` follow `internal/xsync/mutex.go`: a real mutex in safe and
    eventually-safe mode (`MutexWithLock`, :37-61), the no-op one in unsafe mode
    (`MutexWithoutLock`, :106-124: `TryLock` answers true); `subMu` is always a `sync.Mutex`.
  * `ifLoadEq`/`ifCas`/`retLoad` are single atomic actions on the field; `ifFld`/`retFld` plain reads.
  * `callDest k` is two transitions, callback-begin and callback-end; the destination is opaque
    (any `ro.Observer`; assumed not to panic and not to call back into this subscriber).
  * `runTaken` runs one taken finalizer per transition, each under recover (`execFinalizer`,
    subscription.go:186-201), collecting the panicking ones; `raiseJoined` re-panics after the loop
    (:146-149); `runNow` runs the current call's teardown unprotected (:87); a panic unwinds every
    frame of the call, running the deferred unlocks, and the call ends with result `panicked`.
  * `recv` (Wait, :181) is enabled once the call's own signalling finalizer has run.

  Core Lean only (linked into the driver).
-/
import RoModel.Kernel.Prog
namespace Ro.Kernel

abbrev Tid := Nat
abbrev FinId := Nat

inductive Mode | safe | unsafeMode | eventuallySafe
deriving DecidableEq, Repr, Inhabited

/-- one call of the public API of the subscriber (subscriber.go, subscription.go) -/
inductive ApiCall
  | next (v : Nat)
  | error (e : Nat)
  | complete
  | unsubscribe
  | add (f : FinId)        -- Add(teardown f); whether f panics is `Shared.panicky`
  | wait (f : FinId)       -- Wait(); f names its internal signalling finalizer
  | isClosed
deriving DecidableEq, Repr, Inhabited

def ApiCall.entry : ApiCall → Meth
  | .next _ => .subNext
  | .error _ => .subError
  | .complete => .subComplete
  | .unsubscribe => .subUnsubscribe
  | .add _ => .snAdd
  | .wait _ => .snWait
  | .isClosed => .subIsClosed

/-- the value / error code carried by the current call (0 for the others) -/
def ApiCall.payload : ApiCall → Nat
  | .next v => v
  | .error e => e
  | _ => 0

/-- the finalizer the current call hands to `Add` -/
def ApiCall.fin : ApiCall → FinId
  | .add f => f
  | .wait f => f
  | _ => 0

inductive Res | unit | bool (b : Bool) | panicked
deriving DecidableEq, Repr, Inhabited

/-- history variable -/
inductive Ev
  | call (t : Tid) (c : ApiCall)
  | ret (t : Tid) (c : ApiCall) (r : Res)
  | cbBegin (t : Tid) (k : Kind) (x : Nat)
  | cbEnd (t : Tid) (k : Kind) (x : Nat)
  | drop (t : Tid) (k : Kind) (x : Nat)
  | finRun (t : Tid) (f : FinId)
  | appended (t : Tid) (f : FinId)          -- ghost: the finalizer was stored for later
  | raised (t : Tid) (fs : List FinId)      -- panic(Join(errs)) after the loop, with the panicking finalizers
deriving DecidableEq, Repr, Inhabited

structure Frame where
  body : List Stmt
  defers : List Lck := []
deriving Repr, Inhabited

/-- the control part of a thread: finite for a fixed program table -/
structure Ctl where
  stack : List Frame := []
  inside : Bool := false       -- between callback-begin and callback-end of the `callDest` at the head
  panicking : Bool := false    -- unwinding
deriving Repr, Inhabited

structure Thread where
  ctl : Ctl := {}
  cur : Option ApiCall := none
  script : List ApiCall := []
  taken : List FinId := []     -- local `finalizers` of subscriptionImpl.Unsubscribe, not yet run
  panics : List FinId := []    -- local `errs`
  result : Res := .unit
deriving Repr, Inhabited

structure Shared where
  mode : Mode := .safe
  destNil : Bool := false
  panicky : List FinId := []   -- the finalizers that panic
  status : Nat := 0
  mu : Option Tid := none
  subMu : Option Tid := none
  done : Bool := false
  finalizers : List FinId := []
  ran : List FinId := []
  log : List Ev := []
deriving Repr, Inhabited

structure St where
  sh : Shared := {}
  threads : List Thread := []
deriving Repr, Inhabited

/-! ### reading the shared state -/

def Shared.fld (sh : Shared) : Fld → Nat
  | .status => sh.status
  | .done => if sh.done then 1 else 0
  | .finalizers => sh.finalizers.length
  | .backpressure => if sh.mode = .eventuallySafe then 1 else 0
  | _ => 0

def Shared.isNil (sh : Shared) : Fld → Bool
  | .destination => sh.destNil
  | _ => false

def Shared.owner (sh : Shared) : Lck → Option Tid
  | .mu => sh.mu
  | .subMu => sh.subMu

def Shared.setOwner (sh : Shared) : Lck → Option Tid → Shared
  | .mu, o => { sh with mu := o }
  | .subMu, o => { sh with subMu := o }

/-- `mu` of an unsafe subscriber is `MutexWithoutLock` -/
def Shared.noLock (sh : Shared) (l : Lck) : Bool := l = .mu && sh.mode = .unsafeMode

def Shared.emit (sh : Shared) (e : Ev) : Shared := { sh with log := sh.log ++ [e] }

def Cmp.eval : Cmp → Nat → Nat → Bool
  | .eq, a, b => a == b
  | .ne, a, b => a != b

/-! ### control successor (purely syntactic) -/

def Ctl.setBody (c : Ctl) (b : List Stmt) : Ctl :=
  match c.stack with
  | [] => c
  | fr :: rest => { c with stack := { fr with body := b } :: rest }

def Ctl.idle : Ctl := {}

def Ctl.entry (progs : Meth → Prog) (c : ApiCall) : Ctl := { stack := [{ body := progs c.entry }] }

/-- The control state after one transition, given the outcome `b` of the head statement (branch
    taken / lock obtained / a finalizer left to run / a panic raised). -/
def nextCtl (progs : Meth → Prog) (c : Ctl) (b : Bool) : Ctl :=
  match c.stack with
  | [] => c
  | fr :: rest =>
    match fr.body with
    | [] =>
      match fr.defers with
      | _ :: ds => { c with stack := { fr with defers := ds } :: rest }
      | [] =>
        match rest with
        | [] => Ctl.idle
        | g :: gs => { c with stack := (if c.panicking then { g with body := [] } else g) :: gs }
    | s :: k =>
      if c.panicking then c.setBody []
      else match s with
        | .lock _ | .unlock _ | .drop _ | .setDone | .swapFinalizers | .appendFinalizer | .recv => c.setBody k
        | .deferUnlock l => { c with stack := { body := k, defers := l :: fr.defers } :: rest }
        | .tryLock _ t e | .ifLoadEq _ _ t e | .ifFld _ _ t e | .ifCas _ _ _ t e | .ifNil _ t e =>
            c.setBody ((if b then t else e) ++ k)
        | .callDest _ => if c.inside then { c.setBody k with inside := false } else { c with inside := true }
        | .callSelf m => { c with stack := { body := progs m } :: { fr with body := k } :: rest }
        | .runTaken => if b then c else c.setBody k
        | .raiseJoined | .runNow => if b then { c.setBody [] with panicking := true } else c.setBody k
        | .ret | .retLoad _ _ _ | .retFld _ => c.setBody []
        | .userCb _ | .unknown _ => c

/-! ### one transition of one thread against the shared state -/

/-- what the control state asks for next -/
inductive Head
  | idle                 -- no frame: between two API calls
  | finish               -- the last frame is exhausted: the API call returns
  | pop                  -- a frame is exhausted: its caller continues
  | runDefer (l : Lck)   -- body exhausted, a deferred unlock is pending
  | unwind               -- panicking: the rest of the body is skipped
  | stmt (s : Stmt)      -- an ordinary statement
deriving Repr, Inhabited

def Ctl.head (c : Ctl) : Head :=
  match c.stack with
  | [] => .idle
  | fr :: rest =>
    match fr.body with
    | [] =>
      match fr.defers with
      | l :: _ => .runDefer l
      | [] => match rest with
        | [] => .finish
        | _ :: _ => .pop
    | s :: _ => if c.panicking then .unwind else .stmt s

/-- the effect of the head of the stack: `(outcome, shared', thread')` where `thread'` still has the
    old control state (`stepT` installs `nextCtl … outcome`); `none` = not enabled -/
def effect (sh : Shared) (t : Tid) (th : Thread) : Option (Bool × Shared × Thread) :=
  let x := (th.cur.map ApiCall.payload).getD 0
  let f := (th.cur.map ApiCall.fin).getD 0
  match th.ctl.head with
  | .idle => none
  | .finish =>
      match th.cur with
      | none => some (false, sh, th)
      | some c => some (false, sh.emit (.ret t c (if th.ctl.panicking then .panicked else th.result)),
                        { th with cur := none, result := .unit })
  | .pop => some (false, sh, th)
  | .runDefer l => some (false, if sh.noLock l then sh else sh.setOwner l none, th)
  | .unwind => some (false, sh, th)
  | .stmt (.lock l) =>
      if sh.noLock l then some (true, sh, th)
      else if (sh.owner l).isNone then some (true, sh.setOwner l (some t), th) else none
  | .stmt (.unlock l) => some (true, if sh.noLock l then sh else sh.setOwner l none, th)
  | .stmt (.deferUnlock _) => some (true, sh, th)
  | .stmt (.tryLock l _ _) =>
      if sh.noLock l then some (true, sh, th)
      else if (sh.owner l).isNone then some (true, sh.setOwner l (some t), th) else some (false, sh, th)
  | .stmt (.ifLoadEq fl k _ _) => some (sh.fld fl == k, sh, th)
  | .stmt (.ifFld fl k _ _) => some (sh.fld fl == k, sh, th)
  | .stmt (.ifCas fl a b _ _) =>
      match fl with
      | .status => if sh.status = a then some (true, { sh with status := b }, th) else some (false, sh, th)
      | _ => none
  | .stmt (.ifNil fl _ _) => some (sh.isNil fl, sh, th)
  | .stmt (.callDest k) =>
      if th.ctl.inside then some (true, sh.emit (.cbEnd t k x), th)
      else some (true, sh.emit (.cbBegin t k x), th)
  | .stmt (.drop k) => some (true, sh.emit (.drop t k x), th)
  | .stmt (.callSelf _) => some (true, sh, th)
  | .stmt .setDone => some (true, { sh with done := true }, th)
  | .stmt .swapFinalizers => some (true, { sh with finalizers := [] }, { th with taken := sh.finalizers, panics := [] })
  | .stmt .runTaken =>
      match th.taken with
      | [] => some (false, sh, th)
      | g :: gs => some (true, { sh with ran := sh.ran ++ [g] }.emit (.finRun t g),
                         { th with taken := gs, panics := if sh.panicky.contains g then th.panics ++ [g] else th.panics })
  | .stmt .raiseJoined =>
      match th.panics with
      | [] => some (false, sh, th)
      | p :: ps => some (true, sh.emit (.raised t (p :: ps)), { th with panics := [] })
  | .stmt .appendFinalizer => some (true, { sh with finalizers := sh.finalizers ++ [f] }.emit (.appended t f), th)
  | .stmt .runNow => some (sh.panicky.contains f, { sh with ran := sh.ran ++ [f] }.emit (.finRun t f), th)
  | .stmt .recv => if sh.ran.contains f then some (true, sh, th) else none
  | .stmt (.retLoad fl c k) => some (true, sh, { th with result := .bool (c.eval (sh.fld fl) k) })
  | .stmt (.retFld fl) => some (true, sh, { th with result := .bool (sh.fld fl == 1) })
  | .stmt .ret => some (true, sh, th)
  | .stmt (.userCb _) => none
  | .stmt (.unknown _) => none

def stepT (progs : Meth → Prog) (sh : Shared) (t : Tid) (th : Thread) : Option (Shared × Thread) :=
  match th.ctl.stack with
  | [] =>
    match th.script with
    | [] => none
    | c :: cs => some (sh.emit (.call t c), { th with ctl := Ctl.entry progs c, cur := some c, script := cs })
  | _ :: _ =>
    match effect sh t th with
    | none => none
    | some (b, sh', th') => some (sh', { th' with ctl := nextCtl progs th.ctl b })

/-- thread `t` makes one transition; `none` when `t` does not exist, has finished, or is blocked -/
def step (progs : Meth → Prog) (s : St) (t : Tid) : Option St :=
  match s.threads[t]? with
  | none => none
  | some th =>
    match stepT progs s.sh t th with
    | none => none
    | some (sh', th') => some { sh := sh', threads := s.threads.set t th' }

/-- a schedule is any list of thread ids; an entry naming a disabled thread is skipped -/
def run (progs : Meth → Prog) : St → List Tid → St
  | s, [] => s
  | s, t :: ts => run progs ((step progs s t).getD s) ts

def init (mode : Mode) (destNil : Bool) (panicky : List FinId) (scripts : List (List ApiCall)) : St :=
  { sh := { mode := mode, destNil := destNil, panicky := panicky },
    threads := scripts.map fun sc => { script := sc } }

/-- `run` that also counts the transitions actually made -/
def runCount (progs : Meth → Prog) : St → List Tid → St × Nat
  | s, [] => (s, 0)
  | s, t :: ts =>
    match step progs s t with
    | none => runCount progs s ts
    | some s' => let (r, k) := runCount progs s' ts; (r, k + 1)

/-- repeat the schedule `order` until a whole pass makes no transition (for the driver's canonical
    schedules): at most `fuel` passes -/
def runRounds (progs : Meth → Prog) (order : List Tid) : Nat → St → St
  | 0, s => s
  | fuel + 1, s =>
    match runCount progs s order with
    | (_, 0) => s
    | (s', _) => runRounds progs order fuel s'

end Ro.Kernel

/-
  RoModel.Kernel.Prog — the small statement language into which the methods of `subscriberImpl`,
  `subscriptionImpl` and `observerImpl` are translated (DESIGN.md Appendix A, DESIGN-kernel.md §1).

  The extractor (go/extract/kernel.go) emits values of `List (Meth × Prog)` from the Go sources
  (`RoGen.Kernel.table`); `Kernel.Expected.table` is the same table written by hand from the pinned
  tree; the property files prove the two equal (`Stmt.beqTable … = true`, sound by `beqTable_eq`).
  `Kernel.Conc.step` is an interpreter for this language.

  Core Lean only (linked into the driver).
-/
namespace Ro.Kernel

/-- fields of the three kernel structs that the methods read or write -/
inductive Fld
  | status        -- subscriberImpl.status (atomic)
  | done          -- subscriptionImpl.done (under subMu)
  | finalizers    -- subscriptionImpl.finalizers (under subMu); compared by length
  | destination   -- subscriberImpl.destination (immutable after construction)
  | backpressure  -- subscriberImpl.backpressure (immutable): 0 = Block, 1 = Drop
  | obsStatus     -- observerImpl.status (atomic)
  | teardown      -- the argument of subscriptionImpl.Add
  | onNext | onError | onComplete   -- observerImpl callbacks (immutable)
deriving DecidableEq, Repr, Inhabited

/-- `mu`: subscriberImpl.mu (xsync.Mutex; the no-op one in unsafe mode); `subMu`: subscriptionImpl.mu -/
inductive Lck | mu | subMu
deriving DecidableEq, Repr, Inhabited

inductive Kind | next | error | complete
deriving DecidableEq, Repr, Inhabited

def Kind.isTerminal : Kind → Bool
  | .next => false
  | _ => true

/-- the translated methods -/
inductive Meth
  | subNext | subError | subComplete          -- subscriberImpl.{Next,Error,Complete}WithContext
  | subUnsubscribe                            -- subscriberImpl.Unsubscribe
  | subUnsubInner                             -- subscriberImpl.unsubscribe (helper)
  | subIsClosed | subHasThrown | subIsCompleted
  | snAdd | snUnsubscribe | snIsClosed | snWait   -- subscriptionImpl
  | obNext | obError | obComplete             -- observerImpl.{Next,Error,Complete}WithContext
deriving DecidableEq, Repr, Inhabited

inductive Cmp | eq | ne
deriving DecidableEq, Repr, Inhabited

/-- One statement. Branch bodies are statement lists; the rest of the enclosing list runs after the
    chosen branch unless the branch executed `ret`. -/
inductive Stmt
  | lock (l : Lck)                                     -- l.Lock()           (blocks while held)
  | unlock (l : Lck)                                   -- l.Unlock()
  | deferUnlock (l : Lck)                              -- defer l.Unlock()   (runs when the method returns or panics)
  | tryLock (l : Lck) (ok fail : List Stmt)            -- if l.TryLock() {ok} else {fail}
  | ifLoadEq (f : Fld) (k : Nat) (t e : List Stmt)     -- if atomic.LoadInt32(&f) == k {t} else {e}
  | ifFld (f : Fld) (k : Nat) (t e : List Stmt)        -- plain read: if s.f == k  (done: 1 = true; finalizers: len)
  | ifCas (f : Fld) (a b : Nat) (t e : List Stmt)      -- if atomic.CompareAndSwapInt32(&f, a, b) {t} else {e}
  | ifNil (f : Fld) (t e : List Stmt)                  -- if s.f == nil {t} else {e}
  | callDest (k : Kind)                                -- s.destination.<k>WithContext(ctx, …): begin … end
  | drop (k : Kind)                                    -- OnDroppedNotification(ctx, <k> …)
  | callSelf (m : Meth)                                -- call of another translated method on the same object
  | setDone                                            -- s.done = true
  | swapFinalizers                                     -- finalizers := s.finalizers; s.finalizers = make(…, 0)
  | runTaken                                           -- for i := range finalizers { err := execFinalizer(…); collect }
  | raiseJoined                                        -- if len(errs) > 0 { panic(Join(errs…)) }
  | appendFinalizer                                    -- s.finalizers = append(s.finalizers, teardown)
  | runNow                                             -- teardown()   (not under recover)
  | recv                                               -- <-ch ; close(ch)   (Wait)
  | retLoad (f : Fld) (c : Cmp) (k : Nat)              -- return atomic.LoadInt32(&f) <c> k
  | retFld (f : Fld)                                   -- return s.f
  | ret                                                -- return
  | userCb (k : Kind)                                  -- observerImpl.try<k>: the user callback under recover
  | unknown (line : Nat)                               -- anything the extractor did not recognise
deriving Repr, Inhabited

abbrev Prog := List Stmt

/-! ### decidable equality (the nested inductive has no derived instance; `beq` + soundness) -/

mutual
def Stmt.beq : Stmt → Stmt → Bool
  | .lock a, .lock b => a == b
  | .unlock a, .unlock b => a == b
  | .deferUnlock a, .deferUnlock b => a == b
  | .tryLock l a b, .tryLock l' a' b' => l == l' && Stmt.beqL a a' && Stmt.beqL b b'
  | .ifLoadEq f k a b, .ifLoadEq f' k' a' b' => f == f' && k == k' && Stmt.beqL a a' && Stmt.beqL b b'
  | .ifFld f k a b, .ifFld f' k' a' b' => f == f' && k == k' && Stmt.beqL a a' && Stmt.beqL b b'
  | .ifCas f x y a b, .ifCas f' x' y' a' b' => f == f' && x == x' && y == y' && Stmt.beqL a a' && Stmt.beqL b b'
  | .ifNil f a b, .ifNil f' a' b' => f == f' && Stmt.beqL a a' && Stmt.beqL b b'
  | .callDest a, .callDest b => a == b
  | .drop a, .drop b => a == b
  | .callSelf a, .callSelf b => a == b
  | .setDone, .setDone => true
  | .swapFinalizers, .swapFinalizers => true
  | .runTaken, .runTaken => true
  | .raiseJoined, .raiseJoined => true
  | .appendFinalizer, .appendFinalizer => true
  | .runNow, .runNow => true
  | .recv, .recv => true
  | .retLoad f c k, .retLoad f' c' k' => f == f' && c == c' && k == k'
  | .retFld a, .retFld b => a == b
  | .ret, .ret => true
  | .userCb a, .userCb b => a == b
  | .unknown a, .unknown b => a == b
  | _, _ => false
def Stmt.beqL : List Stmt → List Stmt → Bool
  | [], [] => true
  | x :: xs, y :: ys => Stmt.beq x y && Stmt.beqL xs ys
  | _, _ => false
end

def Stmt.beqTable : List (Meth × Prog) → List (Meth × Prog) → Bool
  | [], [] => true
  | (m, p) :: xs, (m', p') :: ys => m == m' && Stmt.beqL p p' && Stmt.beqTable xs ys
  | _, _ => false

/-- table lookup; a method that is missing from the table is an `unknown` program (the interpreter
    is stuck on it and every syntactic check rejects it) -/
def lookup (table : List (Meth × Prog)) (m : Meth) : Prog :=
  match table.find? (·.1 == m) with
  | some r => r.2
  | none => [.unknown 0]

end Ro.Kernel

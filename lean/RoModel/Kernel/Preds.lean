/-
  RoModel.Kernel.Preds — executable predicates on a history (`List Ev`): the log-level readings of
  C01(b), C02(a), C03, C06 that the harness also evaluates on the log recorded from the real
  subscriber (go/harness/kernel.go, same definitions). The theorems of RoProps/C0{1b,2,3,6}.lean
  are stated on states and logs of `Conc.run`; these functions are what the driver prints a verdict
  from and what the non-vacuity examples evaluate.

  Core Lean only (linked into the driver).
-/
import RoModel.Basic
import RoModel.Kernel.Conc
namespace Ro.Kernel

/-- the callback-begin subsequence as notifications (contexts are not part of this model) -/
def begins : List Ev → List (Notif Nat)
  | [] => []
  | .cbBegin _ .next x :: r => .next {} x :: begins r
  | .cbBegin _ .error x :: r => .error {} (.user x) :: begins r
  | .cbBegin _ .complete _ :: r => .complete {} :: begins r
  | _ :: r => begins r

/-- C01(b): values, then at most one terminal, then nothing -/
def grammarLog (log : List Ev) : Bool := grammarB (begins log)

/-- number of callbacks running at the end of the log -/
def depth : List Ev → Nat
  | [] => 0
  | .cbBegin _ _ _ :: r => depth r + 1
  | .cbEnd _ _ _ :: r => depth r - 1
  | _ :: r => depth r

/-- C02(a): scanning the log, never more than one callback running. `d` = running so far. -/
def noOverlapFrom : Nat → List Ev → Bool
  | _, [] => true
  | d, .cbBegin _ _ _ :: r => d == 0 && noOverlapFrom (d + 1) r
  | d, .cbEnd _ _ _ :: r => noOverlapFrom (d - 1) r
  | d, _ :: r => noOverlapFrom d r

def noOverlapLog (log : List Ev) : Bool := noOverlapFrom 0 log

def finRuns : List Ev → List FinId
  | [] => []
  | .finRun _ f :: r => f :: finRuns r
  | _ :: r => finRuns r

def appendedFins : List Ev → List FinId
  | [] => []
  | .appended _ f :: r => f :: appendedFins r
  | _ :: r => appendedFins r

def nodupB : List Nat → Bool
  | [] => true
  | x :: r => !r.contains x && nodupB r

/-- C03: no finalizer ran twice -/
def finOnceLog (log : List Ev) : Bool := nodupB (finRuns log)

/-- C03: every stored finalizer has run (to be asked of a final state with `done`) -/
def finAllLog (log : List Ev) : Bool := (appendedFins log).all (finRuns log).contains

/-- C07: a terminal call (Error, Complete) that has returned on a subscriber nobody unsubscribed was delivered —
    not swallowed, not handed to the drop hook: some terminal callback has begun (asked when the destination is
    not nil) -/
def terminalLog (log : List Ev) : Bool :=
  !(log.any fun e => match e with | .ret _ (.error _) _ => true | .ret _ .complete _ => true | _ => false)
  || (log.any fun e => match e with | .call _ .unsubscribe => true | _ => false)
  || (log.any fun e => match e with | .cbBegin _ .error _ => true | .cbBegin _ .complete _ => true | _ => false)

def ApiCall.closes : ApiCall → Bool
  | .error _ | .complete | .unsubscribe => true
  | _ => false

def ApiCall.produces : ApiCall → Bool
  | .next _ | .error _ | .complete => true
  | _ => false

/-- C06: once a closing call (Unsubscribe, Error, Complete) has returned, no call that starts later
    reaches callback-begin. `closed` = a closing call has returned; `late` = threads whose current
    call started after that. -/
def cutFrom : Bool → List Tid → List Ev → Bool
  | _, _, [] => true
  | closed, late, .ret t c _ :: r => cutFrom (closed || c.closes) (late.erase t) r
  | closed, late, .call t _ :: r => cutFrom closed (if closed then t :: late else late) r
  | closed, late, .cbBegin t _ _ :: r => !late.contains t && cutFrom closed late r
  | closed, late, _ :: r => cutFrom closed late r

def cutLog (log : List Ev) : Bool := cutFrom false [] log

/-- C06: once a closing call has returned, every later-called IsClosed answers true -/
def closedFrom : Bool → List Tid → List Ev → Bool
  | _, _, [] => true
  | closed, late, .ret t c res :: r =>
      (!(late.contains t && c == .isClosed) || res == .bool true) && closedFrom (closed || c.closes) (late.erase t) r
  | closed, late, .call t _ :: r => closedFrom closed (if closed then t :: late else late) r
  | closed, late, _ :: r => closedFrom closed late r

def isClosedLog (log : List Ev) : Bool := closedFrom false [] log

/-- C06: Wait returns only after its signalling finalizer ran (hence only when `done`) -/
def waitFrom : List FinId → List Ev → Bool
  | _, [] => true
  | ran, .finRun _ f :: r => waitFrom (f :: ran) r
  | ran, .ret _ (.wait f) res :: r => (res == .panicked || ran.contains f) && waitFrom ran r
  | ran, _ :: r => waitFrom ran r

def waitLog (log : List Ev) : Bool := waitFrom [] log

/-- C03: the joined panic is raised after the loop: by then every finalizer named in it has run -/
def raiseFrom : List FinId → List Ev → Bool
  | _, [] => true
  | ran, .finRun _ f :: r => raiseFrom (f :: ran) r
  | ran, .raised _ fs :: r => fs.all ran.contains && raiseFrom ran r
  | ran, _ :: r => raiseFrom ran r

def raiseLog (log : List Ev) : Bool := raiseFrom [] log

/-- at most one thread issues Next/Error/Complete (the hypothesis under which an unsafe subscriber
    is required to serialize) -/
def singleProducer (scripts : List (List ApiCall)) : Bool :=
  (scripts.filter (fun sc => sc.any ApiCall.produces)).length ≤ 1

end Ro.Kernel

/-
  RoModel.Kernel.WellLocked — a decidable lock-discipline checker for ARBITRARY programs of the
  statement language: a tiny type system whose state is "this thread holds the producer lock `mu`".

    lock mu        needs not-held, gives held          unlock mu     needs held, gives not-held
    callDest       needs held                          tryLock mu    ok-branch held, fail-branch not-held
    callSelf (of an interpreted method), ret, retLoad, retFld, raiseJoined, runNow, runTaken   need not-held
    (so every teardown — run by Unsubscribe's loop or at once by Add — runs OUTSIDE the producer lock)
    deferUnlock mu, userCb, unknown   rejected         both branches of a test must agree (or return)
    a method body starts not-held and must end not-held (by falling through or by returning)

  `RoProofs/Kernel/WellLockedSound.lean` proves: if every method of a program table is accepted,
  then in safe / eventually-safe mode at most one thread is inside a callback in every reachable
  state of `Conc.run` — for that table, whatever it is. `RoProps/C02.lean` evaluates the checker on
  the table regenerated from the Go sources.

  Core Lean only.
-/
import RoModel.Kernel.Conc
namespace Ro.Kernel

/-- outcome of checking a statement list from a given lock state -/
inductive Out
  | err                 -- discipline violated
  | ret                 -- every path returns (from a not-held state)
  | fall (h : Bool)     -- falls through with lock state `h`
deriving DecidableEq, Repr

def Out.join : Out → Out → Out
  | .err, _ => .err
  | _, .err => .err
  | .ret, x => x
  | x, .ret => x
  | .fall a, .fall b => if a = b then .fall a else .err

def Out.bind : Out → (Bool → Out) → Out
  | .err, _ => .err
  | .ret, _ => .ret
  | .fall h, f => f h

/-- acceptable end of a method body / of a frame -/
def Out.ok : Out → Bool
  | .ret => true
  | .fall false => true
  | _ => false

def Meth.all : List Meth :=
  [.subNext, .subError, .subComplete, .subUnsubscribe, .subUnsubInner, .subIsClosed, .subHasThrown, .subIsCompleted,
   .snAdd, .snUnsubscribe, .snIsClosed, .snWait, .obNext, .obError, .obComplete]

/-- every method that a thread can execute (the observerImpl programs are not interpreted by `Conc`) -/
def Meth.interpreted : List Meth :=
  [.subNext, .subError, .subComplete, .subUnsubscribe, .subUnsubInner, .subIsClosed, .subHasThrown, .subIsCompleted,
   .snAdd, .snUnsubscribe, .snIsClosed, .snWait]

mutual
def chkS (h : Bool) : Stmt → Out
  | .lock .mu => if h then .err else .fall true
  | .unlock .mu => if h then .fall false else .err
  | .deferUnlock .mu => .err
  | .tryLock .mu a b => if h then .err else (chkL true a).join (chkL false b)
  | .tryLock .subMu a b => (chkL h a).join (chkL h b)
  | .ifLoadEq _ _ a b | .ifFld _ _ a b | .ifCas _ _ _ a b | .ifNil _ a b => (chkL h a).join (chkL h b)
  | .callDest _ => if h then .fall true else .err
  | .callSelf m => if h || !Meth.interpreted.contains m then .err else .fall false
  | .raiseJoined | .runNow | .runTaken => if h then .err else .fall false
  | .ret | .retLoad _ _ _ | .retFld _ => if h then .err else .ret
  | .userCb _ | .unknown _ => .err
  | .lock .subMu | .unlock .subMu | .deferUnlock .subMu | .drop _ | .setDone | .swapFinalizers
  | .appendFinalizer | .recv => .fall h
def chkL (h : Bool) : List Stmt → Out
  | [] => .fall h
  | s :: r => (chkS h s).bind fun h' => chkL h' r
end

/-- the lock discipline of a whole table: every interpreted method is accepted (a `callSelf` of a
    method outside `Meth.interpreted` is rejected by `chkS`) -/
def wellLocked (table : List (Meth × Prog)) : Bool :=
  Meth.interpreted.all fun m => (chkL false (lookup table m)).ok

end Ro.Kernel

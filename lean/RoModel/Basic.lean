/-
  RoModel.Basic — notifications, contexts, errors, and the sequential "gate"
  (what `observerImpl` / `subscriberImpl` do to a producer script, legal or not).

  Core Lean only (no Mathlib): this file is linked into the `driver` executable.
-/
namespace Ro

/-- A `context.Context` as far as the properties can see it: the set of marker values attached
    (at subscription, mid-pipeline, per item) and whether the Go value is the nil interface. -/
structure Ctx where
  marks : List Nat := []
  isNil : Bool := false
deriving DecidableEq, Repr, Inhabited

def Ctx.bg : Ctx := {}
def Ctx.nil : Ctx := { isNil := true }
def Ctx.tag (c : Ctx) (m : Nat) : Ctx := { c with marks := c.marks ++ [m] }
/-- `d` is derived from `c`: every marker of `c` is still visible in `d` and `d` is not nil. -/
def Ctx.derivedFrom (d c : Ctx) : Prop := d.isNil = false ∧ ∀ m ∈ c.marks, m ∈ d.marks

/-- Errors: user errors, the library's sentinels, non-error panic values, and the three wrappers
    of errors.go (each keeps the cause reachable through `Unwrap`). -/
inductive Err
  | user (n : Nat)
  | sentinel (n : Nat)
  | panicVal (n : Nat)
  | observer (e : Err)
  | observable (e : Err)
  | unsubscription (e : Err)
deriving DecidableEq, Repr, Inhabited

/-- the `errors.Unwrap` chain of an error, outermost first -/
def Err.chain : Err → List Err
  | .observer e => .observer e :: e.chain
  | .observable e => .observable e :: e.chain
  | .unsubscription e => .unsubscription e :: e.chain
  | e => [e]

inductive Notif (α : Type)
  | next (c : Ctx) (v : α)
  | error (c : Ctx) (e : Err)
  | complete (c : Ctx)
deriving DecidableEq, Repr

namespace Notif
variable {α β : Type}

def isTerminal : Notif α → Bool
  | .next _ _ => false
  | _ => true

def ctx : Notif α → Ctx
  | .next c _ => c
  | .error c _ => c
  | .complete c => c

def mapVal (f : α → β) : Notif α → Notif β
  | .next c v => .next c (f v)
  | .error c e => .error c e
  | .complete c => .complete c

@[simp] theorem isTerminal_next (c : Ctx) (v : α) : (Notif.next c v).isTerminal = false := rfl
@[simp] theorem isTerminal_error (c : Ctx) (e : Err) : (Notif.error c e : Notif α).isTerminal = true := rfl
@[simp] theorem isTerminal_complete (c : Ctx) : (Notif.complete c : Notif α).isTerminal = true := rfl
end Notif

/-- What a subscriber/observer pair lets through of a raw producer script: everything up to and
    including the first terminal notification. (`observer.go:107-140`, `subscriber.go:176-241`) -/
def gate {α : Type} : List (Notif α) → List (Notif α)
  | [] => []
  | x :: xs => if x.isTerminal then [x] else x :: gate xs

/-- … and what it refuses (each refused notification goes to `OnDroppedNotification` once). -/
def gateDropped {α : Type} : List (Notif α) → List (Notif α)
  | [] => []
  | x :: xs => if x.isTerminal then xs else gateDropped xs

/-- The observable contract (C01): values, then at most one terminal, then nothing. -/
def Grammar {α : Type} : List (Notif α) → Prop
  | [] => True
  | x :: xs => if x.isTerminal then xs = [] else Grammar xs

def grammarB {α : Type} : List (Notif α) → Bool
  | [] => true
  | x :: xs => if x.isTerminal then xs.isEmpty else grammarB xs

theorem grammarB_iff {α : Type} (l : List (Notif α)) : grammarB l = true ↔ Grammar l := by
  induction l with
  | nil => simp [grammarB, Grammar]
  | cons x xs ih =>
    unfold grammarB Grammar
    cases x.isTerminal <;> simp [ih, List.isEmpty_iff]

instance {α : Type} (l : List (Notif α)) : Decidable (Grammar l) :=
  decidable_of_iff _ (grammarB_iff l)

/-- values of a script before its first terminal -/
def values {α : Type} : List (Notif α) → List (Ctx × α)
  | [] => []
  | .next c v :: xs => (c, v) :: values xs
  | _ :: _ => []

/-- how a script ends -/
inductive Ending
  | never
  | error (c : Ctx) (e : Err)
  | complete (c : Ctx)
deriving DecidableEq, Repr

def ending {α : Type} : List (Notif α) → Ending
  | [] => .never
  | .next _ _ :: xs => ending xs
  | .error c e :: _ => .error c e
  | .complete c :: _ => .complete c

def Ending.toList {α : Type} : Ending → List (Notif α)
  | .never => []
  | .error c e => [.error c e]
  | .complete c => [.complete c]

end Ro

/-
  RoModel.Chan — the three places of samber/ro where notifications wait in a Go channel, as small
  transition systems over a bounded FIFO with a producer thread, a consumer thread and the thread
  that unsubscribes (`step : St → Tid → Option St`; a schedule is any `List Tid`).

  * `Pipe`  (`Cfg.toChan = false`): `detachOn` = `ObserveOn` / `SubscribeOn`
            (operator_utility.go:577-653). Producer = the observer handed to the source
            (`ch <- notification`, after a terminal `stop()`), consumer = `for n := range ch` +
            `processNotificationWithContext` into the downstream subscriber, teardown =
            `defer stop(); subscriptions.Unsubscribe()` — `stop()` runs after the upstream
            unsubscription whether that returns or panics (`Cfg.upPanic`: a teardown of the source
            panics; `subscriptionImpl.Unsubscribe` re-raises it after all finalizers have run, the
            deferred `stop()` / `closeChan()` runs, then the panic continues to the caller).
  * `Pipe`  (`Cfg.toChan = true`): `ToChannel` (operator_sink.go:118-181). Producer = the goroutine
            that (after `time.Sleep(1ms)`) subscribes to the source and sends materialised
            notifications, then `closeChan(); destination.Complete`; the third thread first hands the
            channel out (`destination.NextWithContext(subscriberCtx, ch)`), later may unsubscribe;
            consumer = whoever received the channel and ranges over it.
  * `From`: `FromChannel` (operator_creation.go:340-364). Producer = the user of the input channel
            (sends values, then closes it or abandons it), consumer = the goroutine
            `select { case item, ok := <-in … case <-done: return }`, teardown = `close(done)`.

  What is an over-approximation (sound for the invariants proved about every reachable state):
  the teardown steps of the third thread are enabled from the start, although the real teardown
  becomes callable only once `Subscribe` has returned; a teardown triggered by a delivered terminal
  is run by the thread that delivered it at once (the real one may run it later, on the thread
  that registers it); `Subscription.done` is not modelled for `Pipe` (both triggers may run the
  teardown body — its two actions are idempotent, `stop()` through `sync.Once`).

  `Cfg.hot = false` is the synchronous source that emits its whole script inside
  `SubscribeWithContext`: its subscription is added to `subscriptions` only afterwards
  (`subscriptions.AddUnsubscribable(source.SubscribeWithContext(…))`), so
  `subscriptions.Unsubscribe()` cannot stop it.

  Channel semantics (trusted, textbook): capacity `cap` FIFO; a send completes when there is room,
  or — unbuffered / full-and-empty cannot happen — by rendezvous with a receiver that is already
  waiting; a receive takes the head, or observes "closed" when the buffer is empty and the channel
  closed; a send on a closed channel panics, also when the sender was already blocked.

  Core Lean only (linked into the driver).
-/
import RoModel.Basic
namespace Ro.Chan
open Ro

inductive Tid
  | prod   -- the sending side
  | cons   -- the receiving side (for `From`: the `in` branch of the select)
  | ctl    -- hand-out (ToChannel) and external `Unsubscribe()`
  | quit   -- `From` only: the consumer's select takes the `<-done` branch
deriving DecidableEq, Repr

/-! ## Pipe: detachOn and ToChannel -/

structure Cfg where
  cap : Nat
  toChan : Bool := false
  hot : Bool := true
  /-- the source's own teardown panics when it is run -/
  upPanic : Bool := false
deriving Repr

inductive PPc (α : Type)
  | idle                 -- between two notifications of the source
  | send (x : Notif α)   -- inside the observer callback, at `ch <- x`
  | stop                 -- terminal sent; at `stop()` / `closeChan()`
  | complete             -- ToChannel: at `destination.CompleteWithContext(ctx)`
  | td1 | td2            -- ToChannel: the destination subscriber's `unsubscribe()` runs the teardown
deriving Repr

inductive CPc (α : Type)
  | recv                 -- at `range ch`
  | hold (x : Notif α)   -- received `x`, inside `processNotificationWithContext` / the reader's body
  | td1 | td2            -- detachOn: the terminal was handed downstream; its `unsubscribe()` runs the teardown
  | exited               -- the range loop saw the channel closed
deriving Repr

inductive TPc
  | handout              -- ToChannel: `destination.NextWithContext(subscriberCtx, ch)`
  | cas                  -- `subscriberImpl.Unsubscribe`: CAS on the downstream status
  | td1                  -- teardown: `subscriptions.Unsubscribe()` (may panic, see `Cfg.upPanic`)
  | td2                  -- teardown: the deferred `stop()` / `closeChan()`
  | done
deriving DecidableEq, Repr

structure St (α : Type) where
  /-- raw script the source still has to emit -/
  src : List (Notif α)
  /-- status == 0 of the subscriber that wraps the producer-side observer -/
  upOpen : Bool := true
  /-- history: the teardown cut an upstream that was still open -/
  cut : Bool := false
  /-- history: an upstream teardown panicked inside `subscriptions.Unsubscribe()`; the panic
      continues to the caller of the teardown once the deferred `stop()` has run -/
  raised : Bool := false
  ppc : PPc α := .idle
  q : List (Notif α) := []
  closed : Bool := false
  /-- the `sync.Once` around `close(ch)` has fired -/
  once : Bool := false
  /-- history: executions of `close(ch)` -/
  closes : Nat := 0
  /-- history: completed calls of `stop()` / `closeChan()` -/
  stops : Nat := 0
  cpc : CPc α := .recv
  tpc : TPc
  /-- status == 0 of the downstream subscriber -/
  downOpen : Bool := true
  /-- ToChannel: the channel reached the destination / the hand-out was refused -/
  handed : Bool := false
  handDropped : Bool := false
  destCompleted : Bool := false
  -- history
  /-- notifications that passed the upstream gate, i.e. entered a producer callback ("produced") -/
  entered : List (Notif α) := []
  /-- notifications put into the channel -/
  sent : List (Notif α) := []
  /-- sends that hit the closed channel (panic inside the observer callback) -/
  fails : List (Notif α) := []
  /-- notifications the consumer has finished handling ("consumed") -/
  got : List (Notif α) := []
  /-- detachOn: what the downstream subscriber let through -/
  out : List (Notif α) := []
  dropsUp : List (Notif α) := []
  dropsDown : List (Notif α) := []
deriving Repr

variable {α : Type}

def init (cfg : Cfg) (src : List (Notif α)) : St α :=
  { src := src, tpc := if cfg.toChan then .handout else .cas }

/-- `stop()` / `closeChan()`: `once.Do(func() { close(ch) })` -/
def St.stop (s : St α) : St α :=
  if s.once then { s with stops := s.stops + 1 }
  else { s with once := true, closed := true, closes := s.closes + 1, stops := s.stops + 1 }

/-- teardown, first action: `subscriptions.Unsubscribe()` — closes the upstream subscriber when the
    source's subscription is already registered (hot source); the source's own teardown runs (and
    may panic) only when this call is the one that closes it. Whatever happens here, the thread
    goes on to the deferred `stop()` (operator_utility.go:647-653, operator_sink.go:176-182). -/
def St.unsubUp (cfg : Cfg) (s : St α) : St α :=
  if cfg.hot then { s with upOpen := false, cut := s.cut || s.upOpen, raised := s.raised || (cfg.upPanic && s.upOpen) } else s

def hand : PPc α → List (Notif α)
  | .send x => [x]
  | _ => []

def chold : CPc α → List (Notif α)
  | .hold x => [x]
  | _ => []

/-- after a successful send -/
def afterSend (x : Notif α) : PPc α := if x.isTerminal then .stop else .idle

def stepProd (cfg : Cfg) (s : St α) : Option (St α) :=
  match s.ppc with
  | .idle =>
    match s.src with
    | [] => none
    | x :: xs =>
      if s.upOpen then
        -- subscriber.go:176-241: a terminal flips the status before the callback runs
        -- (a registered source's own terminal also runs its own teardown once the callback has
        -- returned; if that panics the panic goes to the emitter — recorded in `raised`)
        some { s with src := xs, ppc := .send x, entered := s.entered ++ [x], upOpen := !x.isTerminal,
                      raised := s.raised || (cfg.upPanic && cfg.hot && x.isTerminal) }
      else
        some { s with src := xs, dropsUp := s.dropsUp ++ [x] }
  | .send x =>
    if s.closed then
      -- panic "send on closed channel" inside onNext/onError/onComplete: recovered by
      -- observerImpl.try* (observer.go:143-186) and reported to OnUnhandledError; the rest of the
      -- callback (stop(), destination.Complete) is skipped
      some { s with ppc := .idle, fails := s.fails ++ [x] }
    else if s.q.length < cfg.cap then
      some { s with q := s.q ++ [x], sent := s.sent ++ [x], ppc := afterSend x }
    else
      match s.cpc, s.q with
      | .recv, [] =>
        if cfg.toChan && !s.handed then none
        else some { s with cpc := .hold x, sent := s.sent ++ [x], ppc := afterSend x }
      | _, _ => none
  | .stop => some { s.stop with ppc := if cfg.toChan then .complete else .idle }
  | .complete =>
    if s.downOpen then some { s with downOpen := false, destCompleted := true, ppc := .td1 }
    else some { s with ppc := .td1 }
  | .td1 => some { s.unsubUp cfg with ppc := .td2 }
  | .td2 => some { s.stop with ppc := .idle }

def stepCons (cfg : Cfg) (s : St α) : Option (St α) :=
  match s.cpc with
  | .recv =>
    if cfg.toChan && !s.handed then none
    else match s.q with
      | x :: q' => some { s with q := q', cpc := .hold x }
      | [] => if s.closed then some { s with cpc := .exited } else none
  | .hold x =>
    if cfg.toChan then some { s with got := s.got ++ [x], cpc := .recv }
    else if s.downOpen then
      some { s with got := s.got ++ [x], out := s.out ++ [x], downOpen := !x.isTerminal,
                    cpc := if x.isTerminal then .td1 else .recv }
    else
      some { s with got := s.got ++ [x], dropsDown := s.dropsDown ++ [x],
                    cpc := if x.isTerminal then .td1 else .recv }
  | .td1 => some { s.unsubUp cfg with cpc := .td2 }
  | .td2 => some { s.stop with cpc := .recv }
  | .exited => none

def stepCtl (cfg : Cfg) (s : St α) : Option (St α) :=
  match s.tpc with
  | .handout =>
    if s.downOpen then some { s with handed := true, tpc := .cas }
    else some { s with handDropped := true, tpc := .cas }
  | .cas =>
    if s.downOpen then some { s with downOpen := false, tpc := .td1 }
    else some { s with tpc := .done }
  | .td1 => some { s.unsubUp cfg with tpc := .td2 }
  | .td2 => some { s.stop with tpc := .done }
  | .done => none

def step (cfg : Cfg) (s : St α) : Tid → Option (St α)
  | .prod => stepProd cfg s
  | .cons => stepCons cfg s
  | .ctl => stepCtl cfg s
  | .quit => none

/-- a scheduled thread that is blocked (or finished) does not move -/
def next (cfg : Cfg) (s : St α) (t : Tid) : St α := (step cfg s t).getD s

def run (cfg : Cfg) (s : St α) (sched : List Tid) : St α := sched.foldl (next cfg) s

/-- "produced − consumed" of C08 -/
def St.ahead (s : St α) : Nat := s.entered.length - s.got.length

/-- nobody can move -/
def St.quiescent (cfg : Cfg) (s : St α) : Bool :=
  (step cfg s .prod).isNone && (step cfg s .cons).isNone && (step cfg s .ctl).isNone

/-! ### canonical schedules (used by the driver; any fair schedule gives the same final state of
    the compared fields — `RoProofs/Chan.lean`, `pipe_complete`) -/

/-- run the threads of `order` greedily (first enabled one moves) until none can, at most `fuel` steps -/
def greedy (cfg : Cfg) (order : List Tid) : Nat → St α → St α
  | 0, s => s
  | fuel + 1, s =>
    match order.find? (fun t => (step cfg s t).isSome) with
    | some t => greedy cfg order fuel (next cfg s t)
    | none => s

/-- the trace the final observer of ToChannel's observable sees -/
inductive DownEv | chan | complete
deriving DecidableEq, Repr

def St.downTrace (s : St α) : List DownEv :=
  (if s.handed then [.chan] else []) ++ (if s.destCompleted then [.complete] else [])

/-! ### what observerImpl does with a panicking callback (observer.go:143-186) -/

inductive CbRes
  | ok
  | panic (p : Err)
deriving DecidableEq, Repr

structure CallRes where
  unhandled : List Err := []
  escaped : Option Err := none
deriving DecidableEq, Repr

/-- `lo.TryCatchWithErrorValue(f, catch)`: a panic of `f` is handed to `catch`, never re-raised -/
def tryError (onError : Err → CbRes) (e : Err) : CallRes :=
  match onError e with
  | .ok => {}
  | .panic p => { unhandled := [.observer p] }

/-- `tryNext`: a panic of `onNext` becomes a call of `onError` with the wrapped value -/
def tryNext (onNext : CbRes) (onError : Err → CbRes) : CallRes :=
  match onNext with
  | .ok => {}
  | .panic p => tryError onError (.observer p)

def tryComplete (onComplete : CbRes) : CallRes :=
  match onComplete with
  | .ok => {}
  | .panic p => { unhandled := [.observer p] }

/-- the runtime error "send on closed channel", as it is rendered by the harness -/
def sendOnClosed : Err := .sentinel 90

/-- a producer callback of detachOn / ToChannel whose `ch <- x` hits the closed channel: every
    callback of that observer sends on the same channel, so `onError` panics as well -/
def failedSend (x : Notif α) : CallRes :=
  match x with
  | .next _ _ => tryNext (.panic sendOnClosed) (fun _ => .panic sendOnClosed)
  | .error _ e => tryError (fun _ => .panic sendOnClosed) e
  | .complete _ => tryComplete (.panic sendOnClosed)

/-! ## From: FromChannel -/

inductive UPc (α : Type)
  | idle
  | send (v : α)
  | fin
deriving Repr

inductive FPc (α : Type)
  | sel                  -- at the select
  | hold (v : α)         -- received a value, at `destination.NextWithContext`
  | complete             -- saw the channel closed, at `destination.CompleteWithContext`
  | claim                -- the subscriber's `unsubscribe()`: test-and-set of `Subscription.done`
  | closeDone            -- the finalizer `close(done)`
  | exited
deriving Repr

inductive FTPc
  | cas | claim | closeDone | done
deriving DecidableEq, Repr

structure FSt (α : Type) where
  /-- values the user still has to send -/
  inp : List α
  /-- the user closes the channel after the last value (`false`: abandons it) -/
  willClose : Bool
  cap : Nat
  sub : Ctx
  upc : UPc α := .idle
  q : List α := []
  closed : Bool := false
  cpc : FPc α := .sel
  tpc : FTPc := .cas
  doneClosed : Bool := false
  /-- history: executions of `close(done)` -/
  doneCloses : Nat := 0
  /-- `subscriptionImpl.done` -/
  subDone : Bool := false
  downOpen : Bool := true
  /-- history: values received from the channel -/
  recvd : List α := []
  /-- history: values whose delivery call has returned -/
  handled : List α := []
  out : List (Notif α) := []
  drops : List (Notif α) := []
deriving Repr

def finit (cap : Nat) (sub : Ctx) (inp : List α) (willClose : Bool) : FSt α :=
  { inp := inp, willClose := willClose, cap := cap, sub := sub }

def uhand : UPc α → List α
  | .send v => [v]
  | _ => []

def fhold : FPc α → List α
  | .hold v => [v]
  | _ => []

def fstepUser (s : FSt α) : Option (FSt α) :=
  match s.upc with
  | .idle =>
    match s.inp with
    | v :: r => some { s with inp := r, upc := .send v }
    | [] => if s.willClose then some { s with closed := true, upc := .fin } else some { s with upc := .fin }
  | .send v =>
    if s.q.length < s.cap then some { s with q := s.q ++ [v], upc := .idle }
    else match s.cpc, s.q with
      | .sel, [] => some { s with cpc := .hold v, recvd := s.recvd ++ [v], upc := .idle }
      | _, _ => none
  | .fin => none

def fstepCons (s : FSt α) : Option (FSt α) :=
  match s.cpc with
  | .sel =>
    match s.q with
    | v :: q' => some { s with q := q', cpc := .hold v, recvd := s.recvd ++ [v] }
    | [] => if s.closed then some { s with cpc := .complete } else none
  | .hold v =>
    if s.downOpen then some { s with out := s.out ++ [.next s.sub v], handled := s.handled ++ [v], cpc := .sel }
    else some { s with drops := s.drops ++ [.next s.sub v], handled := s.handled ++ [v], cpc := .sel }
  | .complete =>
    if s.downOpen then some { s with out := s.out ++ [.complete s.sub], downOpen := false, cpc := .claim }
    else some { s with drops := s.drops ++ [.complete s.sub], cpc := .claim }
  | .claim => if s.subDone then some { s with cpc := .exited } else some { s with subDone := true, cpc := .closeDone }
  | .closeDone => some { s with doneClosed := true, doneCloses := s.doneCloses + 1, cpc := .exited }
  | .exited => none

def fstepQuit (s : FSt α) : Option (FSt α) :=
  match s.cpc with
  | .sel => if s.doneClosed then some { s with cpc := .exited } else none
  | _ => none

def fstepCtl (s : FSt α) : Option (FSt α) :=
  match s.tpc with
  | .cas => if s.downOpen then some { s with downOpen := false, tpc := .claim } else some { s with tpc := .done }
  | .claim => if s.subDone then some { s with tpc := .done } else some { s with subDone := true, tpc := .closeDone }
  | .closeDone => some { s with doneClosed := true, doneCloses := s.doneCloses + 1, tpc := .done }
  | .done => none

def fstep (s : FSt α) : Tid → Option (FSt α)
  | .prod => fstepUser s
  | .cons => fstepCons s
  | .ctl => fstepCtl s
  | .quit => fstepQuit s

def fnext (s : FSt α) (t : Tid) : FSt α := (fstep s t).getD s

def frun (s : FSt α) (sched : List Tid) : FSt α := sched.foldl fnext s

def fgreedy (order : List Tid) : Nat → FSt α → FSt α
  | 0, s => s
  | fuel + 1, s =>
    match order.find? (fun t => (fstep s t).isSome) with
    | some t => fgreedy order fuel (fnext s t)
    | none => s

/-! ## Collect (observable.go:337-362) -/

/-- what `CollectWithContext` returns once `sub.Wait()` has returned, from the notifications its
    observer was given: the values in order, the context of the terminal, the error -/
structure Collected (α : Type) where
  vals : List α
  ctx : Option Ctx
  err : Option Err
deriving DecidableEq, Repr

def collectOf (delivered : List (Notif α)) : Collected α :=
  { vals := (values delivered).map (·.2)
    ctx := match ending delivered with | .never => none | .error c _ => some c | .complete c => some c
    err := match ending delivered with | .error _ e => some e | _ => none }

/-- `Collect` blocks in `Wait()` until the stream terminates: `none` = never returns -/
def collect (raw : List (Notif α)) : Option (Collected α) :=
  match ending raw with
  | .never => none
  | _ => some (collectOf (gate raw))

end Ro.Chan

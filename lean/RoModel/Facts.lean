/-
  RoModel.Facts — the row types of the fact tables that go/extract regenerates from the source of
  the repository under check (lean/RoGen/*.lean). Plain data; the predicates over them live next
  to the theorems that use them.
-/
namespace Ro.Facts

inductive Ctor | safeC | unsafeC | evSafeC | unknownC
deriving DecidableEq, Repr

/-- where the context handed to a downstream call / upstream subscription comes from -/
inductive Prov
  | param        -- the context parameter of the callback the call sits in
  | subscriber   -- the context the operator was subscribed with
  | derived      -- context.With*(good) or the result of a user callback applied to a good context
  | stored       -- stored next to the value it arrived with (tuple `.A`)
  | lastSeen     -- a variable / atomic holder assigned from callback contexts (nil before the first)
  | outer        -- a parameter of the operator constructor (supplied by the user at build time)
  | background | todo | nilCtx | unknown
deriving DecidableEq, Repr

structure GoFact where
  line : Nat
  kind : String        -- "go" | "afterfunc"
  recovered : Bool     -- wrapped in recoverUnhandledError
  callsUser : Bool     -- the body calls a user-supplied function
  emits : Bool         -- the body calls destination.*
deriving DecidableEq, Repr

structure CtxRow where
  line : Nat
  kind : String        -- "next" | "error" | "complete" | "subscribe"
  prov : Prov
deriving DecidableEq, Repr

structure StateRow where
  var : String
  declScope : String   -- "construction" | "application"
  writeScope : String  -- "application" | "subscription"
  line : Nat
deriving DecidableEq, Repr

structure OpFact where
  name : String
  file : String
  ctor : Ctor
  passThrough : Bool   -- hands `destination` itself to an upstream SubscribeWithContext
  feeders : Nat        -- emission contexts that can call destination.* (see go/extract)
  asyncEmit : Bool     -- destination.* reachable from a `go` body or a timer callback
  subBodyEmits : Bool  -- destination.* called by the subscribe function itself
  waits : Nat          -- `.Wait()` calls on the subscribing goroutine
  recvOutsideGo : Bool -- channel receive / select on the subscribing goroutine
  sleeps : Bool
  returns : String     -- shape of the returned teardown
  discarded : Nat      -- upstream subscriptions whose result is dropped
  subscribeSites : Nat
  goStmts : List GoFact
  ctxRows : List CtxRow
  stateRows : List StateRow
deriving Repr

/-! ### ee/plugins/prometheus (go/extract/prom.go → RoGen/Prom.lean) -/

/-- one argument of the instrumented `ro.PipeOp2N(...)` call of a generated `PipeN` -/
inductive PromSlot
  | op (k : Nat)                    -- the parameter `operatork` (1-based)
  | obs (arg : Nat) (index : Nat)   -- observeOperatorProcessingTime(…, arg.Name, arg.Pos, index)
  | other (text : String)
deriving DecidableEq, Repr

structure PromPipe where
  name : String
  arity : Nat            -- number of `operatork` parameters
  leading : Nat          -- parameters before `operator1`
  descCall : String
  skipCaller : Nat
  skipArgs : Nat
  errReturn : String
  argDecls : List Nat    -- k of every `argk := pipeDescription.Arguments[k]`
  collector : String
  call : String          -- receives (collector, source, plain, instrumented)
  callHead : String
  plainFn : String
  plain : List Nat
  instrFn : String
  instr : List PromSlot   -- nested ro.PipeOpK calls flattened
  returnsCollector : Bool
  plainAritiesOk : Bool   -- every (nested) ro.PipeOpK call has exactly K arguments
  instrAritiesOk : Bool
deriving DecidableEq, Repr

structure PromLicence where
  enabled : String
  bypassDefault : String
  ctor : String
  cond : String
  thenBranch : String
  elseBranch : String
  subscribe : String
  returns : String
deriving DecidableEq, Repr

/-- one step of a callback (or of the subscribe function) of a wrapper of operator.go -/
inductive PromEv
  | direct                                   -- the destination's own method passed as the callback
  | inc (counter : String)                   -- counter.Inc()
  | fwdNext | fwdError | fwdComplete         -- destination.X(ctx, <the callback's own arguments>)
  | fwdModified (text : String)              -- destination.X with other arguments, or under a condition
  | observe (guard : String) (metric : String)
  | stamp (v : String) | readStamp | clock (v : String)
  | other (text : String)
deriving DecidableEq, Repr

structure PromWrapper where
  name : String
  exported : Bool
  licenceGuard : Bool
  ctor : String
  subscribeN : Nat
  subscribeCtx : String
  passThrough : Bool
  preSubscribe : List PromEv
  onNext : List PromEv
  onError : List PromEv
  onComplete : List PromEv
  returns : String
deriving DecidableEq, Repr

end Ro.Facts

/-
  RoModel.Linearizable — sequential objects, recorded histories (call / return stamps) and what it
  means for a history to be linearizable (Herlihy–Wing), as executable definitions:
  `isLinearization` is a Bool so that the driver's brute-force search (Drivers/SubjLin.lean) and the
  atomicity meta-theorem (RoProofs/Atomic.lean) talk about the same predicate.

  Core Lean only.
-/
namespace Ro.Lin

variable {σ ο ρ : Type}

/-- a sequential object: initial state, and what one operation does (new state, result) -/
structure Obj (σ ο ρ : Type) where
  init : σ
  step : σ → ο → σ × ρ

/-- one operation of a recorded history: what was called, the logical time of the call, and — if it
    has returned — the time of the return and the result -/
structure HOp (ο ρ : Type) where
  op : ο
  call : Nat
  ret : Option (Nat × ρ)

/-- run operations one after the other: final state and the results, in order -/
def Obj.runSeq (O : Obj σ ο ρ) : σ → List ο → σ × List ρ
  | s, [] => (s, [])
  | s, o :: os => ((O.runSeq (O.step s o).1 os).1, (O.step s o).2 :: (O.runSeq (O.step s o).1 os).2)

/-- `a` had returned before `b` was called -/
def precedes (a b : HOp ο ρ) : Bool :=
  match a.ret with
  | some (t, _) => decide (t < b.call)
  | none => false

/-- real-time order: nothing is placed before an operation that had returned before it was called -/
def respectsRealTime : List (HOp ο ρ) → Bool
  | [] => true
  | a :: rest => rest.all (fun b => !precedes b a) && respectsRealTime rest

/-- every operation that returned got, in the sequential run, the result it returned -/
def resultsAgree [DecidableEq ρ] : List (HOp ο ρ) → List ρ → Bool
  | [], [] => true
  | a :: as, r :: rs => (match a.ret with | some (_, r') => decide (r' = r) | none => true) && resultsAgree as rs
  | _, _ => false

/-- the operations of `h` selected by the index list `lin`, in that order -/
def pick (h : List (HOp ο ρ)) (lin : List Nat) : List (HOp ο ρ) := lin.filterMap (fun k => h[k]?)

/-- `lin` (positions in `h`) is a linearization of the history `h` for the object `O`:
    no position twice, all in range, every operation that returned is there (pending ones may be
    dropped or completed), the order respects real time, and running the operations sequentially
    in that order gives every returned operation the result it returned. -/
def isLinearization [DecidableEq ρ] (O : Obj σ ο ρ) (h : List (HOp ο ρ)) (lin : List Nat) : Bool :=
  decide lin.Nodup
  && lin.all (fun k => decide (k < h.length))
  && (List.range h.length).all (fun k => !(match h[k]? with | some a => a.ret.isSome | none => false) || decide (k ∈ lin))
  && respectsRealTime (pick h lin)
  && resultsAgree (pick h lin) (O.runSeq O.init ((pick h lin).map (·.op))).2

/-- the state the sequential run of a linearization ends in -/
def finalState (O : Obj σ ο ρ) (h : List (HOp ο ρ)) (lin : List Nat) : σ :=
  (O.runSeq O.init ((pick h lin).map (·.op))).1

def Linearizable [DecidableEq ρ] (O : Obj σ ο ρ) (h : List (HOp ο ρ)) : Prop :=
  ∃ lin, isLinearization O h lin = true

/-- linearizable by an order whose final state satisfies `P` (for objects whose effects are
    observed on the side — a subject's subscribers — rather than through return values) -/
def LinearizableWith [DecidableEq ρ] (O : Obj σ ο ρ) (h : List (HOp ο ρ)) (P : σ → Prop) : Prop :=
  ∃ lin, isLinearization O h lin = true ∧ P (finalState O h lin)

end Ro.Lin

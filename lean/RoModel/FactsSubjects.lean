/-
  RoModel.FactsSubjects — row type of the regenerated table RoGen.SubjectLocks (go/extract/subjects.go):
  the lock skeleton of the four operations of each subject implementation.
-/
namespace Ro.Facts

structure LockRow where
  subject : String        -- "publish" | "behavior" | "replay" | "async" | "unicast"
  method : String         -- "SubscribeWithContext" | "NextWithContext" | "ErrorWithContext" | "CompleteWithContext"
  file : String
  line : Nat
  deferUnlock : Bool      -- `defer s.mu.Unlock()`: released when the method returns
  deferredDeliver : Bool  -- a `defer <subscriber>.XxxWithContext(...)`: runs after the unlock
  /-- in source order: "lock" "unlock" "access" "broadcast" "deliver" "deferDeliver" "teardown"
      "drop" "unsubscribeAll" or "other:<what>" -/
  skeleton : List String
deriving DecidableEq, Repr

end Ro.Facts

/-
  RoModel.BuildTimeFacts — row type and predicate for the regenerated table RoGen.BuildTime (go/extract/buildtime.go):
  what an operator of operator_*.go does outside every subscribe function — when the operator value is constructed or
  applied to its source — that reads ambient state (clock, randomness) or creates an object with identity (mutex, once,
  channel, subscription, subject, derived context, atomic). Property C12: building a pipeline does nothing and every
  subscription starts from scratch; such a row is state shared by all subscriptions of one observable value.
  Core Lean only.
-/
namespace Ro

structure BuildRow where
  fn : String
  what : String
  scope : String
  file : String
  line : Nat
deriving Repr, DecidableEq

/-- hot by definition: `Share*` keeps one upstream subscription for all subscribers; its mutex (with `refCount`, a
    listed StateRow) lives in the application scope on purpose -/
def knownBuildRows : List (String × String) := [("ShareWithConfig", "var sync.Mutex")]

def buildRowOk (r : BuildRow) : Bool := knownBuildRows.contains (r.fn, r.what)

end Ro

/-
  RoProofs.Precision — the integers FloorWithPrecision / CeilWithPrecision are specified by: the greatest multiple of
  10^(-places) not above x, the least one not below x (x = m / 2^k); they differ by at most one step, and a value that is
  already a multiple is a fixed point of both.
-/
import RoModel.Ops.Precision
namespace Ro.Precision

theorem den_pos (m : Int) (k : Nat) (p : Int) : 0 < (scaled m k p).2 := by
  unfold scaled
  split
  · exact Int.pow_pos (by decide)
  · exact Int.mul_pos (Int.pow_pos (by decide)) (Int.pow_pos (by decide))

/-- floor: `n · den ≤ num < (n + 1) · den` — `n / 10^places` is the greatest multiple of the step that is `≤ x` -/
theorem floorN_spec (m : Int) (k : Nat) (p : Int) :
    floorN m k p * (scaled m k p).2 ≤ (scaled m k p).1 ∧ (scaled m k p).1 < (floorN m k p + 1) * (scaled m k p).2 := by
  have hd := den_pos m k p
  exact ⟨Int.ediv_mul_le _ (by omega), Int.lt_ediv_add_one_mul_self _ hd⟩

/-- ceiling: `(n - 1) · den < num ≤ n · den` — the least multiple of the step that is `≥ x` -/
theorem ceilN_spec (m : Int) (k : Nat) (p : Int) :
    (ceilN m k p - 1) * (scaled m k p).2 < (scaled m k p).1 ∧ (scaled m k p).1 ≤ ceilN m k p * (scaled m k p).2 := by
  have hd := den_pos m k p
  have h1 := Int.ediv_mul_le (-(scaled m k p).1) (show (scaled m k p).2 ≠ 0 by omega)
  have h2 := Int.lt_ediv_add_one_mul_self (-(scaled m k p).1) hd
  unfold ceilN
  generalize (-(scaled m k p).1) / (scaled m k p).2 = q at h1 h2 ⊢
  generalize (scaled m k p).2 = d at hd h1 h2 ⊢
  generalize (scaled m k p).1 = a at h1 h2 ⊢
  constructor
  · have e1 : (-q - 1) = -(q + 1) := by omega
    have : (-q - 1) * d = -((q + 1) * d) := by rw [e1, Int.neg_mul]
    rw [this]; omega
  · have : -q * d = -(q * d) := Int.neg_mul q d
    rw [this]; omega

/-- floor ≤ ceiling, and they are at most one step apart -/
theorem floor_le_ceil (m : Int) (k : Nat) (p : Int) : floorN m k p ≤ ceilN m k p ∧ ceilN m k p ≤ floorN m k p + 1 := by
  have hd := den_pos m k p
  obtain ⟨f1, f2⟩ := floorN_spec m k p
  obtain ⟨c1, c2⟩ := ceilN_spec m k p
  generalize floorN m k p = f at f1 f2 ⊢
  generalize ceilN m k p = c at c1 c2 ⊢
  generalize (scaled m k p).2 = d at hd f1 f2 c1 c2
  generalize (scaled m k p).1 = a at f1 f2 c1 c2
  constructor
  · -- f*d ≤ a ≤ c*d  ⇒  f ≤ c
    have h : f * d ≤ c * d := Int.le_trans f1 c2
    exact Int.le_of_mul_le_mul_right h hd
  · -- (c-1)*d < a < (f+1)*d ⇒ c - 1 < f + 1
    have h : (c - 1) * d < (f + 1) * d := Int.lt_trans c1 f2
    have := Int.lt_of_mul_lt_mul_right h (Int.le_of_lt hd)
    omega

/-- a value that is already a multiple of the step is a fixed point of both -/
theorem fixed_point (m : Int) (k : Nat) (p : Int) (n : Int) (h : (scaled m k p).1 = n * (scaled m k p).2) :
    floorN m k p = n ∧ ceilN m k p = n := by
  have hd := den_pos m k p
  have hne : (scaled m k p).2 ≠ 0 := by omega
  unfold floorN ceilN
  rw [h]
  constructor
  · exact Int.mul_ediv_cancel n hne
  · rw [← Int.neg_mul, Int.mul_ediv_cancel _ hne]; omega

-- the documented examples
example : floorN 1234 0 0 = 1234 := by decide
example : floorN 12345 2 (-1) = 308 := by decide        -- 3086.25 → 3080
example : ceilN 12345 2 (-1) = 309 := by decide         -- 3086.25 → 3090
example : floorN 5 2 1 = 12 ∧ ceilN 5 2 1 = 13 := by decide   -- 1.25 → 1.2 / 1.3
example : floorN (-5) 2 1 = -13 ∧ ceilN (-5) 2 1 = -12 := by decide
example : floorN 700 0 (-2) = 7 ∧ ceilN 700 0 (-2) = 7 := by decide

end Ro.Precision

/-
  RoProofs.MultiSample — SampleWhen / ThrottleWhen: machine = definition for every arrival order.
-/
import RoProofs.MultiUntil
namespace Ro.Multi
open Ro

variable {α : Type}

/-! ### SampleWhen -/

def SampleSt.ok (s : SampleSt α) : Prop :=
  s.comp.done = false ∧ 0 ∈ s.comp.members ∧ 1 ∈ s.comp.members ∧ (s.hasValue = true → s.last.isSome = true)

def sampleWhenStep (s : SampleSt α) (k : Nat) (n : Notif α) : SampleSt α × List (Notif α) :=
  match n with
  | .error c e => (s, [.error c e])
  | .complete c => (s, [.complete c])
  | .next c v =>
    if k = 0 then ({ s with last := some (c, v), hasValue := true }, [])
    else if s.hasValue then
      match s.last with
      | some (lc, lv) => ({ s with hasValue := false }, [.next lc lv])
      | none => ({ s with hasValue := false }, [])
    else (s, [])

theorem sampleWhen_emitOnly (cfg : Sources α) : EmitOnly (sampleWhenM (α := α)) cfg SampleSt.ok two sampleWhenStep where
  react := by
    intro rec r k n hk hI
    cases n with
    | error c e => simp [sampleWhenM, sampleWhenStep, phases, phase, emits, act]
    | complete c => simp [sampleWhenM, sampleWhenStep, phases, phase, emits, act]
    | next c v =>
      by_cases h0 : k = 0
      · simp [sampleWhenM, sampleWhenStep, phases, phase, emits, h0]
      · by_cases hv : r.st.hasValue = true
        · cases hl : r.st.last with
          | none => simp [sampleWhenM, sampleWhenStep, phases, phase, emits, h0, hv, hl]
          | some p => simp [sampleWhenM, sampleWhenStep, phases, phase, emits, h0, hv, hl, act]
        · have hv' : r.st.hasValue = false := by simpa using hv
          simp [sampleWhenM, sampleWhenStep, phases, phase, emits, h0, hv']
  inv := by
    intro s k n hk hI
    unfold sampleWhenStep
    cases n with
    | error c e => exact hI
    | complete c => exact hI
    | next c v =>
      simp only
      split
      · exact ⟨hI.1, hI.2.1, hI.2.2.1, fun _ => rfl⟩
      · split
        · split
          · exact ⟨hI.1, hI.2.1, hI.2.2.1, fun h => by simp at h⟩
          · exact ⟨hI.1, hI.2.1, hI.2.2.1, fun h => by simp at h⟩
        · exact hI
  teardown := by
    intro s k hI hk
    have : k = 0 ∨ k = 1 := by simp [two] at hk; omega
    simp only [sampleWhenM, Comp.unsubscribe, hI.1]
    cases this with
    | inl h => subst h; simpa using hI.2.1
    | inr h => subst h; simpa using hI.2.2.1

theorem sampleWhen_boot (cfg : Sources α) (hhot : ∀ k, cfg.sync k = false) (sub : Ctx) :
    Booted2 (bootSt (sampleWhenM (α := α)) cfg sub) ∧ (bootSt (sampleWhenM (α := α)) cfg sub).st.ok ∧
    (bootSt (sampleWhenM (α := α)) cfg sub).st.hasValue = false := by
  simp only [bootSt, phasesAt_depth, phases, phase, act, hhot, sampleWhenM, Comp.add, List.foldl_cons, List.foldl_nil]
  simp [SampleSt.ok]
  refine ⟨rfl, rfl, rfl, ?_, ?_, ?_⟩
  · intro k; simp only [setAt, two]; by_cases h1 : k = 1 <;> by_cases h0 : k = 0 <;> simp [h1, h0]; omega
  · intro k hk; simp only [setAt]; simp [two] at hk; split <;> simp; omega
  · intro k hk; simp only [setAt]; simp [two] at hk; rw [if_neg (by omega), if_neg (by omega)]

/-- the value the next tick would deliver -/
def SampleSt.pending (s : SampleSt α) : Option (Ctx × α) := if s.hasValue then s.last else none

theorem sampleWhen_emits (g : List (MEvent α)) (s : SampleSt α) :
    gate (emitsFrom sampleWhenStep s g) = Spec.sampleWhen s.pending g := by
  induction g generalizing s with
  | nil => simp [emitsFrom, Spec.sampleWhen]
  | cons e es ih =>
    obtain ⟨k, n⟩ := e
    cases n with
    | error c e => simp [emitsFrom, sampleWhenStep, Spec.sampleWhen, gate_cons_error]
    | complete c => simp [emitsFrom, sampleWhenStep, Spec.sampleWhen, gate_cons_complete]
    | next c v =>
      cases k with
      | zero => simp [emitsFrom, sampleWhenStep, Spec.sampleWhen, ih, SampleSt.pending]
      | succ k =>
        by_cases hv : s.hasValue = true
        · cases hl : s.last with
          | none => simp [emitsFrom, sampleWhenStep, hv, hl, Spec.sampleWhen, ih, SampleSt.pending]
          | some p =>
            obtain ⟨lc, lv⟩ := p
            simp [emitsFrom, sampleWhenStep, hv, hl, Spec.sampleWhen, ih, SampleSt.pending, gate_cons_next]
        · have hv' : s.hasValue = false := by simpa using hv
          simp [emitsFrom, sampleWhenStep, hv', Spec.sampleWhen, ih, SampleSt.pending]

/-- SampleWhen delivers what its definition assigns to the arrival order — every arrival order -/
theorem sampleWhen_spec (cfg : Sources α) (hhot : ∀ k, cfg.sync k = false) (sub : Ctx) (evs : List (MEvent α)) :
    (feedAll sampleWhenM cfg (bootSt sampleWhenM cfg sub) evs).out = Spec.sampleWhen none (heard2 evs) := by
  have hb := sampleWhen_boot cfg hhot sub
  rw [(emitOnly2_run (sampleWhen_emitOnly cfg) _ hb.1 hb.2.1 evs).1, sampleWhen_emits]
  simp [SampleSt.pending, hb.2.2]

/-! ### ThrottleWhen -/

def ThrottleSt.ok (s : ThrottleSt) : Prop := s.comp.done = false ∧ 0 ∈ s.comp.members ∧ 1 ∈ s.comp.members

def throttleWhenStep (s : ThrottleSt) (k : Nat) (n : Notif α) : ThrottleSt × List (Notif α) :=
  match n with
  | .error c e => (s, [.error c e])
  | .complete c => (s, [.complete c])
  | .next c v =>
    if k = 0 then (if s.send then ({ s with send := false }, [.next c v]) else (s, []))
    else ({ s with send := true }, [])

theorem throttleWhen_emitOnly (cfg : Sources α) : EmitOnly (throttleWhenM (α := α)) cfg ThrottleSt.ok two throttleWhenStep where
  react := by
    intro rec r k n hk hI
    cases n with
    | error c e => simp [throttleWhenM, throttleWhenStep, phases, phase, emits, act]
    | complete c => simp [throttleWhenM, throttleWhenStep, phases, phase, emits, act]
    | next c v =>
      by_cases h0 : k = 0
      · simp only [throttleWhenM, throttleWhenStep, phases, phase, emits, h0, if_true, List.foldl_cons, List.foldl_nil]
        split <;> simp [act]
      · simp [throttleWhenM, throttleWhenStep, phases, phase, emits, h0]
  inv := by
    intro s k n hk hI
    unfold throttleWhenStep
    cases n with
    | error c e => exact hI
    | complete c => exact hI
    | next c v =>
      simp only
      split
      · split <;> exact hI
      · exact hI
  teardown := by
    intro s k hI hk
    have : k = 0 ∨ k = 1 := by simp [two] at hk; omega
    simp only [throttleWhenM, Comp.unsubscribe, hI.1]
    cases this with
    | inl h => subst h; simpa using hI.2.1
    | inr h => subst h; simpa using hI.2.2

theorem throttleWhen_boot (cfg : Sources α) (hhot : ∀ k, cfg.sync k = false) (sub : Ctx) :
    Booted2 (bootSt (throttleWhenM (α := α)) cfg sub) ∧ (bootSt (throttleWhenM (α := α)) cfg sub).st.ok ∧
    (bootSt (throttleWhenM (α := α)) cfg sub).st.send = false := by
  simp only [bootSt, phasesAt_depth, phases, phase, act, hhot, throttleWhenM, Comp.add, List.foldl_cons, List.foldl_nil]
  simp [ThrottleSt.ok]
  refine ⟨rfl, rfl, rfl, ?_, ?_, ?_⟩
  · intro k; simp only [setAt, two]; by_cases h1 : k = 1 <;> by_cases h0 : k = 0 <;> simp [h1, h0]; omega
  · intro k hk; simp only [setAt]; simp [two] at hk; split <;> simp; omega
  · intro k hk; simp only [setAt]; simp [two] at hk; rw [if_neg (by omega), if_neg (by omega)]

theorem throttleWhen_emits (g : List (MEvent α)) (s : ThrottleSt) :
    gate (emitsFrom throttleWhenStep s g) = Spec.throttleWhen s.send g := by
  induction g generalizing s with
  | nil => simp [emitsFrom, Spec.throttleWhen]
  | cons e es ih =>
    obtain ⟨k, n⟩ := e
    cases n with
    | error c e => simp [emitsFrom, throttleWhenStep, Spec.throttleWhen, gate_cons_error]
    | complete c => simp [emitsFrom, throttleWhenStep, Spec.throttleWhen, gate_cons_complete]
    | next c v =>
      cases k with
      | zero =>
        by_cases hs : s.send = true
        · simp [emitsFrom, throttleWhenStep, hs, Spec.throttleWhen, ih, gate_cons_next]
        · have hs' : s.send = false := by simpa using hs
          simp [emitsFrom, throttleWhenStep, hs', Spec.throttleWhen, ih]
      | succ k => simp [emitsFrom, throttleWhenStep, Spec.throttleWhen, ih]

/-- ThrottleWhen delivers what its definition assigns to the arrival order — every arrival order -/
theorem throttleWhen_spec (cfg : Sources α) (hhot : ∀ k, cfg.sync k = false) (sub : Ctx) (evs : List (MEvent α)) :
    (feedAll throttleWhenM cfg (bootSt throttleWhenM cfg sub) evs).out = Spec.throttleWhen false (heard2 evs) := by
  have hb := throttleWhen_boot cfg hhot sub
  rw [(emitOnly2_run (throttleWhen_emitOnly cfg) _ hb.1 hb.2.1 evs).1, throttleWhen_emits, hb.2.2]

end Ro.Multi

/-
  RoProofs.ObsPartial — what the partial observers see (C01 at the observer end: values, at most one terminal, silence;
  C07: nothing reaches the hooks that should not).
-/
import RoModel.ObsPartial
import RoProofs.Gate
namespace Ro.ObsPartial
open Ro Ro.ObsNil

/-- a closed observer refuses everything: each later notification goes to the dropped hook, once, in order -/
theorem closed_run (fault : Nat → Option Err) (script : List (Notif Int)) (s : St) (hs : s.status ≠ 0) :
    script.foldl (step allCbs fault) s = { s with dropped := s.dropped ++ script } := by
  induction script generalizing s with
  | nil => simp
  | cons x xs ih =>
    have hb : (s.status != 0) = true := by simpa using hs
    have : step allCbs fault s x = { s with dropped := s.dropped ++ [x] } := by
      cases x <;> simp [step, allCbs, hb]
    rw [List.foldl_cons, this, ih _ (by simpa using hs)]
    simp [List.append_assoc]

/-- an open observer with three callbacks that do not panic: the callbacks see the gated script, the dropped hook sees
    the rest, the unhandled hook nothing -/
theorem open_run (script : List (Notif Int)) (s : St) (hs : s.status = 0) :
    (script.foldl (step allCbs noFault) s).trace = s.trace ++ gate script ∧
    (script.foldl (step allCbs noFault) s).dropped = s.dropped ++ gateDropped script ∧
    (script.foldl (step allCbs noFault) s).unhandled = s.unhandled := by
  induction script generalizing s with
  | nil => simp [gate, gateDropped]
  | cons x xs ih =>
    cases x with
    | next c v =>
      have hst : step allCbs noFault s (.next c v) = { s with calls := s.calls + 1, trace := s.trace ++ [.next c v] } := by
        simp [step, allCbs, hs, noFault]
      rw [List.foldl_cons, hst]
      obtain ⟨h1, h2, h3⟩ := ih { s with calls := s.calls + 1, trace := s.trace ++ [.next c v] } hs
      refine ⟨?_, ?_, ?_⟩
      · rw [h1]; simp [gate, List.append_assoc]
      · rw [h2]; simp [gateDropped]
      · rw [h3]
    | error c e =>
      have hst : step allCbs noFault s (.error c e) = { s with status := 1, trace := s.trace ++ [.error c e] } := by
        simp [step, allCbs, hs]
      rw [List.foldl_cons, hst, closed_run noFault xs _ (by simp)]
      simp [gate, gateDropped]
    | complete c =>
      have hst : step allCbs noFault s (.complete c) = { s with status := 2, trace := s.trace ++ [.complete c] } := by
        simp [step, allCbs, hs]
      rw [List.foldl_cons, hst, closed_run noFault xs _ (by simp)]
      simp [gate, gateDropped]

/-- what the user's callback of a partial observer sees: the notifications of its kind in the gated script -/
theorem seen_noFault (k : Ctor) (script : List (Notif Int)) :
    (run k noFault script).seen = (gate script).filter (sees k) := by
  have h := (open_run script {} rfl).1
  have hf : faultOf k noFault = noFault := by cases k <;> rfl
  simp only [run, hf, ObsNil.run]
  rw [h]; simp

/-- the dropped hook sees exactly what follows the first terminal — in particular NOT the terminal itself, although the
    partial observer has "no" callback for it: it is consumed by the empty callback -/
theorem dropped_noFault (k : Ctor) (script : List (Notif Int)) :
    (run k noFault script).dropped = gateDropped script := by
  have h := (open_run script {} rfl).2.1
  have hf : faultOf k noFault = noFault := by cases k <;> rfl
  simp only [run, hf, ObsNil.run]
  rw [h]; simp

/-- the unhandled-error hook stays silent whatever the one callback does (its panic goes to the empty error callback) -/
theorem unhandled_nil (k : Ctor) (fault : Nat → Option Err) (script : List (Notif Int)) :
    (run k fault script).unhandled = [] := by
  simp only [run, ObsNil.run]
  generalize faultOf k fault = f
  suffices h : ∀ s : St, s.unhandled = [] → (script.foldl (step allCbs f) s).unhandled = [] from h {} rfl
  induction script with
  | nil => intro s hs; simpa using hs
  | cons x xs ih =>
    intro s hs
    apply ih
    cases x with
    | next c v =>
      simp only [step, allCbs]
      split
      · exact hs
      · split <;> simp [hs]
    | error c e => simp only [step, allCbs]; by_cases h : s.status = 0 <;> simp [h, hs]
    | complete c => simp only [step, allCbs]; by_cases h : s.status = 0 <;> simp [h, hs]

/-- C01 at the observer end: what any partial observer's callback saw is a sub-sequence of a grammatical trace, hence
    values first, at most one terminal, nothing after it -/
theorem seen_grammar (k : Ctor) (script : List (Notif Int)) : Grammar (run k noFault script).seen := by
  rw [seen_noFault]
  have hg := gate_grammar script
  generalize gate script = g at hg
  induction g with
  | nil => simp [Grammar]
  | cons x xs ih =>
    unfold Grammar at hg
    by_cases ht : x.isTerminal = true
    · simp only [ht, if_true] at hg
      subst hg
      by_cases hx : sees k x = true <;> simp [List.filter, hx, Grammar, ht]
    · simp only [ht] at hg
      have hx' := ih hg
      by_cases hx : sees k x = true
      · simp only [List.filter, hx]
        unfold Grammar
        simp only [ht]
        exact hx'
      · simp only [Bool.not_eq_true] at hx
        simp only [List.filter, hx]
        exact hx'

end Ro.ObsPartial

namespace Ro.ObsPartial
open Ro Ro.ObsNil

/-- the values of a gated script that the value callback returns from normally: invocation `k` (counted from `k0`)
    panics iff `fault k` is some panic value -/
def pick (fault : Nat → Option Err) : Nat → List (Notif Int) → List (Notif Int)
  | _, [] => []
  | k, v :: vs => (if (fault k).isNone then [v] else []) ++ pick fault (k + 1) vs

def isNextB : Notif Int → Bool
  | .next _ _ => true
  | _ => false

theorem closed_trace (fault : Nat → Option Err) (script : List (Notif Int)) (s : St) (hs : s.status ≠ 0) :
    (script.foldl (step allCbs fault) s).trace = s.trace := by
  rw [closed_run fault script s hs]

/-- `OnNext` under ANY panic plan of its callback: the callback has returned normally from exactly the values of the gated
    script whose invocation did not panic, in order — a panic neither closes the observer nor loses a later value (the
    listed C01/C07 finding about `observerImpl`: the status is not flipped), and it is handed to the empty error callback -/
theorem seen_onNext_fault_aux (fault : Nat → Option Err) (script : List (Notif Int)) (s : St) (hs : s.status = 0) :
    (script.foldl (step allCbs fault) s).trace.filter (sees .onNext) =
      s.trace.filter (sees .onNext) ++ pick fault s.calls ((gate script).filter isNextB) := by
  induction script generalizing s with
  | nil => simp [gate, pick]
  | cons x xs ih =>
    cases x with
    | next c v =>
      cases hf : fault s.calls with
      | none =>
        have hst : step allCbs fault s (.next c v) = { s with calls := s.calls + 1, trace := s.trace ++ [.next c v] } := by
          simp [step, allCbs, hs, hf]
        rw [List.foldl_cons, hst, ih { s with calls := s.calls + 1, trace := s.trace ++ [.next c v] } hs]
        simp only [gate, Notif.isTerminal_next, Bool.false_eq_true, if_false, List.filter_append, List.append_assoc]
        have e1 : List.filter isNextB (Notif.next c v :: gate xs) = Notif.next c v :: List.filter isNextB (gate xs) := by
          simp [List.filter, isNextB]
        have e2 : List.filter (sees Ctor.onNext) [Notif.next c v] = [Notif.next c v] := by simp [List.filter, sees]
        rw [e1, e2]; simp [pick, hf]
      | some p =>
        have hst : step allCbs fault s (.next c v) = { s with calls := s.calls + 1, trace := s.trace ++ [.error c (.observer p)] } := by
          simp [step, allCbs, hs, hf]
        rw [List.foldl_cons, hst, ih { s with calls := s.calls + 1, trace := s.trace ++ [.error c (.observer p)] } hs]
        simp only [gate, Notif.isTerminal_next, Bool.false_eq_true, if_false, List.filter_append, List.append_assoc]
        have e1 : List.filter isNextB (Notif.next c v :: gate xs) = Notif.next c v :: List.filter isNextB (gate xs) := by
          simp [List.filter, isNextB]
        have e2 : List.filter (sees Ctor.onNext) [Notif.error c (Err.observer p)] = [] := by simp [List.filter, sees]
        rw [e1, e2]; simp [pick, hf]
    | error c e =>
      have hst : step allCbs fault s (.error c e) = { s with status := 1, trace := s.trace ++ [.error c e] } := by
        simp [step, allCbs, hs]
      rw [List.foldl_cons, hst, closed_trace fault xs _ (by simp)]
      simp [gate, isNextB, pick, sees, List.filter_append]
    | complete c =>
      have hst : step allCbs fault s (.complete c) = { s with status := 2, trace := s.trace ++ [.complete c] } := by
        simp [step, allCbs, hs]
      rw [List.foldl_cons, hst, closed_trace fault xs _ (by simp)]
      simp [gate, isNextB, pick, sees, List.filter_append]

theorem seen_onNext_fault (fault : Nat → Option Err) (script : List (Notif Int)) :
    (run .onNext fault script).seen = pick fault 0 ((gate script).filter isNextB) := by
  have h := seen_onNext_fault_aux fault script {} rfl
  simpa [run, faultOf, ObsNil.run] using h

end Ro.ObsPartial

namespace Ro.ObsPartial
open Ro Ro.ObsNil

/-- what the three callbacks of a full observer (`NewObserver`) see of a gated script under a panic plan of the value
    callback: a value whose invocation panics is replaced, in place, by the wrapped panic handed to the error callback -
    and the stream goes on (the status word is not flipped: the listed C01/C07 finding, stated exactly) -/
def pickFull (fault : Nat → Option Err) : Nat → List (Notif Int) → List (Notif Int)
  | _, [] => []
  | k, .next c v :: vs =>
    (match fault k with
     | none => Notif.next c v
     | some p => Notif.error c (.observer p)) :: pickFull fault (k + 1) vs
  | k, t :: vs => t :: pickFull fault k vs

theorem seen_full_fault_aux (fault : Nat → Option Err) (script : List (Notif Int)) (s : St) (hs : s.status = 0) :
    (script.foldl (step allCbs fault) s).trace = s.trace ++ pickFull fault s.calls (gate script) := by
  induction script generalizing s with
  | nil => simp [gate, pickFull]
  | cons x xs ih =>
    cases x with
    | next c v =>
      cases hf : fault s.calls with
      | none =>
        have hst : step allCbs fault s (.next c v) = { s with calls := s.calls + 1, trace := s.trace ++ [.next c v] } := by
          simp [step, allCbs, hs, hf]
        rw [List.foldl_cons, hst, ih { s with calls := s.calls + 1, trace := s.trace ++ [.next c v] } hs]
        simp [gate, pickFull, hf, List.append_assoc]
      | some p =>
        have hst : step allCbs fault s (.next c v) = { s with calls := s.calls + 1, trace := s.trace ++ [.error c (.observer p)] } := by
          simp [step, allCbs, hs, hf]
        rw [List.foldl_cons, hst, ih { s with calls := s.calls + 1, trace := s.trace ++ [.error c (.observer p)] } hs]
        simp [gate, pickFull, hf, List.append_assoc]
    | error c e =>
      have hst : step allCbs fault s (.error c e) = { s with status := 1, trace := s.trace ++ [.error c e] } := by
        simp [step, allCbs, hs]
      rw [List.foldl_cons, hst, closed_trace fault xs _ (by simp)]
      simp [gate, pickFull]
    | complete c =>
      have hst : step allCbs fault s (.complete c) = { s with status := 2, trace := s.trace ++ [.complete c] } := by
        simp [step, allCbs, hs]
      rw [List.foldl_cons, hst, closed_trace fault xs _ (by simp)]
      simp [gate, pickFull]

theorem seen_full_fault (fault : Nat → Option Err) (script : List (Notif Int)) :
    (run .full fault script).seen = pickFull fault 0 (gate script) := by
  have h := seen_full_fault_aux fault script {} rfl
  have hs : ∀ l : List (Notif Int), l.filter (sees .full) = l := by
    intro l; induction l with
    | nil => rfl
    | cons a t ih => cases a <;> simp [List.filter, sees, ih]
  simp only [run, faultOf, ObsNil.run, hs]
  simpa using h

end Ro.ObsPartial

/-
  RoProofs.Subjects — the subjects' step functions (RoModel/Subjects.lean): what the primitives do
  (subscriber gate, teardown, broadcast, replay), the state invariant, and the gate theorem
  (every subscriber's received trace obeys the observable grammar — C01(c)), for all five kinds
  and every operation sequence.
-/
import RoModel.Spec.Subjects
import RoProofs.Gate
namespace Ro.Subj
open Ro

variable {α : Type}

theorem State.ext' {s t : State α} (h1 : s.status = t.status) (h2 : s.values = t.values)
    (h3 : s.observers = t.observers) (h4 : s.sub = t.sub) (h5 : s.drops = t.drops) : s = t := by
  cases s; cases t; simp_all

/-! ### field lemmas -/

@[simp] theorem modSub_sub (s : State α) (i j : Nat) (f : Sub α → Sub α) :
    (s.modSub i f).sub j = if j = i then f (s.sub j) else s.sub j := rfl
@[simp] theorem modSub_status (s : State α) (i : Nat) (f) : (s.modSub i f).status = s.status := rfl
@[simp] theorem modSub_values (s : State α) (i : Nat) (f) : (s.modSub i f).values = s.values := rfl
@[simp] theorem modSub_observers (s : State α) (i : Nat) (f) : (s.modSub i f).observers = s.observers := rfl
@[simp] theorem modSub_drops (s : State α) (i : Nat) (f) : (s.modSub i f).drops = s.drops := rfl
@[simp] theorem drop_sub (s : State α) (n) : (s.drop n).sub = s.sub := rfl
@[simp] theorem drop_status (s : State α) (n) : (s.drop n).status = s.status := rfl
@[simp] theorem drop_values (s : State α) (n) : (s.drop n).values = s.values := rfl
@[simp] theorem drop_observers (s : State α) (n) : (s.drop n).observers = s.observers := rfl

theorem termCode_ne_zero (n : Notif α) : termCode n ≠ 0 := by cases n <;> simp [termCode]

/-! ### the gate: every subscriber's trace obeys the grammar, whatever happens -/

/-- open subscriber: only values so far; closed subscriber: a grammatical trace -/
def Sub.ok (x : Sub α) : Prop :=
  if x.status = 0 then hasTerm x.got = false else Grammar x.got

def AllOk (s : State α) : Prop := ∀ j, (s.sub j).ok

theorem grammar_of_noTerm (l : List (Notif α)) (h : hasTerm l = false) : Grammar l := by
  have := gate_grammar l
  rwa [gate_of_noTerm l h] at this

theorem grammar_snoc (l : List (Notif α)) (n : Notif α) (h : hasTerm l = false) : Grammar (l ++ [n]) := by
  have := gate_grammar (l ++ [n])
  rw [gate_append_of_noTerm l [n] h] at this
  have h2 : gate [n] = [n] := by
    unfold gate; cases n.isTerminal <;> simp [gate]
  rwa [h2] at this

theorem hasTerm_snoc_next (l : List (Notif α)) (c : Ctx) (v : α) : hasTerm (l ++ [.next c v]) = hasTerm l := by
  simp [hasTerm]

theorem Sub.ok.grammar {x : Sub α} (h : x.ok) : Grammar x.got := by
  unfold Sub.ok at h
  split at h
  · exact grammar_of_noTerm _ h
  · exact h

theorem ok_default : (({} : Sub α)).ok := by simp [Sub.ok, hasTerm]
theorem ok_fresh : (({ used := true } : Sub α)).ok := by simp [Sub.ok, hasTerm]

theorem allOk_modSub {s : State α} (h : AllOk s) (i : Nat) (f : Sub α → Sub α) (hf : (f (s.sub i)).ok) :
    AllOk (s.modSub i f) := by
  intro j
  by_cases hj : j = i
  · subst hj; simpa using hf
  · simpa [hj] using h j

theorem allOk_of_sub_eq {s t : State α} (h : AllOk s) (e : t.sub = s.sub) : AllOk t := by
  intro j; rw [e]; exact h j

theorem allOk_subNext {s : State α} (h : AllOk s) (i : Nat) (c : Ctx) (v : α) : AllOk (subNext s i c v) := by
  unfold subNext
  split
  · rename_i h0
    apply allOk_modSub h
    have := h i
    simp only [Sub.ok, h0, if_true] at this ⊢
    rw [hasTerm_snoc_next]; exact this
  · exact allOk_of_sub_eq h rfl

theorem allOk_runTeardown {s : State α} (h : AllOk s) (m : TD) (i : Nat) : AllOk (runTeardown m s i) := by
  unfold runTeardown
  split
  · cases m <;>
    · intro j
      have := h j
      by_cases hj : j = i <;> simp [hj, Sub.ok] at this ⊢ <;> exact this
  · exact h

theorem allOk_subTerminal {s : State α} (h : AllOk s) (m : TD) (i : Nat) (n : Notif α) :
    AllOk (subTerminal m s i n) := by
  unfold subTerminal
  apply allOk_runTeardown
  split
  · rename_i h0
    apply allOk_modSub h
    have := h i
    simp only [Sub.ok, h0, if_true] at this
    simp only [Sub.ok, termCode_ne_zero, if_false]
    exact grammar_snoc _ _ this
  · exact allOk_of_sub_eq h rfl

theorem allOk_subUnsubscribe {s : State α} (h : AllOk s) (m : TD) (i : Nat) : AllOk (subUnsubscribe m s i) := by
  unfold subUnsubscribe
  split
  · rename_i h0
    apply allOk_runTeardown
    apply allOk_modSub h
    have := h i
    simp only [Sub.ok, h0, if_true] at this
    simp only [Sub.ok]
    exact grammar_of_noTerm _ this
  · exact h

theorem allOk_fresh {s : State α} (h : AllOk s) (i : Nat) : AllOk (fresh s i) :=
  allOk_modSub h i _ ok_fresh

theorem allOk_register {s : State α} (h : AllOk s) (i : Nat) : AllOk (register s i) := by
  intro j
  have := h j
  by_cases hj : j = i <;> simp [register, hj, Sub.ok] at this ⊢ <;> exact this

theorem allOk_foldl {β : Type} (f : State α → β → State α) (hf : ∀ s b, AllOk s → AllOk (f s b)) :
    ∀ (l : List β) (s : State α), AllOk s → AllOk (l.foldl f s)
  | [], _, h => h
  | b :: l, s, h => allOk_foldl f hf l (f s b) (hf s b h)

theorem allOk_broadcastNext {s : State α} (h : AllOk s) (c : Ctx) (v : α) : AllOk (broadcastNext s c v) :=
  allOk_foldl _ (fun _ i hs => allOk_subNext hs i c v) _ _ h

theorem allOk_broadcastTerminal {s : State α} (h : AllOk s) (n : Notif α) : AllOk (broadcastTerminal s n) :=
  allOk_foldl _ (fun _ i hs => allOk_subTerminal hs .delete i n) _ _ h

theorem allOk_replayTo {s : State α} (h : AllOk s) (i : Nat) (vs : List (Ctx × α)) : AllOk (replayTo s i vs) :=
  allOk_foldl _ (fun _ p hs => allOk_subNext hs i p.1 p.2) _ _ h

theorem allOk_push {s : State α} (h : AllOk s) (cap : Option Nat) (c : Ctx) (v : α) : AllOk (push cap s c v) := by
  unfold push
  cases cap with
  | none => exact allOk_of_sub_eq h rfl
  | some n => dsimp only; split <;> exact allOk_of_sub_eq h rfl

theorem allOk_status {s : State α} (h : AllOk s) (st : Status) : AllOk { s with status := st } :=
  allOk_of_sub_eq h rfl

theorem allOk_unsubscribeAll {s : State α} (h : AllOk s) : AllOk (unsubscribeAll s) := allOk_of_sub_eq h rfl

theorem allOk_drop {s : State α} (h : AllOk s) (n : Notif α) : AllOk (s.drop n) := allOk_of_sub_eq h rfl

/-- the terminal broadcast shared by publish / behavior / replay / async -/
theorem allOk_terminalOp {s : State α} (h : AllOk s) (st : Status) (n : Notif α) :
    AllOk (unsubscribeAll (match s.status with
      | .active => broadcastTerminal { s with status := st } n
      | _ => s.drop n)) := by
  apply allOk_unsubscribeAll
  split
  · exact allOk_broadcastTerminal (allOk_status h _) _
  · exact allOk_drop h _

theorem allOk_publishStep {s : State α} (h : AllOk s) (o : Op α) : AllOk (publishStep s o) := by
  cases o with
  | subscribe i c =>
    simp only [publishStep]
    split
    · exact h
    · split
      · exact allOk_subTerminal (allOk_fresh h i) _ _ _
      · exact allOk_subTerminal (allOk_fresh h i) _ _ _
      · exact allOk_register (allOk_fresh h i) _
  | next c v =>
    simp only [publishStep]
    split
    · exact allOk_broadcastNext h c v
    · exact allOk_drop h _
  | error c e => exact allOk_terminalOp h _ _
  | complete c => exact allOk_terminalOp h _ _
  | unsubscribe i =>
    simp only [publishStep]
    split
    · exact allOk_subUnsubscribe h _ _
    · exact h

theorem allOk_behaviorStep {s : State α} (h : AllOk s) (o : Op α) : AllOk (behaviorStep s o) := by
  cases o with
  | subscribe i c =>
    simp only [behaviorStep]
    split
    · exact h
    · split
      · exact allOk_subTerminal (allOk_fresh h i) _ _ _
      · exact allOk_subTerminal (allOk_fresh h i) _ _ _
      · exact allOk_register (allOk_replayTo (allOk_fresh h i) _ _) _
  | next c v =>
    simp only [behaviorStep]
    split
    · apply allOk_broadcastNext; exact allOk_of_sub_eq h rfl
    · exact allOk_drop h _
  | error c e => exact allOk_terminalOp h _ _
  | complete c => exact allOk_terminalOp h _ _
  | unsubscribe i =>
    simp only [behaviorStep]
    split
    · exact allOk_subUnsubscribe h _ _
    · exact h

theorem allOk_replayStep (cap : Option Nat) {s : State α} (h : AllOk s) (o : Op α) : AllOk (replayStep cap s o) := by
  cases o with
  | subscribe i c =>
    simp only [replayStep]
    split
    · exact h
    · split
      · exact allOk_subTerminal (allOk_replayTo (allOk_fresh h i) _ _) _ _ _
      · exact allOk_subTerminal (allOk_replayTo (allOk_fresh h i) _ _) _ _ _
      · exact allOk_register (allOk_replayTo (allOk_fresh h i) _ _) _
  | next c v =>
    simp only [replayStep]
    split
    · exact allOk_push (allOk_broadcastNext h c v) _ _ _
    · exact allOk_drop h _
  | error c e => exact allOk_terminalOp h _ _
  | complete c => exact allOk_terminalOp h _ _
  | unsubscribe i =>
    simp only [replayStep]
    split
    · exact allOk_subUnsubscribe h _ _
    · exact h

theorem allOk_asyncStep {s : State α} (h : AllOk s) (o : Op α) : AllOk (asyncStep s o) := by
  cases o with
  | subscribe i c =>
    simp only [asyncStep]
    split
    · exact h
    · split
      · exact allOk_subTerminal (allOk_fresh h i) _ _ _
      · exact allOk_subTerminal (allOk_replayTo (allOk_fresh h i) _ _) _ _ _
      · exact allOk_register (allOk_fresh h i) _
  | next c v =>
    simp only [asyncStep]
    split
    · exact allOk_of_sub_eq h rfl
    · exact allOk_drop h _
  | error c e => exact allOk_terminalOp h _ _
  | complete c =>
    simp only [asyncStep]
    apply allOk_unsubscribeAll
    split
    · apply allOk_broadcastTerminal
      exact allOk_foldl _ (fun _ p hs => allOk_broadcastNext hs p.1 p.2) _ _ (allOk_status h _)
    · exact allOk_drop h _
  | unsubscribe i =>
    simp only [asyncStep]
    split
    · exact allOk_subUnsubscribe h _ _
    · exact h

theorem allOk_unicastStep (cap : Option Nat) {s : State α} (h : AllOk s) (o : Op α) : AllOk (unicastStep cap s o) := by
  cases o with
  | subscribe i c =>
    simp only [unicastStep]
    split
    · exact h
    · split
      · exact allOk_subTerminal (allOk_fresh h i) _ _ _
      · exact allOk_subTerminal (allOk_fresh h i) _ _ _
      · split
        · exact allOk_subTerminal (allOk_fresh h i) _ _ _
        · have h1 := allOk_replayTo (allOk_fresh h i) i s.values
          intro j
          have := h1 j
          by_cases hj : j = i <;> simp [hj, Sub.ok] at this ⊢ <;> exact this
  | next c v =>
    simp only [unicastStep]
    split
    · split
      · exact allOk_subNext h _ _ _
      · exact allOk_push h _ _ _
    · exact allOk_drop h _
  | error c e =>
    simp only [unicastStep]
    split
    · split
      · apply allOk_subTerminal; exact allOk_of_sub_eq h rfl
      · exact allOk_of_sub_eq h rfl
    · exact allOk_drop h _
  | complete c =>
    simp only [unicastStep]
    split
    · split
      · apply allOk_subTerminal; exact allOk_of_sub_eq h rfl
      · exact allOk_of_sub_eq h rfl
    · exact allOk_drop h _
  | unsubscribe i =>
    simp only [unicastStep]
    split
    · exact allOk_subUnsubscribe h _ _
    · exact h

theorem allOk_step (k : Kind α) {s : State α} (h : AllOk s) (o : Op α) : AllOk (k.step s o) := by
  cases k with
  | publish => exact allOk_publishStep h o
  | behavior init => exact allOk_behaviorStep h o
  | replay cap => exact allOk_replayStep cap h o
  | async => exact allOk_asyncStep h o
  | unicast cap => exact allOk_unicastStep cap h o

theorem allOk_init (k : Kind α) : AllOk k.init := by
  intro j; cases k <;> exact ok_default

theorem allOk_runFrom (k : Kind α) : ∀ (ops : List (Op α)) (s : State α), AllOk s → AllOk (runFrom k s ops)
  | [], _, h => h
  | o :: ops, s, h => allOk_runFrom k ops (k.step s o) (allOk_step k h o)

/-- **C01(c) for subjects**: for every kind, every buffer size, every operation sequence, every
    subscriber: the received trace is values, then at most one terminal, then nothing. -/
theorem subscriber_grammar (k : Kind α) (ops : List (Op α)) (i : Nat) : Grammar ((run k ops).sub i).got :=
  (allOk_runFrom k ops k.init (allOk_init k) i).grammar

/-- a subscriber that is still open has received no terminal; one that got a terminal (or
    unsubscribed) is closed and receives nothing more (next theorem) -/
theorem open_subscriber_no_terminal (k : Kind α) (ops : List (Op α)) (i : Nat)
    (h : ((run k ops).sub i).status = 0) : hasTerm ((run k ops).sub i).got = false := by
  have := allOk_runFrom k ops k.init (allOk_init k) i
  unfold run at h ⊢
  simpa [Sub.ok, h] using this

end Ro.Subj

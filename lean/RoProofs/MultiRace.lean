/-
  RoProofs.MultiRace — RaceWith / Race / Amb: for every arrival order over hot sources the output mirrors
  the first source to notify; the losers are released at the winner's first notification, everything is
  released at the winner's terminal or at an external Unsubscribe.
-/
import RoProofs.MultiCore
namespace Ro.Multi
open Ro

variable {α : Type}

def below (n : Nat) (k : Nat) : Bool := decide (k < n)

theorem mem_others (n j k : Nat) :
    j ∈ (List.range n).filter (fun i => (Int.ofNat i) != Int.ofNat k) ↔ (j < n ∧ j ≠ k) := by
  simp [List.mem_filter]
  intro _; omega

theorem raceM_teardown (n : Nat) (s : RaceSt) : (raceM (α := α) n).teardown s = (s, s.stored) := rfl

theorem foldl_act_unsub (m : MMachine RaceSt α α) (cfg : Sources α) (rec) (l : List Nat) (r : MSt RaceSt α α) :
    (l.map Act.unsub).foldl (act m cfg rec) r = l.foldl MSt.closeSrc r := by
  induction l generalizing r with
  | nil => rfl
  | cons k ks ih => simp [act, ih]

theorem ofNat_ne_neg1 (j : Nat) : (Int.ofNat j = -1) = False := by
  simp

/-- the reaction of the race callbacks once `w` has won (or wins now) -/
theorem race_react_winner (n : Nat) (cfg : Sources α) (rec) (r : MSt RaceSt α α) (w : Nat) (x : Notif α)
    (hw : r.st.won = -1 ∨ r.st.won = Int.ofNat w) :
    phases (raceM n) cfg rec ((raceM n).react w x) r =
      ((r.st.stored.filter (fun i => (Int.ofNat i) != Int.ofNat w)).foldl MSt.closeSrc
        (MSt.emit (raceM n) { r with st := { r.st with won := Int.ofNat w } } x)) := by
  have hs : (if r.st.won = -1 then { r.st with won := Int.ofNat w } else r.st) = { r.st with won := Int.ofNat w } := by
    cases hw with
    | inl h => simp [h]
    | inr h => rw [if_neg (by rw [h]; simp)]; cases hst : r.st; simp_all
  simp only [raceM, phases, phase, raceReact, List.foldl_cons, List.foldl_nil, hs, if_true, List.cons_append, List.nil_append, act]
  exact foldl_act_unsub _ cfg rec _ _

/-! ### the subscribe loop over hot sources -/

structure RaceBoot (j : Nat) (r : MSt RaceSt α α) : Prop where
  won : r.st.won = -1
  stored : r.st.stored = List.range j
  pending : r.st.pending = none
  down : r.downOpen = true
  booted : r.booted = false
  out : r.out = []
  sopen : ∀ k, r.sopen k = below j k
  subs : ∀ k, r.subs k = if k < j then 1 else 0

def raceBody (sub : Ctx) (j : Nat) : List (Phase RaceSt α) := [
    (fun s => if s.won != -1 then ({ s with pending := none }, []) else ({ s with pending := some j }, [.sub j sub])),
    (fun s => if s.pending = some j then
        (if s.won = -1 then ({ s with stored := s.stored ++ [j], pending := none }, [])
         else if s.won != Int.ofNat j then ({ s with pending := none }, [.unsub j])
         else ({ s with pending := none }, []))
      else (s, [])) ]

theorem race_boot_loop (m : MMachine RaceSt α α) (cfg : Sources α) (hhot : ∀ k, cfg.sync k = false) (rec) (sub : Ctx)
    (j : Nat) (r : MSt RaceSt α α) (h0 : RaceBoot 0 r) :
    RaceBoot j (phases m cfg rec ((List.range j).flatMap (raceBody sub)) r) := by
  induction j with
  | zero => simpa [phases] using h0
  | succ j ih =>
    rw [List.range_succ, List.flatMap_append]
    simp only [phases, List.foldl_append] at ih ⊢
    generalize List.foldl (phase m cfg rec) r ((List.range j).flatMap (raceBody sub)) = r1 at ih ⊢
    simp only [List.flatMap_cons, List.flatMap_nil, List.append_nil, raceBody, List.foldl_cons, List.foldl_nil, phase,
      ih.won, ih.stored, act, hhot, Bool.false_eq_true, if_false, bne_self_eq_false, if_true]
    refine ⟨rfl, ?_, rfl, ih.down, ih.booted, ih.out, ?_, ?_⟩
    · simp [List.range_succ]
    · intro k; simp only [setAt, below, ih.sopen k]
      by_cases hk : k = j
      · simp [hk]
      · simp [hk]; omega
    · intro k; simp only [setAt, ih.subs]
      by_cases hk : k = j
      · simp [hk]
      · simp [hk]; split <;> split <;> first | rfl | omega

/-- state after `Subscribe` returned and before any notification: nobody has won -/
structure Race0 (n : Nat) (r : MSt RaceSt α α) : Prop where
  won : r.st.won = -1
  stored : r.st.stored = List.range n
  down : r.downOpen = true
  booted : r.booted = true
  sopen : ∀ k, r.sopen k = below n k
  subs : ∀ k, r.subs k ≠ 0 ↔ k < n

theorem race_boot (n : Nat) (cfg : Sources α) (hhot : ∀ k, cfg.sync k = false) (sub : Ctx) :
    Race0 n (bootSt (raceM (α := α) n) cfg sub) ∧ (bootSt (raceM (α := α) n) cfg sub).out = [] := by
  have h0 : RaceBoot 0 ({ st := (raceM (α := α) n).init } : MSt RaceSt α α) :=
    ⟨rfl, rfl, rfl, rfl, rfl, rfl, fun k => by simp [below], fun k => by simp⟩
  have h := race_boot_loop (raceM (α := α) n) cfg hhot (phasesAt (raceM n) cfg cfg.n) sub n _ h0
  have hb : (raceM (α := α) n).boot sub = (List.range n).flatMap (raceBody sub) := rfl
  unfold bootSt
  simp only [phasesAt_depth, hb]
  rw [if_pos h.down]
  refine ⟨⟨h.won, h.stored, h.down, rfl, h.sopen, ?_⟩, h.out⟩
  intro k; simp only [h.subs k]; split <;> simp_all

/-! ### once `w` has won -/

structure RaceAfter (w : Nat) (r f : MSt RaceSt α α) : Prop where
  subs : f.subs = r.subs
  stored : f.st.stored = r.st.stored
  booted : f.booted = true
  mono : ∀ j, r.sopen j = false → f.sopen j = false
  wclosed : f.downOpen = false → f.sopen w = false

theorem closeAll_mono (ks : List Nat) (r : MSt RaceSt α α) (j : Nat) (h : r.sopen j = false) :
    (ks.foldl MSt.closeSrc r).sopen j = false := by
  rw [closeAll_sopen]; simp [h]

theorem race_won (n : Nat) (cfg : Sources α) (w : Nat) (evs : List (MEvent α)) (r : MSt RaceSt α α)
    (hw : r.st.won = Int.ofNat w) (hd : r.downOpen = true) (hb : r.booted = true) (ho : r.sopen w = true)
    (hs : r.subs w ≠ 0) (hl : ∀ j, j ≠ w → r.subs j = 0 ∨ r.sopen j = false) :
    (feedAll (raceM n) cfg r evs).out = r.out ++ gate (Spec.ofSource w evs) ∧
    RaceAfter w r (feedAll (raceM n) cfg r evs) := by
  induction evs generalizing r with
  | nil => exact ⟨by simp [feedAll, Spec.ofSource], ⟨rfl, rfl, hb, fun _ h => h, fun h => by simp [feedAll, hd] at h⟩⟩
  | cons e es ih =>
    obtain ⟨k, x⟩ := e
    by_cases hk : k = w
    · subst hk
      have hof : Spec.ofSource k ((k, x) :: es) = x :: Spec.ofSource k es := by simp [Spec.ofSource]
      rw [hof]
      have hfeed : feed (raceM n) cfg r (k, x) =
          ((r.st.stored.filter (fun i => (Int.ofNat i) != Int.ofNat k)).foldl MSt.closeSrc
            (MSt.emit (raceM n) { (if x.isTerminal then r.closeSrc k else r) with st := { r.st with won := Int.ofNat k } } x)) := by
        simp only [feed, hs, if_false, deliver, ho, if_true, phasesAt_depth]
        rw [race_react_winner n cfg _ _ k x (Or.inr (by split <;> simpa using hw))]
        split <;> rfl
      have hnotin : k ∉ r.st.stored.filter (fun i => (Int.ofNat i) != Int.ofNat k) := by simp
      by_cases hx : x.isTerminal = true
      · -- the winner's terminal: forwarded, everything is over
        simp only [hx, if_true] at hfeed
        have he := emit_open_term (raceM n) { (r.closeSrc k) with st := { r.st with won := Int.ofNat k } } x hd hx hb
        have hfd : (feed (raceM n) cfg r (k, x)).downOpen = false := by
          rw [hfeed, (closeAll_fields _ _).2.1, he]; simp
        have hfo : (feed (raceM n) cfg r (k, x)).out = r.out ++ [x] := by
          rw [hfeed, (closeAll_fields _ _).1, he]; simp
        have hfs : (feed (raceM n) cfg r (k, x)).subs = r.subs := by
          rw [hfeed, (closeAll_fields _ _).2.2.2.1, he]; simp
        have hfst : (feed (raceM n) cfg r (k, x)).st.stored = r.st.stored := by
          rw [hfeed, (closeAll_fields _ _).2.2.2.2.1, he]; simp [raceM]
        have hfb : (feed (raceM n) cfg r (k, x)).booted = true := by
          rw [hfeed, (closeAll_fields _ _).2.2.1, he]; simpa using hb
        have hfm : ∀ j, (r.sopen j = false ∨ j = k) → (feed (raceM n) cfg r (k, x)).sopen j = false := by
          intro j hj
          rw [hfeed]; apply closeAll_mono
          rw [he, runTeardown_sopen]
          split
          · rfl
          · simp only [closeSrc_sopen]
            cases hj with
            | inl h => simp [h]
            | inr h => simp [h]
        have hall : ∀ j, (feed (raceM n) cfg r (k, x)).subs j = 0 ∨ (feed (raceM n) cfg r (k, x)).sopen j = false := by
          intro j
          by_cases hj : j = k
          · right; exact hfm j (Or.inr hj)
          · cases hl j hj with
            | inl h => left; rw [hfs]; exact h
            | inr h => right; exact hfm j (Or.inl h)
        have hac := feedAll_allClosed (raceM n) cfg es _ hall
        have hfz := feedAll_frozen (raceM n) cfg es _ hfd
        have hst : (feedAll (raceM n) cfg (feed (raceM n) cfg r (k, x)) es).st.stored = r.st.stored := by
          rw [feedAll_allClosed_st (raceM n) cfg es _ hall, hfst]
        have hbt : (feedAll (raceM n) cfg (feed (raceM n) cfg r (k, x)) es).booted = true :=
          feedAll_preserves cfg (booted_preserved (raceM n)) es _ hfb
        simp only [feedAll, List.foldl_cons] at hac hfz hst hbt ⊢
        refine ⟨?_, ⟨?_, ?_, hbt, ?_, ?_⟩⟩
        · rw [hfz.2, hfo]; simp [gate, hx]
        · rw [hac.2.1, hfs]
        · exact hst
        · intro j hj; rw [hac.1]; exact hfm j (Or.inl hj)
        · intro _; rw [hac.1]; exact hfm k (Or.inr rfl)
      · -- a value of the winner: forwarded; the losers are unsubscribed (again)
        have hx' : x.isTerminal = false := by simpa using hx
        simp only [hx', Bool.false_eq_true, if_false] at hfeed
        have he := emit_open_next (raceM n) { r with st := { r.st with won := Int.ofNat k } } x hd hx'
        rw [he] at hfeed
        have hcf := closeAll_fields (r.st.stored.filter (fun i => (Int.ofNat i) != Int.ofNat k))
          ({ r with st := { r.st with won := Int.ofNat k }, out := r.out ++ [x] } : MSt RaceSt α α)
        have hcs := closeAll_sopen (r.st.stored.filter (fun i => (Int.ofNat i) != Int.ofNat k))
          ({ r with st := { r.st with won := Int.ofNat k }, out := r.out ++ [x] } : MSt RaceSt α α)
        have := ih (feed (raceM n) cfg r (k, x))
          (by rw [hfeed, hcf.2.2.2.2.1])
          (by rw [hfeed, hcf.2.1]; exact hd)
          (by rw [hfeed, hcf.2.2.1]; exact hb)
          (by rw [hfeed, hcs k]; simp [ho])
          (by rw [hfeed, hcf.2.2.2.1]; exact hs)
          (by intro j hj
              rw [hfeed, hcf.2.2.2.1, hcs j]
              cases hl j hj with
              | inl h => left; exact h
              | inr h => right; simp [h])
        simp only [feedAll, List.foldl_cons] at this ⊢
        refine ⟨?_, ⟨?_, ?_, this.2.booted, ?_, this.2.wclosed⟩⟩
        · rw [this.1, hfeed, hcf.1, show gate (x :: Spec.ofSource k es) = x :: gate (Spec.ofSource k es) by simp [gate, hx']]
          simp
        · rw [this.2.subs, hfeed, hcf.2.2.2.1]
        · rw [this.2.stored, hfeed, hcf.2.2.2.2.1]
        · intro j hj; apply this.2.mono; rw [hfeed, hcs j]; simp [hj]
    · -- a loser: never subscribed, or already unsubscribed
      have hof : Spec.ofSource w ((k, x) :: es) = Spec.ofSource w es := by
        simp [Spec.ofSource, hk]
      rw [hof]
      by_cases h0 : r.subs k = 0
      · have hf : feed (raceM n) cfg r (k, x) = r := by simp [feed, h0]
        have := ih r hw hd hb ho hs hl
        simp only [feedAll, List.foldl_cons, hf] at this ⊢
        exact this
      · have hop : r.sopen k = false := by
          cases hl k hk with
          | inl h => exact absurd h h0
          | inr h => exact h
        have hf : feed (raceM n) cfg r (k, x) = { r with drops := r.drops ++ [.up k x] } := by
          simp [feed, h0, deliver, hop]
        have := ih ({ r with drops := r.drops ++ [.up k x] }) hw hd hb ho hs hl
        simp only [feedAll, List.foldl_cons, hf] at this ⊢
        exact ⟨this.1, ⟨this.2.subs, this.2.stored, this.2.booted, this.2.mono, this.2.wclosed⟩⟩

/-! ### from the start -/

theorem ofSource_restrict (n k : Nat) (hk : k < n) (evs : List (MEvent α)) :
    Spec.ofSource k (Spec.restrict (below n) evs) = Spec.ofSource k evs := by
  induction evs with
  | nil => rfl
  | cons e es ih =>
    by_cases he : e.1 < n
    · have : Spec.restrict (below n) (e :: es) = e :: Spec.restrict (below n) es := by simp [Spec.restrict, below, he]
      rw [this]
      simp only [Spec.ofSource, List.filter_cons] at ih ⊢
      split <;> simp [ih]
    · have : Spec.restrict (below n) (e :: es) = Spec.restrict (below n) es := by simp [Spec.restrict, below, he]
      rw [this, ih]
      have hne : (e.1 == k) = false := by simp; omega
      simp [Spec.ofSource, hne]

/-- what is known about the sources after any arrival order -/
structure RaceEnd (n : Nat) (evs : List (MEvent α)) (f : MSt RaceSt α α) : Prop where
  stored : f.st.stored = List.range n
  booted : f.booted = true
  subs : ∀ k, f.subs k ≠ 0 ↔ k < n
  /-- the output has ended ⇒ every source is released -/
  closed : f.downOpen = false → ∀ j, j < n → f.sopen j = false
  /-- somebody has notified ⇒ every other source is released -/
  losers : ∀ w x rest, Spec.restrict (below n) evs = (w, x) :: rest → ∀ j, j < n → j ≠ w → f.sopen j = false

theorem race_run (n : Nat) (cfg : Sources α) (evs : List (MEvent α)) (r : MSt RaceSt α α) (h : Race0 n r) :
    (feedAll (raceM n) cfg r evs).out = r.out ++ Spec.race (Spec.restrict (below n) evs) ∧
    RaceEnd n evs (feedAll (raceM n) cfg r evs) := by
  induction evs generalizing r with
  | nil =>
    refine ⟨by simp [feedAll, Spec.restrict, Spec.race], ⟨h.stored, h.booted, h.subs, ?_, ?_⟩⟩
    · intro hd; simp [feedAll, h.down] at hd
    · intro w x rest hr; simp [Spec.restrict] at hr
  | cons e es ih =>
    obtain ⟨k, x⟩ := e
    by_cases hk : k < n
    · have hres : Spec.restrict (below n) ((k, x) :: es) = (k, x) :: Spec.restrict (below n) es := by
        simp [Spec.restrict, below, hk]
      have hrace : Spec.race (Spec.restrict (below n) ((k, x) :: es)) = gate (x :: Spec.ofSource k es) := by
        rw [hres]; simp only [Spec.race]
        have : Spec.ofSource k ((k, x) :: Spec.restrict (below n) es) = x :: Spec.ofSource k (Spec.restrict (below n) es) := by
          simp [Spec.ofSource]
        rw [this, ofSource_restrict n k hk]
      have hsub : r.subs k ≠ 0 := (h.subs k).2 hk
      have hop : r.sopen k = true := by rw [h.sopen]; simp [below, hk]
      have hfeed : feed (raceM n) cfg r (k, x) =
          (((List.range n).filter (fun i => (Int.ofNat i) != Int.ofNat k)).foldl MSt.closeSrc
            (MSt.emit (raceM n) { (if x.isTerminal then r.closeSrc k else r) with st := { r.st with won := Int.ofNat k } } x)) := by
        simp only [feed, hsub, if_false, deliver, hop, if_true, phasesAt_depth]
        rw [race_react_winner n cfg _ _ k x (Or.inl (by split <;> simpa using h.won))]
        split <;> simp [h.stored]
      by_cases hx : x.isTerminal = true
      · simp only [hx, if_true] at hfeed
        have he := emit_open_term (raceM n) { (r.closeSrc k) with st := { r.st with won := Int.ofNat k } } x h.down hx h.booted
        have hfd : (feed (raceM n) cfg r (k, x)).downOpen = false := by
          rw [hfeed, (closeAll_fields _ _).2.1, he]; simp
        have hfo : (feed (raceM n) cfg r (k, x)).out = r.out ++ [x] := by
          rw [hfeed, (closeAll_fields _ _).1, he]; simp
        have hfs : (feed (raceM n) cfg r (k, x)).subs = r.subs := by
          rw [hfeed, (closeAll_fields _ _).2.2.2.1, he]; simp
        have hfst : (feed (raceM n) cfg r (k, x)).st.stored = List.range n := by
          rw [hfeed, (closeAll_fields _ _).2.2.2.2.1, he]; simp [raceM, h.stored]
        have hfb : (feed (raceM n) cfg r (k, x)).booted = true := by
          rw [hfeed, (closeAll_fields _ _).2.2.1, he]; simpa using h.booted
        have hfm : ∀ j, j < n → (feed (raceM n) cfg r (k, x)).sopen j = false := by
          intro j hj
          rw [hfeed]; apply closeAll_mono
          rw [he, runTeardown_sopen, raceM_teardown]
          simp [h.stored, hj]
        have hall : ∀ j, (feed (raceM n) cfg r (k, x)).subs j = 0 ∨ (feed (raceM n) cfg r (k, x)).sopen j = false := by
          intro j
          by_cases hj : j < n
          · right; exact hfm j hj
          · left; rw [hfs]
            exact Classical.byContradiction (fun hc => hj ((h.subs j).1 hc))
        have hac := feedAll_allClosed (raceM n) cfg es _ hall
        have hfz := feedAll_frozen (raceM n) cfg es _ hfd
        have hst := feedAll_allClosed_st (raceM n) cfg es _ hall
        have hbt : (feedAll (raceM n) cfg (feed (raceM n) cfg r (k, x)) es).booted = true :=
          feedAll_preserves cfg (booted_preserved (raceM n)) es _ hfb
        simp only [feedAll, List.foldl_cons] at hac hfz hst hbt ⊢
        refine ⟨?_, ⟨?_, hbt, ?_, ?_, ?_⟩⟩
        · rw [hfz.2, hfo, hrace]; simp [gate, hx]
        · rw [hst, hfst]
        · intro j; rw [hac.2.1, hfs]; exact h.subs j
        · intro _ j hj; rw [hac.1]; exact hfm j hj
        · intro _ _ _ _ j hj _; rw [hac.1]; exact hfm j hj
      · have hx' : x.isTerminal = false := by simpa using hx
        simp only [hx', Bool.false_eq_true, if_false] at hfeed
        have he := emit_open_next (raceM n) { r with st := { r.st with won := Int.ofNat k } } x h.down hx'
        rw [he] at hfeed
        have hcf := closeAll_fields ((List.range n).filter (fun i => (Int.ofNat i) != Int.ofNat k))
          ({ r with st := { r.st with won := Int.ofNat k }, out := r.out ++ [x] } : MSt RaceSt α α)
        have hcs := closeAll_sopen ((List.range n).filter (fun i => (Int.ofNat i) != Int.ofNat k))
          ({ r with st := { r.st with won := Int.ofNat k }, out := r.out ++ [x] } : MSt RaceSt α α)
        have hlos : ∀ j, j ≠ k → (feed (raceM n) cfg r (k, x)).subs j = 0 ∨ (feed (raceM n) cfg r (k, x)).sopen j = false := by
          intro j hj
          rw [hfeed, hcf.2.2.2.1, hcs j]
          by_cases hjn : j < n
          · right; rw [if_pos ((mem_others n j k).2 ⟨hjn, hj⟩)]
          · left
            exact Classical.byContradiction (fun hc => hjn ((h.subs j).1 hc))
        have hw := race_won n cfg k es (feed (raceM n) cfg r (k, x))
          (by rw [hfeed, hcf.2.2.2.2.1])
          (by rw [hfeed, hcf.2.1]; exact h.down)
          (by rw [hfeed, hcf.2.2.1]; exact h.booted)
          (by rw [hfeed, hcs k, if_neg (fun hc => ((mem_others n k k).1 hc).2 rfl)]; exact hop)
          (by rw [hfeed, hcf.2.2.2.1]; exact hsub)
          hlos
        have hsopen_los : ∀ j, j < n → j ≠ k → (feed (raceM n) cfg r (k, x)).sopen j = false := by
          intro j hjn hj
          rw [hfeed, hcs j, if_pos ((mem_others n j k).2 ⟨hjn, hj⟩)]
        simp only [feedAll, List.foldl_cons] at hw ⊢
        refine ⟨?_, ⟨?_, hw.2.booted, ?_, ?_, ?_⟩⟩
        · rw [hw.1, hfeed, hcf.1, hrace, show gate (x :: Spec.ofSource k es) = x :: gate (Spec.ofSource k es) by simp [gate, hx']]
          simp
        · rw [hw.2.stored, hfeed, hcf.2.2.2.2.1]; exact h.stored
        · intro j; rw [hw.2.subs, hfeed, hcf.2.2.2.1]; exact h.subs j
        · intro hd j hj
          by_cases hjk : j = k
          · rw [hjk]; exact hw.2.wclosed hd
          · exact hw.2.mono j (hsopen_los j hj hjk)
        · intro w y rest hr j hj hjw
          rw [hres] at hr
          have : w = k := by simp at hr; exact hr.1.1.symm
          subst this
          exact hw.2.mono j (hsopen_los j hj hjw)
    · -- a source that is not part of the race
      have hres : Spec.restrict (below n) ((k, x) :: es) = Spec.restrict (below n) es := by
        simp [Spec.restrict, below, hk]
      have h0 : r.subs k = 0 := Classical.byContradiction (fun hc => hk ((h.subs k).1 hc))
      have hf : feed (raceM n) cfg r (k, x) = r := by simp [feed, h0]
      have := ih r h
      simp only [feedAll, List.foldl_cons, hf] at this ⊢
      rw [hres]
      exact ⟨this.1, ⟨this.2.stored, this.2.booted, this.2.subs, this.2.closed,
        fun w y rest hr => this.2.losers w y rest (hres ▸ hr)⟩⟩

/-- **RaceWith / Race / Amb over hot sources**: for every arrival order the output mirrors the first
    source (among the `n` raced ones) to notify. -/
theorem race_spec (n : Nat) (cfg : Sources α) (hhot : ∀ k, cfg.sync k = false) (sub : Ctx) (evs : List (MEvent α)) :
    (feedAll (raceM n) cfg (bootSt (raceM n) cfg sub) evs).out = Spec.race (Spec.restrict (below n) evs) := by
  have hb := race_boot n cfg hhot sub
  rw [(race_run n cfg evs _ hb.1).1, hb.2]; simp

theorem race_end (n : Nat) (cfg : Sources α) (hhot : ∀ k, cfg.sync k = false) (sub : Ctx) (evs : List (MEvent α)) :
    RaceEnd n evs (feedAll (raceM n) cfg (bootSt (raceM n) cfg sub) evs) :=
  (race_run n cfg evs _ (race_boot n cfg hhot sub).1).2

/-- an external `Unsubscribe` at any moment releases every source (hot sources) -/
theorem race_cut_releases (n : Nat) (cfg : Sources α) (hhot : ∀ k, cfg.sync k = false) (sub : Ctx) (evs : List (MEvent α))
    (j : Nat) (hj : j < n) :
    ((feedAll (raceM n) cfg (bootSt (raceM n) cfg sub) evs).cut (raceM n)).sopen j = false := by
  have he := race_end n cfg hhot sub evs
  unfold MSt.cut
  split
  · rw [runTeardown_sopen, raceM_teardown]; simp [he.stored, hj]
  · rename_i hd
    exact he.closed (by simpa using hd) j hj

theorem cut_subs {σ β : Type} (m : MMachine σ α β) (r : MSt σ α β) : (r.cut m).subs = r.subs := by
  unfold MSt.cut; split <;> simp

/-- … and nothing that arrives afterwards changes that -/
theorem race_cut_then (n : Nat) (cfg : Sources α) (hhot : ∀ k, cfg.sync k = false) (sub : Ctx) (evs evs' : List (MEvent α))
    (j : Nat) (hj : j < n) :
    (feedAll (raceM n) cfg ((feedAll (raceM n) cfg (bootSt (raceM n) cfg sub) evs).cut (raceM n)) evs').sopen j = false := by
  have he := race_end n cfg hhot sub evs
  have hall : ∀ k, ((feedAll (raceM n) cfg (bootSt (raceM n) cfg sub) evs).cut (raceM n)).subs k = 0 ∨
      ((feedAll (raceM n) cfg (bootSt (raceM n) cfg sub) evs).cut (raceM n)).sopen k = false := by
    intro k
    by_cases hk : k < n
    · right; exact race_cut_releases n cfg hhot sub evs k hk
    · left; rw [cut_subs]
      exact Classical.byContradiction (fun hc => hk ((he.subs k).1 hc))
  rw [(feedAll_allClosed _ _ _ _ hall).1]
  exact race_cut_releases n cfg hhot sub evs j hj

end Ro.Multi

/-
  RoProofs.MultiRace — RaceWith / Race / Amb: for every arrival order over hot sources the output mirrors
  the first source to notify; the losers are released at the winner's first notification, everything is
  released at the winner's terminal or at an external Unsubscribe.
-/
import RoProofs.MultiCore
namespace Ro.Multi
open Ro

variable {α : Type}

def below (n : Nat) (k : Nat) : Bool := decide (k < n)

theorem mem_others (n j k : Nat) :
    j ∈ (List.range n).filter (fun i => (Int.ofNat i) != Int.ofNat k) ↔ (j < n ∧ j ≠ k) := by
  simp [List.mem_filter]
  intro _; omega

theorem raceM_teardown (n : Nat) (s : RaceSt) : (raceM (α := α) n).teardown s = (s, s.stored) := rfl

theorem foldl_act_unsub (m : MMachine RaceSt α α) (cfg : Sources α) (rec) (l : List Nat) (r : MSt RaceSt α α) :
    (l.map Act.unsub).foldl (act m cfg rec) r = l.foldl MSt.closeSrc r := by
  induction l generalizing r with
  | nil => rfl
  | cons k ks ih => simp [act, ih]

theorem ofNat_ne_neg1 (j : Nat) : (Int.ofNat j = -1) = False := by
  simp

/-- the reaction of the race callbacks once `w` has won (or wins now) -/
theorem race_react_winner (n : Nat) (cfg : Sources α) (rec) (r : MSt RaceSt α α) (w : Nat) (x : Notif α)
    (hw : r.st.won = -1 ∨ r.st.won = Int.ofNat w) :
    phases (raceM n) cfg rec ((raceM n).react w x) r =
      ((r.st.stored.filter (fun i => (Int.ofNat i) != Int.ofNat w)).foldl MSt.closeSrc
        (MSt.emit (raceM n) { r with st := { r.st with won := Int.ofNat w } } x)) := by
  have hs : (if r.st.won = -1 then { r.st with won := Int.ofNat w } else r.st) = { r.st with won := Int.ofNat w } := by
    cases hw with
    | inl h => simp [h]
    | inr h => rw [if_neg (by rw [h]; simp)]; cases hst : r.st; simp_all
  simp only [raceM, phases, phase, raceReact, List.foldl_cons, List.foldl_nil, hs, if_true, List.cons_append, List.nil_append, act]
  exact foldl_act_unsub _ cfg rec _ _

/-! ### the subscribe loop over hot sources -/

structure RaceBoot (j : Nat) (r : MSt RaceSt α α) : Prop where
  won : r.st.won = -1
  stored : r.st.stored = List.range j
  pending : r.st.pending = none
  down : r.downOpen = true
  booted : r.booted = false
  out : r.out = []
  sopen : ∀ k, r.sopen k = below j k
  subs : ∀ k, r.subs k = if k < j then 1 else 0

def raceBody (sub : Ctx) (j : Nat) : List (Phase RaceSt α) := [
    (fun s => if s.won != -1 then ({ s with pending := none }, []) else ({ s with pending := some j }, [.sub j sub])),
    (fun s => if s.pending = some j then
        (if s.won = -1 || s.won = Int.ofNat j then ({ s with stored := s.stored ++ [j], pending := none }, [])
         else ({ s with pending := none }, [.unsub j]))
      else (s, [])) ]

theorem race_boot_loop (m : MMachine RaceSt α α) (cfg : Sources α) (hhot : ∀ k, cfg.sync k = false) (rec) (sub : Ctx)
    (j : Nat) (r : MSt RaceSt α α) (h0 : RaceBoot 0 r) :
    RaceBoot j (phases m cfg rec ((List.range j).flatMap (raceBody sub)) r) := by
  induction j with
  | zero => simpa [phases] using h0
  | succ j ih =>
    rw [List.range_succ, List.flatMap_append]
    simp only [phases, List.foldl_append] at ih ⊢
    generalize List.foldl (phase m cfg rec) r ((List.range j).flatMap (raceBody sub)) = r1 at ih ⊢
    simp only [List.flatMap_cons, List.flatMap_nil, List.append_nil, raceBody, List.foldl_cons, List.foldl_nil, phase,
      ih.won, ih.stored, act, hhot, Bool.false_eq_true, if_false, bne_self_eq_false, if_true, decide_true, Bool.true_or]
    refine ⟨rfl, ?_, rfl, ih.down, ih.booted, ih.out, ?_, ?_⟩
    · simp [List.range_succ]
    · intro k; simp only [setAt, below, ih.sopen k]
      by_cases hk : k = j
      · simp [hk]
      · simp [hk]; omega
    · intro k; simp only [setAt, ih.subs]
      by_cases hk : k = j
      · simp [hk]
      · simp [hk]; split <;> split <;> first | rfl | omega

/-- state after `Subscribe` returned and before any notification: nobody has won -/
structure Race0 (n : Nat) (r : MSt RaceSt α α) : Prop where
  won : r.st.won = -1
  stored : r.st.stored = List.range n
  down : r.downOpen = true
  booted : r.booted = true
  sopen : ∀ k, r.sopen k = below n k
  subs : ∀ k, r.subs k ≠ 0 ↔ k < n

theorem race_boot (n : Nat) (cfg : Sources α) (hhot : ∀ k, cfg.sync k = false) (sub : Ctx) :
    Race0 n (bootSt (raceM (α := α) n) cfg sub) ∧ (bootSt (raceM (α := α) n) cfg sub).out = [] := by
  have h0 : RaceBoot 0 ({ st := (raceM (α := α) n).init } : MSt RaceSt α α) :=
    ⟨rfl, rfl, rfl, rfl, rfl, rfl, fun k => by simp [below], fun k => by simp⟩
  have h := race_boot_loop (raceM (α := α) n) cfg hhot (phasesAt (raceM n) cfg cfg.n) sub n _ h0
  have hb : (raceM (α := α) n).boot sub = (List.range n).flatMap (raceBody sub) := rfl
  unfold bootSt
  simp only [phasesAt_depth, hb]
  rw [if_pos h.down]
  refine ⟨⟨h.won, h.stored, h.down, rfl, h.sopen, ?_⟩, h.out⟩
  intro k; simp only [h.subs k]; split <;> simp_all

/-! ### once `w` has won -/

structure RaceAfter (w : Nat) (r f : MSt RaceSt α α) : Prop where
  subs : f.subs = r.subs
  stored : f.st.stored = r.st.stored
  booted : f.booted = true
  mono : ∀ j, r.sopen j = false → f.sopen j = false
  wclosed : f.downOpen = false → f.sopen w = false

theorem closeAll_mono (ks : List Nat) (r : MSt RaceSt α α) (j : Nat) (h : r.sopen j = false) :
    (ks.foldl MSt.closeSrc r).sopen j = false := by
  rw [closeAll_sopen]; simp [h]

theorem race_won (n : Nat) (cfg : Sources α) (w : Nat) (evs : List (MEvent α)) (r : MSt RaceSt α α)
    (hw : r.st.won = Int.ofNat w) (hd : r.downOpen = true) (hb : r.booted = true) (ho : r.sopen w = true)
    (hs : r.subs w ≠ 0) (hl : ∀ j, j ≠ w → r.subs j = 0 ∨ r.sopen j = false) :
    (feedAll (raceM n) cfg r evs).out = r.out ++ gate (Spec.ofSource w evs) ∧
    RaceAfter w r (feedAll (raceM n) cfg r evs) := by
  induction evs generalizing r with
  | nil => exact ⟨by simp [feedAll, Spec.ofSource], ⟨rfl, rfl, hb, fun _ h => h, fun h => by simp [feedAll, hd] at h⟩⟩
  | cons e es ih =>
    obtain ⟨k, x⟩ := e
    by_cases hk : k = w
    · subst hk
      have hof : Spec.ofSource k ((k, x) :: es) = x :: Spec.ofSource k es := by simp [Spec.ofSource]
      rw [hof]
      have hfeed : feed (raceM n) cfg r (k, x) =
          ((r.st.stored.filter (fun i => (Int.ofNat i) != Int.ofNat k)).foldl MSt.closeSrc
            (MSt.emit (raceM n) { (if x.isTerminal then r.closeSrc k else r) with st := { r.st with won := Int.ofNat k } } x)) := by
        simp only [feed, hs, if_false, deliver, ho, if_true, phasesAt_depth]
        rw [race_react_winner n cfg _ _ k x (Or.inr (by split <;> simpa using hw))]
        split <;> rfl
      have hnotin : k ∉ r.st.stored.filter (fun i => (Int.ofNat i) != Int.ofNat k) := by simp
      by_cases hx : x.isTerminal = true
      · -- the winner's terminal: forwarded, everything is over
        simp only [hx, if_true] at hfeed
        have he := emit_open_term (raceM n) { (r.closeSrc k) with st := { r.st with won := Int.ofNat k } } x hd hx hb
        have hfd : (feed (raceM n) cfg r (k, x)).downOpen = false := by
          rw [hfeed, (closeAll_fields _ _).2.1, he]; simp
        have hfo : (feed (raceM n) cfg r (k, x)).out = r.out ++ [x] := by
          rw [hfeed, (closeAll_fields _ _).1, he]; simp
        have hfs : (feed (raceM n) cfg r (k, x)).subs = r.subs := by
          rw [hfeed, (closeAll_fields _ _).2.2.2.1, he]; simp
        have hfst : (feed (raceM n) cfg r (k, x)).st.stored = r.st.stored := by
          rw [hfeed, (closeAll_fields _ _).2.2.2.2.1, he]; simp [raceM]
        have hfb : (feed (raceM n) cfg r (k, x)).booted = true := by
          rw [hfeed, (closeAll_fields _ _).2.2.1, he]; simpa using hb
        have hfm : ∀ j, (r.sopen j = false ∨ j = k) → (feed (raceM n) cfg r (k, x)).sopen j = false := by
          intro j hj
          rw [hfeed]; apply closeAll_mono
          rw [he, runTeardown_sopen]
          split
          · rfl
          · simp only [closeSrc_sopen]
            cases hj with
            | inl h => simp [h]
            | inr h => simp [h]
        have hall : ∀ j, (feed (raceM n) cfg r (k, x)).subs j = 0 ∨ (feed (raceM n) cfg r (k, x)).sopen j = false := by
          intro j
          by_cases hj : j = k
          · right; exact hfm j (Or.inr hj)
          · cases hl j hj with
            | inl h => left; rw [hfs]; exact h
            | inr h => right; exact hfm j (Or.inl h)
        have hac := feedAll_allClosed (raceM n) cfg es _ hall
        have hfz := feedAll_frozen (raceM n) cfg es _ hfd
        have hst : (feedAll (raceM n) cfg (feed (raceM n) cfg r (k, x)) es).st.stored = r.st.stored := by
          rw [feedAll_allClosed_st (raceM n) cfg es _ hall, hfst]
        have hbt : (feedAll (raceM n) cfg (feed (raceM n) cfg r (k, x)) es).booted = true :=
          feedAll_preserves cfg (booted_preserved (raceM n)) es _ hfb
        simp only [feedAll, List.foldl_cons] at hac hfz hst hbt ⊢
        refine ⟨?_, ⟨?_, ?_, hbt, ?_, ?_⟩⟩
        · rw [hfz.2, hfo]; simp [gate, hx]
        · rw [hac.2.1, hfs]
        · exact hst
        · intro j hj; rw [hac.1]; exact hfm j (Or.inl hj)
        · intro _; rw [hac.1]; exact hfm k (Or.inr rfl)
      · -- a value of the winner: forwarded; the losers are unsubscribed (again)
        have hx' : x.isTerminal = false := by simpa using hx
        simp only [hx', Bool.false_eq_true, if_false] at hfeed
        have he := emit_open_next (raceM n) { r with st := { r.st with won := Int.ofNat k } } x hd hx'
        rw [he] at hfeed
        have hcf := closeAll_fields (r.st.stored.filter (fun i => (Int.ofNat i) != Int.ofNat k))
          ({ r with st := { r.st with won := Int.ofNat k }, out := r.out ++ [x] } : MSt RaceSt α α)
        have hcs := closeAll_sopen (r.st.stored.filter (fun i => (Int.ofNat i) != Int.ofNat k))
          ({ r with st := { r.st with won := Int.ofNat k }, out := r.out ++ [x] } : MSt RaceSt α α)
        have := ih (feed (raceM n) cfg r (k, x))
          (by rw [hfeed, hcf.2.2.2.2.1])
          (by rw [hfeed, hcf.2.1]; exact hd)
          (by rw [hfeed, hcf.2.2.1]; exact hb)
          (by rw [hfeed, hcs k]; simp [ho])
          (by rw [hfeed, hcf.2.2.2.1]; exact hs)
          (by intro j hj
              rw [hfeed, hcf.2.2.2.1, hcs j]
              cases hl j hj with
              | inl h => left; exact h
              | inr h => right; simp [h])
        simp only [feedAll, List.foldl_cons] at this ⊢
        refine ⟨?_, ⟨?_, ?_, this.2.booted, ?_, this.2.wclosed⟩⟩
        · rw [this.1, hfeed, hcf.1, show gate (x :: Spec.ofSource k es) = x :: gate (Spec.ofSource k es) by simp [gate, hx']]
          simp
        · rw [this.2.subs, hfeed, hcf.2.2.2.1]
        · rw [this.2.stored, hfeed, hcf.2.2.2.2.1]
        · intro j hj; apply this.2.mono; rw [hfeed, hcs j]; simp [hj]
    · -- a loser: never subscribed, or already unsubscribed
      have hof : Spec.ofSource w ((k, x) :: es) = Spec.ofSource w es := by
        simp [Spec.ofSource, hk]
      rw [hof]
      by_cases h0 : r.subs k = 0
      · have hf : feed (raceM n) cfg r (k, x) = r := by simp [feed, h0]
        have := ih r hw hd hb ho hs hl
        simp only [feedAll, List.foldl_cons, hf] at this ⊢
        exact this
      · have hop : r.sopen k = false := by
          cases hl k hk with
          | inl h => exact absurd h h0
          | inr h => exact h
        have hf : feed (raceM n) cfg r (k, x) = { r with drops := r.drops ++ [.up k x] } := by
          simp [feed, h0, deliver, hop]
        have := ih ({ r with drops := r.drops ++ [.up k x] }) hw hd hb ho hs hl
        simp only [feedAll, List.foldl_cons, hf] at this ⊢
        exact ⟨this.1, ⟨this.2.subs, this.2.stored, this.2.booted, this.2.mono, this.2.wclosed⟩⟩

/-! ### from the start -/

theorem ofSource_restrict (n k : Nat) (hk : k < n) (evs : List (MEvent α)) :
    Spec.ofSource k (Spec.restrict (below n) evs) = Spec.ofSource k evs := by
  induction evs with
  | nil => rfl
  | cons e es ih =>
    by_cases he : e.1 < n
    · have : Spec.restrict (below n) (e :: es) = e :: Spec.restrict (below n) es := by simp [Spec.restrict, below, he]
      rw [this]
      simp only [Spec.ofSource, List.filter_cons] at ih ⊢
      split <;> simp [ih]
    · have : Spec.restrict (below n) (e :: es) = Spec.restrict (below n) es := by simp [Spec.restrict, below, he]
      rw [this, ih]
      have hne : (e.1 == k) = false := by simp; omega
      simp [Spec.ofSource, hne]

/-- what is known about the sources after any arrival order -/
structure RaceEnd (n : Nat) (evs : List (MEvent α)) (f : MSt RaceSt α α) : Prop where
  stored : f.st.stored = List.range n
  booted : f.booted = true
  subs : ∀ k, f.subs k ≠ 0 ↔ k < n
  /-- the output has ended ⇒ every source is released -/
  closed : f.downOpen = false → ∀ j, j < n → f.sopen j = false
  /-- somebody has notified ⇒ every other source is released -/
  losers : ∀ w x rest, Spec.restrict (below n) evs = (w, x) :: rest → ∀ j, j < n → j ≠ w → f.sopen j = false

theorem race_run (n : Nat) (cfg : Sources α) (evs : List (MEvent α)) (r : MSt RaceSt α α) (h : Race0 n r) :
    (feedAll (raceM n) cfg r evs).out = r.out ++ Spec.race (Spec.restrict (below n) evs) ∧
    RaceEnd n evs (feedAll (raceM n) cfg r evs) := by
  induction evs generalizing r with
  | nil =>
    refine ⟨by simp [feedAll, Spec.restrict, Spec.race], ⟨h.stored, h.booted, h.subs, ?_, ?_⟩⟩
    · intro hd; simp [feedAll, h.down] at hd
    · intro w x rest hr; simp [Spec.restrict] at hr
  | cons e es ih =>
    obtain ⟨k, x⟩ := e
    by_cases hk : k < n
    · have hres : Spec.restrict (below n) ((k, x) :: es) = (k, x) :: Spec.restrict (below n) es := by
        simp [Spec.restrict, below, hk]
      have hrace : Spec.race (Spec.restrict (below n) ((k, x) :: es)) = gate (x :: Spec.ofSource k es) := by
        rw [hres]; simp only [Spec.race]
        have : Spec.ofSource k ((k, x) :: Spec.restrict (below n) es) = x :: Spec.ofSource k (Spec.restrict (below n) es) := by
          simp [Spec.ofSource]
        rw [this, ofSource_restrict n k hk]
      have hsub : r.subs k ≠ 0 := (h.subs k).2 hk
      have hop : r.sopen k = true := by rw [h.sopen]; simp [below, hk]
      have hfeed : feed (raceM n) cfg r (k, x) =
          (((List.range n).filter (fun i => (Int.ofNat i) != Int.ofNat k)).foldl MSt.closeSrc
            (MSt.emit (raceM n) { (if x.isTerminal then r.closeSrc k else r) with st := { r.st with won := Int.ofNat k } } x)) := by
        simp only [feed, hsub, if_false, deliver, hop, if_true, phasesAt_depth]
        rw [race_react_winner n cfg _ _ k x (Or.inl (by split <;> simpa using h.won))]
        split <;> simp [h.stored]
      by_cases hx : x.isTerminal = true
      · simp only [hx, if_true] at hfeed
        have he := emit_open_term (raceM n) { (r.closeSrc k) with st := { r.st with won := Int.ofNat k } } x h.down hx h.booted
        have hfd : (feed (raceM n) cfg r (k, x)).downOpen = false := by
          rw [hfeed, (closeAll_fields _ _).2.1, he]; simp
        have hfo : (feed (raceM n) cfg r (k, x)).out = r.out ++ [x] := by
          rw [hfeed, (closeAll_fields _ _).1, he]; simp
        have hfs : (feed (raceM n) cfg r (k, x)).subs = r.subs := by
          rw [hfeed, (closeAll_fields _ _).2.2.2.1, he]; simp
        have hfst : (feed (raceM n) cfg r (k, x)).st.stored = List.range n := by
          rw [hfeed, (closeAll_fields _ _).2.2.2.2.1, he]; simp [raceM, h.stored]
        have hfb : (feed (raceM n) cfg r (k, x)).booted = true := by
          rw [hfeed, (closeAll_fields _ _).2.2.1, he]; simpa using h.booted
        have hfm : ∀ j, j < n → (feed (raceM n) cfg r (k, x)).sopen j = false := by
          intro j hj
          rw [hfeed]; apply closeAll_mono
          rw [he, runTeardown_sopen, raceM_teardown]
          simp [h.stored, hj]
        have hall : ∀ j, (feed (raceM n) cfg r (k, x)).subs j = 0 ∨ (feed (raceM n) cfg r (k, x)).sopen j = false := by
          intro j
          by_cases hj : j < n
          · right; exact hfm j hj
          · left; rw [hfs]
            exact Classical.byContradiction (fun hc => hj ((h.subs j).1 hc))
        have hac := feedAll_allClosed (raceM n) cfg es _ hall
        have hfz := feedAll_frozen (raceM n) cfg es _ hfd
        have hst := feedAll_allClosed_st (raceM n) cfg es _ hall
        have hbt : (feedAll (raceM n) cfg (feed (raceM n) cfg r (k, x)) es).booted = true :=
          feedAll_preserves cfg (booted_preserved (raceM n)) es _ hfb
        simp only [feedAll, List.foldl_cons] at hac hfz hst hbt ⊢
        refine ⟨?_, ⟨?_, hbt, ?_, ?_, ?_⟩⟩
        · rw [hfz.2, hfo, hrace]; simp [gate, hx]
        · rw [hst, hfst]
        · intro j; rw [hac.2.1, hfs]; exact h.subs j
        · intro _ j hj; rw [hac.1]; exact hfm j hj
        · intro _ _ _ _ j hj _; rw [hac.1]; exact hfm j hj
      · have hx' : x.isTerminal = false := by simpa using hx
        simp only [hx', Bool.false_eq_true, if_false] at hfeed
        have he := emit_open_next (raceM n) { r with st := { r.st with won := Int.ofNat k } } x h.down hx'
        rw [he] at hfeed
        have hcf := closeAll_fields ((List.range n).filter (fun i => (Int.ofNat i) != Int.ofNat k))
          ({ r with st := { r.st with won := Int.ofNat k }, out := r.out ++ [x] } : MSt RaceSt α α)
        have hcs := closeAll_sopen ((List.range n).filter (fun i => (Int.ofNat i) != Int.ofNat k))
          ({ r with st := { r.st with won := Int.ofNat k }, out := r.out ++ [x] } : MSt RaceSt α α)
        have hlos : ∀ j, j ≠ k → (feed (raceM n) cfg r (k, x)).subs j = 0 ∨ (feed (raceM n) cfg r (k, x)).sopen j = false := by
          intro j hj
          rw [hfeed, hcf.2.2.2.1, hcs j]
          by_cases hjn : j < n
          · right; rw [if_pos ((mem_others n j k).2 ⟨hjn, hj⟩)]
          · left
            exact Classical.byContradiction (fun hc => hjn ((h.subs j).1 hc))
        have hw := race_won n cfg k es (feed (raceM n) cfg r (k, x))
          (by rw [hfeed, hcf.2.2.2.2.1])
          (by rw [hfeed, hcf.2.1]; exact h.down)
          (by rw [hfeed, hcf.2.2.1]; exact h.booted)
          (by rw [hfeed, hcs k, if_neg (fun hc => ((mem_others n k k).1 hc).2 rfl)]; exact hop)
          (by rw [hfeed, hcf.2.2.2.1]; exact hsub)
          hlos
        have hsopen_los : ∀ j, j < n → j ≠ k → (feed (raceM n) cfg r (k, x)).sopen j = false := by
          intro j hjn hj
          rw [hfeed, hcs j, if_pos ((mem_others n j k).2 ⟨hjn, hj⟩)]
        simp only [feedAll, List.foldl_cons] at hw ⊢
        refine ⟨?_, ⟨?_, hw.2.booted, ?_, ?_, ?_⟩⟩
        · rw [hw.1, hfeed, hcf.1, hrace, show gate (x :: Spec.ofSource k es) = x :: gate (Spec.ofSource k es) by simp [gate, hx']]
          simp
        · rw [hw.2.stored, hfeed, hcf.2.2.2.2.1]; exact h.stored
        · intro j; rw [hw.2.subs, hfeed, hcf.2.2.2.1]; exact h.subs j
        · intro hd j hj
          by_cases hjk : j = k
          · rw [hjk]; exact hw.2.wclosed hd
          · exact hw.2.mono j (hsopen_los j hj hjk)
        · intro w y rest hr j hj hjw
          rw [hres] at hr
          have : w = k := by simp at hr; exact hr.1.1.symm
          subst this
          exact hw.2.mono j (hsopen_los j hj hjw)
    · -- a source that is not part of the race
      have hres : Spec.restrict (below n) ((k, x) :: es) = Spec.restrict (below n) es := by
        simp [Spec.restrict, below, hk]
      have h0 : r.subs k = 0 := Classical.byContradiction (fun hc => hk ((h.subs k).1 hc))
      have hf : feed (raceM n) cfg r (k, x) = r := by simp [feed, h0]
      have := ih r h
      simp only [feedAll, List.foldl_cons, hf] at this ⊢
      rw [hres]
      exact ⟨this.1, ⟨this.2.stored, this.2.booted, this.2.subs, this.2.closed,
        fun w y rest hr => this.2.losers w y rest (hres ▸ hr)⟩⟩

/-- **RaceWith / Race / Amb over hot sources**: for every arrival order the output mirrors the first
    source (among the `n` raced ones) to notify. -/
theorem race_spec (n : Nat) (cfg : Sources α) (hhot : ∀ k, cfg.sync k = false) (sub : Ctx) (evs : List (MEvent α)) :
    (feedAll (raceM n) cfg (bootSt (raceM n) cfg sub) evs).out = Spec.race (Spec.restrict (below n) evs) := by
  have hb := race_boot n cfg hhot sub
  rw [(race_run n cfg evs _ hb.1).1, hb.2]; simp

theorem race_end (n : Nat) (cfg : Sources α) (hhot : ∀ k, cfg.sync k = false) (sub : Ctx) (evs : List (MEvent α)) :
    RaceEnd n evs (feedAll (raceM n) cfg (bootSt (raceM n) cfg sub) evs) :=
  (race_run n cfg evs _ (race_boot n cfg hhot sub).1).2

/-- an external `Unsubscribe` at any moment releases every source (hot sources) -/
theorem race_cut_releases (n : Nat) (cfg : Sources α) (hhot : ∀ k, cfg.sync k = false) (sub : Ctx) (evs : List (MEvent α))
    (j : Nat) (hj : j < n) :
    ((feedAll (raceM n) cfg (bootSt (raceM n) cfg sub) evs).cut (raceM n)).sopen j = false := by
  have he := race_end n cfg hhot sub evs
  unfold MSt.cut
  split
  · rw [runTeardown_sopen, raceM_teardown]; simp [he.stored, hj]
  · rename_i hd
    exact he.closed (by simpa using hd) j hj

theorem cut_subs {σ β : Type} (m : MMachine σ α β) (r : MSt σ α β) : (r.cut m).subs = r.subs := by
  unfold MSt.cut; split <;> simp

/-- … and nothing that arrives afterwards changes that -/
theorem race_cut_then (n : Nat) (cfg : Sources α) (hhot : ∀ k, cfg.sync k = false) (sub : Ctx) (evs evs' : List (MEvent α))
    (j : Nat) (hj : j < n) :
    (feedAll (raceM n) cfg ((feedAll (raceM n) cfg (bootSt (raceM n) cfg sub) evs).cut (raceM n)) evs').sopen j = false := by
  have he := race_end n cfg hhot sub evs
  have hall : ∀ k, ((feedAll (raceM n) cfg (bootSt (raceM n) cfg sub) evs).cut (raceM n)).subs k = 0 ∨
      ((feedAll (raceM n) cfg (bootSt (raceM n) cfg sub) evs).cut (raceM n)).sopen k = false := by
    intro k
    by_cases hk : k < n
    · right; exact race_cut_releases n cfg hhot sub evs k hk
    · left; rw [cut_subs]
      exact Classical.byContradiction (fun hc => hk ((he.subs k).1 hc))
  rw [(feedAll_allClosed _ _ _ _ hall).1]
  exact race_cut_releases n cfg hhot sub evs j hj

end Ro.Multi

/-! ### release, for ANY mix of hot and synchronous sources (after fix 5ca7c2d)

`subscriptions[j]` now holds every source that is subscribed and has not been unsubscribed — including
a source that won inside its own `Subscribe`. Hence the teardown (`unsubscribeOthers(-1)`) releases
everything, whenever it runs. -/
namespace Ro.Multi
open Ro
variable {α : Type}

/-- every subscribed source whose subscriber is still open is stored, or is the one whose `Subscribe`
    call is in progress -/
def RaceHeld (r : MSt RaceSt α α) : Prop :=
  ∀ k, r.subs k ≠ 0 → r.sopen k = true → (k ∈ r.st.stored ∨ r.st.pending = some k)

/-- what a reaction (and any sequence of reactions) may do to the bookkeeping -/
structure RaceStep (r r' : MSt RaceSt α α) : Prop where
  stored : r'.st.stored = r.st.stored
  pending : r'.st.pending = r.st.pending
  subs : r'.subs = r.subs
  booted : r'.booted = r.booted
  shrink : ∀ k, r'.sopen k = true → r.sopen k = true
  torn : r.booted = true → r'.downOpen = false → r.downOpen = true → ∀ k, k ∈ r.st.stored → r'.sopen k = false
  stay : r.downOpen = false → r'.downOpen = false

theorem RaceStep.refl (r : MSt RaceSt α α) : RaceStep r r :=
  ⟨rfl, rfl, rfl, rfl, fun _ h => h, fun _ h1 h2 => (by rw [h1] at h2; cases h2), fun h => h⟩

theorem RaceStep.trans {r r' r'' : MSt RaceSt α α} (h1 : RaceStep r r') (h2 : RaceStep r' r'') : RaceStep r r'' where
  stored := by rw [h2.stored, h1.stored]
  pending := by rw [h2.pending, h1.pending]
  subs := by rw [h2.subs, h1.subs]
  booted := by rw [h2.booted, h1.booted]
  shrink := fun k h => h1.shrink k (h2.shrink k h)
  torn := by
    intro hb hd'' hd k hk
    by_cases hd' : r'.downOpen = true
    · exact h2.torn (by rw [h1.booted]; exact hb) hd'' hd' k (by rw [h1.stored]; exact hk)
    · have hd'f : r'.downOpen = false := by simpa using hd'
      have := h1.torn hb hd'f hd k hk
      cases hs : r''.sopen k with
      | false => rfl
      | true => rw [h2.shrink k hs] at this; cases this
  stay := fun h => h2.stay (h1.stay h)

theorem RaceStep.closeAll (ks : List Nat) (r : MSt RaceSt α α) : RaceStep r (ks.foldl MSt.closeSrc r) := by
  have hf := closeAll_fields ks r
  refine ⟨by rw [hf.2.2.2.2.1], by rw [hf.2.2.2.2.1], hf.2.2.2.1, hf.2.2.1, ?_, ?_, ?_⟩
  · intro k h; rw [closeAll_sopen] at h; split at h
    · cases h
    · exact h
  · intro _ h1 h2; rw [hf.2.1, h2] at h1; cases h1
  · intro h; rw [hf.2.1]; exact h

/-- a change of the operator's locals that keeps `stored` and `pending` -/
theorem RaceStep.setSt (r : MSt RaceSt α α) (s' : RaceSt) (h1 : s'.stored = r.st.stored) (h2 : s'.pending = r.st.pending) :
    RaceStep r { r with st := s' } :=
  ⟨h1, h2, rfl, rfl, fun _ h => h, fun _ ha hb => (by rw [show ({ r with st := s' } : MSt RaceSt α α).downOpen = r.downOpen from rfl, hb] at ha; cases ha), fun h => h⟩

theorem RaceStep.drop (r : MSt RaceSt α α) (d : MDrop α α) : RaceStep r { r with drops := r.drops ++ [d] } :=
  ⟨rfl, rfl, rfl, rfl, fun _ h => h, fun _ ha hb => (by rw [show ({ r with drops := r.drops ++ [d] } : MSt RaceSt α α).downOpen = r.downOpen from rfl, hb] at ha; cases ha), fun h => h⟩

theorem RaceStep.emit (n : Nat) (r : MSt RaceSt α α) (x : Notif α) : RaceStep r (r.emit (raceM n) x) := by
  by_cases hd : r.downOpen = true
  · by_cases hx : x.isTerminal = true
    · by_cases hb : r.booted = true
      · rw [emit_open_term (raceM n) r x hd hx hb]
        refine ⟨by simp [raceM_teardown], by simp [raceM_teardown], by simp, by simp, ?_, ?_, ?_⟩
        · intro k h; rw [runTeardown_sopen] at h; split at h
          · cases h
          · exact h
        · intro _ _ _ k hk; rw [runTeardown_sopen, raceM_teardown]; simp [hk]
        · intro h; rw [hd] at h; cases h
      · have he : r.emit (raceM n) x = { r with out := r.out ++ [x], downOpen := false } := by
          unfold MSt.emit; simp [hd, hx, hb]
        rw [he]
        exact ⟨rfl, rfl, rfl, rfl, fun _ h => h, fun h => absurd h hb, fun h => (by simp [hd] at h)⟩
    · rw [emit_open_next (raceM n) r x hd (by simpa using hx)]
      exact ⟨rfl, rfl, rfl, rfl, fun _ h => h, fun _ h1 => (by simp [hd] at h1), fun h => (by simp [hd] at h)⟩
  · rw [emit_closed (raceM n) r x (by simpa using hd)]
    exact RaceStep.drop r _

/-- the three callbacks of source `j` -/
theorem RaceStep.react (n : Nat) (cfg : Sources α) (rec) (j : Nat) (x : Notif α) (r : MSt RaceSt α α) :
    RaceStep r (phases (raceM n) cfg rec ((raceM n).react j x) r) := by
  have hr : (raceM (α := α) n).react j x = [raceReact j x] := rfl
  rw [hr]
  show RaceStep r (phase (raceM n) cfg rec r (raceReact j x))
  unfold phase raceReact
  simp only []
  generalize hs' : (if r.st.won = -1 then { r.st with won := Int.ofNat j } else r.st) = s'
  have hst : s'.stored = r.st.stored ∧ s'.pending = r.st.pending := by
    subst hs'; split <;> exact ⟨rfl, rfl⟩
  by_cases hwin : s'.won = Int.ofNat j
  · -- forwarded, then unsubscribeOthers(j)
    simp only [hwin, if_true, List.cons_append, List.nil_append, List.foldl_cons, act, RaceSt.others]
    rw [foldl_act_unsub]
    exact (RaceStep.setSt r s' hst.1 hst.2).trans ((RaceStep.emit n _ x).trans (RaceStep.closeAll _ _))
  · simp only [hwin, if_false, List.foldl_nil]
    exact RaceStep.setSt r s' hst.1 hst.2

theorem RaceStep.deliver (n : Nat) (cfg : Sources α) (d : Nat) (j : Nat) (r : MSt RaceSt α α) (x : Notif α) :
    RaceStep r (deliver (raceM n) (phasesAt (raceM n) cfg d) j r x) := by
  obtain ⟨rec, hrec⟩ := phasesAt_is_phases (raceM (α := α) n) cfg d
  unfold Ro.Multi.deliver
  split
  · rw [hrec]
    refine RaceStep.trans ?_ (RaceStep.react n cfg rec j x _)
    split
    · exact RaceStep.closeAll [j] r
    · exact RaceStep.refl r
  · exact RaceStep.drop r _

theorem RaceStep.script (n : Nat) (cfg : Sources α) (d : Nat) (j : Nat) (l : List (Notif α)) (r : MSt RaceSt α α) :
    RaceStep r (l.foldl (Ro.Multi.deliver (raceM n) (phasesAt (raceM n) cfg d) j) r) := by
  induction l generalizing r with
  | nil => exact RaceStep.refl r
  | cons x xs ih => exact RaceStep.trans (RaceStep.deliver n cfg d j r x) (ih _)

theorem RaceStep.feedAll (n : Nat) (cfg : Sources α) (evs : List (MEvent α)) (r : MSt RaceSt α α) :
    RaceStep r (feedAll (raceM n) cfg r evs) := by
  induction evs generalizing r with
  | nil => exact RaceStep.refl r
  | cons e es ih =>
    refine RaceStep.trans ?_ (ih (feed (raceM n) cfg r e))
    unfold feed
    split
    · exact RaceStep.refl r
    · exact RaceStep.deliver n cfg _ e.1 r e.2

theorem RaceHeld.step {r r' : MSt RaceSt α α} (h : RaceHeld r) (hs : RaceStep r r') : RaceHeld r' := by
  intro k h1 h2
  rw [hs.stored, hs.pending]
  exact h k (by rw [← hs.subs]; exact h1) (hs.shrink k h2)

/-- while the subscribe function runs -/
structure RaceBI (x : Option Nat) (r : MSt RaceSt α α) : Prop where
  held : RaceHeld r
  pending : r.st.pending = x
  booted : r.booted = false

/-- after it has returned: additionally, once the output has ended nothing is held -/
structure RaceRI (r : MSt RaceSt α α) : Prop where
  held : RaceHeld r
  pending : r.st.pending = none
  booted : r.booted = true
  done : r.downOpen = false → ∀ k, r.subs k ≠ 0 → r.sopen k = false

theorem RaceBI.step {x} {r r' : MSt RaceSt α α} (h : RaceBI x r) (hs : RaceStep r r') : RaceBI x r' :=
  ⟨h.held.step hs, by rw [hs.pending]; exact h.pending, by rw [hs.booted]; exact h.booted⟩

theorem RaceRI.step {r r' : MSt RaceSt α α} (h : RaceRI r) (hs : RaceStep r r') : RaceRI r' := by
  refine ⟨h.held.step hs, by rw [hs.pending]; exact h.pending, by rw [hs.booted]; exact h.booted, ?_⟩
  intro hd' k hk
  cases hso : r'.sopen k with
  | false => rfl
  | true =>
    have hko : r.sopen k = true := hs.shrink k hso
    have hks : r.subs k ≠ 0 := by rw [← hs.subs]; exact hk
    by_cases hd : r.downOpen = true
    · cases h.held k hks hko with
      | inl hmem => rw [hs.torn h.booted hd' hd k hmem] at hso; cases hso
      | inr hp => rw [h.pending] at hp; cases hp
    · have := h.done (by simpa using hd) k hks
      rw [this] at hko; cases hko

/-- the state right after `all[j].SubscribeWithContext` has created source `j`'s subscriber -/
def raceSubscribed (r : MSt RaceSt α α) (j : Nat) (sub : Ctx) : MSt RaceSt α α :=
  { r with
    st := { r.st with pending := some j }
    subs := setAt r.subs j (r.subs j + 1)
    sopen := setAt r.sopen j true
    sctx := setAt r.sctx j sub }

/-- one round of the subscribe loop (operator_combining.go:1040-1086) -/
theorem race_body_BI (n : Nat) (cfg : Sources α) (d : Nat) (sub : Ctx) (j : Nat) (r : MSt RaceSt α α) (h : RaceBI none r) :
    RaceBI none (phases (raceM n) cfg (phasesAt (raceM n) cfg d) (raceBody sub j) r) := by
  simp only [raceBody, phases, List.foldl_cons, List.foldl_nil]
  -- first half: subscribe (or skip)
  have hA : ∃ r1, phase (raceM n) cfg (phasesAt (raceM n) cfg d) r
      (fun s => if s.won != -1 then ({ s with pending := none }, []) else ({ s with pending := some j }, [.sub j sub])) = r1 ∧
      (RaceBI none r1 ∨ RaceBI (some j) r1) := by
    refine ⟨_, rfl, ?_⟩
    unfold phase
    by_cases hw : (r.st.won != -1) = true
    · left
      simp only [hw, if_true, List.foldl_nil]
      exact ⟨fun k h1 h2 => h.held k h1 h2 |>.elim Or.inl (fun hp => by rw [h.pending] at hp; cases hp), rfl, h.booted⟩
    · right
      have hw' : (r.st.won != -1) = false := by simpa using hw
      simp only [hw', Bool.false_eq_true, if_false, List.foldl_cons, List.foldl_nil, act]
      have hsub : RaceBI (some j) (raceSubscribed r j sub) := by
        refine ⟨?_, rfl, h.booted⟩
        intro k h1 h2
        by_cases hk : k = j
        · right; rw [hk]; rfl
        · left
          simp only [raceSubscribed, setAt, hk, if_false] at h1 h2
          cases h.held k h1 h2 with
          | inl hm => exact hm
          | inr hp => rw [h.pending] at hp; cases hp
      split
      · exact hsub.step (RaceStep.script n cfg d j _ (raceSubscribed r j sub))
      · exact hsub
  obtain ⟨r1, hr1, hcase⟩ := hA
  rw [hr1]
  -- second half: store / unsubscribe
  unfold phase
  cases hcase with
  | inl hn =>
    have : (r1.st.pending = some j) = False := by rw [hn.pending]; simp
    simp only [this, if_false, List.foldl_nil]
    exact hn
  | inr hs =>
    simp only [hs.pending, if_true]
    split
    · simp only [List.foldl_nil]
      refine ⟨?_, rfl, hs.booted⟩
      intro k h1 h2
      left
      cases hs.held k h1 h2 with
      | inl hm => simp [hm]
      | inr hp => rw [hs.pending] at hp; cases hp; simp
    · simp only [List.foldl_cons, List.foldl_nil, act]
      refine ⟨?_, rfl, hs.booted⟩
      intro k h1 h2
      left
      simp only [closeSrc_sopen] at h2
      split at h2
      · cases h2
      · rename_i hkj
        cases hs.held k h1 h2 with
        | inl hm => exact hm
        | inr hp => rw [hs.pending] at hp; cases hp; exact absurd rfl hkj

theorem race_boot_RI (n : Nat) (cfg : Sources α) (sub : Ctx) : RaceRI (bootSt (raceM (α := α) n) cfg sub) := by
  have hb : (raceM (α := α) n).boot sub = (List.range n).flatMap (raceBody sub) := rfl
  have hloop : ∀ (l : List Nat) (r : MSt RaceSt α α), RaceBI none r →
      RaceBI none (phases (raceM n) cfg (phasesAt (raceM n) cfg cfg.n) (l.flatMap (raceBody sub)) r) := by
    intro l
    induction l with
    | nil => intro r h; simpa [phases] using h
    | cons j js ih =>
      intro r h
      have h1 := race_body_BI n cfg cfg.n sub j r h
      have := ih _ h1
      simp only [phases, List.flatMap_cons, List.foldl_append] at this h1 ⊢
      exact this
  have h0 : RaceBI none ({ st := (raceM (α := α) n).init } : MSt RaceSt α α) :=
    ⟨fun k h1 _ => absurd rfl h1, rfl, rfl⟩
  have hB := hloop (List.range n) _ h0
  unfold bootSt
  simp only [phasesAt_depth, hb]
  split
  · rename_i hd
    exact ⟨hB.held, hB.pending, rfl, fun h => by simp [hd] at h⟩
  · refine ⟨?_, ?_, ?_, ?_⟩
    · intro k h1 h2
      rw [runTeardown_sopen, raceM_teardown] at h2
      split at h2
      · cases h2
      · rw [runTeardown_st, raceM_teardown]
        simp only [runTeardown_subs] at h1
        exact hB.held k h1 h2
    · rw [runTeardown_st, raceM_teardown]; exact hB.pending
    · simp
    · intro _ k hk
      rw [runTeardown_sopen, raceM_teardown]
      split
      · rfl
      · rename_i hnot
        simp only [runTeardown_subs] at hk
        cases hso : (phases (raceM n) cfg (phasesAt (raceM n) cfg cfg.n) ((List.range n).flatMap (raceBody sub))
            ({ st := (raceM (α := α) n).init } : MSt RaceSt α α)).sopen k with
        | false => rfl
        | true =>
          cases hB.held k hk hso with
          | inl hm => exact absurd hm hnot
          | inr hp => rw [hB.pending] at hp; cases hp

/-- **the output has ended ⇒ every subscribed source is released** — hot or synchronous sources alike -/
theorem race_done_releases (n : Nat) (cfg : Sources α) (sub : Ctx) (evs : List (MEvent α)) (k : Nat)
    (hd : (feedAll (raceM n) cfg (bootSt (raceM n) cfg sub) evs).downOpen = false)
    (hk : (feedAll (raceM n) cfg (bootSt (raceM n) cfg sub) evs).subs k ≠ 0) :
    (feedAll (raceM n) cfg (bootSt (raceM n) cfg sub) evs).sopen k = false :=
  ((race_boot_RI n cfg sub).step (RaceStep.feedAll n cfg evs _)).done hd k hk

/-- **an external `Unsubscribe` at any moment releases every subscribed source, and it stays released** —
    hot or synchronous sources alike -/
theorem race_cut_releases_any (n : Nat) (cfg : Sources α) (sub : Ctx) (evs evs' : List (MEvent α)) (k : Nat)
    (hk : (feedAll (raceM n) cfg ((feedAll (raceM n) cfg (bootSt (raceM n) cfg sub) evs).cut (raceM n)) evs').subs k ≠ 0) :
    (feedAll (raceM n) cfg ((feedAll (raceM n) cfg (bootSt (raceM n) cfg sub) evs).cut (raceM n)) evs').sopen k = false := by
  have hRI := (race_boot_RI n cfg sub).step (RaceStep.feedAll n cfg evs _)
  generalize feedAll (raceM n) cfg (bootSt (raceM n) cfg sub) evs = f at hRI hk ⊢
  have hcut : ∀ j, (f.cut (raceM n)).subs j = 0 ∨ (f.cut (raceM n)).sopen j = false := by
    intro j
    by_cases hj : f.subs j = 0
    · left; rw [cut_subs]; exact hj
    · right
      unfold MSt.cut
      split
      · rw [runTeardown_sopen, raceM_teardown]
        split
        · rfl
        · rename_i hnot
          cases hso : f.sopen j with
          | false => rfl
          | true =>
            cases hRI.held j hj hso with
            | inl hm => exact absurd hm hnot
            | inr hp => rw [hRI.pending] at hp; cases hp
      · rename_i hd
        exact hRI.done (by simpa using hd) j hj
  have hac := feedAll_allClosed (raceM n) cfg evs' _ hcut
  rw [hac.1]
  rw [hac.2.1] at hk
  cases hcut k with
  | inl h0 => exact absurd h0 hk
  | inr h0 => exact h0

end Ro.Multi

/-
  RoProofs.ResubGen — lemmas about the meaning of loop programs (RoModel/ResubGen.lean) shared by the
  per-operator proofs of RoProps/C15gen.lean: the fold from the list of happenings to a `Result` is a
  homomorphism, and an attempt / a final emission in that list is `Result.after` / `Result.stop`.
-/
import RoModel.ResubGen
namespace Ro.Resub.Gen
open Ro Ro.Resub

theorem rawsOf_append (a b : List Out) : rawsOf (a ++ b) = rawsOf a ++ rawsOf b := by
  induction a with
  | nil => rfl
  | cons x xs ih => cases x <;> simp [rawsOf, ih]

theorem evsOf_append (a b : List Out) : evsOf (a ++ b) = evsOf a ++ evsOf b := by
  induction a with
  | nil => rfl
  | cons x xs ih => cases x <;> simp [evsOf, ih]

theorem attemptsOf_append (a b : List Out) : attemptsOf (a ++ b) = attemptsOf a + attemptsOf b := by
  induction a with
  | nil => simp [attemptsOf]
  | cons x xs ih =>
    cases x with
    | ev e => cases e <;> simp [attemptsOf, ih] <;> omega
    | _ => simp [attemptsOf, ih]

theorem evalsOf_append (a b : List Out) : evalsOf (a ++ b) = evalsOf a + evalsOf b := by
  induction a with
  | nil => simp [evalsOf]
  | cons x xs ih => cases x <;> simp [evalsOf, ih] <;> omega

@[simp] theorem rawsOf_feed (l : List (Notif Int)) : rawsOf (feedOuts l) = l := by
  induction l with
  | nil => rfl
  | cons x xs ih => simp [feedOuts, rawsOf] at *; exact ih

@[simp] theorem evsOf_feed (l : List (Notif Int)) : evsOf (feedOuts l) = [] := by
  induction l with
  | nil => rfl
  | cons x xs ih => simp [feedOuts, evsOf] at *; exact ih

@[simp] theorem attemptsOf_feed (l : List (Notif Int)) : attemptsOf (feedOuts l) = 0 := by
  induction l with
  | nil => rfl
  | cons x xs ih => simp [feedOuts, attemptsOf] at *; exact ih

@[simp] theorem evalsOf_feed (l : List (Notif Int)) : evalsOf (feedOuts l) = 0 := by
  induction l with
  | nil => rfl
  | cons x xs ih => simp [feedOuts, evalsOf] at *; exact ih

theorem feedOuts_append (a b : List (Notif Int)) : feedOuts (a ++ b) = feedOuts a ++ feedOuts b := by
  simp [feedOuts]

theorem feedB_append (b : Option Nat) (x y : List (Notif Int)) : feedB b (x ++ y) = feedB (feedB b x) y := by
  simp [feedB, List.foldl_append]

/-- the `Next` callback `destination.NextWithContext` over the values of an attempt -/
theorem playVals_forward {σ : Type} (c : Ctx) (dN : Ctx → Int → Den σ)
    (h : ∀ x v l w, dN x v (l, w) = (.normal, (l, { w with b := pushB w.b (.next x v) }), [.raw (.next x v)]))
    (vals : List (Nat × Int)) : ∀ (l : σ) (w : World),
    playVals c dN vals (l, w)
      = ((l, { w with b := feedB w.b (vals.map (fun p => Notif.next (tagM c p.1) p.2)) }),
         feedOuts (vals.map (fun p => Notif.next (tagM c p.1) p.2))) := by
  induction vals with
  | nil => intro l w; simp [playVals, feedB, feedOuts]
  | cons p ps ih =>
    intro l w
    rw [playVals, h]
    simp only [ih]
    simp [feedB, feedOuts]

/-- a loop that ends normally or by `return`, followed by the final `return` -/
theorem loop_then_ret {σ : Type} (r : Sig × St σ × List Out) (R : Result) (h1 : r.1 = .normal ∨ r.1 = .ret)
    (h2 : Result.ofOuts r.2.2 = R) :
    ((match r with
        | (Sig.normal, s1, o1) => (Sig.ret, s1, o1 ++ [])
        | r => r).1,
      Result.ofOuts (match r with
        | (Sig.normal, s1, o1) => (Sig.ret, s1, o1 ++ [])
        | r => r).2.2) = (Sig.ret, R) := by
  obtain ⟨g, s, o⟩ := r
  rcases h1 with h1 | h1 <;> simp at h1 <;> subst h1 <;> simp at h2 ⊢ <;> exact h2

end Ro.Resub.Gen

/-
  RoProofs.SeqEq — SequenceEqual: what the code computes for every pair of finite sequences, where that is the documented
  function, and where it is not.
-/
import RoModel.Ops.SeqEq
namespace Ro.SeqEq
open Ro

/-- both complete: the code answers whether the two sequences agree on their COMMON length -/
theorem play_complete (a b : List Int) :
    play a b .complete = [.val (decide (a.take b.length = b.take a.length)), .complete] := by
  induction a generalizing b with
  | nil => simp [play]
  | cons x q ih =>
    cases b with
    | nil => simp [play]
    | cons y b =>
      simp only [play]
      by_cases h : x = y
      · subst h; simp [ih b]
      · simp [h]

/-- PARTIAL: for sequences of equal length the code computes the documented function -/
theorem impl_spec_partial (a b : List Int) (h : a.length = b.length) :
    impl a .complete b .complete = spec a .complete b .complete := by
  simp only [impl, spec, play_complete]
  rw [h, List.take_length, ← h, List.take_length]

/-- an error of the first source is forwarded as the documented function says -/
theorem impl_error_first (a b : List Int) (e : Err) (endb : End) : impl a (.error e) b endb = spec a (.error e) b endb := by
  cases endb <;> rfl

/-- DEVIATION, for every pair: when one sequence is a proper prefix of the other the code answers `true` -/
theorem impl_prefix_true (a ext : List Int) : impl a .complete (a ++ ext) .complete = [.val true, .complete] ∧
    impl (a ++ ext) .complete a .complete = [.val true, .complete] := by
  have h : List.take (a.length + ext.length) a = a := List.take_of_length_le (by omega)
  constructor <;> simp [impl, play_complete, h]

/-- WITNESS (pinned by TestOperatorConditionalSequenceEqual): the empty sequence "equals" 1,2,3 -/
theorem length_witness : impl [] .complete [1, 2, 3] .complete = [.val true, .complete] ∧
    spec [] .complete [1, 2, 3] .complete = [.val false, .complete] := by decide

/-- an error of the second source that arrives after the common part has been used up is not seen either -/
theorem late_error_witness : impl [1] .complete [1, 2] (.error (.user 3)) = [.val true, .complete] ∧
    spec [1] .complete [1, 2] (.error (.user 3)) = [.error (.user 3)] := by decide

end Ro.SeqEq

/-
  RoProofs.TimedDelay — Delay never delivers early and never reorders (C16), for every source
  timeline and every firing order / firing instants of the AfterFunc callbacks that respect
  "never early". The pigeonhole argument of DESIGN.md §5/C16: when the m-th callback (in the order in
  which they take `muQueue`) runs, m+1 distinct timers have fired, so one of them has index ≥ m; it was
  armed no earlier than timer m, hence `d` has elapsed since emission m — and the queue is FIFO.
-/
import RoProofs.TimedBasic
namespace Ro.Timed

/-- pigeonhole: distinct naturals below `m` are at most `m` -/
theorem nodup_length_le : ∀ (m : Nat) (l : List Nat), l.Nodup → (∀ x ∈ l, x < m) → l.length ≤ m
  | 0, l, _, hb => by
    cases l with
    | nil => simp
    | cons a as => exact absurd (hb a (List.mem_cons_self)) (Nat.not_lt_zero a)
  | m + 1, l, hn, hb => by
    by_cases hm : m ∈ l
    · have hn' := hn.erase m
      have hlen := List.length_erase_of_mem hm
      have hb' : ∀ x ∈ l.erase m, x < m := by
        intro x hx
        have := (List.Nodup.mem_erase_iff hn).1 hx
        have := hb x this.2
        have := this
        omega
      have := nodup_length_le m (l.erase m) hn' hb'
      have hpos : 0 < l.length := List.length_pos_of_mem hm
      omega
    · have hb' : ∀ x ∈ l, x < m := by
        intro x hx
        have h1 := hb x hx
        have h2 : x ≠ m := fun h => hm (h ▸ hx)
        omega
      have := nodup_length_le m l hn hb'
      omega

theorem exists_ge_of_nodup (m : Nat) (l : List Nat) (hn : l.Nodup) (hl : m < l.length) : ∃ x ∈ l, m ≤ x := by
  by_cases h : ∃ x ∈ l, m ≤ x
  · exact h
  · exfalso
    have hb : ∀ x ∈ l, x < m := by
      intro x hx
      rcases Nat.lt_or_ge x m with h' | h'
      · exact h'
      · exact absurd ⟨x, hx, h'⟩ h
    have := nodup_length_le m l hn hb
    omega

theorem sorted_getElem?_le {emits : List (Time × TN)} (hs : emits.Pairwise (fun x y => x.1 ≤ y.1))
    {i j : Nat} {a b : Time × TN} (hij : i ≤ j) (ha : emits[i]? = some a) (hb : emits[j]? = some b) : a.1 ≤ b.1 := by
  rcases Nat.lt_or_eq_of_le hij with h | h
  · obtain ⟨hi, rfl⟩ := List.getElem?_eq_some_iff.1 ha
    obtain ⟨hj, rfl⟩ := List.getElem?_eq_some_iff.1 hb
    exact (List.pairwise_iff_getElem.1 hs) i j hi hj h
  · subst h; rw [ha] at hb; cases hb; exact Nat.le_refl _

/-- The m-th callback pops the m-th emission, and `d` has elapsed since that emission. -/
theorem delayPops_spec (d : Nat) (emits : List (Time × TN)) (hs : emits.Pairwise (fun x y => x.1 ≤ y.1)) :
    ∀ (fs pre : List (Time × Nat)),
      (pre ++ fs).Pairwise (fun x y => x.1 ≤ y.1) → ((pre ++ fs).map (·.2)).Nodup →
      (∀ f ∈ pre ++ fs, ∃ e, emits[f.2]? = some e ∧ e.1 + d ≤ f.1) →
      ∀ k dl, (delayPops emits fs pre.length)[k]? = some dl →
        ∃ e, emits[pre.length + k]? = some e ∧ dl.n = e.2 ∧ e.1 + d ≤ dl.t0 ∧ dl.t0 = dl.t1
  | [], pre, _, _, _, k, dl, h => by simp [delayPops] at h
  | f :: fs, pre, hsort, hnd, hne, k, dl, h => by
    -- m+1 distinct timers have fired: one of them has index ≥ m
    have hassoc : pre ++ f :: fs = (pre ++ [f]) ++ fs := by simp
    have hnd' : ((pre ++ [f]).map (·.2)).Nodup := by
      rw [hassoc, List.map_append] at hnd
      exact (List.nodup_append.1 hnd).1
    have hlen : pre.length < ((pre ++ [f]).map (·.2)).length := by simp
    obtain ⟨x, hx, hmx⟩ := exists_ge_of_nodup pre.length _ hnd' hlen
    obtain ⟨g, hg, rfl⟩ := List.mem_map.1 hx
    have hgf : g.1 ≤ f.1 := by
      rcases List.mem_append.1 hg with hgp | hgf
      · exact (List.pairwise_append.1 hsort).2.2 g hgp f (List.mem_cons_self)
      · simp at hgf; subst hgf; exact Nat.le_refl _
    have hgmem : g ∈ pre ++ f :: fs := by
      rw [hassoc]; exact List.mem_append_left _ hg
    obtain ⟨e', he', hde'⟩ := hne g hgmem
    have hmx' : pre.length ≤ g.2 := hmx
    have hlt : pre.length < emits.length := by
      have := (List.getElem?_eq_some_iff.1 he').1
      omega
    have hem : emits[pre.length]? = some emits[pre.length] := List.getElem?_eq_getElem hlt
    have hle : (emits[pre.length]).1 ≤ e'.1 := sorted_getElem?_le hs hmx' hem he'
    have hfire : (emits[pre.length]).1 + d ≤ f.1 := by omega
    have hpop : delayPops emits (f :: fs) pre.length
        = Ev.at f.1 (emits[pre.length]).2 :: delayPops emits fs (pre.length + 1) := by
      have : (emits[pre.length]).1 ≤ f.1 := by omega
      simp [delayPops, hem, this]
    rw [hpop] at h
    cases k with
    | zero =>
      simp at h; subst h
      exact ⟨emits[pre.length], by simp, rfl, hfire, rfl⟩
    | succ k =>
      simp only [List.getElem?_cons_succ] at h
      have hl : (pre ++ [f]).length = pre.length + 1 := by simp
      have := delayPops_spec d emits hs fs (pre ++ [f]) (hassoc ▸ hsort) (hassoc ▸ hnd)
        (by intro f' hf'; exact hne f' (hassoc ▸ hf')) k dl (by rw [hl]; exact h)
      rw [hl] at this
      have hidx : pre.length + 1 + k = pre.length + (k + 1) := by omega
      rw [hidx] at this
      exact this

/-- **Delay never acts early and never reorders** (DESIGN.md Appendix A, `delay_never_early`):
    in every run whose environment respects "never early", the k-th delivery is the k-th emitted
    notification and happens no sooner than `d` after it was emitted. -/
theorem delay_never_early (r : DelayRun) (h : DelayWF r) :
    ∀ (k : Nat) (dl : Ev), (delayTrace r).dels[k]? = some dl →
      ∃ e : Time × TN, r.emits[k]? = some e ∧ dl.n = e.2 ∧ e.1 + r.d ≤ dl.t0 := by
  intro k dl hk
  have h1 : (delayPops r.emits r.fires 0)[k]? = some dl := down_getElem? hk
  have := delayPops_spec r.d r.emits h.emitsSorted r.fires [] (by simpa using h.firesSorted)
    (by simpa using h.nodup) (by simpa using h.neverEarly) k dl (by simpa using h1)
  obtain ⟨e, he, hn, ht, _⟩ := this
  exact ⟨e, by simpa using he, hn, ht⟩

/-- every run of the Delay model satisfies the clause of C16, hence is accepted -/
theorem delay_model_clause (r : DelayRun) (h : DelayWF r) :
    Clause { op := .delay, d := r.d } (delayTrace r) := by
  refine ⟨grammarOK_down _ r.unsub _ rfl, silentOK_down _ r.unsub _ rfl rfl, ?_⟩
  apply opOK_of_getElem?
  intro k dl hk
  obtain ⟨e, he, hn, ht⟩ := delay_never_early r h k dl hk
  show DelayAt r.d (delayTrace r) k dl
  unfold DelayAt
  have : (delayTrace r).emits[k]? = some (Ev.at e.1 e.2) := by
    simp [delayTrace, he]
  rw [this]
  exact ⟨hn, ht⟩

theorem delay_model_accepts (r : DelayRun) (h : DelayWF r) :
    accepts { op := .delay, d := r.d } (delayTrace r) = true :=
  decide_eq_true (delay_model_clause r h)

/-- silence: nothing is delivered after the instant the teardown took effect -/
theorem delay_silent_after_unsub (r : DelayRun) (u : Time) (hu : r.unsub = some u) :
    ∀ dl ∈ (delayTrace r).dels, dl.t0 ≤ u := by
  intro dl hdl
  simp only [delayTrace, down, hu] at hdl
  exact mem_cutAt_some hdl

-- non-vacuity: three emissions in a burst, callbacks run out of timer order and late
def exRun : DelayRun :=
  { d := 5, sub := 0, emits := [(1, .next 1), (1, .next 2), (2, .complete)], fires := [(6, 1), (7, 0), (9, 2)], unsub := none }
example : (delayTrace exRun).dels = [Ev.at 6 (.next 1), Ev.at 7 (.next 2), Ev.at 9 .complete] := by decide
example : DelayWF exRun := ⟨by decide, by decide, by decide, by decide⟩
-- a timer that fires early is exactly what the clause excludes
example : ¬ Clause { op := .delay, d := 5 }
    (delayTrace { d := 5, sub := 0, emits := [(1, .next 1)], fires := [(3, 0)], unsub := none }) := by decide

end Ro.Timed

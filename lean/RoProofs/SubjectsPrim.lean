/-
  RoProofs.SubjectsPrim — the state invariant of the subjects and closed forms of the primitives
  (gate, teardown, replay, broadcast) on states that satisfy it.
-/
import RoProofs.Subjects
namespace Ro.Subj
open Ro Ro.Subj.Spec

variable {α : Type}

/-- what holds in every reachable state of every subject:
    registered subscribers are used, open and have their teardown pending; a pending teardown
    belongs to a registered subscriber; no subscriber is registered twice; a terminated subject
    has no registered subscriber. -/
structure Inv (s : State α) : Prop where
  live : ∀ i ∈ s.observers, (s.sub i).used = true ∧ (s.sub i).status = 0 ∧ (s.sub i).td = true
  td : ∀ i, (s.sub i).td = true → i ∈ s.observers
  nodup : s.observers.Nodup
  closed : s.status ≠ .active → s.observers = []

theorem Inv.not_mem_of_unused {s : State α} (h : Inv s) {i : Nat} (hu : (s.sub i).used = false) : i ∉ s.observers := by
  intro hm
  have := (h.live i hm).1
  rw [hu] at this; cases this

theorem Inv.td_false {s : State α} (h : Inv s) {i : Nat} (hi : i ∉ s.observers) : (s.sub i).td = false := by
  cases ht : (s.sub i).td with
  | false => rfl
  | true => exact absurd (h.td i ht) hi

theorem modSub_modSub (s : State α) (i : Nat) (f g : Sub α → Sub α) :
    (s.modSub i f).modSub i g = s.modSub i (fun x => g (f x)) := by
  apply State.ext' <;> try rfl
  funext j
  by_cases hj : j = i <;> simp [hj]

theorem modSub_congr (s : State α) (i : Nat) (f g : Sub α → Sub α) (h : f (s.sub i) = g (s.sub i)) :
    s.modSub i f = s.modSub i g := by
  apply State.ext' <;> try rfl
  funext j
  by_cases hj : j = i
  · subst hj; simp [h]
  · simp [hj]

theorem modSub_id (s : State α) (i : Nat) (f : Sub α → Sub α) (h : f (s.sub i) = s.sub i) : s.modSub i f = s := by
  apply State.ext' <;> try rfl
  funext j
  by_cases hj : j = i
  · subst hj; simp [h]
  · simp [hj]

/-! ### the gate on an open subscriber -/

theorem subNext_open {s : State α} {i : Nat} (h : (s.sub i).status = 0) (c : Ctx) (v : α) :
    subNext s i c v = s.modSub i (fun x => { x with got := x.got ++ [.next c v] }) := by
  simp [subNext, h]

theorem replayTo_open : ∀ (vs : List (Ctx × α)) (s : State α) (i : Nat), (s.sub i).status = 0 →
    replayTo s i vs = s.modSub i (fun x => { x with got := x.got ++ nexts vs })
  | [], s, i, _ => by
    simp only [replayTo, List.foldl_nil, nexts, List.map_nil, List.append_nil]
    exact (modSub_id s i _ rfl).symm
  | p :: vs, s, i, h => by
    have h1 : replayTo s i (p :: vs) = replayTo (subNext s i p.1 p.2) i vs := rfl
    rw [h1, subNext_open h, replayTo_open vs _ i (by simpa using h), modSub_modSub]
    apply modSub_congr
    simp [nexts]

/-- a terminal delivered to an open subscriber whose teardown is pending (registered with a
    multicast subject): it is closed, gets the terminal, and is deleted from the map -/
theorem subTerminal_delete_reg {s : State α} {i : Nat} (h0 : (s.sub i).status = 0) (ht : (s.sub i).td = true)
    (n : Notif α) :
    subTerminal .delete s i n =
      { s with observers := s.observers.filter (· != i),
               sub := fun j => if j = i then { s.sub j with status := termCode n, td := false, got := (s.sub j).got ++ [n] } else s.sub j } := by
  unfold subTerminal runTeardown
  simp only [h0, if_true, modSub_sub, ht]
  apply State.ext' <;> try rfl
  funext j
  by_cases hj : j = i <;> simp [hj]

/-- a terminal delivered to an open subscriber without teardown (a late subscriber: `Subscribe`
    returns before `Add`): it is closed and gets the terminal; the subject is untouched -/
theorem subTerminal_open_notd {s : State α} {i : Nat} (m : TD) (h0 : (s.sub i).status = 0) (ht : (s.sub i).td = false)
    (n : Notif α) :
    subTerminal m s i n = s.modSub i (fun x => { x with status := termCode n, got := x.got ++ [n] }) := by
  unfold subTerminal runTeardown
  simp [h0, ht]

/-! ### broadcasts over the registered subscribers -/

theorem foldl_subNext (c : Ctx) (v : α) : ∀ (l : List Nat) (s : State α), (∀ j ∈ l, (s.sub j).status = 0) → l.Nodup →
    l.foldl (fun s i => subNext s i c v) s =
      { s with sub := fun j => if j ∈ l then { s.sub j with got := (s.sub j).got ++ [.next c v] } else s.sub j }
  | [], s, _, _ => by simp
  | i :: l, s, h0, hn => by
    have hi : i ∉ l := (List.nodup_cons.mp hn).1
    rw [List.foldl_cons, subNext_open (h0 i (by simp)),
      foldl_subNext c v l _ (by
        intro j hj
        have hji : j ≠ i := fun e => hi (e ▸ hj)
        simpa [hji] using h0 j (by simp [hj])) (List.nodup_cons.mp hn).2]
    apply State.ext' <;> try rfl
    funext j
    by_cases hj : j = i
    · subst hj; simp [hi]
    · simp [hj]

theorem broadcastNext_eq {s : State α} (hl : ∀ j ∈ s.observers, (s.sub j).status = 0) (hn : s.observers.Nodup)
    (c : Ctx) (v : α) :
    broadcastNext s c v =
      { s with sub := fun j => if j ∈ s.observers then { s.sub j with got := (s.sub j).got ++ [.next c v] } else s.sub j } :=
  foldl_subNext c v s.observers s hl hn

theorem filter_const_true {β : Type} (l : List β) : l.filter (fun _ => true) = l := by
  induction l with
  | nil => rfl
  | cons a l ih => simp [ih]

theorem foldl_subTerminal (n : Notif α) : ∀ (l : List Nat) (s : State α),
    (∀ j ∈ l, (s.sub j).status = 0 ∧ (s.sub j).td = true) → l.Nodup →
    l.foldl (fun s i => subTerminal .delete s i n) s =
      { s with observers := s.observers.filter (fun x => !l.contains x),
               sub := fun j => if j ∈ l then { s.sub j with status := termCode n, td := false, got := (s.sub j).got ++ [n] } else s.sub j }
  | [], s, _, _ => by
    apply State.ext' <;> simp [filter_const_true]
  | i :: l, s, h0, hn => by
    have hi : i ∉ l := (List.nodup_cons.mp hn).1
    rw [List.foldl_cons, subTerminal_delete_reg (h0 i (by simp)).1 (h0 i (by simp)).2,
      foldl_subTerminal n l _ (by
        intro j hj
        have hji : j ≠ i := fun e => hi (e ▸ hj)
        simpa [hji] using h0 j (by simp [hj])) (List.nodup_cons.mp hn).2]
    apply State.ext'
    · rfl
    · rfl
    · simp only [List.filter_filter]
      apply List.filter_congr
      intro x _
      by_cases hx : x = i <;> simp [hx, Bool.and_comm]
    · funext j
      by_cases hj : j = i
      · subst hj; simp [hi]
      · simp [hj]
    · rfl

theorem broadcastTerminal_eq {s : State α} (hl : ∀ j ∈ s.observers, (s.sub j).status = 0 ∧ (s.sub j).td = true)
    (hn : s.observers.Nodup) (n : Notif α) :
    broadcastTerminal s n =
      { s with observers := [],
               sub := fun j => if j ∈ s.observers then { s.sub j with status := termCode n, td := false, got := (s.sub j).got ++ [n] } else s.sub j } := by
  unfold broadcastTerminal
  rw [foldl_subTerminal n s.observers s hl hn]
  apply State.ext' <;> try rfl
  simp [List.filter_eq_nil_iff]

/-- unsubscribing an open subscriber -/
theorem subUnsubscribe_delete_reg {s : State α} {i : Nat} (h0 : (s.sub i).status = 0) (ht : (s.sub i).td = true) :
    subUnsubscribe .delete s i =
      { s with observers := s.observers.filter (· != i),
               sub := fun j => if j = i then { s.sub j with status := 2, td := false } else s.sub j } := by
  unfold subUnsubscribe runTeardown
  simp only [h0, if_true, modSub_sub, ht]
  apply State.ext' <;> try rfl
  funext j
  by_cases hj : j = i <;> simp [hj]

/-- unsubscribing a subscriber that is not registered changes at most its own status -/
theorem subUnsubscribe_unreg {s : State α} {i : Nat} (m : TD) (ht : (s.sub i).td = false) :
    (subUnsubscribe m s i).observers = s.observers ∧ (subUnsubscribe m s i).status = s.status ∧
    (subUnsubscribe m s i).values = s.values ∧
    (∀ j, ((subUnsubscribe m s i).sub j).got = (s.sub j).got ∧ ((subUnsubscribe m s i).sub j).used = (s.sub j).used ∧
          ((subUnsubscribe m s i).sub j).td = (s.sub j).td ∧ (j ≠ i → (subUnsubscribe m s i).sub j = s.sub j)) := by
  unfold subUnsubscribe runTeardown
  by_cases h0 : (s.sub i).status = 0
  · simp only [h0, if_true, modSub_sub, ht]
    refine ⟨rfl, rfl, rfl, fun j => ?_⟩
    by_cases hj : j = i <;> simp [hj]
  · simp [h0]

end Ro.Subj

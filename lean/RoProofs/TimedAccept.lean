/-
  RoProofs.TimedAccept — soundness of the acceptor, operator by operator, in plain words: whenever
  `accepts cfg trace = true`, the clause C16 states for that operator holds of the trace.
  (`accepts` is the decision procedure of `Clause`, so these are unfoldings — which is the point: the
  executable that judges the observed traces is the proposition the model theorems establish.)
-/
import RoProofs.TimedBasic
namespace Ro.Timed

theorem accepts_iff (cfg : Cfg) (tr : TimedTrace) : accepts cfg tr = true ↔ Clause cfg tr := by
  unfold accepts; exact decide_eq_true_iff

theorem accepts_at {cfg : Cfg} {tr : TimedTrace} (h : accepts cfg tr = true) {k : Nat} {dl : Ev}
    (hk : tr.dels[k]? = some dl) : OpAt cfg tr k dl := by
  obtain ⟨hlt, rfl⟩ := List.getElem?_eq_some_iff.1 hk
  exact ((accepts_iff cfg tr).1 h).2.2 k hlt

/-- nothing is delivered after a terminal -/
theorem accepts_grammar {cfg : Cfg} {tr : TimedTrace} (h : accepts cfg tr = true) {k : Nat} {dl : Ev}
    (hk : tr.dels[k]? = some dl) (ht : dl.n.isTerminal = true) : k + 1 = tr.dels.length := by
  obtain ⟨hlt, rfl⟩ := List.getElem?_eq_some_iff.1 hk
  exact ((accepts_iff cfg tr).1 h).1 k hlt ht

/-- stop when told (1): after an `Unsubscribe` made inside delivery `k`, nothing more is delivered -/
theorem accepts_silent_inside {cfg : Cfg} {tr : TimedTrace} (h : accepts cfg tr = true) {k u0 u1 : Nat}
    (hc : tr.cut = .unsubIn k u0 u1) : tr.dels.length ≤ k + 1 := by
  have := ((accepts_iff cfg tr).1 h).2.1
  unfold SilentOK at this; rw [hc] at this; exact this

/-- stop when told (2): at most one delivery begins after an `Unsubscribe` from another goroutine returned -/
theorem accepts_silent_outside {cfg : Cfg} {tr : TimedTrace} (h : accepts cfg tr = true) {u0 u1 : Nat}
    (hc : tr.cut = .unsubOut u0 u1) : (tr.dels.filter (fun e => decide (u1 < e.t0))).length ≤ 1 := by
  have := ((accepts_iff cfg tr).1 h).2.1
  unfold SilentOK at this; rw [hc] at this; exact this

/-- stop when told (3): after the subscription context was cancelled the stream falls silent — counted,
    not timed: at most `cancelSlack + 2` deliveries, plus one per source call that returned after the
    cancellation, begin after `cancel()` returned, however long the trace was observed -/
theorem accepts_silent_cancel {cfg : Cfg} {tr : TimedTrace} (h : accepts cfg tr = true) {c0 c1 : Nat}
    (hc : tr.cut = .cancel c0 c1) :
    lateCount c1 tr.dels ≤ cancelSlack + 2 + (tr.emits.filter (fun e => decide (c1 < e.t1))).length := by
  have := ((accepts_iff cfg tr).1 h).2.1
  unfold SilentOK at this; rw [hc] at this; exact this

/-- Delay: k-th delivery = k-th emission, at least `d` after it was emitted -/
theorem accepts_delay {cfg : Cfg} {tr : TimedTrace} (hop : cfg.op = .delay) (h : accepts cfg tr = true)
    {k : Nat} {dl : Ev} (hk : tr.dels[k]? = some dl) :
    ∃ e : Ev, tr.emits[k]? = some e ∧ dl.n = e.n ∧ e.t0 + cfg.d ≤ dl.t0 := by
  have := accepts_at h hk
  simp only [OpAt, hop, DelayAt] at this
  split at this
  next e he => exact ⟨e, he, this⟩
  next => exact absurd this id

/-- DelayEach: values at least `d` after they were emitted, in order -/
theorem accepts_delayEach {cfg : Cfg} {tr : TimedTrace} (hop : cfg.op = .delayEach) (h : accepts cfg tr = true)
    {k : Nat} {dl : Ev} (hk : tr.dels[k]? = some dl) :
    ∃ e : Ev, tr.emits[k]? = some e ∧ dl.n = e.n ∧ (e.n.isTerminal = false → e.t0 + cfg.d ≤ dl.t0) := by
  have := accepts_at h hk
  simp only [OpAt, hop, DelayEachAt] at this
  split at this
  next e he =>
    refine ⟨e, he, this.1, ?_⟩
    intro hnt; have h2 := this.2; rw [hnt] at h2; simpa using h2
  next => exact absurd this id

/-- Timeout: the timeout error only after a full quiet period; everything else is the source's, in order -/
theorem accepts_timeout {cfg : Cfg} {tr : TimedTrace} (hop : cfg.op = .timeout) (h : accepts cfg tr = true)
    {k : Nat} {dl : Ev} (hk : tr.dels[k]? = some dl) :
    (dl.n = .error errTimeout → ∃ j, j ≤ k ∧ endBefore tr j + cfg.d ≤ startOf tr j)
    ∧ (dl.n ≠ .error errTimeout → ∃ e : Ev, tr.emits[k]? = some e ∧ dl.n = e.n ∧ e.t0 ≤ dl.t0) := by
  have := accepts_at h hk
  simp only [OpAt, hop, TimeoutAt] at this
  split at this
  next hto =>
    obtain ⟨j, hj, hq⟩ := this
    exact ⟨fun _ => ⟨j, by omega, hq⟩, fun hne => absurd hto hne⟩
  next hnto =>
    refine ⟨fun hto => absurd hto hnto, fun _ => ?_⟩
    split at this
    next e he => exact ⟨e, he, this⟩
    next => exact absurd this id

/-- Interval: the k-th delivery is the value k, not before k+1 periods; never an error -/
theorem accepts_interval {cfg : Cfg} {tr : TimedTrace} (hop : cfg.op = .interval) (h : accepts cfg tr = true)
    {k : Nat} {dl : Ev} (hk : tr.dels[k]? = some dl) :
    (∀ v, dl.n = .next v → v = (k : Int) ∧ tr.sub + (k + 1) * cfg.d ≤ dl.t0)
    ∧ (∀ c, dl.n ≠ .error c) ∧ (dl.n = .complete → CancelledBy tr dl.t0) := by
  have := accepts_at h hk
  simp only [OpAt, hop, IntervalAt] at this
  refine ⟨?_, ?_, ?_⟩
  · intro v hv; rw [hv] at this; exact this
  · intro c hc; rw [hc] at this; exact this
  · intro hc; rw [hc] at this; exact this

/-- IntervalWithInitial: value k not before the initial delay plus k periods; never an error -/
theorem accepts_intervalWithInitial {cfg : Cfg} {tr : TimedTrace} (hop : cfg.op = .intervalWithInitial)
    (h : accepts cfg tr = true) {k : Nat} {dl : Ev} (hk : tr.dels[k]? = some dl) :
    (∀ v, dl.n = .next v → v = (k : Int) ∧ tr.sub + cfg.d2 + k * cfg.d ≤ dl.t0) ∧ (∀ c, dl.n ≠ .error c) := by
  have := accepts_at h hk
  simp only [OpAt, hop, IwiAt] at this
  refine ⟨?_, ?_⟩
  · intro v hv; rw [hv] at this; exact this
  · intro c hc; rw [hc] at this; exact this

/-- Timer: its value not before the duration; the context's error only after cancellation -/
theorem accepts_timer {cfg : Cfg} {tr : TimedTrace} (hop : cfg.op = .timer) (h : accepts cfg tr = true)
    {k : Nat} {dl : Ev} (hk : tr.dels[k]? = some dl) :
    (∀ v, dl.n = .next v → k = 0 ∧ v = (cfg.d : Int) ∧ tr.sub + cfg.d ≤ dl.t0)
    ∧ (∀ c, dl.n = .error c → c = errCancelled ∧ CancelledBy tr dl.t0) := by
  have := accepts_at h hk
  simp only [OpAt, hop, TimerAt] at this
  refine ⟨?_, ?_⟩
  · intro v hv; rw [hv] at this; exact this
  · intro c hc; rw [hc] at this; exact ⟨this.1, this.2.2⟩

/-- RangeWithInterval / RangeWithStepAndInterval: the k-th value is `a ± k·step`, not before k+1 periods, and there are at most ⌈|b-a| / step⌉ -/
theorem accepts_range {cfg : Cfg} {tr : TimedTrace} (hop : cfg.op = .rangeWithInterval) (h : accepts cfg tr = true)
    {k : Nat} {dl : Ev} (hk : tr.dels[k]? = some dl) (v : Int) (hv : dl.n = .next v) :
    k < rangeCount cfg.a cfg.b cfg.step ∧ v = rangeVal cfg.a cfg.b cfg.step k
      ∧ tr.sub + (k + 1) * cfg.d ≤ dl.t0 := by
  have := accepts_at h hk
  simp only [OpAt, hop, RangeAt] at this
  rw [hv] at this; exact this

/-- … and the completion comes after exactly ⌈|b-a| / step⌉ values, or after a cancellation -/
theorem accepts_range_complete {cfg : Cfg} {tr : TimedTrace} (hop : cfg.op = .rangeWithInterval) (h : accepts cfg tr = true)
    {k : Nat} {dl : Ev} (hk : tr.dels[k]? = some dl) (hc : dl.n = .complete) :
    k = rangeCount cfg.a cfg.b cfg.step ∨ CancelledBy tr dl.t0 := by
  have := accepts_at h hk
  simp only [OpAt, hop, RangeAt] at this
  rw [hc] at this; exact this

/-- ThrottleTime: what passes comes from the source, later in the source than the previous pass, and
    a value passes no sooner than the window after the emission of the previous one that passed -/
theorem accepts_throttle {cfg : Cfg} {tr : TimedTrace} (hop : cfg.op = .throttleTime) (h : accepts cfg tr = true)
    {k : Nat} {dl pd : Ev} (hk : tr.dels[k+1]? = some dl) (hp : tr.dels[k]? = some pd) (hv : dl.n.isTerminal = false) :
    ∃ j e j' pe, srcOf tr dl.n = some (j, e) ∧ srcOf tr pd.n = some (j', pe) ∧ j' < j ∧ e.t0 ≤ dl.t0 ∧ pe.t0 + cfg.d ≤ dl.t0 := by
  have := accepts_at h hk
  simp only [OpAt, hop, ThrottleAt] at this
  split at this
  next => exact absurd this id
  next j e hs =>
    obtain ⟨hc, hrest⟩ := this
    rcases hrest with h0 | hrest
    · omega
    · simp only [Nat.add_sub_cancel, hp, Option.bind_some] at hrest
      split at hrest
      next => exact absurd hrest id
      next j' pe hs' =>
        obtain ⟨hlt, hor⟩ := hrest
        rcases hor with ht | hw
        · rw [hv] at ht; cases ht
        · exact ⟨j, e, j', pe, hs, hs', hlt, hc, hw⟩

/-- SampleTime: the k-th sample not before k+1 periods (≤ 1 per tick), a source value, and the latest -/
theorem accepts_sample {cfg : Cfg} {tr : TimedTrace} (hop : cfg.op = .sampleTime) (h : accepts cfg tr = true)
    {k : Nat} {dl : Ev} (hk : tr.dels[k]? = some dl) (v : Int) (hv : dl.n = .next v) :
    tr.sub + (k + 1) * cfg.d ≤ dl.t0 ∧
    ∃ j e, srcOf tr dl.n = some (j, e) ∧ e.t0 ≤ dl.t0 ∧ AfterPrev tr k j ∧ LatestAt cfg.d tr k j := by
  have := accepts_at h hk
  simp only [OpAt, hop, SampleAt] at this
  rw [hv] at this
  simp only at this
  obtain ⟨h1, h2⟩ := this
  refine ⟨h2, ?_⟩
  rw [hv]
  split at h1
  next j e hs => exact ⟨j, e, hs, h1⟩
  next => exact absurd h1 id

/-- time buffers: only source values (emitted before the buffer was delivered), consecutive inside a
    buffer, later in the source than every value of every earlier buffer; at most `n` per buffer -/
theorem accepts_buffer {cfg : Cfg} {tr : TimedTrace} (cnt : Option Nat)
    (hop : OpAt cfg = BufferAt cnt cfg.xorder cfg.d) (h : accepts cfg tr = true)
    {k : Nat} {dl : Ev} (hk : tr.dels[k]? = some dl) (vs : List Int) (hv : dl.n = .buf vs) :
    (∀ v ∈ vs, ∃ j e, srcOf tr (.next v) = some (j, e) ∧ e.t0 ≤ dl.t0) ∧ Contiguous tr vs ∧ (cfg.xorder = true → AfterEarlierBuffers tr k vs)
      ∧ (∀ n, cnt = some n → vs.length ≤ n)
      ∧ tr.sub + (k + 1 - extraFlushes cnt tr dl.t0) * cfg.d ≤ dl.t0 := by
  have := accepts_at h hk
  rw [hop] at this
  simp only [BufferAt] at this
  rw [hv] at this
  simp only at this
  obtain ⟨h1, h2, h3, h4, h5⟩ := this
  refine ⟨?_, h3, h4, ?_, h5⟩
  · intro v hvm
    have := h2 v hvm
    split at this
    next j e hs => exact ⟨j, e, hs, this⟩
    next => exact absurd this id
  · intro n hn; subst hn; exact h1

end Ro.Timed

/-
  RoProofs.Fault.SubscribeFn — a panic in the subscribe function of the source.

  For every machine, every plan, every script: a subscribe function that panics with `p` right
  before its `j`-th notification behaves exactly like a source that delivers its first `j`
  notifications, then `Error(subscriberCtx, observable(p))` to the same subscriber, then calls
  `Unsubscribe()` (observable.go:303-321) — whatever else the plan injects.
-/
import RoModel.Fault
namespace Ro.Fault
open Ro
variable {σ α β : Type}

/-- the producer delivers a list of notifications; a panic coming back out of one stops it -/
def feedAll (fm : FMachine σ α β) (P : Plan) : St σ α β → List (Notif α) → St σ α β × Option Err
  | s, [] => (s, none)
  | s, x :: xs =>
    match uFeed fm P s x with
    | (s1, some q) => (s1, some q)
    | (s1, none) => feedAll fm P s1 xs

/-- what follows the delivered prefix: the panic `p` of the subscribe function itself, unless a
    panic `q` already came back out of a delivery -/
def thenPanics (p : Err) : St σ α β × Option Err → St σ α β × Option Err
  | (s1, some q) => (s1, some q)
  | (s1, none) => (s1.fire p, some p)

theorem srcBody_split (fm : FMachine σ α β) (P : Plan) (j : Nat) (f : Fault) (p : Err)
    (hss : P.srcSub = some (j, f)) (hp : f.recovered = some p) (raw : List (Notif α)) :
    ∀ (i : Nat) (s : St σ α β), i ≤ j →
      srcBody fm P i raw s = thenPanics p (feedAll fm P s (raw.take (j - i))) := by
  induction raw with
  | nil =>
    intro i s hij
    simp [srcBody, srcPanicAt, hss, hp, feedAll, thenPanics, hij]
  | cons x xs ih =>
    intro i s hij
    by_cases hji : j = i
    · subst hji
      simp [srcBody, srcPanicAt, hss, hp, feedAll, thenPanics]
    · have hlt : i + 1 ≤ j := by omega
      have hne : (j == i || (false && decide (j ≥ i))) = false := by simp [hji]
      have htake : (x :: xs).take (j - i) = x :: xs.take (j - (i + 1)) := by
        have : j - i = (j - (i + 1)) + 1 := by omega
        rw [this, List.take_succ_cons]
      rw [htake]
      simp only [srcBody, srcPanicAt, hss, hne, feedAll]
      generalize uFeed fm P s x = q
      obtain ⟨q1, q2⟩ := q
      cases q2 with
      | some e => simp [thenPanics]
      | none => simpa using ih (i + 1) q1 hlt

/-- **the subscribe function panics** (synchronous source): the first `j` notifications, then the
    recover handler — `Error(sub, observable(p))` into the same subscriber, then `Unsubscribe()` -/
theorem srcSubscribe_panics (fm : FMachine σ α β) (P : Plan) (j : Nat) (f : Fault) (p : Err)
    (hss : P.srcSub = some (j, f)) (hp : f.recovered = some p) (sub : Ctx) (raw : List (Notif α)) (s : St σ α β) :
    srcSubscribe fm P sub raw s =
      match thenPanics p (feedAll fm P { s with subs := s.subs + 1 } (raw.take j)) with
      | (s1, some q) =>
        (match uFeed fm P s1 (.error sub (.observable q)) with
         | (s2, some x) => (s2, some x)
         | (s2, none) => opTeardown P s2)
      | (s1, none) => (s1, none) := by
  unfold srcSubscribe
  rw [srcBody_split fm P j f p hss hp raw 0 _ (Nat.zero_le _)]
  simp only [Nat.sub_zero]
  generalize feedAll fm P { s with subs := s.subs + 1 } (raw.take j) = r
  obtain ⟨r1, r2⟩ := r
  cases r2 with
  | none =>
    simp only [thenPanics, srcCatch]
    generalize uFeed fm P (r1.fire p) (.error sub (.observable p)) = t
    obtain ⟨t1, t2⟩ := t
    cases t2 <;> rfl
  | some q =>
    simp only [thenPanics, srcCatch]
    generalize uFeed fm P r1 (.error sub (.observable q)) = t
    obtain ⟨t1, t2⟩ := t
    cases t2 <;> rfl

end Ro.Fault

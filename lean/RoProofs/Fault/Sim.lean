/-
  RoProofs.Fault.Sim — for plans that only touch the operator's Next-position callback, the
  fault interpreter `Fault.run` and `runOp (Fault.inject …)` agree (trace, drops, gates), nothing
  escapes, nothing reaches the unhandled hook … (see `runScript_sim`).
-/
import RoModel.Fault
import RoProofs.Gate
namespace Ro.Fault
open Ro
variable {σ α β : Type}

/-- the plan that only touches the operator's Next-position callback -/
def nextPlan (cbN : Nat → Option Fault) : Plan := { cbN := cbN }

section
variable (cbN : Nat → Option Fault)
@[simp] theorem nextPlan_cbN : (nextPlan cbN).cbN = cbN := rfl
@[simp] theorem nextPlan_cbE (k) : (nextPlan cbN).cbE k = none := rfl
@[simp] theorem nextPlan_cbC (k) : (nextPlan cbN).cbC k = none := rfl
@[simp] theorem nextPlan_cbS : (nextPlan cbN).cbS = none := rfl
@[simp] theorem nextPlan_srcSub : (nextPlan cbN).srcSub = none := rfl
@[simp] theorem nextPlan_srcTd : (nextPlan cbN).srcTd = none := rfl
@[simp] theorem nextPlan_fN (k) : (nextPlan cbN).fN k = none := rfl
@[simp] theorem nextPlan_fE (k) : (nextPlan cbN).fE k = none := rfl
@[simp] theorem nextPlan_fC (k) : (nextPlan cbN).fC k = none := rfl
end

/-- what the downstream layers see of the two states -/
structure SimD (reg : Bool) (s : St σ α β) (r : RunSt (σ × Nat) α β) : Prop where
  down : r.downOpen = s.dOpen
  out : r.out = s.trace
  drops : r.drops = s.drops
  ddone : s.dDone = !s.dOpen
  ureg : s.uReg = reg
  dreg : s.dReg = reg
  closed : reg = true → s.dOpen = false → s.uOpen = false
  udone : s.uOpen = true → s.uDone = false

/-- what a push into D may change besides trace / drops / D's own flags -/
structure Frame (reg : Bool) (s s' : St σ α β) : Prop where
  ms : s'.ms = s.ms
  nN : s'.nN = s.nN
  unh : s'.unhandled = s.unhandled
  subs : s'.subs = s.subs
  fired : s'.fired = s.fired
  uOpen : s'.uOpen = (s.uOpen && (!reg || s'.dOpen))
  uDone : s'.uDone = (s.uDone || (s.uOpen && !s'.uOpen))
  rel : s'.rel = s.rel + (if s.uOpen && !s'.uOpen then 1 else 0)
  dmono : s'.dOpen = true → s.dOpen = true

theorem dPush_sim (cbN : Nat → Option Fault) (w : Nat) (reg : Bool) (s : St σ α β) (r : RunSt (σ × Nat) α β)
    (h : SimD reg s r) (n : Notif β) :
    (dPush (nextPlan cbN) w s n).2 = none ∧ SimD reg (dPush (nextPlan cbN) w s n).1 (r.push n) ∧
      Frame reg s (dPush (nextPlan cbN) w s n).1 := by
  obtain ⟨h1, h2, h3, h4, h5, h6, h7, h8⟩ := h
  cases n <;> cases hd : s.dOpen <;> cases reg <;> cases hu : s.uOpen <;> cases hud : s.uDone <;>
    refine ⟨?_, ⟨?_, ?_, ?_, ?_, ?_, ?_, ?_, ?_⟩, ⟨?_, ?_, ?_, ?_, ?_, ?_, ?_, ?_, ?_⟩⟩ <;>
    simp_all [dPush, dUnsub, opTeardown, uUnsub, fNext, fTryError, fComplete, panicAt, RunSt.push]

theorem Frame.refl (reg : Bool) (s : St σ α β) (h : reg = true → s.dOpen = false → s.uOpen = false) :
    Frame reg s s := by
  refine ⟨rfl, rfl, rfl, rfl, rfl, ?_, ?_, ?_, id⟩
  · cases reg <;> cases hd : s.dOpen <;> cases hu : s.uOpen <;> simp_all
  · cases s.uDone <;> cases s.uOpen <;> rfl
  · cases s.uOpen <;> simp

theorem Frame.trans {reg : Bool} {s s1 s2 : St σ α β} (a : Frame reg s s1) (b : Frame reg s1 s2) :
    Frame reg s s2 := by
  obtain ⟨a1, a2, a3, a4, a5, a6, a7, a8, a9⟩ := a
  obtain ⟨b1, b2, b3, b4, b5, b6, b7, b8, b9⟩ := b
  refine ⟨by rw [b1, a1], by rw [b2, a2], by rw [b3, a3], by rw [b4, a4], by rw [b5, a5], ?_, ?_, ?_, fun h => a9 (b9 h)⟩
  · rw [b6, a6]
    cases reg <;> cases h1 : s1.dOpen <;> cases h2 : s2.dOpen <;> simp_all
  · rw [b7, a7]
    cases hs : s.uOpen <;> cases h1 : s1.uOpen <;> cases h2 : s2.uOpen <;> cases s.uDone <;> simp_all
  · rw [b8, a8]
    cases hs : s.uOpen <;> cases h1 : s1.uOpen <;> cases h2 : s2.uOpen <;> simp_all

theorem dPushAll_sim (cbN : Nat → Option Fault) (w : Nat) (reg : Bool) (ns : List (Notif β)) :
    ∀ (s : St σ α β) (r : RunSt (σ × Nat) α β), SimD reg s r →
    (dPushAll (nextPlan cbN) w s ns).2 = none ∧ SimD reg (dPushAll (nextPlan cbN) w s ns).1 (r.pushAll ns) ∧
      Frame reg s (dPushAll (nextPlan cbN) w s ns).1 := by
  induction ns with
  | nil => intro s r h; exact ⟨rfl, h, Frame.refl reg s h.closed⟩
  | cons n ns ih =>
    intro s r h
    obtain ⟨p1, p2, p3⟩ := dPush_sim cbN w reg s r h n
    have hstep : dPushAll (nextPlan cbN) w s (n :: ns) = dPushAll (nextPlan cbN) w (dPush (nextPlan cbN) w s n).1 ns := by
      rw [dPushAll]
      generalize hq : dPush (nextPlan cbN) w s n = q at p1
      obtain ⟨q1, q2⟩ := q
      simp only at p1
      subst p1
      rfl
    obtain ⟨i1, i2, i3⟩ := ih _ _ p2
    rw [hstep]
    exact ⟨i1, by simpa [RunSt.pushAll] using i2, p3.trans i3⟩

/-! ### the operator layer -/

theorem SimD.setOp {reg : Bool} {s : St σ α β} {r : RunSt (σ × Nat) α β} (h : SimD reg s r)
    (m : σ) (a b c : Nat) (t : σ × Nat) :
    SimD reg { s with ms := m, nN := a, nE := b, nC := c } { r with st := t } :=
  ⟨h.down, h.out, h.drops, h.ddone, h.ureg, h.dreg, h.closed, h.udone⟩

theorem SimD.closeU {reg : Bool} {s : St σ α β} {r : RunSt (σ × Nat) α β} (h : SimD reg s r) :
    SimD reg { s with uOpen := false } r :=
  ⟨h.down, h.out, h.drops, h.ddone, h.ureg, h.dreg, fun _ _ => rfl, fun h' => by simp at h'⟩

/-- the two states as a whole, between two notifications of the producer -/
structure Sim (reg : Bool) (s : St σ α β) (r : RunSt (σ × Nat) α β) : Prop where
  d : SimD reg s r
  st : r.st = (s.ms, s.nN)
  up : r.upOpen = s.uOpen
  unh : s.unhandled = []
  udone : s.uDone = !s.uOpen
  rel : s.rel = if s.uDone && reg then 1 else 0
  subs : s.subs = 1

def modeOf (reg : Bool) : SrcMode := if reg then .hot else .sync

theorem opError_eq (fm : FMachine σ α β) (cbN : Nat → Option Fault) (s : St σ α β) (c : Ctx) (e : Err) :
    opError fm (nextPlan cbN) s c e =
      dPushAll (nextPlan cbN) fm.tdWraps
        { s with ms := (fm.base.onError s.ms c e).1, nN := s.nN, nE := if fm.callsE s.ms then s.nE + 1 else s.nE, nC := s.nC }
        (fm.base.onError s.ms c e).2 := by
  unfold opError
  cases fm.callsE s.ms <;> simp [panicAt]

theorem opComplete_eq (fm : FMachine σ α β) (cbN : Nat → Option Fault) (s : St σ α β) (c : Ctx) :
    opComplete fm (nextPlan cbN) s c =
      dPushAll (nextPlan cbN) fm.tdWraps
        { s with ms := (fm.base.onComplete s.ms c).1, nN := s.nN, nE := s.nE, nC := if fm.callsC s.ms then s.nC + 1 else s.nC }
        (fm.base.onComplete s.ms c).2 := by
  unfold opComplete
  cases fm.callsC s.ms <;> simp [panicAt]

/-- the Error callback of O, from a state that `r` tracks at the D level -/
theorem oTryError_sim (fm : FMachine σ α β) (cbN : Nat → Option Fault) (reg : Bool) (s : St σ α β)
    (r : RunSt (σ × Nat) α β) (h : SimD reg s r) (c : Ctx) (e : Err) (k : Nat) :
    SimD reg (oTryError fm (nextPlan cbN) s c e)
        (({ r with st := ((fm.base.onError s.ms c e).1, k) } : RunSt (σ × Nat) α β).pushAll (fm.base.onError s.ms c e).2) ∧
      Frame reg { s with ms := (fm.base.onError s.ms c e).1, nN := s.nN, nE := if fm.callsE s.ms then s.nE + 1 else s.nE, nC := s.nC }
        (oTryError fm (nextPlan cbN) s c e) := by
  unfold oTryError
  rw [opError_eq]
  obtain ⟨p1, p2, p3⟩ := dPushAll_sim cbN fm.tdWraps reg (fm.base.onError s.ms c e).2 _ _
    (h.setOp (fm.base.onError s.ms c e).1 s.nN (if fm.callsE s.ms then s.nE + 1 else s.nE) s.nC ((fm.base.onError s.ms c e).1, k))
  generalize hq : dPushAll (nextPlan cbN) fm.tdWraps _ (fm.base.onError s.ms c e).2 = q at p1 p2 p3
  obtain ⟨q1, q2⟩ := q
  simp only at p1
  subst p1
  exact ⟨p2, p3⟩

/-- the Complete callback of O -/
theorem oTryComplete_sim (fm : FMachine σ α β) (cbN : Nat → Option Fault) (reg : Bool) (s : St σ α β)
    (r : RunSt (σ × Nat) α β) (h : SimD reg s r) (c : Ctx) (k : Nat) :
    SimD reg (oTryComplete fm (nextPlan cbN) s c)
        (({ r with st := ((fm.base.onComplete s.ms c).1, k) } : RunSt (σ × Nat) α β).pushAll (fm.base.onComplete s.ms c).2) ∧
      Frame reg { s with ms := (fm.base.onComplete s.ms c).1, nN := s.nN, nE := s.nE, nC := if fm.callsC s.ms then s.nC + 1 else s.nC }
        (oTryComplete fm (nextPlan cbN) s c) := by
  unfold oTryComplete
  rw [opComplete_eq]
  obtain ⟨p1, p2, p3⟩ := dPushAll_sim cbN fm.tdWraps reg (fm.base.onComplete s.ms c).2 _ _
    (h.setOp (fm.base.onComplete s.ms c).1 s.nN s.nE (if fm.callsC s.ms then s.nC + 1 else s.nC) ((fm.base.onComplete s.ms c).1, k))
  generalize hq : dPushAll (nextPlan cbN) fm.tdWraps _ (fm.base.onComplete s.ms c).2 = q at p1 p2 p3
  obtain ⟨q1, q2⟩ := q
  simp only at p1
  subst p1
  exact ⟨p2, p3⟩

/-- the part of `Frame` that does not mention the operator's locals -/
structure FrameU (reg : Bool) (s s' : St σ α β) : Prop where
  unh : s'.unhandled = s.unhandled
  subs : s'.subs = s.subs
  uOpen : s'.uOpen = (s.uOpen && (!reg || s'.dOpen))
  uDone : s'.uDone = (s.uDone || (s.uOpen && !s'.uOpen))
  rel : s'.rel = s.rel + (if s.uOpen && !s'.uOpen then 1 else 0)
  dmono : s'.dOpen = true → s.dOpen = true

theorem Frame.toU {reg : Bool} {s s' : St σ α β} {m : σ} {a b c : Nat} {f : List Err}
    (h : Frame reg { s with ms := m, nN := a, nE := b, nC := c, fired := f } s') : FrameU reg s s' :=
  ⟨h.unh, h.subs, h.uOpen, h.uDone, h.rel, h.dmono⟩

theorem SimD.setOpF {reg : Bool} {s : St σ α β} {r : RunSt (σ × Nat) α β} (h : SimD reg s r)
    (m : σ) (a b c : Nat) (f : List Err) (t : σ × Nat) :
    SimD reg { s with ms := m, nN := a, nE := b, nC := c, fired := f } { r with st := t } :=
  ⟨h.down, h.out, h.drops, h.ddone, h.ureg, h.dreg, h.closed, h.udone⟩

theorem opNextOk_sim (fm : FMachine σ α β) (cbN : Nat → Option Fault) (reg : Bool) (s : St σ α β)
    (r : RunSt (σ × Nat) α β) (h : SimD reg s r) (c : Ctx) (v : α) (a : Nat) :
    (opNextOk fm (nextPlan cbN) { s with nN := a } c v).2 = none ∧
    SimD reg (opNextOk fm (nextPlan cbN) { s with nN := a } c v).1
        (({ r with st := ((fm.base.onNext s.ms c v).1, a) } : RunSt (σ × Nat) α β).pushAll (fm.base.onNext s.ms c v).2) ∧
      (opNextOk fm (nextPlan cbN) { s with nN := a } c v).1.ms = (fm.base.onNext s.ms c v).1 ∧
      (opNextOk fm (nextPlan cbN) { s with nN := a } c v).1.nN = a ∧
      FrameU reg s (opNextOk fm (nextPlan cbN) { s with nN := a } c v).1 := by
  unfold opNextOk
  obtain ⟨p1, p2, p3⟩ := dPushAll_sim cbN fm.tdWraps reg (fm.base.onNext s.ms c v).2 _ _
    (h.setOpF (fm.base.onNext s.ms c v).1 a s.nE s.nC s.fired ((fm.base.onNext s.ms c v).1, a))
  generalize hq : dPushAll (nextPlan cbN) fm.tdWraps _ (fm.base.onNext s.ms c v).2 = q at p1 p2 p3
  obtain ⟨q1, q2⟩ := q
  simp only at p1
  subst p1
  exact ⟨rfl, p2, p3.ms, p3.nN, p3.toU⟩

/-- a panic of the Next-position callback: `tryNext` hands `observer(p)` to O's own error callback -/
theorem panic_sim (fm : FMachine σ α β) (cbN : Nat → Option Fault) (reg : Bool) (s : St σ α β)
    (r : RunSt (σ × Nat) α β) (h : SimD reg s r) (c : Ctx) (p : Err) :
    SimD reg (oTryError fm (nextPlan cbN) (({ s with nN := s.nN + 1 } : St σ α β).fire p) c (.observer p))
        (({ r with st := ((fm.base.onError s.ms c (.observer p)).1, s.nN + 1) } : RunSt (σ × Nat) α β).pushAll
          (fm.base.onError s.ms c (.observer p)).2) ∧
      (oTryError fm (nextPlan cbN) (({ s with nN := s.nN + 1 } : St σ α β).fire p) c (.observer p)).ms
          = (fm.base.onError s.ms c (.observer p)).1 ∧
      (oTryError fm (nextPlan cbN) (({ s with nN := s.nN + 1 } : St σ α β).fire p) c (.observer p)).nN = s.nN + 1 ∧
      FrameU reg s (oTryError fm (nextPlan cbN) (({ s with nN := s.nN + 1 } : St σ α β).fire p) c (.observer p)) := by
  have h' : SimD reg (({ s with nN := s.nN + 1 } : St σ α β).fire p) r :=
    ⟨h.down, h.out, h.drops, h.ddone, h.ureg, h.dreg, h.closed, h.udone⟩
  obtain ⟨q1, q2⟩ := oTryError_sim fm cbN reg _ r h' c (.observer p) (s.nN + 1)
  exact ⟨q1, q2.ms, q2.nN, ⟨q2.unh, q2.subs, q2.uOpen, q2.uDone, q2.rel, q2.dmono⟩⟩

/-- the Next callback of O against one step of the injected machine -/
theorem oTryNext_sim (fm : FMachine σ α β) (cbN : Nat → Option Fault) (reg : Bool) (s : St σ α β)
    (r : RunSt (σ × Nat) α β) (h : SimD reg s r) (c : Ctx) (v : α) :
    SimD reg (oTryNext fm (nextPlan cbN) s c v)
        (({ r with st := ((inject fm cbN).onNext (s.ms, s.nN) c v).1 } : RunSt (σ × Nat) α β).pushAll
          ((inject fm cbN).onNext (s.ms, s.nN) c v).2) ∧
      ((oTryNext fm (nextPlan cbN) s c v).ms, (oTryNext fm (nextPlan cbN) s c v).nN)
          = ((inject fm cbN).onNext (s.ms, s.nN) c v).1 ∧
      FrameU reg s (oTryNext fm (nextPlan cbN) s c v) := by
  have ok : ∀ (s0 : St σ α β) (a : Nat), s0 = { s with nN := a } →
      SimD reg (oRecoverNext fm (nextPlan cbN) c (opNextOk fm (nextPlan cbN) s0 c v))
        (({ r with st := ((fm.base.onNext s.ms c v).1, a) } : RunSt (σ × Nat) α β).pushAll (fm.base.onNext s.ms c v).2) ∧
      ((oRecoverNext fm (nextPlan cbN) c (opNextOk fm (nextPlan cbN) s0 c v)).ms,
       (oRecoverNext fm (nextPlan cbN) c (opNextOk fm (nextPlan cbN) s0 c v)).nN) = ((fm.base.onNext s.ms c v).1, a) ∧
      FrameU reg s (oRecoverNext fm (nextPlan cbN) c (opNextOk fm (nextPlan cbN) s0 c v)) := by
    intro s0 a hs0
    rw [hs0]
    obtain ⟨p1, p2, p3, p4, p5⟩ := opNextOk_sim fm cbN reg s r h c v a
    generalize hq : opNextOk fm (nextPlan cbN) { s with nN := a } c v = q at p1 p2 p3 p4 p5
    obtain ⟨q1, q2⟩ := q
    simp only at p1
    subst p1
    simp only at p3 p4
    exact ⟨p2, by simp only [oRecoverNext]; rw [p3, p4], p5⟩
  unfold oTryNext opNext
  cases hc : fm.callsN s.ms c v
  · -- the closure does not call user code in this state
    have := ok s s.nN rfl
    simpa [inject, hc] using this
  · cases hp : cbN s.nN with
    | none =>
      have := ok { s with nN := s.nN + 1 } (s.nN + 1) rfl
      simpa [inject, hc, hp] using this
    | some f =>
      cases f with
      | panicErr p =>
        have := panic_sim fm cbN reg s r h c p
        simpa [inject, hc, hp, oRecoverNext, and_assoc] using this
      | panicVal n =>
        have := panic_sim fm cbN reg s r h c (.panicVal n)
        simpa [inject, hc, hp, oRecoverNext, and_assoc] using this
      | errRet e =>
        cases hh : fm.onErrRet with
        | none =>
          have := ok { s with nN := s.nN + 1 } (s.nN + 1) rfl
          simpa [inject, hc, hp, hh] using this
        | some hf =>
          obtain ⟨p1, p2, p3⟩ := dPushAll_sim cbN fm.tdWraps reg (hf s.ms c v e).2 _ _
            (h.setOpF (hf s.ms c v e).1 (s.nN + 1) s.nE s.nC s.fired ((hf s.ms c v e).1, s.nN + 1))
          generalize hq : dPushAll (nextPlan cbN) fm.tdWraps _ (hf s.ms c v e).2 = q at p1 p2 p3
          obtain ⟨q1, q2⟩ := q
          simp only at p1
          subst p1
          have hres : q1.ms = (hf s.ms c v e).1 ∧ q1.nN = s.nN + 1 := ⟨p3.ms, p3.nN⟩
          simp only [inject, hc, hp, hh, if_true, oRecoverNext, nextPlan_cbN, hq]
          exact ⟨p2, by rw [hres.1, hres.2], p3.toU⟩

/-! ### one notification from the producer -/

theorem uUnsub_eq (cbN : Nat → Option Fault) (s : St σ α β) :
    uUnsub (nextPlan cbN) s =
      (if s.uDone then s else if s.uReg then { s with uDone := true, rel := s.rel + 1 } else { s with uDone := true }, none) := by
  unfold uUnsub
  cases s.uDone <;> cases s.uReg <;> simp

theorem SimD.settle {reg : Bool} {s : St σ α β} {r : RunSt (σ × Nat) α β} (h : SimD reg s r) (b : Bool) (t : List Nat) :
    SimD reg s { r with upOpen := b, steps := t } :=
  ⟨h.down, h.out, h.drops, h.ddone, h.ureg, h.dreg, h.closed, h.udone⟩

theorem inject_step_next (fm : FMachine σ α β) (cbN : Nat → Option Fault) (t : σ × Nat) (c : Ctx) (v : α) :
    (inject fm cbN).step t (.next c v) = (inject fm cbN).onNext t c v := rfl
theorem inject_step_error (fm : FMachine σ α β) (cbN : Nat → Option Fault) (t : σ × Nat) (c : Ctx) (e : Err) :
    (inject fm cbN).step t (.error c e) = (((fm.base.onError t.1 c e).1, t.2), (fm.base.onError t.1 c e).2) := rfl
theorem inject_step_complete (fm : FMachine σ α β) (cbN : Nat → Option Fault) (t : σ × Nat) (c : Ctx) :
    (inject fm cbN).step t (.complete c) = (((fm.base.onComplete t.1 c).1, t.2), (fm.base.onComplete t.1 c).2) := rfl

/-- after a terminal of the source has been handled by O: U runs its finalizers -/
theorem terminal_sim (cbN : Nat → Option Fault) (reg : Bool) (s s1 : St σ α β) (r1 : RunSt (σ × Nat) α β)
    (hu : s.uOpen = true) (hunh : s.unhandled = []) (hudone : s.uDone = !s.uOpen)
    (hrel' : s.rel = if s.uDone && reg then 1 else 0) (hsubs : s.subs = 1)
    (hd : SimD reg s1 r1) (hst : r1.st = (s1.ms, s1.nN))
    (f : FrameU reg { s with uOpen := false } s1) (b : Nat) :
    (uUnsub (nextPlan cbN) s1).2 = none ∧
      Sim reg (uUnsub (nextPlan cbN) s1).1 (r1.settle (modeOf reg) true b) := by
  have hud : s.uDone = false := by simpa [hu] using hudone
  have hrel : s.rel = 0 := by simpa [hud] using hrel'
  have h1 : s1.uOpen = false := by simpa using f.uOpen
  have h2 : s1.uDone = false := by simpa [hud] using f.uDone
  have h3 : s1.rel = 0 := by simpa [hrel] using f.rel
  have h4 : s1.unhandled = [] := by rw [f.unh]; exact hunh
  have h5 : s1.subs = 1 := by rw [f.subs]; exact hsubs
  rw [uUnsub_eq]
  refine ⟨rfl, ?_⟩
  simp only [h2, Bool.false_eq_true, if_false]
  cases hr : s1.uReg
  · have hreg : reg = false := by rw [← hd.ureg, hr]
    simp only [Bool.false_eq_true, if_false]
    exact ⟨⟨hd.down, hd.out, hd.drops, hd.ddone, by simp [hreg], hd.dreg, fun _ _ => h1, fun h' => by simp [h1] at h'⟩,
      hst, by simp [RunSt.settle, h1], h4, by simp [h1], by simp [h3, hreg], h5⟩
  · have hreg : reg = true := by rw [← hd.ureg, hr]
    simp only [if_true]
    exact ⟨⟨hd.down, hd.out, hd.drops, hd.ddone, by simp [hreg], hd.dreg, fun _ _ => h1, fun h' => by simp [h1] at h'⟩,
      hst, by simp [RunSt.settle, h1], h4, by simp [h1], by simp [h3, hreg], h5⟩

theorem uFeed_sim (fm : FMachine σ α β) (cbN : Nat → Option Fault) (reg : Bool) (s : St σ α β)
    (r : RunSt (σ × Nat) α β) (h : Sim reg s r) (x : Notif α) :
    (uFeed fm (nextPlan cbN) s x).2 = none ∧
      Sim reg (uFeed fm (nextPlan cbN) s x).1 (r.feed (inject fm cbN) (modeOf reg) x) := by
  have hup := h.up
  have hst := h.st
  cases hu : s.uOpen
  · -- U is closed: the notification is refused (and a terminal calls `unsubscribe()` again, a no-op)
    have hud : s.uDone = true := by simpa [hu] using h.udone
    have hr : r.upOpen = false := by rw [hup, hu]
    have hsim : Sim reg { s with drops := s.drops ++ [.up x] }
        { r with drops := r.drops ++ [.up x], steps := r.steps ++ [0] } :=
      ⟨⟨h.d.down, h.d.out, by simp [h.d.drops], h.d.ddone, h.d.ureg, h.d.dreg, h.d.closed, h.d.udone⟩,
        h.st, h.up, h.unh, h.udone, h.rel, h.subs⟩
    have e1 : r.feed (inject fm cbN) (modeOf reg) x = { r with drops := r.drops ++ [.up x], steps := r.steps ++ [0] } := by
      simp only [RunSt.feed, hr, Bool.false_eq_true, if_false]
    have e2 : uFeed fm (nextPlan cbN) s x = ({ s with drops := s.drops ++ [.up x] }, none) := by
      cases x <;> simp [uFeed, hu, uUnsub_eq, hud]
    rw [e1, e2]
    exact ⟨rfl, hsim⟩
  · have hr : r.upOpen = true := by rw [hup, hu]
    have hud : s.uDone = false := by simpa [hu] using h.udone
    have hrel : s.rel = 0 := by simpa [hud] using h.rel
    cases x with
    | next c v =>
      obtain ⟨p1, p2, p3⟩ := oTryNext_sim fm cbN reg s r h.d c v
      have hfeed : r.feed (inject fm cbN) (modeOf reg) (.next c v) =
          (({ r with st := ((inject fm cbN).onNext (s.ms, s.nN) c v).1 } : RunSt (σ × Nat) α β).pushAll
            ((inject fm cbN).onNext (s.ms, s.nN) c v).2).settle (modeOf reg) false r.out.length := by
        simp only [RunSt.feed, hr, if_true, hst, inject_step_next, Notif.isTerminal_next]
      rw [hfeed]
      simp only [uFeed, hu, if_true]
      refine ⟨trivial, ?_⟩
      generalize oTryNext fm (nextPlan cbN) s c v = s' at p1 p2 p3
      have hst1 : ((({ r with st := ((inject fm cbN).onNext (s.ms, s.nN) c v).1 } : RunSt (σ × Nat) α β).pushAll
            ((inject fm cbN).onNext (s.ms, s.nN) c v).2)).st = ((inject fm cbN).onNext (s.ms, s.nN) c v).1 := by simp
      generalize (({ r with st := ((inject fm cbN).onNext (s.ms, s.nN) c v).1 } : RunSt (σ × Nat) α β).pushAll
          ((inject fm cbN).onNext (s.ms, s.nN) c v).2) = r1 at p1 hst1
      have hopen : s'.uOpen = (!reg || s'.dOpen) := by simpa [hu] using p3.uOpen
      refine ⟨p1.settle _ _, ?_, ?_, ?_, ?_, ?_, ?_⟩
      · simp only [RunSt.settle]; rw [hst1, ← p2]
      · simp only [RunSt.settle, Bool.false_or]
        rw [hopen, p1.down]
        cases reg <;> cases s'.dOpen <;> simp [modeOf]
      · rw [p3.unh]; exact h.unh
      · rw [p3.uDone, hud, hu]; simp
      · rw [p3.rel, hrel, p3.uDone, hud, hu, hopen]
        cases reg <;> cases s'.dOpen <;> simp
      · rw [p3.subs]; exact h.subs
    | error c e =>
      obtain ⟨p1, p2⟩ := oTryError_sim fm cbN reg _ r h.d.closeU c e s.nN
      have hfeed : r.feed (inject fm cbN) (modeOf reg) (.error c e) =
          (({ r with st := ((fm.base.onError s.ms c e).1, s.nN) } : RunSt (σ × Nat) α β).pushAll
            (fm.base.onError s.ms c e).2).settle (modeOf reg) true r.out.length := by
        simp only [RunSt.feed, hr, if_true, hst, inject_step_error, Notif.isTerminal_error]
      rw [hfeed]
      simp only [uFeed, hu, if_true]
      have hst1 : ((({ r with st := ((fm.base.onError s.ms c e).1, s.nN) } : RunSt (σ × Nat) α β).pushAll
            (fm.base.onError s.ms c e).2)).st = ((fm.base.onError s.ms c e).1, s.nN) := by simp
      generalize oTryError fm (nextPlan cbN) { s with uOpen := false } c e = s1 at p1 p2
      generalize (({ r with st := ((fm.base.onError s.ms c e).1, s.nN) } : RunSt (σ × Nat) α β).pushAll
          (fm.base.onError s.ms c e).2) = r1 at p1 hst1
      exact terminal_sim cbN reg s s1 r1 hu h.unh h.udone h.rel h.subs p1 (by rw [hst1, p2.ms, p2.nN]) p2.toU _
    | complete c =>
      obtain ⟨p1, p2⟩ := oTryComplete_sim fm cbN reg _ r h.d.closeU c s.nN
      have hfeed : r.feed (inject fm cbN) (modeOf reg) (.complete c) =
          (({ r with st := ((fm.base.onComplete s.ms c).1, s.nN) } : RunSt (σ × Nat) α β).pushAll
            (fm.base.onComplete s.ms c).2).settle (modeOf reg) true r.out.length := by
        simp only [RunSt.feed, hr, if_true, hst, inject_step_complete, Notif.isTerminal_complete]
      rw [hfeed]
      simp only [uFeed, hu, if_true]
      have hst1 : ((({ r with st := ((fm.base.onComplete s.ms c).1, s.nN) } : RunSt (σ × Nat) α β).pushAll
            (fm.base.onComplete s.ms c).2)).st = ((fm.base.onComplete s.ms c).1, s.nN) := by simp
      generalize oTryComplete fm (nextPlan cbN) { s with uOpen := false } c = s1 at p1 p2
      generalize (({ r with st := ((fm.base.onComplete s.ms c).1, s.nN) } : RunSt (σ × Nat) α β).pushAll
          (fm.base.onComplete s.ms c).2) = r1 at p1 hst1
      exact terminal_sim cbN reg s s1 r1 hu h.unh h.udone h.rel h.subs p1 (by rw [hst1, p2.ms, p2.nN]) p2.toU _

/-! ### whole scripts -/

theorem srcBody_sim (fm : FMachine σ α β) (cbN : Nat → Option Fault) (raw : List (Notif α)) :
    ∀ (i : Nat) (s : St σ α β) (r : RunSt (σ × Nat) α β), Sim false s r →
      (srcBody fm (nextPlan cbN) i raw s).2 = none ∧
      Sim false (srcBody fm (nextPlan cbN) i raw s).1 (raw.foldl (RunSt.feed (inject fm cbN) .sync) r) := by
  induction raw with
  | nil => intro i s r h; simpa [srcBody, srcPanicAt] using h
  | cons x xs ih =>
    intro i s r h
    obtain ⟨p1, p2⟩ := uFeed_sim fm cbN false s r h x
    generalize hq : uFeed fm (nextPlan cbN) s x = q at p1 p2
    obtain ⟨q1, q2⟩ := q
    simp only at p1
    subst p1
    simp only [srcBody, srcPanicAt, nextPlan_srcSub, hq, List.foldl]
    exact ih (i + 1) q1 _ p2

theorem pushAfter_sim (fm : FMachine σ α β) (cbN : Nat → Option Fault) (raw : List (Notif α)) :
    ∀ (s : St σ α β) (r : RunSt (σ × Nat) α β) (esc : List Err), Sim true s r →
      (pushAfter fm (nextPlan cbN) (s, esc) raw).2 = esc ∧
      Sim true (pushAfter fm (nextPlan cbN) (s, esc) raw).1 (raw.foldl (RunSt.feed (inject fm cbN) .hot) r) := by
  induction raw with
  | nil => intro s r esc h; exact ⟨rfl, h⟩
  | cons x xs ih =>
    intro s r esc h
    obtain ⟨p1, p2⟩ := uFeed_sim fm cbN true s r h x
    have hs : s.subs ≠ 0 := by rw [h.subs]; decide
    simp only [pushAfter, hs, if_false, p1, Option.toList, List.append_nil, List.foldl]
    exact ih _ _ esc p2

/-- the state in which the operator's subscribe function subscribes to its source -/
theorem start_sim (fm : FMachine σ α β) (cbN : Nat → Option Fault) (sub : Ctx)
    (hsub : hasTerm (fm.base.onSubscribe fm.base.init sub).2 = false) :
    (dPushAll (nextPlan cbN) fm.tdWraps ({ ({ ms := fm.base.init } : St σ α β) with ms := (fm.base.onSubscribe fm.base.init sub).1 })
        (fm.base.onSubscribe fm.base.init sub).2).2 = none ∧
    ∃ s1 : St σ α β,
      (dPushAll (nextPlan cbN) fm.tdWraps ({ ({ ms := fm.base.init } : St σ α β) with ms := (fm.base.onSubscribe fm.base.init sub).1 })
        (fm.base.onSubscribe fm.base.init sub).2).1 = s1 ∧
      SimD false s1 ((inject fm cbN).start sub) ∧ s1.ms = (fm.base.onSubscribe fm.base.init sub).1 ∧ s1.nN = 0 ∧
      s1.unhandled = [] ∧ s1.subs = 0 ∧ s1.uOpen = true ∧ s1.uDone = false ∧ s1.rel = 0 ∧ s1.dOpen = true := by
  have h0 : SimD false ({ ({ ms := fm.base.init } : St σ α β) with ms := (fm.base.onSubscribe fm.base.init sub).1 })
      ({ st := ((fm.base.onSubscribe fm.base.init sub).1, 0) } : RunSt (σ × Nat) α β) :=
    ⟨rfl, rfl, rfl, rfl, rfl, rfl, fun h => by simp at h, fun _ => rfl⟩
  obtain ⟨p1, p2, p3⟩ := dPushAll_sim cbN fm.tdWraps false (fm.base.onSubscribe fm.base.init sub).2 _ _ h0
  refine ⟨p1, _, rfl, p2, p3.ms, p3.nN, p3.unh, p3.subs, ?_, ?_, ?_, ?_⟩
  · simpa using p3.uOpen
  · have := p3.uDone; simpa [p3.uOpen] using this
  · have := p3.rel; simpa [p3.uOpen] using this
  · have ht := (start_tracks (inject fm cbN) sub).open_
    have : ((inject fm cbN).start sub).downOpen = true := by
      rw [ht]; simp only [inject]; rw [hsub]; rfl
    rw [← p2.down]; exact this

end Ro.Fault

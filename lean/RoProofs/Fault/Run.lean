/-
  RoProofs.Fault.Run — `Fault.runScript` under a Next-position-only plan is `runOp` of the injected
  machine: same trace, same drops, nothing escapes, nothing unhandled, upstream released.
-/
import RoProofs.Fault.Sim
namespace Ro.Fault
open Ro
set_option linter.unusedSimpArgs false
variable {σ α β : Type}

theorem cbS_none (fm : FMachine σ α β) (cbN : Nat → Option Fault) :
    (if fm.callsS then (nextPlan cbN).cbS.bind Fault.recovered else none) = none := by
  cases fm.callsS <;> rfl

theorem opSubscribe_hot (fm : FMachine σ α β) (cbN : Nat → Option Fault) (sub : Ctx)
    (hs : fm.base.subscribes = true) (hsub : hasTerm (fm.base.onSubscribe fm.base.init sub).2 = false) :
    (opSubscribe fm (nextPlan cbN) sub []).2 = none ∧
      Sim true (opSubscribe fm (nextPlan cbN) sub []).1 ((inject fm cbN).start sub) := by
  obtain ⟨p1, s1, e1, hd, hms, hnN, hunh, hsubs, huo, hud, hrel, hdo⟩ := start_sim fm cbN sub hsub
  have hpair : dPushAll (nextPlan cbN) fm.tdWraps ({ ({ ms := fm.base.init } : St σ α β) with ms := (fm.base.onSubscribe fm.base.init sub).1 })
        (fm.base.onSubscribe fm.base.init sub).2 = (s1, none) := Prod.ext e1 p1
  have hdd : s1.dDone = false := by rw [hd.ddone, hdo]; rfl
  have hbody : opBody fm (nextPlan cbN) sub [] { ms := fm.base.init } =
      ({ s1 with subs := s1.subs + 1, uReg := true }, none) := by
    simp only [opBody, cbS_none, hpair, hs, if_true, srcSubscribe, srcBody, srcPanicAt, nextPlan_srcSub, hud,
      Bool.false_eq_true, if_false]
  simp only [opSubscribe, hbody, hs, Bool.not_true, Bool.false_eq_true, if_false, hdd]
  refine ⟨trivial, ⟨hd.down, hd.out, hd.drops, ?_, rfl, rfl, ?_, ?_⟩, ?_, ?_, hunh, ?_, ?_, ?_⟩
  · simp [hdo]
  · intro _ h; simp [hdo] at h
  · intro _; exact hud
  · simp [hms, hnN, inject]
  · simp [huo]
  · simp [hud, huo]
  · simp [hrel, hud]
  · simp [hsubs]

/-- what the fault interpreter and `runOp` agree on at the end of a script -/
structure Agree (s : St σ α β) (r : RunSt (σ × Nat) α β) : Prop where
  trace : s.trace = r.out
  drops : s.drops = r.drops
  down : s.dOpen = r.downOpen
  st : (s.ms, s.nN) = r.st
  unh : s.unhandled = []
  subs : s.subs = 1
  /-- once the downstream subscriber is closed, the source has been unsubscribed and its teardown
      has run — exactly once -/
  released : s.dOpen = false → s.uOpen = false ∧ s.rel = 1
  relLe : s.rel ≤ 1

theorem Sim.agree_hot {s : St σ α β} {r : RunSt (σ × Nat) α β} (h : Sim true s r) : Agree s r := by
  refine ⟨h.d.out.symm, h.d.drops.symm, h.d.down.symm, h.st.symm, h.unh, h.subs, ?_, ?_⟩
  · intro hd
    have hu := h.d.closed rfl hd
    have hud : s.uDone = true := by simpa [hu] using h.udone
    exact ⟨hu, by simpa [hud] using h.rel⟩
  · rw [h.rel]; split <;> decide

theorem opSubscribe_sync (fm : FMachine σ α β) (cbN : Nat → Option Fault) (sub : Ctx) (raw : List (Notif α))
    (hs : fm.base.subscribes = true) (hsub : hasTerm (fm.base.onSubscribe fm.base.init sub).2 = false) :
    (opSubscribe fm (nextPlan cbN) sub raw).2 = none ∧
      Agree (opSubscribe fm (nextPlan cbN) sub raw).1
        (raw.foldl (RunSt.feed (inject fm cbN) .sync) ((inject fm cbN).start sub)) := by
  obtain ⟨p1, s1, e1, hd, hms, hnN, hunh, hsubs, huo, hud, hrel, hdo⟩ := start_sim fm cbN sub hsub
  have hpair : dPushAll (nextPlan cbN) fm.tdWraps ({ ({ ms := fm.base.init } : St σ α β) with ms := (fm.base.onSubscribe fm.base.init sub).1 })
        (fm.base.onSubscribe fm.base.init sub).2 = (s1, none) := Prod.ext e1 p1
  have h1 : Sim false ({ s1 with subs := s1.subs + 1 }) ((inject fm cbN).start sub) :=
    ⟨⟨hd.down, hd.out, hd.drops, hd.ddone, hd.ureg, hd.dreg, hd.closed, hd.udone⟩,
      by simp [hms, hnN, inject], by simp [huo], hunh, by simp [hud, huo], by simp [hrel], by simp [hsubs]⟩
  obtain ⟨q1, q2⟩ := srcBody_sim fm cbN raw 0 _ _ h1
  generalize hq : srcBody fm (nextPlan cbN) 0 raw { s1 with subs := s1.subs + 1 } = q at q1 q2
  obtain ⟨s2, o2⟩ := q
  simp only at q1 q2
  subst q1
  generalize raw.foldl (RunSt.feed (inject fm cbN) .sync) ((inject fm cbN).start sub) = r2 at q2
  have hrel2 : s2.rel = 0 := by simpa using q2.rel
  have hbody : opBody fm (nextPlan cbN) sub raw { ms := fm.base.init } =
      (if s2.uDone then ({ s2 with rel := s2.rel + 1 }, none) else ({ s2 with uReg := true }, none)) := by
    have htd : (nextPlan cbN).srcTd.bind Fault.recovered = none := rfl
    simp only [opBody, cbS_none, hpair, hs, if_true, srcSubscribe, hq, htd]
  have hur : s2.uReg = false := q2.d.ureg
  cases hu : s2.uOpen <;> cases hdn : s2.dOpen
  all_goals
    have hud2 : s2.uDone = !s2.uOpen := q2.udone
    have hdd2 : s2.dDone = !s2.dOpen := q2.d.ddone
    rw [hu] at hud2
    rw [hdn] at hdd2
    simp only [Bool.not_false, Bool.not_true] at hud2 hdd2
    simp only [opSubscribe, hbody, hud2, hs, if_true, Bool.not_true, Bool.false_eq_true, if_false, hdd2, opTeardown, hu,
      uUnsub_eq, hur]
    refine ⟨trivial, ?_, ?_, ?_, ?_, q2.unh, q2.subs, ?_, ?_⟩ <;>
      simp [q2.d.out, q2.d.drops, q2.d.down, q2.st, hrel2, hdn, hu]

/-- **Simulation theorem.** For every operator machine with its call sites, every plan that only
    touches the Next-position callback (any number of panics and error returns, at any
    invocations), both source modes, every subscription context and every raw script:
    no panic escapes into the goroutine that called `Subscribe` / `Next` / `Error` / `Complete`,
    and the fault interpreter ends in the state `runOp` computes for the injected machine. -/
theorem runScript_agree (fm : FMachine σ α β) (cbN : Nat → Option Fault) (mode : SrcMode) (sub : Ctx)
    (raw : List (Notif α)) (hs : fm.base.subscribes = true)
    (hsub : hasTerm (fm.base.onSubscribe fm.base.init sub).2 = false) :
    (runScript fm (nextPlan cbN) mode sub raw).2 = [] ∧
      Agree (runScript fm (nextPlan cbN) mode sub raw).1 (runOp (inject fm cbN) mode sub raw) := by
  have hsi : (inject fm cbN).subscribes = true := hs
  -- no terminal at subscribe time: the downstream subscriber is open when `Subscribe` returns, so
  -- `RunSt.afterSubscribe` (teardown added to an already closed subscription) changes nothing here;
  -- the fault interpreter has that step too (`opSubscribe`: `if s1.dDone then opTeardown …`)
  have hopen : ((inject fm cbN).start sub).downOpen = true := by
    rw [(start_tracks (inject fm cbN) sub).open_]
    simp only [inject]; rw [hsub]; rfl
  have hafter : ∀ m : SrcMode, ((inject fm cbN).start sub).afterSubscribe m = (inject fm cbN).start sub := by
    intro m; simp [RunSt.afterSubscribe, hopen]
  cases mode with
  | sync =>
    obtain ⟨p1, p2⟩ := opSubscribe_sync fm cbN sub raw hs hsub
    simp only [runScript, runOp, hsi, if_true, p1, Option.toList, hafter]
    exact ⟨trivial, p2⟩
  | hot =>
    obtain ⟨p1, p2⟩ := opSubscribe_hot fm cbN sub hs hsub
    obtain ⟨q1, q2⟩ := pushAfter_sim fm cbN raw _ _ [] p2
    simp only [runScript, runOp, hsi, if_true, p1, Option.toList, hafter]
    exact ⟨q1, q2.agree_hot⟩

end Ro.Fault

/-
  RoProofs.Fault.Account — every injected panic reaches someone, whatever the plan: the final
  observer's error callback, the dropped-notification hook (a second failure after the stream has
  ended), or the unhandled-error hook (failures no one can receive). Nothing is lost silently.

  Quantifier: every operator machine that forwards errors in the states in which it calls its
  Next-position callback and has no Error-position callback there (every catalogue closure except
  `Tap`, whose error callback is user code too); every plan over the operator's callbacks of all
  positions and the final observer's three callbacks — any number of faults; both source modes;
  every raw script.
-/
import RoProofs.Fault.NoEscape
namespace Ro.Fault
open Ro
variable {σ α β : Type}
set_option linter.unusedSectionVars false

/-- the failure `p` reached someone -/
def Accounted (s : St σ α β) (p : Err) : Prop :=
  (∃ c e, Notif.error c e ∈ s.trace ∧ p ∈ e.chain) ∨
  (∃ c e, Drop.down (Notif.error c e) ∈ s.drops ∧ p ∈ e.chain) ∨
  (∃ e, e ∈ s.unhandled ∧ p ∈ e.chain)

/-- `s'` only appended to the three observable lists of `s`, and every panic injected in between
    is accounted for in `s'` -/
structure Step (s s' : St σ α β) : Prop where
  trace : s.trace ⊆ s'.trace
  drops : s.drops ⊆ s'.drops
  unh : s.unhandled ⊆ s'.unhandled
  fired : ∀ p ∈ s'.fired, p ∈ s.fired ∨ Accounted s' p

/-- … except the pending one, `q`, which is propagating as a panic -/
structure StepP (s s' : St σ α β) (q : Err) : Prop where
  trace : s.trace ⊆ s'.trace
  drops : s.drops ⊆ s'.drops
  unh : s.unhandled ⊆ s'.unhandled
  fired : ∀ p ∈ s'.fired, p ∈ s.fired ∨ Accounted s' p ∨ p ∈ q.chain

theorem Accounted.mono {s s' : St σ α β} {p : Err} (h : Accounted s p)
    (h1 : s.trace ⊆ s'.trace) (h2 : s.drops ⊆ s'.drops) (h3 : s.unhandled ⊆ s'.unhandled) : Accounted s' p := by
  rcases h with ⟨c, e, hm, hp⟩ | ⟨c, e, hm, hp⟩ | ⟨e, hm, hp⟩
  · exact Or.inl ⟨c, e, h1 hm, hp⟩
  · exact Or.inr (Or.inl ⟨c, e, h2 hm, hp⟩)
  · exact Or.inr (Or.inr ⟨e, h3 hm, hp⟩)

theorem Step.refl (s : St σ α β) : Step s s :=
  ⟨fun _ h => h, fun _ h => h, fun _ h => h, fun _ h => Or.inl h⟩

theorem Step.trans {s s1 s2 : St σ α β} (a : Step s s1) (b : Step s1 s2) : Step s s2 := by
  refine ⟨fun _ h => b.trace (a.trace h), fun _ h => b.drops (a.drops h), fun _ h => b.unh (a.unh h), ?_⟩
  intro p hp
  rcases b.fired p hp with h | h
  · rcases a.fired p h with h' | h'
    · exact Or.inl h'
    · exact Or.inr (h'.mono b.trace b.drops b.unh)
  · exact Or.inr h

theorem Step.transP {s s1 s2 : St σ α β} {q : Err} (a : Step s s1) (b : StepP s1 s2 q) : StepP s s2 q := by
  refine ⟨fun _ h => b.trace (a.trace h), fun _ h => b.drops (a.drops h), fun _ h => b.unh (a.unh h), ?_⟩
  intro p hp
  rcases b.fired p hp with h | h
  · rcases a.fired p h with h' | h'
    · exact Or.inl h'
    · exact Or.inr (Or.inl (h'.mono b.trace b.drops b.unh))
  · exact Or.inr h

/-- the observable lists and the ghost log are untouched -/
structure Same (s s' : St σ α β) : Prop where
  trace : s'.trace = s.trace
  drops : s'.drops = s.drops
  unh : s'.unhandled = s.unhandled
  fired : s'.fired = s.fired

theorem Same.step {s s' : St σ α β} (h : Same s s') : Step s s' :=
  ⟨by rw [h.trace]; exact fun _ h => h, by rw [h.drops]; exact fun _ h => h, by rw [h.unh]; exact fun _ h => h,
    fun p hp => Or.inl (by rw [← h.fired]; exact hp)⟩

/-- every cause in the chain of `e` is accounted for -/
def Delivers (s : St σ α β) (e : Err) : Prop := ∀ p ∈ e.chain, Accounted s p

theorem Delivers.mono {s s' : St σ α β} {e : Err} (h : Delivers s e) (st : Step s s') : Delivers s' e :=
  fun p hp => (h p hp).mono st.trace st.drops st.unh

/-! ### the final observer -/

theorem fTryError_step (P : Plan) (s : St σ α β) (c : Ctx) (e : Err) :
    Step s (fTryError P s c e) ∧ Delivers (fTryError P s c e) e := by
  unfold fTryError
  cases h : panicAt P.fE s.fnE with
  | none =>
    simp only
    refine ⟨⟨by simp, fun _ h => h, fun _ h => h, fun p hp => Or.inl hp⟩, ?_⟩
    intro p hp
    exact Or.inl ⟨c, e, by simp, hp⟩
  | some q =>
    simp only [St.fire, St.unh]
    refine ⟨⟨by simp, fun _ h => h, by simp, ?_⟩, ?_⟩
    · intro p hp
      simp only [List.mem_append, List.mem_singleton] at hp
      rcases hp with hp | hp
      · exact Or.inl hp
      · subst hp
        exact Or.inr (Or.inr (Or.inr ⟨.observer p, by simp, by cases p <;> simp [Err.chain]⟩))
    · intro p hp
      exact Or.inl ⟨c, e, by simp, hp⟩

theorem self_mem_chain (e : Err) : e ∈ e.chain := by cases e <;> simp [Err.chain]

theorem observer_mem (q : Err) : q ∈ (Err.observer q).chain := by simp [Err.chain, self_mem_chain]

theorem fNext_step (P : Plan) (s : St σ α β) (c : Ctx) (v : β) : Step s (fNext P s c v) := by
  unfold fNext
  cases h : panicAt P.fN s.fnN with
  | none => exact ⟨by simp, fun _ h => h, fun _ h => h, fun p hp => Or.inl hp⟩
  | some q =>
    simp only
    obtain ⟨a, b⟩ := fTryError_step P (({ s with trace := s.trace ++ [.next c v], fnN := s.fnN + 1 } : St σ α β).fire q) c (.observer q)
    refine ⟨fun x hx => a.trace (by simp [St.fire, hx]), fun x hx => a.drops hx, fun x hx => a.unh hx, ?_⟩
    intro p hp
    rcases a.fired p hp with h' | h'
    · simp only [St.fire, List.mem_append, List.mem_singleton] at h'
      rcases h' with h' | h'
      · exact Or.inl h'
      · subst h'
        exact Or.inr (b p (by simp [Err.chain, self_mem_chain]))
    · exact Or.inr h'

theorem fComplete_step (P : Plan) (s : St σ α β) (c : Ctx) : Step s (fComplete P s c) := by
  unfold fComplete
  cases h : panicAt P.fC s.fnC with
  | none => exact ⟨by simp, fun _ h => h, fun _ h => h, fun p hp => Or.inl hp⟩
  | some q =>
    simp only [St.fire, St.unh]
    refine ⟨by simp, fun _ h => h, by simp, ?_⟩
    intro p hp
    simp only [List.mem_append, List.mem_singleton] at hp
    rcases hp with hp | hp
    · exact Or.inl hp
    · subst hp
      exact Or.inr (Or.inr (Or.inr ⟨.observer p, by simp, by simp [Err.chain, self_mem_chain]⟩))

/-! ### subscriptions (no teardown fault: they touch nothing observable) -/

section
variable (P : Plan) (htd : P.srcTd = none)
include htd

theorem uUnsub_same (s : St σ α β) : Same s (uUnsub P s).1 := by
  unfold uUnsub
  rw [htd]
  cases s.uDone <;> cases s.uReg <;> exact ⟨rfl, rfl, rfl, rfl⟩

theorem opTeardown_same (s : St σ α β) : Same s (opTeardown P s).1 := by
  unfold opTeardown
  split
  · have := uUnsub_same P htd { s with uOpen := false }
    exact ⟨this.trace, this.drops, this.unh, this.fired⟩
  · exact ⟨rfl, rfl, rfl, rfl⟩

theorem dUnsub_same (w : Nat) (s : St σ α β) : Same s (dUnsub P w s).1 := by
  unfold dUnsub
  split
  · exact ⟨rfl, rfl, rfl, rfl⟩
  · split
    · have := opTeardown_same P htd { s with dDone := true }
      generalize opTeardown P { s with dDone := true } = q at this
      obtain ⟨q1, q2⟩ := q
      cases q2 <;> exact ⟨this.trace, this.drops, this.unh, this.fired⟩
    · exact ⟨rfl, rfl, rfl, rfl⟩

theorem dUnsubscribe_same (w : Nat) (s : St σ α β) : Same s (dUnsubscribe P w s).1 := by
  unfold dUnsubscribe
  split
  · have := dUnsub_same P htd w { s with dOpen := false }
    exact ⟨this.trace, this.drops, this.unh, this.fired⟩
  · exact ⟨rfl, rfl, rfl, rfl⟩

/-! ### the downstream subscriber -/

theorem dPush_step (w : Nat) (s : St σ α β) (n : Notif β) :
    Step s (dPush P w s n).1 ∧ (∀ c e, n = .error c e → Delivers (dPush P w s n).1 e) := by
  cases n with
  | next c v =>
    simp only [dPush]
    split
    · exact ⟨fNext_step P s c v, fun _ _ h => by cases h⟩
    · exact ⟨⟨fun _ h => h, by simp, fun _ h => h, fun p hp => Or.inl hp⟩, fun _ _ h => by cases h⟩
  | error c e =>
    simp only [dPush]
    split
    · obtain ⟨a, b⟩ := fTryError_step P { s with dOpen := false } c e
      have sm := (dUnsub_same P htd w (fTryError P { s with dOpen := false } c e)).step
      refine ⟨⟨fun x hx => sm.trace (a.trace hx), fun x hx => sm.drops (a.drops hx), fun x hx => sm.unh (a.unh hx), ?_⟩, ?_⟩
      · intro p hp
        rcases sm.fired p hp with h | h
        · rcases a.fired p h with h' | h'
          · exact Or.inl h'
          · exact Or.inr (h'.mono sm.trace sm.drops sm.unh)
        · exact Or.inr h
      · intro c' e' h
        cases h
        exact b.mono sm
    · have sm := dUnsub_same P htd w { s with drops := s.drops ++ [.down (.error c e)] }
      refine ⟨⟨by rw [sm.trace]; exact fun _ h => h, by rw [sm.drops]; simp, by rw [sm.unh]; exact fun _ h => h,
        fun p hp => Or.inl (by rw [sm.fired] at hp; exact hp)⟩, ?_⟩
      intro c' e' h
      cases h
      intro p hp
      exact Or.inr (Or.inl ⟨c, e, by rw [sm.drops]; simp, hp⟩)
  | complete c =>
    simp only [dPush]
    split
    · have a := fComplete_step P { s with dOpen := false } c
      have sm := (dUnsub_same P htd w (fComplete P { s with dOpen := false } c)).step
      have := Step.trans (s := { s with dOpen := false }) a sm
      exact ⟨⟨this.trace, this.drops, this.unh, this.fired⟩, fun _ _ h => by cases h⟩
    · have sm := dUnsub_same P htd w { s with drops := s.drops ++ [.down (.complete c)] }
      exact ⟨⟨by rw [sm.trace]; exact fun _ h => h, by rw [sm.drops]; simp, by rw [sm.unh]; exact fun _ h => h,
        fun p hp => Or.inl (by rw [sm.fired] at hp; exact hp)⟩, fun _ _ h => by cases h⟩

theorem dPushAll_step (w : Nat) (ns : List (Notif β)) : ∀ s : St σ α β,
    Step s (dPushAll P w s ns).1 ∧ (∀ c e, Notif.error c e ∈ ns → Delivers (dPushAll P w s ns).1 e) := by
  induction ns with
  | nil => intro s; exact ⟨Step.refl s, fun _ _ h => by cases h⟩
  | cons n ns ih =>
    intro s
    obtain ⟨a, b⟩ := dPush_step P htd w s n
    have hn := dPush_none P htd w s n
    rw [dPushAll]
    generalize dPush P w s n = q at a b hn
    obtain ⟨q1, q2⟩ := q
    simp only at hn a b
    subst hn
    obtain ⟨i1, i2⟩ := ih q1
    refine ⟨a.trans i1, ?_⟩
    intro c e hm
    simp only [List.mem_cons] at hm
    rcases hm with hm | hm
    · exact (b c e hm.symm).mono i1
    · exact i2 c e hm

/-! ### the operator closure -/

theorem oTryError_step (fm : FMachine σ α β) (s : St σ α β) (c : Ctx) (e : Err) :
    Step s (oTryError fm P s c e) ∧
      (fm.callsE s.ms = false → (fm.base.onError s.ms c e).2 = [.error c e] → Delivers (oTryError fm P s c e) e) := by
  unfold oTryError opError
  cases hc : fm.callsE s.ms
  · simp only [Bool.false_eq_true, if_false]
    obtain ⟨a, b⟩ := dPushAll_step P htd fm.tdWraps (fm.base.onError s.ms c e).2 { s with ms := (fm.base.onError s.ms c e).1 }
    have hn := dPushAll_none P htd fm.tdWraps (fm.base.onError s.ms c e).2 { s with ms := (fm.base.onError s.ms c e).1 }
    generalize dPushAll P fm.tdWraps { s with ms := (fm.base.onError s.ms c e).1 } (fm.base.onError s.ms c e).2 = q at a b hn
    obtain ⟨q1, q2⟩ := q
    simp only at hn a b
    subst hn
    exact ⟨⟨a.trace, a.drops, a.unh, a.fired⟩, fun _ h => b c e (by rw [h]; simp)⟩
  · simp only [if_true]
    cases hp : panicAt P.cbE s.nE with
    | some q =>
      simp only [St.fire, St.unh]
      refine ⟨⟨fun _ h => h, fun _ h => h, by simp, ?_⟩, fun h => by cases h⟩
      intro p hp
      simp only [List.mem_append, List.mem_singleton] at hp
      rcases hp with hp | hp
      · exact Or.inl hp
      · subst hp
        exact Or.inr (Or.inr (Or.inr ⟨.observer p, by simp, observer_mem p⟩))
    | none =>
      simp only
      obtain ⟨a, b⟩ := dPushAll_step P htd fm.tdWraps (fm.base.onError s.ms c e).2
        { s with nE := s.nE + 1, ms := (fm.base.onError s.ms c e).1 }
      have hn := dPushAll_none P htd fm.tdWraps (fm.base.onError s.ms c e).2
        { s with nE := s.nE + 1, ms := (fm.base.onError s.ms c e).1 }
      generalize dPushAll P fm.tdWraps { s with nE := s.nE + 1, ms := (fm.base.onError s.ms c e).1 }
        (fm.base.onError s.ms c e).2 = q at a b hn
      obtain ⟨q1, q2⟩ := q
      simp only at hn a b
      subst hn
      exact ⟨⟨a.trace, a.drops, a.unh, a.fired⟩, fun h => by cases h⟩

theorem oTryComplete_step (fm : FMachine σ α β) (s : St σ α β) (c : Ctx) : Step s (oTryComplete fm P s c) := by
  unfold oTryComplete opComplete
  cases hc : fm.callsC s.ms
  · simp only [Bool.false_eq_true, if_false]
    obtain ⟨a, _⟩ := dPushAll_step P htd fm.tdWraps (fm.base.onComplete s.ms c).2 { s with ms := (fm.base.onComplete s.ms c).1 }
    have hn := dPushAll_none P htd fm.tdWraps (fm.base.onComplete s.ms c).2 { s with ms := (fm.base.onComplete s.ms c).1 }
    generalize dPushAll P fm.tdWraps { s with ms := (fm.base.onComplete s.ms c).1 } (fm.base.onComplete s.ms c).2 = q at a hn
    obtain ⟨q1, q2⟩ := q
    simp only at hn a
    subst hn
    exact ⟨a.trace, a.drops, a.unh, a.fired⟩
  · simp only [if_true]
    cases hp : panicAt P.cbC s.nC with
    | some q =>
      simp only [St.fire, St.unh]
      refine ⟨fun _ h => h, fun _ h => h, by simp, ?_⟩
      intro p hp
      simp only [List.mem_append, List.mem_singleton] at hp
      rcases hp with hp | hp
      · exact Or.inl hp
      · subst hp
        exact Or.inr (Or.inr (Or.inr ⟨.observer p, by simp, observer_mem p⟩))
    | none =>
      simp only
      obtain ⟨a, _⟩ := dPushAll_step P htd fm.tdWraps (fm.base.onComplete s.ms c).2
        { s with nC := s.nC + 1, ms := (fm.base.onComplete s.ms c).1 }
      have hn := dPushAll_none P htd fm.tdWraps (fm.base.onComplete s.ms c).2
        { s with nC := s.nC + 1, ms := (fm.base.onComplete s.ms c).1 }
      generalize dPushAll P fm.tdWraps { s with nC := s.nC + 1, ms := (fm.base.onComplete s.ms c).1 }
        (fm.base.onComplete s.ms c).2 = q at a hn
      obtain ⟨q1, q2⟩ := q
      simp only at hn a
      subst hn
      exact ⟨a.trace, a.drops, a.unh, a.fired⟩

/-- a reaction of the closure that only emits: a step from any state with the same observable lists -/
theorem emit_step (fm : FMachine σ α β) (s s0 : St σ α β) (ns : List (Notif β))
    (h1 : s0.trace = s.trace) (h2 : s0.drops = s.drops) (h3 : s0.unhandled = s.unhandled) (h4 : s0.fired = s.fired) :
    (dPushAll P fm.tdWraps s0 ns).2 = none ∧ Step s (dPushAll P fm.tdWraps s0 ns).1 := by
  obtain ⟨a, _⟩ := dPushAll_step P htd fm.tdWraps ns s0
  exact ⟨dPushAll_none P htd fm.tdWraps ns s0,
    ⟨by rw [← h1]; exact a.trace, by rw [← h2]; exact a.drops, by rw [← h3]; exact a.unh, by rw [← h4]; exact a.fired⟩⟩

theorem opNextOk_step (fm : FMachine σ α β) (s s0 : St σ α β) (c : Ctx) (v : α)
    (h1 : s0.trace = s.trace) (h2 : s0.drops = s.drops) (h3 : s0.unhandled = s.unhandled) (h4 : s0.fired = s.fired) :
    (opNextOk fm P s0 c v).2 = none ∧ Step s (opNextOk fm P s0 c v).1 := by
  unfold opNextOk
  obtain ⟨a, b⟩ := emit_step P htd fm s { s0 with ms := (fm.base.onNext s0.ms c v).1 } (fm.base.onNext s0.ms c v).2 h1 h2 h3 h4
  generalize dPushAll P fm.tdWraps { s0 with ms := (fm.base.onNext s0.ms c v).1 } (fm.base.onNext s0.ms c v).2 = q at a b
  obtain ⟨q1, q2⟩ := q
  simp only at a b
  subst a
  exact ⟨rfl, b⟩

theorem opNext_step (fm : FMachine σ α β) (s : St σ α β) (c : Ctx) (v : α) :
    ((opNext fm P s c v).2 = none → Step s (opNext fm P s c v).1) ∧
    (∀ p, (opNext fm P s c v).2 = some p →
      StepP s (opNext fm P s c v).1 p ∧ (opNext fm P s c v).1.ms = s.ms ∧ fm.callsN s.ms c v = true) := by
  unfold opNext
  cases hc : fm.callsN s.ms c v
  · simp only [Bool.false_eq_true, if_false]
    obtain ⟨a, b⟩ := opNextOk_step P htd fm s s c v rfl rfl rfl rfl
    exact ⟨fun _ => b, fun p hp => by rw [a] at hp; cases hp⟩
  · simp only [if_true]
    have hok := opNextOk_step P htd fm s { s with nN := s.nN + 1 } c v rfl rfl rfl rfl
    have hpanic : ∀ p : Err, StepP s (({ s with nN := s.nN + 1 } : St σ α β).fire p) p := by
      intro p
      refine ⟨fun _ h => h, fun _ h => h, fun _ h => h, ?_⟩
      intro p' hp'
      simp only [St.fire, List.mem_append, List.mem_singleton] at hp'
      rcases hp' with h | h
      · exact Or.inl h
      · subst h; exact Or.inr (Or.inr (self_mem_chain p'))
    cases hp : P.cbN s.nN with
    | none => exact ⟨fun _ => hok.2, fun p h => by rw [hok.1] at h; cases h⟩
    | some f =>
      cases f with
      | panicErr p =>
        refine ⟨fun h => by simp at h, fun p' h => ?_⟩
        simp only [Option.some.injEq] at h
        subst h
        exact ⟨hpanic _, rfl, trivial⟩
      | panicVal n =>
        refine ⟨fun h => by simp at h, fun p' h => ?_⟩
        simp only [Option.some.injEq] at h
        subst h
        exact ⟨hpanic _, rfl, trivial⟩
      | errRet e =>
        simp only
        cases hh : fm.onErrRet with
        | none => exact ⟨fun _ => hok.2, fun p h => by rw [hok.1] at h; cases h⟩
        | some hf =>
          simp only
          obtain ⟨a, b⟩ := emit_step P htd fm s { s with nN := s.nN + 1, ms := (hf s.ms c v e).1 } (hf s.ms c v e).2 rfl rfl rfl rfl
          exact ⟨fun _ => b, fun p h => by rw [a] at h; cases h⟩

/-- the operator forwards errors in the states in which it calls its Next-position callback, and
    has no user callback in Error position there -/
structure Forwards (fm : FMachine σ α β) : Prop where
  fwd : ∀ s c v, fm.callsN s c v = true → ∀ e, (fm.base.onError s c e).2 = [.error c e]
  noE : ∀ s c v, fm.callsN s c v = true → fm.callsE s = false

theorem oTryNext_step (fm : FMachine σ α β) (hfm : Forwards fm) (s : St σ α β) (c : Ctx) (v : α) :
    Step s (oTryNext fm P s c v) := by
  unfold oTryNext
  obtain ⟨a, b⟩ := opNext_step P htd fm s c v
  generalize opNext fm P s c v = q at a b
  obtain ⟨q1, q2⟩ := q
  cases q2 with
  | none => exact a rfl
  | some p =>
    obtain ⟨b1, b2, b3⟩ := b p rfl
    simp only at b2
    simp only [oRecoverNext]
    obtain ⟨e1, e2⟩ := oTryError_step P htd fm q1 c (.observer p)
    have hd := e2 (by rw [b2]; exact hfm.noE _ _ _ b3) (by rw [b2]; exact hfm.fwd _ _ _ b3 _)
    refine ⟨fun _ h => e1.trace (b1.trace h), fun _ h => e1.drops (b1.drops h), fun _ h => e1.unh (b1.unh h), ?_⟩
    intro p' hp'
    rcases e1.fired p' hp' with h | h
    · rcases b1.fired p' h with h' | h' | h'
      · exact Or.inl h'
      · exact Or.inr (h'.mono e1.trace e1.drops e1.unh)
      · exact Or.inr (hd p' (by simp [Err.chain, h']))
    · exact Or.inr h

theorem uFeed_step (fm : FMachine σ α β) (hfm : Forwards fm) (s : St σ α β) (x : Notif α) :
    Step s (uFeed fm P s x).1 := by
  cases x with
  | next c v =>
    simp only [uFeed]
    split
    · exact oTryNext_step P htd fm hfm s c v
    · exact ⟨fun _ h => h, by simp, fun _ h => h, fun p hp => Or.inl hp⟩
  | error c e =>
    simp only [uFeed]
    split
    · have a := (oTryError_step P htd fm { s with uOpen := false } c e).1
      have b := (uUnsub_same P htd (oTryError fm P { s with uOpen := false } c e)).step
      have := Step.trans (s := { s with uOpen := false }) a b
      exact ⟨this.trace, this.drops, this.unh, this.fired⟩
    · have sm := uUnsub_same P htd { s with drops := s.drops ++ [.up (.error c e)] }
      exact ⟨by rw [sm.trace]; exact fun _ h => h, by rw [sm.drops]; simp, by rw [sm.unh]; exact fun _ h => h,
        fun p hp => Or.inl (by rw [sm.fired] at hp; exact hp)⟩
  | complete c =>
    simp only [uFeed]
    split
    · have a := oTryComplete_step P htd fm { s with uOpen := false } c
      have b := (uUnsub_same P htd (oTryComplete fm P { s with uOpen := false } c)).step
      have := Step.trans (s := { s with uOpen := false }) a b
      exact ⟨this.trace, this.drops, this.unh, this.fired⟩
    · have sm := uUnsub_same P htd { s with drops := s.drops ++ [.up (.complete c)] }
      exact ⟨by rw [sm.trace]; exact fun _ h => h, by rw [sm.drops]; simp, by rw [sm.unh]; exact fun _ h => h,
        fun p hp => Or.inl (by rw [sm.fired] at hp; exact hp)⟩

variable (hss : P.srcSub = none) (hcs : P.cbS = none)
include hss hcs

theorem srcBody_step (fm : FMachine σ α β) (hfm : Forwards fm) (raw : List (Notif α)) :
    ∀ (i : Nat) (s : St σ α β), (srcBody fm P i raw s).2 = none ∧ Step s (srcBody fm P i raw s).1 := by
  induction raw with
  | nil => intro i s; simp only [srcBody, srcPanicAt, hss]; exact ⟨trivial, Step.refl s⟩
  | cons x xs ih =>
    intro i s
    have a := uFeed_step P htd fm hfm s x
    have hn := uFeed_none P htd fm s x
    simp only [srcBody, srcPanicAt, hss]
    generalize uFeed fm P s x = q at a hn
    obtain ⟨q1, q2⟩ := q
    simp only at hn a
    subst hn
    obtain ⟨i1, i2⟩ := ih (i + 1) q1
    exact ⟨i1, a.trans i2⟩

theorem opSubscribe_step (fm : FMachine σ α β) (hfm : Forwards fm) (sub : Ctx) (inside : List (Notif α)) :
    Step ({ ms := fm.base.init } : St σ α β) (opSubscribe fm P sub inside).1 := by
  -- the body of the subscribe function
  have hbody : (opBody fm P sub inside { ms := fm.base.init }).2 = none ∧
      Step ({ ms := fm.base.init } : St σ α β) (opBody fm P sub inside { ms := fm.base.init }).1 := by
    unfold opBody
    have h0 : (if fm.callsS then P.cbS.bind Fault.recovered else none) = none := by
      rw [hcs]; cases fm.callsS <;> rfl
    rw [h0]
    simp only
    obtain ⟨a, b⟩ := emit_step P htd fm ({ ms := fm.base.init } : St σ α β)
      { ({ ms := fm.base.init } : St σ α β) with ms := (fm.base.onSubscribe fm.base.init sub).1 }
      (fm.base.onSubscribe fm.base.init sub).2 rfl rfl rfl rfl
    generalize dPushAll P fm.tdWraps { ({ ms := fm.base.init } : St σ α β) with ms := (fm.base.onSubscribe fm.base.init sub).1 }
      (fm.base.onSubscribe fm.base.init sub).2 = q at a b
    obtain ⟨q1, q2⟩ := q
    simp only at a b
    subst a
    simp only
    split
    · -- the source's SubscribeWithContext
      unfold srcSubscribe
      obtain ⟨c1, c2⟩ := srcBody_step P htd hss hcs fm hfm inside 0 { q1 with subs := q1.subs + 1 }
      generalize srcBody fm P 0 inside { q1 with subs := q1.subs + 1 } = t at c1 c2
      obtain ⟨t1, t2⟩ := t
      simp only at c1 c2
      subst c1
      simp only [htd]
      have c2' : Step q1 t1 := ⟨c2.trace, c2.drops, c2.unh, c2.fired⟩
      have c3 := b.trans c2'
      split
      · exact ⟨rfl, ⟨c3.trace, c3.drops, c3.unh, c3.fired⟩⟩
      · exact ⟨rfl, ⟨c3.trace, c3.drops, c3.unh, c3.fired⟩⟩
    · exact ⟨rfl, b⟩
  unfold opSubscribe
  generalize opBody fm P sub inside { ms := fm.base.init } = q at hbody
  obtain ⟨q1, q2⟩ := q
  obtain ⟨h1, h2⟩ := hbody
  simp only at h1 h2
  subst h1
  simp only
  split
  · exact h2
  · split
    · have sm := (opTeardown_same P htd q1).step
      have hn := opTeardown_none P htd q1
      generalize opTeardown P q1 = t at sm hn
      obtain ⟨t1, t2⟩ := t
      simp only at hn sm
      subst hn
      exact h2.trans sm
    · exact ⟨h2.trace, h2.drops, h2.unh, h2.fired⟩

omit hss hcs in
theorem pushAfter_step (fm : FMachine σ α β) (hfm : Forwards fm) (raw : List (Notif α)) :
    ∀ (s : St σ α β) (esc : List Err), Step s (pushAfter fm P (s, esc) raw).1 := by
  induction raw with
  | nil => intro s esc; exact Step.refl s
  | cons x xs ih =>
    intro s esc
    simp only [pushAfter]
    split
    · exact ih s esc
    · exact (uFeed_step P htd fm hfm s x).trans (ih _ _)

/-- **C07, "exactly once … failures that no one can receive go to the unhandled-error hook".**
    Whatever the plan (any number of panics in the operator's callbacks of the three positions and
    in the final observer's callbacks), every injected panic is accounted for at the end of the
    script: its cause is in the `Unwrap` chain of an error the final observer's error callback was
    called with, of a dropped Error notification, or of an error given to `OnUnhandledError`. -/
theorem all_accounted (fm : FMachine σ α β) (hfm : Forwards fm) (mode : SrcMode) (sub : Ctx) (raw : List (Notif α)) :
    ∀ p ∈ (runScript fm P mode sub raw).1.fired, Accounted (runScript fm P mode sub raw).1 p := by
  have key : Step ({ ms := fm.base.init } : St σ α β) (runScript fm P mode sub raw).1 := by
    cases mode with
    | sync => exact opSubscribe_step P htd hss hcs fm hfm sub raw
    | hot =>
      simp only [runScript]
      exact (opSubscribe_step P htd hss hcs fm hfm sub []).trans (pushAfter_step P htd fm hfm raw _ _)
  intro p hp
  rcases key.fired p hp with h | h
  · cases h
  · exact h

end
end Ro.Fault

/-
  RoProofs.Fault.Kernel — the subscription kernel under panicking finalizers, the `go` wrapper, and
  the per-operator side conditions (`Forwards`) of the catalogue closures.
-/
import RoProofs.Fault.Account
import RoModel.Fault.Ops
namespace Ro.Fault
open Ro
variable {α β κ : Type}

/-! ### `subscriptionImpl.Unsubscribe` with any subset of panicking finalizers -/

theorem runFinalizers_loop (fs : List (Option Err)) (n : Nat) (acc : List Err) :
    fs.foldl finStep (n, acc) = (n + fs.length, acc ++ fs.filterMap execFinalizer) := by
  induction fs generalizing n acc with
  | nil => simp
  | cons f fs ih =>
    simp only [List.foldl, List.length_cons, finStep]
    rw [ih]
    cases h : execFinalizer f <;> simp [h] <;> omega

/-- every finalizer runs, whatever the others do; what is re-raised after the loop is exactly the
    list of `unsubscriptionError`s of the panicking ones, in order -/
theorem runFinalizers_spec (fs : List (Option Err)) :
    (runFinalizers fs).1 = fs.length ∧
    (runFinalizers fs).2 = fs.filterMap (fun f => f.map Err.unsubscription) := by
  unfold runFinalizers
  rw [runFinalizers_loop]
  simp only [Nat.zero_add, List.nil_append, true_and]
  rfl

/-- each panic of a finalizer is still reachable through `Unwrap` from what is re-raised -/
theorem runFinalizers_cause (fs : List (Option Err)) (p : Err) (h : some p ∈ fs) :
    ∃ e ∈ (runFinalizers fs).2, p ∈ e.chain := by
  rw [(runFinalizers_spec fs).2]
  exact ⟨.unsubscription p, List.mem_filterMap.mpr ⟨some p, h, rfl⟩, by simp [Err.chain, self_mem_chain]⟩

/-- nothing is raised iff no finalizer panics -/
theorem runFinalizers_quiet (fs : List (Option Err)) :
    (runFinalizers fs).2 = [] ↔ ∀ f ∈ fs, f = none := by
  rw [(runFinalizers_spec fs).2]
  constructor
  · intro h f hf
    cases f with
    | none => rfl
    | some p =>
      have : Err.unsubscription p ∈ fs.filterMap (fun f => f.map Err.unsubscription) :=
        List.mem_filterMap.mpr ⟨some p, hf, rfl⟩
      rw [h] at this; cases this
  · intro h
    apply List.eq_nil_iff_forall_not_mem.mpr
    intro e he
    obtain ⟨f, hf, hm⟩ := List.mem_filterMap.mp he
    rw [h f hf] at hm; cases hm

/-! ### `go` statements -/

/-- a recovered goroutine never crashes the process; its panic goes to the unhandled-error hook -/
theorem goBody_recovered (p : Option Err) : ∀ e, goBody true p ≠ .crash e := by
  intro e; cases p <;> simp [goBody]

/-- a bare goroutine crashes the process exactly when its body panics -/
theorem goBody_bare (p : Option Err) : (∃ e, goBody false p = .crash e) ↔ p.isSome = true := by
  cases p <;> simp [goBody]

/-! ### the catalogue closures forward errors where they call their callback -/

theorem always_forwards {σ : Type} (m : Machine σ α β) (h : ∀ s c e, (m.onError s c e).2 = [.error c e]) :
    Forwards (always m) := ⟨fun s c _ _ e => h s c e, fun _ _ _ _ => rfl⟩

theorem filterF_forwards (p : Pred α) : Forwards (filterF p) := always_forwards _ (fun _ _ _ => rfl)
theorem distinctByF_forwards [DecidableEq κ] (key : Ctx → α → Ctx × κ) : Forwards (distinctByF key) :=
  always_forwards _ (fun _ _ _ => rfl)
theorem firstF_forwards (p : Pred α) : Forwards (firstF p) := always_forwards _ (fun _ _ _ => rfl)
theorem lastF_forwards (p : Pred α) : Forwards (lastF p) := always_forwards _ (fun _ _ _ => rfl)
theorem mapF_forwards (f : Ctx → α → Nat → Ctx × β) : Forwards (mapF f) := always_forwards _ (fun _ _ _ => rfl)
theorem scanF_forwards (f : Ctx → β → α → Nat → Ctx × β) (seed : β) : Forwards (scanF f seed) :=
  always_forwards _ (fun _ _ _ => rfl)
theorem toMapF_forwards [DecidableEq κ] (kv : Ctx → α → Nat → κ × β) : Forwards (toMapF kv) :=
  always_forwards _ (fun _ _ _ => rfl)
theorem containsF_forwards (p : Ctx → α → Nat → Bool) : Forwards (containsF p) := always_forwards _ (fun _ _ _ => rfl)
theorem findF_forwards (p : Ctx → α → Nat → Bool) : Forwards (findF p) := always_forwards _ (fun _ _ _ => rfl)
theorem reduceF_forwards (f : Ctx → β → α → Nat → Ctx × β) (seed : β) : Forwards (reduceF f seed) :=
  always_forwards _ (fun _ _ _ => rfl)
theorem mapErrF_forwards (f : Ctx → α → Nat → β × Ctx × Option Err) : Forwards (mapErrF f) :=
  ⟨fun _ _ _ _ _ => rfl, fun _ _ _ _ => rfl⟩
theorem skipWhileF_forwards (p : Pred α) : Forwards (skipWhileF p) := ⟨fun _ _ _ _ _ => rfl, fun _ _ _ _ => rfl⟩
theorem allF_forwards (p : Ctx → α → Nat → Bool) : Forwards (allF p) := ⟨fun _ _ _ _ _ => rfl, fun _ _ _ _ => rfl⟩
/-- `TakeWhile` forwards an error only while it has not completed downstream — and that is exactly
    when it still calls its predicate -/
theorem takeWhileF_forwards (p : Pred α) : Forwards (takeWhileF p) := by
  refine ⟨?_, fun _ _ _ _ => rfl⟩
  intro s c v h e
  have hs : s.1 = false := by simpa [takeWhileF] using h
  simp [takeWhileF, takeWhileM, hs]
/-- operators without callbacks satisfy the side conditions vacuously -/
theorem plain_forwards {σ : Type} (m : Machine σ α β) : Forwards (plain m) :=
  ⟨fun _ _ _ h => (by cases h), fun _ _ _ h => (by cases h)⟩
theorem throwIfEmptyF_forwards (e : Err) : Forwards (throwIfEmptyF (α := α) e) :=
  ⟨fun _ _ _ h => (by cases h), fun _ _ _ h => (by cases h)⟩
theorem catchF_forwards (fb : Ctx → Err → List (Notif α)) : Forwards (catchF fb) :=
  ⟨fun _ _ _ h => (by cases h), fun _ _ _ h => (by cases h)⟩

end Ro.Fault

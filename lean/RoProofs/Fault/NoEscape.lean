/-
  RoProofs.Fault.NoEscape — for EVERY fault plan that leaves the source's teardown alone (any
  number of panics, in the operator's callbacks of all positions, in the source's subscribe
  function, in the final observer's three callbacks) and every operator machine, no panic reaches
  the goroutine that called Subscribe / Next / Error / Complete / Unsubscribe.
-/
import RoModel.Fault
namespace Ro.Fault
open Ro
variable {σ α β : Type}

section
variable (P : Plan) (htd : P.srcTd = none)
include htd

theorem uUnsub_none (s : St σ α β) : (uUnsub P s).2 = none := by
  unfold uUnsub
  rw [htd]
  cases s.uDone <;> cases s.uReg <;> simp

theorem opTeardown_none (s : St σ α β) : (opTeardown P s).2 = none := by
  unfold opTeardown
  split
  · exact uUnsub_none P htd _
  · rfl

theorem dUnsub_none (w : Nat) (s : St σ α β) : (dUnsub P w s).2 = none := by
  unfold dUnsub
  split
  · rfl
  · split
    · have := opTeardown_none P htd { s with dDone := true }
      generalize opTeardown P { s with dDone := true } = q at this
      obtain ⟨q1, q2⟩ := q
      simp only at this
      subst this
      rfl
    · rfl

theorem dUnsubscribe_none (w : Nat) (s : St σ α β) : (dUnsubscribe P w s).2 = none := by
  unfold dUnsubscribe
  split
  · exact dUnsub_none P htd w _
  · rfl

theorem dPush_none (w : Nat) (s : St σ α β) (n : Notif β) : (dPush P w s n).2 = none := by
  cases n <;> simp only [dPush] <;> split <;> first | rfl | exact dUnsub_none P htd w _

theorem dPushAll_none (w : Nat) (ns : List (Notif β)) : ∀ s : St σ α β, (dPushAll P w s ns).2 = none := by
  induction ns with
  | nil => intro s; rfl
  | cons n ns ih =>
    intro s
    have := dPush_none P htd w s n
    rw [dPushAll]
    generalize dPush P w s n = q at this
    obtain ⟨q1, q2⟩ := q
    simp only at this
    subst this
    exact ih q1

theorem uFeed_none (fm : FMachine σ α β) (s : St σ α β) (x : Notif α) : (uFeed fm P s x).2 = none := by
  cases x <;> simp only [uFeed] <;> split <;> first | rfl | exact uUnsub_none P htd _

theorem srcCatch_none (fm : FMachine σ α β) (sub : Ctx) (s : St σ α β) (p : Err) : (srcCatch fm P sub s p).2 = none := by
  unfold srcCatch
  have := uFeed_none P htd fm s (.error sub (.observable p))
  generalize uFeed fm P s (.error sub (.observable p)) = q at this
  obtain ⟨q1, q2⟩ := q
  simp only at this
  subst this
  exact opTeardown_none P htd q1

theorem srcSubscribe_none (fm : FMachine σ α β) (sub : Ctx) (inside : List (Notif α)) (s : St σ α β) :
    (srcSubscribe fm P sub inside s).2 = none := by
  unfold srcSubscribe
  rw [htd]
  generalize srcBody fm P 0 inside { s with subs := s.subs + 1 } = q
  obtain ⟨q1, q2⟩ := q
  cases q2 with
  | some p => exact srcCatch_none P htd fm sub q1 p
  | none =>
    simp only
    split <;> rfl

theorem opCatch_none (w : Nat) (sub : Ctx) (s : St σ α β) (p : Err) : (opCatch P w sub s p).2 = none := by
  unfold opCatch
  have := dPush_none P htd w s (.error sub (.observable p))
  generalize dPush P w s (.error sub (.observable p)) = q at this
  obtain ⟨q1, q2⟩ := q
  simp only at this
  subst this
  exact dUnsubscribe_none P htd w q1

theorem opSubscribe_none (fm : FMachine σ α β) (sub : Ctx) (inside : List (Notif α)) :
    (opSubscribe fm P sub inside).2 = none := by
  unfold opSubscribe
  generalize opBody fm P sub inside { ms := fm.base.init } = q
  obtain ⟨q1, q2⟩ := q
  cases q2 with
  | some p => exact opCatch_none P htd _ sub q1 p
  | none =>
    simp only
    split
    · rfl
    · split
      · have := opTeardown_none P htd q1
        generalize opTeardown P q1 = t at this
        obtain ⟨t1, t2⟩ := t
        simp only at this
        subst this
        rfl
      · rfl

theorem pushAfter_none (fm : FMachine σ α β) (raw : List (Notif α)) :
    ∀ (s : St σ α β) (esc : List Err), (pushAfter fm P (s, esc) raw).2 = esc := by
  induction raw with
  | nil => intro s esc; rfl
  | cons x xs ih =>
    intro s esc
    simp only [pushAfter]
    split
    · exact ih s esc
    · rw [ih, uFeed_none P htd fm s x]; simp

/-- **C07, "never escapes as a panic".** -/
theorem no_escape (fm : FMachine σ α β) (mode : SrcMode) (sub : Ctx) (raw : List (Notif α)) :
    (runScript fm P mode sub raw).2 = [] := by
  cases mode
  · simp [runScript, opSubscribe_none P htd fm sub raw]
  · simp only [runScript]
    rw [pushAfter_none P htd fm raw, opSubscribe_none P htd fm sub []]
    rfl

/-- … nor from the follow-up notification, nor from the final `Unsubscribe()` -/
theorem no_escape_fin (fm : FMachine σ α β) (mode : SrcMode) (sub : Ctx) (raw : List (Notif α)) (fu : Notif α) :
    (run fm P mode sub raw fu).escaped = [] ∧ (run fm P mode sub raw fu).escapedFin = [] := by
  refine ⟨no_escape P htd fm mode sub raw, ?_⟩
  simp only [run]
  rw [pushAfter_none P htd fm [fu], dUnsubscribe_none P htd]
  rfl

end
end Ro.Fault

/-
  RoProofs.Fault.Grammar — C01's grammar under faults, at full generality: for EVERY operator
  machine and EVERY fault plan in which the final observer's *next* callback does not panic
  (everything else may: operator callbacks in all positions, the source's subscribe function and
  teardown, the final observer's error and complete callbacks; any number of faults), what the
  final observer's callbacks see is values, then at most one terminal, then nothing.
  This is the `_partial` statement for deviation (i); `final_onNext_panic_witness` is the witness.
-/
import RoModel.Fault
import RoProofs.Gate
namespace Ro.Fault
open Ro
variable {σ α β : Type}

/-- the trace obeys the grammar and a delivered terminal has closed the downstream subscriber -/
structure GI (s : St σ α β) : Prop where
  gram : Grammar s.trace
  closed : hasTerm s.trace = true → s.dOpen = false

theorem grammar_snoc (t : List (Notif β)) (x : Notif β) (h : hasTerm t = false) : Grammar (t ++ [x]) := by
  induction t with
  | nil => simp [Grammar]
  | cons y ys ih =>
    simp only [hasTerm_cons, Bool.or_eq_false_iff] at h
    simp [Grammar, h.1, ih h.2]

/-- `s'` did not touch the trace and did not reopen the downstream subscriber -/
structure Quiet (s s' : St σ α β) : Prop where
  trace : s'.trace = s.trace
  dOpen : s'.dOpen = true → s.dOpen = true

theorem GI.quiet {s s' : St σ α β} (h : GI s) (q : Quiet s s') : GI s' := by
  refine ⟨by rw [q.trace]; exact h.gram, ?_⟩
  intro ht
  rw [q.trace] at ht
  have := h.closed ht
  cases hd : s'.dOpen
  · rfl
  · rw [q.dOpen hd] at this; cases this

/-- a state that differs from a `GI` state only in fields other than the trace and D's status -/
theorem GI.congr {s s' : St σ α β} (h : GI s) (h1 : s'.trace = s.trace) (h2 : s'.dOpen = s.dOpen) : GI s' :=
  h.quiet ⟨h1, fun hd => by rw [← h2]; exact hd⟩

theorem Quiet.refl (s : St σ α β) : Quiet s s := ⟨rfl, id⟩
theorem Quiet.trans {s s1 s2 : St σ α β} (a : Quiet s s1) (b : Quiet s1 s2) : Quiet s s2 :=
  ⟨by rw [b.trace, a.trace], fun h => a.dOpen (b.dOpen h)⟩

theorem uUnsub_quiet (P : Plan) (s : St σ α β) : Quiet s (uUnsub P s).1 := by
  unfold uUnsub
  cases s.uDone <;> cases s.uReg <;> cases P.srcTd.bind Fault.recovered <;> exact ⟨rfl, id⟩

theorem opTeardown_quiet (P : Plan) (s : St σ α β) : Quiet s (opTeardown P s).1 := by
  unfold opTeardown
  split
  · have := uUnsub_quiet P { s with uOpen := false }
    exact ⟨this.trace, this.dOpen⟩
  · exact Quiet.refl s

theorem dUnsub_quiet (P : Plan) (w : Nat) (s : St σ α β) : Quiet s (dUnsub P w s).1 := by
  unfold dUnsub
  split
  · exact Quiet.refl s
  · split
    · have := opTeardown_quiet P { s with dDone := true }
      generalize opTeardown P { s with dDone := true } = q at this
      obtain ⟨q1, q2⟩ := q
      cases q2 <;> exact ⟨this.trace, this.dOpen⟩
    · exact ⟨rfl, id⟩

theorem dUnsubscribe_quiet (P : Plan) (w : Nat) (s : St σ α β) : Quiet s (dUnsubscribe P w s).1 := by
  unfold dUnsubscribe
  split
  · have := dUnsub_quiet P w { s with dOpen := false }
    exact ⟨this.trace, fun h => by have := this.dOpen h; cases this⟩
  · exact Quiet.refl s

section
variable (P : Plan) (hN : ∀ k, panicAt P.fN k = none)
include hN

theorem dPush_gi (w : Nat) (s : St σ α β) (n : Notif β) (h : GI s) : GI (dPush P w s n).1 := by
  have hopen : s.dOpen = true → hasTerm s.trace = false := by
    intro hd
    cases ht : hasTerm s.trace
    · rfl
    · rw [h.closed ht] at hd; cases hd
  cases n with
  | next c v =>
    simp only [dPush]
    split
    · rename_i hd
      simp only [fNext, hN]
      exact ⟨grammar_snoc _ _ (hopen hd), fun ht => by simp [hopen hd] at ht⟩
    · exact h.congr rfl rfl
  | error c e =>
    simp only [dPush]
    split
    · rename_i hd
      refine GI.quiet ?_ (dUnsub_quiet P w _)
      unfold fTryError
      cases panicAt P.fE s.fnE <;>
        exact ⟨grammar_snoc _ _ (hopen hd), fun _ => rfl⟩
    · have h1 : GI ({ s with drops := s.drops ++ [.down (.error c e)] } : St σ α β) := h.congr rfl rfl
      exact h1.quiet (dUnsub_quiet P w _)
  | complete c =>
    simp only [dPush]
    split
    · rename_i hd
      refine GI.quiet ?_ (dUnsub_quiet P w _)
      unfold fComplete
      cases panicAt P.fC s.fnC <;>
        exact ⟨grammar_snoc _ _ (hopen hd), fun _ => rfl⟩
    · have h1 : GI ({ s with drops := s.drops ++ [.down (.complete c)] } : St σ α β) := h.congr rfl rfl
      exact h1.quiet (dUnsub_quiet P w _)

theorem dPushAll_gi (w : Nat) (ns : List (Notif β)) : ∀ s : St σ α β, GI s → GI (dPushAll P w s ns).1 := by
  induction ns with
  | nil => intro s h; exact h
  | cons n ns ih =>
    intro s h
    have := dPush_gi P hN w s n h
    rw [dPushAll]
    generalize dPush P w s n = q at this
    obtain ⟨q1, q2⟩ := q
    cases q2 with
    | some x => exact this
    | none => exact ih q1 this

theorem opError_gi (fm : FMachine σ α β) (s : St σ α β) (c : Ctx) (e : Err) (h : GI s) :
    GI (opError fm P s c e).1 := by
  unfold opError
  split
  · cases panicAt P.cbE s.nE with
    | some q => exact h.congr rfl rfl
    | none => exact dPushAll_gi P hN fm.tdWraps _ _ (h.congr rfl rfl)
  · exact dPushAll_gi P hN fm.tdWraps _ _ (h.congr rfl rfl)

theorem oTryError_gi (fm : FMachine σ α β) (s : St σ α β) (c : Ctx) (e : Err) (h : GI s) :
    GI (oTryError fm P s c e) := by
  unfold oTryError
  have := opError_gi P hN fm s c e h
  generalize opError fm P s c e = q at this
  obtain ⟨q1, q2⟩ := q
  cases q2 with
  | some x => exact this.congr rfl rfl
  | none => exact this

theorem opComplete_gi (fm : FMachine σ α β) (s : St σ α β) (c : Ctx) (h : GI s) :
    GI (opComplete fm P s c).1 := by
  unfold opComplete
  split
  · cases panicAt P.cbC s.nC with
    | some q => exact h.congr rfl rfl
    | none => exact dPushAll_gi P hN fm.tdWraps _ _ (h.congr rfl rfl)
  · exact dPushAll_gi P hN fm.tdWraps _ _ (h.congr rfl rfl)

theorem oTryComplete_gi (fm : FMachine σ α β) (s : St σ α β) (c : Ctx) (h : GI s) :
    GI (oTryComplete fm P s c) := by
  unfold oTryComplete
  have := opComplete_gi P hN fm s c h
  generalize opComplete fm P s c = q at this
  obtain ⟨q1, q2⟩ := q
  cases q2 with
  | some x => exact this.congr rfl rfl
  | none => exact this

theorem opNextOk_gi (fm : FMachine σ α β) (s : St σ α β) (c : Ctx) (v : α) (h : GI s) :
    GI (opNextOk fm P s c v).1 := by
  unfold opNextOk
  have := dPushAll_gi P hN fm.tdWraps (fm.base.onNext s.ms c v).2 { s with ms := (fm.base.onNext s.ms c v).1 } (h.congr rfl rfl)
  generalize dPushAll P fm.tdWraps { s with ms := (fm.base.onNext s.ms c v).1 } (fm.base.onNext s.ms c v).2 = q at this
  obtain ⟨q1, q2⟩ := q
  cases q2 <;> exact this.congr rfl rfl

theorem opNext_gi (fm : FMachine σ α β) (s : St σ α β) (c : Ctx) (v : α) (h : GI s) :
    GI (opNext fm P s c v).1 := by
  unfold opNext
  split
  · cases P.cbN s.nN with
    | none => exact opNextOk_gi P hN fm _ c v (h.congr rfl rfl)
    | some f =>
      cases f with
      | panicErr p => exact h.congr rfl rfl
      | panicVal n => exact h.congr rfl rfl
      | errRet e =>
        simp only
        cases fm.onErrRet with
        | none => exact opNextOk_gi P hN fm _ c v (h.congr rfl rfl)
        | some hf =>
          simp only
          exact dPushAll_gi P hN fm.tdWraps _ _ (h.congr rfl rfl)
  · exact opNextOk_gi P hN fm s c v h

theorem oTryNext_gi (fm : FMachine σ α β) (s : St σ α β) (c : Ctx) (v : α) (h : GI s) :
    GI (oTryNext fm P s c v) := by
  unfold oTryNext
  have := opNext_gi P hN fm s c v h
  generalize opNext fm P s c v = q at this
  obtain ⟨q1, q2⟩ := q
  cases q2 with
  | none => exact this
  | some p => exact oTryError_gi P hN fm q1 c _ this

theorem uFeed_gi (fm : FMachine σ α β) (s : St σ α β) (x : Notif α) (h : GI s) : GI (uFeed fm P s x).1 := by
  have hc : GI ({ s with uOpen := false } : St σ α β) := h.congr rfl rfl
  have hd : GI ({ s with drops := s.drops ++ [.up x] } : St σ α β) := h.congr rfl rfl
  cases x with
  | next c v =>
    simp only [uFeed]
    split
    · exact oTryNext_gi P hN fm s c v h
    · exact hd
  | error c e =>
    simp only [uFeed]
    split
    · exact (oTryError_gi P hN fm _ c e hc).quiet (uUnsub_quiet P _)
    · exact hd.quiet (uUnsub_quiet P _)
  | complete c =>
    simp only [uFeed]
    split
    · exact (oTryComplete_gi P hN fm _ c hc).quiet (uUnsub_quiet P _)
    · exact hd.quiet (uUnsub_quiet P _)

theorem srcBody_gi (fm : FMachine σ α β) (raw : List (Notif α)) :
    ∀ (i : Nat) (s : St σ α β), GI s → GI (srcBody fm P i raw s).1 := by
  induction raw with
  | nil =>
    intro i s h
    simp only [srcBody]
    cases srcPanicAt P i true <;> exact h.congr rfl rfl
  | cons x xs ih =>
    intro i s h
    simp only [srcBody]
    cases srcPanicAt P i false with
    | some p => exact h.congr rfl rfl
    | none =>
      simp only
      have := uFeed_gi P hN fm s x h
      generalize uFeed fm P s x = q at this
      obtain ⟨q1, q2⟩ := q
      cases q2 with
      | some p => exact this
      | none => exact ih (i + 1) q1 this

theorem srcCatch_gi (fm : FMachine σ α β) (sub : Ctx) (s : St σ α β) (p : Err) (h : GI s) :
    GI (srcCatch fm P sub s p).1 := by
  unfold srcCatch
  have := uFeed_gi P hN fm s (.error sub (.observable p)) h
  generalize uFeed fm P s (.error sub (.observable p)) = q at this
  obtain ⟨q1, q2⟩ := q
  cases q2 with
  | some x => exact this
  | none => exact this.quiet (opTeardown_quiet P q1)

theorem srcSubscribe_gi (fm : FMachine σ α β) (sub : Ctx) (inside : List (Notif α)) (s : St σ α β) (h : GI s) :
    GI (srcSubscribe fm P sub inside s).1 := by
  unfold srcSubscribe
  have := srcBody_gi P hN fm inside 0 { s with subs := s.subs + 1 } (h.congr rfl rfl)
  generalize srcBody fm P 0 inside { s with subs := s.subs + 1 } = q at this
  obtain ⟨q1, q2⟩ := q
  cases q2 with
  | some p => exact srcCatch_gi P hN fm sub q1 p this
  | none =>
    simp only
    split
    · cases P.srcTd.bind Fault.recovered with
      | none => exact this.congr rfl rfl
      | some t => exact srcCatch_gi P hN fm sub _ t (this.congr rfl rfl)
    · exact this.congr rfl rfl

theorem opCatch_gi (w : Nat) (sub : Ctx) (s : St σ α β) (p : Err) (h : GI s) : GI (opCatch P w sub s p).1 := by
  unfold opCatch
  have := dPush_gi P hN w s (.error sub (.observable p)) h
  generalize dPush P w s (.error sub (.observable p)) = q at this
  obtain ⟨q1, q2⟩ := q
  cases q2 with
  | some x => exact this
  | none => exact this.quiet (dUnsubscribe_quiet P w q1)

theorem opSubscribe_gi (fm : FMachine σ α β) (sub : Ctx) (inside : List (Notif α)) :
    GI (opSubscribe fm P sub inside).1 := by
  have h0 : GI ({ ms := fm.base.init } : St σ α β) := ⟨trivial, fun h => by cases h⟩
  have hbody : GI (opBody fm P sub inside { ms := fm.base.init }).1 := by
    unfold opBody
    cases (if fm.callsS then P.cbS.bind Fault.recovered else none) with
    | some p => exact h0.congr rfl rfl
    | none =>
      simp only
      have := dPushAll_gi P hN fm.tdWraps (fm.base.onSubscribe fm.base.init sub).2
        { ({ ms := fm.base.init } : St σ α β) with ms := (fm.base.onSubscribe fm.base.init sub).1 } (h0.congr rfl rfl)
      generalize dPushAll P fm.tdWraps { ({ ms := fm.base.init } : St σ α β) with ms := (fm.base.onSubscribe fm.base.init sub).1 }
        (fm.base.onSubscribe fm.base.init sub).2 = q at this
      obtain ⟨q1, q2⟩ := q
      cases q2 with
      | some x => exact this
      | none =>
        simp only
        split
        · exact srcSubscribe_gi P hN fm sub inside q1 this
        · exact this
  unfold opSubscribe
  generalize opBody fm P sub inside { ms := fm.base.init } = q at hbody
  obtain ⟨q1, q2⟩ := q
  cases q2 with
  | some p => exact opCatch_gi P hN _ sub q1 p hbody
  | none =>
    simp only
    split
    · exact hbody
    · split
      · have := hbody.quiet (opTeardown_quiet P q1)
        generalize opTeardown P q1 = t at this
        obtain ⟨t1, t2⟩ := t
        cases t2 with
        | some x => exact opCatch_gi P hN _ sub t1 x this
        | none => exact this
      · exact hbody.congr rfl rfl

theorem pushAfter_gi (fm : FMachine σ α β) (raw : List (Notif α)) :
    ∀ (s : St σ α β) (esc : List Err), GI s → GI (pushAfter fm P (s, esc) raw).1 := by
  induction raw with
  | nil => intro s esc h; exact h
  | cons x xs ih =>
    intro s esc h
    simp only [pushAfter]
    split
    · exact ih s esc h
    · exact ih _ _ (uFeed_gi P hN fm s x h)

/-- **C01 under faults.** -/
theorem grammar_unless_final_next_panics (fm : FMachine σ α β) (mode : SrcMode) (sub : Ctx) (raw : List (Notif α))
    (fu : Notif α) :
    Grammar (runScript fm P mode sub raw).1.trace ∧ Grammar (run fm P mode sub raw fu).fin.trace := by
  have h1 : GI (runScript fm P mode sub raw).1 := by
    cases mode with
    | sync => exact opSubscribe_gi P hN fm sub raw
    | hot => exact pushAfter_gi P hN fm raw _ _ (opSubscribe_gi P hN fm sub [])
  refine ⟨h1.gram, ?_⟩
  simp only [run]
  exact ((pushAfter_gi P hN fm [fu] _ _ h1).quiet (dUnsubscribe_quiet P _ _)).gram

end
end Ro.Fault

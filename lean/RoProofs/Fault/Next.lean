/-
  RoProofs.Fault.Next — a fault in a Next-position callback: what is delivered.

  For every operator machine with its call sites, every plan over the Next-position callback whose
  *first* failing invocation is number `k` and is a panic with recovered value `p`:
  the final observer receives exactly what the un-faulted operator delivers for the inputs before
  the faulting one, followed by `Error(observer(p))` with the faulting input's context — unless the
  operator had already terminated downstream, in which case nothing changes. Later faults have no
  effect on the trace.
-/
import RoProofs.Fault.Run
import RoProofs.Script
namespace Ro.Fault
open Ro
variable {σ α β : Type}

/-- number of invocations of the Next-position callback the un-faulted operator makes over a script -/
def countCalls (fm : FMachine σ α β) : σ → List (Notif α) → Nat
  | _, [] => 0
  | s, .next c v :: xs => (if fm.callsN s c v then 1 else 0) + countCalls fm (fm.base.onNext s c v).1 xs
  | s, .error c e :: xs => countCalls fm (fm.base.onError s c e).1 xs
  | s, .complete c :: xs => countCalls fm (fm.base.onComplete s c).1 xs

theorem emits_cons {σ' : Type} (m : Machine σ' α β) (s : σ') (x : Notif α) (xs : List (Notif α)) :
    m.emits s (x :: xs) = (m.step s x).2 ++ m.emits (m.step s x).1 xs := rfl
theorem after_cons {σ' : Type} (m : Machine σ' α β) (s : σ') (x : Notif α) (xs : List (Notif α)) :
    m.after s (x :: xs) = m.after (m.step s x).1 xs := rfl

/-- while no planned invocation is reached, the injected machine is the base machine with a counter -/
theorem inject_before (fm : FMachine σ α β) (cbN : Nat → Option Fault) (pre : List (Notif α)) :
    ∀ (s : σ) (n : Nat), (∀ i, n ≤ i → i < n + countCalls fm s pre → cbN i = none) →
      (inject fm cbN).emits (s, n) pre = fm.base.emits s pre ∧
      (inject fm cbN).after (s, n) pre = (fm.base.after s pre, n + countCalls fm s pre) := by
  induction pre with
  | nil => intro s n _; exact ⟨rfl, rfl⟩
  | cons x xs ih =>
    intro s n h
    rw [emits_cons, after_cons, emits_cons, after_cons]
    cases x with
    | next c v =>
      have hb : fm.base.step s (.next c v) = fm.base.onNext s c v := rfl
      cases hc : fm.callsN s c v
      · have hstep : (inject fm cbN).step (s, n) (.next c v) = (((fm.base.onNext s c v).1, n), (fm.base.onNext s c v).2) := by
          simp [Machine.step, inject, hc]
        have hcc : countCalls fm s (.next c v :: xs) = countCalls fm (fm.base.onNext s c v).1 xs := by
          simp [countCalls, hc]
        obtain ⟨i1, i2⟩ := ih (fm.base.onNext s c v).1 n (by intro i h1 h2; exact h i h1 (by rw [hcc]; exact h2))
        rw [hstep, hb, hcc]
        exact ⟨by rw [i1], i2⟩
      · have hcc : countCalls fm s (.next c v :: xs) = 1 + countCalls fm (fm.base.onNext s c v).1 xs := by
          simp [countCalls, hc]
        have hn : cbN n = none := h n (Nat.le_refl _) (by rw [hcc]; omega)
        have hstep : (inject fm cbN).step (s, n) (.next c v) = (((fm.base.onNext s c v).1, n + 1), (fm.base.onNext s c v).2) := by
          simp [Machine.step, inject, hc, hn]
        obtain ⟨i1, i2⟩ := ih (fm.base.onNext s c v).1 (n + 1) (by intro i h1 h2; exact h i (by omega) (by rw [hcc]; omega))
        rw [hstep, hb, hcc]
        refine ⟨by rw [i1], ?_⟩
        rw [i2]; congr 1; omega
    | error c e =>
      have hstep : (inject fm cbN).step (s, n) (.error c e) = (((fm.base.onError s c e).1, n), (fm.base.onError s c e).2) := rfl
      have hb : fm.base.step s (.error c e) = fm.base.onError s c e := rfl
      have hcc : countCalls fm s (.error c e :: xs) = countCalls fm (fm.base.onError s c e).1 xs := rfl
      obtain ⟨i1, i2⟩ := ih (fm.base.onError s c e).1 n (by intro i h1 h2; exact h i h1 (by rw [hcc]; exact h2))
      rw [hstep, hb, hcc]
      exact ⟨by rw [i1], i2⟩
    | complete c =>
      have hstep : (inject fm cbN).step (s, n) (.complete c) = (((fm.base.onComplete s c).1, n), (fm.base.onComplete s c).2) := rfl
      have hb : fm.base.step s (.complete c) = fm.base.onComplete s c := rfl
      have hcc : countCalls fm s (.complete c :: xs) = countCalls fm (fm.base.onComplete s c).1 xs := rfl
      obtain ⟨i1, i2⟩ := ih (fm.base.onComplete s c).1 n (by intro i h1 h2; exact h i h1 (by rw [hcc]; exact h2))
      rw [hstep, hb, hcc]
      exact ⟨by rw [i1], i2⟩

/-! ### the downstream gate is closed exactly when a terminal was delivered -/

theorem push_downOpen {σ' : Type} (r : RunSt σ' α β) (n : Notif β) (h : r.downOpen = !hasTerm r.out) :
    (r.push n).downOpen = !hasTerm (r.push n).out := by
  unfold RunSt.push
  cases hd : r.downOpen
  · simpa [hd] using h
  · have : hasTerm r.out = false := by simpa [hd] using h
    simp [this]

theorem pushAll_downOpen {σ' : Type} (ns : List (Notif β)) : ∀ (r : RunSt σ' α β), r.downOpen = !hasTerm r.out →
    (r.pushAll ns).downOpen = !hasTerm (r.pushAll ns).out := by
  induction ns with
  | nil => intro r h; exact h
  | cons n ns ih => intro r h; exact ih _ (push_downOpen r n h)

theorem feed_downOpen {σ' : Type} (m : Machine σ' α β) (mode : SrcMode) (r : RunSt σ' α β) (x : Notif α)
    (h : r.downOpen = !hasTerm r.out) : (r.feed m mode x).downOpen = !hasTerm (r.feed m mode x).out := by
  unfold RunSt.feed
  split
  · exact pushAll_downOpen _ _ h
  · exact h

theorem runOp_downOpen {σ' : Type} (m : Machine σ' α β) (mode : SrcMode) (sub : Ctx) (raw : List (Notif α)) :
    (runOp m mode sub raw).downOpen = !hasTerm (runOp m mode sub raw).out := by
  have h0 : (m.start sub).downOpen = !hasTerm (m.start sub).out := by
    unfold Machine.start; exact pushAll_downOpen _ _ rfl
  have hf : ∀ (l : List (Notif α)) (r : RunSt σ' α β), r.downOpen = !hasTerm r.out →
      (l.foldl (RunSt.feed m mode) r).downOpen = !hasTerm (l.foldl (RunSt.feed m mode) r).out := by
    intro l
    induction l with
    | nil => intro r h; exact h
    | cons x xs ih => intro r h; exact ih _ (feed_downOpen m mode r x h)
  have h0' : ((m.start sub).afterSubscribe mode).downOpen = !hasTerm ((m.start sub).afterSubscribe mode).out := by
    unfold RunSt.afterSubscribe; split <;> exact h0
  unfold runOp
  split
  · exact hf raw _ h0'
  · exact h0

/-! ### the first failing invocation -/

theorem gate_prefix_noTerm (l pre post : List (Notif α)) (x : Notif α) (h : gate l = pre ++ x :: post) :
    hasTerm pre = false := by
  induction l generalizing pre with
  | nil => simp at h
  | cons y ys ih =>
    cases pre with
    | nil => rfl
    | cons p ps =>
      simp only [gate] at h
      cases hy : y.isTerminal
      · simp only [hy, Bool.false_eq_true, if_false, List.cons_append, List.cons.injEq] at h
        simp only [hasTerm_cons, ← h.1, hy, Bool.false_or]
        exact ih ps h.2
      · simp [hy] at h

theorem first_fault_emits (fm : FMachine σ α β) (cbN : Nat → Option Fault) (f : Fault) (p : Err)
    (s0 : σ) (pre post : List (Notif α)) (c : Ctx) (v : α)
    (hf : cbN (countCalls fm s0 pre) = some f) (hp : f.recovered = some p)
    (hfirst : ∀ i, i < countCalls fm s0 pre → cbN i = none)
    (hcall : fm.callsN (fm.base.after s0 pre) c v = true) :
    (inject fm cbN).emits (s0, 0) (pre ++ .next c v :: post) =
      fm.base.emits s0 pre ++ ((fm.base.onError (fm.base.after s0 pre) c (.observer p)).2 ++
        (inject fm cbN).emits ((fm.base.onError (fm.base.after s0 pre) c (.observer p)).1, countCalls fm s0 pre + 1) post) := by
  obtain ⟨i1, i2⟩ := inject_before fm cbN pre s0 0 (by intro i _ h2; exact hfirst i (by omega))
  rw [emits_append, i1, i2, emits_cons]
  have hstep : (inject fm cbN).step (fm.base.after s0 pre, 0 + countCalls fm s0 pre) (.next c v) =
      (((fm.base.onError (fm.base.after s0 pre) c (.observer p)).1, countCalls fm s0 pre + 1),
        (fm.base.onError (fm.base.after s0 pre) c (.observer p)).2) := by
    have h0 : 0 + countCalls fm s0 pre = countCalls fm s0 pre := by omega
    rw [h0]
    cases f with
    | panicErr e =>
      have : p = e := by simpa [Fault.recovered] using hp.symm
      subst this
      simp [Machine.step, inject, hcall, hf]
    | panicVal n =>
      have : p = .panicVal n := by simpa [Fault.recovered] using hp.symm
      subst this
      simp [Machine.step, inject, hcall, hf]
    | errRet e => simp [Fault.recovered] at hp
  rw [hstep]

theorem Err.self_mem_chain (e : Err) : e ∈ e.chain := by
  cases e <;> simp [Err.chain]

/-- a wrapper of errors.go keeps the cause (and the cause's own causes) reachable -/
theorem Err.mem_chain_observer (p e : Err) (h : p ∈ e.chain) : p ∈ (Err.observer e).chain := by
  simp [Err.chain, h]
theorem Err.mem_chain_observable (p e : Err) (h : p ∈ e.chain) : p ∈ (Err.observable e).chain := by
  simp [Err.chain, h]
theorem Err.mem_chain_unsubscription (p e : Err) (h : p ∈ e.chain) : p ∈ (Err.unsubscription e).chain := by
  simp [Err.chain, h]

/-- everything C07 asks of one run -/
structure Surfaced (fm : FMachine σ α β) (P : Plan) (mode : SrcMode) (sub : Ctx) (raw : List (Notif α))
    (before : List (Notif β)) (c : Ctx) (p : Err) : Prop where
  /-- nothing escapes into the goroutine that called Subscribe / Next / Error / Complete -/
  escaped : (runScript fm P mode sub raw).2 = []
  /-- the final observer sees what the un-faulted operator delivers for the inputs before the
      faulting one, then the error — or, when the operator had already ended, no change -/
  trace : (runScript fm P mode sub raw).1.trace =
    if hasTerm before then before else before ++ [.error c (.observer p)]
  /-- values, at most one terminal, nothing after it -/
  grammar : Grammar (runScript fm P mode sub raw).1.trace
  /-- the error still matches the original cause -/
  cause : p ∈ (Err.observer p).chain
  /-- nothing is left for the unhandled-error hook -/
  unhandled : (runScript fm P mode sub raw).1.unhandled = []
  /-- the downstream subscriber is closed, the source unsubscribed, its teardown ran exactly once -/
  released : (runScript fm P mode sub raw).1.dOpen = false ∧ (runScript fm P mode sub raw).1.uOpen = false ∧
    (runScript fm P mode sub raw).1.rel = 1

/-- **C07, Next position.** Every operator machine `fm.base` with call sites `fm.callsN`; every plan
    `cbN` over its Next-position callback whose first failing invocation (number
    `countCalls … pre`, i.e. the one made for the input `next c v` that follows the prefix `pre` of
    the source's gated script) panics with an error value or any other value; every source mode,
    subscription context and raw script (legal or not). Hypotheses: the operator subscribes to its
    source, emits no terminal from its subscribe function, and forwards errors in the state in
    which it called the callback (true of every catalogue closure, see `RoProps/C07.lean`). -/
theorem next_fault_surfaces (fm : FMachine σ α β) (cbN : Nat → Option Fault) (f : Fault) (p : Err)
    (mode : SrcMode) (sub : Ctx) (raw pre post : List (Notif α)) (c : Ctx) (v : α)
    (hs : fm.base.subscribes = true)
    (hsub : hasTerm (fm.base.onSubscribe fm.base.init sub).2 = false)
    (hraw : gate raw = pre ++ .next c v :: post)
    (hf : cbN (countCalls fm (fm.base.onSubscribe fm.base.init sub).1 pre) = some f) (hp : f.recovered = some p)
    (hfirst : ∀ i, i < countCalls fm (fm.base.onSubscribe fm.base.init sub).1 pre → cbN i = none)
    (hcall : fm.callsN (fm.base.after (fm.base.onSubscribe fm.base.init sub).1 pre) c v = true)
    (hfwd : ∀ e, (fm.base.onError (fm.base.after (fm.base.onSubscribe fm.base.init sub).1 pre) c e).2 = [.error c e]) :
    Surfaced fm (nextPlan cbN) mode sub raw (runOp fm.base mode sub pre).out c p := by
  obtain ⟨hesc, hag⟩ := runScript_agree fm cbN mode sub raw hs hsub
  have hsi : (inject fm cbN).subscribes = true := hs
  have hpre : hasTerm pre = false := gate_prefix_noTerm raw pre post _ hraw
  have hbefore : (runOp fm.base mode sub pre).out =
      gate ((fm.base.onSubscribe fm.base.init sub).2 ++ fm.base.emits (fm.base.onSubscribe fm.base.init sub).1 pre) := by
    rw [runOp_out _ _ _ _ hs, gate_of_noTerm pre hpre]
  have htrace : (runScript fm (nextPlan cbN) mode sub raw).1.trace =
      gate (((fm.base.onSubscribe fm.base.init sub).2 ++ fm.base.emits (fm.base.onSubscribe fm.base.init sub).1 pre) ++
        ([.error c (.observer p)] ++
          (inject fm cbN).emits ((fm.base.onError (fm.base.after (fm.base.onSubscribe fm.base.init sub).1 pre) c (.observer p)).1,
            countCalls fm (fm.base.onSubscribe fm.base.init sub).1 pre + 1) post)) := by
    rw [hag.trace, runOp_out _ _ _ _ hsi, hraw]
    have e0 : (inject fm cbN).onSubscribe (inject fm cbN).init sub =
        (((fm.base.onSubscribe fm.base.init sub).1, 0), (fm.base.onSubscribe fm.base.init sub).2) := rfl
    rw [e0]
    simp only []
    rw [first_fault_emits fm cbN f p _ pre post c v hf hp hfirst hcall, hfwd, List.append_assoc]
  have hshape : (runScript fm (nextPlan cbN) mode sub raw).1.trace =
      if hasTerm (runOp fm.base mode sub pre).out then (runOp fm.base mode sub pre).out
      else (runOp fm.base mode sub pre).out ++ [.error c (.observer p)] := by
    rw [htrace, hbefore, hasTerm_gate]
    generalize (fm.base.onSubscribe fm.base.init sub).2 ++ fm.base.emits (fm.base.onSubscribe fm.base.init sub).1 pre = A
    cases hA : hasTerm A
    · rw [gate_append_of_noTerm _ _ hA, gate_of_noTerm _ hA]
      simp [gate]
    · rw [gate_append_of_term _ _ hA]
      simp
  have hgram : Grammar (runScript fm (nextPlan cbN) mode sub raw).1.trace := by
    rw [hag.trace]; exact runOp_grammar _ _ _ _
  have hclosed : (runScript fm (nextPlan cbN) mode sub raw).1.dOpen = false := by
    rw [hag.down, runOp_downOpen, ← hag.trace, hshape]
    cases hb : hasTerm (runOp fm.base mode sub pre).out <;> simp [hb]
  exact ⟨hesc, hshape, hgram, Err.mem_chain_observer p p (Err.self_mem_chain p), hag.unh, hclosed, hag.released hclosed⟩

/-- when the failing invocation is never reached the fault changes nothing -/
theorem fault_not_reached (fm : FMachine σ α β) (cbN : Nat → Option Fault) (mode : SrcMode) (sub : Ctx)
    (raw : List (Notif α)) (hs : fm.base.subscribes = true)
    (hsub : hasTerm (fm.base.onSubscribe fm.base.init sub).2 = false)
    (hnone : ∀ i, i < countCalls fm (fm.base.onSubscribe fm.base.init sub).1 (gate raw) → cbN i = none) :
    (runScript fm (nextPlan cbN) mode sub raw).2 = [] ∧
    (runScript fm (nextPlan cbN) mode sub raw).1.trace = (runOp fm.base mode sub raw).out ∧
    (runScript fm (nextPlan cbN) mode sub raw).1.unhandled = [] := by
  obtain ⟨hesc, hag⟩ := runScript_agree fm cbN mode sub raw hs hsub
  have hsi : (inject fm cbN).subscribes = true := hs
  refine ⟨hesc, ?_, hag.unh⟩
  rw [hag.trace, runOp_out _ _ _ _ hsi, runOp_out _ _ _ _ hs]
  have e0 : (inject fm cbN).onSubscribe (inject fm cbN).init sub =
      (((fm.base.onSubscribe fm.base.init sub).1, 0), (fm.base.onSubscribe fm.base.init sub).2) := rfl
  rw [e0]
  simp only []
  rw [(inject_before fm cbN (gate raw) _ 0 (by intro i _ h2; exact hnone i (by omega))).1]

/-! ### an error *returned* by the callback of an error-aware operator (`MapErr` family) -/

structure Returned (fm : FMachine σ α β) (P : Plan) (mode : SrcMode) (sub : Ctx) (raw : List (Notif α))
    (before : List (Notif β)) (c' : Ctx) (e : Err) : Prop where
  escaped : (runScript fm P mode sub raw).2 = []
  /-- the returned error is forwarded as it is (no wrapper), with the context the reaction chose -/
  trace : (runScript fm P mode sub raw).1.trace = if hasTerm before then before else before ++ [.error c' e]
  grammar : Grammar (runScript fm P mode sub raw).1.trace
  unhandled : (runScript fm P mode sub raw).1.unhandled = []
  released : (runScript fm P mode sub raw).1.dOpen = false ∧ (runScript fm P mode sub raw).1.uOpen = false ∧
    (runScript fm P mode sub raw).1.rel = 1

/-- **C07, error return.** The first planned outcome of the Next-position callback is `return …, err`
    at the invocation made for the input that follows `pre`; the operator's reaction to a returned
    error (`onErrRet`) emits `Error(err)`. Then: delivered = (what the un-faulted operator delivers
    before) ++ [Error(err)], nothing escaped, nothing unhandled, upstream released. -/
theorem error_return_surfaces (fm : FMachine σ α β) (cbN : Nat → Option Fault) (e : Err)
    (h : σ → Ctx → α → Err → σ × List (Notif β))
    (mode : SrcMode) (sub : Ctx) (raw pre post : List (Notif α)) (c c' : Ctx) (v : α)
    (hs : fm.base.subscribes = true)
    (hsub : hasTerm (fm.base.onSubscribe fm.base.init sub).2 = false)
    (hraw : gate raw = pre ++ .next c v :: post)
    (hh : fm.onErrRet = some h)
    (hf : cbN (countCalls fm (fm.base.onSubscribe fm.base.init sub).1 pre) = some (.errRet e))
    (hfirst : ∀ i, i < countCalls fm (fm.base.onSubscribe fm.base.init sub).1 pre → cbN i = none)
    (hcall : fm.callsN (fm.base.after (fm.base.onSubscribe fm.base.init sub).1 pre) c v = true)
    (hret : (h (fm.base.after (fm.base.onSubscribe fm.base.init sub).1 pre) c v e).2 = [.error c' e]) :
    Returned fm (nextPlan cbN) mode sub raw (runOp fm.base mode sub pre).out c' e := by
  obtain ⟨hesc, hag⟩ := runScript_agree fm cbN mode sub raw hs hsub
  have hsi : (inject fm cbN).subscribes = true := hs
  have hpre : hasTerm pre = false := gate_prefix_noTerm raw pre post _ hraw
  have hbefore : (runOp fm.base mode sub pre).out =
      gate ((fm.base.onSubscribe fm.base.init sub).2 ++ fm.base.emits (fm.base.onSubscribe fm.base.init sub).1 pre) := by
    rw [runOp_out _ _ _ _ hs, gate_of_noTerm pre hpre]
  -- the emissions of the injected machine over the gated script
  obtain ⟨i1, i2⟩ := inject_before fm cbN pre (fm.base.onSubscribe fm.base.init sub).1 0
    (by intro i _ h2; exact hfirst i (by omega))
  have hstep : (inject fm cbN).step (fm.base.after (fm.base.onSubscribe fm.base.init sub).1 pre,
        0 + countCalls fm (fm.base.onSubscribe fm.base.init sub).1 pre) (.next c v) =
      (((h (fm.base.after (fm.base.onSubscribe fm.base.init sub).1 pre) c v e).1,
          countCalls fm (fm.base.onSubscribe fm.base.init sub).1 pre + 1), [.error c' e]) := by
    have h0 : 0 + countCalls fm (fm.base.onSubscribe fm.base.init sub).1 pre =
        countCalls fm (fm.base.onSubscribe fm.base.init sub).1 pre := by omega
    rw [h0, ← hret]
    simp [Machine.step, inject, hcall, hf, hh]
  have htrace : (runScript fm (nextPlan cbN) mode sub raw).1.trace =
      gate (((fm.base.onSubscribe fm.base.init sub).2 ++ fm.base.emits (fm.base.onSubscribe fm.base.init sub).1 pre) ++
        ([.error c' e] ++ (inject fm cbN).emits ((h (fm.base.after (fm.base.onSubscribe fm.base.init sub).1 pre) c v e).1,
            countCalls fm (fm.base.onSubscribe fm.base.init sub).1 pre + 1) post)) := by
    rw [hag.trace, runOp_out _ _ _ _ hsi, hraw]
    have e0 : (inject fm cbN).onSubscribe (inject fm cbN).init sub =
        (((fm.base.onSubscribe fm.base.init sub).1, 0), (fm.base.onSubscribe fm.base.init sub).2) := rfl
    rw [e0]
    simp only []
    rw [emits_append, i1, i2, emits_cons, hstep, List.append_assoc]
  have hshape : (runScript fm (nextPlan cbN) mode sub raw).1.trace =
      if hasTerm (runOp fm.base mode sub pre).out then (runOp fm.base mode sub pre).out
      else (runOp fm.base mode sub pre).out ++ [.error c' e] := by
    rw [htrace, hbefore, hasTerm_gate]
    generalize (fm.base.onSubscribe fm.base.init sub).2 ++ fm.base.emits (fm.base.onSubscribe fm.base.init sub).1 pre = A
    cases hA : hasTerm A
    · rw [gate_append_of_noTerm _ _ hA, gate_of_noTerm _ hA]
      simp [gate]
    · rw [gate_append_of_term _ _ hA]
      simp
  have hgram : Grammar (runScript fm (nextPlan cbN) mode sub raw).1.trace := by
    rw [hag.trace]; exact runOp_grammar _ _ _ _
  have hclosed : (runScript fm (nextPlan cbN) mode sub raw).1.dOpen = false := by
    rw [hag.down, runOp_downOpen, ← hag.trace, hshape]
    cases hb : hasTerm (runOp fm.base mode sub pre).out <;> simp [hb]
  exact ⟨hesc, hshape, hgram, hag.unh, hclosed, hag.released hclosed⟩

end Ro.Fault

/-
  RoProofs.TimedPeriodic — DelayEach, Interval, Timer, IntervalWithInitial: lower bounds for every
  environment that respects "never early".
-/
import RoProofs.TimedBasic
namespace Ro.Timed

/-! ### DelayEach -/

theorem delayEach_model_clause (r : DelayEachRun) (h : DelayEachWF r) :
    Clause { op := .delayEach, d := r.d } (delayEachTrace r) := by
  refine ⟨grammarOK_down _ r.unsub _ rfl, silentOK_down _ r.unsub _ rfl rfl, ?_⟩
  apply opOK_of_getElem?
  intro k dl hk
  have h1 := down_getElem? hk
  rw [List.getElem?_map] at h1
  cases he : r.emits[k]? with
  | none => rw [he] at h1; cases h1
  | some e =>
    rw [he] at h1
    simp only [Option.map_some, Option.some.injEq] at h1
    show DelayEachAt r.d (delayEachTrace r) k dl
    unfold DelayEachAt
    have : (delayEachTrace r).emits[k]? = some (Ev.at e.1 e.2.2) := by simp [delayEachTrace, he]
    rw [this]
    have hmem : e ∈ r.emits := List.mem_of_getElem? he
    cases ht : e.2.2.isTerminal with
    | true =>
      simp only [ht, if_true] at h1
      subst h1
      simp [Ev.at, ht]
    | false =>
      simp only [ht] at h1
      subst h1
      have := h e hmem ht
      simp [Ev.at, ht]; exact this

theorem delayEach_model_accepts (r : DelayEachRun) (h : DelayEachWF r) :
    accepts { op := .delayEach, d := r.d } (delayEachTrace r) = true :=
  decide_eq_true (delayEach_model_clause r h)

/-! ### Interval -/

theorem cancelledBy_stopCut (tr : TimedTrace) (c x : Time) (u : Option Time)
    (hc : tr.cut = stopCut (some (c, x)) u) (hcx : c ≤ x) : CancelledBy tr x := by
  unfold CancelledBy; rw [hc]; simpa [stopCut] using hcx

theorem stopAttempt_getElem? {stop : Option (Time × Time)} {j : Nat} {dl : Ev}
    (h : (stopAttempt stop)[j]? = some dl) : ∃ c x, stop = some (c, x) ∧ dl = Ev.at x .complete := by
  cases stop with
  | none => simp [stopAttempt] at h
  | some cx =>
    obtain ⟨c, x⟩ := cx
    cases j with
    | zero => simp [stopAttempt] at h; exact ⟨c, x, rfl, h.symm⟩
    | succ j => simp [stopAttempt] at h

/-- **Interval**: value `k` is never delivered before `k+1` periods have elapsed since
    subscription, whatever the ticker's lateness and whenever cancellation / teardown happen. -/
theorem interval_model_clause (r : IntervalRun) (h : IntervalWF r) :
    Clause { op := .interval, d := r.p } (intervalTrace r) := by
  refine ⟨grammarOK_down _ r.unsub _ rfl, silentOK_stopCut _ r.stop r.unsub _ rfl rfl ?_, ?_⟩
  · intro c x hs
    rw [lateCount_append, lateCount_mapIdx c r.ticks _ (fun _ _ => rfl)]
    have := h.selectFair c x hs
    have := lateCount_stopAttempt c r.stop
    omega
  apply opOK_of_getElem?
  intro k dl hk
  have h1 := down_getElem? hk
  show IntervalAt r.p (intervalTrace r) k dl
  rw [List.getElem?_append] at h1
  split at h1
  next hlt =>
    rw [List.getElem?_mapIdx] at h1
    cases ht : r.ticks[k]? with
    | none => rw [ht] at h1; cases h1
    | some t =>
      rw [ht] at h1
      simp only [Option.map_some, Option.some.injEq] at h1
      subst h1
      have := h.neverEarly k t ht
      simp [IntervalAt, Ev.at, intervalTrace]; exact this
  next hge =>
    obtain ⟨c, x, hs, rfl⟩ := stopAttempt_getElem? h1
    have hcx := h.stopLate c x hs
    simp only [IntervalAt, Ev.at]
    exact cancelledBy_stopCut _ c x r.unsub (by simp [intervalTrace, hs]) hcx

theorem interval_model_accepts (r : IntervalRun) (h : IntervalWF r) :
    accepts { op := .interval, d := r.p } (intervalTrace r) = true :=
  decide_eq_true (interval_model_clause r h)

/-- the lower bound in plain words -/
theorem interval_never_early (r : IntervalRun) (h : IntervalWF r) :
    ∀ (k : Nat) (dl : Ev) (v : Int), (intervalTrace r).dels[k]? = some dl → dl.n = .next v →
      v = (k : Int) ∧ r.sub + (k + 1) * r.p ≤ dl.t0 := by
  intro k dl v hk hv
  have hlt : k < (intervalTrace r).dels.length := by
    rcases Nat.lt_or_ge k (intervalTrace r).dels.length with h' | h'
    · exact h'
    · rw [List.getElem?_eq_none h'] at hk; cases hk
  have := (interval_model_clause r h).2.2 k hlt
  rw [List.getElem?_eq_getElem hlt] at hk
  cases hk
  have h2 : IntervalAt r.p (intervalTrace r) k (intervalTrace r).dels[k] := this
  unfold IntervalAt at h2
  rw [hv] at h2
  exact h2

/-! ### Timer -/

theorem timer_model_clause (r : TimerRun) (h : TimerWF r) :
    Clause { op := .timer, d := r.d } (timerTrace r) := by
  unfold TimerWF at h
  cases ho : r.outcome with
  | fired t t' =>
    rw [ho] at h
    have hd : (timerTrace r).dels = [Ev.at t (.next (r.d : Int)), Ev.at t' .complete] := by simp [timerTrace, ho]
    have hc : (timerTrace r).cut = .none := by simp [timerTrace, ho]
    have hs : (timerTrace r).sub = r.sub := by simp [timerTrace, ho]
    refine ⟨?_, silentOK_none _ hc, ?_⟩
    · intro k hk ht
      rw [hd] at hk
      simp only [hd] at ht ⊢
      match k, hk with
      | 0, _ => simp [Ev.at] at ht
      | 1, _ => rfl
    · intro k hk
      show TimerAt r.d (timerTrace r) k (timerTrace r).dels[k]
      rw [hd] at hk
      simp only [hd]
      match k, hk with
      | 0, _ => simp [TimerAt, Ev.at, hs]; exact h
      | 1, _ => simp [TimerAt, Ev.at]
  | cancelled c x =>
    rw [ho] at h
    have hd : (timerTrace r).dels = [Ev.at x (.error errCancelled)] := by simp [timerTrace, ho]
    have hc : (timerTrace r).cut = .cancel c c := by simp [timerTrace, ho]
    refine ⟨?_, silentOK_cancel _ c c hc (by rw [hd]; have := lateCount_le_length c [Ev.at x (.error errCancelled)]; simp at this; unfold cancelSlack; omega), ?_⟩
    · intro k hk _
      rw [hd] at hk
      simp only [hd]
      match k, hk with
      | 0, _ => rfl
    · intro k hk
      show TimerAt r.d (timerTrace r) k (timerTrace r).dels[k]
      rw [hd] at hk
      simp only [hd]
      match k, hk with
      | 0, _ => simp [TimerAt, Ev.at, CancelledBy, hc]; exact h
  | pending =>
    have hd : (timerTrace r).dels = [] := by simp [timerTrace, ho]
    have hc : (timerTrace r).cut = .none := by simp [timerTrace, ho]
    refine ⟨?_, silentOK_none _ hc, ?_⟩
    · intro k hk; rw [hd] at hk; simp at hk
    · intro k hk; rw [hd] at hk; simp at hk

theorem timer_model_accepts (r : TimerRun) (h : TimerWF r) :
    accepts { op := .timer, d := r.d } (timerTrace r) = true :=
  decide_eq_true (timer_model_clause r h)

/-! ### IntervalWithInitial (repaired code, 6a7ef90) -/

/-- what stays true along every possible run when `0 < p` -/
structure IwiInv (sub i p : Nat) (s : IwiSt) : Prop where
  outOK : ∀ o ∈ s.out, o.2.2 ≤ o.1
  vals : s.out.map (·.2.1) = List.range s.v
  needs : ∀ o ∈ s.out, o.2.2 = sub + i + o.2.1 * p
  need : s.need = sub + i + s.v * p
  alive : s.ended = none
  pre : s.reset = none → s.v = 0
  fresh : s.timerDone = false → i ≠ 0 → s.reset = none
  post : ∀ r, s.reset = some r → s.need ≤ s.newLb

/-- emitting value `v` at an instant `t` that is not before the bound asked keeps the output part -/
theorem iwi_emit_out {sub i p : Nat} {s : IwiSt} (ho : ∀ o ∈ s.out, o.2.2 ≤ o.1)
    (hv : s.out.map (·.2.1) = List.range s.v) (hn : ∀ o ∈ s.out, o.2.2 = sub + i + o.2.1 * p)
    (hneed : s.need = sub + i + s.v * p) (t : Time) (ht : s.need ≤ t) :
    (∀ o ∈ (s.emit t p).out, o.2.2 ≤ o.1) ∧ (s.emit t p).out.map (·.2.1) = List.range (s.emit t p).v
      ∧ (∀ o ∈ (s.emit t p).out, o.2.2 = sub + i + o.2.1 * p) ∧ (s.emit t p).need = sub + i + (s.emit t p).v * p := by
  refine ⟨?_, ?_, ?_, ?_⟩
  · intro o ho'
    simp only [IwiSt.emit, List.mem_append, List.mem_singleton] at ho'
    rcases ho' with ho' | rfl
    · exact ho o ho'
    · exact ht
  · simp only [IwiSt.emit, List.map_append, List.map_cons, List.map_nil, hv, List.range_succ]
  · intro o ho'
    simp only [IwiSt.emit, List.mem_append, List.mem_singleton] at ho'
    rcases ho' with ho' | rfl
    · exact hn o ho'
    · exact hneed
  · simp only [IwiSt.emit, hneed, Nat.add_mul, Nat.one_mul]; omega

theorem iwiInv_init (sub i p first : Nat) (hp : 0 < p) (hf : sub ≤ first) : IwiInv sub i p (iwiInit sub i p first) := by
  have hp' : ¬ p = 0 := by omega
  unfold iwiInit
  by_cases hi : i = 0
  · subst hi
    simp only [if_true, IwiSt.armAt, hp', if_false]
    have := iwi_emit_out (sub := sub) (i := 0) (p := p)
      (s := { now := sub, v := 0, timerDone := false, reset := none, newLb := 0, need := sub + 0, ended := none, out := [] })
      (by simp) (by simp) (by simp) (by simp) first (by simpa using hf)
    obtain ⟨o1, o2, o3, o4⟩ := this
    refine ⟨o1, o2, o3, o4, rfl, ?_, ?_, ?_⟩
    · intro h; simp at h
    · intro _ h; exact absurd rfl h
    · intro r hr
      simp only [Option.some.injEq] at hr; subst hr
      simp only [IwiSt.emit]; omega
  · simp only [hi, if_false]
    exact ⟨by simp, by simp, by simp, by simp, rfl, fun _ => rfl, fun _ _ => rfl, by simp⟩

theorem iwiInv_step {sub i p : Nat} (hp : 0 < p) {s s' : IwiSt} {e : IwiEv}
    (hinv : IwiInv sub i p s) (hstep : iwiStep sub i p s e = some s') : IwiInv sub i p s' := by
  have hp' : ¬ p = 0 := by omega
  cases e with
  | timer t =>
    simp only [iwiStep] at hstep
    split at hstep
    next hc =>
      obtain ⟨htd, _, hnow, hti⟩ := hc
      split at hstep
      next hi0 =>
        cases hstep
        exact ⟨hinv.outOK, hinv.vals, hinv.needs, hinv.need, hinv.alive, hinv.pre, fun h => by simp at h, hinv.post⟩
      next hi0 =>
        cases hstep
        have hnone := hinv.fresh htd hi0
        have hv0 := hinv.pre hnone
        have hneed : s.need ≤ t := by have := hinv.need; rw [hv0] at this; simp at this; omega
        obtain ⟨o1, o2, o3, o4⟩ := iwi_emit_out hinv.outOK hinv.vals hinv.needs hinv.need t hneed
        simp only [IwiSt.armAt, hp', if_false]
        refine ⟨o1, o2, o3, o4, hinv.alive, ?_, fun h => by simp at h, ?_⟩
        · intro h; simp at h
        · intro r hr
          simp only [Option.some.injEq] at hr; subst hr
          simp only [IwiSt.emit]; omega
    next => cases hstep
  | tick t =>
    simp only [iwiStep] at hstep
    split at hstep
    next => cases hstep
    next r hsome =>
      split at hstep
      next hc =>
        obtain ⟨_, hnow, hlb⟩ := hc
        cases hstep
        have p1 := hinv.post r hsome
        obtain ⟨o1, o2, o3, o4⟩ := iwi_emit_out hinv.outOK hinv.vals hinv.needs hinv.need t (by omega)
        refine ⟨o1, o2, o3, o4, hinv.alive, ?_, ?_, ?_⟩
        · intro h; simp only [IwiSt.emit] at h; rw [hsome] at h; cases h
        · intro h1 h2; simp only [IwiSt.emit] at h1 ⊢; exact hinv.fresh h1 h2
        · intro r' hr'
          simp only [IwiSt.emit]; omega
      next => cases hstep

theorem iwiInv_run {sub i p : Nat} (hp : 0 < p) : ∀ (evs : List IwiEv) (s s' : IwiSt),
    IwiInv sub i p s → iwiRunFrom sub i p s evs = some s' → IwiInv sub i p s'
  | [], s, s', hinv, h => by simp [iwiRunFrom] at h; exact h ▸ hinv
  | e :: es, s, s', hinv, h => by
    simp only [iwiRunFrom] at h
    split at h
    next s1 hs1 => exact iwiInv_run hp es s1 s' (iwiInv_step hp hinv hs1) h
    next => cases h

/-- **IntervalWithInitial** (code as repaired by 6a7ef90), every `initial ≥ 0` and every
    `interval > 0`: value `k` is never delivered before `initial + k·interval`, never an Error, for
    every instant at which the `select` takes the timer and the ticks, however late.
    (Before 6a7ef90: `initial = 0` errored, and `interval > initial` raced — the theorem was partial.) -/
theorem iwi_model_clause (r : IwiRun) (hp : 0 < r.p)
    (hstop : ∀ c x, r.stop = some (c, x) → c ≤ x)
    (hfair : ∀ c x s, r.stop = some (c, x) → iwiRunFrom r.sub r.i r.p (iwiInit r.sub r.i r.p r.first) r.evs = some s →
      (s.out.filter (fun o => decide (c < o.1))).length ≤ cancelSlack)
    (tr : TimedTrace) (htr : iwiTrace r = some tr) :
    Clause { op := .intervalWithInitial, d := r.p, d2 := r.i } tr := by
  unfold iwiTrace at htr
  split at htr
  next => cases htr
  next hfirst =>
  simp only [Option.map_eq_some_iff] at htr
  obtain ⟨s, hs, rfl⟩ := htr
  have hinv := iwiInv_run hp r.evs _ s (iwiInv_init r.sub r.i r.p r.first hp (by omega)) hs
  have hend : (s.ended.map (Ev.at s.now)).toList = [] := by rw [hinv.alive]; rfl
  simp only [hend, List.append_nil]
  refine ⟨grammarOK_down _ r.unsub _ rfl, silentOK_stopCut _ r.stop r.unsub _ rfl rfl ?_, ?_⟩
  · intro c x hst
    rw [lateCount_append]
    have h1 := hfair c x s hst hs
    have h2 := lateCount_stopAttempt c r.stop
    have h3 : lateCount c (s.out.map (fun o => Ev.at o.1 (.next (o.2.1 : Int)))) = (s.out.filter (fun o => decide (c < o.1))).length := by
      simp only [lateCount, List.filter_map, List.length_map]
      rfl
    omega
  apply opOK_of_getElem?
  intro k dl hk
  have h1 := down_getElem? hk
  show IwiAt r.i r.p _ k dl
  rw [List.getElem?_append] at h1
  split at h1
  next hlt =>
    rw [List.getElem?_map] at h1
    cases ho : s.out[k]? with
    | none => rw [ho] at h1; cases h1
    | some o =>
      rw [ho] at h1
      simp only [Option.map_some, Option.some.injEq] at h1
      subst h1
      have hmem : o ∈ s.out := List.mem_of_getElem? ho
      have hval : o.2.1 = k := by
        have : (s.out.map (·.2.1))[k]? = some o.2.1 := by simp [ho]
        rw [hinv.vals] at this
        obtain ⟨hk1, hk2⟩ := List.getElem?_eq_some_iff.1 this
        simpa using hk2.symm
      have hb := hinv.outOK o hmem
      have hn := hinv.needs o hmem
      simp only [IwiAt, Ev.at]
      rw [hval] at hn ⊢
      exact ⟨rfl, by omega⟩
  next hge =>
    obtain ⟨c, x, hs', rfl⟩ := stopAttempt_getElem? h1
    have hcx := hstop c x hs'
    simp only [IwiAt, Ev.at]
    exact cancelledBy_stopCut _ c x r.unsub (by simp [hs']) hcx

/-- the repaired ticker is silent until `Reset`: no environment can make a tick precede the timer
    branch (what `iwi_race_witness` showed for the code before 6a7ef90 is no longer a run) -/
theorem iwi_no_tick_before_reset (sub i p first : Nat) (hi : 0 < i) (t : Time) (evs : List IwiEv) :
    iwiRunFrom sub i p (iwiInit sub i p first) (.tick t :: evs) = none := by
  have hi' : ¬ i = 0 := by omega
  simp [iwiRunFrom, iwiStep, iwiInit, hi']

/-- `initial = 0`: value 0 is sent by Subscribe itself, then value `k` not before `k` periods -/
theorem iwi_zero_emits_at_once (p sub first : Nat) :
    (iwiTrace { i := 0, p := p + 1, sub := sub, first := sub + first, evs := [], stop := none, unsub := none }).map (·.dels)
      = some [Ev.at (sub + first) (.next 0)] := by
  simp [iwiTrace, iwiInit, iwiRunFrom, IwiSt.emit, IwiSt.armAt, down, gateT, cutAt, stopAttempt, Ev.at]

-- non-vacuity: interval (10) > initial (1), a goroutine that wakes late: value 1 still waits for a whole period
example : (iwiTrace { i := 1, p := 10, sub := 0, first := 0, evs := [.timer 2, .tick 12, .tick 25], stop := some (26, 27), unsub := none }).map (·.dels)
    = some [Ev.at 2 (.next 0), Ev.at 12 (.next 1), Ev.at 25 (.next 2), Ev.at 27 .complete] := by decide
-- an environment that asks for an early tick is not a run at all
example : iwiTrace { i := 1, p := 10, sub := 0, first := 0, evs := [.timer 2, .tick 11], stop := none, unsub := none } = none := by decide
-- initial = 0, the ignored timer case, ticks from the Reset made by Subscribe
example : (iwiTrace { i := 0, p := 3, sub := 5, first := 6, evs := [.timer 6, .tick 9, .tick 13], stop := none, unsub := none }).map (·.dels)
    = some [Ev.at 6 (.next 0), Ev.at 9 (.next 1), Ev.at 13 (.next 2)] := by decide
-- interval = 0 is outside the theorem: `Reset(0)` panics; the goroutine dies and the deferred Complete
-- follows value 0 without any cancellation — not a trace C16 accepts of a periodic source
example : ∃ tr, iwiTrace { i := 2, p := 0, sub := 0, first := 0, evs := [.timer 2], stop := none, unsub := none } = some tr
    ∧ tr.dels = [Ev.at 2 (.next 0), Ev.at 2 .complete] ∧ ¬ Clause { op := .intervalWithInitial, d := 0, d2 := 2 } tr :=
  ⟨_, rfl, by decide, by decide⟩

end Ro.Timed

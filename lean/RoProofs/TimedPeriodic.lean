/-
  RoProofs.TimedPeriodic — DelayEach, Interval, Timer, IntervalWithInitial: lower bounds for every
  environment that respects "never early".
-/
import RoProofs.TimedBasic
namespace Ro.Timed

/-! ### DelayEach -/

theorem delayEach_model_clause (r : DelayEachRun) (h : DelayEachWF r) :
    Clause { op := .delayEach, d := r.d } (delayEachTrace r) := by
  refine ⟨grammarOK_down _ r.unsub _ rfl, silentOK_down _ r.unsub _ rfl rfl, ?_⟩
  apply opOK_of_getElem?
  intro k dl hk
  have h1 := down_getElem? hk
  rw [List.getElem?_map] at h1
  cases he : r.emits[k]? with
  | none => rw [he] at h1; cases h1
  | some e =>
    rw [he] at h1
    simp only [Option.map_some, Option.some.injEq] at h1
    show DelayEachAt r.d (delayEachTrace r) k dl
    unfold DelayEachAt
    have : (delayEachTrace r).emits[k]? = some (Ev.at e.1 e.2.2) := by simp [delayEachTrace, he]
    rw [this]
    have hmem : e ∈ r.emits := List.mem_of_getElem? he
    cases ht : e.2.2.isTerminal with
    | true =>
      simp only [ht, if_true] at h1
      subst h1
      simp [Ev.at, ht]
    | false =>
      simp only [ht] at h1
      subst h1
      have := h e hmem ht
      simp [Ev.at, ht]; exact this

theorem delayEach_model_accepts (r : DelayEachRun) (h : DelayEachWF r) :
    accepts { op := .delayEach, d := r.d } (delayEachTrace r) = true :=
  decide_eq_true (delayEach_model_clause r h)

/-! ### Interval -/

theorem cancelledBy_stopCut (tr : TimedTrace) (c x : Time) (u : Option Time)
    (hc : tr.cut = stopCut (some (c, x)) u) (hcx : c ≤ x) : CancelledBy tr x := by
  unfold CancelledBy; rw [hc]; simpa [stopCut] using hcx

theorem stopAttempt_getElem? {stop : Option (Time × Time)} {j : Nat} {dl : Ev}
    (h : (stopAttempt stop)[j]? = some dl) : ∃ c x, stop = some (c, x) ∧ dl = Ev.at x .complete := by
  cases stop with
  | none => simp [stopAttempt] at h
  | some cx =>
    obtain ⟨c, x⟩ := cx
    cases j with
    | zero => simp [stopAttempt] at h; exact ⟨c, x, rfl, h.symm⟩
    | succ j => simp [stopAttempt] at h

/-- **Interval**: value `k` is never delivered before `k+1` periods have elapsed since
    subscription, whatever the ticker's lateness and whenever cancellation / teardown happen. -/
theorem interval_model_clause (r : IntervalRun) (h : IntervalWF r) :
    Clause { op := .interval, d := r.p } (intervalTrace r) := by
  refine ⟨grammarOK_down _ r.unsub _ rfl, silentOK_stopCut _ r.stop r.unsub _ rfl rfl ?_, ?_⟩
  · intro c x hs
    rw [lateCount_append, lateCount_mapIdx c r.ticks _ (fun _ _ => rfl)]
    have := h.selectFair c x hs
    have := lateCount_stopAttempt c r.stop
    omega
  apply opOK_of_getElem?
  intro k dl hk
  have h1 := down_getElem? hk
  show IntervalAt r.p (intervalTrace r) k dl
  rw [List.getElem?_append] at h1
  split at h1
  next hlt =>
    rw [List.getElem?_mapIdx] at h1
    cases ht : r.ticks[k]? with
    | none => rw [ht] at h1; cases h1
    | some t =>
      rw [ht] at h1
      simp only [Option.map_some, Option.some.injEq] at h1
      subst h1
      have := h.neverEarly k t ht
      simp [IntervalAt, Ev.at, intervalTrace]; exact this
  next hge =>
    obtain ⟨c, x, hs, rfl⟩ := stopAttempt_getElem? h1
    have hcx := h.stopLate c x hs
    simp only [IntervalAt, Ev.at]
    exact cancelledBy_stopCut _ c x r.unsub (by simp [intervalTrace, hs]) hcx

theorem interval_model_accepts (r : IntervalRun) (h : IntervalWF r) :
    accepts { op := .interval, d := r.p } (intervalTrace r) = true :=
  decide_eq_true (interval_model_clause r h)

/-- the lower bound in plain words -/
theorem interval_never_early (r : IntervalRun) (h : IntervalWF r) :
    ∀ (k : Nat) (dl : Ev) (v : Int), (intervalTrace r).dels[k]? = some dl → dl.n = .next v →
      v = (k : Int) ∧ r.sub + (k + 1) * r.p ≤ dl.t0 := by
  intro k dl v hk hv
  have hlt : k < (intervalTrace r).dels.length := by
    rcases Nat.lt_or_ge k (intervalTrace r).dels.length with h' | h'
    · exact h'
    · rw [List.getElem?_eq_none h'] at hk; cases hk
  have := (interval_model_clause r h).2.2 k hlt
  rw [List.getElem?_eq_getElem hlt] at hk
  cases hk
  have h2 : IntervalAt r.p (intervalTrace r) k (intervalTrace r).dels[k] := this
  unfold IntervalAt at h2
  rw [hv] at h2
  exact h2

/-! ### Timer -/

theorem timer_model_clause (r : TimerRun) (h : TimerWF r) :
    Clause { op := .timer, d := r.d } (timerTrace r) := by
  unfold TimerWF at h
  cases ho : r.outcome with
  | fired t t' =>
    rw [ho] at h
    have hd : (timerTrace r).dels = [Ev.at t (.next (r.d : Int)), Ev.at t' .complete] := by simp [timerTrace, ho]
    have hc : (timerTrace r).cut = .none := by simp [timerTrace, ho]
    have hs : (timerTrace r).sub = r.sub := by simp [timerTrace, ho]
    refine ⟨?_, silentOK_none _ hc, ?_⟩
    · intro k hk ht
      rw [hd] at hk
      simp only [hd] at ht ⊢
      match k, hk with
      | 0, _ => simp [Ev.at] at ht
      | 1, _ => rfl
    · intro k hk
      show TimerAt r.d (timerTrace r) k (timerTrace r).dels[k]
      rw [hd] at hk
      simp only [hd]
      match k, hk with
      | 0, _ => simp [TimerAt, Ev.at, hs]; exact h
      | 1, _ => simp [TimerAt, Ev.at]
  | cancelled c x =>
    rw [ho] at h
    have hd : (timerTrace r).dels = [Ev.at x (.error errCancelled)] := by simp [timerTrace, ho]
    have hc : (timerTrace r).cut = .cancel c c := by simp [timerTrace, ho]
    refine ⟨?_, silentOK_cancel _ c c hc (by rw [hd]; have := lateCount_le_length c [Ev.at x (.error errCancelled)]; simp at this; unfold cancelSlack; omega), ?_⟩
    · intro k hk _
      rw [hd] at hk
      simp only [hd]
      match k, hk with
      | 0, _ => rfl
    · intro k hk
      show TimerAt r.d (timerTrace r) k (timerTrace r).dels[k]
      rw [hd] at hk
      simp only [hd]
      match k, hk with
      | 0, _ => simp [TimerAt, Ev.at, CancelledBy, hc]; exact h
  | pending =>
    have hd : (timerTrace r).dels = [] := by simp [timerTrace, ho]
    have hc : (timerTrace r).cut = .none := by simp [timerTrace, ho]
    refine ⟨?_, silentOK_none _ hc, ?_⟩
    · intro k hk; rw [hd] at hk; simp at hk
    · intro k hk; rw [hd] at hk; simp at hk

theorem timer_model_accepts (r : TimerRun) (h : TimerWF r) :
    accepts { op := .timer, d := r.d } (timerTrace r) = true :=
  decide_eq_true (timer_model_clause r h)

/-! ### IntervalWithInitial -/

/-- what stays true along every possible run when `0 < i` and `p ≤ i` -/
structure IwiInv (sub i p : Nat) (s : IwiSt) : Prop where
  outOK : ∀ o ∈ s.out, o.2.2 ≤ o.1
  vals : s.out.map (·.2.1) = List.range s.v
  needs : ∀ o ∈ s.out, o.2.2 = sub + i + o.2.1 * p
  need : s.need = sub + i + s.v * p
  pre : s.reset = none → s.need + i ≤ s.oldLb ∧ (0 < s.v → s.need ≤ s.now) ∧ (s.v = 0 → s.need = sub + i)
  post : ∀ r, s.reset = some r →
    s.need ≤ s.newLb ∧ r ≤ s.now ∧ (s.stale = false → s.fresh = false → s.need ≤ s.oldLb)
      ∧ (s.fresh = false → s.newLb = r + p)

theorem iwiInv_init (sub i p : Nat) : IwiInv sub i p (iwiInit sub i) := by
  refine ⟨by simp [iwiInit], by simp [iwiInit], by simp [iwiInit], by simp [iwiInit], ?_, by simp [iwiInit]⟩
  intro _
  simp [iwiInit]; omega

/-- emitting value `v` at an instant `t` that is not before the bound asked keeps the output part -/
theorem iwiInv_emit_out {sub i p : Nat} {s : IwiSt} (hinv : IwiInv sub i p s) (t : Time) (ht : s.need ≤ t) :
    (∀ o ∈ (s.emit t p).out, o.2.2 ≤ o.1) ∧ (s.emit t p).out.map (·.2.1) = List.range (s.emit t p).v
      ∧ (∀ o ∈ (s.emit t p).out, o.2.2 = sub + i + o.2.1 * p) ∧ (s.emit t p).need = sub + i + (s.emit t p).v * p := by
  refine ⟨?_, ?_, ?_, ?_⟩
  · intro o ho
    simp only [IwiSt.emit, List.mem_append, List.mem_singleton] at ho
    rcases ho with ho | rfl
    · exact hinv.outOK o ho
    · exact ht
  · simp only [IwiSt.emit, List.map_append, List.map_cons, List.map_nil, hinv.vals, List.range_succ]
  · intro o ho
    simp only [IwiSt.emit, List.mem_append, List.mem_singleton] at ho
    rcases ho with ho | rfl
    · exact hinv.needs o ho
    · exact hinv.need
  · simp only [IwiSt.emit, hinv.need, Nat.add_mul, Nat.one_mul]; omega

theorem iwiInv_step {sub i p : Nat} (hp : p ≤ i) {s s' : IwiSt} {e : IwiEv}
    (hinv : IwiInv sub i p s) (hstep : iwiStep sub i p s e = some s') : IwiInv sub i p s' := by
  cases e with
  | timer t =>
    simp only [iwiStep] at hstep
    split at hstep
    next hc =>
      obtain ⟨hnone, hnow, hti⟩ := hc
      have hnone' : s.reset = none := by simpa using hnone
      cases hstep
      obtain ⟨h1, h2, h3⟩ := hinv.pre hnone'
      have hneed : s.need ≤ t := by
        rcases Nat.eq_zero_or_pos s.v with hv | hv
        · have := h3 hv; omega
        · have := h2 hv; omega
      obtain ⟨o1, o2, o3, o4⟩ := iwiInv_emit_out hinv t hneed
      refine ⟨o1, o2, o3, o4, ?_, ?_⟩
      · intro h; simp at h
      · intro r hr
        simp only [Option.some.injEq] at hr
        subst hr
        simp only [IwiSt.emit]
        refine ⟨by omega, Nat.le_refl _, ?_, ?_⟩
        · intro _ _; omega
        · intro _; trivial
    next => cases hstep
  | oldTick t =>
    simp only [iwiStep] at hstep
    split at hstep
    next hnone =>
      split at hstep
      next hc =>
        obtain ⟨hnow, hlb⟩ := hc
        cases hstep
        obtain ⟨h1, h2, h3⟩ := hinv.pre hnone
        obtain ⟨o1, o2, o3, o4⟩ := iwiInv_emit_out hinv t (by omega)
        refine ⟨o1, o2, o3, o4, ?_, ?_⟩
        · intro _
          simp only [IwiSt.emit]
          refine ⟨by omega, fun _ => by omega, fun h => by omega⟩
        · intro r hr
          simp only [IwiSt.emit] at hr
          rw [hnone] at hr; cases hr
      next => cases hstep
    next r hsome =>
      split at hstep
      next hc =>
        obtain ⟨hnow, hst, hfr, hlb⟩ := hc
        cases hstep
        obtain ⟨p1, p2, p3, p4⟩ := hinv.post r hsome
        have hn : s.need ≤ s.oldLb := p3 hst hfr
        obtain ⟨o1, o2, o3, o4⟩ := iwiInv_emit_out hinv t (by omega)
        refine ⟨o1, o2, o3, o4, ?_, ?_⟩
        · intro h; simp only [IwiSt.emit] at h; rw [hsome] at h; cases h
        · intro r' hr'
          simp only [IwiSt.emit] at hr'
          rw [hsome] at hr'; cases hr'
          simp only [IwiSt.emit]
          have := p4 hfr
          refine ⟨by omega, by omega, ?_, ?_⟩
          · intro h; cases h
          · intro _; exact this
      next => cases hstep
  | newTick t =>
    simp only [iwiStep] at hstep
    split at hstep
    next => cases hstep
    next r hsome =>
      split at hstep
      next hc =>
        obtain ⟨hnow, hlb⟩ := hc
        cases hstep
        obtain ⟨p1, p2, p3, p4⟩ := hinv.post r hsome
        obtain ⟨o1, o2, o3, o4⟩ := iwiInv_emit_out hinv t (by omega)
        refine ⟨o1, o2, o3, o4, ?_, ?_⟩
        · intro h; simp only [IwiSt.emit] at h; rw [hsome] at h; cases h
        · intro r' hr'
          simp only [IwiSt.emit] at hr'
          rw [hsome] at hr'; cases hr'
          simp only [IwiSt.emit]
          refine ⟨by omega, by omega, ?_, ?_⟩
          · intro _ h; cases h
          · intro h; cases h
      next => cases hstep

theorem iwiInv_run {sub i p : Nat} (hp : p ≤ i) : ∀ (evs : List IwiEv) (s s' : IwiSt),
    IwiInv sub i p s → iwiRunFrom sub i p s evs = some s' → IwiInv sub i p s'
  | [], s, s', hinv, h => by simp [iwiRunFrom] at h; exact h ▸ hinv
  | e :: es, s, s', hinv, h => by
    simp only [iwiRunFrom] at h
    split at h
    next s1 hs1 => exact iwiInv_run hp es s1 s' (iwiInv_step hp hinv hs1) h
    next => cases h

/-- **IntervalWithInitial, partial**: for `0 < initial` and `interval ≤ initial`, value `k` is never
    delivered before `initial + k·interval` — for every order in which the `select` takes the timer
    and the two tick schedules, however late.

    Full statement (FALSE on the pinned tree, see `iwi_zero_errors` and `iwi_race_witness` below):
      ∀ r, (∀ possible environment) → Clause {intervalWithInitial, r.p, r.i} (trace r)
    Excluded classes, both listed as known findings: `initial = 0`, and `interval > initial`. -/
theorem iwi_model_clause_partial (r : IwiRun) (hi : 0 < r.i) (hp : r.p ≤ r.i)
    (hstop : ∀ c x, r.stop = some (c, x) → c ≤ x)
    (hfair : ∀ c x s, r.stop = some (c, x) → iwiRunFrom r.sub r.i r.p (iwiInit r.sub r.i) r.evs = some s →
      (s.out.filter (fun o => decide (c < o.1))).length ≤ cancelSlack)
    (tr : TimedTrace) (htr : iwiTrace r = some tr) :
    Clause { op := .intervalWithInitial, d := r.p, d2 := r.i } tr := by
  unfold iwiTrace at htr
  have hi' : ¬ r.i = 0 := by omega
  simp only [hi', if_false, Option.map_eq_some_iff] at htr
  obtain ⟨s, hs, rfl⟩ := htr
  have hinv := iwiInv_run hp r.evs _ s (iwiInv_init r.sub r.i r.p) hs
  refine ⟨grammarOK_down _ r.unsub _ rfl, silentOK_stopCut _ r.stop r.unsub _ rfl rfl ?_, ?_⟩
  · intro c x hst
    rw [lateCount_append]
    have h1 := hfair c x s hst hs
    have h2 := lateCount_stopAttempt c r.stop
    have h3 : lateCount c (s.out.map (fun o => Ev.at o.1 (.next (o.2.1 : Int)))) = (s.out.filter (fun o => decide (c < o.1))).length := by
      simp only [lateCount, List.filter_map, List.length_map]
      rfl
    omega
  apply opOK_of_getElem?
  intro k dl hk
  have h1 := down_getElem? hk
  show IwiAt r.i r.p _ k dl
  rw [List.getElem?_append] at h1
  split at h1
  next hlt =>
    rw [List.getElem?_map] at h1
    cases ho : s.out[k]? with
    | none => rw [ho] at h1; cases h1
    | some o =>
      rw [ho] at h1
      simp only [Option.map_some, Option.some.injEq] at h1
      subst h1
      have hmem : o ∈ s.out := List.mem_of_getElem? ho
      have hval : o.2.1 = k := by
        have : (s.out.map (·.2.1))[k]? = some o.2.1 := by simp [ho]
        rw [hinv.vals] at this
        have hk' := List.getElem?_eq_some_iff.1 this
        obtain ⟨hk1, hk2⟩ := hk'
        simpa using hk2.symm
      have hb := hinv.outOK o hmem
      have hn := hinv.needs o hmem
      simp only [IwiAt, Ev.at]
      rw [hval] at hn ⊢
      exact ⟨rfl, by omega⟩
  next hge =>
    obtain ⟨c, x, hs', rfl⟩ := stopAttempt_getElem? h1
    have hcx := hstop c x hs'
    simp only [IwiAt, Ev.at]
    exact cancelledBy_stopCut _ c x r.unsub (by simp [hs']) hcx

/-- **IntervalWithInitial(0, p) always ends in an Error** (`time.NewTicker(0)` panics before the
    `initial == 0` branch): no value is ever delivered, whatever the period and the environment. -/
theorem iwi_zero_errors (p sub : Nat) (evs : List IwiEv) :
    (iwiTrace { i := 0, p := p, sub := sub, evs := evs, stop := none, unsub := none }).map (·.dels)
      = some [Ev.at sub (.error errOther)] := by
  simp [iwiTrace]

/-- … and such a trace is not one C16 accepts of a periodic source. -/
theorem iwi_zero_rejected (p sub : Nat) (evs : List IwiEv) (tr : TimedTrace)
    (h : iwiTrace { i := 0, p := p, sub := sub, evs := evs, stop := none, unsub := none } = some tr) :
    ¬ Clause { op := .intervalWithInitial, d := p, d2 := 0 } tr := by
  simp [iwiTrace] at h
  subst h
  intro hc
  have := hc.2.2 0 (by simp)
  simp [OpAt, IwiAt, Ev.at] at this

/-- **the 2·initial ticker races the initial timer** when `interval > initial`: with `initial = 1`,
    `interval = 10`, a goroutine that wakes up at instant 2 finds both `timer.C` and `ticker.C` ready;
    taking the tick first gives value 0 at 2 and value 1 (timer branch) at 2 — nine units earlier than
    `initial + 1·interval = 11`. Every step respects "never early". -/
theorem iwi_race_witness :
    (iwiTrace { i := 1, p := 10, sub := 0, evs := [.oldTick 2, .timer 2], stop := none, unsub := none }).map (·.dels)
      = some [Ev.at 2 (.next 0), Ev.at 2 (.next 1)] := by decide

theorem iwi_race_rejected :
    ∃ tr, iwiTrace { i := 1, p := 10, sub := 0, evs := [.oldTick 2, .timer 2], stop := none, unsub := none } = some tr
      ∧ ¬ Clause { op := .intervalWithInitial, d := 10, d2 := 1 } tr :=
  ⟨_, rfl, by decide⟩

/-- the same with the timer branch first: the tick of the first schedule that is still buffered when
    `Reset` is called is received right after -/
theorem iwi_stale_tick_witness :
    (iwiTrace { i := 1, p := 10, sub := 0, evs := [.timer 2, .oldTick 2], stop := none, unsub := none }).map (·.dels)
      = some [Ev.at 2 (.next 0), Ev.at 2 (.next 1)] := by decide

-- non-vacuity of the partial theorem: a late, racy but possible run with interval ≤ initial
example : (iwiTrace { i := 4, p := 3, sub := 0, evs := [.oldTick 9, .timer 9, .newTick 12, .newTick 16], stop := some (17, 18), unsub := none }).map (·.dels)
    = some [Ev.at 9 (.next 0), Ev.at 9 (.next 1), Ev.at 12 (.next 2), Ev.at 16 (.next 3), Ev.at 18 .complete] := by decide
-- an environment that asks for an early tick is not a run at all
example : iwiTrace { i := 4, p := 3, sub := 0, evs := [.timer 4, .newTick 6], stop := none, unsub := none } = none := by decide

end Ro.Timed

/-
  RoProofs.TimedBasic — the downstream gate on timed attempts: prefix, grammar, silence.
-/
import RoModel.Spec.Timed
namespace Ro.Timed

theorem gateT_prefix : ∀ l : List Ev, gateT l <+: l
  | [] => List.prefix_refl _
  | e :: es => by
    unfold gateT
    split
    · exact ⟨es, rfl⟩
    · exact (List.cons_prefix_cons).2 ⟨rfl, gateT_prefix es⟩

theorem cutAt_prefix (u : Option Time) (l : List Ev) : cutAt u l <+: l := by
  cases u with
  | none => exact List.prefix_refl _
  | some u => exact List.takeWhile_prefix _

theorem down_prefix (u : Option Time) (l : List Ev) : down u l <+: l :=
  List.IsPrefix.trans (cutAt_prefix u _) (gateT_prefix l)

theorem prefix_getElem? {α : Type} {p l : List α} (h : p <+: l) {k : Nat} {x : α}
    (hx : p[k]? = some x) : l[k]? = some x := by
  obtain ⟨t, rfl⟩ := h
  have hk : k < p.length := by
    rcases Nat.lt_or_ge k p.length with h | h
    · exact h
    · rw [List.getElem?_eq_none h] at hx; cases hx
  rw [List.getElem?_append_left hk]; exact hx

theorem down_getElem? {u : Option Time} {l : List Ev} {k : Nat} {x : Ev}
    (h : (down u l)[k]? = some x) : l[k]? = some x := prefix_getElem? (down_prefix u l) h

/-- in what the gate lets through, only the last element can be a terminal -/
theorem gateT_terminal_last : ∀ (l : List Ev) (k : Nat) (h : k < (gateT l).length),
    (gateT l)[k].n.isTerminal = true → k + 1 = (gateT l).length
  | [], k, h, _ => by simp [gateT] at h
  | e :: es, k, h, ht => by
    unfold gateT at h ht ⊢
    split
    next hterm =>
      simp only [hterm, if_true] at h ht
      simp at h; subst h; rfl
    next hterm =>
      simp only [hterm] at h ht
      cases k with
      | zero => simp at ht; exact absurd ht hterm
      | succ k =>
        simp at h ht ⊢
        have := gateT_terminal_last es k h ht
        omega

theorem prefix_terminal_last {p l : List Ev} (hp : p <+: l)
    (hl : ∀ (k : Nat) (h : k < l.length), l[k].n.isTerminal = true → k + 1 = l.length) :
    ∀ (k : Nat) (h : k < p.length), p[k].n.isTerminal = true → k + 1 = p.length := by
  intro k h ht
  have hle := hp.length_le
  have hk : k < l.length := Nat.lt_of_lt_of_le h hle
  have heq : p[k] = l[k] := hp.getElem h
  have := hl k hk (heq ▸ ht)
  omega

theorem down_terminal_last (u : Option Time) (l : List Ev) :
    ∀ (k : Nat) (h : k < (down u l).length), (down u l)[k].n.isTerminal = true → k + 1 = (down u l).length :=
  prefix_terminal_last (cutAt_prefix u _) (gateT_terminal_last l)

/-- G1 for every trace whose deliveries went through the gate -/
theorem grammarOK_down (tr : TimedTrace) (u : Option Time) (l : List Ev) (h : tr.dels = down u l) :
    GrammarOK tr := by
  unfold GrammarOK
  rw [h]
  exact down_terminal_last u l

theorem mem_takeWhile {α : Type} (p : α → Bool) : ∀ (l : List α) (x : α), x ∈ l.takeWhile p → p x = true
  | [], x, h => by simp at h
  | a :: as, x, h => by
    rw [List.takeWhile_cons] at h
    split at h
    next hp =>
      rcases List.mem_cons.1 h with rfl | h'
      · exact hp
      · exact mem_takeWhile p as x h'
    next => simp at h

theorem mem_cutAt_some {u : Time} {l : List Ev} {e : Ev} (h : e ∈ cutAt (some u) l) : e.t0 ≤ u := by
  have := mem_takeWhile _ l e h
  simpa using this

/-- G2: in a model run nothing is delivered after the instant the teardown took effect -/
theorem silentOK_cut (tr : TimedTrace) (u : Option Time) (l : List Ev) (hd : tr.dels = cutAt u l)
    (hc : tr.cut = cutOf u) : SilentOK tr := by
  unfold SilentOK
  cases u with
  | none => simp [hc, cutOf]
  | some u =>
    simp only [hc, cutOf]
    have : tr.dels.filter (fun e => decide (u < e.t0)) = [] := by
      rw [List.filter_eq_nil_iff]
      intro e he
      rw [hd] at he
      have := mem_cutAt_some he
      simp; omega
    rw [this]; simp

theorem silentOK_down (tr : TimedTrace) (u : Option Time) (l : List Ev) (hd : tr.dels = down u l)
    (hc : tr.cut = cutOf u) : SilentOK tr := silentOK_cut tr u (gateT l) hd hc

theorem lateCount_le_of_prefix {c : Time} {p l : List Ev} (h : p <+: l) : lateCount c p ≤ lateCount c l :=
  (h.sublist.filter _).length_le

theorem lateCount_append (c : Time) (a b : List Ev) : lateCount c (a ++ b) = lateCount c a + lateCount c b := by
  simp [lateCount]

theorem lateCount_le_length (c : Time) (l : List Ev) : lateCount c l ≤ l.length := List.length_filter_le _ _

theorem lateCount_mapIdx (c : Time) : ∀ (l : List Time) (f : Nat → Time → Ev), (∀ k t, (f k t).t0 = t) →
    lateCount c (l.mapIdx f) = (l.filter (fun t => decide (c < t))).length
  | [], _, _ => by simp [lateCount]
  | t :: l, f, hf => by
    have ih := lateCount_mapIdx c l (fun i => f (i + 1)) (fun k t => hf (k + 1) t)
    rw [List.mapIdx_cons]
    simp only [lateCount, List.filter_cons, hf 0 t] at ih ⊢
    split <;> simp [ih]

/-- G2 after a cancellation: the count of deliveries that begin after it -/
theorem silentOK_cancel (tr : TimedTrace) (c0 c1 : Time) (hc : tr.cut = .cancel c0 c1)
    (hn : lateCount c1 tr.dels ≤ cancelSlack + 2) : SilentOK tr := by
  unfold SilentOK; rw [hc]; simp only; omega

theorem silentOK_none (tr : TimedTrace) (hc : tr.cut = .none) : SilentOK tr := by
  unfold SilentOK; rw [hc]; trivial

/-- runs that end by cancellation or by teardown: `l` = the delivery attempts -/
theorem silentOK_stopCut (tr : TimedTrace) (stop : Option (Time × Time)) (u : Option Time) (l : List Ev)
    (hd : tr.dels = down u l) (hc : tr.cut = stopCut stop u)
    (hfair : ∀ c x, stop = some (c, x) → lateCount c l ≤ cancelSlack + 1) : SilentOK tr := by
  cases stop with
  | none => exact silentOK_down tr u l hd (by simpa [stopCut] using hc)
  | some cx =>
    refine silentOK_cancel tr cx.1 cx.1 (by simpa [stopCut] using hc) ?_
    have h1 := hfair cx.1 cx.2 rfl
    have h2 : lateCount cx.1 tr.dels ≤ lateCount cx.1 l := by rw [hd]; exact lateCount_le_of_prefix (down_prefix u l)
    omega

theorem lateCount_stopAttempt (c : Time) (stop : Option (Time × Time)) : lateCount c (stopAttempt stop) ≤ 1 := by
  have := lateCount_le_length c (stopAttempt stop)
  cases stop <;> simp [stopAttempt] at this ⊢ <;> omega

/-- the clause per delivery, through `[k]?` -/
theorem opOK_of_getElem? (cfg : Cfg) (tr : TimedTrace)
    (h : ∀ k dl, tr.dels[k]? = some dl → OpAt cfg tr k dl) : OpOK cfg tr := by
  intro k hk
  exact h k _ (List.getElem?_eq_getElem hk)

end Ro.Timed

/-
  RoProofs.ShareNested — events nested inside the source's `Subscribe` (depth one): the invariant
  with a pending creator (`Inv P`) holds between the inner events, and `Inv Pend.idle` holds again when
  the nested `sub` returns. Hence `Inv Pend.idle (nrun cfg evs)` for every nested sequence.
-/
import RoProofs.ShareProps
namespace Ro.Share
attribute [local simp] St.modGen St.modSub St.drop

/-! ### a closed subscriber stays closed -/

structure Mono (s s' : St) : Prop where
  nsubs : s.nsubs ≤ s'.nsubs
  status : ∀ k, k < s.nsubs → (s.subs k).status ≠ 0 → (s'.subs k).status ≠ 0

theorem Mono.refl (s : St) : Mono s s := ⟨Nat.le_refl _, fun _ _ h => h⟩
theorem Mono.trans {a b c : St} (h1 : Mono a b) (h2 : Mono b c) : Mono a c :=
  ⟨Nat.le_trans h1.nsubs h2.nsubs, fun k hk h => h2.status k (Nat.lt_of_lt_of_le hk h1.nsubs) (h1.status k hk h)⟩
theorem Sim.mono {s s' : St} (h : Sim s s') : Mono s s' :=
  ⟨by rw [h.nsubs]; exact Nat.le_refl _, fun k _ hs => by rw [h.status]; exact hs⟩
theorem GensOnly.mono {s s' : St} (h : GensOnly s s') : Mono s s' :=
  ⟨by rw [h.nsubs]; exact Nat.le_refl _, fun k _ hs => by rw [h.subs]; exact hs⟩

theorem foldl_mono {α : Type} (f : St → α → St) (hf : ∀ s a, Mono s (f s a)) (l : List α) (s : St) : Mono s (l.foldl f s) := by
  induction l generalizing s with
  | nil => exact Mono.refl s
  | cons a l ih => exact (hf s a).trans (ih (f s a))

theorem mono_of_only {i : Nat} {s s' : St} (h : Only i s s') (hi : (s.subs i).status ≠ 0 → (s'.subs i).status ≠ 0) : Mono s s' :=
  ⟨by rw [h.nsubs]; exact Nat.le_refl _, fun k _ hs => by
    by_cases hk : k = i
    · subst hk; exact hi hs
    · rw [h.other k hk]; exact hs⟩

theorem dTerm_mono (fl : Flags) (i : Nat) (t : Ev) (ht : t.isTerminal = true) (s : St) : Mono s (dTerm fl i t s) :=
  mono_of_only (dTerm_only fl i t s) (fun _ => (dTerm_self fl i t ht s).2)

theorem dUnsubscribe_mono (fl : Flags) (i : Nat) (s : St) : Mono s (dUnsubscribe fl i s) :=
  mono_of_only (dUnsubscribe_only fl i s) (fun hs => by simp [dUnsubscribe, hs])

theorem teardownT_mono (fl : Flags) (i g : Nat) (s : St) : Mono s (teardownT fl i g s) :=
  mono_of_only (teardownT_only fl i g s) (fun hs => by
    simp only [teardownT]
    rw [(zeroReset_go fl g _).subs]
    simp [decRef, casClose, hs])

theorem addTeardown_mono (fl : Flags) (i g : Nat) (s : St) : Mono s (addTeardown fl i g s) := by
  unfold addTeardown
  split
  · exact teardownT_mono fl i g s
  · exact ⟨Nat.le_refl _, fun k _ hs => by simp; split <;> simp_all⟩

theorem subjTerm_mono (fl : Flags) (g : Nat) (t : Ev) (ht : t.isTerminal = true) (s : St) : Mono s (subjTerm fl g t s) := by
  unfold subjTerm
  split
  · have h1 : Mono s (s.modGen g fun x => { x with subj := { x.subj with status := Status.ofTerminal t } }) := ⟨Nat.le_refl _, fun _ _ h => h⟩
    have h2 : ∀ u, Mono u (bcastTerm fl g t u) := fun u => foldl_mono _ (fun s i => dTerm_mono fl i t ht s) _ u
    have h3 : ∀ u, Mono u (subjClear g u) := fun u => ⟨Nat.le_refl _, fun _ _ h => h⟩
    exact (h1.trans (h2 _)).trans (h3 _)
  · exact ⟨Nat.le_refl _, fun _ _ h => h⟩

theorem pEmit_mono (cfg : Cfg) (g : Nat) (x : Ev) (s : St) : Mono s (pEmit cfg g x s) := by
  have hterm : ∀ t : Ev, t.isTerminal = true → Mono s (pTerm cfg g t s) := by
    intro t ht
    unfold pTerm
    split
    · have h1 : Mono s (s.modGen g fun x => { x with pStatus := t.code }) := ⟨Nat.le_refl _, fun _ _ h => h⟩
      exact ((h1.trans (pDecide_go cfg.flags g t _).mono).trans (subjTerm_mono cfg.flags g t ht _)).trans (pSubnUnsub_go g _).mono
    · have h1 : Mono s (s.drop t) := ⟨Nat.le_refl _, fun _ _ h => h⟩
      exact h1.trans (pSubnUnsub_go g _).mono
  cases x with
  | next v => exact (pNext_sim cfg g v s).mono
  | error e => exact hterm (.error e) rfl
  | complete => exact hterm .complete rfl

theorem push_mono (cfg : Cfg) (x : Ev) (s : St) : Mono s (push cfg x s) := by
  unfold push
  apply foldl_mono
  intro u g
  split
  · exact pEmit_mono cfg g x u
  · exact Mono.refl u

theorem subjSubscribe_mono (cfg : Cfg) (g i : Nat) (s : St) : Mono s (subjSubscribe cfg g i s) := by
  have hR := (subjReplay_sim cfg.conn g i s).mono
  unfold subjSubscribe
  split
  · exact hR.trans (dTerm_mono cfg.flags i _ rfl _)
  · exact hR.trans (dTerm_mono cfg.flags i _ rfl _)
  · have hL := (subjLast_sim cfg.conn g i (subjReplay cfg.conn g i s)).mono
    have hG : ∀ u, Mono u (subjRegister g i u) := by
      intro u
      unfold subjRegister
      split
      · exact ⟨Nat.le_refl _, fun _ _ h => h⟩
      · exact ⟨Nat.le_refl _, fun k _ hs => by simp; split <;> simp_all⟩
    exact (hR.trans hL).trans (hG _)

theorem r3tail_mono (fl : Flags) (i g : Nat) (s : St) : Mono s (r3tail fl i g s) := by
  unfold r3tail ssAdd
  split
  · exact (pUnsubscribe_go g s).mono.trans (addTeardown_mono fl i g _)
  · have h1 : Mono s (s.modGen g fun x => { x with ssFins := x.ssFins ++ [g] }) := ⟨Nat.le_refl _, fun _ _ h => h⟩
    exact h1.trans (addTeardown_mono fl i g _)

theorem upAddTeardown_mono (g : Nat) (s : St) : Mono s (upAddTeardown g s) := by
  unfold upAddTeardown
  split <;> exact ⟨Nat.le_refl _, fun _ _ h => h⟩

theorem playPre_mono (cfg : Cfg) (g : Nat) (pre : List Ev) (s : St) : Mono s (playPre cfg g pre s) :=
  foldl_mono _ (fun s x => pEmit_mono cfg g x s) pre s

theorem subscribeK_mono (cfg : Cfg) (k : St → St) (hk : ∀ u, Mono u (k u)) (s : St) : Mono s (subscribeK cfg k s) := by
  have h0 : Mono s (r1 cfg (newSub s)) := by
    refine ⟨?_, ?_⟩
    · unfold r1 newSub; split <;> simp
    · intro j hj hs
      have hne : j ≠ s.nsubs := by omega
      unfold r1 newSub; split <;> simp [hne, hs]
  unfold subscribeK
  split
  · refine (h0.trans (subjSubscribe_mono cfg s.ngens s.nsubs _)).trans ?_
    unfold r3K srcSubscribeK
    have h1 : ∀ u : St, Mono u (({ u with flagE := false, flagC := false } : St).modGen s.ngens fun x => { x with upSub := true }) :=
      fun u => ⟨Nat.le_refl _, fun _ _ h => h⟩
    exact ((((h1 _).trans (playPre_mono cfg _ _ _)).trans (hk _)).trans (upAddTeardown_mono _ _)).trans (r3tail_mono _ _ _ _)
  · exact (h0.trans (subjSubscribe_mono cfg _ _ _)).trans (addTeardown_mono _ _ _ _)

theorem step_mono (cfg : Cfg) (s : St) (e : Event) : Mono s (step cfg s e) := by
  cases e with
  | sub => exact subscribeK_mono cfg id (fun u => Mono.refl u) s
  | unsub i => simp only [step]; split <;> first | exact dUnsubscribe_mono cfg.flags i s | exact Mono.refl s
  | src x => exact push_mono cfg x s

theorem stepInner_mono (cfg : Cfg) (self : Nat) (s : St) (e : Event) : Mono s (stepInner cfg self s e) := by
  unfold stepInner
  split
  · split
    · exact Mono.refl s
    · exact step_mono cfg s _
  · exact step_mono cfg s e

/-! ### from the phases of R3 to the invariant with a pending creator -/

theorem flive_inv {g i : Nat} {u : St} (h : FLive Pend.idle g i u) : Inv ⟨some g, some i⟩ u := by
  have hcl : ∀ k, k < i → (u.subs k).status ≠ 0 := fun k hk => (h.closed k hk).status
  have hos : openSubs u = [i] := openSubs_single h.nsubs hcl h.status
  have hact : GenActive ⟨some g, some i⟩ u g := by
    constructor
    case obs => rw [hos]; exact h.obs
    case fin => intro hne; exact absurd rfl hne
    case unf => intro _; exact ⟨h.pFin, h.ssFins, i, rfl, by rw [h.nsubs]; omega, ⟨h.status, h.done, h.delFin, h.tearFin⟩⟩
    case subs =>
      intro k hk hks hne
      have hki : k ≠ i := fun hh => hne (by rw [hh])
      exact absurd hks (hcl k (by rw [h.nsubs] at hk; omega))
    all_goals first | exact h.pStatus | exact h.pDone | exact h.upSub | exact h.upTorn | exact h.ssDone | exact h.isOpen | exact h.flagE | exact h.flagC
  constructor
  case shared => exact h.shared
  case closed =>
    intro k hk hks
    have hki : k ≠ i := fun hh => hks (by rw [hh]; exact h.status)
    exact h.closed k (by rw [h.nsubs] at hk; omega)
  case stale =>
    intro k hk hne hu
    have hkg : k ≠ g := fun hh => hne (by rw [hh]; exact h.subject)
    exact h.stale.stale k (by rw [h.ngens] at hk; omega) (by simp)
  case ended =>
    intro k hk hne hu
    have : k = g := (Option.some.inj hu).symm
    exact absurd (by rw [this]; exact h.subject) hne
  case count => rw [hos, h.count]; rfl
  case idle => intro hn; rw [h.subject] at hn; cases hn
  case cur =>
    intro g' hg'
    rw [h.subject] at hg'
    have : g' = g := (Option.some.inj hg').symm
    subst this
    exact ⟨by rw [h.ngens]; omega, Or.inl hact⟩
  case ugb => intro k hk; have : k = g := (Option.some.inj hk).symm; rw [this, h.ngens]; omega
  case uab => intro A _; exact ⟨h.subject.symm, by rw [h.subject]; simp⟩

theorem freset_inv {g i : Nat} {u : St} (h : FReset Pend.idle g i u) : Inv ⟨some g, none⟩ u := by
  have hos : openSubs u = [] := openSubs_none h.nsubs (fun k hk => (h.closed k hk).status) h.sub.status
  constructor
  case shared => exact h.shared
  case closed =>
    intro k hk _
    by_cases hki : k = i
    · subst hki; exact h.sub
    · exact h.closed k (by rw [h.nsubs] at hk; omega)
  case stale =>
    intro k hk _ hu
    have hkg : k ≠ g := fun hh => hu (by rw [hh])
    exact h.stale.stale k (by rw [h.ngens] at hk; omega) (by simp)
  case ended =>
    intro k _ _ hu
    have : k = g := (Option.some.inj hu).symm
    subst this
    exact ⟨⟨h.pStatus, h.pDone, h.pFin, h.upSub, h.upTorn, h.ssFins, h.ssDone, h.obs⟩, rfl⟩
  case count => rw [hos, h.count]; rfl
  case idle => intro _; exact ⟨h.flagE, h.flagC, hos⟩
  case cur => intro g' hg'; rw [h.subject] at hg'; cases hg'
  case ugb => intro k hk; have : k = g := (Option.some.inj hk).symm; rw [this, h.ngens]; omega
  case uab => intro A hA; cases hA

theorem flatch_inv {g i : Nat} {u : St} (h : FLatch Pend.idle g i u) : Inv ⟨some g, none⟩ u := by
  have hos : openSubs u = [] := openSubs_none h.nsubs (fun k hk => (h.closed k hk).status) h.sub.status
  have hlat : GenLatched ⟨some g, none⟩ u g :=
    { pStatus := h.pStatus, pDone := h.pDone, pFin := h.pFin, upSub := h.upSub, ssDone := h.ssDone,
      closed := h.closedSubj, obs := h.obs, flag := h.flag, noOpen := hos,
      fin := fun hne => absurd rfl hne, unf := fun _ => ⟨h.upTorn, h.ssFins, rfl⟩ }
  constructor
  case shared => exact h.shared
  case closed =>
    intro k hk _
    by_cases hki : k = i
    · subst hki; exact h.sub
    · exact h.closed k (by rw [h.nsubs] at hk; omega)
  case stale =>
    intro k hk _ hu
    have hkg : k ≠ g := fun hh => hu (by rw [hh])
    exact h.stale.stale k (by rw [h.ngens] at hk; omega) (by simp)
  case ended =>
    intro k _ hne hu
    have : k = g := (Option.some.inj hu).symm
    exact absurd (by rw [this]; exact h.subject) hne
  case count => rw [hos, h.count]; rfl
  case idle => intro hn; rw [h.subject] at hn; cases hn
  case cur =>
    intro g' hg'
    rw [h.subject] at hg'
    have : g' = g := (Option.some.inj hg').symm
    subst this
    exact ⟨by rw [h.ngens]; omega, Or.inr hlat⟩
  case ugb => intro k hk; have : k = g := (Option.some.inj hk).symm; rw [this, h.ngens]; omega
  case uab => intro A hA; cases hA

/-! ### the inner events -/

/-- what is known about the pending creator `i` of generation `g` between two inner events -/
structure Mid (g i : Nat) (u : St) : Prop where
  inv : Inv ⟨some g, some i⟩ u ∨ (Inv ⟨some g, none⟩ u ∧ (u.subs i).status ≠ 0)
  lt : i < u.nsubs

theorem mid_stepInner (cfg : Cfg) {g i : Nat} {u : St} (h : Mid g i u) (e : Event) : Mid g i (stepInner cfg i u e) := by
  have hm := stepInner_mono cfg i u e
  refine ⟨?_, Nat.lt_of_lt_of_le h.lt hm.nsubs⟩
  -- `unsub i` is void; anything else is a plain step
  by_cases hself : e = .unsub i
  · subst hself
    have : stepInner cfg i u (.unsub i) = u := by simp [stepInner]
    rw [this]; exact h.inv
  · have hstep : stepInner cfg i u e = step cfg u e := by
      unfold stepInner
      cases e with
      | unsub j =>
        have : j ≠ i := fun hh => hself (by rw [hh])
        simp [this]
      | sub => rfl
      | src x => rfl
    rw [hstep]
    rw [hstep] at hm
    rcases h.inv with hi | ⟨hi, hc⟩
    · rcases inv_step' cfg hi e (fun A hA he => by
          have : A = i := (Option.some.inj hA).symm
          subst this; exact hself he) with h' | ⟨h', hno⟩
      · exact Or.inl h'
      · -- a terminal on the pending generation: everybody, the creator included, is closed
        exact Or.inr ⟨h', openSubs_eq_nil.mp hno i (Nat.lt_of_lt_of_le h.lt hm.nsubs)⟩
    · rcases inv_step' cfg hi e (fun A hA => by cases hA) with h' | ⟨h', _⟩
      · exact Or.inr ⟨h', hm.status i h.lt hc⟩
      · exact Or.inr ⟨by simpa [Pend.drop] using h', hm.status i h.lt hc⟩

/-! ### the nested `Subscribe` returns -/

theorem finish_mid (fl : Flags) {g i : Nat} {u : St} (h : Mid g i u) :
    Inv Pend.idle (r3tail fl i g (upAddTeardown g u)) := by
  rcases h.inv with hi | ⟨hi, hc⟩
  · -- the creator is still open on its live, unfinished generation: R3 ends as in the plain case
    have hsubj : u.subject = some g := ((hi.uab i rfl).1).symm
    have hg := (hi.cur g hsubj).1
    have ha : GenActive ⟨some g, some i⟩ u g := by
      rcases (hi.cur g hsubj).2 with ha | hl
      · exact ha
      · have := (hl.unf rfl).2.2; cases this
    obtain ⟨hpf, hsf, A, hA, hltA, hu⟩ := ha.unf rfl
    have hAi : A = i := (Option.some.inj hA).symm
    subst hAi
    have h1 := ha.ssDone
    have h3 := ha.pDone
    have h4 := hu.done
    have e : r3tail fl A g (upAddTeardown g u) = liveDone A g u := by
      simp [r3tail, ssAdd, upAddTeardown, ha.pDone, ha.ssDone, addTeardown, hu.done, hsf, liveDone]
      refine ⟨?_, ?_⟩ <;> funext k <;> split <;> simp_all
    rw [e]
    generalize hF : liveDone A g u = F
    simp only [liveDone] at hF
    have hsubs : ∀ k, k ≠ A → F.subs k = u.subs k := by intro k hk; rw [← hF]; simp [hk]
    have hgens : ∀ k, k ≠ g → F.gens k = u.gens k := by intro k hk; rw [← hF]; simp [hk]
    have hst : ∀ k, (F.subs k).status = (u.subs k).status := by intro k; rw [← hF]; simp; split <;> simp_all
    have hos : openSubs F = openSubs u := openSubs_congr (by rw [← hF]) (fun k _ => by rw [hst])
    have hFsubj : F.subject = some g := by rw [← hF]; exact hsubj
    have hact : GenActive Pend.idle F g := by
      constructor
      case obs => rw [hos, ← hF]; simp [ha.obs]
      case fin => intro _; rw [← hF]; simp
      case unf => intro he; simp at he
      case subs =>
        intro k hk hks _
        by_cases hkA : k = A
        · subst hkA
          rw [← hF]
          constructor <;> simp [hu.status, hu.done, hu.delFin]
        · rw [hsubs k hkA]
          rw [hst] at hks
          exact ha.subs k (by rw [← hF] at hk; exact hk) hks (fun hh => hkA (Option.some.inj hh).symm)
      all_goals (rw [← hF]; simp [ha.pStatus, ha.pDone, ha.upSub, ha.upTorn, ha.ssDone, ha.isOpen, ha.flagE, ha.flagC])
    constructor
    case shared => rw [← hF]; exact hi.shared
    case closed =>
      intro k hk hks
      have hkA : k ≠ A := fun hh => hks (by rw [hh, hst]; exact hu.status)
      rw [hsubs k hkA]
      rw [hst] at hks
      exact hi.closed k (by rw [← hF] at hk; exact hk) hks
    case stale =>
      intro k hk hne _
      have hkg : k ≠ g := fun hh => hne (by rw [hh]; exact hFsubj)
      rw [hgens k hkg]
      exact hi.stale k (by rw [← hF] at hk; exact hk) (by rw [hsubj]; intro hh; exact hkg (Option.some.inj hh).symm)
        (fun hh => hkg (Option.some.inj hh).symm)
    case ended => intro k _ _ hu'; simp at hu'
    case count =>
      rw [hos]
      have := hi.count
      have h1 : F.refCount = u.refCount := by rw [← hF]
      rw [h1, this]; simp [Pend.c]
    case idle => intro hn; rw [hFsubj] at hn; cases hn
    case cur =>
      intro g' hg'
      rw [hFsubj] at hg'
      have : g' = g := (Option.some.inj hg').symm
      subst this
      exact ⟨by rw [← hF]; exact hg, Or.inl hact⟩
    case ugb => intro k hk; simp at hk
    case uab => intro A' hA'; simp at hA'
  · -- the creator has been closed inside its own `Subscribe`: its reference comes back only now
    have hcl : SubClosed (u.subs i) := hi.closed i h.lt hc
    have hg : g < u.ngens := hi.ugb g rfl
    by_cases hsubj : u.subject = some g
    · -- latched on the pending generation
      have hl : GenLatched ⟨some g, none⟩ u g := by
        rcases (hi.cur g hsubj).2 with ha | hl
        · obtain ⟨_, _, A, hA, _⟩ := ha.unf rfl; cases hA
        · exact hl
      obtain ⟨hut, hsf, _⟩ := hl.unf rfl
      have h1 := hl.ssDone
      have h3 := hl.pDone
      have e : r3tail fl i g (upAddTeardown g u) = latchDone g u := by
        simp [r3tail, ssAdd, upAddTeardown, hl.pDone, hl.ssDone, addTeardown, hcl.done, hsf, teardownT, casClose, hc, decRef, latchDone]
        rw [zeroReset_flag (by exact hl.flag)]
        simp
        funext k
        split <;> simp_all
      rw [e]
      generalize hF : latchDone g u = F
      simp only [latchDone] at hF
      have hsubs : F.subs = u.subs := by rw [← hF]
      have hgens : ∀ k, k ≠ g → F.gens k = u.gens k := by intro k hk; rw [← hF]; simp [hk]
      have hos : openSubs F = openSubs u := openSubs_congr (by rw [← hF]) (fun k _ => by rw [hsubs])
      have hFsubj : F.subject = some g := by rw [← hF]; exact hsubj
      have hlat : GenLatched Pend.idle F g := by
        constructor
        case noOpen => rw [hos]; exact hl.noOpen
        case flag => rw [← hF]; exact hl.flag
        case fin => intro _; rw [← hF]; simp
        case unf => intro he; simp at he
        all_goals (rw [← hF]; simp [hl.pStatus, hl.pDone, hl.pFin, hl.upSub, hl.ssDone, hl.closed, hl.obs])
      constructor
      case shared => rw [← hF]; exact hi.shared
      case closed => intro k hk hks; rw [hsubs] at hks ⊢; exact hi.closed k (by rw [← hF] at hk; exact hk) hks
      case stale =>
        intro k hk hne _
        have hkg : k ≠ g := fun hh => hne (by rw [hh]; exact hFsubj)
        rw [hgens k hkg]
        exact hi.stale k (by rw [← hF] at hk; exact hk) (by rw [hsubj]; intro hh; exact hkg (Option.some.inj hh).symm)
          (fun hh => hkg (Option.some.inj hh).symm)
      case ended => intro k _ _ hu'; simp at hu'
      case count =>
        rw [hos]
        have := hi.count
        have h1 : F.refCount = u.refCount - 1 := by rw [← hF]
        rw [h1, this]; simp [Pend.c]
      case idle => intro hn; rw [hFsubj] at hn; cases hn
      case cur =>
        intro g' hg'
        rw [hFsubj] at hg'
        have : g' = g := (Option.some.inj hg').symm
        subst this
        exact ⟨by rw [← hF]; exact hg, Or.inr hlat⟩
      case ugb => intro k hk; simp at hk
      case uab => intro A' hA'; simp at hA'
    · -- the pending generation was reset; possibly a newer generation is current (the late release)
      obtain ⟨hen, _⟩ := hi.ended g hg hsubj rfl
      have hss : u.sourceSubscription ≠ some g := by rw [hi.shared]; exact hsubj
      have e : r3tail fl i g (upAddTeardown g u) = resetDone g u := by
        have e1 : upAddTeardown g u = u.modGen g fun x => { x with upTorn := true } := by simp [upAddTeardown, hen.pDone]
        rw [e1]
        have hz : ∀ w : St, w.subject ≠ some g → w.sourceSubscription ≠ some g → (w.gens g).ssDone = true → zeroReset fl g w = w := by
          intro w h1 h2 h3
          unfold zeroReset
          split
          · exact reset_stale h3 h1 h2
          · rfl
        simp [r3tail, ssAdd, hen.ssDone, pUnsubscribe, hen.pStatus, addTeardown, hcl.done, teardownT, casClose, hc, decRef]
        rw [hz _ (by exact hsubj) (by exact hss) (by simp [hen.ssDone])]
        rfl
      rw [e]
      generalize hF : resetDone g u = F
      simp only [resetDone] at hF
      have hsubs : F.subs = u.subs := by rw [← hF]; rfl
      have hgens : ∀ k, k ≠ g → F.gens k = u.gens k := by intro k hk; rw [← hF]; simp [St.modGen, hk]
      have hos : openSubs F = openSubs u := openSubs_congr (by rw [← hF]; rfl) (fun k _ => by rw [hsubs])
      have hFsubj : F.subject = u.subject := by rw [← hF]; rfl
      have hFn : F.nsubs = u.nsubs := by rw [← hF]; rfl
      have hFg : F.ngens = u.ngens := by rw [← hF]; rfl
      constructor
      case shared => rw [← hF]; exact hi.shared
      case closed => intro k hk hks; rw [hsubs] at hks ⊢; exact hi.closed k (by rw [hFn] at hk; exact hk) hks
      case stale =>
        intro k hk hne _
        rw [hFsubj] at hne
        by_cases hkg : k = g
        · subst hkg
          rw [← hF]
          constructor <;> simp [St.modGen, hen.pStatus, hen.pDone, hen.pFin, hen.upSub, hen.ssFins, hen.ssDone, hen.obs]
        · rw [hgens k hkg]
          exact hi.stale k (by rw [hFg] at hk; exact hk) hne (fun hh => hkg (Option.some.inj hh).symm)
      case ended => intro k _ _ hu'; simp at hu'
      case count =>
        rw [hos]
        have := hi.count
        have h1 : F.refCount = u.refCount - 1 := by rw [← hF]
        rw [h1, this]; simp [Pend.c]
      case idle =>
        intro hn
        rw [hFsubj] at hn
        have := hi.idle hn
        exact ⟨by rw [← hF]; exact this.1, by rw [← hF]; exact this.2.1, by rw [hos]; exact this.2.2⟩
      case cur =>
        intro g' hg'
        rw [hFsubj] at hg'
        have hg'g : g' ≠ g := fun hh => hsubj (by rw [← hh]; exact hg')
        have hne' : (⟨some g, none⟩ : Pend).ug ≠ some g' := fun hh => hg'g (Option.some.inj hh).symm
        refine ⟨by rw [hFg]; exact (hi.cur g' hg').1, ?_⟩
        rcases (hi.cur g' hg').2 with ha | hl
        · left
          constructor
          case obs => rw [hos, hgens g' hg'g]; exact ha.obs
          case fin => intro _; rw [hgens g' hg'g]; exact ha.fin hne'
          case unf => intro he; simp at he
          case subs => intro k hk hks _; rw [hsubs] at hks ⊢; exact ha.subs k (by rw [hFn] at hk; exact hk) hks (by simp)
          case flagE => rw [← hF]; exact ha.flagE
          case flagC => rw [← hF]; exact ha.flagC
          all_goals (rw [hgens g' hg'g]; first | exact ha.pStatus | exact ha.pDone | exact ha.upSub | exact ha.upTorn | exact ha.ssDone | exact ha.isOpen)
        · right
          constructor
          case noOpen => rw [hos]; exact hl.noOpen
          case flag => rw [← hF]; exact hl.flag
          case fin => intro _; rw [hgens g' hg'g]; exact hl.fin hne'
          case unf => intro he; simp at he
          all_goals (rw [hgens g' hg'g]; first | exact hl.pStatus | exact hl.pDone | exact hl.pFin | exact hl.upSub | exact hl.ssDone | exact hl.closed | exact hl.obs)
      case ugb => intro k hk; simp at hk
      case uab => intro A' hA'; simp at hA'

/-! ### a nested event, and nested runs -/

theorem subscribeK_join (cfg : Cfg) (k : St → St) {s : St} (hnn : needsNew s = false) : subscribeK cfg k s = subscribe cfg s := by
  simp [subscribeK, subscribe, hnn]

theorem subscribeK_fresh_eq (cfg : Cfg) (k : St → St) {s : St} (hi : Inv Pend.idle s) (hsub : s.subject = none) :
    ∃ u0 n, Sim (freshState cfg.conn s) u0 ∧
      subscribeK cfg k s = r3tail cfg.flags s.nsubs s.ngens (upAddTeardown s.ngens (k (playPre cfg s.ngens (cfg.pre n) u0))) := by
  have hnn : needsNew s = true := (needsNew_iff hi).mpr hsub
  have hnn' : needsNew (newSub s) = true := hnn
  have e1 : r1 cfg (newSub s) =
      { (newSub s) with refCount := s.refCount + 1,
                        gens := (fun k => if k = s.ngens then { subj := Subj.new cfg.conn, creator := s.nsubs } else s.gens k),
                        ngens := s.ngens + 1, subject := some s.ngens, sourceSubscription := some s.ngens } := by
    unfold r1
    rw [if_pos hnn']
    rfl
  have hR := subjReplay_sim cfg.conn s.ngens s.nsubs (r1 cfg (newSub s))
  have hL := hR.trans (subjLast_sim cfg.conn s.ngens s.nsubs _)
  have hopen : ((subjReplay cfg.conn s.ngens s.nsubs (r1 cfg (newSub s))).gens s.ngens).subj.status = Status.open := by
    rw [hR.gStatus, e1]; simp [subjNew_open]
  have hsubscribe : subscribeK cfg k s = r3K cfg k s.nsubs s.ngens (subjRegister s.ngens s.nsubs
      (subjLast cfg.conn s.ngens s.nsubs (subjReplay cfg.conn s.ngens s.nsubs (r1 cfg (newSub s))))) := by
    simp only [subscribeK, hnn, subjSubscribe, hopen]
    simp
  rw [hsubscribe]
  generalize subjLast cfg.conn s.ngens s.nsubs (subjReplay cfg.conn s.ngens s.nsubs (r1 cfg (newSub s))) = sL at hL
  rw [e1] at hL
  have hd : (sL.subs s.nsubs).done = false := by rw [hL.done]; simp [newSub]
  refine ⟨_, _, ?_, rfl⟩
  constructor
  all_goals intros
  all_goals simp [subjRegister, hd, freshState, hL.refCount, hL.subject, hL.sourceSubscription, hL.flagE, hL.flagC, hL.ngens, hL.nsubs, newSub]
  all_goals (try split)
  all_goals simp_all [hL.status, hL.done, hL.delFin, hL.tearFin, hL.gStatus, hL.gObs, hL.ssDone, hL.ssFins, hL.pStatus, hL.pDone, hL.pFin, hL.upSub, hL.upTorn, newSub, subjNew_open, subjNew_obs]

theorem mid_foldl (cfg : Cfg) {g i : Nat} (inner : List Event) {u : St} (h : Mid g i u) :
    Mid g i (inner.foldl (stepInner cfg i) u) := by
  induction inner generalizing u with
  | nil => exact h
  | cons e es ih => exact ih (mid_stepInner cfg h e)

/-- **the invariant survives a nested event**: whatever happens inside the source's `Subscribe`
    (any plain events: other subscribers arriving and leaving, source values and terminals), the
    invariant holds again when the nested `sub` has returned -/
theorem inv_nstep (cfg : Cfg) {s : St} (hi : Inv Pend.idle s) (e : NEvent) : Inv Pend.idle (nstep cfg s e) := by
  cases e with
  | plain e => exact inv_step cfg hi e
  | subNested inner =>
    show Inv Pend.idle (subscribeK cfg _ s)
    cases hsub : s.subject with
    | some g =>
      have hnn : needsNew s = false := by
        cases h : needsNew s with
        | false => rfl
        | true => rw [(needsNew_iff hi).mp h] at hsub; cases hsub
      rw [subscribeK_join cfg _ hnn]
      exact subscribe_cases cfg hi
    | none =>
      obtain ⟨u0, n, hsim, he⟩ := subscribeK_fresh_eq cfg (fun u => inner.foldl (stepInner cfg s.nsubs) u) hi hsub
      rw [he]
      have hl := (flive_freshState cfg.conn hi hsub).sim hsim
      have hmid : Mid s.ngens s.nsubs (playPre cfg s.ngens (cfg.pre n) u0) := by
        rcases playPre_live cfg (cfg.pre n) hl with h | h | h
        · exact ⟨Or.inl (flive_inv h), by rw [h.nsubs]; omega⟩
        · exact ⟨Or.inr ⟨freset_inv h, h.sub.status⟩, by rw [h.nsubs]; omega⟩
        · exact ⟨Or.inr ⟨flatch_inv h, h.sub.status⟩, by rw [h.nsubs]; omega⟩
      exact finish_mid cfg.flags (mid_foldl cfg inner hmid)

theorem inv_nfoldl (cfg : Cfg) (evs : List NEvent) {s : St} (hi : Inv Pend.idle s) : Inv Pend.idle (evs.foldl (nstep cfg) s) := by
  induction evs generalizing s with
  | nil => exact hi
  | cons e es ih => exact ih (inv_nstep cfg hi e)

/-- every state reachable by nested events (between two top-level events) satisfies the invariant -/
theorem inv_nrun (cfg : Cfg) (evs : List NEvent) : Inv Pend.idle (nrun cfg evs) := inv_nfoldl cfg evs Inv.init

end Ro.Share

/-
  RoProofs.MultiCore — facts about the multi-source interpreter (RoModel/Multi/Core.lean) that hold for
  every machine:
   * `Preserved`: a predicate kept by the primitive state changes is kept by every reaction, at any depth
     of synchronous nesting;
   * after the downstream subscriber has closed nothing is delivered any more (`feedAll_frozen`);
   * `emitOnly_out`: for a machine whose callbacks only call the destination, the delivered trace is the
     downstream gate applied to the concatenated emissions over the per-source-gated arrival order;
   * arrival orders: every interleaving keeps each source's own order (`eventsFrom_ofSource_prefix`), and
     the per-source gate commutes with projecting on one source (`ofSource_gateEvents`).
-/
import RoModel.Multi.OpsA
import RoModel.Spec.Multi
import RoProofs.Gate
namespace Ro.Multi
open Ro

variable {σ α β : Type}

theorem foldl_preserves {γ δ : Type} (P : γ → Prop) (f : γ → δ → γ) (h : ∀ r x, P r → P (f r x)) :
    ∀ (l : List δ) (r : γ), P r → P (l.foldl f r) := by
  intro l
  induction l with
  | nil => intro r hr; exact hr
  | cons x xs ih => intro r hr; exact ih _ (h r x hr)

/-! ### closing sources -/

@[simp] theorem closeSrc_out (r : MSt σ α β) (k) : (r.closeSrc k).out = r.out := rfl
@[simp] theorem closeSrc_downOpen (r : MSt σ α β) (k) : (r.closeSrc k).downOpen = r.downOpen := rfl
@[simp] theorem closeSrc_booted (r : MSt σ α β) (k) : (r.closeSrc k).booted = r.booted := rfl
@[simp] theorem closeSrc_subs (r : MSt σ α β) (k) : (r.closeSrc k).subs = r.subs := rfl
@[simp] theorem closeSrc_st (r : MSt σ α β) (k) : (r.closeSrc k).st = r.st := rfl
@[simp] theorem closeSrc_drops (r : MSt σ α β) (k) : (r.closeSrc k).drops = r.drops := rfl
theorem closeSrc_sopen (r : MSt σ α β) (k j) : (r.closeSrc k).sopen j = (if j = k then false else r.sopen j) := rfl

theorem closeAll_fields (ks : List Nat) (r : MSt σ α β) :
    (ks.foldl MSt.closeSrc r).out = r.out ∧ (ks.foldl MSt.closeSrc r).downOpen = r.downOpen ∧
    (ks.foldl MSt.closeSrc r).booted = r.booted ∧ (ks.foldl MSt.closeSrc r).subs = r.subs ∧
    (ks.foldl MSt.closeSrc r).st = r.st ∧ (ks.foldl MSt.closeSrc r).drops = r.drops := by
  induction ks generalizing r with
  | nil => simp
  | cons k ks ih => simpa using ih (r.closeSrc k)

theorem closeAll_sopen (ks : List Nat) (r : MSt σ α β) (j : Nat) :
    (ks.foldl MSt.closeSrc r).sopen j = (if j ∈ ks then false else r.sopen j) := by
  induction ks generalizing r with
  | nil => simp
  | cons k ks ih =>
    rw [List.foldl_cons, ih, closeSrc_sopen]
    by_cases h1 : j ∈ ks <;> by_cases h2 : j = k <;> simp [h1, h2]

section teardown
variable (m : MMachine σ α β)

@[simp] theorem runTeardown_out (r : MSt σ α β) : (r.runTeardown m).out = r.out := by
  unfold MSt.runTeardown; exact (closeAll_fields _ _).1
@[simp] theorem runTeardown_downOpen (r : MSt σ α β) : (r.runTeardown m).downOpen = r.downOpen := by
  unfold MSt.runTeardown; exact (closeAll_fields _ _).2.1
@[simp] theorem runTeardown_booted (r : MSt σ α β) : (r.runTeardown m).booted = r.booted := by
  unfold MSt.runTeardown; exact (closeAll_fields _ _).2.2.1
@[simp] theorem runTeardown_subs (r : MSt σ α β) : (r.runTeardown m).subs = r.subs := by
  unfold MSt.runTeardown; exact (closeAll_fields _ _).2.2.2.1
@[simp] theorem runTeardown_st (r : MSt σ α β) : (r.runTeardown m).st = (m.teardown r.st).1 := by
  unfold MSt.runTeardown; exact (closeAll_fields _ _).2.2.2.2.1
theorem runTeardown_sopen (r : MSt σ α β) (j : Nat) :
    (r.runTeardown m).sopen j = (if j ∈ (m.teardown r.st).2 then false else r.sopen j) := by
  unfold MSt.runTeardown; exact closeAll_sopen _ _ _

/-! ### emitting -/

theorem emit_closed (r : MSt σ α β) (n : Notif β) (h : r.downOpen = false) :
    r.emit m n = { r with drops := r.drops ++ [.down n] } := by
  unfold MSt.emit; simp [h]

theorem emit_open_next (r : MSt σ α β) (n : Notif β) (h : r.downOpen = true) (hn : n.isTerminal = false) :
    r.emit m n = { r with out := r.out ++ [n] } := by
  unfold MSt.emit; simp [h, hn]

theorem emit_open_term (r : MSt σ α β) (n : Notif β) (h : r.downOpen = true) (hn : n.isTerminal = true)
    (hb : r.booted = true) :
    r.emit m n = MSt.runTeardown m { r with out := r.out ++ [n], downOpen := false } := by
  unfold MSt.emit; simp [h, hn, hb]

theorem closeAll_setSt (ks : List Nat) (r : MSt σ α β) (s : σ) :
    ks.foldl MSt.closeSrc { r with st := s } = { (ks.foldl MSt.closeSrc r) with st := s } := by
  induction ks generalizing r with
  | nil => rfl
  | cons k ks ih => exact ih (r.closeSrc k)

/-- a change of the operator's locals that the teardown does not look at commutes with an emission -/
theorem emit_setSt (f : σ → σ) (hf1 : ∀ s, (m.teardown (f s)).1 = f (m.teardown s).1)
    (hf2 : ∀ s, (m.teardown (f s)).2 = (m.teardown s).2) (r : MSt σ α β) (n : Notif β) :
    MSt.emit m { r with st := f r.st } n = { (r.emit m n) with st := f (r.emit m n).st } := by
  unfold MSt.emit
  by_cases hd : r.downOpen = true
  · by_cases hn : n.isTerminal = true
    · by_cases hb : r.booted = true
      · simp only [hd, hn, hb, if_true]
        unfold MSt.runTeardown
        simp only [hf1, hf2]
        have h1 := closeAll_setSt (m.teardown r.st).2 ({ r with downOpen := false, booted := true, out := r.out ++ [n] } : MSt σ α β) (f (m.teardown r.st).1)
        have h2 := closeAll_setSt (m.teardown r.st).2 ({ r with downOpen := false, booted := true, out := r.out ++ [n] } : MSt σ α β) (m.teardown r.st).1
        simp only at h1 h2
        rw [h1, h2]
      · simp [hd, hn, hb]
    · simp [hd, hn]
  · simp [hd]

/-- a list of emissions, in order -/
def emits (r : MSt σ α β) (l : List (Notif β)) : MSt σ α β := l.foldl (MSt.emit m) r

theorem emits_closed (l : List (Notif β)) (r : MSt σ α β) (h : r.downOpen = false) :
    (emits m r l).downOpen = false ∧ (emits m r l).out = r.out ∧ (emits m r l).sopen = r.sopen ∧
    (emits m r l).subs = r.subs ∧ (emits m r l).booted = r.booted := by
  induction l generalizing r with
  | nil => simp [emits, h]
  | cons x xs ih =>
    have := ih ({ r with drops := r.drops ++ [.down x] }) h
    simpa [emits, emit_closed m r x h] using this

theorem emits_noTerm (l : List (Notif β)) (r : MSt σ α β) (h : r.downOpen = true) (hl : hasTerm l = false) :
    emits m r l = { r with out := r.out ++ l } := by
  induction l generalizing r with
  | nil => simp [emits]
  | cons x xs ih =>
    simp only [hasTerm_cons, Bool.or_eq_false_iff] at hl
    have h1 := ih ({ r with out := r.out ++ [x] }) h hl.2
    simp only [emits, List.foldl_cons] at h1 ⊢
    rw [emit_open_next m r x h hl.1, h1]
    simp

theorem emits_term (l : List (Notif β)) (r : MSt σ α β) (h : r.downOpen = true) (hb : r.booted = true)
    (hl : hasTerm l = true) :
    (emits m r l).downOpen = false ∧ (emits m r l).out = r.out ++ gate l ∧
    (emits m r l).subs = r.subs ∧ (emits m r l).booted = true ∧
    (∀ j, (emits m r l).sopen j = (if j ∈ (m.teardown r.st).2 then false else r.sopen j)) := by
  induction l generalizing r with
  | nil => simp at hl
  | cons x xs ih =>
    by_cases hx : x.isTerminal = true
    · have e1 := emit_open_term m r x h hx hb
      have hc := emits_closed m xs (r.emit m x) (by rw [e1]; simp)
      have hg : gate (x :: xs) = [x] := by simp [gate, hx]
      refine ⟨?_, ?_, ?_, ?_, ?_⟩
      · simpa [emits] using hc.1
      · have := hc.2.1; simp only [emits, List.foldl_cons] at this ⊢; rw [this, e1, hg]; simp
      · have := hc.2.2.2.1; simp only [emits, List.foldl_cons] at this ⊢; rw [this, e1]; simp
      · have := hc.2.2.2.2; simp only [emits, List.foldl_cons] at this ⊢; rw [this, e1]; simp [hb]
      · intro j
        have := hc.2.2.1; simp only [emits, List.foldl_cons] at this ⊢; rw [this, e1, runTeardown_sopen]
    · have hx' : x.isTerminal = false := by simpa using hx
      have hl' : hasTerm xs = true := by simpa [hx'] using hl
      have e1 := emit_open_next m r x h hx'
      have := ih ({ r with out := r.out ++ [x] }) h hb hl'
      have hg : gate (x :: xs) = x :: gate xs := by simp [gate, hx']
      simp only [emits, List.foldl_cons] at this ⊢
      rw [e1, hg]
      simpa using this

end teardown

/-! ### predicates kept by the interpreter -/

structure Preserved (m : MMachine σ α β) (P : MSt σ α β → Prop) : Prop where
  st : ∀ r s, P r → P { r with st := s }
  emit : ∀ r n, P r → P (r.emit m n)
  close : ∀ r k, P r → P (r.closeSrc k)
  sub : ∀ r k c, P r → P { r with subs := setAt r.subs k (r.subs k + 1), sopen := setAt r.sopen k true, sctx := setAt r.sctx k c }
  drop : ∀ r d, P r → P { r with drops := r.drops ++ [d] }
  over : ∀ r, P r → P { r with overflow := true }

section preserve
variable {m : MMachine σ α β} (cfg : Sources α) {P : MSt σ α β → Prop} (hP : Preserved m P)
include hP

theorem deliver_preserves (rec : List (Phase σ β) → MSt σ α β → MSt σ α β)
    (hrec : ∀ ps r, P r → P (rec ps r)) (k : Nat) (r : MSt σ α β) (n : Notif α) (hr : P r) :
    P (deliver m rec k r n) := by
  unfold deliver
  split
  · apply hrec
    split
    · exact hP.close _ _ hr
    · exact hr
  · exact hP.drop _ _ hr

theorem act_preserves (rec : List (Phase σ β) → MSt σ α β → MSt σ α β)
    (hrec : ∀ ps r, P r → P (rec ps r)) (r : MSt σ α β) (a : Act β) (hr : P r) :
    P (act m cfg rec r a) := by
  cases a with
  | emit n => exact hP.emit _ _ hr
  | unsub k => exact hP.close _ _ hr
  | sub k c =>
    simp only [act]
    split
    · exact foldl_preserves P _ (fun r x h => deliver_preserves hP rec hrec k r x h) _ _ (hP.sub _ _ _ hr)
    · exact hP.sub _ _ _ hr

theorem phases_preserves (rec : List (Phase σ β) → MSt σ α β → MSt σ α β)
    (hrec : ∀ ps r, P r → P (rec ps r)) (ps : List (Phase σ β)) (r : MSt σ α β) (hr : P r) :
    P (phases m cfg rec ps r) := by
  unfold phases
  refine foldl_preserves P _ ?_ _ _ hr
  intro r p h
  unfold phase
  exact foldl_preserves P _ (fun r a h => act_preserves cfg hP rec hrec r a h) _ _ (hP.st _ _ h)

theorem phasesAt_preserves (d : Nat) (ps : List (Phase σ β)) (r : MSt σ α β) (hr : P r) :
    P (phasesAt m cfg d ps r) := by
  induction d generalizing ps r with
  | zero => exact phases_preserves cfg hP _ (fun _ r h => hP.over r h) ps r hr
  | succ d ih => exact phases_preserves cfg hP _ (fun ps r h => ih ps r h) ps r hr

theorem feed_preserves (r : MSt σ α β) (e : MEvent α) (hr : P r) : P (feed m cfg r e) := by
  unfold feed
  split
  · exact hr
  · exact deliver_preserves hP _ (fun ps r h => phasesAt_preserves cfg hP _ ps r h) _ _ _ hr

theorem feedAll_preserves (evs : List (MEvent α)) (r : MSt σ α β) (hr : P r) : P (feedAll m cfg r evs) :=
  foldl_preserves P _ (fun r e h => feed_preserves cfg hP r e h) evs r hr

end preserve

/-! ### once the downstream subscriber is closed, nothing is delivered any more -/

theorem frozen_preserved (m : MMachine σ α β) (o : List (Notif β)) :
    Preserved m (fun r => r.downOpen = false ∧ r.out = o) where
  st := fun _ _ h => h
  emit := fun r n h => by rw [emit_closed m r n h.1]; exact h
  close := fun _ _ h => h
  sub := fun _ _ _ h => h
  drop := fun _ _ h => h
  over := fun _ h => h

theorem feedAll_frozen (m : MMachine σ α β) (cfg : Sources α) (evs : List (MEvent α)) (r : MSt σ α β)
    (h : r.downOpen = false) :
    (feedAll m cfg r evs).downOpen = false ∧ (feedAll m cfg r evs).out = r.out :=
  feedAll_preserves cfg (frozen_preserved m r.out) evs r ⟨h, rfl⟩

/-- C01 for every multi-source machine, any mix of hot and synchronous sources: the delivered trace
    obeys the grammar and `downOpen` says whether it has ended -/
theorem grammar_preserved (m : MMachine σ α β) :
    Preserved m (fun r => Grammar r.out ∧ (r.downOpen = true → hasTerm r.out = false)) where
  st := fun _ _ h => h
  emit := fun r n h => by
    by_cases hd : r.downOpen = true
    · have hnt := h.2 hd
      by_cases hn : n.isTerminal = true
      · unfold MSt.emit
        simp only [hd, hn, if_true]
        have hg : Grammar (r.out ++ [n]) := by
          have := gate_grammar (r.out ++ [n])
          rwa [gate_append_of_noTerm _ _ hnt, show gate [n] = [n] by simp [gate, hn]] at this
        split
        · simp [hg]
        · simp [hg]
      · have hn' : n.isTerminal = false := by simpa using hn
        rw [emit_open_next m r n hd hn']
        refine ⟨?_, fun _ => by simp [hnt, hn']⟩
        have := gate_grammar (r.out ++ [n])
        rwa [gate_of_noTerm _ (by simp [hnt, hn'])] at this
    · have hd' : r.downOpen = false := by simpa using hd
      rw [emit_closed m r n hd']; simpa [hd'] using h.1
  close := fun _ _ h => h
  sub := fun _ _ _ h => h
  drop := fun _ _ h => h
  over := fun _ h => h

/-! ### callbacks that only call the destination -/

/-- the emissions of a pure step function along an arrival order, concatenated -/
def emitsFrom (step : σ → Nat → Notif α → σ × List (Notif β)) : σ → List (MEvent α) → List (Notif β)
  | _, [] => []
  | s, e :: es => (step s e.1 e.2).2 ++ emitsFrom step (step s e.1 e.2).1 es

/-- Machine `m` reacts to the sources in `S` by state change + calls of the destination only, as
    described by `step`, as long as its state satisfies `I`; its teardown unsubscribes all of `S`. -/
structure EmitOnly (m : MMachine σ α β) (cfg : Sources α) (I : σ → Prop) (S : Nat → Bool)
    (step : σ → Nat → Notif α → σ × List (Notif β)) : Prop where
  react : ∀ (rec : List (Phase σ β) → MSt σ α β → MSt σ α β) (r : MSt σ α β) (k : Nat) (n : Notif α),
    S k = true → I r.st →
    phases m cfg rec (m.react k n) r = emits m { r with st := (step r.st k n).1 } (step r.st k n).2
  inv : ∀ s k n, S k = true → I s → I (step s k n).1
  teardown : ∀ s k, I s → S k = true → k ∈ (m.teardown s).2

/-- when every subscribed source is closed, arrivals change nothing but the drop log -/
theorem feed_allClosed (m : MMachine σ α β) (cfg : Sources α) (r : MSt σ α β) (e : MEvent α)
    (h : ∀ k, r.subs k = 0 ∨ r.sopen k = false) :
    (feed m cfg r e).sopen = r.sopen ∧ (feed m cfg r e).subs = r.subs ∧ (feed m cfg r e).out = r.out ∧
    (feed m cfg r e).downOpen = r.downOpen := by
  unfold feed
  split
  · simp
  · rename_i h0
    have : r.sopen e.1 = false := by cases h e.1 with
      | inl h1 => exact absurd h1 h0
      | inr h1 => exact h1
    simp [deliver, this]

theorem feedAll_allClosed (m : MMachine σ α β) (cfg : Sources α) (evs : List (MEvent α)) (r : MSt σ α β)
    (h : ∀ k, r.subs k = 0 ∨ r.sopen k = false) :
    (feedAll m cfg r evs).sopen = r.sopen ∧ (feedAll m cfg r evs).subs = r.subs ∧
    (feedAll m cfg r evs).out = r.out ∧ (feedAll m cfg r evs).downOpen = r.downOpen := by
  induction evs generalizing r with
  | nil => simp [feedAll]
  | cons e es ih =>
    have h1 := feed_allClosed m cfg r e h
    have h2 := ih (feed m cfg r e) (by rw [h1.1, h1.2.1]; exact h)
    simp only [feedAll, List.foldl_cons] at h2 ⊢
    rw [h2.1, h2.2.1, h2.2.2.1, h2.2.2.2, h1.1, h1.2.1, h1.2.2.1, h1.2.2.2]
    simp

theorem feedAll_allClosed_st (m : MMachine σ α β) (cfg : Sources α) (evs : List (MEvent α)) (r : MSt σ α β)
    (h : ∀ k, r.subs k = 0 ∨ r.sopen k = false) : (feedAll m cfg r evs).st = r.st := by
  induction evs generalizing r with
  | nil => rfl
  | cons e es ih =>
    have h1 := feed_allClosed m cfg r e h
    have hst : (feed m cfg r e).st = r.st := by
      unfold feed; split
      · rfl
      · rename_i h0
        have : r.sopen e.1 = false := by
          cases h e.1 with
          | inl h2 => exact absurd h2 h0
          | inr h2 => exact h2
        simp [deliver, this]
    have := ih (feed m cfg r e) (by intro j; rw [h1.1, h1.2.1]; exact h j)
    simp only [feedAll, List.foldl_cons] at this ⊢
    rw [this, hst]

theorem booted_preserved (m : MMachine σ α β) : Preserved m (fun r => r.booted = true) where
  st := fun _ _ h => h
  emit := fun r n h => by
    unfold MSt.emit; split
    · split
      · simp [h]
      · exact h
    · exact h
  close := fun _ _ h => h
  sub := fun _ _ _ h => h
  drop := fun _ _ h => h
  over := fun _ h => h

theorem phasesAt_is_phases (m : MMachine σ α β) (cfg : Sources α) (d : Nat) :
    ∃ rec, phasesAt m cfg d = phases m cfg rec := by
  cases d <;> exact ⟨_, rfl⟩

theorem phases_emit1 (m : MMachine σ α β) (cfg : Sources α) (rec) (r : MSt σ α β) (x : Notif β) :
    phases m cfg rec [fun s => (s, [.emit x])] r = r.emit m x := rfl

theorem phases_st (m : MMachine σ α β) (cfg : Sources α) (rec) (r : MSt σ α β) (f : σ → σ) :
    phases m cfg rec [fun s => (f s, [])] r = { r with st := f r.st } := rfl

theorem phasesAt_depth (m : MMachine σ α β) (cfg : Sources α) :
    phasesAt m cfg (depth cfg) = phases m cfg (phasesAt m cfg cfg.n) := rfl

/-- The delivered trace of an emit-only machine (all the sources of `S` subscribed and nothing else
    open): the downstream gate applied to the emissions over the per-source-gated arrival order.
    Second part: once the downstream has closed, every source of `S` is released. -/
theorem emitOnly_out {m : MMachine σ α β} {cfg : Sources α} {I : σ → Prop} {S : Nat → Bool}
    {step : σ → Nat → Notif α → σ × List (Notif β)} (hE : EmitOnly m cfg I S step)
    (evs : List (MEvent α)) (r : MSt σ α β)
    (hd : r.downOpen = true) (hb : r.booted = true) (hI : I r.st)
    (hS : ∀ k, S k = true → r.subs k ≠ 0)
    (hN : ∀ k, S k = false → r.subs k = 0 ∨ r.sopen k = false) :
    (feedAll m cfg r evs).out =
      r.out ++ gate (emitsFrom step r.st (Spec.gateEventsFrom (fun k => !r.sopen k) (Spec.restrict S evs))) ∧
    ((feedAll m cfg r evs).downOpen = false → ∀ k, S k = true → (feedAll m cfg r evs).sopen k = false) := by
  induction evs generalizing r with
  | nil => simp [feedAll, Spec.restrict, Spec.gateEventsFrom, emitsFrom, hd]
  | cons e es ih =>
    obtain ⟨k, n⟩ := e
    -- an arrival that only adds to the drop log
    have hdrop : ∀ (d : MDrop α β) , feed m cfg r (k, n) = { r with drops := r.drops ++ [d] } →
        ((feedAll m cfg r ((k, n) :: es)).out =
          r.out ++ gate (emitsFrom step r.st (Spec.gateEventsFrom (fun k => !r.sopen k) (Spec.restrict S es))) ∧
        ((feedAll m cfg r ((k, n) :: es)).downOpen = false → ∀ j, S j = true → (feedAll m cfg r ((k, n) :: es)).sopen j = false)) := by
      intro d hf
      have := ih ({ r with drops := r.drops ++ [d] }) hd hb hI hS hN
      simp only [feedAll, List.foldl_cons, hf] at this ⊢
      exact this
    by_cases hSk : S k = true
    · have hsub : r.subs k ≠ 0 := hS k hSk
      have hres : Spec.restrict S ((k, n) :: es) = (k, n) :: Spec.restrict S es := by
        simp [Spec.restrict, hSk]
      by_cases hop : r.sopen k = true
      · -- delivered to the callbacks
        let r0 : MSt σ α β := if n.isTerminal then r.closeSrc k else r
        have hr0st : r0.st = r.st := by simp only [r0]; split <;> rfl
        have hfeed : feed m cfg r (k, n) = emits m { r0 with st := (step r.st k n).1 } (step r.st k n).2 := by
          simp only [feed, hsub, if_false, deliver, hop, if_true, phasesAt_depth]
          have := hE.react (phasesAt m cfg cfg.n) r0 k n hSk (by rw [hr0st]; exact hI)
          rw [hr0st] at this
          exact this
        have hcl : (fun j => !r0.sopen j) = (if n.isTerminal then setAt (fun j => !r.sopen j) k true else (fun j => !r.sopen j)) := by
          funext j
          simp only [r0]
          split
          · simp only [closeSrc_sopen, setAt]; split <;> simp
          · rfl
        have hgate : Spec.gateEventsFrom (fun j => !r.sopen j) ((k, n) :: Spec.restrict S es) =
            (k, n) :: Spec.gateEventsFrom (fun j => !r0.sopen j) (Spec.restrict S es) := by
          rw [hcl]; simp [Spec.gateEventsFrom, hop]
        rw [hres, hgate]
        simp only [emitsFrom]
        have hr0d : r0.downOpen = true := by simp only [r0]; split <;> simpa using hd
        have hr0b : r0.booted = true := by simp only [r0]; split <;> simpa using hb
        have hr0out : r0.out = r.out := by simp only [r0]; split <;> rfl
        have hr0subs : r0.subs = r.subs := by simp only [r0]; split <;> rfl
        by_cases hl : hasTerm (step r.st k n).2 = true
        · have ht := emits_term m (step r.st k n).2 { r0 with st := (step r.st k n).1 } hr0d hr0b hl
          have hfz := feedAll_frozen m cfg es (feed m cfg r (k, n)) (by rw [hfeed]; exact ht.1)
          have hall : ∀ j, (feed m cfg r (k, n)).subs j = 0 ∨ (feed m cfg r (k, n)).sopen j = false := by
            intro j
            rw [hfeed, ht.2.2.1, ht.2.2.2.2 j]
            by_cases hSj : S j = true
            · right; simp [hE.teardown _ j (hE.inv _ k n hSk hI) hSj]
            · have hSj' : S j = false := by simpa using hSj
              cases hN j hSj' with
              | inl h0 => left; simpa [hr0subs] using h0
              | inr h0 =>
                right
                have : r0.sopen j = false := by
                  simp only [r0]; split
                  · simp [closeSrc_sopen, h0]
                  · exact h0
                simp [this]
          have hac := feedAll_allClosed m cfg es (feed m cfg r (k, n)) hall
          constructor
          · simp only [feedAll, List.foldl_cons] at hfz ⊢
            rw [hfz.2, hfeed, ht.2.1, gate_append_of_term _ _ hl]
            simp [hr0out]
          · intro _ j hSj
            simp only [feedAll, List.foldl_cons] at hac ⊢
            rw [hac.1, hfeed, ht.2.2.2.2 j]
            simp [hE.teardown _ j (hE.inv _ k n hSk hI) hSj]
        · have hl' : hasTerm (step r.st k n).2 = false := by simpa using hl
          have hnt := emits_noTerm m (step r.st k n).2 { r0 with st := (step r.st k n).1 } hr0d hl'
          have hN' : ∀ j, S j = false → r0.subs j = 0 ∨ r0.sopen j = false := by
            intro j hSj
            cases hN j hSj with
            | inl h0 => left; rw [hr0subs]; exact h0
            | inr h0 =>
              right
              simp only [r0]; split
              · simp [closeSrc_sopen, h0]
              · exact h0
          have := ih ({ r0 with st := (step r.st k n).1, out := r0.out ++ (step r.st k n).2 }) hr0d hr0b
            (hE.inv _ k n hSk hI) (by intro j hj; rw [hr0subs]; exact hS j hj) hN'
          simp only [feedAll, List.foldl_cons, hfeed, hnt] at this ⊢
          refine ⟨?_, this.2⟩
          rw [this.1, gate_append_of_noTerm _ _ hl', hr0out]
          simp
      · -- refused by the closed subscriber of source k
        have hop' : r.sopen k = false := by simpa using hop
        have hf : feed m cfg r (k, n) = { r with drops := r.drops ++ [.up k n] } := by
          simp [feed, hsub, deliver, hop']
        have := hdrop _ hf
        rw [hres]
        simpa [Spec.gateEventsFrom, hop'] using this
    · have hSk' : S k = false := by simpa using hSk
      have hres : Spec.restrict S ((k, n) :: es) = Spec.restrict S es := by
        simp [Spec.restrict, hSk']
      rw [hres]
      by_cases h0 : r.subs k = 0
      · have hf : feed m cfg r (k, n) = r := by simp [feed, h0]
        have := ih r hd hb hI hS hN
        simp only [feedAll, List.foldl_cons, hf] at this ⊢
        exact this
      · have hop' : r.sopen k = false := by
          cases hN k hSk' with
          | inl h1 => exact absurd h1 h0
          | inr h1 => exact h1
        have hf : feed m cfg r (k, n) = { r with drops := r.drops ++ [.up k n] } := by
          simp [feed, h0, deliver, hop']
        exact hdrop _ hf

/-- C01 for every multi-source machine and any mix of hot and synchronous sources: whatever arrives,
    the delivered trace obeys the grammar -/
theorem runMulti_grammar (m : MMachine σ α β) (cfg : Sources α) (sub : Ctx) (order : List Nat) :
    Grammar (runMulti m cfg sub order).out := by
  have hP := grammar_preserved m
  have h1 := phasesAt_preserves cfg hP (depth cfg) (m.boot sub) ({ st := m.init } : MSt σ α β) ⟨by simp [Grammar], fun _ => rfl⟩
  have h2 : (fun r : MSt σ α β => Grammar r.out ∧ (r.downOpen = true → hasTerm r.out = false)) (bootSt m cfg sub) := by
    unfold bootSt
    simp only
    split
    · exact h1
    · refine ⟨by simpa using h1.1, fun h => ?_⟩
      rename_i hd
      simp at h; exact absurd h hd
  exact (feedAll_preserves cfg hP _ _ h2).1

/-! ### arrival orders -/

theorem gateEventsFrom_congr (p : Nat → Bool) (evs : List (MEvent α)) (cl cl' : Nat → Bool)
    (h : ∀ k, p k = true → cl k = cl' k) :
    Spec.gateEventsFrom cl (Spec.restrict p evs) = Spec.gateEventsFrom cl' (Spec.restrict p evs) := by
  induction evs generalizing cl cl' with
  | nil => rfl
  | cons e es ih =>
    by_cases hp : p e.1 = true
    · have hres : Spec.restrict p (e :: es) = e :: Spec.restrict p es := by simp [Spec.restrict, hp]
      rw [hres]
      simp only [Spec.gateEventsFrom, ← h e.1 hp]
      split
      · exact ih cl cl' h
      · congr 1
        apply ih
        intro k hk
        split
        · simp only [setAt]; split
          · rfl
          · exact h k hk
        · exact h k hk
    · have hres : Spec.restrict p (e :: es) = Spec.restrict p es := by simp [Spec.restrict, hp]
      rw [hres]; exact ih cl cl' h

end Ro.Multi

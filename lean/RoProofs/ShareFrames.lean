/-
  RoProofs.ShareFrames — unconditional frame lemmas of RoModel.Share: which primitive can touch the
  downstream subscribers' records, the subscriber count and the nil-dereference counter.
-/
import RoProofs.ShareSub
namespace Ro.Share
attribute [local simp] St.modGen St.modSub St.drop

/-- `f` touches neither the downstream subscribers nor the counters -/
structure GensOnly (s s' : St) : Prop where
  subs : s'.subs = s.subs
  nsubs : s'.nsubs = s.nsubs
  panics : s'.panics = s.panics
  ngens : s'.ngens = s.ngens
  drops : s'.drops = s.drops

theorem GensOnly.refl (s : St) : GensOnly s s := ⟨rfl, rfl, rfl, rfl, rfl⟩
theorem GensOnly.trans {a b c : St} (h1 : GensOnly a b) (h2 : GensOnly b c) : GensOnly a c :=
  ⟨h2.subs.trans h1.subs, h2.nsubs.trans h1.nsubs, h2.panics.trans h1.panics, h2.ngens.trans h1.ngens, h2.drops.trans h1.drops⟩

theorem pSubnUnsub_go (g : Nat) (s : St) : GensOnly s (pSubnUnsub g s) := by
  unfold pSubnUnsub; split
  · exact GensOnly.refl s
  · split <;> exact ⟨rfl, rfl, rfl, rfl, rfl⟩

theorem pUnsubscribe_go (g : Nat) (s : St) : GensOnly s (pUnsubscribe g s) := by
  unfold pUnsubscribe; split
  · have h1 : GensOnly s (s.modGen g fun x => { x with pStatus := 2 }) := ⟨rfl, rfl, rfl, rfl, rfl⟩
    exact h1.trans (pSubnUnsub_go g _)
  · exact GensOnly.refl s

theorem foldl_go {α : Type} (f : St → α → St) (hf : ∀ s a, GensOnly s (f s a)) (l : List α) (s : St) :
    GensOnly s (l.foldl f s) := by
  induction l generalizing s with
  | nil => exact GensOnly.refl s
  | cons a l ih => exact (hf s a).trans (ih (f s a))

theorem ssUnsub_go (g : Nat) (s : St) : GensOnly s (ssUnsub g s) := by
  unfold ssUnsub; split
  · exact GensOnly.refl s
  · have h1 : GensOnly s (s.modGen g fun x => { x with ssDone := true, ssFins := [] }) := ⟨rfl, rfl, rfl, rfl, rfl⟩
    exact h1.trans (foldl_go _ (fun s p => pUnsubscribe_go p s) _ _)

theorem reset_go (g : Nat) (s : St) : GensOnly s (reset g s) := by
  unfold reset clearShared
  exact (ssUnsub_go g s).trans ⟨rfl, rfl, rfl, rfl, rfl⟩

theorem zeroReset_go (fl : Flags) (g : Nat) (s : St) : GensOnly s (zeroReset fl g s) := by
  unfold zeroReset; split
  · exact reset_go g s
  · exact GensOnly.refl s

/-- `f` touches at most the record of downstream subscriber `i`, whose trace can only grow by
    what `f` delivers; counters stay -/
structure Only (i : Nat) (s s' : St) : Prop where
  other : ∀ k, k ≠ i → s'.subs k = s.subs k
  nsubs : s'.nsubs = s.nsubs
  panics : s'.panics = s.panics
  ngens : s'.ngens = s.ngens

theorem Only.refl (i : Nat) (s : St) : Only i s s := ⟨fun _ _ => rfl, rfl, rfl, rfl⟩
theorem Only.trans {i : Nat} {a b c : St} (h1 : Only i a b) (h2 : Only i b c) : Only i a c :=
  ⟨fun k hk => (h2.other k hk).trans (h1.other k hk), h2.nsubs.trans h1.nsubs, h2.panics.trans h1.panics, h2.ngens.trans h1.ngens⟩
theorem GensOnly.only {s s' : St} (h : GensOnly s s') (i : Nat) : Only i s s' :=
  ⟨fun k _ => by rw [h.subs], h.nsubs, h.panics, h.ngens⟩

theorem casClose_only (i : Nat) (s : St) : Only i s (casClose i s) := by
  unfold casClose; split
  · exact ⟨fun k hk => by simp [hk], rfl, rfl, rfl⟩
  · exact Only.refl i s

theorem teardownT_only (fl : Flags) (i g : Nat) (s : St) : Only i s (teardownT fl i g s) := by
  unfold teardownT
  have h1 : Only i (casClose i s) (decRef (casClose i s)) := ⟨fun _ _ => rfl, rfl, rfl, rfl⟩
  exact ((casClose_only i s).trans h1).trans ((zeroReset_go fl g _).only i)

theorem dSubnUnsub_only (fl : Flags) (i : Nat) (s : St) : Only i s (dSubnUnsub fl i s) := by
  unfold dSubnUnsub; split
  · exact Only.refl i s
  · have h1 : Only i s (s.modSub i fun d => { d with done := true, delFin := none, tearFin := none }) :=
      ⟨fun k hk => by simp [hk], rfl, rfl, rfl⟩
    have h2 : ∀ (o : Option Nat) (u : St), Only i u (runDel i o u) := by
      intro o u; cases o <;> exact ⟨fun _ _ => rfl, rfl, rfl, rfl⟩
    have h3 : ∀ (o : Option Nat) (u : St), Only i u (runTear fl i o u) := by
      intro o u; cases o
      · exact Only.refl i u
      · exact teardownT_only fl i _ u
    exact (h1.trans (h2 _ _)).trans (h3 _ _)

theorem dUnsubscribe_only (fl : Flags) (i : Nat) (s : St) : Only i s (dUnsubscribe fl i s) := by
  unfold dUnsubscribe; split
  · have h1 : Only i s (s.modSub i fun d => { d with status := 2 }) := ⟨fun k hk => by simp [hk], rfl, rfl, rfl⟩
    exact h1.trans (dSubnUnsub_only fl i _)
  · exact Only.refl i s

theorem dNext_only (i : Nat) (v : Int) (s : St) : Only i s (dNext i v s) := by
  unfold dNext; split
  · exact ⟨fun k hk => by simp [hk], rfl, rfl, rfl⟩
  · exact ⟨fun _ _ => rfl, rfl, rfl, rfl⟩

theorem dDeliver_only (i : Nat) (t : Ev) (s : St) : Only i s (dDeliver i t s) := by
  unfold dDeliver; split
  · exact ⟨fun k hk => by simp [hk], rfl, rfl, rfl⟩
  · exact ⟨fun _ _ => rfl, rfl, rfl, rfl⟩

theorem dTerm_only (fl : Flags) (i : Nat) (t : Ev) (s : St) : Only i s (dTerm fl i t s) :=
  (dDeliver_only i t s).trans (dSubnUnsub_only fl i _)

/-- what `dNext i v` does to subscriber `i` itself -/
theorem dNext_self (i : Nat) (v : Int) (s : St) :
    ((dNext i v s).subs i).trace = (if (s.subs i).status = 0 then (s.subs i).trace ++ [.next v] else (s.subs i).trace) ∧
    ((dNext i v s).subs i).status = (s.subs i).status := by
  unfold dNext; split <;> simp_all

/-- traces are never shortened or rewritten by the bookkeeping of a subscriber's end -/
theorem dSubnUnsub_trace (fl : Flags) (i : Nat) (s : St) (k : Nat) :
    ((dSubnUnsub fl i s).subs k).trace = (s.subs k).trace := by
  by_cases hk : k = i
  · subst hk
    unfold dSubnUnsub; split
    · rfl
    · have h3 : ∀ (o : Option Nat) (u : St), ((runTear fl k o u).subs k).trace = (u.subs k).trace := by
        intro o u; cases o
        · rfl
        · simp only [runTear, teardownT]
          rw [(zeroReset_go fl _ _).subs]
          simp [decRef, casClose]; split <;> simp
      have h2 : ∀ (o : Option Nat) (u : St), ((runDel k o u).subs k).trace = (u.subs k).trace := by
        intro o u; cases o <;> rfl
      rw [h3, h2]; simp
  · rw [(dSubnUnsub_only fl i s).other k hk]

theorem dSubnUnsub_status (fl : Flags) (i : Nat) (s : St) (hs : (s.subs i).status ≠ 0) :
    ((dSubnUnsub fl i s).subs i).status = (s.subs i).status := by
  unfold dSubnUnsub; split
  · rfl
  · have h3 : ∀ (o : Option Nat) (u : St), (u.subs i).status ≠ 0 → ((runTear fl i o u).subs i).status = (u.subs i).status := by
      intro o u hu; cases o
      · rfl
      · simp only [runTear, teardownT]
        rw [(zeroReset_go fl _ _).subs]
        simp [decRef, casClose, hu]
    have h2 : ∀ (o : Option Nat) (u : St), ((runDel i o u).subs i) = (u.subs i) := by
      intro o u; cases o <;> rfl
    rw [h3 _ _ (by rw [h2]; simpa using hs), h2]; simp

/-- what `dTerm i t` does to subscriber `i` itself -/
theorem dTerm_self (fl : Flags) (i : Nat) (t : Ev) (ht : t.isTerminal = true) (s : St) :
    ((dTerm fl i t s).subs i).trace = (if (s.subs i).status = 0 then (s.subs i).trace ++ [t] else (s.subs i).trace) ∧
    ((dTerm fl i t s).subs i).status ≠ 0 := by
  have hc : t.code ≠ 0 := by cases t <;> simp [Ev.code, Ev.isTerminal] at *
  unfold dTerm
  rw [dSubnUnsub_trace]
  by_cases hs : (s.subs i).status = 0
  · have h1 : ((dDeliver i t s).subs i).status = t.code := by simp [dDeliver, hs]
    refine ⟨by simp [dDeliver, hs], ?_⟩
    rw [dSubnUnsub_status fl i _ (by rw [h1]; exact hc), h1]; exact hc
  · have h1 : ((dDeliver i t s).subs i).status = (s.subs i).status := by simp [dDeliver, hs]
    refine ⟨by simp [dDeliver, hs], ?_⟩
    rw [dSubnUnsub_status fl i _ (by rw [h1]; exact hs), h1]; exact hs

/-! ### the subjects' own state is not touched by the subscription bookkeeping -/

def SubjKeep (s s' : St) : Prop := ∀ k, (s'.gens k).subj = (s.gens k).subj

theorem SubjKeep.refl (s : St) : SubjKeep s s := fun _ => rfl
theorem SubjKeep.trans {a b c : St} (h1 : SubjKeep a b) (h2 : SubjKeep b c) : SubjKeep a c :=
  fun k => (h2 k).trans (h1 k)

theorem pSubnUnsub_sk (g : Nat) (s : St) : SubjKeep s (pSubnUnsub g s) := by
  intro k; unfold pSubnUnsub; split
  · rfl
  · split <;> simp <;> split <;> simp_all

theorem pUnsubscribe_sk (g : Nat) (s : St) : SubjKeep s (pUnsubscribe g s) := by
  unfold pUnsubscribe; split
  · have h1 : SubjKeep s (s.modGen g fun x => { x with pStatus := 2 }) := by
      intro k; simp; split <;> simp_all
    exact h1.trans (pSubnUnsub_sk g _)
  · exact SubjKeep.refl s

theorem foldl_sk {α : Type} (f : St → α → St) (hf : ∀ s a, SubjKeep s (f s a)) (l : List α) (s : St) :
    SubjKeep s (l.foldl f s) := by
  induction l generalizing s with
  | nil => exact SubjKeep.refl s
  | cons a l ih => exact (hf s a).trans (ih (f s a))

theorem ssUnsub_sk (g : Nat) (s : St) : SubjKeep s (ssUnsub g s) := by
  unfold ssUnsub; split
  · exact SubjKeep.refl s
  · have h1 : SubjKeep s (s.modGen g fun x => { x with ssDone := true, ssFins := [] }) := by
      intro k; simp; split <;> simp_all
    exact h1.trans (foldl_sk _ (fun s p => pUnsubscribe_sk p s) _ _)

theorem reset_sk (g : Nat) (s : St) : SubjKeep s (reset g s) := by
  intro k
  unfold reset clearShared
  exact ssUnsub_sk g s k

theorem pDecide_sk (fl : Flags) (g : Nat) (t : Ev) (s : St) : SubjKeep s (pDecide fl g t s) := by
  unfold pDecide
  cases t <;> simp only [] <;> split <;> first | exact reset_sk g s | exact SubjKeep.refl _

theorem pDecide_go (fl : Flags) (g : Nat) (t : Ev) (s : St) : GensOnly s (pDecide fl g t s) := by
  unfold pDecide
  cases t <;> simp only [] <;> split <;> first | exact reset_go g s | exact ⟨rfl, rfl, rfl, rfl, rfl⟩


end Ro.Share

/-
  RoProofs.Script — from raw scripts to (values, ending), and the reduction every per-operator
  theorem uses:  out (runOp m …raw…) = gate (subscribe-time emissions ++ emissions over the values ++ reaction to the ending).
-/
import RoProofs.Gate
namespace Ro
variable {σ α β : Type}

/-- the legal script with these values and this ending -/
def legal (vs : List (Ctx × α)) (e : Ending) : List (Notif α) :=
  vs.map (fun p => Notif.next p.1 p.2) ++ e.toList

theorem gate_eq_legal (raw : List (Notif α)) : gate raw = legal (values raw) (ending raw) :=
  gate_eq_values_ending raw

theorem emits_append (m : Machine σ α β) (s : σ) (a b : List (Notif α)) :
    m.emits s (a ++ b) = m.emits s a ++ m.emits (m.after s a) b := by
  induction a generalizing s with
  | nil => rfl
  | cons x xs ih => simp [Machine.emits, Machine.after, ih, List.append_assoc]

/-- emissions over a list of values -/
def Machine.emitsV (m : Machine σ α β) : σ → List (Ctx × α) → List (Notif β)
  | _, [] => []
  | s, (c, v) :: vs => (m.onNext s c v).2 ++ m.emitsV (m.onNext s c v).1 vs

def Machine.afterV (m : Machine σ α β) : σ → List (Ctx × α) → σ
  | s, [] => s
  | s, (c, v) :: vs => m.afterV (m.onNext s c v).1 vs

/-- reaction to the ending -/
def Machine.emitsE (m : Machine σ α β) (s : σ) : Ending → List (Notif β)
  | .never => []
  | .error c e => (m.onError s c e).2
  | .complete c => (m.onComplete s c).2

theorem emits_values (m : Machine σ α β) (s : σ) (vs : List (Ctx × α)) :
    m.emits s (vs.map (fun p => Notif.next p.1 p.2)) = m.emitsV s vs ∧
    m.after s (vs.map (fun p => Notif.next p.1 p.2)) = m.afterV s vs := by
  induction vs generalizing s with
  | nil => exact ⟨rfl, rfl⟩
  | cons p ps ih =>
    obtain ⟨c, v⟩ := p
    simp [Machine.emits, Machine.after, Machine.emitsV, Machine.afterV, Machine.step, ih]

theorem emits_ending (m : Machine σ α β) (s : σ) (e : Ending) :
    m.emits s (e.toList) = m.emitsE s e := by
  cases e <;> simp [Ending.toList, Machine.emits, Machine.emitsE, Machine.step]

theorem emits_legal (m : Machine σ α β) (s : σ) (vs : List (Ctx × α)) (e : Ending) :
    m.emits s (legal vs e) = m.emitsV s vs ++ m.emitsE (m.afterV s vs) e := by
  unfold legal
  rw [emits_append, (emits_values m s vs).1, (emits_values m s vs).2, emits_ending]

/-- **Reduction used by every operator theorem**: for a machine that makes no subscribe-time
    emissions, the delivered trace is the gate of its reactions to the values and the ending of
    the raw script — whatever illegal suffix the raw script has, and in both source modes. -/
theorem runOp_out_plain (m : Machine σ α β) (mode : SrcMode) (sub : Ctx) (raw : List (Notif α))
    (hs : m.subscribes = true) (h0 : ∀ s c, m.onSubscribe s c = (s, [])) :
    (runOp m mode sub raw).out =
      gate (m.emitsV m.init (values raw) ++ m.emitsE (m.afterV m.init (values raw)) (ending raw)) := by
  rw [runOp_out m mode sub raw hs, h0, gate_eq_legal raw, emits_legal]
  simp

/-- forwarding of the ending by the default reactions `fwdE` / `fwdC` -/
theorem emitsE_fwd (m : Machine σ α β) (s : σ) (e : Ending)
    (hE : ∀ s c e, m.onError s c e = fwdE s c e) (hC : ∀ s c, m.onComplete s c = fwdC s c) :
    m.emitsE s e = e.toList := by
  cases e <;> simp [Machine.emitsE, Ending.toList, hE, hC, fwdE, fwdC]

theorem hasTerm_map_next (vs : List (Ctx × α)) :
    hasTerm (vs.map (fun p => Notif.next p.1 p.2)) = false := by
  induction vs with
  | nil => rfl
  | cons p ps ih => simp [ih]

theorem gate_values_ending (l : List (Notif α)) (e : Ending) (h : hasTerm l = false) :
    gate (l ++ e.toList) = l ++ e.toList := by
  rw [gate_append_of_noTerm _ _ h]
  cases e <;> simp [Ending.toList, gate]

end Ro

/-
  RoProofs.ChanShape — the tie (F) between the source text of the three channel bridges and the
  transition systems of RoModel/Chan.lean.

`go/extract` (chanshape.go) translates the subscribe closures of ToChannel, detachOn and FromChannel
into a normalised statement string (locals numbered by first declaration; types, comments and
`verif*` hook calls erased). The transition systems of RoModel/Chan.lean are these statements:
  * ToChannel — `stepProd`: `send` then (terminal) `stop` = `v7()` = `once.Do(close)` then
    `complete` = `v4.CompleteWithContext`; the goroutine sleeps then subscribes and only then
    registers the subscription (`AddUnsubscribable(SubscribeWithContext(…))` — `Cfg.hot = false`);
    `stepCtl`: `handout` = `v4.NextWithContext(subscriberCtx, ch)` (context.TODO() before fix commit cb2e183) after the `go` statement,
    teardown `defer v7(); v8.Unsubscribe()` (fix commit 694a874): `td1` = `v8.Unsubscribe()`, then
    `td2` = the deferred `v7()`, which runs whether `td1` returns or panics (`Cfg.upPanic`).
  * detachOn — the same producer without `complete`; consumer `range(ch){process…}` = `stepCons`
    `recv`/`hold`; teardown `defer v9(); v10.Unsubscribe()` = `td1` then the deferred `td2`.
    (since /repo 2d51ab1 the goroutine body of ToChannel runs under `recoverUnhandledError`: a teardown panic
    re-raised on it goes to the unhandled hook — the model's `escaped` stays empty, as for detachOn.)
  * FromChannel — `for { select { case item, ok := <-in … ; case <-done: return } }` = `fstepCons`
    / `fstepQuit`; teardown `close(done)` = `closeDone`.
A change of order or kind of these statements makes this `rfl` fail at `lake build` even when
no run shows a difference (reported with `no-failing-input-found` unless the runs find one). -/
import RoGen.ChanShape
namespace Ro.Chan

def expectedShapes : List (String × String) := [
  ("ToChannel",
   "v5:=make(type,v1);v6:=lit;v7:=func{v6.Do(func{close(v5)})};v8:=NewSubscription(nil);go recoverUnhandledError(func{time.Sleep((1*time.Millisecond));v8.AddUnsubscribable(v2.SubscribeWithContext(v3,NewObserverWithContext(func{send(v5,NewNotificationNext(v10))},func{send(v5,NewNotificationError(v11));v7();v4.CompleteWithContext(v9)},func{send(v5,NewNotificationComplete());v7();v4.CompleteWithContext(v9)})))});v4.NextWithContext(v3,v5);return(func{defer v7();v8.Unsubscribe()})"),
  ("detachOn",
   "v7:=make(type,v1);v8:=lit;v9:=func{v8.Do(func{close(v7)})};v10:=NewSubscription(nil);v14:=func{v10.AddUnsubscribable(v4.SubscribeWithContext(v5,NewObserverWithContext(func{send(v7,lo.T2(v11,NewNotificationNext(v12)))},func{send(v7,lo.T2(v11,NewNotificationError(v13)));v9()},func{send(v7,lo.T2(v11,NewNotificationComplete()));v9()})))};v16:=func{range(v7){processNotificationWithContext(v15.A,v15.B,v6.NextWithContext,v6.ErrorWithContext,v6.CompleteWithContext)}};switch(){case(v2):{go recoverUnhandledError(func{v14()});v16()};case(v3):{go recoverUnhandledError(func{v16()});v14()};default:{panic(ErrDetachOnWrongMode)}};return(func{defer v9();v10.Unsubscribe()})"),
  ("FromChannel",
   "v4:=make(type);go recoverUnhandledError(func{for(;;){select{case v5,v6:=recv(v1):{if(!v6){v3.CompleteWithContext(v2);return()};v3.NextWithContext(v2,v5)};case recv(v4):{return()}}}});return(func{close(v4)})")
]

/-- checked afresh on every run against the table regenerated from the tree under check -/
theorem chan_shapes_ok : RoGen.ChanShape.table = expectedShapes := by rfl

end Ro.Chan

/-
  RoProofs.PromCounters — the counters of the instrumentation are functions of the trace.

  * `tally_run`: in every configuration at the end of a run, every stage whose counters are
    `Sound` shows `tally state = spec (accepted notifications) (runs of its subscribe function)`.
    All counting / timing operators of the plugin are `Sound`.
  * `out_eq_lastSeen`: what the user's observer is delivered is exactly what the gate of the last
    stage (`observeAfterPipe`) let through — so notifications-out counts delivered values.
  * `head_seen_sync` / `head_seen_hot`: what the first stage (`observeBeforePipe`) accepted is the
    gated raw script of the source (a prefix of it when teardowns are registered) — so
    notifications-in counts the values the source emitted while subscribed.
  * `subds_run`: the subscribe function of a stage runs once per subscription iff every stage
    after it subscribes to its upstream; the last stage's always runs — one subscription counted
    per `Subscribe`.
-/
import RoProofs.PromChain
namespace Ro.Prom
open Ro

variable {α : Type}

/-! ### counting -/

theorem countNext_append (a b : List (Notif α)) : countNext (a ++ b) = countNext a + countNext b := by
  induction a with
  | nil => simp [countNext]
  | cons x xs ih => cases x <;> simp [countNext, ih] <;> omega

theorem countError_append (a b : List (Notif α)) : countError (a ++ b) = countError a + countError b := by
  induction a with
  | nil => simp [countError]
  | cons x xs ih => cases x <;> simp [countError, ih] <;> omega

theorem countComplete_append (a b : List (Notif α)) : countComplete (a ++ b) = countComplete a + countComplete b := by
  induction a with
  | nil => simp [countComplete]
  | cons x xs ih => cases x <;> simp [countComplete, ih] <;> omega

theorem countNonNilNext_append (a b : List (Notif α)) :
    countNonNilNext (a ++ b) = countNonNilNext a + countNonNilNext b := by
  induction a with
  | nil => simp [countNonNilNext]
  | cons x xs ih => cases x <;> simp [countNonNilNext, ih] <;> omega

theorem countStampedNext_append (a b : List (Notif α)) :
    countStampedNext (a ++ b) = countStampedNext a + countStampedNext b := by
  induction a with
  | nil => simp [countStampedNext]
  | cons x xs ih => cases x <;> simp [countStampedNext, ih] <;> omega

/-! ### sound counters -/

/-- the counters of a stage follow their specification -/
structure Sound (a : AnyM α) : Prop where
  init : a.tally a.m.init = a.spec [] 0
  sub : ∀ s l k c, a.tally s = a.spec l k → a.tally (a.m.onSubscribe s c).1 = a.spec l (k + 1)
  step : ∀ s l k n, a.tally s = a.spec l k → a.tally (a.m.step s n).1 = a.spec (l ++ [n]) k

def TallyInv (a : AnyM α) (s : a.σ) (l : List (Notif α)) (k : Nat) : Prop :=
  Sound a → a.tally s = a.spec l k

theorem tallyInv_local : LocalInv (TallyInv (α := α)) where
  init := fun _ hs => hs.init
  sub := fun _ s l k c h hs => hs.sub s l k c (h hs)
  step := fun _ s l k n h hs => hs.step s l k n (h hs)

/-- every stage, every run: sound counters equal their specification -/
theorem tally_run (hot : Bool) (sub : Ctx) (ms : List (AnyM α)) (raw : List (Notif α)) (cut : Option Nat) :
    AllInv TallyInv ms (run hot sub ms raw cut).cfg :=
  allInv_run tallyInv_local hot sub ms raw cut

theorem sound_of {σ : Type} (m : Machine σ α α) : Sound (AnyM.of m) :=
  ⟨rfl, fun _ _ _ _ _ => rfl, fun _ _ _ _ _ => rfl⟩

theorem sound_off : Sound (AnyM.off (α := α)) :=
  ⟨rfl, fun _ _ _ _ _ => rfl, fun _ _ _ _ _ => rfl⟩

theorem sound_before : Sound (AnyM.before (α := α)) where
  init := rfl
  sub := fun _ _ _ _ h => h
  step := by
    intro s l k n h
    simp only [AnyM.before, List.cons.injEq, and_true] at h ⊢
    cases n with
    | next c v =>
      simp only [Machine.step, beforeM, countNext_append, countNonNilNext_append, countNext, countNonNilNext]
      cases hc : c.isNil <;> simp [h.1, h.2]
    | error c e => simp [Machine.step, beforeM, fwdE, countNext_append, countNonNilNext_append, countNext, countNonNilNext, h.1, h.2]
    | complete c => simp [Machine.step, beforeM, fwdC, countNext_append, countNonNilNext_append, countNext, countNonNilNext, h.1, h.2]

theorem sound_proc : Sound (AnyM.proc (α := α)) where
  init := rfl
  sub := fun _ _ _ _ h => h
  step := by
    intro s l k n h
    have h' : s = countStampedNext l := by injection h
    simp only [AnyM.proc, List.cons.injEq, and_true]
    cases n with
    | next c v =>
      simp only [Machine.step, procM, countStampedNext_append, countStampedNext]
      cases hc : c.isNil <;> cases hst : stamped c <;> simp [h']
    | error c e => simp [Machine.step, procM, fwdE, countStampedNext_append, countStampedNext, h']
    | complete c => simp [Machine.step, procM, fwdC, countStampedNext_append, countStampedNext, h']

theorem sound_after : Sound (AnyM.after (α := α)) where
  init := rfl
  sub := by
    intro s l k c h
    simp only [AnyM.after, List.cons.injEq, and_true] at h ⊢
    simp [afterM, h.1, h.2]
  step := by
    intro s l k n h
    simp only [AnyM.after, List.cons.injEq, and_true] at h ⊢
    cases n <;> simp [Machine.step, afterM, fwdE, fwdC, countNext_append, countNext, h.1, h.2]

theorem sound_cntNext : Sound (AnyM.cntNext (α := α)) where
  init := rfl
  sub := fun _ _ _ _ h => h
  step := by
    intro s l k n h
    have h' : s = countNext l := by injection h
    simp only [AnyM.cntNext, List.cons.injEq, and_true]
    cases n <;> simp [Machine.step, cntNextM, fwdE, fwdC, countNext_append, countNext, h']

theorem sound_cntError : Sound (AnyM.cntError (α := α)) where
  init := rfl
  sub := fun _ _ _ _ h => h
  step := by
    intro s l k n h
    have h' : s = countError l := by injection h
    simp only [AnyM.cntError, List.cons.injEq, and_true]
    cases n <;> simp [Machine.step, cntErrorM, fwdC, countError_append, countError, h']

theorem sound_cntComplete : Sound (AnyM.cntComplete (α := α)) where
  init := rfl
  sub := fun _ _ _ _ h => h
  step := by
    intro s l k n h
    have h' : s = countComplete l := by injection h
    simp only [AnyM.cntComplete, List.cons.injEq, and_true]
    cases n <;> simp [Machine.step, cntCompleteM, fwdE, countComplete_append, countComplete, h']

theorem sound_lag : Sound (AnyM.lag (α := α)) where
  init := rfl
  sub := fun _ _ _ _ h => h
  step := by
    intro s l k n h
    have h' : s = countNext l := by injection h
    simp only [AnyM.lag, List.cons.injEq, and_true]
    cases n <;> simp [Machine.step, lagM, fwdE, fwdC, countNext_append, countNext, h']

theorem sound_cntSub : Sound (AnyM.cntSub (α := α)) where
  init := rfl
  sub := by
    intro s l k c h
    have h' : s = k := by injection h
    simp only [AnyM.cntSub, List.cons.injEq, and_true]
    simp [cntSubM, h']
  step := by
    intro s l k n h
    have h' : s = k := by injection h
    simp only [AnyM.cntSub, List.cons.injEq, and_true]
    cases n <;> simp [Machine.step, cntSubM, fwdE, fwdC, h']

/-! ### delivered = what the last stage's gate let through -/

/-- the chain ends with `observeAfterPipe` -/
def EndsAfter : List (AnyM α) → Prop
  | [] => False
  | [a] => a = AnyM.after
  | _ :: b :: rest => EndsAfter (b :: rest)

/-- the gate of the last stage and the gate of the final subscriber are equal -/
def AG : (ms : List (AnyM α)) → Cfg ms → Prop
  | [], _ => True
  | [_], c => c.1.gate = SinkSt.gate c.2
  | _ :: b :: rest, c => AG (b :: rest) c.2

theorem feedAll_last {C : Type} (f : C → Notif α → C × List (Notif α)) (L : C → List (Notif α)) (P : C → Prop)
    (h : ∀ c n, P c → L (f c n).1 = L c ++ (f c n).2 ∧ P (f c n).1) (c : C) (ns : List (Notif α)) (hc : P c) :
    L (feedAll f c ns).1 = L c ++ (feedAll f c ns).2 ∧ P (feedAll f c ns).1 := by
  induction ns generalizing c with
  | nil => simp [hc]
  | cons x xs ih =>
    rw [feedAll_cons]
    have h1 := h c x hc
    have h2 := ih _ h1.2
    exact ⟨by rw [h2.1, h1.1, List.append_assoc], h2.2⟩

theorem after_step (s : (AnyM.after (α := α)).σ) (n : Notif α) : ((AnyM.after (α := α)).m.step s n).2 = [n] := by
  cases n <;> rfl

theorem push_last (hot : Bool) (ms : List (AnyM α)) (he : EndsAfter ms) (c : Cfg ms) (n : Notif α) (hc : AG ms c) :
    lastSeen ms (push hot ms c n).1 = lastSeen ms c ++ (push hot ms c n).2 ∧ AG ms (push hot ms c n).1 := by
  induction ms generalizing n with
  | nil => exact absurd he (by simp [EndsAfter])
  | cons a rest ih =>
    cases rest with
    | nil =>
      have ha : a = AnyM.after := he
      subst ha
      have hg : c.1.gate = SinkSt.gate c.2 := hc
      cases hgate : c.1.gate
      · have : headOpen [AnyM.after] c = false := hgate
        rw [push_closed hot _ c n this]
        exact ⟨by simp, hc⟩
      · have hs : SinkSt.gate c.2 = true := by rw [← hg, hgate]
        rw [push_cons_open hot _ _ c n hgate, after_step, feedAll_cons, feedAll_nil, push_sink_open hot c.2 n hs]
        refine ⟨by simp [lastSeen], ?_⟩
        show (!n.isTerminal && !(hot && !(!n.isTerminal))) = !n.isTerminal
        cases n.isTerminal <;> simp
    | cons b rest' =>
      have he' : EndsAfter (b :: rest') := he
      have hc' : AG (b :: rest') c.2 := hc
      cases hgate : c.1.gate
      · have : headOpen (a :: b :: rest') c = false := hgate
        rw [push_closed hot _ c n this]
        exact ⟨by simp, hc⟩
      · rw [push_cons_open hot _ _ c n hgate]
        exact feedAll_last _ (lastSeen (b :: rest')) (AG (b :: rest'))
          (fun c' n' h' => ih he' c' n' h') c.2 _ hc'

theorem feedAll_push_last (hot : Bool) (ms : List (AnyM α)) (he : EndsAfter ms) (c : Cfg ms) (ns : List (Notif α))
    (hc : AG ms c) :
    lastSeen ms (feedAll (push hot ms) c ns).1 = lastSeen ms c ++ (feedAll (push hot ms) c ns).2 ∧
    AG ms (feedAll (push hot ms) c ns).1 :=
  feedAll_last _ (lastSeen ms) (AG ms) (fun c' n' h' => push_last hot ms he c' n' h') c ns hc

theorem subscribePhase_last (sub : Ctx) (ms : List (AnyM α)) (he : EndsAfter ms) (c : Cfg ms) (hc : AG ms c) :
    lastSeen ms (subscribePhase sub ms c).cfg = lastSeen ms c ++ (subscribePhase sub ms c).out ∧
    AG ms (subscribePhase sub ms c).cfg := by
  induction ms with
  | nil => exact absurd he (by simp [EndsAfter])
  | cons a rest ih =>
    cases rest with
    | nil =>
      have ha : a = AnyM.after := he
      subst ha
      rw [subscribePhase_cons_reached sub _ _ c rfl]
      exact ⟨by simp [lastSeen, subscribePhase, AnyM.after, afterM], hc⟩
    | cons b rest' =>
      have he' : EndsAfter (b :: rest') := he
      have hb := ih he' c.2 hc
      cases hr : (subscribePhase sub (b :: rest') c.2).reached
      · rw [subscribePhase_cons_unreached sub _ _ c hr]; exact hb
      · rw [subscribePhase_cons_reached sub _ _ c hr]
        have hf := feedAll_push_last false (b :: rest') he' _ (a.m.onSubscribe c.1.st sub).2 hb.2
        exact ⟨by show lastSeen (b :: rest') _ = _; rw [hf.1, hb.1, List.append_assoc]; rfl, hf.2⟩

theorem settle_last (ms : List (AnyM α)) (c : Cfg ms) (hc : AG ms c) :
    lastSeen ms (settle ms c) = lastSeen ms c ∧ AG ms (settle ms c) := by
  induction ms with
  | nil => exact ⟨rfl, trivial⟩
  | cons a rest ih =>
    cases rest with
    | nil =>
      have hg : c.1.gate = SinkSt.gate c.2 := hc
      refine ⟨rfl, ?_⟩
      show (c.1.gate && SinkSt.gate c.2) = SinkSt.gate c.2
      rw [hg]; simp
    | cons b rest' => exact ih c.2 hc

theorem closeAll_last (ms : List (AnyM α)) (c : Cfg ms) :
    lastSeen ms (closeAll ms c) = lastSeen ms c ∧ AG ms (closeAll ms c) := by
  induction ms with
  | nil => exact ⟨rfl, trivial⟩
  | cons a rest ih =>
    cases rest with
    | nil => exact ⟨rfl, rfl⟩
    | cons b rest' => exact ih c.2

theorem init_last (ms : List (AnyM α)) : lastSeen ms (initCfg ms) = [] ∧ AG ms (initCfg ms) := by
  induction ms with
  | nil => exact ⟨rfl, trivial⟩
  | cons a rest ih =>
    cases rest with
    | nil => exact ⟨rfl, rfl⟩
    | cons b rest' => exact ih

/-- for a chain that ends with `observeAfterPipe`: the user's observer is delivered exactly what
    that operator's gate let through (every source mode, script and cut) -/
theorem out_eq_lastSeen (hot : Bool) (sub : Ctx) (ms : List (AnyM α)) (he : EndsAfter ms)
    (raw : List (Notif α)) (cut : Option Nat) :
    (run hot sub ms raw cut).out = lastSeen ms (run hot sub ms raw cut).cfg := by
  have hi := init_last ms
  have h0 := subscribePhase_last sub ms he (initCfg ms) hi.2
  rw [hi.1, List.nil_append] at h0
  cases hr : (subscribePhase sub ms (initCfg ms)).reached
  · rw [run_unreached hot sub ms raw cut hr]; exact h0.1.symm
  · cases hot
    · rw [run_sync sub ms raw cut hr]
      have hf := feedAll_push_last false ms he _ raw h0.2
      simp only [(settle_last ms _ hf.2).1, hf.1, h0.1]
    · have hs := settle_last ms _ h0.2
      cases cut with
      | none =>
        rw [run_hot_none sub ms raw hr]
        have hf := feedAll_push_last true ms he _ raw hs.2
        simp only [hf.1, hs.1, h0.1]
      | some k =>
        rw [run_hot_some sub ms raw k hr]
        have hf1 := feedAll_push_last true ms he _ (raw.take k) hs.2
        have hcl := closeAll_last ms (feedAll (push true ms) (settle ms (subscribePhase sub ms (initCfg ms)).cfg) (raw.take k)).1
        have hf2 := feedAll_push_last true ms he _ (raw.drop k) hcl.2
        simp only [hf2.1, hcl.1, hf1.1, hs.1, h0.1]

theorem endsAfter_tailI (ms : List (AnyM α)) : EndsAfter (tailI ms) := by
  induction ms with
  | nil => rfl
  | cons a rest ih =>
    cases rest with
    | nil => exact ih
    | cons b rest' => exact ih

theorem endsAfter_instrument (ms : List (AnyM α)) : EndsAfter (instrument ms) := by
  have := endsAfter_tailI ms
  cases ms with
  | nil => exact this
  | cons a rest => exact this

/-! ### what the first stage accepted -/

theorem subscribePhase_head (sub : Ctx) (a : AnyM α) (rest : List (AnyM α)) (c : Cfg (a :: rest)) :
    (subscribePhase sub (a :: rest) c).cfg.1.seen = c.1.seen ∧ (subscribePhase sub (a :: rest) c).cfg.1.gate = c.1.gate := by
  simp only [subscribePhase]
  split <;> exact ⟨rfl, rfl⟩

/-- sync source: the head gate lets through the gated script -/
theorem feedAll_head_sync (a : AnyM α) (rest : List (AnyM α)) (c : Cfg (a :: rest)) (raw : List (Notif α)) :
    (feedAll (push false (a :: rest)) c raw).1.1.seen = c.1.seen ++ (if c.1.gate then gate raw else []) := by
  induction raw generalizing c with
  | nil => simp [gate]
  | cons x xs ih =>
    rw [feedAll_cons, ih]
    cases hg : c.1.gate
    · have : headOpen (a :: rest) c = false := hg
      rw [push_closed false _ c x this]
      simp [hg]
    · simp only [push, hg, if_true, gate]
      cases x.isTerminal <;> simp

/-- hot source: the head gate lets through a prefix of the gated script -/
theorem feedAll_head_hot (hot : Bool) (a : AnyM α) (rest : List (AnyM α)) (c : Cfg (a :: rest)) (raw : List (Notif α)) :
    ∃ l, l <+: gate raw ∧ (feedAll (push hot (a :: rest)) c raw).1.1.seen = c.1.seen ++ l := by
  induction raw generalizing c with
  | nil => exact ⟨[], by simp [gate], by simp⟩
  | cons x xs ih =>
    rw [feedAll_cons]
    obtain ⟨l, hl, hs⟩ := ih (push hot (a :: rest) c x).1
    cases hg : c.1.gate
    · have hc : headOpen (a :: rest) c = false := hg
      have := feedAll_push_closed hot (a :: rest) c xs hc
      rw [push_closed hot _ c x hc, this]
      exact ⟨[], List.nil_prefix, by simp⟩
    · cases hx : x.isTerminal
      · refine ⟨x :: l, ?_, ?_⟩
        · simp only [gate, hx]
          exact List.cons_prefix_cons.mpr ⟨rfl, hl⟩
        · rw [hs]; simp [push, hg]
      · -- the terminal closes the gate: nothing more is accepted
        have hcl : headOpen (a :: rest) (push hot (a :: rest) c x).1 = false := by
          simp [push, hg, headOpen, hx]
        rw [feedAll_push_closed hot (a :: rest) _ xs hcl]
        refine ⟨[x], by simp [gate, hx], ?_⟩
        simp [push, hg]

/-- the source was subscribed and is synchronous: the first stage accepted exactly the gated
    raw script -/
theorem head_seen_sync (sub : Ctx) (a : AnyM α) (rest : List (AnyM α)) (raw : List (Notif α)) (cut : Option Nat)
    (hr : (run false sub (a :: rest) raw cut).srcSubs = 1) :
    (run false sub (a :: rest) raw cut).cfg.1.seen = gate raw := by
  cases hre : (subscribePhase sub (a :: rest) (initCfg (a :: rest))).reached
  · rw [run_unreached false sub _ raw cut hre] at hr; simp at hr
  · rw [run_sync sub _ raw cut hre]
    have h0 := subscribePhase_head sub a rest (initCfg (a :: rest))
    show (settle (a :: rest) _).1.seen = _
    simp only [settle]
    rw [feedAll_head_sync, h0.1, h0.2]
    simp [initCfg]

/-- whatever the source mode and cut: the first stage accepted a prefix of the gated raw script
    (the values the source emitted while it was subscribed) -/
theorem head_seen_prefix (hot : Bool) (sub : Ctx) (a : AnyM α) (rest : List (AnyM α)) (raw : List (Notif α))
    (cut : Option Nat) : (run hot sub (a :: rest) raw cut).cfg.1.seen <+: gate raw := by
  have h0 := subscribePhase_head sub a rest (initCfg (a :: rest))
  have hi : (initCfg (a :: rest)).1.seen = [] := rfl
  cases hre : (subscribePhase sub (a :: rest) (initCfg (a :: rest))).reached
  · rw [run_unreached hot sub _ raw cut hre]
    show (subscribePhase sub (a :: rest) (initCfg (a :: rest))).cfg.1.seen <+: _
    rw [h0.1, hi]; exact List.nil_prefix
  · cases hot
    · rw [run_sync sub _ raw cut hre]
      show (settle (a :: rest) _).1.seen <+: _
      simp only [settle]
      rw [feedAll_head_sync, h0.1, h0.2, hi]
      simp [initCfg]
    · cases cut with
      | none =>
        rw [run_hot_none sub _ raw hre]
        obtain ⟨l, hl, hs⟩ := feedAll_head_hot true a rest (settle (a :: rest) (subscribePhase sub (a :: rest) (initCfg (a :: rest))).cfg) raw
        dsimp only
        rw [hs]
        have : (settle (a :: rest) (subscribePhase sub (a :: rest) (initCfg (a :: rest))).cfg).1.seen = [] := by
          simp only [settle]; rw [h0.1, hi]
        rw [this]; simpa using hl
      | some k =>
        rw [run_hot_some sub _ raw k hre]
        obtain ⟨l, hl, hs⟩ := feedAll_head_hot true a rest (settle (a :: rest) (subscribePhase sub (a :: rest) (initCfg (a :: rest))).cfg) (raw.take k)
        have hcl : headOpen (a :: rest) (closeAll (a :: rest) (feedAll (push true (a :: rest)) (settle (a :: rest) (subscribePhase sub (a :: rest) (initCfg (a :: rest))).cfg) (raw.take k)).1) = false :=
          closeAll_headOpen _ _
        dsimp only
        rw [feedAll_push_closed true _ _ _ hcl]
        dsimp only
        show (feedAll (push true (a :: rest)) (settle (a :: rest) (subscribePhase sub (a :: rest) (initCfg (a :: rest))).cfg) (raw.take k)).1.1.seen <+: _
        rw [hs]
        have : (settle (a :: rest) (subscribePhase sub (a :: rest) (initCfg (a :: rest))).cfg).1.seen = [] := by
          simp only [settle]; rw [h0.1, hi]
        rw [this, List.nil_append]
        -- a prefix of the gated prefix is a prefix of the gated script
        have hp : gate (raw.take k) <+: gate raw := by
          clear hs hl hcl this h0 hi hre
          induction raw generalizing k with
          | nil => simp [gate]
          | cons x xs ih =>
            cases k with
            | zero => simp [gate]
            | succ k =>
              simp only [List.take_succ_cons, gate]
              cases x.isTerminal
              · simp only [Bool.false_eq_true, if_false]
                exact List.cons_prefix_cons.mpr ⟨rfl, ih k⟩
              · simp
        exact List.IsPrefix.trans hl hp

/-! ### how often the subscribe functions run -/

def allSubscribe : List (AnyM α) → Bool
  | [] => true
  | a :: rest => a.m.subscribes && allSubscribe rest

/-- stage k is subscribed iff every stage after it subscribes to its upstream -/
def reachList : List (AnyM α) → List Nat
  | [] => []
  | _ :: rest => (if allSubscribe rest then 1 else 0) :: reachList rest

theorem push_subds (hot : Bool) (ms : List (AnyM α)) (c : Cfg ms) (n : Notif α) :
    subds ms (push hot ms c n).1 = subds ms c := by
  induction ms generalizing n with
  | nil => rfl
  | cons a rest ih =>
    simp only [push]
    split
    · simp only [subds]
      congr 1
      exact feedAll_inv _ (fun c' => subds rest c' = subds rest c.2) (fun c' n' h' => by rw [ih]; exact h') _ _ rfl
    · rfl

theorem feedAll_subds (hot : Bool) (ms : List (AnyM α)) (c : Cfg ms) (ns : List (Notif α)) :
    subds ms (feedAll (push hot ms) c ns).1 = subds ms c :=
  feedAll_inv _ (fun c' => subds ms c' = subds ms c) (fun c' n' h' => by rw [push_subds]; exact h') _ _ rfl

theorem settle_subds (ms : List (AnyM α)) (c : Cfg ms) : subds ms (settle ms c) = subds ms c := by
  induction ms with
  | nil => rfl
  | cons a rest ih => simp only [settle, subds, ih]

theorem closeAll_subds (ms : List (AnyM α)) (c : Cfg ms) : subds ms (closeAll ms c) = subds ms c := by
  induction ms with
  | nil => rfl
  | cons a rest ih => simp only [closeAll, subds, ih]

theorem subscribePhase_subds (sub : Ctx) (ms : List (AnyM α)) :
    subds ms (subscribePhase sub ms (initCfg ms)).cfg = reachList ms ∧
    (subscribePhase sub ms (initCfg ms)).reached = allSubscribe ms := by
  induction ms with
  | nil => exact ⟨rfl, rfl⟩
  | cons a rest ih =>
    have hi : (initCfg (a :: rest)).2 = initCfg rest := rfl
    cases hb : allSubscribe rest
    · have hr : (subscribePhase sub rest (initCfg (a :: rest)).2).reached = false := by rw [hi, ih.2, hb]
      rw [subscribePhase_cons_unreached sub a rest _ hr]
      refine ⟨?_, by simp [allSubscribe, hb]⟩
      show (initCfg (a :: rest)).1.subd :: subds rest (subscribePhase sub rest (initCfg rest)).cfg = _
      rw [ih.1]; simp [reachList, hb, initCfg]
    · have hr : (subscribePhase sub rest (initCfg (a :: rest)).2).reached = true := by rw [hi, ih.2, hb]
      rw [subscribePhase_cons_reached sub a rest _ hr]
      refine ⟨?_, by simp [allSubscribe, hb]⟩
      show ((initCfg (a :: rest)).1.subd + 1) :: subds rest (feedAll (push false rest) (subscribePhase sub rest (initCfg rest)).cfg _).1 = _
      rw [feedAll_subds, ih.1]; simp [reachList, hb, initCfg]

/-- every run: the subscribe function of stage k has run once if every later stage subscribes
    to its upstream, and not at all otherwise -/
theorem subds_run (hot : Bool) (sub : Ctx) (ms : List (AnyM α)) (raw : List (Notif α)) (cut : Option Nat) :
    subds ms (run hot sub ms raw cut).cfg = reachList ms := by
  have h0 := subscribePhase_subds sub ms
  cases hr : (subscribePhase sub ms (initCfg ms)).reached
  · rw [run_unreached hot sub ms raw cut hr]; exact h0.1
  · cases hot
    · rw [run_sync sub ms raw cut hr]; simp only [settle_subds, feedAll_subds, h0.1]
    · cases cut with
      | none => rw [run_hot_none sub ms raw hr]; simp only [settle_subds, feedAll_subds, h0.1]
      | some k => rw [run_hot_some sub ms raw k hr]; simp only [settle_subds, feedAll_subds, closeAll_subds, h0.1]

/-- the source is subscribed once iff every stage subscribes to its upstream -/
theorem srcSubs_run (hot : Bool) (sub : Ctx) (ms : List (AnyM α)) (raw : List (Notif α)) (cut : Option Nat) :
    (run hot sub ms raw cut).srcSubs = if allSubscribe ms then 1 else 0 := by
  have h0 := (subscribePhase_subds sub ms).2
  cases hr : (subscribePhase sub ms (initCfg ms)).reached
  · rw [run_unreached hot sub ms raw cut hr, ← h0, hr]; rfl
  · rw [← h0, hr]
    cases hot
    · rw [run_sync sub ms raw cut hr]; rfl
    · cases cut with
      | none => rw [run_hot_none sub ms raw hr]; rfl
      | some k => rw [run_hot_some sub ms raw k hr]; rfl

/-! ### reading the counters of the instrumented composition -/

def lastSubd : (ms : List (AnyM α)) → Cfg ms → Nat
  | [], _ => 0
  | [_], c => c.1.subd
  | _ :: b :: rest, c => lastSubd (b :: rest) c.2

theorem lastSeen_cons_tailI (x : AnyM α) (ms : List (AnyM α)) (c : Cfg (x :: tailI ms)) :
    lastSeen (x :: tailI ms) c = lastSeen (tailI ms) c.2 := by
  cases ms <;> rfl

theorem lastSubd_cons_tailI (x : AnyM α) (ms : List (AnyM α)) (c : Cfg (x :: tailI ms)) :
    lastSubd (x :: tailI ms) c = lastSubd (tailI ms) c.2 := by
  cases ms <;> rfl

theorem tail_tally (ms : List (AnyM α)) (c : Cfg (tailI ms)) (h : AllInv TallyInv (tailI ms) c) :
    (tailCounters ms c).1 = (tailSeen ms c).map countStampedNext ∧
    (tailCounters ms c).2 = (lastSubd (tailI ms) c, countNext (lastSeen (tailI ms) c)) := by
  induction ms with
  | nil =>
    have h1 : [c.1.st.1, c.1.st.2] = [c.1.subd, countNext c.1.seen] := h.1 sound_after
    injection h1 with ha hb
    injection hb with hb _
    exact ⟨rfl, Prod.ext ha hb⟩
  | cons a rest ih =>
    have hp : [(c.2.1.st : Nat)] = [countStampedNext c.2.1.seen] := h.2.1 sound_proc
    injection hp with hp _
    have ih' := ih c.2.2 h.2.2
    refine ⟨?_, ?_⟩
    · show (c.2.1.st : Nat) :: (tailCounters rest c.2.2).1 = countStampedNext c.2.1.seen :: (tailSeen rest c.2.2).map countStampedNext
      exact hp ▸ ih'.1 ▸ rfl
    · show (tailCounters rest c.2.2).2 = _
      rw [ih'.2]
      have e1 : lastSeen (a :: AnyM.proc :: tailI rest) c = lastSeen (tailI rest) c.2.2 := by
        rw [show lastSeen (a :: AnyM.proc :: tailI rest) c = lastSeen (AnyM.proc :: tailI rest) c.2 from rfl,
            lastSeen_cons_tailI]
      have e2 : lastSubd (a :: AnyM.proc :: tailI rest) c = lastSubd (tailI rest) c.2.2 := by
        rw [show lastSubd (a :: AnyM.proc :: tailI rest) c = lastSubd (AnyM.proc :: tailI rest) c.2 from rfl,
            lastSubd_cons_tailI]
      show _ = (lastSubd (a :: AnyM.proc :: tailI rest) c, countNext (lastSeen (a :: AnyM.proc :: tailI rest) c))
      rw [e1, e2]

theorem lastSubd_of_subds (ms : List (AnyM α)) (hne : ms ≠ []) (c : Cfg ms) (h : subds ms c = reachList ms) :
    lastSubd ms c = 1 := by
  induction ms with
  | nil => exact absurd rfl hne
  | cons a rest ih =>
    cases rest with
    | nil =>
      simp only [subds, reachList, allSubscribe, if_true, List.cons.injEq, and_true] at h
      exact h
    | cons b rest' =>
      simp only [subds, reachList, List.cons.injEq] at h
      exact ih (by simp) c.2 (by simp only [subds, reachList, List.cons.injEq]; exact h.2)

/-- the counters of one subscription of the instrumented composition, every chain, source
    mode, script and cut -/
theorem instrument_counters (hot : Bool) (sub : Ctx) (ms : List (AnyM α)) (raw : List (Notif α)) (cut : Option Nat) :
    let r := run hot sub (instrument ms) raw cut
    (counters ms r.cfg).subs = 1 ∧
    (counters ms r.cfg).inN = countNext r.cfg.1.seen ∧
    (counters ms r.cfg).outN = countNext r.out ∧
    (counters ms r.cfg).lag = countNonNilNext r.cfg.1.seen ∧
    (counters ms r.cfg).proc = (tailSeen ms r.cfg.2).map countStampedNext := by
  intro r
  have hall : AllInv TallyInv (instrument ms) r.cfg := tally_run hot sub (instrument ms) raw cut
  have hb : [(r.cfg.1.st : Nat × Nat).1, (r.cfg.1.st : Nat × Nat).2] = [countNext r.cfg.1.seen, countNonNilNext r.cfg.1.seen] :=
    hall.1 sound_before
  injection hb with hb1 hb2
  injection hb2 with hb2 _
  have ht := tail_tally ms r.cfg.2 hall.2
  have hout : r.out = lastSeen (instrument ms) r.cfg := out_eq_lastSeen hot sub (instrument ms) (endsAfter_instrument ms) raw cut
  have hl : lastSeen (instrument ms) r.cfg = lastSeen (tailI ms) r.cfg.2 := lastSeen_cons_tailI _ ms r.cfg
  have hsd : lastSubd (instrument ms) r.cfg = 1 :=
    lastSubd_of_subds (instrument ms) (by simp [instrument]) r.cfg (subds_run hot sub (instrument ms) raw cut)
  have hsd' : lastSubd (instrument ms) r.cfg = lastSubd (tailI ms) r.cfg.2 := lastSubd_cons_tailI _ ms r.cfg
  refine ⟨?_, hb1, ?_, hb2, ht.1⟩
  · show (tailCounters ms r.cfg.2).2.1 = 1
    rw [ht.2, ← hsd', hsd]
  · show (tailCounters ms r.cfg.2).2.2 = _
    rw [ht.2, hout, hl]

end Ro.Prom

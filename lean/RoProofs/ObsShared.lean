/-
  RoProofs.ObsShared — one observer attached to two sources: values, then at most one terminal, then silence (C01), whatever
  the two sources send and in whatever order; nothing is lost silently (delivered + refused = sent).
-/
import RoModel.ObsShared
namespace Ro.ObsShared
open Ro

/-- the observer is open exactly while no terminal has been delivered; once closed the trace is frozen -/
def Inv (s : St) : Prop :=
  (s.obs = 0 → ∀ n ∈ s.trace, n.isTerminal = false) ∧
  (s.obs ≠ 0 → ∃ pre t, s.trace = pre ++ [t] ∧ t.isTerminal = true ∧ ∀ n ∈ pre, n.isTerminal = false)

theorem closeSub_fields (s : St) (k code : Nat) :
    (s.closeSub k code).obs = s.obs ∧ (s.closeSub k code).trace = s.trace ∧ (s.closeSub k code).dropped = s.dropped := by
  unfold St.closeSub; split <;> exact ⟨rfl, rfl, rfl⟩

theorem step_inv (s : St) (e : Nat × Notif Int) (h : Inv s) : Inv (step s e) := by
  obtain ⟨h0, h1⟩ := h
  unfold step
  split
  · exact ⟨h0, h1⟩
  · rcases e with ⟨k, n⟩
    cases n with
    | next c v =>
      simp only []
      by_cases ho : s.obs = 0
      · simp only [ho, bne_self_eq_false, Bool.false_eq_true, if_false]
        refine ⟨fun _ m hm => ?_, fun hne => absurd (by first | rfl | exact ho) hne⟩
        rcases List.mem_append.mp hm with hm | hm
        · exact h0 ho m hm
        · simp at hm; subst hm; rfl
      · have : (s.obs != 0) = true := by simpa using ho
        simp only [this, if_true]
        exact ⟨fun hz => absurd hz ho, fun hne => h1 hne⟩
    | error c e' =>
      simp only []
      obtain ⟨e1, e2, _⟩ := closeSub_fields s k 1
      by_cases ho : s.obs = 0
      · have : ((s.closeSub k 1).obs != 0) = false := by rw [e1]; simp [ho]
        simp only [this, Bool.false_eq_true, if_false]
        refine ⟨fun hz => by simp at hz, fun _ => ⟨s.trace, .error c e', by rw [e2], rfl, h0 ho⟩⟩
      · have : ((s.closeSub k 1).obs != 0) = true := by rw [e1]; simpa using ho
        simp only [this, if_true]
        exact ⟨fun hz => absurd (e1 ▸ hz) ho, fun _ => by rw [e2]; exact h1 ho⟩
    | complete c =>
      simp only []
      obtain ⟨e1, e2, _⟩ := closeSub_fields s k 2
      by_cases ho : s.obs = 0
      · have : ((s.closeSub k 2).obs != 0) = false := by rw [e1]; simp [ho]
        simp only [this, Bool.false_eq_true, if_false]
        refine ⟨fun hz => by simp at hz, fun _ => ⟨s.trace, .complete c, by rw [e2], rfl, h0 ho⟩⟩
      · have : ((s.closeSub k 2).obs != 0) = true := by rw [e1]; simpa using ho
        simp only [this, if_true]
        exact ⟨fun hz => absurd (e1 ▸ hz) ho, fun _ => by rw [e2]; exact h1 ho⟩

theorem run_inv (evs : List (Nat × Notif Int)) : Inv (run evs) := by
  unfold run
  have h0 : Inv ({} : St) := ⟨fun _ n hn => by simp at hn, fun h => absurd rfl h⟩
  generalize ({} : St) = s at h0
  induction evs generalizing s with
  | nil => exact h0
  | cons e es ih => exact ih _ (step_inv s e h0)

theorem grammar_of_inv {l : List (Notif Int)} :
    (∀ n ∈ l, n.isTerminal = false) → Grammar l := by
  induction l with
  | nil => intro _; trivial
  | cons x xs ih =>
    intro h
    have hx := h x (by simp)
    simp only [Grammar, hx, Bool.false_eq_true, if_false]
    exact ih (fun n hn => h n (by simp [hn]))

theorem grammar_snoc {pre : List (Notif Int)} {t : Notif Int} (hp : ∀ n ∈ pre, n.isTerminal = false) : Grammar (pre ++ [t]) := by
  induction pre with
  | nil => simp only [List.nil_append, Grammar]; split <;> trivial
  | cons x xs ih =>
    have hx := hp x (by simp)
    simp only [List.cons_append, Grammar, hx, Bool.false_eq_true, if_false]
    exact ih (fun n hn => hp n (by simp [hn]))

/-- C01 for an observer shared by two subscriptions: whatever the two sources send, in whatever order -/
theorem shared_observer_grammar (evs : List (Nat × Notif Int)) : Grammar (run evs).trace := by
  obtain ⟨h0, h1⟩ := run_inv evs
  by_cases ho : (run evs).obs = 0
  · exact grammar_of_inv (h0 ho)
  · obtain ⟨pre, t, ht, _, hp⟩ := h1 ho
    rw [ht]; exact grammar_snoc hp

/-- nothing is lost silently: every notification sent is either delivered or reported as dropped -/
theorem shared_observer_partition (evs : List (Nat × Notif Int)) :
    (run evs).trace.length + (run evs).dropped.length = evs.length := by
  unfold run
  suffices h : ∀ s : St, (evs.foldl step s).trace.length + (evs.foldl step s).dropped.length = s.trace.length + s.dropped.length + evs.length by
    simpa using h {}
  induction evs with
  | nil => intro s; simp
  | cons e es ih =>
    intro s
    rw [List.foldl_cons, ih (step s e)]
    have : (step s e).trace.length + (step s e).dropped.length = s.trace.length + s.dropped.length + 1 := by
      unfold step
      split
      · simp; omega
      · rcases e with ⟨k, n⟩
        cases n <;> simp only [] <;> split <;> simp [(closeSub_fields s k _).2.1, (closeSub_fields s k _).2.2] <;> omega
    simp only [List.length_cons]; omega

example : (run [(0, .next {} 1), (1, .next {} 2), (0, .complete {}), (1, .next {} 3), (1, .complete {})]).trace
    = [.next {} 1, .next {} 2, .complete {}] := by decide
example : (run [(0, .next {} 1), (1, .next {} 2), (0, .complete {}), (1, .next {} 3), (1, .complete {})]).dropped
    = [.next {} 3, .complete {}] := by decide

end Ro.ObsShared

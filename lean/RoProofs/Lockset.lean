/-
  RoProofs.Lockset — the lockset theorem of C13.

  (1) `inv_run`: the invariant (each lock has at most one holder; a thread at an `under ls` access
      holds `ls`) is preserved by every step, hence holds after every schedule, for any number of
      threads — induction over the schedule.
  (2) `no_data_race`: if every conflicting pair of accesses that is not ordered by one of the named
      structural rules is (both atomic) ∨ (shares a lock), then no schedule reaches a data race in a
      state that respects the named orderings.
  (3) the bridge to the table: `Ro.LockFacts.pairOk` (Bool, evaluated by the kernel on the
      regenerated rows) implies the hypothesis of (2) for the accesses of one location.
-/
import RoModel.Lockset
import RoModel.LocksetPreds
namespace Ro.Lockset

section
variable {T L A Loc : Type} [DecidableEq T] (acc : A → Acc Loc L)

omit [DecidableEq T] in
theorem inv_init : Inv acc (State.init : State T L A) := by
  constructor
  · intro t u l h _; exact absurd h (by simp [State.init])
  · intro t a h; simp [State.init] at h

theorem inv_step {s s' : State T L A} {x : Action T L A} (h : Step acc s x s') (hi : Inv acc s) : Inv acc s' := by
  obtain ⟨hex, hat⟩ := hi
  cases h with
  | acquire t l free =>
    constructor
    · intro t1 u1 l1 h1 h2
      simp only at h1 h2
      rcases h1 with ⟨rfl, rfl⟩ | h1
      · rcases h2 with ⟨rfl, _⟩ | h2
        · rfl
        · exact absurd h2 (free u1)
      · rcases h2 with ⟨rfl, rfl⟩ | h2
        · exact absurd h1 (free t1)
        · exact hex _ _ _ h1 h2
    · intro t1 a1 hc l1 hl
      exact Or.inr (hat t1 a1 hc l1 hl)
  | release t l own notNeeded =>
    constructor
    · intro t1 u1 l1 h1 h2
      exact hex _ _ _ h1.1 h2.1
    · intro t1 a1 hc l1 hl
      refine ⟨hat t1 a1 hc l1 hl, ?_⟩
      rintro ⟨rfl, rfl⟩
      exact notNeeded a1 hc hl
  | enter t a idle holds =>
    constructor
    · exact hex
    · intro t1 a1 hc l1 hl
      simp only at hc
      by_cases e : t1 = t
      · subst e
        simp at hc
        subst hc
        exact holds l1 hl
      · simp [e] at hc
        exact hat t1 a1 hc l1 hl
  | leave t =>
    constructor
    · exact hex
    · intro t1 a1 hc l1 hl
      simp only at hc
      by_cases e : t1 = t
      · subst e; simp at hc
      · simp [e] at hc
        exact hat t1 a1 hc l1 hl

/-- the invariant holds after every schedule (induction over the schedule) -/
theorem inv_run {s s' : State T L A} {xs : List (Action T L A)} (h : Run acc s xs s') (hi : Inv acc s) : Inv acc s' := by
  induction h with
  | nil s => exact hi
  | cons hstep _ ih => exact ih (inv_step acc hstep hi)

omit [DecidableEq T] in
/-- two different threads are never simultaneously at accesses that need a common lock -/
theorem common_lock_excludes {s : State T L A} (hi : Inv acc s) {t u : T} {a b : A} (hne : t ≠ u)
    (ha : s.cur t = some a) (hb : s.cur u = some b) {l : L} (hla : l ∈ (acc a).locks) (hlb : l ∈ (acc b).locks) : False :=
  hne (hi.1 t u l (hi.2 t a ha l hla) (hi.2 u b hb l hlb))

/-- **The lockset theorem.** For any number of threads and any schedule: if every conflicting pair of
    accesses that can run concurrently (is not ordered by a named structural rule) is both atomic or
    shares a common lock, then no reachable state that respects the named orderings has a data race. -/
theorem no_data_race (o : Orderings A)
    (hpairs : ∀ a b, Conflict (acc a) (acc b) → ¬ o.ordered a b →
      ((acc a).isAtomic ∧ (acc b).isAtomic) ∨ ∃ l, l ∈ (acc a).locks ∧ l ∈ (acc b).locks)
    (xs : List (Action T L A)) (s : State T L A) (hrun : Run acc State.init xs s) (hresp : Respects o s) :
    ¬ Race acc s := by
  rintro ⟨t, u, a, b, hne, ha, hb, hconf, hna⟩
  have hi := inv_run acc hrun (inv_init acc)
  rcases hpairs a b hconf (hresp t u a b hne ha hb) with hat | ⟨l, hla, hlb⟩
  · exact hna hat
  · exact common_lock_excludes acc hi hne ha hb hla hlb

/-- without structural orderings: the plain lockset discipline -/
def noOrderings : Orderings A := ⟨fun _ _ => False, fun _ _ => False, fun _ _ => False, fun _ _ => False⟩

theorem no_data_race_lockset
    (hpairs : ∀ a b, Conflict (acc a) (acc b) →
      ((acc a).isAtomic ∧ (acc b).isAtomic) ∨ ∃ l, l ∈ (acc a).locks ∧ l ∈ (acc b).locks)
    (xs : List (Action T L A)) (s : State T L A) (hrun : Run acc State.init xs s) : ¬ Race acc s := by
  refine no_data_race acc noOrderings (fun a b hc _ => hpairs a b hc) xs s hrun ?_
  intro t u a b _ _ _ h
  simp [Orderings.ordered, noOrderings] at h

end

/-! ### the table as an instance of the machine -/
open Ro.LockFacts

/-- an access of the table: the name of its location and its row -/
abbrev TAcc := String × Access

def syncOf : Prot → Sync Nat
  | .atomic => .atomic
  | .under ls => .under ls
  | _ => .plain

def tacc (x : TAcc) : Acc String Nat := { loc := x.1, write := x.2.write, sync := syncOf x.2.prot }

/-- the named orderings, read off the rows (`Ro.LockFacts.rule…`): they relate accesses of one location -/
def tableOrderings : Orderings TAcc where
  initBeforePublication x y := x.1 = y.1 ∧ ruleInit x.2 y.2 = true
  subscribeBodyBeforeTeardown x y := x.1 = y.1 ∧ ruleBodyTeardown x.2 y.2 = true
  sameSequentialSource x y := x.1 = y.1 ∧ ruleSameSource x.2 y.2 = true
  awaitedSourceBeforeContinuation x y := x.1 = y.1 ∧ ruleAwaited x.2 y.2 = true

theorem tacc_locks (x : TAcc) : (tacc x).locks = x.2.prot.lockList := by
  obtain ⟨n, r⟩ := x
  cases h : r.prot <;> simp [tacc, syncOf, Acc.locks, Prot.lockList, h]

theorem tacc_atomic (x : TAcc) : (tacc x).isAtomic ↔ x.2.prot.isAtomic = true := by
  obtain ⟨n, r⟩ := x
  cases h : r.prot <;> simp [tacc, syncOf, Acc.isAtomic, Prot.isAtomic, h]

/-- what `pairOk` means for two accesses of one location -/
theorem pairOk_sound (n : String) (a b : Access) (h : pairOk a b = true)
    (hconf : Conflict (tacc (n, a)) (tacc (n, b))) (hno : ¬ tableOrderings.ordered (n, a) (n, b)) :
    ((tacc (n, a)).isAtomic ∧ (tacc (n, b)).isAtomic) ∨ ∃ l, l ∈ (tacc (n, a)).locks ∧ l ∈ (tacc (n, b)).locks := by
  have hw : (a.write || b.write) = true := by
    rcases hconf.2 with h1 | h1 <;> simp [tacc] at h1 <;> simp [h1]
  have hord : ordered a b = false := by
    cases ho : ordered a b with
    | false => rfl
    | true =>
      exfalso
      apply hno
      simp only [ordered, Bool.or_eq_true] at ho
      rcases ho with ((h1 | h1) | h1) | h1
      · exact Or.inl ⟨rfl, h1⟩
      · exact Or.inr (Or.inl ⟨rfl, h1⟩)
      · exact Or.inr (Or.inr (Or.inl ⟨rfl, h1⟩))
      · exact Or.inr (Or.inr (Or.inr ⟨rfl, h1⟩))
  simp only [pairOk, hw, hord, Bool.not_true, Bool.false_or, Bool.or_eq_true] at h
  rcases h with h | h
  · left
    simp only [bothAtomic, Bool.and_eq_true] at h
    exact ⟨(tacc_atomic _).2 h.1, (tacc_atomic _).2 h.2⟩
  · right
    simp only [commonLock, List.any_eq_true] at h
    obtain ⟨l, hl, hl'⟩ := h
    refine ⟨l, ?_, ?_⟩
    · rw [tacc_locks]; exact hl
    · rw [tacc_locks]; simpa using hl'

/-- **C13 over the table.** Run the machine with any number of threads and any schedule over the
    accesses of a table `t` whose locations outside `known` satisfy the per-pair predicate. In every
    reachable state that respects the named orderings, two different threads that are at recorded
    accesses `a`, `b` of one location `l ∉ known`, one of them a write, are both at atomic accesses:
    no data race among the recorded accesses of the locations that are not listed. -/
theorem table_race_free {T : Type} [DecidableEq T] (known : List String) (t : List Loc)
    (hok : tableOk known t = true)
    (xs : List (Action T Nat TAcc)) (s : State T Nat TAcc) (hrun : Run tacc State.init xs s)
    (hresp : Respects tableOrderings s)
    (l : Loc) (hl : l ∈ t) (hk : known.contains l.name = false)
    (th u : T) (a b : Access) (hne : th ≠ u) (ha : a ∈ l.rows) (hb : b ∈ l.rows)
    (hca : s.cur th = some (l.name, a)) (hcb : s.cur u = some (l.name, b))
    (hw : a.write = true ∨ b.write = true) :
    a.prot.isAtomic = true ∧ b.prot.isAtomic = true := by
  have hi := inv_run tacc hrun (inv_init tacc)
  have hloc : locOk l = true := by
    have := (List.all_eq_true.1 hok) l hl
    rw [hk] at this
    simpa using this
  have hp : pairOk a b = true := by
    simp only [locOk, Bool.and_eq_true, List.all_eq_true] at hloc
    exact hloc.2 a ha b hb
  have hconf : Conflict (tacc (l.name, a)) (tacc (l.name, b)) := ⟨rfl, by simpa [tacc] using hw⟩
  rcases pairOk_sound l.name a b hp hconf (hresp th u _ _ hne hca hcb) with hat | ⟨k, hka, hkb⟩
  · exact ⟨(tacc_atomic _).1 hat.1, (tacc_atomic _).1 hat.2⟩
  · exact (common_lock_excludes tacc hi hne hca hcb hka hkb).elim

end Ro.Lockset

/-
  RoProofs.Ops.MoreCtx — C09 (context propagation) for the machines of RoModel/Ops/More.lean:
  `ctxWithValueM`, `contextMapM`, `contextResetM`, `castM`, `tapM`, `timedM`, `averageM`.

  Same layout as RoProofs/Ops/CtxSpecs.lean: one certificate `<op>M_ctxSafe` and one theorem
  `<op>_ctx` per machine. Specifics:
   * `ctxWithValueM m`: besides the certificate, `ctxWithValue_marks` — every delivered notification
     (value, error, completion) carries the added marker `m`, whatever the source sends;
   * `contextMapM f`: hypothesis "given a non-nil context, `f` returns a context derived from it";
     `ContextWithTimeout` / `ContextWithDeadline` (child context, same markers) need none;
   * `contextResetM nc` is NOT certifiable in general — by definition it replaces the context
     (`contextReset_not_derived_witness`, `contextReset_not_allFrom`). What remains:
     certificate when `nc` happens to be derived from `sub` (`contextReset_ctx_of_derived`), exact
     context (`contextReset_ctx_eq`), and the "never nil" half of C09 (`contextReset_never_nil`).
-/
import RoProofs.Ops.CtxSpecs
import RoModel.Ops.More
namespace Ro
variable {σ α β τ : Type}

/-! ### a pointwise property of every emission is a property of every delivered notification -/

theorem emits_forall (m : Machine σ α β) (P : Notif β → Prop)
    (hstep : ∀ s x, ∀ n ∈ (m.step s x).2, P n) (s : σ) (xs : List (Notif α)) :
    ∀ n ∈ m.emits s xs, P n := by
  induction xs generalizing s with
  | nil => intro n hn; cases hn
  | cons x xs ih =>
    intro n hn
    simp only [Machine.emits] at hn
    rcases List.mem_append.mp hn with h | h
    · exact hstep s x n h
    · exact ih _ n h

theorem runOp_out_forall (m : Machine σ α β) (P : Notif β → Prop)
    (hsub : ∀ s c, ∀ n ∈ (m.onSubscribe s c).2, P n)
    (hstep : ∀ s x, ∀ n ∈ (m.step s x).2, P n)
    (mode : SrcMode) (sub : Ctx) (raw : List (Notif α)) :
    ∀ n ∈ (runOp m mode sub raw).out, P n := by
  intro n hn
  cases hs : m.subscribes
  · rw [runOp_out_nosub m mode sub raw hs] at hn
    exact hsub _ _ n (mem_gate hn)
  · rw [runOp_out m mode sub raw hs] at hn
    rcases List.mem_append.mp (mem_gate hn) with h | h
    · exact hsub _ _ n h
    · exact emits_forall m P hstep _ _ n h

/-! ## operator_context.go -/

/-! ### ContextWithValue -/

def ctxWithValueM_ctxSafe (m : Nat) (sub : Ctx) : CtxSafe (ctxWithValueM (α := α) m) sub :=
  CtxSafe.stateless _ sub
    (fun s => by ctx_simp [ctxWithValueM])
    (fun s c v h => by
      have := Ctx.derivedFrom_trans (Ctx.derivedFrom_tag c m h.1) h
      ctx_simp [ctxWithValueM])
    (fun s c e h => by
      have := Ctx.derivedFrom_trans (Ctx.derivedFrom_tag c m h.1) h
      ctx_simp [ctxWithValueM])
    (fun s c h => by
      have := Ctx.derivedFrom_trans (Ctx.derivedFrom_tag c m h.1) h
      ctx_simp [ctxWithValueM])

theorem ctxWithValue_ctx (m : Nat) (sub : Ctx)
    (mode : SrcMode) (raw : List (Notif α)) (hraw : ∀ x ∈ raw, x.ctx.derivedFrom sub) :
    AllFrom sub (runOp (ctxWithValueM m) mode sub raw).out :=
  (ctxWithValueM_ctxSafe m sub).run mode raw hraw

theorem Ctx.mem_marks_tag (c : Ctx) (m : Nat) : m ∈ (c.tag m).marks := by
  simp [Ctx.tag]

/-- every notification `ContextWithValue` delivers — value, error, completion — carries the added
    marker, for every raw script (no hypothesis on the source) and both source modes -/
theorem ctxWithValue_marks (m : Nat) (mode : SrcMode) (sub : Ctx) (raw : List (Notif α)) :
    ∀ n ∈ (runOp (ctxWithValueM (α := α) m) mode sub raw).out, m ∈ n.ctx.marks := by
  refine runOp_out_forall _ (fun n => m ∈ n.ctx.marks) ?_ ?_ mode sub raw
  · intro s c n hn; cases hn
  · intro s x n hn
    cases x <;>
      (simp only [Machine.step, ctxWithValueM, List.mem_singleton] at hn
       subst hn
       exact Ctx.mem_marks_tag _ m)

/-- the context handed to the source is derived from the subscription context too -/
theorem ctxWithValueUp_derived (m : Nat) (sub : Ctx) (h : sub.isNil = false) :
    (ctxWithValueUp m sub).derivedFrom sub :=
  Ctx.derivedFrom_tag sub m h

/-! ### ContextMap / ContextMapI / ContextWithTimeout / ContextWithDeadline -/

def contextMapM_ctxSafe (f : Ctx → Nat → Ctx) (sub : Ctx)
    (hf : ∀ c i, c.isNil = false → (f c i).derivedFrom c) : CtxSafe (contextMapM (α := α) f) sub :=
  CtxSafe.stateless _ sub
    (fun s => by ctx_simp [contextMapM])
    (fun s c v h => by
      have := Ctx.derivedFrom_trans (hf c s h.1) h
      ctx_simp [contextMapM])
    (fun s c e h => by ctx_simp [contextMapM])
    (fun s c h => by ctx_simp [contextMapM])

theorem contextMap_ctx (f : Ctx → Nat → Ctx) (sub : Ctx)
    (hf : ∀ c i, c.isNil = false → (f c i).derivedFrom c)
    (mode : SrcMode) (raw : List (Notif α)) (hraw : ∀ x ∈ raw, x.ctx.derivedFrom sub) :
    AllFrom sub (runOp (contextMapM f) mode sub raw).out :=
  (contextMapM_ctxSafe f sub hf).run mode raw hraw

/-- `ContextWithTimeout(d)`: `project c _ = context.WithTimeout(c, d)`, same markers as `c` -/
theorem contextWithTimeout_ctx (sub : Ctx)
    (mode : SrcMode) (raw : List (Notif α)) (hraw : ∀ x ∈ raw, x.ctx.derivedFrom sub) :
    AllFrom sub (runOp (contextMapM (α := α) (fun c _ => c)) mode sub raw).out :=
  contextMap_ctx _ sub (fun c _ h => Ctx.derivedFrom_refl c h) mode raw hraw

/-- `ContextWithDeadline(t)`: `project c _ = context.WithDeadline(c, t)`, same markers as `c` -/
theorem contextWithDeadline_ctx (sub : Ctx)
    (mode : SrcMode) (raw : List (Notif α)) (hraw : ∀ x ∈ raw, x.ctx.derivedFrom sub) :
    AllFrom sub (runOp (contextMapM (α := α) (fun c _ => c)) mode sub raw).out :=
  contextWithTimeout_ctx sub mode raw hraw

/-! ### ContextReset — NOT certifiable: by definition it replaces the context.

  The full statement

      theorem contextReset_ctx (nc sub : Ctx) (mode : SrcMode) (raw : List (Notif α))
          (hraw : ∀ x ∈ raw, x.ctx.derivedFrom sub) : AllFrom sub (runOp (contextResetM nc) mode sub raw).out

  is FALSE (`contextReset_not_allFrom`). It holds when `nc` happens to be derived from `sub`
  (in particular when `sub` carries no marker and `nc` is not nil); in general only the exact
  context (`contextReset_ctx_eq`) and "never nil" (`contextReset_never_nil`) remain. -/

def contextResetM_ctxSafe_of_derived (nc sub : Ctx) (h : nc.derivedFrom sub) :
    CtxSafe (contextResetM (α := α) nc) sub :=
  CtxSafe.stateless _ sub
    (fun s => by ctx_simp [contextResetM])
    (fun s c v _ => by ctx_simp [contextResetM])
    (fun s c e _ => by ctx_simp [contextResetM])
    (fun s c _ => by ctx_simp [contextResetM])

theorem contextReset_ctx_of_derived (nc sub : Ctx) (h : nc.derivedFrom sub)
    (mode : SrcMode) (raw : List (Notif α)) (hraw : ∀ x ∈ raw, x.ctx.derivedFrom sub) :
    AllFrom sub (runOp (contextResetM nc) mode sub raw).out :=
  (contextResetM_ctxSafe_of_derived nc sub h).run mode raw hraw

/-- every notification `ContextReset(nc)` delivers carries exactly `nc` — whatever the source sends -/
theorem contextReset_ctx_eq (nc : Ctx) (mode : SrcMode) (sub : Ctx) (raw : List (Notif α)) :
    ∀ n ∈ (runOp (contextResetM (α := α) nc) mode sub raw).out, n.ctx = nc := by
  refine runOp_out_forall _ (fun n => n.ctx = nc) ?_ ?_ mode sub raw
  · intro s c n hn; cases hn
  · intro s x n hn
    cases x <;>
      (simp only [Machine.step, contextResetM, List.mem_singleton] at hn
       subst hn
       rfl)

/-- … hence the hypothesis on the source is not even needed when `nc` is derived from `sub` -/
theorem contextReset_ctx_of_derived' (nc sub : Ctx) (h : nc.derivedFrom sub)
    (mode : SrcMode) (raw : List (Notif α)) :
    AllFrom sub (runOp (contextResetM nc) mode sub raw).out := by
  intro n hn
  rw [contextReset_ctx_eq nc mode sub raw n hn]
  exact h

/-- the half of C09 that still holds for `ContextReset`: the delivered context is never nil
    (`nc` is normalised to `context.Background()` at construction when the argument was nil) -/
theorem contextReset_never_nil (nc : Ctx) (h : nc.isNil = false)
    (mode : SrcMode) (sub : Ctx) (raw : List (Notif α)) :
    ∀ n ∈ (runOp (contextResetM (α := α) nc) mode sub raw).out, n.ctx.isNil = false := by
  intro n hn
  rw [contextReset_ctx_eq nc mode sub raw n hn]
  exact h

/-- … and conversely: it is derived from `sub` only if `nc` is (as soon as something is delivered) -/
theorem contextReset_allFrom_iff (nc sub : Ctx) (mode : SrcMode) (raw : List (Notif α))
    (hne : (runOp (contextResetM nc) mode sub raw).out ≠ []) :
    AllFrom sub (runOp (contextResetM nc) mode sub raw).out ↔ nc.derivedFrom sub := by
  constructor
  · intro h
    cases hout : (runOp (contextResetM nc) mode sub raw).out with
    | nil => exact absurd hout hne
    | cons n rest =>
      have hn : n ∈ (runOp (contextResetM nc) mode sub raw).out := by rw [hout]; exact List.mem_cons_self ..
      rw [← contextReset_ctx_eq nc mode sub raw n hn]
      exact h n hn
  · intro h
    exact contextReset_ctx_of_derived' nc sub h mode raw

section ResetWitness

local instance (d c : Ctx) : Decidable (d.derivedFrom c) := by unfold Ctx.derivedFrom; exact inferInstance

/-- subscription context with marker 7; the source honours the contract (per-item markers 1, 2
    added to it); `ContextReset` is configured with an unrelated, non-nil context (marker 5) -/
theorem contextReset_witness_hyp :
    ∀ x ∈ ([.next { marks := [7, 1] } 3, .complete { marks := [7, 2] }] : List (Notif Nat)),
      x.ctx.derivedFrom { marks := [7] } := by decide

theorem contextReset_not_derived_witness (mode : SrcMode) :
    (runOp (contextResetM (α := Nat) { marks := [5] }) mode { marks := [7] }
        [.next { marks := [7, 1] } 3, .complete { marks := [7, 2] }]).out =
      [.next { marks := [5] } 3, .complete { marks := [5] }] := by
  cases mode <;> decide

/-- the deviation from C09 (by design of the operator): the marker of the subscription context is
    lost on every delivered notification -/
theorem contextReset_not_allFrom (mode : SrcMode) :
    ¬ AllFrom { marks := [7] }
      (runOp (contextResetM (α := Nat) { marks := [5] }) mode { marks := [7] }
        [.next { marks := [7, 1] } 3, .complete { marks := [7, 2] }]).out := by
  rw [contextReset_not_derived_witness]
  intro h
  have := h _ (List.mem_cons_self ..)
  revert this
  decide

/-- general form: any marker of `sub` that `nc` lacks is lost as soon as the source completes -/
theorem contextReset_lost_marker (nc sub : Ctx) (m : Nat) (hm : m ∈ sub.marks) (hnc : m ∉ nc.marks)
    (mode : SrcMode) :
    ¬ AllFrom sub (runOp (contextResetM (α := α) nc) mode sub [.complete sub]).out := by
  intro h
  have hout : (runOp (contextResetM (α := α) nc) mode sub [.complete sub]).out = [.complete nc] := by
    rw [runOp_out (contextResetM (α := α) nc) mode sub _ rfl]; rfl
  rw [hout] at h
  exact hnc ((h _ (List.mem_cons_self ..)).2 m hm)

end ResetWitness

/-! ## operator_transformations.go -/

/-! ### Cast -/

def castM_ctxSafe (ok : α → Option β) (err : Err) (sub : Ctx) : CtxSafe (castM ok err) sub :=
  CtxSafe.stateless _ sub
    (fun s => by ctx_simp [castM])
    (fun s c v h => by
      show AllFrom sub (match ok v with
        | some u => [.next c u]
        | none => [.error c err])
      split <;> ctx_simp)
    (fun s c e h => by ctx_simp [castM])
    (fun s c h => by ctx_simp [castM])

theorem cast_ctx (ok : α → Option β) (err : Err) (sub : Ctx)
    (mode : SrcMode) (raw : List (Notif α)) (hraw : ∀ x ∈ raw, x.ctx.derivedFrom sub) :
    AllFrom sub (runOp (castM ok err) mode sub raw).out :=
  (castM_ctxSafe ok err sub).run mode raw hraw

/-! ## operator_utility.go -/

/-! ### Tap / Do — invariant: every logged callback invocation got a context derived from `sub`
    (C09 for the user's callbacks, not only for the downstream observer) -/

def tapM_ctxSafe (sel : Notif α → Bool) (sub : Ctx) : CtxSafe (tapM sel) sub where
  Inv log := AllFrom sub log
  init := AllFrom.nil sub
  onSub s hs := ⟨hs, AllFrom.nil sub⟩
  onNext log c v hl h := by
    refine ⟨?_, by ctx_simp [tapM]⟩
    show AllFrom sub (if sel (.next c v) then log ++ [.next c v] else log)
    split
    · ctx_simp
    · exact hl
  onError log c e hl h := by
    refine ⟨?_, by ctx_simp [tapM]⟩
    show AllFrom sub (if sel (.error c e) then log ++ [.error c e] else log)
    split
    · ctx_simp
    · exact hl
  onComplete log c hl h := by
    refine ⟨?_, by ctx_simp [tapM]⟩
    show AllFrom sub (if sel (.complete c) then log ++ [.complete c] else log)
    split
    · ctx_simp
    · exact hl

theorem tap_ctx (sel : Notif α → Bool) (sub : Ctx)
    (mode : SrcMode) (raw : List (Notif α)) (hraw : ∀ x ∈ raw, x.ctx.derivedFrom sub) :
    AllFrom sub (runOp (tapM sel) mode sub raw).out :=
  (tapM_ctxSafe sel sub).run mode raw hraw

/-! ### TimeInterval / Timestamp -/

def timedM_ctxSafe (clock : Nat → τ) (sub : Ctx) : CtxSafe (timedM (α := α) clock) sub :=
  CtxSafe.stateless _ sub
    (fun s => by ctx_simp [timedM])
    (fun s c v h => by ctx_simp [timedM])
    (fun s c e h => by ctx_simp [timedM])
    (fun s c h => by ctx_simp [timedM])

theorem timed_ctx (clock : Nat → τ) (sub : Ctx)
    (mode : SrcMode) (raw : List (Notif α)) (hraw : ∀ x ∈ raw, x.ctx.derivedFrom sub) :
    AllFrom sub (runOp (timedM clock) mode sub raw).out :=
  (timedM_ctxSafe clock sub).run mode raw hraw

/-! ## operator_math.go -/

/-! ### Average — the state stores no context; every emission (the doubled ones of the empty case
    included) uses the context of the completion -/

def averageM_ctxSafe (div : Int → Nat → β) (nan : β) (sub : Ctx) : CtxSafe (averageM div nan) sub :=
  CtxSafe.stateless _ sub
    (fun s => by ctx_simp [averageM])
    (fun s c v h => by ctx_simp [averageM])
    (fun s c e h => by ctx_simp [averageM])
    (fun s c h => by
      show AllFrom sub ((if s.2 = 0 then [.next c nan, .complete c] else []) ++
        [.next c (div s.1 s.2), .complete c])
      split <;> ctx_simp)

theorem average_ctx (div : Int → Nat → β) (nan : β) (sub : Ctx)
    (mode : SrcMode) (raw : List (Notif Int)) (hraw : ∀ x ∈ raw, x.ctx.derivedFrom sub) :
    AllFrom sub (runOp (averageM div nan) mode sub raw).out :=
  (averageM_ctxSafe div nan sub).run mode raw hraw

/-! ## Non-vacuity -/

section Examples

local instance (d c : Ctx) : Decidable (d.derivedFrom c) := by unfold Ctx.derivedFrom; exact inferInstance

private def sub7 : Ctx := { marks := [7] }
private def script7 : List (Notif Nat) :=
  [.next (sub7.tag 1) 10, .next sub7 11, .error (sub7.tag 2) (.user 0), .next sub7 12]

example : ∀ x ∈ script7, x.ctx.derivedFrom sub7 := by decide

/-- a projection that adds a per-index marker satisfies the hypothesis of `contextMap_ctx` … -/
example : ∀ (c : Ctx) (i : Nat), c.isNil = false →
    ((fun (c : Ctx) (i : Nat) => c.tag (50 + i)) c i).derivedFrom c :=
  fun c i h => Ctx.derivedFrom_tag c (50 + i) h

/-- … and delivers something: markers 50, 51 on the values, the error's context untouched -/
example : (runOp (contextMapM (fun c i => c.tag (50 + i))) .sync sub7 script7).out =
    [.next ((sub7.tag 1).tag 50) 10, .next (sub7.tag 51) 11, .error (sub7.tag 2) (.user 0)] := by decide

/-- the hypothesis is not trivially true: a projection that drops the context violates it -/
example : ¬ ∀ (c : Ctx) (i : Nat), c.isNil = false → ((fun (_ : Ctx) (_ : Nat) => Ctx.bg) c i).derivedFrom c :=
  fun h => absurd ((h sub7 0 rfl).2 7 (by decide)) (by decide)

example : (runOp (ctxWithValueM 4) .hot sub7 script7).out =
    [.next ((sub7.tag 1).tag 4) 10, .next (sub7.tag 4) 11, .error ((sub7.tag 2).tag 4) (.user 0)] := by decide

/-- the hypothesis of `contextReset_ctx_of_derived` is satisfiable by a context other than `sub` -/
example : (sub7.tag 5).derivedFrom sub7 := by decide
example : (runOp (contextResetM (sub7.tag 5)) .sync sub7 script7).out =
    [.next (sub7.tag 5) 10, .next (sub7.tag 5) 11, .error (sub7.tag 5) (.user 0)] := by decide

/-- `Cast` failing on the second value: the error carries that value's context -/
example : (runOp (castM (fun v => if v = 11 then none else some (v + 1)) (.sentinel 1)) .sync sub7 script7).out =
    [.next (sub7.tag 1) 11, .error sub7 (.sentinel 1)] := by decide

/-- `Average` on the empty source: `NaN` and the completion, both with the completion's context -/
example : (runOp (averageM (fun s n => (s, n)) ((0 : Int), 0)) .sync sub7 [.complete (sub7.tag 3)]).out =
    [.next (sub7.tag 3) (0, 0), .complete (sub7.tag 3)] := by decide

end Examples

end Ro

/-
  RoProofs.Ops.CtxSpecs — C09 (context propagation) for every single-source machine of
  RoModel/Ops/{Filter,Transform,Aggregate}.lean.

  For each machine `<op>M` a certificate `<op>M_ctxSafe : CtxSafe (<op>M …) sub` and the theorem

      <op>_ctx : (∀ x ∈ raw, x.ctx.derivedFrom sub) → AllFrom sub (runOp (<op>M …) mode sub raw).out

  (through `CtxSafe.run`): if the source only sends contexts derived from the subscription context,
  so does the operator — for every raw script (legal or not) and both source modes. Hypotheses:
   * `sub.isNil = false` only for the two machines that emit at subscription (`emptyM`, `startWithM`);
   * "given a non-nil context, the callback returns a context derived from it" for the
     `…WithContext` callbacks that return a context (`∀ c v i, c.isNil = false → (p c v i).1.derivedFrom c`;
     the premise `c.isNil = false` makes the hypothesis satisfiable by the identity callback and by
     `context.WithValue`-style callbacks — see the examples at the end);
   * `dc.derivedFrom sub` for `defaultIfEmptyM dc d` (deviation witness below for `ro.DefaultIfEmpty`);
   * `maxM` is NOT certifiable (nil context on an empty source): partial theorem + witness.

  Second part: exact provenance for the pure pass-through machines (`PassThrough`).
-/
import RoProofs.CtxFlow
import RoModel.Ops.Aggregate
namespace Ro
variable {σ α β κ : Type}

/-! ### vocabulary -/

theorem allFrom_nil_iff (sub : Ctx) : AllFrom sub ([] : List (Notif β)) ↔ True := by
  simp [AllFrom]

theorem allFrom_cons_iff {sub : Ctx} {n : Notif β} {l : List (Notif β)} :
    AllFrom sub (n :: l) ↔ n.ctx.derivedFrom sub ∧ AllFrom sub l := by
  simp [AllFrom]

theorem allFrom_append_iff {sub : Ctx} {a b : List (Notif β)} :
    AllFrom sub (a ++ b) ↔ AllFrom sub a ∧ AllFrom sub b := by
  simp only [AllFrom, List.mem_append]
  constructor
  · intro h; exact ⟨fun n hn => h n (Or.inl hn), fun n hn => h n (Or.inr hn)⟩
  · rintro ⟨ha, hb⟩ n (hn | hn)
    · exact ha n hn
    · exact hb n hn

theorem allFrom_map_next {sub c : Ctx} (h : c.derivedFrom sub) (vs : List β) :
    AllFrom sub (vs.map (Notif.next c)) := by
  intro n hn
  obtain ⟨v, _, rfl⟩ := List.mem_map.mp hn
  exact h

theorem allFrom_map_pair {sub : Ctx} (q : List (Ctx × β)) (h : ∀ p ∈ q, p.1.derivedFrom sub) :
    AllFrom sub (q.map (fun p => Notif.next p.1 p.2)) := by
  intro n hn
  obtain ⟨p, hp, rfl⟩ := List.mem_map.mp hn
  exact h p hp

theorem ctx_next (c : Ctx) (v : β) : (Notif.next c v).ctx = c := rfl
theorem ctx_error (c : Ctx) (e : Err) : (Notif.error c e : Notif β).ctx = c := rfl
theorem ctx_complete (c : Ctx) : (Notif.complete c : Notif β).ctx = c := rfl

/-- simp set: decompose `AllFrom` over literal lists, read off contexts, close with hypotheses -/
syntax "ctx_simp" (" [" Lean.Parser.Tactic.simpLemma,* "]")? : tactic
macro_rules
  | `(tactic| ctx_simp) =>
    `(tactic| simp [allFrom_nil_iff, allFrom_cons_iff, allFrom_append_iff, ctx_next, ctx_error,
        ctx_complete, fwdE, fwdC, *])
  | `(tactic| ctx_simp [$ts,*]) =>
    `(tactic| simp [allFrom_nil_iff, allFrom_cons_iff, allFrom_append_iff, ctx_next, ctx_error,
        ctx_complete, fwdE, fwdC, $ts,*, *])

/-- certificate for a machine whose state stores no context -/
def CtxSafe.stateless (m : Machine σ α β) (sub : Ctx)
    (hS : ∀ s, AllFrom sub (m.onSubscribe s sub).2)
    (hN : ∀ s c v, c.derivedFrom sub → AllFrom sub (m.onNext s c v).2)
    (hE : ∀ s c e, c.derivedFrom sub → AllFrom sub (m.onError s c e).2)
    (hC : ∀ s c, c.derivedFrom sub → AllFrom sub (m.onComplete s c).2) : CtxSafe m sub where
  Inv := fun _ => True
  init := trivial
  onSub s _ := ⟨trivial, hS s⟩
  onNext s c v _ h := ⟨trivial, hN s c v h⟩
  onError s c e _ h := ⟨trivial, hE s c e h⟩
  onComplete s c _ h := ⟨trivial, hC s c h⟩

/-! ## operator_filter.go -/

/-! ### Filter -/

def filterM_ctxSafe (p : Pred α) (sub : Ctx) (hp : ∀ c v i, c.isNil = false → (p c v i).1.derivedFrom c) :
    CtxSafe (filterM p) sub :=
  CtxSafe.stateless _ sub
    (fun s => by ctx_simp [filterM])
    (fun s c v h => by
      have := Ctx.derivedFrom_trans (hp c v s h.1) h
      show AllFrom sub (if (p c v s).2 then [.next (p c v s).1 v] else [])
      split <;> ctx_simp)
    (fun s c e h => by ctx_simp [filterM])
    (fun s c h => by ctx_simp [filterM])

theorem filter_ctx (p : Pred α) (sub : Ctx) (hp : ∀ c v i, c.isNil = false → (p c v i).1.derivedFrom c)
    (mode : SrcMode) (raw : List (Notif α)) (hraw : ∀ x ∈ raw, x.ctx.derivedFrom sub) :
    AllFrom sub (runOp (filterM p) mode sub raw).out :=
  (filterM_ctxSafe p sub hp).run mode raw hraw


/-! ### Distinct -/

def distinctByM_ctxSafe [DecidableEq κ] (key : Ctx → α → Ctx × κ) (sub : Ctx)
    (hk : ∀ c v, c.isNil = false → (key c v).1.derivedFrom c) : CtxSafe (distinctByM key) sub :=
  CtxSafe.stateless _ sub
    (fun s => by ctx_simp [distinctByM])
    (fun s c v h => by
      have := Ctx.derivedFrom_trans (hk c v h.1) h
      show AllFrom sub (if (key c v).2 ∈ s then (s, []) else ((key c v).2 :: s, [.next (key c v).1 v])).2
      split <;> ctx_simp)
    (fun s c e h => by ctx_simp [distinctByM])
    (fun s c h => by ctx_simp [distinctByM])

theorem distinctBy_ctx [DecidableEq κ] (key : Ctx → α → Ctx × κ) (sub : Ctx)
    (hk : ∀ c v, c.isNil = false → (key c v).1.derivedFrom c)
    (mode : SrcMode) (raw : List (Notif α)) (hraw : ∀ x ∈ raw, x.ctx.derivedFrom sub) :
    AllFrom sub (runOp (distinctByM key) mode sub raw).out :=
  (distinctByM_ctxSafe key sub hk).run mode raw hraw

/-! ### IgnoreElements -/

def ignoreElementsM_ctxSafe (sub : Ctx) : CtxSafe (ignoreElementsM (α := α)) sub :=
  CtxSafe.stateless _ sub
    (fun s => by ctx_simp [ignoreElementsM])
    (fun s c v h => by ctx_simp [ignoreElementsM])
    (fun s c e h => by ctx_simp [ignoreElementsM])
    (fun s c h => by ctx_simp [ignoreElementsM])

theorem ignoreElements_ctx (sub : Ctx)
    (mode : SrcMode) (raw : List (Notif α)) (hraw : ∀ x ∈ raw, x.ctx.derivedFrom sub) :
    AllFrom sub (runOp (ignoreElementsM (α := α)) mode sub raw).out :=
  (ignoreElementsM_ctxSafe sub).run mode raw hraw

/-! ### Skip -/

def skipM_ctxSafe (count : Nat) (sub : Ctx) : CtxSafe (skipM (α := α) count) sub :=
  CtxSafe.stateless _ sub
    (fun s => by ctx_simp [skipM])
    (fun s c v h => by
      show AllFrom sub (if s ≥ count then [.next c v] else [])
      split <;> ctx_simp)
    (fun s c e h => by ctx_simp [skipM])
    (fun s c h => by ctx_simp [skipM])

theorem skip_ctx (count : Nat) (sub : Ctx)
    (mode : SrcMode) (raw : List (Notif α)) (hraw : ∀ x ∈ raw, x.ctx.derivedFrom sub) :
    AllFrom sub (runOp (skipM count) mode sub raw).out :=
  (skipM_ctxSafe count sub).run mode raw hraw

/-! ### SkipWhile -/

def skipWhileM_ctxSafe (p : Pred α) (sub : Ctx) (hp : ∀ c v i, c.isNil = false → (p c v i).1.derivedFrom c) :
    CtxSafe (skipWhileM p) sub :=
  CtxSafe.stateless _ sub
    (fun s => by ctx_simp [skipWhileM])
    (fun s c v h => by
      have := Ctx.derivedFrom_trans (hp c v s.2 h.1) h
      show AllFrom sub (if !s.1 then ((false, s.2 + 1), [.next c v])
        else if (p c v s.2).2 then ((true, s.2 + 1), [])
        else ((false, s.2 + 1), [.next (p c v s.2).1 v])).2
      split
      · ctx_simp
      · split <;> ctx_simp)
    (fun s c e h => by ctx_simp [skipWhileM])
    (fun s c h => by ctx_simp [skipWhileM])

theorem skipWhile_ctx (p : Pred α) (sub : Ctx) (hp : ∀ c v i, c.isNil = false → (p c v i).1.derivedFrom c)
    (mode : SrcMode) (raw : List (Notif α)) (hraw : ∀ x ∈ raw, x.ctx.derivedFrom sub) :
    AllFrom sub (runOp (skipWhileM p) mode sub raw).out :=
  (skipWhileM_ctxSafe p sub hp).run mode raw hraw

/-! ### SkipLast — invariant: every buffered context is derived from `sub` -/

theorem skipLastM_onNext (count : Nat) (q : List (Ctx × α)) (c : Ctx) (v : α) :
    (skipLastM count).onNext q c v =
      if q.length < count then (q ++ [(c, v)], [])
      else match q with
        | [] => ([(c, v)], [])
        | (c0, v0) :: rest => (rest ++ [(c, v)], [.next c0 v0]) := rfl

def skipLastM_ctxSafe (count : Nat) (sub : Ctx) : CtxSafe (skipLastM (α := α) count) sub where
  Inv q := ∀ p ∈ q, p.1.derivedFrom sub
  init := fun _ h => by cases h
  onSub s hs := ⟨hs, AllFrom.nil sub⟩
  onNext q c v hq h := by
    have hcv : ∀ p ∈ [(c, v)], p.1.derivedFrom sub := by
      intro p hp; simp at hp; subst hp; exact h
    rw [skipLastM_onNext]
    split
    · refine ⟨?_, AllFrom.nil sub⟩
      intro p hp
      rcases List.mem_append.mp hp with hp | hp
      · exact hq p hp
      · exact hcv p hp
    · split
      · exact ⟨hcv, AllFrom.nil sub⟩
      · rename_i c0 v0 rest _
        refine ⟨?_, ?_⟩
        · intro p hp
          rcases List.mem_append.mp hp with hp | hp
          · exact hq p (List.mem_cons_of_mem _ hp)
          · exact hcv p hp
        · have := hq (c0, v0) (List.mem_cons_self ..)
          ctx_simp
  onError q c e hq h := ⟨hq, by ctx_simp [skipLastM]⟩
  onComplete q c hq h := ⟨hq, by ctx_simp [skipLastM]⟩

theorem skipLast_ctx (count : Nat) (sub : Ctx)
    (mode : SrcMode) (raw : List (Notif α)) (hraw : ∀ x ∈ raw, x.ctx.derivedFrom sub) :
    AllFrom sub (runOp (skipLastM count) mode sub raw).out :=
  (skipLastM_ctxSafe count sub).run mode raw hraw

/-! ### Take -/

def takeM_ctxSafe (count : Nat) (sub : Ctx) : CtxSafe (takeM (α := α) count) sub :=
  CtxSafe.stateless _ sub
    (fun s => by ctx_simp [takeM])
    (fun s c v h => by
      show AllFrom sub (if s + 1 ≥ count then [.next c v, .complete c] else [.next c v])
      split <;> ctx_simp)
    (fun s c e h => by ctx_simp [takeM])
    (fun s c h => by ctx_simp [takeM])

theorem take_ctx (count : Nat) (sub : Ctx)
    (mode : SrcMode) (raw : List (Notif α)) (hraw : ∀ x ∈ raw, x.ctx.derivedFrom sub) :
    AllFrom sub (runOp (takeM count) mode sub raw).out :=
  (takeM_ctxSafe count sub).run mode raw hraw

/-! ### Empty (`Take(0)`, …): completes with the subscription context itself -/

def emptyM_ctxSafe (sub : Ctx) (hsub : sub.isNil = false) : CtxSafe (emptyM (α := α) (β := β)) sub :=
  have := Ctx.derivedFrom_refl sub hsub
  CtxSafe.stateless _ sub
    (fun s => by ctx_simp [emptyM])
    (fun s c v h => by ctx_simp [emptyM])
    (fun s c e h => by ctx_simp [emptyM])
    (fun s c h => by ctx_simp [emptyM])

theorem empty_ctx (sub : Ctx) (hsub : sub.isNil = false)
    (mode : SrcMode) (raw : List (Notif α)) (hraw : ∀ x ∈ raw, x.ctx.derivedFrom sub) :
    AllFrom sub (runOp (emptyM (α := α) (β := β)) mode sub raw).out :=
  (emptyM_ctxSafe sub hsub).run mode raw hraw

/-! ### TakeWhile -/

def takeWhileM_ctxSafe (p : Pred α) (sub : Ctx) (hp : ∀ c v i, c.isNil = false → (p c v i).1.derivedFrom c) :
    CtxSafe (takeWhileM p) sub :=
  CtxSafe.stateless _ sub
    (fun s => by ctx_simp [takeWhileM])
    (fun s c v h => by
      have := Ctx.derivedFrom_trans (hp c v s.2 h.1) h
      show AllFrom sub (if s.1 then ((true, s.2 + 1), [])
        else if (p c v s.2).2 then ((false, s.2 + 1), [.next (p c v s.2).1 v])
        else ((true, s.2 + 1), [.complete (p c v s.2).1])).2
      split
      · ctx_simp
      · split <;> ctx_simp)
    (fun s c e h => by
      show AllFrom sub (if s.1 then [] else [.error c e])
      split <;> ctx_simp)
    (fun s c h => by
      show AllFrom sub (if s.1 then [] else [.complete c])
      split <;> ctx_simp)

theorem takeWhile_ctx (p : Pred α) (sub : Ctx) (hp : ∀ c v i, c.isNil = false → (p c v i).1.derivedFrom c)
    (mode : SrcMode) (raw : List (Notif α)) (hraw : ∀ x ∈ raw, x.ctx.derivedFrom sub) :
    AllFrom sub (runOp (takeWhileM p) mode sub raw).out :=
  (takeWhileM_ctxSafe p sub hp).run mode raw hraw

/-! ### TakeLast — invariant: every buffered context is derived from `sub` -/

def takeLastM_ctxSafe (count : Nat) (sub : Ctx) : CtxSafe (takeLastM (α := α) count) sub where
  Inv q := ∀ p ∈ q, p.1.derivedFrom sub
  init := fun _ h => by cases h
  onSub s hs := ⟨hs, AllFrom.nil sub⟩
  onNext q c v hq h := by
    refine ⟨?_, AllFrom.nil sub⟩
    show ∀ p ∈ (if q.length ≥ count then q.drop 1 else q) ++ [(c, v)], p.1.derivedFrom sub
    intro p hp
    rcases List.mem_append.mp hp with hp | hp
    · split at hp
      · exact hq p (List.mem_of_mem_drop hp)
      · exact hq p hp
    · simp at hp; subst hp; exact h
  onError q c e hq h := ⟨hq, by ctx_simp [takeLastM]⟩
  onComplete q c hq h := by
    refine ⟨hq, ?_⟩
    show AllFrom sub (q.map (fun p => Notif.next p.1 p.2) ++ [.complete c])
    have := allFrom_map_pair q hq
    ctx_simp

theorem takeLast_ctx (count : Nat) (sub : Ctx)
    (mode : SrcMode) (raw : List (Notif α)) (hraw : ∀ x ∈ raw, x.ctx.derivedFrom sub) :
    AllFrom sub (runOp (takeLastM count) mode sub raw).out :=
  (takeLastM_ctxSafe count sub).run mode raw hraw

/-! ### Head -/

def headM_ctxSafe (sub : Ctx) : CtxSafe (headM (α := α)) sub :=
  CtxSafe.stateless _ sub
    (fun s => by ctx_simp [headM])
    (fun s c v h => by ctx_simp [headM])
    (fun s c e h => by ctx_simp [headM])
    (fun s c h => by ctx_simp [headM])

theorem head_ctx (sub : Ctx)
    (mode : SrcMode) (raw : List (Notif α)) (hraw : ∀ x ∈ raw, x.ctx.derivedFrom sub) :
    AllFrom sub (runOp (headM (α := α)) mode sub raw).out :=
  (headM_ctxSafe sub).run mode raw hraw

/-! ### Tail — invariant: the stored context is derived from `sub` -/

def tailM_ctxSafe (sub : Ctx) : CtxSafe (tailM (α := α)) sub where
  Inv s := ∀ p, s = some p → p.1.derivedFrom sub
  init := fun _ h => by cases h
  onSub s hs := ⟨hs, AllFrom.nil sub⟩
  onNext s c v _ h := ⟨fun p hp => by cases hp; exact h, AllFrom.nil sub⟩
  onError s c e hs h := ⟨hs, by ctx_simp [tailM]⟩
  onComplete s c hs h := by
    refine ⟨hs, ?_⟩
    cases s with
    | none => ctx_simp [tailM]
    | some p =>
      obtain ⟨c0, v0⟩ := p
      have := hs (c0, v0) rfl
      ctx_simp [tailM]

theorem tail_ctx (sub : Ctx)
    (mode : SrcMode) (raw : List (Notif α)) (hraw : ∀ x ∈ raw, x.ctx.derivedFrom sub) :
    AllFrom sub (runOp (tailM (α := α)) mode sub raw).out :=
  (tailM_ctxSafe sub).run mode raw hraw

/-! ### First -/

def firstM_ctxSafe (p : Pred α) (sub : Ctx) (hp : ∀ c v i, c.isNil = false → (p c v i).1.derivedFrom c) :
    CtxSafe (firstM p) sub :=
  CtxSafe.stateless _ sub
    (fun s => by ctx_simp [firstM])
    (fun s c v h => by
      have := Ctx.derivedFrom_trans (hp c v s h.1) h
      show AllFrom sub (if (p c v s).2 then [.next (p c v s).1 v, .complete (p c v s).1] else [])
      split <;> ctx_simp)
    (fun s c e h => by ctx_simp [firstM])
    (fun s c h => by ctx_simp [firstM])

theorem first_ctx (p : Pred α) (sub : Ctx) (hp : ∀ c v i, c.isNil = false → (p c v i).1.derivedFrom c)
    (mode : SrcMode) (raw : List (Notif α)) (hraw : ∀ x ∈ raw, x.ctx.derivedFrom sub) :
    AllFrom sub (runOp (firstM p) mode sub raw).out :=
  (firstM_ctxSafe p sub hp).run mode raw hraw

/-! ### Last — invariant: the stored (predicate's) context is derived from `sub` -/

def lastM_ctxSafe (p : Pred α) (sub : Ctx) (hp : ∀ c v i, c.isNil = false → (p c v i).1.derivedFrom c) :
    CtxSafe (lastM p) sub where
  Inv s := ∀ q, s.1 = some q → q.1.derivedFrom sub
  init := fun _ h => by cases h
  onSub s hs := ⟨hs, AllFrom.nil sub⟩
  onNext s c v hs h := by
    refine ⟨?_, AllFrom.nil sub⟩
    show ∀ q, (if (p c v s.2).2 then some ((p c v s.2).1, v) else s.1) = some q → q.1.derivedFrom sub
    intro q hq
    split at hq
    · cases hq; exact Ctx.derivedFrom_trans (hp c v s.2 h.1) h
    · exact hs q hq
  onError s c e hs h := ⟨hs, by ctx_simp [lastM]⟩
  onComplete s c hs h := by
    refine ⟨hs, ?_⟩
    obtain ⟨o, i⟩ := s
    cases o with
    | none => ctx_simp [lastM]
    | some q =>
      obtain ⟨c0, v0⟩ := q
      have := hs (c0, v0) rfl
      ctx_simp [lastM]

theorem last_ctx (p : Pred α) (sub : Ctx) (hp : ∀ c v i, c.isNil = false → (p c v i).1.derivedFrom c)
    (mode : SrcMode) (raw : List (Notif α)) (hraw : ∀ x ∈ raw, x.ctx.derivedFrom sub) :
    AllFrom sub (runOp (lastM p) mode sub raw).out :=
  (lastM_ctxSafe p sub hp).run mode raw hraw

/-! ### ElementAt / ElementAtOrDefault -/

def elementAtM_ctxSafe (nth : Nat) (sub : Ctx) : CtxSafe (elementAtM (α := α) nth) sub :=
  CtxSafe.stateless _ sub
    (fun s => by ctx_simp [elementAtM])
    (fun s c v h => by
      show AllFrom sub (if s = nth then (s, [.next c v, .complete c]) else (s + 1, [])).2
      split <;> ctx_simp)
    (fun s c e h => by ctx_simp [elementAtM])
    (fun s c h => by ctx_simp [elementAtM])

theorem elementAt_ctx (nth : Nat) (sub : Ctx)
    (mode : SrcMode) (raw : List (Notif α)) (hraw : ∀ x ∈ raw, x.ctx.derivedFrom sub) :
    AllFrom sub (runOp (elementAtM nth) mode sub raw).out :=
  (elementAtM_ctxSafe nth sub).run mode raw hraw

def elementAtOrDefaultM_ctxSafe (nth : Nat) (fallback : α) (sub : Ctx) :
    CtxSafe (elementAtOrDefaultM nth fallback) sub :=
  CtxSafe.stateless _ sub
    (fun s => by ctx_simp [elementAtOrDefaultM])
    (fun s c v h => by
      show AllFrom sub (if s = nth then (s, [.next c v, .complete c]) else (s + 1, [])).2
      split <;> ctx_simp)
    (fun s c e h => by ctx_simp [elementAtOrDefaultM])
    (fun s c h => by ctx_simp [elementAtOrDefaultM])

theorem elementAtOrDefault_ctx (nth : Nat) (fallback : α) (sub : Ctx)
    (mode : SrcMode) (raw : List (Notif α)) (hraw : ∀ x ∈ raw, x.ctx.derivedFrom sub) :
    AllFrom sub (runOp (elementAtOrDefaultM nth fallback) mode sub raw).out :=
  (elementAtOrDefaultM_ctxSafe nth fallback sub).run mode raw hraw

/-! ## operator_transformations.go and friends -/

/-! ### Map -/

def mapM_ctxSafe (f : Ctx → α → Nat → Ctx × β) (sub : Ctx) (hf : ∀ c v i, c.isNil = false → (f c v i).1.derivedFrom c) :
    CtxSafe (mapM f) sub :=
  CtxSafe.stateless _ sub
    (fun s => by ctx_simp [mapM])
    (fun s c v h => by
      have := Ctx.derivedFrom_trans (hf c v s h.1) h
      ctx_simp [mapM])
    (fun s c e h => by ctx_simp [mapM])
    (fun s c h => by ctx_simp [mapM])

theorem map_ctx (f : Ctx → α → Nat → Ctx × β) (sub : Ctx) (hf : ∀ c v i, c.isNil = false → (f c v i).1.derivedFrom c)
    (mode : SrcMode) (raw : List (Notif α)) (hraw : ∀ x ∈ raw, x.ctx.derivedFrom sub) :
    AllFrom sub (runOp (mapM f) mode sub raw).out :=
  (mapM_ctxSafe f sub hf).run mode raw hraw

/-! ### MapTo -/

def mapToM_ctxSafe (b : β) (sub : Ctx) : CtxSafe (mapToM (α := α) b) sub :=
  CtxSafe.stateless _ sub
    (fun s => by ctx_simp [mapToM])
    (fun s c v h => by ctx_simp [mapToM])
    (fun s c e h => by ctx_simp [mapToM])
    (fun s c h => by ctx_simp [mapToM])

theorem mapTo_ctx (b : β) (sub : Ctx)
    (mode : SrcMode) (raw : List (Notif α)) (hraw : ∀ x ∈ raw, x.ctx.derivedFrom sub) :
    AllFrom sub (runOp (mapToM (α := α) b) mode sub raw).out :=
  (mapToM_ctxSafe b sub).run mode raw hraw

/-! ### MapErr -/

def mapErrM_ctxSafe (f : Ctx → α → Nat → β × Ctx × Option Err) (sub : Ctx)
    (hf : ∀ c v i, c.isNil = false → (f c v i).2.1.derivedFrom c) : CtxSafe (mapErrM f) sub :=
  CtxSafe.stateless _ sub
    (fun s => by ctx_simp [mapErrM])
    (fun s c v h => by
      have := Ctx.derivedFrom_trans (hf c v s h.1) h
      show AllFrom sub (match (f c v s).2.2 with
        | some e => [.error (f c v s).2.1 e]
        | none => [.next (f c v s).2.1 (f c v s).1])
      split <;> ctx_simp)
    (fun s c e h => by ctx_simp [mapErrM])
    (fun s c h => by ctx_simp [mapErrM])

theorem mapErr_ctx (f : Ctx → α → Nat → β × Ctx × Option Err) (sub : Ctx)
    (hf : ∀ c v i, c.isNil = false → (f c v i).2.1.derivedFrom c)
    (mode : SrcMode) (raw : List (Notif α)) (hraw : ∀ x ∈ raw, x.ctx.derivedFrom sub) :
    AllFrom sub (runOp (mapErrM f) mode sub raw).out :=
  (mapErrM_ctxSafe f sub hf).run mode raw hraw

/-! ### Flatten -/

def flattenM_ctxSafe (sub : Ctx) : CtxSafe (flattenM (α := α)) sub :=
  CtxSafe.stateless _ sub
    (fun s => by ctx_simp [flattenM])
    (fun s c vs h => allFrom_map_next h vs)
    (fun s c e h => by ctx_simp [flattenM])
    (fun s c h => by ctx_simp [flattenM])

theorem flatten_ctx (sub : Ctx)
    (mode : SrcMode) (raw : List (Notif (List α))) (hraw : ∀ x ∈ raw, x.ctx.derivedFrom sub) :
    AllFrom sub (runOp (flattenM (α := α)) mode sub raw).out :=
  (flattenM_ctxSafe sub).run mode raw hraw

/-! ### Scan -/

def scanM_ctxSafe (f : Ctx → β → α → Nat → Ctx × β) (seed : β) (sub : Ctx)
    (hf : ∀ c b v i, c.isNil = false → (f c b v i).1.derivedFrom c) : CtxSafe (scanM f seed) sub :=
  CtxSafe.stateless _ sub
    (fun s => by ctx_simp [scanM])
    (fun s c v h => by
      have := Ctx.derivedFrom_trans (hf c s.1 v s.2 h.1) h
      ctx_simp [scanM])
    (fun s c e h => by ctx_simp [scanM])
    (fun s c h => by ctx_simp [scanM])

theorem scan_ctx (f : Ctx → β → α → Nat → Ctx × β) (seed : β) (sub : Ctx)
    (hf : ∀ c b v i, c.isNil = false → (f c b v i).1.derivedFrom c)
    (mode : SrcMode) (raw : List (Notif α)) (hraw : ∀ x ∈ raw, x.ctx.derivedFrom sub) :
    AllFrom sub (runOp (scanM f seed) mode sub raw).out :=
  (scanM_ctxSafe f seed sub hf).run mode raw hraw

/-! ### BufferWithCount -/

def bufferCountM_ctxSafe (size : Nat) (sub : Ctx) : CtxSafe (bufferCountM (α := α) size) sub :=
  CtxSafe.stateless _ sub
    (fun s => by ctx_simp [bufferCountM])
    (fun s c v h => by
      show AllFrom sub (if (s ++ [v]).length ≥ size then ([], [.next c (s ++ [v])]) else (s ++ [v], [])).2
      split <;> ctx_simp)
    (fun s c e h => by ctx_simp [bufferCountM])
    (fun s c h => by
      show AllFrom sub ((if s.length > 0 then [.next c s] else []) ++ [.complete c])
      split <;> ctx_simp)

theorem bufferCount_ctx (size : Nat) (sub : Ctx)
    (mode : SrcMode) (raw : List (Notif α)) (hraw : ∀ x ∈ raw, x.ctx.derivedFrom sub) :
    AllFrom sub (runOp (bufferCountM size) mode sub raw).out :=
  (bufferCountM_ctxSafe size sub).run mode raw hraw

/-! ### Pairwise -/

def pairwiseM_ctxSafe (sub : Ctx) : CtxSafe (pairwiseM (α := α)) sub :=
  CtxSafe.stateless _ sub
    (fun s => by ctx_simp [pairwiseM])
    (fun s c v h => by cases s <;> ctx_simp [pairwiseM])
    (fun s c e h => by ctx_simp [pairwiseM])
    (fun s c h => by ctx_simp [pairwiseM])

theorem pairwise_ctx (sub : Ctx)
    (mode : SrcMode) (raw : List (Notif α)) (hraw : ∀ x ∈ raw, x.ctx.derivedFrom sub) :
    AllFrom sub (runOp (pairwiseM (α := α)) mode sub raw).out :=
  (pairwiseM_ctxSafe sub).run mode raw hraw

/-! ### StartWith: the prefixes are emitted with the subscription context itself -/

def startWithM_ctxSafe (pre : List α) (sub : Ctx) (hsub : sub.isNil = false) :
    CtxSafe (startWithM pre) sub :=
  CtxSafe.stateless _ sub
    (fun s => allFrom_map_next (Ctx.derivedFrom_refl sub hsub) pre)
    (fun s c v h => by ctx_simp [startWithM])
    (fun s c e h => by ctx_simp [startWithM])
    (fun s c h => by ctx_simp [startWithM])

theorem startWith_ctx (pre : List α) (sub : Ctx) (hsub : sub.isNil = false)
    (mode : SrcMode) (raw : List (Notif α)) (hraw : ∀ x ∈ raw, x.ctx.derivedFrom sub) :
    AllFrom sub (runOp (startWithM pre) mode sub raw).out :=
  (startWithM_ctxSafe pre sub hsub).run mode raw hraw

/-! ### EndWith -/

def endWithM_ctxSafe (suf : List α) (sub : Ctx) : CtxSafe (endWithM suf) sub :=
  CtxSafe.stateless _ sub
    (fun s => by ctx_simp [endWithM])
    (fun s c v h => by ctx_simp [endWithM])
    (fun s c e h => by ctx_simp [endWithM])
    (fun s c h => by
      have := allFrom_map_next h suf
      show AllFrom sub (suf.map (Notif.next c) ++ [.complete c])
      ctx_simp)

theorem endWith_ctx (suf : List α) (sub : Ctx)
    (mode : SrcMode) (raw : List (Notif α)) (hraw : ∀ x ∈ raw, x.ctx.derivedFrom sub) :
    AllFrom sub (runOp (endWithM suf) mode sub raw).out :=
  (endWithM_ctxSafe suf sub).run mode raw hraw

/-! ### identity pass-through (Tap…, Serialize) -/

def idM_ctxSafe (sub : Ctx) : CtxSafe (idM (α := α)) sub :=
  CtxSafe.stateless _ sub
    (fun s => by ctx_simp [idM])
    (fun s c v h => by ctx_simp [idM])
    (fun s c e h => by ctx_simp [idM])
    (fun s c h => by ctx_simp [idM])

theorem id_ctx (sub : Ctx)
    (mode : SrcMode) (raw : List (Notif α)) (hraw : ∀ x ∈ raw, x.ctx.derivedFrom sub) :
    AllFrom sub (runOp (idM (α := α)) mode sub raw).out :=
  (idM_ctxSafe sub).run mode raw hraw

/-! ### OnErrorReturn -/

def onErrorReturnM_ctxSafe (d : α) (sub : Ctx) : CtxSafe (onErrorReturnM d) sub :=
  CtxSafe.stateless _ sub
    (fun s => by ctx_simp [onErrorReturnM])
    (fun s c v h => by ctx_simp [onErrorReturnM])
    (fun s c e h => by ctx_simp [onErrorReturnM])
    (fun s c h => by ctx_simp [onErrorReturnM])

theorem onErrorReturn_ctx (d : α) (sub : Ctx)
    (mode : SrcMode) (raw : List (Notif α)) (hraw : ∀ x ∈ raw, x.ctx.derivedFrom sub) :
    AllFrom sub (runOp (onErrorReturnM d) mode sub raw).out :=
  (onErrorReturnM_ctxSafe d sub).run mode raw hraw

/-! ### ThrowIfEmpty -/

def throwIfEmptyM_ctxSafe (err : Err) (sub : Ctx) : CtxSafe (throwIfEmptyM (α := α) err) sub :=
  CtxSafe.stateless _ sub
    (fun s => by ctx_simp [throwIfEmptyM])
    (fun s c v h => by ctx_simp [throwIfEmptyM])
    (fun s c e h => by ctx_simp [throwIfEmptyM])
    (fun s c h => by cases s <;> ctx_simp [throwIfEmptyM])

theorem throwIfEmpty_ctx (err : Err) (sub : Ctx)
    (mode : SrcMode) (raw : List (Notif α)) (hraw : ∀ x ∈ raw, x.ctx.derivedFrom sub) :
    AllFrom sub (runOp (throwIfEmptyM (α := α) err) mode sub raw).out :=
  (throwIfEmptyM_ctxSafe err sub).run mode raw hraw

/-! ### Materialize / Dematerialize -/

def materializeM_ctxSafe (sub : Ctx) : CtxSafe (materializeM (α := α)) sub :=
  CtxSafe.stateless _ sub
    (fun s => by ctx_simp [materializeM])
    (fun s c v h => by ctx_simp [materializeM])
    (fun s c e h => by ctx_simp [materializeM])
    (fun s c h => by ctx_simp [materializeM])

theorem materialize_ctx (sub : Ctx)
    (mode : SrcMode) (raw : List (Notif α)) (hraw : ∀ x ∈ raw, x.ctx.derivedFrom sub) :
    AllFrom sub (runOp (materializeM (α := α)) mode sub raw).out :=
  (materializeM_ctxSafe sub).run mode raw hraw

/-- the context *inside* a materialised notification is ignored: the replay uses the context of
    the value that carries it, so nothing is required of the payload -/
def dematerializeM_ctxSafe (sub : Ctx) : CtxSafe (dematerializeM (α := α)) sub :=
  CtxSafe.stateless _ sub
    (fun s => by ctx_simp [dematerializeM])
    (fun s c n h => by cases n <;> ctx_simp [dematerializeM])
    (fun s c e h => by ctx_simp [dematerializeM])
    (fun s c h => by ctx_simp [dematerializeM])

theorem dematerialize_ctx (sub : Ctx)
    (mode : SrcMode) (raw : List (Notif (Notif α))) (hraw : ∀ x ∈ raw, x.ctx.derivedFrom sub) :
    AllFrom sub (runOp (dematerializeM (α := α)) mode sub raw).out :=
  (dematerializeM_ctxSafe sub).run mode raw hraw

/-! ### ToSlice / ToMap -/

def toSliceM_ctxSafe (sub : Ctx) : CtxSafe (toSliceM (α := α)) sub :=
  CtxSafe.stateless _ sub
    (fun s => by ctx_simp [toSliceM])
    (fun s c v h => by ctx_simp [toSliceM])
    (fun s c e h => by ctx_simp [toSliceM])
    (fun s c h => by ctx_simp [toSliceM])

theorem toSlice_ctx (sub : Ctx)
    (mode : SrcMode) (raw : List (Notif α)) (hraw : ∀ x ∈ raw, x.ctx.derivedFrom sub) :
    AllFrom sub (runOp (toSliceM (α := α)) mode sub raw).out :=
  (toSliceM_ctxSafe sub).run mode raw hraw

def toMapM_ctxSafe [DecidableEq κ] (kv : Ctx → α → Nat → κ × β) (sub : Ctx) :
    CtxSafe (toMapM kv) sub :=
  CtxSafe.stateless _ sub
    (fun s => by ctx_simp [toMapM])
    (fun s c v h => by ctx_simp [toMapM])
    (fun s c e h => by ctx_simp [toMapM])
    (fun s c h => by ctx_simp [toMapM])

theorem toMap_ctx [DecidableEq κ] (kv : Ctx → α → Nat → κ × β) (sub : Ctx)
    (mode : SrcMode) (raw : List (Notif α)) (hraw : ∀ x ∈ raw, x.ctx.derivedFrom sub) :
    AllFrom sub (runOp (toMapM kv) mode sub raw).out :=
  (toMapM_ctxSafe kv sub).run mode raw hraw

/-! ## operator_conditional.go, operator_math.go -/

/-! ### All / Contains / Find -/

def allM_ctxSafe (p : Ctx → α → Nat → Bool) (sub : Ctx) : CtxSafe (allM p) sub :=
  CtxSafe.stateless _ sub
    (fun s => by ctx_simp [allM])
    (fun s c v h => by ctx_simp [allM])
    (fun s c e h => by ctx_simp [allM])
    (fun s c h => by ctx_simp [allM])

theorem all_ctx (p : Ctx → α → Nat → Bool) (sub : Ctx)
    (mode : SrcMode) (raw : List (Notif α)) (hraw : ∀ x ∈ raw, x.ctx.derivedFrom sub) :
    AllFrom sub (runOp (allM p) mode sub raw).out :=
  (allM_ctxSafe p sub).run mode raw hraw

def containsM_ctxSafe (p : Ctx → α → Nat → Bool) (sub : Ctx) : CtxSafe (containsM p) sub :=
  CtxSafe.stateless _ sub
    (fun s => by ctx_simp [containsM])
    (fun s c v h => by
      show AllFrom sub (if p c v s then [.next c true, .complete c] else [])
      split <;> ctx_simp)
    (fun s c e h => by ctx_simp [containsM])
    (fun s c h => by ctx_simp [containsM])

theorem contains_ctx (p : Ctx → α → Nat → Bool) (sub : Ctx)
    (mode : SrcMode) (raw : List (Notif α)) (hraw : ∀ x ∈ raw, x.ctx.derivedFrom sub) :
    AllFrom sub (runOp (containsM p) mode sub raw).out :=
  (containsM_ctxSafe p sub).run mode raw hraw

def findM_ctxSafe (p : Ctx → α → Nat → Bool) (sub : Ctx) : CtxSafe (findM p) sub :=
  CtxSafe.stateless _ sub
    (fun s => by ctx_simp [findM])
    (fun s c v h => by
      show AllFrom sub (if p c v s then [.next c v, .complete c] else [])
      split <;> ctx_simp)
    (fun s c e h => by ctx_simp [findM])
    (fun s c h => by ctx_simp [findM])

theorem find_ctx (p : Ctx → α → Nat → Bool) (sub : Ctx)
    (mode : SrcMode) (raw : List (Notif α)) (hraw : ∀ x ∈ raw, x.ctx.derivedFrom sub) :
    AllFrom sub (runOp (findM p) mode sub raw).out :=
  (findM_ctxSafe p sub).run mode raw hraw

/-! ### DefaultIfEmpty — the default travels with the *configured* context `dc` -/

def defaultIfEmptyM_ctxSafe (dc : Ctx) (d : α) (sub : Ctx) (hdc : dc.derivedFrom sub) :
    CtxSafe (defaultIfEmptyM dc d) sub :=
  CtxSafe.stateless _ sub
    (fun s => by ctx_simp [defaultIfEmptyM])
    (fun s c v h => by ctx_simp [defaultIfEmptyM])
    (fun s c e h => by ctx_simp [defaultIfEmptyM])
    (fun s c h => by cases s <;> ctx_simp [defaultIfEmptyM])

theorem defaultIfEmpty_ctx (dc : Ctx) (d : α) (sub : Ctx) (hdc : dc.derivedFrom sub)
    (mode : SrcMode) (raw : List (Notif α)) (hraw : ∀ x ∈ raw, x.ctx.derivedFrom sub) :
    AllFrom sub (runOp (defaultIfEmptyM dc d) mode sub raw).out :=
  (defaultIfEmptyM_ctxSafe dc d sub hdc).run mode raw hraw

/-! ### Count / Sum -/

def countM_ctxSafe (sub : Ctx) : CtxSafe (countM (α := α)) sub :=
  CtxSafe.stateless _ sub
    (fun s => by ctx_simp [countM])
    (fun s c v h => by ctx_simp [countM])
    (fun s c e h => by ctx_simp [countM])
    (fun s c h => by ctx_simp [countM])

theorem count_ctx (sub : Ctx)
    (mode : SrcMode) (raw : List (Notif α)) (hraw : ∀ x ∈ raw, x.ctx.derivedFrom sub) :
    AllFrom sub (runOp (countM (α := α)) mode sub raw).out :=
  (countM_ctxSafe sub).run mode raw hraw

def sumM_ctxSafe (sub : Ctx) : CtxSafe sumM sub :=
  CtxSafe.stateless _ sub
    (fun s => by ctx_simp [sumM])
    (fun s c v h => by ctx_simp [sumM])
    (fun s c e h => by ctx_simp [sumM])
    (fun s c h => by ctx_simp [sumM])

theorem sum_ctx (sub : Ctx)
    (mode : SrcMode) (raw : List (Notif Int)) (hraw : ∀ x ∈ raw, x.ctx.derivedFrom sub) :
    AllFrom sub (runOp sumM mode sub raw).out :=
  (sumM_ctxSafe sub).run mode raw hraw

/-! ### Clamp -/

def clampM_ctxSafe (lo hi : Int) (sub : Ctx) : CtxSafe (clampM lo hi) sub :=
  CtxSafe.stateless _ sub
    (fun s => by ctx_simp [clampM])
    (fun s c v h => by ctx_simp [clampM])
    (fun s c e h => by ctx_simp [clampM])
    (fun s c h => by ctx_simp [clampM])

theorem clamp_ctx (lo hi : Int) (sub : Ctx)
    (mode : SrcMode) (raw : List (Notif Int)) (hraw : ∀ x ∈ raw, x.ctx.derivedFrom sub) :
    AllFrom sub (runOp (clampM lo hi) mode sub raw).out :=
  (clampM_ctxSafe lo hi sub).run mode raw hraw

/-! ### Min — invariant: the context stored with the current minimum is derived from `sub` -/

def minM_ctxSafe (sub : Ctx) : CtxSafe minM sub where
  Inv s := ∀ p, s = some p → p.1.derivedFrom sub
  init := fun _ h => by cases h
  onSub s hs := ⟨hs, AllFrom.nil sub⟩
  onNext s c v hs h := by
    refine ⟨?_, AllFrom.nil sub⟩
    cases s with
    | none =>
      show ∀ p, some (c, v) = some p → p.1.derivedFrom sub
      intro p hp; cases hp; exact h
    | some q =>
      obtain ⟨c0, m⟩ := q
      show ∀ p, (if v < m then some (c, v) else some (c0, m)) = some p → p.1.derivedFrom sub
      intro p hp
      split at hp
      · cases hp; exact h
      · cases hp; exact hs _ rfl
  onError s c e hs h := ⟨hs, by ctx_simp [minM]⟩
  onComplete s c hs h := by
    refine ⟨hs, ?_⟩
    cases s with
    | none => ctx_simp [minM]
    | some q =>
      obtain ⟨c0, m⟩ := q
      have := hs (c0, m) rfl
      ctx_simp [minM]

theorem min_ctx (sub : Ctx)
    (mode : SrcMode) (raw : List (Notif Int)) (hraw : ∀ x ∈ raw, x.ctx.derivedFrom sub) :
    AllFrom sub (runOp minM mode sub raw).out :=
  (minM_ctxSafe sub).run mode raw hraw

/-! ### Max — DEVIATION: on an empty source the pinned code emits `0` with a nil context.

  The full statement

      theorem max_ctx (sub : Ctx) (mode : SrcMode) (raw : List (Notif Int))
          (hraw : ∀ x ∈ raw, x.ctx.derivedFrom sub) : AllFrom sub (runOp maxM mode sub raw).out

  is FALSE (`max_ctx_witness`). It holds exactly when the source does not complete before its
  first value (`max_ctx_partial'`), in particular when it sends at least one value
  (`max_ctx_partial`). No `CtxSafe maxM sub` exists: the certificate is built for the machine
  restarted from the state reached after the first value. -/

/-- the same machine started from another state -/
def Machine.withInit (m : Machine σ α β) (s0 : σ) : Machine σ α β := { m with init := s0 }

theorem withInit_step (m : Machine σ α β) (s0 s : σ) (x : Notif α) :
    (m.withInit s0).step s x = m.step s x := by cases x <;> rfl

theorem withInit_emits (m : Machine σ α β) (s0 s : σ) (xs : List (Notif α)) :
    (m.withInit s0).emits s xs = m.emits s xs := by
  induction xs generalizing s with
  | nil => rfl
  | cons x xs ih => simp only [Machine.emits, withInit_step, ih]

/-- `maxM` once it holds a value: the stored context is derived from `sub` -/
def maxM_from_ctxSafe (c0 : Ctx) (v0 : Int) (sub : Ctx) (h0 : c0.derivedFrom sub) :
    CtxSafe (maxM.withInit (some (c0, v0))) sub where
  Inv s := ∃ p, s = some p ∧ p.1.derivedFrom sub
  init := ⟨(c0, v0), rfl, h0⟩
  onSub s hs := ⟨hs, AllFrom.nil sub⟩
  onNext s c v hs h := by
    refine ⟨?_, AllFrom.nil sub⟩
    obtain ⟨⟨c1, m⟩, rfl, hp⟩ := hs
    show ∃ p, (if v > m then some (c, v) else some (c1, m)) = some p ∧ p.1.derivedFrom sub
    split
    · exact ⟨_, rfl, h⟩
    · exact ⟨_, rfl, hp⟩
  onError s c e hs h := ⟨hs, by ctx_simp [maxM, Machine.withInit]⟩
  onComplete s c hs h := by
    refine ⟨hs, ?_⟩
    obtain ⟨⟨c1, m⟩, rfl, hp⟩ := hs
    have : c1.derivedFrom sub := hp
    ctx_simp [maxM, Machine.withInit]

theorem max_ctx_partial' (sub : Ctx) (mode : SrcMode) (raw : List (Notif Int))
    (hne : ∀ c rest, raw ≠ .complete c :: rest)
    (hraw : ∀ x ∈ raw, x.ctx.derivedFrom sub) :
    AllFrom sub (runOp maxM mode sub raw).out := by
  intro n hn
  rw [runOp_out maxM mode sub raw rfl] at hn
  have hn := mem_gate hn
  change n ∈ maxM.emits none (gate raw) at hn
  cases raw with
  | nil => cases hn
  | cons x xs =>
    cases x with
    | next c v =>
      rw [gate_cons_next] at hn
      change n ∈ maxM.emits (some (c, v)) (gate xs) at hn
      have hc : c.derivedFrom sub := hraw _ (List.mem_cons_self ..)
      rw [← withInit_emits maxM (some (c, v))] at hn
      exact (maxM_from_ctxSafe c v sub hc).emits _ ⟨(c, v), rfl, hc⟩ (gate xs)
        (fun x hx => hraw x (List.mem_cons_of_mem _ (mem_gate hx))) n hn
    | error c e =>
      rw [gate_cons_error] at hn
      change n ∈ [Notif.error c e] at hn
      rw [List.mem_singleton] at hn
      subst hn
      exact hraw _ (List.mem_cons_self ..)
    | complete c => exact absurd rfl (hne c xs)

theorem max_ctx_partial (sub : Ctx) (mode : SrcMode) (raw : List (Notif Int))
    (hv : values raw ≠ [])
    (hraw : ∀ x ∈ raw, x.ctx.derivedFrom sub) :
    AllFrom sub (runOp maxM mode sub raw).out :=
  max_ctx_partial' sub mode raw (fun c rest h => hv (by rw [h]; rfl)) hraw

theorem max_empty_out_ctx (sub : Ctx) (mode : SrcMode) :
    (runOp maxM mode sub [.complete sub]).out = [.next Ctx.nil 0, .complete sub] := by
  rw [runOp_out maxM mode sub _ rfl]; rfl

/-- the deviation: a source that just completes (with the subscription context itself) makes
    `Max` deliver a value whose context is nil — for every subscription context and source mode -/
theorem max_ctx_witness (sub : Ctx) (mode : SrcMode) :
    ¬ AllFrom sub (runOp maxM mode sub [.complete sub]).out := by
  intro h
  rw [max_empty_out_ctx] at h
  have := (h _ (List.mem_cons_self ..)).1
  exact absurd this (by decide)

/-- … and the hypothesis of `max_ctx` is satisfied by that script whenever `sub` is not nil -/
theorem max_ctx_witness_hyp (sub : Ctx) (hsub : sub.isNil = false) :
    ∀ x ∈ [(Notif.complete sub : Notif Int)], x.ctx.derivedFrom sub := by
  intro x hx
  rw [List.mem_singleton] at hx
  subst hx
  exact Ctx.derivedFrom_refl sub hsub

/-! ### DefaultIfEmpty — DEVIATION of `ro.DefaultIfEmpty` (= `DefaultIfEmptyWithContext(context.Background(), v)`) -/

theorem defaultIfEmpty_empty_out (dc : Ctx) (d : α) (sub : Ctx) (mode : SrcMode) :
    (runOp (defaultIfEmptyM dc d) mode sub [.complete sub]).out = [.next dc d, .complete sub] := by
  rw [runOp_out (defaultIfEmptyM dc d) mode sub _ rfl]; rfl

/-- with the background context as configured context, the default delivered on an empty source
    does not carry any marker of the subscription context -/
theorem defaultIfEmpty_background_witness (d : α) (sub : Ctx) (m : Nat) (hm : m ∈ sub.marks)
    (mode : SrcMode) :
    ∃ n ∈ (runOp (defaultIfEmptyM Ctx.bg d) mode sub [.complete sub]).out,
      n = .next Ctx.bg d ∧ m ∉ n.ctx.marks ∧ ¬ n.ctx.derivedFrom sub := by
  rw [defaultIfEmpty_empty_out]
  refine ⟨_, List.mem_cons_self .., rfl, ?_, ?_⟩
  · show m ∉ ([] : List Nat)
    exact List.not_mem_nil
  · intro h
    exact absurd (h.2 m hm) List.not_mem_nil

theorem defaultIfEmpty_background_not_allFrom (d : α) (sub : Ctx) (m : Nat) (hm : m ∈ sub.marks)
    (mode : SrcMode) :
    ¬ AllFrom sub (runOp (defaultIfEmptyM Ctx.bg d) mode sub [.complete sub]).out := by
  intro h
  obtain ⟨n, hn, _, _, hnot⟩ := defaultIfEmpty_background_witness d sub m hm mode
  exact hnot (h n hn)

/-- concrete instance: subscription context carrying marker 7, non-nil; source completes at once -/
example : ¬ AllFrom (Ctx.bg.tag 7)
    (runOp (defaultIfEmptyM Ctx.bg (42 : Nat)) .sync (Ctx.bg.tag 7) [.complete (Ctx.bg.tag 7)]).out :=
  defaultIfEmpty_background_not_allFrom 42 (Ctx.bg.tag 7) 7 (by decide) .sync

/-! ### Reduce — invariant: `lastCtx` is derived from `sub` as soon as one value has been seen
    (its initial value `Ctx.nil` is never emitted: at `i = 0` the completion's context is used) -/

def reduceM_ctxSafe (f : Ctx → β → α → Nat → Ctx × β) (seed : β) (sub : Ctx)
    (hf : ∀ c b v i, c.isNil = false → (f c b v i).1.derivedFrom c) : CtxSafe (reduceM f seed) sub where
  Inv s := s.2.2 = 0 ∨ s.2.1.derivedFrom sub
  init := Or.inl rfl
  onSub s hs := ⟨hs, AllFrom.nil sub⟩
  onNext s c v _ h := ⟨Or.inr (Ctx.derivedFrom_trans (hf c s.1 v s.2.2 h.1) h), AllFrom.nil sub⟩
  onError s c e hs h := ⟨hs, by ctx_simp [reduceM]⟩
  onComplete s c hs h := by
    refine ⟨hs, ?_⟩
    show AllFrom sub [.next (if s.2.2 = 0 then c else s.2.1) s.1, .complete c]
    by_cases h0 : s.2.2 = 0
    · ctx_simp
    · have : s.2.1.derivedFrom sub := hs.resolve_left h0
      ctx_simp

theorem reduce_ctx (f : Ctx → β → α → Nat → Ctx × β) (seed : β) (sub : Ctx)
    (hf : ∀ c b v i, c.isNil = false → (f c b v i).1.derivedFrom c)
    (mode : SrcMode) (raw : List (Notif α)) (hraw : ∀ x ∈ raw, x.ctx.derivedFrom sub) :
    AllFrom sub (runOp (reduceM f seed) mode sub raw).out :=
  (reduceM_ctxSafe f seed sub hf).run mode raw hraw

/-! ## Exact provenance for the pass-through machines

  A machine `α → α` is a *pass-through* when it emits nothing at subscription and every
  notification it emits in reaction to `x` carries exactly `x`'s context, a value being `x` itself.
  Then every delivered notification carries the very context of some notification of the raw
  script, and every delivered value is a notification of the raw script (same value, same context).
-/

structure PassThrough (m : Machine σ α α) : Prop where
  onSub : ∀ s c, (m.onSubscribe s c).2 = []
  step : ∀ s x, ∀ n ∈ (m.step s x).2, n.ctx = x.ctx ∧ (n.isTerminal = false → n = x)

theorem PassThrough.emits {m : Machine σ α α} (pt : PassThrough m) (s : σ) (xs : List (Notif α)) :
    ∀ n ∈ m.emits s xs, ∃ x ∈ xs, n.ctx = x.ctx ∧ (n.isTerminal = false → n = x) := by
  induction xs generalizing s with
  | nil => intro n hn; cases hn
  | cons x xs ih =>
    intro n hn
    simp only [Machine.emits] at hn
    rcases List.mem_append.mp hn with h | h
    · exact ⟨x, List.mem_cons_self .., pt.step s x n h⟩
    · obtain ⟨y, hy, hp⟩ := ih _ n h
      exact ⟨y, List.mem_cons_of_mem _ hy, hp⟩

/-- every delivered notification carries the context of a notification of the raw script, and
    every delivered value is literally one of the raw script's notifications -/
theorem PassThrough.run {m : Machine σ α α} (pt : PassThrough m) (mode : SrcMode) (sub : Ctx)
    (raw : List (Notif α)) :
    ∀ n ∈ (runOp m mode sub raw).out, ∃ x ∈ raw, n.ctx = x.ctx ∧ (n.isTerminal = false → n = x) := by
  intro n hn
  cases hs : m.subscribes
  · rw [runOp_out_nosub m mode sub raw hs, pt.onSub] at hn
    cases hn
  · rw [runOp_out m mode sub raw hs, pt.onSub] at hn
    obtain ⟨x, hx, hp⟩ := pt.emits _ _ n (mem_gate hn)
    exact ⟨x, mem_gate hx, hp⟩

theorem PassThrough.ctx_exact {m : Machine σ α α} (pt : PassThrough m) (mode : SrcMode) (sub : Ctx)
    (raw : List (Notif α)) : ∀ n ∈ (runOp m mode sub raw).out, ∃ x ∈ raw, n.ctx = x.ctx := by
  intro n hn
  obtain ⟨x, hx, hp, _⟩ := pt.run mode sub raw n hn
  exact ⟨x, hx, hp⟩

theorem PassThrough.value_exact {m : Machine σ α α} (pt : PassThrough m) (mode : SrcMode) (sub : Ctx)
    (raw : List (Notif α)) (c : Ctx) (v : α) (h : .next c v ∈ (runOp m mode sub raw).out) :
    .next c v ∈ raw := by
  obtain ⟨x, hx, _, hp⟩ := pt.run mode sub raw _ h
  rw [hp rfl]; exact hx

/-- discharge `PassThrough.step` for a concrete machine -/
syntax "pass_step" (" [" Lean.Parser.Tactic.simpLemma,* "]")? : tactic
macro_rules
  | `(tactic| pass_step [$ts,*]) =>
    `(tactic| (intro s x; cases x <;>
        simp only [Machine.step, fwdE, fwdC, $ts,*] <;> (try split) <;> (try split) <;>
        simp [ctx_next, ctx_error, ctx_complete, *]))

theorem idM_pass : PassThrough (idM (α := α)) where
  onSub _ _ := rfl
  step := by pass_step [idM]

theorem skipM_pass (count : Nat) : PassThrough (skipM (α := α) count) where
  onSub _ _ := rfl
  step := by pass_step [skipM]

theorem takeM_pass (count : Nat) : PassThrough (takeM (α := α) count) where
  onSub _ _ := rfl
  step := by pass_step [takeM]

theorem ignoreElementsM_pass : PassThrough (ignoreElementsM (α := α)) where
  onSub _ _ := rfl
  step := by pass_step [ignoreElementsM]

theorem headM_pass : PassThrough (headM (α := α)) where
  onSub _ _ := rfl
  step := by pass_step [headM]

theorem elementAtM_pass (nth : Nat) : PassThrough (elementAtM (α := α) nth) where
  onSub _ _ := rfl
  step := by pass_step [elementAtM]

theorem findM_pass (p : Ctx → α → Nat → Bool) : PassThrough (findM p) where
  onSub _ _ := rfl
  step := by pass_step [findM]

theorem throwIfEmptyM_pass (e : Err) : PassThrough (throwIfEmptyM (α := α) e) where
  onSub _ _ := rfl
  step := by pass_step [throwIfEmptyM]

/-- `Filter` with a predicate that returns the context it was given -/
theorem filterM_pass (p : Pred α) (hp : ∀ c v i, (p c v i).1 = c) : PassThrough (filterM p) where
  onSub _ _ := rfl
  step := by pass_step [filterM]

theorem distinctByM_pass [DecidableEq κ] (key : Ctx → α → Ctx × κ) (hk : ∀ c v, (key c v).1 = c) :
    PassThrough (distinctByM key) where
  onSub _ _ := rfl
  step := by pass_step [distinctByM]

theorem skipWhileM_pass (p : Pred α) (hp : ∀ c v i, (p c v i).1 = c) : PassThrough (skipWhileM p) where
  onSub _ _ := rfl
  step := by pass_step [skipWhileM]

theorem takeWhileM_pass (p : Pred α) (hp : ∀ c v i, (p c v i).1 = c) : PassThrough (takeWhileM p) where
  onSub _ _ := rfl
  step := by pass_step [takeWhileM]

theorem firstM_pass (p : Pred α) (hp : ∀ c v i, (p c v i).1 = c) : PassThrough (firstM p) where
  onSub _ _ := rfl
  step := by pass_step [firstM]

/-! ### the named corollaries -/

theorem id_ctx_exact (mode : SrcMode) (sub : Ctx) (raw : List (Notif α)) :
    ∀ n ∈ (runOp (idM (α := α)) mode sub raw).out, ∃ x ∈ raw, n.ctx = x.ctx :=
  idM_pass.ctx_exact mode sub raw

theorem id_value_exact (mode : SrcMode) (sub : Ctx) (raw : List (Notif α)) (c : Ctx) (v : α)
    (h : .next c v ∈ (runOp (idM (α := α)) mode sub raw).out) : .next c v ∈ raw :=
  idM_pass.value_exact mode sub raw c v h

theorem skip_ctx_exact (k : Nat) (mode : SrcMode) (sub : Ctx) (raw : List (Notif α)) :
    ∀ n ∈ (runOp (skipM k) mode sub raw).out, ∃ x ∈ raw, n.ctx = x.ctx :=
  (skipM_pass k).ctx_exact mode sub raw

theorem skip_value_exact (k : Nat) (mode : SrcMode) (sub : Ctx) (raw : List (Notif α)) (c : Ctx) (v : α)
    (h : .next c v ∈ (runOp (skipM k) mode sub raw).out) : .next c v ∈ raw :=
  (skipM_pass k).value_exact mode sub raw c v h

theorem take_ctx_exact (k : Nat) (mode : SrcMode) (sub : Ctx) (raw : List (Notif α)) :
    ∀ n ∈ (runOp (takeM k) mode sub raw).out, ∃ x ∈ raw, n.ctx = x.ctx :=
  (takeM_pass k).ctx_exact mode sub raw

theorem take_value_exact (k : Nat) (mode : SrcMode) (sub : Ctx) (raw : List (Notif α)) (c : Ctx) (v : α)
    (h : .next c v ∈ (runOp (takeM k) mode sub raw).out) : .next c v ∈ raw :=
  (takeM_pass k).value_exact mode sub raw c v h

theorem filter_ctx_exact (p : Pred α) (hp : ∀ c v i, (p c v i).1 = c)
    (mode : SrcMode) (sub : Ctx) (raw : List (Notif α)) :
    ∀ n ∈ (runOp (filterM p) mode sub raw).out, ∃ x ∈ raw, n.ctx = x.ctx :=
  (filterM_pass p hp).ctx_exact mode sub raw

theorem filter_value_exact (p : Pred α) (hp : ∀ c v i, (p c v i).1 = c)
    (mode : SrcMode) (sub : Ctx) (raw : List (Notif α)) (c : Ctx) (v : α)
    (h : .next c v ∈ (runOp (filterM p) mode sub raw).out) : .next c v ∈ raw :=
  (filterM_pass p hp).value_exact mode sub raw c v h

theorem distinctBy_ctx_exact [DecidableEq κ] (key : Ctx → α → Ctx × κ) (hk : ∀ c v, (key c v).1 = c)
    (mode : SrcMode) (sub : Ctx) (raw : List (Notif α)) :
    ∀ n ∈ (runOp (distinctByM key) mode sub raw).out, ∃ x ∈ raw, n.ctx = x.ctx :=
  (distinctByM_pass key hk).ctx_exact mode sub raw

theorem distinctBy_value_exact [DecidableEq κ] (key : Ctx → α → Ctx × κ) (hk : ∀ c v, (key c v).1 = c)
    (mode : SrcMode) (sub : Ctx) (raw : List (Notif α)) (c : Ctx) (v : α)
    (h : .next c v ∈ (runOp (distinctByM key) mode sub raw).out) : .next c v ∈ raw :=
  (distinctByM_pass key hk).value_exact mode sub raw c v h

/-! ## Non-vacuity: the hypotheses are satisfiable on scripts that deliver something -/

section Examples

local instance (d c : Ctx) : Decidable (d.derivedFrom c) := by unfold Ctx.derivedFrom; exact inferInstance

/-- subscription context with marker 1 -/
private def sub1 : Ctx := Ctx.bg.tag 1
/-- a legal prefix (per-item marker on the first value), a terminal, and an illegal suffix -/
private def script1 : List (Notif Nat) :=
  [.next (sub1.tag 5) 10, .next sub1 11, .next sub1 12, .complete (sub1.tag 9), .next sub1 13]

example : ∀ x ∈ script1, x.ctx.derivedFrom sub1 := by decide

example : (runOp (takeM 2) .hot sub1 script1).out =
    [.next (sub1.tag 5) 10, .next sub1 11, .complete sub1] := by decide

example : (runOp (takeLastM 2) .sync sub1 script1).out =
    [.next sub1 11, .next sub1 12, .complete (sub1.tag 9)] := by decide

/-- a reducer that adds a marker to the context it is given -/
example : (runOp (reduceM (fun c b v _ => (c.tag 3, b + v)) 0) .sync sub1 script1).out =
    [.next (sub1.tag 3) 33, .complete (sub1.tag 9)] := by decide

/-- … and it satisfies the callback hypothesis of `reduce_ctx` -/
example : ∀ (c : Ctx) (b v i : Nat), c.isNil = false →
    ((fun (c : Ctx) (b v _ : Nat) => (c.tag 3, b + v)) c b v i).1.derivedFrom c :=
  fun c _ _ _ h => Ctx.derivedFrom_tag c 3 h

/-- the identity callback (returns the context it was given) satisfies the hypothesis of `filter_ctx` -/
example (q : Nat → Bool) : ∀ (c : Ctx) (v i : Nat), c.isNil = false →
    ((fun (c : Ctx) (v _ : Nat) => (c, q v)) c v i).1.derivedFrom c :=
  fun c _ _ h => Ctx.derivedFrom_refl c h

/-- `Max` on a script with a value: fine; on the empty script: nil context -/
example : (runOp maxM .sync sub1 [.next (sub1.tag 5) 4, .next sub1 3, .complete sub1]).out =
    [.next (sub1.tag 5) 4, .complete sub1] := by decide
example : (runOp maxM .sync sub1 [.complete sub1]).out = [.next Ctx.nil 0, .complete sub1] := by decide

/-- `DefaultIfEmpty` (background context) on the empty script: marker 1 is lost -/
example : (runOp (defaultIfEmptyM Ctx.bg (42 : Nat)) .sync sub1 [.complete sub1]).out =
    [.next Ctx.bg 42, .complete sub1] := by decide

end Examples

end Ro

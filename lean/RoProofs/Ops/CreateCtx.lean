/-
  RoProofs.Ops.CreateCtx — C09 for the synchronous creation operators
  (Of/Just, FromSlice, Empty, Throw, Range, Repeat, Start, Defer, Iif).

  "The context flows from Subscribe through every callback and is never nil": a creation operator
  has no upstream, so the only context it can (and does) hand to the subscriber is the
  subscription context itself — for every value, for the terminal, and for the panic that
  `SubscribeWithContext` recovers from a panicking `Start` callback / `Defer` factory.

  A. `Gen.SubCtx g`: every notification `g` offers carries exactly the subscription context;
     one theorem per generator (Defer and Iif relative to their inner generators);
  B. what a direct subscriber receives carries the subscription context (`Gen.delivered_ctx`),
     hence a context derived from it, never nil (`Gen.delivered_allFrom`);
  C. with a certified machine downstream the whole pipeline does (`Gen.pipe_allFrom`);
  D. non-vacuity: concrete runs, and a hand-made generator that is *not* `SubCtx`.
-/
import RoProofs.Ops.CreateSpecs
import RoProofs.CtxFlow
namespace Ro
variable {α : Type}

/-- every notification a creation operator offers (recovered panic included) carries exactly the
    subscription context -/
def Gen.SubCtx (g : Gen α) : Prop := ∀ c, ∀ n ∈ (g c).raw c, n.ctx = c

/-! ### A. one theorem per generator -/

/-- the common shape: values carrying `c`, then one notification carrying `c`, and no panic -/
theorem Emission.raw_ctx_of_legal (em : Emission α) (c : Ctx) (l : List α) (t : Notif α) (ht : t.ctx = c)
    (hs : em.script = l.map (Notif.next c) ++ [t]) (hp : em.panic = none) :
    ∀ n ∈ em.raw c, n.ctx = c := by
  intro n hn
  rw [Emission.raw_of_noPanic em c hp, hs] at hn
  rcases List.mem_append.mp hn with h | h
  · obtain ⟨v, _, rfl⟩ := List.mem_map.mp h
    rfl
  · rw [List.mem_singleton.mp h]; exact ht

theorem ofG_subCtx (vs : List α) : (ofG vs).SubCtx := fun c =>
  Emission.raw_ctx_of_legal _ c vs (.complete c) rfl (ofG_script vs c).1 (ofG_script vs c).2

theorem fromSliceG_subCtx (vss : List (List α)) : (fromSliceG vss).SubCtx := fun c =>
  Emission.raw_ctx_of_legal _ c vss.flatten (.complete c) rfl
    (fromSliceG_script vss c).1 (fromSliceG_script vss c).2

theorem emptyG_subCtx : (emptyG : Gen α).SubCtx := fun c =>
  Emission.raw_ctx_of_legal _ c [] (.complete c) rfl rfl rfl

theorem throwG_subCtx (e : Err) : (throwG e : Gen α).SubCtx := fun c =>
  Emission.raw_ctx_of_legal _ c [] (.error c e) rfl rfl rfl

theorem rangeG_subCtx (start endv : Int) : (rangeG start endv).SubCtx := fun c =>
  Emission.raw_ctx_of_legal _ c (Spec.rangeValues start endv) (.complete c) rfl
    (rangeG_script start endv c).1 (rangeG_script start endv c).2

theorem repeatG_subCtx (item : α) (count : Nat) : (repeatG item count).SubCtx := fun c =>
  Emission.raw_ctx_of_legal _ c (List.replicate count item) (.complete c) rfl
    (by rw [(repeatG_script item count c).1]; simp [Spec.repeatScript]) (repeatG_script item count c).2

/-- `Start`, both outcomes: the value and the completion carry the subscription context, and so
    does the recovered panic of a panicking callback (observable.go:313-317) -/
theorem startG_subCtx (cb : Outcome α) : (startG cb).SubCtx := by
  intro c n hn
  cases cb with
  | ok v =>
    rw [startG_ok] at hn
    simp only [Spec.startScript, List.mem_cons, List.not_mem_nil, or_false] at hn
    rcases hn with rfl | rfl <;> rfl
  | panic p =>
    rw [startG_panic] at hn
    simp only [Spec.panicScript, List.mem_singleton] at hn
    subst hn; rfl

/-- `Defer` subscribes the factory's observable with the same context: it is `SubCtx` as soon as
    that observable is -/
theorem deferG_subCtx_ok (g : Gen α) (h : g.SubCtx) : (deferG (.ok g)).SubCtx := by
  intro c n hn
  rw [deferG_ok] at hn
  exact h c n hn

/-- a panicking factory: the recovered panic is delivered with the subscription context -/
theorem deferG_subCtx_panic (p : Err) : (deferG (.panic p : Outcome (Gen α))).SubCtx := by
  intro c n hn
  rw [deferG_panic] at hn
  simp only [Spec.panicScript, List.mem_singleton] at hn
  subst hn; rfl

theorem iifG_subCtx (b : Bool) (g1 g2 : Gen α) (h1 : g1.SubCtx) (h2 : g2.SubCtx) : (iifG b g1 g2).SubCtx := by
  cases b
  · exact h2
  · exact h1

/-! ### B. what a direct subscriber receives -/

/-- every delivered notification carries exactly the subscription context -/
theorem Gen.delivered_ctx (g : Gen α) (h : g.SubCtx) (c : Ctx) : ∀ n ∈ g.delivered c, n.ctx = c := by
  intro n hn
  rw [Gen.delivered_eq] at hn
  exact h c n (mem_gate hn)

/-- **C09 for a creation operator subscribed directly**: every delivered context is derived from
    the subscription context (it *is* that context) — never nil when the subscription context
    is not -/
theorem Gen.delivered_allFrom (g : Gen α) (h : g.SubCtx) (c : Ctx) (hc : c.isNil = false) :
    AllFrom c (g.delivered c) := by
  intro n hn
  rw [Gen.delivered_ctx g h c n hn]
  exact Ctx.derivedFrom_refl c hc

theorem Gen.delivered_notNil (g : Gen α) (h : g.SubCtx) (c : Ctx) (hc : c.isNil = false) :
    ∀ n ∈ g.delivered c, n.ctx.isNil = false :=
  (Gen.delivered_allFrom g h c hc).notNil

/-! ### C. with a certified machine downstream -/

/-- **C09 for `creation operator |> certified machine`**: the generator feeds the machine only the
    subscription context, the machine only emits contexts derived from what it is given -/
theorem Gen.pipe_allFrom {σ β : Type} (g : Gen α) (h : g.SubCtx) (m : Machine σ α β) (c : Ctx)
    (hc : c.isNil = false) (cs : CtxSafe m c) : AllFrom c (g.pipe m c).out :=
  cs.run .sync ((g c).raw c) (fun x hx => by rw [h c x hx]; exact Ctx.derivedFrom_refl c hc)

/-! ### D. non-vacuity -/

example : ((rangeG 1 3).delivered { marks := [7] }).map Notif.ctx
    = [{ marks := [7] }, { marks := [7] }, { marks := [7] }] := by decide

example : ((startG (.panic (.panicVal 9) : Outcome Nat)).delivered { marks := [7] }).map Notif.ctx
    = [{ marks := [7] }] := by decide

example : ((deferG (.ok (iifG false (throwG (.user 1)) (ofG [1, 2]))) : Gen Nat).delivered (Ctx.bg.tag 3)).map Notif.ctx
    = [{ marks := [3] }, { marks := [3] }, { marks := [3] }] := by decide

/-- the composed theorems apply to a nested generator -/
example : (deferG (.ok (iifG true (rangeG 1 3) (startG (.panic (.user 2)))))).SubCtx :=
  deferG_subCtx_ok _ (iifG_subCtx _ _ _ (rangeG_subCtx 1 3) (startG_subCtx _))

/-- the property is not vacuous: a generator that emits with `context.Background()` instead of the
    subscription context is refuted by any marked subscription context -/
theorem bgGen_not_subCtx : ¬ Gen.SubCtx (fun _ => { script := [.complete Ctx.bg] } : Gen Nat) := by
  intro h
  have := h { marks := [7] } (.complete Ctx.bg) (by decide)
  revert this
  decide

/-- … and its delivered context is indeed not derived from the subscription context -/
example : ¬ AllFrom { marks := [7] }
    (Gen.delivered (fun _ => { script := [.complete Ctx.bg] } : Gen Nat) { marks := [7] }) := by
  intro h
  have := (h (.complete Ctx.bg) (by decide)).2 7 (by decide)
  revert this
  decide

end Ro

/-
  RoProofs.Ops.Basic — machine = specification, first family (template for the others).
  Pattern: `runOp_out_plain` reduces the run to `gate (emitsV … ++ emitsE …)`; an induction on the
  value list with the machine state generalised gives the emissions; `gate` is discharged by the
  "no terminal among values" lemmas.
-/
import RoProofs.Script
import RoModel.Ops.Aggregate
import RoModel.Spec.Ops
namespace Ro
variable {α β : Type}

theorem hasTerm_nexts (vs : List (Ctx × α)) : hasTerm (Spec.nexts vs) = false := hasTerm_map_next vs

/-! ### Map -/

theorem mapM_emitsV (f : Ctx → α → Nat → Ctx × β) (i : Nat) (vs : List (Ctx × α)) :
    (mapM f).emitsV i vs = (vs.zipIdx i).map (fun q => Notif.next (f q.1.1 q.1.2 q.2).1 (f q.1.1 q.1.2 q.2).2) := by
  induction vs generalizing i with
  | nil => rfl
  | cons p ps ih =>
    obtain ⟨c, v⟩ := p
    simp [Machine.emitsV, mapM, List.zipIdx_cons] at *
    exact ih (i + 1)

theorem hasTerm_map_nextlike {γ : Type} (l : List γ) (g : γ → Ctx) (h : γ → β) :
    hasTerm (l.map (fun q => Notif.next (g q) (h q))) = false := by
  induction l with
  | nil => rfl
  | cons p ps ih => simp [ih]

theorem map_spec (f : Ctx → α → Nat → Ctx × β) (mode : SrcMode) (sub : Ctx) (raw : List (Notif α)) :
    (runOp (mapM f) mode sub raw).out = Spec.map f (values raw) (ending raw) := by
  rw [runOp_out_plain _ _ _ _ rfl (fun _ _ => rfl)]
  rw [mapM_emitsV, emitsE_fwd _ _ _ (fun _ _ _ => rfl) (fun _ _ => rfl)]
  exact gate_values_ending _ _ (hasTerm_map_nextlike _ _ _)

/-! ### Skip -/

theorem skipM_emitsV (n i : Nat) (vs : List (Ctx × α)) :
    (skipM n).emitsV i vs = Spec.nexts (vs.drop (n - i)) := by
  induction vs generalizing i with
  | nil => simp [Machine.emitsV, Spec.nexts]
  | cons p ps ih =>
    obtain ⟨c, v⟩ := p
    have hstep : (skipM (α := α) n).emitsV i ((c, v) :: ps) =
        (if i ≥ n then [Notif.next c v] else []) ++ (skipM n).emitsV (i + 1) ps := rfl
    rw [hstep, ih (i + 1)]
    by_cases h : i ≥ n
    · have h1 : n - i = 0 := by omega
      have h2 : n - (i + 1) = 0 := by omega
      simp [h, h1, h2, Spec.nexts]
    · have h1 : n - i = (n - (i + 1)) + 1 := by omega
      simp [h, h1, Spec.nexts]

theorem skip_spec (n : Nat) (mode : SrcMode) (sub : Ctx) (raw : List (Notif α)) :
    (runOp (skipM n) mode sub raw).out = Spec.skip n (values raw) (ending raw) := by
  rw [runOp_out_plain _ _ _ _ rfl (fun _ _ => rfl)]
  rw [skipM_emitsV, emitsE_fwd _ _ _ (fun _ _ _ => rfl) (fun _ _ => rfl)]
  exact gate_values_ending _ _ (hasTerm_nexts _)

/-! ### IgnoreElements -/

theorem ignoreM_emitsV (vs : List (Ctx × α)) : (ignoreElementsM (α := α)).emitsV () vs = [] := by
  induction vs with
  | nil => rfl
  | cons p ps ih => obtain ⟨c, v⟩ := p; simpa [Machine.emitsV, ignoreElementsM] using ih

theorem ignoreElements_spec (mode : SrcMode) (sub : Ctx) (raw : List (Notif α)) :
    (runOp (ignoreElementsM (α := α)) mode sub raw).out = Spec.ignoreElements (values raw) (ending raw) := by
  rw [runOp_out_plain _ _ _ _ rfl (fun _ _ => rfl)]
  rw [ignoreM_emitsV, emitsE_fwd _ _ _ (fun _ _ _ => rfl) (fun _ _ => rfl)]
  simpa [Spec.ignoreElements] using gate_values_ending [] (ending raw) rfl

/-! ### Take -/

theorem takeM_emitsV (n i : Nat) (vs : List (Ctx × α)) (hi : i < n) :
    gate ((takeM n).emitsV i vs ++ (ending_ : Ending).toList (α := α)) =
      if n - i ≤ vs.length then
        Spec.nexts (vs.take (n - i)) ++ (match (vs.take (n - i)).getLast? with | some p => [Notif.complete p.1] | none => [])
      else Spec.nexts vs ++ ending_.toList := by
  induction vs generalizing i with
  | nil =>
    have : ¬ (n - i ≤ 0) := by omega
    simp [Machine.emitsV, Spec.nexts, this]
    cases ending_ <;> simp [Ending.toList, gate]
  | cons p ps ih =>
    obtain ⟨c, v⟩ := p
    have hstep : (takeM (α := α) n).emitsV i ((c, v) :: ps) =
        (if i + 1 ≥ n then [Notif.next c v, Notif.complete c] else [Notif.next c v]) ++ (takeM n).emitsV (i + 1) ps := rfl
    rw [hstep]
    by_cases h : i + 1 ≥ n
    · have hn : n - i = 1 := by omega
      simp [h, hn, gate, Spec.nexts]
    · have hlt : i + 1 < n := by omega
      have := ih (i + 1) hlt
      simp only [h, if_false, List.cons_append, List.nil_append, gate, Notif.isTerminal_next, Bool.false_eq_true]
      rw [this]
      have hk : n - i = (n - (i + 1)) + 1 := by omega
      rw [hk]
      by_cases hl : n - (i + 1) ≤ ps.length
      · have hpos : 0 < n - (i + 1) := by omega
        have hne : ps.take (n - (i + 1)) ≠ [] := by
          intro hnil
          rw [List.take_eq_nil_iff] at hnil
          rcases hnil with h0 | h0
          · omega
          · subst h0; simp at hl; omega
        simp [hl, Spec.nexts, List.take_succ_cons, List.getLast?_cons_of_ne_nil hne]
      · simp [hl, Spec.nexts]

theorem take_spec (n : Nat) (hn : 0 < n) (mode : SrcMode) (sub : Ctx) (raw : List (Notif α)) :
    (runOp (takeM n) mode sub raw).out = Spec.take n (values raw) (ending raw) := by
  rw [runOp_out_plain _ _ _ _ rfl (fun _ _ => rfl)]
  rw [emitsE_fwd _ _ _ (fun _ _ _ => rfl) (fun _ _ => rfl)]
  have := takeM_emitsV (α := α) (ending_ := ending raw) n 0 (values raw) hn
  simp only [Nat.sub_zero] at this
  exact this

end Ro

/-
  RoProofs.Ops.MoreSpecs — machine = specification for the machines of RoModel/Ops/More.lean
  (ContextWithValue, ContextMap(I) / ContextWithTimeout / ContextWithDeadline, ContextReset, Cast,
  Tap*/Do* with their side effects, TimeInterval / Timestamp, Average, and the float `Map`s
  Round / Abs / Floor / Ceil / Trunc) against RoModel/Spec/More.lean.
  Pattern (RoProofs/Ops/Basic.lean): `runOp_out_plain`, then an induction on the value list with
  the machine state generalised, then the "no terminal among values" lemmas.
  For the side effects of `Tap` (the final machine *state*) there is a generic lemma about the
  state after a run, `runOp_st_quiet`: a machine that never answers a value with a terminal is
  invoked on exactly the legal part of the script, in both source modes.
-/
import RoProofs.Ops.Basic
import RoModel.Ops.More
import RoModel.Spec.More
namespace Ro
variable {σ α β τ : Type}

/-! ### local helpers -/

private theorem gate_toList' (e : Ending) : gate (e.toList (α := α)) = e.toList := by
  cases e <;> simp [Ending.toList, gate]

/-- a function of the element only does not see the index -/
private theorem map_zipIdx_fst {γ δ : Type} (g : γ → δ) (l : List γ) (i : Nat) :
    (l.zipIdx i).map (fun q => g q.1) = l.map g := by
  induction l generalizing i with
  | nil => rfl
  | cons a as ih => simp [List.zipIdx_cons, ih]

/-! ### ContextWithValue -/

theorem ctxWithValueM_emitsV (m : Nat) (vs : List (Ctx × α)) :
    (ctxWithValueM (α := α) m).emitsV () vs = vs.map (fun p => Notif.next (p.1.tag m) p.2) := by
  induction vs with
  | nil => rfl
  | cons p ps ih =>
    obtain ⟨c, v⟩ := p
    have h1 : (ctxWithValueM (α := α) m).emitsV () ((c, v) :: ps) =
        [Notif.next (c.tag m) v] ++ (ctxWithValueM (α := α) m).emitsV () ps := rfl
    rw [h1, ih]; rfl

theorem ctxWithValueM_emitsE (m : Nat) (s : Unit) (e : Ending) :
    (ctxWithValueM (α := α) m).emitsE s e = (Spec.endingMapCtx (·.tag m) e).toList := by
  cases e <;> rfl

theorem ctxWithValue_spec (m : Nat) (mode : SrcMode) (sub : Ctx) (raw : List (Notif α)) :
    (runOp (ctxWithValueM (α := α) m) mode sub raw).out = Spec.ctxWithValue m (values raw) (ending raw) := by
  rw [runOp_out_plain _ _ _ _ rfl (fun _ _ => rfl)]
  rw [ctxWithValueM_emitsV, ctxWithValueM_emitsE]
  exact gate_values_ending _ _ (hasTerm_map_nextlike _ _ _)

private def ex_ctxWithValue : List (Notif Nat) :=
  [.next (Ctx.bg.tag 1) 5, .next (Ctx.bg.tag 2) 6, .error (Ctx.bg.tag 3) (.user 4), .next Ctx.bg 7,
   .complete Ctx.bg]
example :
    (runOp (ctxWithValueM (α := Nat) 9) .hot Ctx.bg ex_ctxWithValue).out =
      [.next ((Ctx.bg.tag 1).tag 9) 5, .next ((Ctx.bg.tag 2).tag 9) 6,
       .error ((Ctx.bg.tag 3).tag 9) (.user 4)] ∧
    Spec.ctxWithValue 9 (values ex_ctxWithValue) (ending ex_ctxWithValue) =
      [.next ((Ctx.bg.tag 1).tag 9) 5, .next ((Ctx.bg.tag 2).tag 9) 6,
       .error ((Ctx.bg.tag 3).tag 9) (.user 4)] := by
  decide

/-! ### ContextMap / ContextMapI / ContextWithTimeout / ContextWithDeadline -/

theorem contextMapM_emitsV (f : Ctx → Nat → Ctx) (i : Nat) (vs : List (Ctx × α)) :
    (contextMapM (α := α) f).emitsV i vs =
      (vs.zipIdx i).map (fun q => Notif.next (f q.1.1 q.2) q.1.2) := by
  induction vs generalizing i with
  | nil => rfl
  | cons p ps ih =>
    obtain ⟨c, v⟩ := p
    have h1 : (contextMapM (α := α) f).emitsV i ((c, v) :: ps) =
        [Notif.next (f c i) v] ++ (contextMapM (α := α) f).emitsV (i + 1) ps := rfl
    rw [h1, ih (i + 1)]
    simp [List.zipIdx_cons]

theorem contextMap_spec (f : Ctx → Nat → Ctx) (mode : SrcMode) (sub : Ctx) (raw : List (Notif α)) :
    (runOp (contextMapM (α := α) f) mode sub raw).out = Spec.contextMap f (values raw) (ending raw) := by
  rw [runOp_out_plain _ _ _ _ rfl (fun _ _ => rfl)]
  rw [show (contextMapM (α := α) f).init = 0 from rfl, contextMapM_emitsV,
    emitsE_fwd _ _ _ (fun _ _ _ => rfl) (fun _ _ => rfl)]
  exact gate_values_ending _ _ (hasTerm_map_nextlike _ _ _)

private def ex_contextMap : List (Notif Nat) :=
  [.next (Ctx.bg.tag 1) 5, .next (Ctx.bg.tag 2) 6, .complete (Ctx.bg.tag 3), .next Ctx.bg 7,
   .error Ctx.bg (.user 1)]
example :
    (runOp (contextMapM (α := Nat) (fun c i => c.tag (10 + i))) .hot Ctx.bg ex_contextMap).out =
      [.next ((Ctx.bg.tag 1).tag 10) 5, .next ((Ctx.bg.tag 2).tag 11) 6, .complete (Ctx.bg.tag 3)] ∧
    Spec.contextMap (fun c i => c.tag (10 + i)) (values ex_contextMap) (ending ex_contextMap) =
      [.next ((Ctx.bg.tag 1).tag 10) 5, .next ((Ctx.bg.tag 2).tag 11) 6, .complete (Ctx.bg.tag 3)] := by
  decide

/-! ### ContextReset -/

theorem contextResetM_emitsV (nc : Ctx) (vs : List (Ctx × α)) :
    (contextResetM (α := α) nc).emitsV () vs = vs.map (fun p => Notif.next nc p.2) := by
  induction vs with
  | nil => rfl
  | cons p ps ih =>
    obtain ⟨c, v⟩ := p
    have h1 : (contextResetM (α := α) nc).emitsV () ((c, v) :: ps) =
        [Notif.next nc v] ++ (contextResetM (α := α) nc).emitsV () ps := rfl
    rw [h1, ih]; rfl

theorem contextResetM_emitsE (nc : Ctx) (s : Unit) (e : Ending) :
    (contextResetM (α := α) nc).emitsE s e = (Spec.endingMapCtx (fun _ => nc) e).toList := by
  cases e <;> rfl

theorem contextReset_spec (nc : Ctx) (mode : SrcMode) (sub : Ctx) (raw : List (Notif α)) :
    (runOp (contextResetM (α := α) nc) mode sub raw).out = Spec.contextReset nc (values raw) (ending raw) := by
  rw [runOp_out_plain _ _ _ _ rfl (fun _ _ => rfl)]
  rw [contextResetM_emitsV, contextResetM_emitsE]
  exact gate_values_ending _ _ (hasTerm_map_nextlike _ _ _)

private def ex_contextReset : List (Notif Nat) :=
  [.next (Ctx.bg.tag 1) 5, .next (Ctx.bg.tag 2) 6, .complete (Ctx.bg.tag 3), .next Ctx.bg 7]
example :
    (runOp (contextResetM (α := Nat) (Ctx.bg.tag 8)) .hot (Ctx.bg.tag 4) ex_contextReset).out =
      [.next (Ctx.bg.tag 8) 5, .next (Ctx.bg.tag 8) 6, .complete (Ctx.bg.tag 8)] ∧
    Spec.contextReset (Ctx.bg.tag 8) (values ex_contextReset) (ending ex_contextReset) =
      [.next (Ctx.bg.tag 8) 5, .next (Ctx.bg.tag 8) 6, .complete (Ctx.bg.tag 8)] := by
  decide

/-! ### Cast -/

theorem castM_gate (ok : α → Option β) (err : Err) (vs : List (Ctx × α)) (e : Ending) :
    gate ((castM ok err).emitsV () vs ++ e.toList) = Spec.cast ok err vs e := by
  induction vs with
  | nil => simpa [Machine.emitsV, Spec.cast] using gate_toList' e
  | cons p ps ih =>
    obtain ⟨c, v⟩ := p
    have h1 : (castM ok err).emitsV () ((c, v) :: ps) =
        (match ok v with
         | some u => [Notif.next c u]
         | none => [Notif.error c err]) ++ (castM ok err).emitsV () ps := rfl
    rw [h1]
    unfold Spec.cast at ih ⊢
    cases h : ok v with
    | some u => simp [h, gate, ih]
    | none => simp [h, gate]

theorem cast_spec (ok : α → Option β) (err : Err) (mode : SrcMode) (sub : Ctx) (raw : List (Notif α)) :
    (runOp (castM ok err) mode sub raw).out = Spec.cast ok err (values raw) (ending raw) := by
  rw [runOp_out_plain _ _ _ _ rfl (fun _ _ => rfl)]
  rw [emitsE_fwd _ _ _ (fun _ _ _ => rfl) (fun _ _ => rfl)]
  exact castM_gate ok err _ _

private def ex_cast : List (Notif Nat) :=
  [.next (Ctx.bg.tag 1) 4, .next (Ctx.bg.tag 2) 7, .next (Ctx.bg.tag 3) 6, .complete (Ctx.bg.tag 4),
   .next Ctx.bg 8]
private def ex_castOk : Nat → Option Bool := fun v => if v % 2 = 0 then some (decide (v > 5)) else none
example :
    (runOp (castM ex_castOk (.sentinel 3)) .hot Ctx.bg ex_cast).out =
      [.next (Ctx.bg.tag 1) false, .error (Ctx.bg.tag 2) (.sentinel 3)] ∧
    Spec.cast ex_castOk (.sentinel 3) (values ex_cast) (ending ex_cast) =
      [.next (Ctx.bg.tag 1) false, .error (Ctx.bg.tag 2) (.sentinel 3)] := by
  decide
private def ex_castAllOk : List (Notif Nat) :=
  [.next (Ctx.bg.tag 1) 4, .next (Ctx.bg.tag 3) 6, .complete (Ctx.bg.tag 4), .next Ctx.bg 7]
example :
    (runOp (castM ex_castOk (.sentinel 3)) .sync Ctx.bg ex_castAllOk).out =
      [.next (Ctx.bg.tag 1) false, .next (Ctx.bg.tag 3) true, .complete (Ctx.bg.tag 4)] ∧
    Spec.cast ex_castOk (.sentinel 3) (values ex_castAllOk) (ending ex_castAllOk) =
      [.next (Ctx.bg.tag 1) false, .next (Ctx.bg.tag 3) true, .complete (Ctx.bg.tag 4)] := by
  decide

/-! ### the state after a run

  `fold_out` (RoProofs/Gate.lean) describes what is delivered; the lemmas below describe the
  machine state at the end of the run, i.e. which upstream notifications the operator's callbacks
  were invoked on. While the upstream gate is open the state follows `m.after`; the upstream gate
  closes at the source's own terminal or — hot source — when downstream has closed. For a machine
  that never answers a *value* with a terminal, downstream can only close at the source's own
  terminal, so in both modes the callbacks see exactly `gate raw`. -/

theorem fold_closed_st (m : Machine σ α β) (mode) (raw : List (Notif α)) (r : RunSt σ α β)
    (h : r.upOpen = false) : (raw.foldl (RunSt.feed m mode) r).st = r.st := by
  induction raw generalizing r with
  | nil => rfl
  | cons x xs ih =>
    simp only [List.foldl]
    rw [ih _ (feed_closed_out m mode r x h).2]
    simp [RunSt.feed, h]

theorem push_downOpen_of_nonterm (r : RunSt σ α β) (n : Notif β) (hd : r.downOpen = true)
    (hn : n.isTerminal = false) : (r.push n).downOpen = true := by
  unfold RunSt.push; simp [hd, hn]

theorem pushAll_downOpen_of_noTerm (r : RunSt σ α β) (ns : List (Notif β)) (hd : r.downOpen = true)
    (h : hasTerm ns = false) : (r.pushAll ns).downOpen = true := by
  induction ns generalizing r with
  | nil => simpa [RunSt.pushAll] using hd
  | cons n ns ih =>
    simp only [hasTerm_cons, Bool.or_eq_false_iff] at h
    simp only [RunSt.pushAll, List.foldl] at *
    exact ih _ (push_downOpen_of_nonterm r n hd h.1) h.2

/-- **State of a run, quiet machines.** If the machine never emits a terminal in reaction to a
    value, then from any state with both gates open the final machine state is the state after
    the upstream-gated script — whatever the raw script and the source mode. -/
theorem fold_st_quiet (m : Machine σ α β) (hq : ∀ s c v, hasTerm (m.onNext s c v).2 = false)
    (mode) (raw : List (Notif α)) (r : RunSt σ α β) (hu : r.upOpen = true) (hd : r.downOpen = true) :
    (raw.foldl (RunSt.feed m mode) r).st = m.after r.st (gate raw) := by
  induction raw generalizing r with
  | nil => rfl
  | cons x xs ih =>
    simp only [List.foldl]
    have hfeed : r.feed m mode x =
        (({ r with st := (m.step r.st x).1 } : RunSt σ α β).pushAll (m.step r.st x).2).settle mode x.isTerminal r.out.length := by
      simp only [RunSt.feed, hu, if_true]
    rw [hfeed]
    cases x with
    | next c v =>
      have hd1 : (({ r with st := (m.step r.st (.next c v)).1 } : RunSt σ α β).pushAll
          (m.step r.st (.next c v)).2).downOpen = true :=
        pushAll_downOpen_of_noTerm _ _ hd (hq r.st c v)
      rw [ih _ (by simp [RunSt.settle, hd1]) (by simpa [RunSt.settle] using hd1)]
      simp [RunSt.settle, gate_cons_next, Machine.after]
    | error c e =>
      rw [fold_closed_st _ _ _ _ (by simp [RunSt.settle])]
      simp [RunSt.settle, gate_cons_error, Machine.after]
    | complete c =>
      rw [fold_closed_st _ _ _ _ (by simp [RunSt.settle])]
      simp [RunSt.settle, gate_cons_complete, Machine.after]

theorem runOp_st_quiet (m : Machine σ α β) (mode : SrcMode) (sub : Ctx) (raw : List (Notif α))
    (hs : m.subscribes = true) (h0 : ∀ s c, m.onSubscribe s c = (s, []))
    (hq : ∀ s c v, hasTerm (m.onNext s c v).2 = false) :
    (runOp m mode sub raw).st = m.after m.init (gate raw) := by
  unfold runOp
  simp only [hs, if_true]
  have hstart : m.start sub = ({ st := m.init } : RunSt σ α β) := by
    simp [Machine.start, h0, RunSt.pushAll]
  rw [hstart]
  have hafter : (({ st := m.init } : RunSt σ α β)).afterSubscribe mode = { st := m.init } := by
    simp [RunSt.afterSubscribe]
  rw [hafter, fold_st_quiet m hq mode raw _ rfl rfl]

/-! ### Tap / Do (and the OnNext / OnError / OnComplete forms) -/

theorem tapM_emitsV (sel : Notif α → Bool) (log : List (Notif α)) (vs : List (Ctx × α)) :
    (tapM sel).emitsV log vs = Spec.nexts vs := by
  induction vs generalizing log with
  | nil => rfl
  | cons p ps ih =>
    obtain ⟨c, v⟩ := p
    have h1 : (tapM sel).emitsV log ((c, v) :: ps) =
        [Notif.next c v] ++
          (tapM sel).emitsV (if sel (.next c v) then log ++ [.next c v] else log) ps := rfl
    rw [h1, ih]; rfl

theorem tapM_emitsE (sel : Notif α → Bool) (log : List (Notif α)) (e : Ending) :
    (tapM sel).emitsE log e = e.toList := by
  cases e <;> rfl

theorem tap_spec (sel : Notif α → Bool) (mode : SrcMode) (sub : Ctx) (raw : List (Notif α)) :
    (runOp (tapM sel) mode sub raw).out = Spec.tap (values raw) (ending raw) := by
  rw [runOp_out_plain _ _ _ _ rfl (fun _ _ => rfl)]
  rw [tapM_emitsV, tapM_emitsE]
  exact gate_values_ending _ _ (hasTerm_nexts _)

/-- the log after a script: one entry per selected notification, in order -/
theorem tapM_after (sel : Notif α → Bool) (log : List (Notif α)) (l : List (Notif α)) :
    (tapM sel).after log l = log ++ l.filter sel := by
  induction l generalizing log with
  | nil => simp [Machine.after]
  | cons x xs ih =>
    have h1 : (tapM sel).after log (x :: xs) =
        (tapM sel).after (if sel x then log ++ [x] else log) xs := by
      cases x <;> rfl
    rw [h1, ih]
    cases h : sel x <;> simp [h]

/-- **Side effects of Tap/Do**: the callbacks selected by `sel` are invoked exactly on the
    selected notifications of the legal part of the script, in order, once each — for every
    raw script and both source modes (an illegal suffix never reaches a callback). -/
theorem tap_effects (sel : Notif α → Bool) (mode : SrcMode) (sub : Ctx) (raw : List (Notif α)) :
    (runOp (tapM sel) mode sub raw).st = Spec.tapEffects sel (values raw) (ending raw) := by
  rw [runOp_st_quiet _ _ _ _ rfl (fun _ _ => rfl) (fun _ _ _ => rfl)]
  rw [show (tapM sel).init = [] from rfl, tapM_after, gate_eq_legal]
  simp [Spec.tapEffects, legal, Spec.nexts]

private def ex_tap : List (Notif Nat) :=
  [.next (Ctx.bg.tag 1) 5, .next (Ctx.bg.tag 2) 6, .error (Ctx.bg.tag 3) (.user 4), .next Ctx.bg 7,
   .complete Ctx.bg]
example :
    (runOp (tapM (α := Nat) selAll) .hot Ctx.bg ex_tap).out =
      [.next (Ctx.bg.tag 1) 5, .next (Ctx.bg.tag 2) 6, .error (Ctx.bg.tag 3) (.user 4)] ∧
    Spec.tap (values ex_tap) (ending ex_tap) =
      [.next (Ctx.bg.tag 1) 5, .next (Ctx.bg.tag 2) 6, .error (Ctx.bg.tag 3) (.user 4)] := by
  decide
example :
    (runOp (tapM (α := Nat) selAll) .hot Ctx.bg ex_tap).st =
      [.next (Ctx.bg.tag 1) 5, .next (Ctx.bg.tag 2) 6, .error (Ctx.bg.tag 3) (.user 4)] ∧
    Spec.tapEffects selAll (values ex_tap) (ending ex_tap) =
      [.next (Ctx.bg.tag 1) 5, .next (Ctx.bg.tag 2) 6, .error (Ctx.bg.tag 3) (.user 4)] ∧
    (runOp (tapM (α := Nat) selNext) .sync Ctx.bg ex_tap).st =
      [.next (Ctx.bg.tag 1) 5, .next (Ctx.bg.tag 2) 6] ∧
    Spec.tapEffects selNext (values ex_tap) (ending ex_tap) =
      [.next (Ctx.bg.tag 1) 5, .next (Ctx.bg.tag 2) 6] ∧
    (runOp (tapM (α := Nat) selError) .hot Ctx.bg ex_tap).st = [.error (Ctx.bg.tag 3) (.user 4)] ∧
    Spec.tapEffects selError (values ex_tap) (ending ex_tap) = [.error (Ctx.bg.tag 3) (.user 4)] ∧
    (runOp (tapM (α := Nat) selComplete) .hot Ctx.bg ex_tap).st = [] ∧
    Spec.tapEffects selComplete (values ex_tap) (ending ex_tap) = [] := by
  decide

/-! ### TimeInterval / Timestamp -/

theorem timedM_emitsV (clock : Nat → τ) (i : Nat) (vs : List (Ctx × α)) :
    (timedM (α := α) clock).emitsV i vs =
      (vs.zipIdx i).map (fun q => Notif.next q.1.1 (q.1.2, clock q.2)) := by
  induction vs generalizing i with
  | nil => rfl
  | cons p ps ih =>
    obtain ⟨c, v⟩ := p
    have h1 : (timedM (α := α) clock).emitsV i ((c, v) :: ps) =
        [Notif.next c (v, clock i)] ++ (timedM (α := α) clock).emitsV (i + 1) ps := rfl
    rw [h1, ih (i + 1)]
    simp [List.zipIdx_cons]

theorem timed_spec (clock : Nat → τ) (mode : SrcMode) (sub : Ctx) (raw : List (Notif α)) :
    (runOp (timedM (α := α) clock) mode sub raw).out = Spec.timed clock (values raw) (ending raw) := by
  rw [runOp_out_plain _ _ _ _ rfl (fun _ _ => rfl)]
  rw [show (timedM (α := α) clock).init = 0 from rfl, timedM_emitsV,
    emitsE_fwd _ _ _ (fun _ _ _ => rfl) (fun _ _ => rfl)]
  exact gate_values_ending _ _ (hasTerm_map_nextlike _ _ _)

private def ex_timed : List (Notif Nat) :=
  [.next (Ctx.bg.tag 1) 5, .next (Ctx.bg.tag 2) 6, .complete (Ctx.bg.tag 3), .next Ctx.bg 7,
   .error Ctx.bg (.user 1)]
example :
    (runOp (timedM (α := Nat) (fun i => 100 + 10 * i)) .hot Ctx.bg ex_timed).out =
      [.next (Ctx.bg.tag 1) (5, 100), .next (Ctx.bg.tag 2) (6, 110), .complete (Ctx.bg.tag 3)] ∧
    Spec.timed (fun i => 100 + 10 * i) (values ex_timed) (ending ex_timed) =
      [.next (Ctx.bg.tag 1) (5, 100), .next (Ctx.bg.tag 2) (6, 110), .complete (Ctx.bg.tag 3)] := by
  decide

/-! ### Average -/

theorem averageM_emitsV (div : Int → Nat → β) (nan : β) (s : Int × Nat) (vs : List (Ctx × Int)) :
    (averageM div nan).emitsV s vs = [] := by
  induction vs generalizing s with
  | nil => rfl
  | cons p ps ih =>
    obtain ⟨c, v⟩ := p
    have h : (averageM div nan).emitsV s ((c, v) :: ps) =
        [] ++ (averageM div nan).emitsV (s.1 + v, s.2 + 1) ps := rfl
    rw [h, ih]; rfl

theorem averageM_afterV (div : Int → Nat → β) (nan : β) (s : Int) (n : Nat) (vs : List (Ctx × Int)) :
    (averageM div nan).afterV (s, n) vs = ((vs.map (·.2)).foldl (· + ·) s, n + vs.length) := by
  induction vs generalizing s n with
  | nil => rfl
  | cons p ps ih =>
    obtain ⟨c, v⟩ := p
    have h : (averageM div nan).afterV (s, n) ((c, v) :: ps) =
        (averageM div nan).afterV (s + v, n + 1) ps := rfl
    rw [h, ih]
    simp only [List.map_cons, List.foldl_cons, List.length_cons]
    congr 1
    omega

/-- The DELIVERED trace of `Average` is as documented. (On an empty source the machine emits a
    second `next`/`complete` pair after the `NaN` one; the downstream gate refuses it — see
    `average_empty_second_emission_dropped`.) -/
theorem average_spec (div : Int → Nat → β) (nan : β) (mode : SrcMode) (sub : Ctx) (raw : List (Notif Int)) :
    (runOp (averageM div nan) mode sub raw).out = Spec.average div nan (values raw) (ending raw) := by
  rw [runOp_out_plain _ _ _ _ rfl (fun _ _ => rfl)]
  rw [averageM_emitsV, show (averageM div nan).init = (0, 0) from rfl, averageM_afterV]
  cases ending raw with
  | never => rfl
  | error c e => rfl
  | complete c =>
    show gate ([] ++ ((if 0 + (values raw).length = 0 then [Notif.next c nan, Notif.complete c] else []) ++
      [Notif.next c (div ((values raw).map (·.2) |>.foldl (· + ·) 0) (0 + (values raw).length)),
       Notif.complete c])) = _
    cases h : values raw with
    | nil => simp [gate, Spec.average]
    | cons p ps => simp [gate, Spec.average]

private def ex_average : List (Notif Int) :=
  [.next (Ctx.bg.tag 1) 3, .next (Ctx.bg.tag 2) (-9), .next (Ctx.bg.tag 3) 12, .complete (Ctx.bg.tag 7),
   .next Ctx.bg 1, .error Ctx.bg (.user 1)]
example :
    (runOp (averageM (fun s n => s / (n : Int)) (-1)) .hot Ctx.bg ex_average).out =
      [.next (Ctx.bg.tag 7) 2, .complete (Ctx.bg.tag 7)] ∧
    Spec.average (fun s n => s / (n : Int)) (-1) (values ex_average) (ending ex_average) =
      [.next (Ctx.bg.tag 7) 2, .complete (Ctx.bg.tag 7)] ∧
    (runOp (averageM (fun s n => s / (n : Int)) (-1)) .hot Ctx.bg
        [.complete (Ctx.bg.tag 7), .next Ctx.bg 1]).out =
      [.next (Ctx.bg.tag 7) (-1), .complete (Ctx.bg.tag 7)] ∧
    Spec.average (fun s n => s / (n : Int)) (-1) [] (.complete (Ctx.bg.tag 7)) =
      [.next (Ctx.bg.tag 7) (-1), .complete (Ctx.bg.tag 7)] ∧
    (runOp (averageM (fun s n => s / (n : Int)) (-1)) .sync Ctx.bg
        [.next Ctx.bg 4, .error (Ctx.bg.tag 7) (.user 2), .complete Ctx.bg]).out =
      [.error (Ctx.bg.tag 7) (.user 2)] := by
  decide

/-- what a refused notification was, in a comparable form (`Drop` derives only `Repr`) -/
private def dropView {α β : Type} : Drop α β → Sum (Notif α) (Notif β)
  | .up n => .inl n
  | .down n => .inr n

/-- WITNESS (fall-through in operator_math.go:45-75): on an empty source `Average` emits `NaN`
    and completes, then emits `sum / count` (here `div 0 0 = 0`) and completes a second time; the
    downstream subscriber refuses both, so the delivered trace is still the documented one. -/
theorem average_empty_second_emission_dropped :
    (runOp (averageM (fun s _ => s) (-1)) .sync {} [.complete {}]).out =
      [.next {} (-1), .complete {}] ∧
    (runOp (averageM (fun s _ => s) (-1)) .sync {} [.complete {}]).drops.length = 2 ∧
    (runOp (averageM (fun s _ => s) (-1)) .sync {} [.complete {}]).drops.map dropView =
      [.inr (.next {} 0), .inr (.complete {})] := by
  decide

/-! ### Round / Abs / Floor / Ceil / Trunc: `Map` with an (uninterpreted) float function -/

theorem floatMap_spec (f : α → β) (mode : SrcMode) (sub : Ctx) (raw : List (Notif α)) :
    (runOp (mapM (fun c v _ => (c, f v))) mode sub raw).out =
      (values raw).map (fun p => Notif.next p.1 (f p.2)) ++ (ending raw).toList := by
  rw [map_spec]
  unfold Spec.map
  rw [map_zipIdx_fst (fun p : Ctx × α => Notif.next p.1 (f p.2))]

private def ex_floatMap : List (Notif Int) :=
  [.next (Ctx.bg.tag 1) (-5), .next (Ctx.bg.tag 2) 6, .complete (Ctx.bg.tag 3), .next Ctx.bg 7]
example :
    (runOp (mapM (fun c (v : Int) _ => (c, v.natAbs))) .hot Ctx.bg ex_floatMap).out =
      [.next (Ctx.bg.tag 1) 5, .next (Ctx.bg.tag 2) 6, .complete (Ctx.bg.tag 3)] ∧
    (values ex_floatMap).map (fun p => Notif.next p.1 p.2.natAbs) ++ (ending ex_floatMap).toList =
      [.next (Ctx.bg.tag 1) 5, .next (Ctx.bg.tag 2) 6, .complete (Ctx.bg.tag 3)] := by
  decide

end Ro

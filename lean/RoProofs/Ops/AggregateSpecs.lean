/-
  RoProofs.Ops.AggregateSpecs — machine = specification for the machines of
  RoModel/Ops/Aggregate.lean (All, Contains, Find, DefaultIfEmpty, Count, Sum, Min, Max, Clamp,
  Reduce), and the structural theorem `seq_out`: a chain behaves as the composition of its parts.
-/
import RoProofs.Script
import RoModel.Ops.Aggregate
import RoModel.Spec.Aggregate
namespace Ro
variable {σ σ₁ σ₂ α β γ : Type}

private theorem agg_hasTerm_nexts (vs : List (Ctx × α)) : hasTerm (Spec.nexts vs) = false :=
  hasTerm_map_next vs

/-- a machine that is silent on values -/
private theorem emitsV_silent (m : Machine σ α β) (h : ∀ s c v, (m.onNext s c v).2 = [])
    (s : σ) (vs : List (Ctx × α)) : m.emitsV s vs = [] := by
  induction vs generalizing s with
  | nil => rfl
  | cons p ps ih => obtain ⟨c, v⟩ := p; simp [Machine.emitsV, h, ih]

/-! ### All -/

theorem allM_afterV_false (p : Ctx → α → Nat → Bool) (i : Nat) (vs : List (Ctx × α)) :
    (allM p).afterV (false, i) vs = (false, i) := by
  induction vs with
  | nil => rfl
  | cons q ps ih => obtain ⟨c, v⟩ := q; exact ih

/-- The state of `All` after the values: the verdict is `all` over the values *with their own
    positions*, and the index (= number of predicate calls so far) has advanced over the values up
    to and including the first failing one, and no further. -/
theorem allM_afterV_true (p : Ctx → α → Nat → Bool) (i : Nat) (vs : List (Ctx × α)) :
    (allM p).afterV (true, i) vs =
      ((vs.zipIdx i).all (fun q => p q.1.1 q.1.2 q.2),
       i + (((vs.zipIdx i).takeWhile (fun q => p q.1.1 q.1.2 q.2)).length
            + (if (vs.zipIdx i).all (fun q => p q.1.1 q.1.2 q.2) then 0 else 1))) := by
  induction vs generalizing i with
  | nil => rfl
  | cons q ps ih =>
    obtain ⟨c, v⟩ := q
    have hstep : (allM p).afterV (true, i) ((c, v) :: ps) = (allM p).afterV (p c v i, i + 1) ps := rfl
    rw [hstep]
    cases h : p c v i
    · rw [allM_afterV_false]
      simp [List.zipIdx_cons, h]
    · rw [ih (i + 1)]
      simp only [List.zipIdx_cons, List.takeWhile_cons, List.all_cons, h, Bool.true_and, if_true,
        List.length_cons]
      congr 1
      omega

/-- the predicate calls of `All` (the final index), in spec terms -/
theorem allM_calls (p : Ctx → α → Nat → Bool) (vs : List (Ctx × α)) :
    ((allM p).afterV (allM p).init vs).2 = Spec.allCalls p vs := by
  have := allM_afterV_true p 0 vs
  show ((allM p).afterV (true, 0) vs).2 = _
  rw [this]; simp [Spec.allCalls]

theorem all_spec (p : Ctx → α → Nat → Bool) (mode : SrcMode) (sub : Ctx) (raw : List (Notif α)) :
    (runOp (allM p) mode sub raw).out = Spec.all p (values raw) (ending raw) := by
  rw [runOp_out_plain _ _ _ _ rfl (fun _ _ => rfl)]
  rw [emitsV_silent _ (fun _ _ _ => rfl)]
  have h : (allM p).afterV (allM p).init (values raw) = _ := allM_afterV_true p 0 (values raw)
  rw [h]
  cases ending raw <;> simp [Machine.emitsE, allM, fwdE, gate, Spec.all, Ending.toList]

example : (runOp (allM (fun _ (v : Nat) i => decide (v + i < 10))) .hot Ctx.bg
      [.next (Ctx.bg.tag 1) 3, .next (Ctx.bg.tag 2) 9, .next Ctx.bg 0, .complete (Ctx.bg.tag 7),
       .next Ctx.bg 1, .error Ctx.bg (.user 1)]).out
    = [.next (Ctx.bg.tag 7) false, .complete (Ctx.bg.tag 7)]
  ∧ Spec.all (fun _ (v : Nat) i => decide (v + i < 10))
      [(Ctx.bg.tag 1, 3), (Ctx.bg.tag 2, 9), (Ctx.bg, 0)] (.complete (Ctx.bg.tag 7))
    = [.next (Ctx.bg.tag 7) false, .complete (Ctx.bg.tag 7)] := by decide

/-! ### Contains -/

theorem containsM_gate (p : Ctx → α → Nat → Bool) (i : Nat) (vs : List (Ctx × α)) (tail : List (Notif Bool)) :
    gate ((containsM p).emitsV i vs ++ tail) =
      match (vs.zipIdx i).find? (fun q => p q.1.1 q.1.2 q.2) with
      | some q => [.next q.1.1 true, .complete q.1.1]
      | none => gate tail := by
  induction vs generalizing i with
  | nil => rfl
  | cons q ps ih =>
    obtain ⟨c, v⟩ := q
    have hstep : (containsM p).emitsV i ((c, v) :: ps) =
        (if p c v i then [Notif.next c true, Notif.complete c] else []) ++ (containsM p).emitsV (i + 1) ps := rfl
    rw [hstep]
    cases h : p c v i
    · simp only [Bool.false_eq_true, if_false, List.nil_append, List.zipIdx_cons, List.find?_cons, h]
      exact ih (i + 1)
    · simp [List.zipIdx_cons, h, gate]

theorem contains_spec (p : Ctx → α → Nat → Bool) (mode : SrcMode) (sub : Ctx) (raw : List (Notif α)) :
    (runOp (containsM p) mode sub raw).out = Spec.contains p (values raw) (ending raw) := by
  rw [runOp_out_plain _ _ _ _ rfl (fun _ _ => rfl)]
  rw [show (containsM p).init = 0 from rfl, containsM_gate]
  unfold Spec.contains
  cases (values raw).zipIdx.find? (fun q => p q.1.1 q.1.2 q.2) with
  | some q => rfl
  | none => cases ending raw <;> simp [Machine.emitsE, containsM, fwdE, gate, Ending.toList]

example : (runOp (containsM (fun _ (v : Nat) i => decide (v = 2 * i))) .sync Ctx.bg
      [.next (Ctx.bg.tag 1) 3, .next (Ctx.bg.tag 2) 2, .next Ctx.bg 0, .complete (Ctx.bg.tag 7)]).out
    = [.next (Ctx.bg.tag 2) true, .complete (Ctx.bg.tag 2)]
  ∧ Spec.contains (fun _ (v : Nat) i => decide (v = 2 * i))
      [(Ctx.bg.tag 1, 3), (Ctx.bg.tag 2, 2), (Ctx.bg, 0)] (.complete (Ctx.bg.tag 7))
    = [.next (Ctx.bg.tag 2) true, .complete (Ctx.bg.tag 2)]
  ∧ (runOp (containsM (fun _ (v : Nat) i => decide (v = 2 * i))) .hot Ctx.bg
      [.next (Ctx.bg.tag 1) 3, .complete (Ctx.bg.tag 7), .next Ctx.bg 0]).out
    = [.next (Ctx.bg.tag 7) false, .complete (Ctx.bg.tag 7)] := by decide

/-! ### Find -/

theorem findM_gate (p : Ctx → α → Nat → Bool) (i : Nat) (vs : List (Ctx × α)) (tail : List (Notif α)) :
    gate ((findM p).emitsV i vs ++ tail) =
      match (vs.zipIdx i).find? (fun q => p q.1.1 q.1.2 q.2) with
      | some q => [.next q.1.1 q.1.2, .complete q.1.1]
      | none => gate tail := by
  induction vs generalizing i with
  | nil => rfl
  | cons q ps ih =>
    obtain ⟨c, v⟩ := q
    have hstep : (findM p).emitsV i ((c, v) :: ps) =
        (if p c v i then [Notif.next c v, Notif.complete c] else []) ++ (findM p).emitsV (i + 1) ps := rfl
    rw [hstep]
    cases h : p c v i
    · simp only [Bool.false_eq_true, if_false, List.nil_append, List.zipIdx_cons, List.find?_cons, h]
      exact ih (i + 1)
    · simp [List.zipIdx_cons, h, gate]

theorem find_spec (p : Ctx → α → Nat → Bool) (mode : SrcMode) (sub : Ctx) (raw : List (Notif α)) :
    (runOp (findM p) mode sub raw).out = Spec.find p (values raw) (ending raw) := by
  rw [runOp_out_plain _ _ _ _ rfl (fun _ _ => rfl)]
  rw [emitsE_fwd _ _ _ (fun _ _ _ => rfl) (fun _ _ => rfl)]
  rw [show (findM p).init = 0 from rfl, findM_gate]
  unfold Spec.find
  cases (values raw).zipIdx.find? (fun q => p q.1.1 q.1.2 q.2) with
  | some q => rfl
  | none => simpa using gate_values_ending [] (ending raw) rfl

example : (runOp (findM (fun _ (v : Nat) i => decide (v = 2 * i))) .sync Ctx.bg
      [.next (Ctx.bg.tag 1) 3, .next (Ctx.bg.tag 2) 2, .next Ctx.bg 4, .complete (Ctx.bg.tag 7)]).out
    = [.next (Ctx.bg.tag 2) 2, .complete (Ctx.bg.tag 2)]
  ∧ Spec.find (fun _ (v : Nat) i => decide (v = 2 * i))
      [(Ctx.bg.tag 1, 3), (Ctx.bg.tag 2, 2), (Ctx.bg, 4)] (.complete (Ctx.bg.tag 7))
    = [.next (Ctx.bg.tag 2) 2, .complete (Ctx.bg.tag 2)]
  ∧ (runOp (findM (fun _ (v : Nat) i => decide (v = 2 * i))) .hot Ctx.bg
      [.next (Ctx.bg.tag 1) 3, .error (Ctx.bg.tag 7) (.user 4), .next Ctx.bg 0]).out
    = [.error (Ctx.bg.tag 7) (.user 4)] := by decide

/-! ### DefaultIfEmpty -/

theorem defaultIfEmptyM_emitsV (dc : Ctx) (d : α) (s : Bool) (vs : List (Ctx × α)) :
    (defaultIfEmptyM dc d).emitsV s vs = Spec.nexts vs ∧
    (defaultIfEmptyM dc d).afterV s vs = (s && vs.isEmpty) := by
  induction vs generalizing s with
  | nil => simp [Machine.emitsV, Machine.afterV, Spec.nexts]
  | cons q ps ih =>
    obtain ⟨c, v⟩ := q
    have h1 : (defaultIfEmptyM dc d).emitsV s ((c, v) :: ps) =
        [Notif.next c v] ++ (defaultIfEmptyM dc d).emitsV false ps := rfl
    have h2 : (defaultIfEmptyM dc d).afterV s ((c, v) :: ps) = (defaultIfEmptyM dc d).afterV false ps := rfl
    rw [h1, h2, (ih false).1, (ih false).2]
    simp [Spec.nexts]

theorem defaultIfEmpty_spec (dc : Ctx) (d : α) (mode : SrcMode) (sub : Ctx) (raw : List (Notif α)) :
    (runOp (defaultIfEmptyM dc d) mode sub raw).out = Spec.defaultIfEmpty dc d (values raw) (ending raw) := by
  rw [runOp_out_plain _ _ _ _ rfl (fun _ _ => rfl)]
  rw [(defaultIfEmptyM_emitsV dc d _ _).1, (defaultIfEmptyM_emitsV dc d _ _).2]
  rw [gate_append_of_noTerm _ _ (agg_hasTerm_nexts _)]
  rw [show (defaultIfEmptyM dc d).init = true from rfl]
  cases ending raw with
  | never => simp [Machine.emitsE, Spec.defaultIfEmpty, Ending.toList]
  | error c e => simp [Machine.emitsE, defaultIfEmptyM, fwdE, gate, Spec.defaultIfEmpty, Ending.toList]
  | complete c =>
    cases h : (values raw).isEmpty <;>
      simp [Machine.emitsE, defaultIfEmptyM, gate, Spec.defaultIfEmpty, h]

example : (runOp (defaultIfEmptyM (Ctx.bg.tag 9) (5 : Nat)) .sync Ctx.bg
      [.complete (Ctx.bg.tag 7), .next Ctx.bg 0]).out
    = [.next (Ctx.bg.tag 9) 5, .complete (Ctx.bg.tag 7)]
  ∧ Spec.defaultIfEmpty (Ctx.bg.tag 9) (5 : Nat) [] (.complete (Ctx.bg.tag 7))
    = [.next (Ctx.bg.tag 9) 5, .complete (Ctx.bg.tag 7)]
  ∧ (runOp (defaultIfEmptyM (Ctx.bg.tag 9) (5 : Nat)) .hot Ctx.bg
      [.next (Ctx.bg.tag 1) 3, .complete (Ctx.bg.tag 7), .next Ctx.bg 0]).out
    = [.next (Ctx.bg.tag 1) 3, .complete (Ctx.bg.tag 7)]
  ∧ (runOp (defaultIfEmptyM (Ctx.bg.tag 9) (5 : Nat)) .hot Ctx.bg
      [.error (Ctx.bg.tag 7) (.user 1), .complete Ctx.bg]).out
    = [.error (Ctx.bg.tag 7) (.user 1)] := by decide

/-! ### Count -/

theorem countM_afterV (n : Nat) (vs : List (Ctx × α)) :
    (countM (α := α)).afterV n vs = n + vs.length := by
  induction vs generalizing n with
  | nil => rfl
  | cons q ps ih =>
    obtain ⟨c, v⟩ := q
    have h : (countM (α := α)).afterV n ((c, v) :: ps) = (countM (α := α)).afterV (n + 1) ps := rfl
    rw [h, ih]; simp; omega

theorem count_spec (mode : SrcMode) (sub : Ctx) (raw : List (Notif α)) :
    (runOp (countM (α := α)) mode sub raw).out = Spec.count (values raw) (ending raw) := by
  rw [runOp_out_plain _ _ _ _ rfl (fun _ _ => rfl)]
  rw [emitsV_silent _ (fun _ _ _ => rfl), countM_afterV]
  rw [show (countM (α := α)).init = 0 from rfl]
  cases ending raw <;> simp [Machine.emitsE, countM, fwdE, gate, Spec.count, Ending.toList]

example : (runOp (countM (α := Nat)) .hot Ctx.bg
      [.next (Ctx.bg.tag 1) 3, .next (Ctx.bg.tag 2) 9, .complete (Ctx.bg.tag 7), .next Ctx.bg 1]).out
    = [.next (Ctx.bg.tag 7) 2, .complete (Ctx.bg.tag 7)]
  ∧ Spec.count [(Ctx.bg.tag 1, 3), (Ctx.bg.tag 2, 9)] (.complete (Ctx.bg.tag 7))
    = [.next (Ctx.bg.tag 7) 2, .complete (Ctx.bg.tag 7)] := by decide

/-! ### Sum -/

theorem sumM_afterV (s : Int) (vs : List (Ctx × Int)) :
    sumM.afterV s vs = (vs.map (·.2)).foldl (· + ·) s := by
  induction vs generalizing s with
  | nil => rfl
  | cons q ps ih =>
    obtain ⟨c, v⟩ := q
    have h : sumM.afterV s ((c, v) :: ps) = sumM.afterV (s + v) ps := rfl
    rw [h, ih]; rfl

theorem sum_spec (mode : SrcMode) (sub : Ctx) (raw : List (Notif Int)) :
    (runOp sumM mode sub raw).out = Spec.sum (values raw) (ending raw) := by
  rw [runOp_out_plain _ _ _ _ rfl (fun _ _ => rfl)]
  rw [emitsV_silent _ (fun _ _ _ => rfl), sumM_afterV]
  rw [show sumM.init = 0 from rfl]
  cases ending raw <;> simp [Machine.emitsE, sumM, fwdE, gate, Spec.sum, Ending.toList]

example : (runOp sumM .hot Ctx.bg
      [.next (Ctx.bg.tag 1) 3, .next (Ctx.bg.tag 2) (-9), .complete (Ctx.bg.tag 7), .next Ctx.bg 1]).out
    = [.next (Ctx.bg.tag 7) (-6), .complete (Ctx.bg.tag 7)]
  ∧ Spec.sum [(Ctx.bg.tag 1, 3), (Ctx.bg.tag 2, -9)] (.complete (Ctx.bg.tag 7))
    = [.next (Ctx.bg.tag 7) (-6), .complete (Ctx.bg.tag 7)] := by decide

/-! ### Min -/

theorem minM_afterV_some (p : Ctx × Int) (vs : List (Ctx × Int)) :
    minM.afterV (some p) vs = some (vs.foldl (fun m q => if q.2 < m.2 then q else m) p) := by
  induction vs generalizing p with
  | nil => rfl
  | cons q ps ih =>
    obtain ⟨c, v⟩ := q
    obtain ⟨c0, m⟩ := p
    have h : minM.afterV (some (c0, m)) ((c, v) :: ps) =
        minM.afterV (if v < m then some (c, v) else some (c0, m)) ps := rfl
    rw [h]
    by_cases hv : v < m <;> simp [hv, ih]

theorem minM_afterV (vs : List (Ctx × Int)) : minM.afterV none vs = Spec.minOf vs := by
  cases vs with
  | nil => rfl
  | cons q ps =>
    obtain ⟨c, v⟩ := q
    have h : minM.afterV none ((c, v) :: ps) = minM.afterV (some (c, v)) ps := rfl
    rw [h, minM_afterV_some]; rfl

theorem min_spec (mode : SrcMode) (sub : Ctx) (raw : List (Notif Int)) :
    (runOp minM mode sub raw).out = Spec.min (values raw) (ending raw) := by
  rw [runOp_out_plain _ _ _ _ rfl (fun _ _ => rfl)]
  rw [emitsV_silent _ (fun _ _ _ => rfl)]
  rw [show minM.init = none from rfl, minM_afterV]
  cases ending raw with
  | never => rfl
  | error c e => rfl
  | complete c =>
    cases h : Spec.minOf (values raw) with
    | none => simp [Machine.emitsE, minM, gate, Spec.min, h]
    | some m => obtain ⟨c0, m⟩ := m; simp [Machine.emitsE, minM, gate, Spec.min, h]

example : (runOp minM .hot Ctx.bg
      [.next (Ctx.bg.tag 1) 3, .next (Ctx.bg.tag 2) (-9), .next (Ctx.bg.tag 3) (-9),
       .complete (Ctx.bg.tag 7), .next Ctx.bg (-20)]).out
    = [.next (Ctx.bg.tag 2) (-9), .complete (Ctx.bg.tag 7)]
  ∧ Spec.min [(Ctx.bg.tag 1, 3), (Ctx.bg.tag 2, -9), (Ctx.bg.tag 3, -9)] (.complete (Ctx.bg.tag 7))
    = [.next (Ctx.bg.tag 2) (-9), .complete (Ctx.bg.tag 7)]
  ∧ (runOp minM .sync Ctx.bg [.complete (Ctx.bg.tag 7)]).out = [.complete (Ctx.bg.tag 7)] := by decide

/-! ### Max

  Documented meaning (and full statement, which does NOT hold for the code as written):

      theorem max_spec (mode : SrcMode) (sub : Ctx) (raw : List (Notif Int)) :
          (runOp maxM mode sub raw).out = Spec.max (values raw) (ending raw)

  `Max` as written emits `0` with the nil context when an empty source completes
  (`max_empty_witness`); everywhere else it agrees with `Spec.max` (`max_spec_partial`). -/

theorem maxM_afterV_some (p : Ctx × Int) (vs : List (Ctx × Int)) :
    maxM.afterV (some p) vs = some (vs.foldl (fun m q => if q.2 > m.2 then q else m) p) := by
  induction vs generalizing p with
  | nil => rfl
  | cons q ps ih =>
    obtain ⟨c, v⟩ := q
    obtain ⟨c0, m⟩ := p
    have h : maxM.afterV (some (c0, m)) ((c, v) :: ps) =
        maxM.afterV (if v > m then some (c, v) else some (c0, m)) ps := rfl
    rw [h]
    by_cases hv : v > m <;> simp [hv, ih]

theorem maxM_afterV (vs : List (Ctx × Int)) : maxM.afterV none vs = Spec.maxOf vs := by
  cases vs with
  | nil => rfl
  | cons q ps =>
    obtain ⟨c, v⟩ := q
    have h : maxM.afterV none ((c, v) :: ps) = maxM.afterV (some (c, v)) ps := rfl
    rw [h, maxM_afterV_some]; rfl

theorem max_spec_partial (mode : SrcMode) (sub : Ctx) (raw : List (Notif Int))
    (hside : Spec.maxCovered (values raw) (ending raw) = true) :
    (runOp maxM mode sub raw).out = Spec.max (values raw) (ending raw) := by
  rw [runOp_out_plain _ _ _ _ rfl (fun _ _ => rfl)]
  rw [emitsV_silent _ (fun _ _ _ => rfl)]
  rw [show maxM.init = none from rfl, maxM_afterV]
  cases hend : ending raw with
  | never => rfl
  | error c e => rfl
  | complete c =>
    cases hvs : values raw with
    | nil => simp [hend, hvs, Spec.maxCovered] at hside
    | cons q ps =>
      cases h : Spec.maxOf (q :: ps) with
      | none => simp [Spec.maxOf] at h
      | some m => obtain ⟨c0, m⟩ := m; simp [Machine.emitsE, maxM, gate, Spec.max, h]

/-- the deviation: an empty source that completes -/
theorem max_empty_out (mode : SrcMode) (sub c : Ctx) :
    (runOp maxM mode sub [.complete c]).out = [.next Ctx.nil 0, .complete c] := by
  cases mode <;> rfl

theorem max_empty_witness (sub c : Ctx) :
    (runOp maxM .sync sub [.complete c]).out ≠ Spec.max [] (.complete c) := by
  rw [max_empty_out]; simp [Spec.max, Spec.maxOf]

example : (runOp maxM .hot Ctx.bg
      [.next (Ctx.bg.tag 1) 3, .next (Ctx.bg.tag 2) 9, .next (Ctx.bg.tag 3) 9,
       .complete (Ctx.bg.tag 7), .next Ctx.bg 20]).out
    = [.next (Ctx.bg.tag 2) 9, .complete (Ctx.bg.tag 7)]
  ∧ Spec.max [(Ctx.bg.tag 1, 3), (Ctx.bg.tag 2, 9), (Ctx.bg.tag 3, 9)] (.complete (Ctx.bg.tag 7))
    = [.next (Ctx.bg.tag 2) 9, .complete (Ctx.bg.tag 7)]
  ∧ Spec.maxCovered [(Ctx.bg.tag 1, (3 : Int))] (.complete (Ctx.bg.tag 7)) = true
  ∧ Spec.maxCovered ([] : List (Ctx × Int)) (.error Ctx.bg (.user 1)) = true
  ∧ Spec.maxCovered ([] : List (Ctx × Int)) (.complete Ctx.bg) = false := by decide

/-! ### Clamp -/

theorem clampVal_eq (lo hi : Int) (h : lo ≤ hi) (v : Int) :
    (if v < lo then lo else if v > hi then hi else v) = Spec.clampVal lo hi v := by
  unfold Spec.clampVal
  rw [Int.max_def, Int.min_def]
  repeat' split
  all_goals omega

theorem clampM_emitsV (lo hi : Int) (h : lo ≤ hi) (vs : List (Ctx × Int)) :
    (clampM lo hi).emitsV () vs = vs.map (fun p => Notif.next p.1 (Spec.clampVal lo hi p.2)) := by
  induction vs with
  | nil => rfl
  | cons q ps ih =>
    obtain ⟨c, v⟩ := q
    have hstep : (clampM lo hi).emitsV () ((c, v) :: ps) =
        [Notif.next c (if v < lo then lo else if v > hi then hi else v)] ++ (clampM lo hi).emitsV () ps := rfl
    rw [hstep, ih, clampVal_eq lo hi h]; rfl

theorem clamp_spec (lo hi : Int) (h : lo ≤ hi) (mode : SrcMode) (sub : Ctx) (raw : List (Notif Int)) :
    (runOp (clampM lo hi) mode sub raw).out = Spec.clamp lo hi (values raw) (ending raw) := by
  rw [runOp_out_plain _ _ _ _ rfl (fun _ _ => rfl)]
  rw [show (clampM lo hi).init = () from rfl, clampM_emitsV lo hi h]
  rw [emitsE_fwd _ _ _ (fun _ _ _ => rfl) (fun _ _ => rfl)]
  refine gate_values_ending _ _ ?_
  generalize values raw = vs
  induction vs with
  | nil => rfl
  | cons q ps ih => simp [ih]

example : (runOp (clampM (-2) 5) .hot Ctx.bg
      [.next (Ctx.bg.tag 1) 3, .next (Ctx.bg.tag 2) (-9), .next (Ctx.bg.tag 3) 9,
       .error (Ctx.bg.tag 7) (.user 1), .next Ctx.bg 20]).out
    = [.next (Ctx.bg.tag 1) 3, .next (Ctx.bg.tag 2) (-2), .next (Ctx.bg.tag 3) 5, .error (Ctx.bg.tag 7) (.user 1)]
  ∧ Spec.clamp (-2) 5 [(Ctx.bg.tag 1, 3), (Ctx.bg.tag 2, -9), (Ctx.bg.tag 3, 9)] (.error (Ctx.bg.tag 7) (.user 1))
    = [.next (Ctx.bg.tag 1) 3, .next (Ctx.bg.tag 2) (-2), .next (Ctx.bg.tag 3) 5, .error (Ctx.bg.tag 7) (.user 1)] := by
  decide

/-! ### Reduce -/

theorem reduceM_afterV (f : Ctx → β → α → Nat → Ctx × β) (seed : β) (a : β) (lc : Ctx) (i : Nat)
    (vs : List (Ctx × α)) :
    (reduceM f seed).afterV (a, lc, i) vs =
      (((vs.zipIdx i).foldl (fun (acc : Ctx × β) q => f q.1.1 acc.2 q.1.2 q.2) (lc, a)).2,
       ((vs.zipIdx i).foldl (fun (acc : Ctx × β) q => f q.1.1 acc.2 q.1.2 q.2) (lc, a)).1,
       i + vs.length) := by
  induction vs generalizing a lc i with
  | nil => rfl
  | cons q ps ih =>
    obtain ⟨c, v⟩ := q
    have h : (reduceM f seed).afterV (a, lc, i) ((c, v) :: ps) =
        (reduceM f seed).afterV ((f c a v i).2, (f c a v i).1, i + 1) ps := rfl
    rw [h, ih]
    simp only [List.zipIdx_cons, List.foldl_cons, List.length_cons]
    congr 2
    omega

/-- the context the fold starts from is irrelevant as soon as there is one value -/
theorem reduce_fold_ctx (f : Ctx → β → α → Nat → Ctx × β) (a : β) (c0 c1 : Ctx) (i : Nat)
    (q : Ctx × α) (ps : List (Ctx × α)) :
    ((q :: ps).zipIdx i).foldl (fun (acc : Ctx × β) q => f q.1.1 acc.2 q.1.2 q.2) (c0, a) =
    ((q :: ps).zipIdx i).foldl (fun (acc : Ctx × β) q => f q.1.1 acc.2 q.1.2 q.2) (c1, a) := by
  simp [List.zipIdx_cons, List.foldl_cons]

theorem reduce_spec (f : Ctx → β → α → Nat → Ctx × β) (seed : β) (mode : SrcMode) (sub : Ctx)
    (raw : List (Notif α)) :
    (runOp (reduceM f seed) mode sub raw).out = Spec.reduce f seed (values raw) (ending raw) := by
  rw [runOp_out_plain _ _ _ _ rfl (fun _ _ => rfl)]
  rw [emitsV_silent _ (fun _ _ _ => rfl)]
  rw [show (reduceM f seed).init = (seed, Ctx.nil, 0) from rfl, reduceM_afterV]
  cases ending raw with
  | never => rfl
  | error c e => rfl
  | complete c =>
    cases hvs : values raw with
    | nil => simp [Machine.emitsE, reduceM, gate, Spec.reduce]
    | cons q ps =>
      rw [reduce_fold_ctx f seed Ctx.nil c 0 q ps]
      simp [Machine.emitsE, reduceM, gate, Spec.reduce]

example : (runOp (reduceM (fun c (acc : Nat) (v : Nat) i => (c.tag i, acc * 10 + v)) 7) .hot Ctx.bg
      [.next (Ctx.bg.tag 11) 3, .next (Ctx.bg.tag 12) 4, .complete (Ctx.bg.tag 7), .next Ctx.bg 1]).out
    = [.next ((Ctx.bg.tag 12).tag 1) 734, .complete (Ctx.bg.tag 7)]
  ∧ Spec.reduce (fun c (acc : Nat) (v : Nat) i => (c.tag i, acc * 10 + v)) 7
      [(Ctx.bg.tag 11, 3), (Ctx.bg.tag 12, 4)] (.complete (Ctx.bg.tag 7))
    = [.next ((Ctx.bg.tag 12).tag 1) 734, .complete (Ctx.bg.tag 7)]
  ∧ (runOp (reduceM (fun c (acc : Nat) (v : Nat) i => (c.tag i, acc * 10 + v)) 7) .sync Ctx.bg
      [.complete (Ctx.bg.tag 7), .next Ctx.bg 1]).out
    = [.next (Ctx.bg.tag 7) 7, .complete (Ctx.bg.tag 7)] := by decide

/-! ### A chain behaves as the composition of its parts -/

/-- one notification arriving at the subscriber between the two operators of `Machine.seq` -/
def midStep (m2 : Machine σ₂ β γ) (acc : (σ₂ × Bool) × List (Notif γ)) (n : Notif β) :
    (σ₂ × Bool) × List (Notif γ) :=
  if acc.1.2 then (((m2.step acc.1.1 n).1, !n.isTerminal), acc.2 ++ (m2.step acc.1.1 n).2) else acc

/-- the local `feedMid` of `Machine.seq` -/
def feedMid (m2 : Machine σ₂ β γ) (s : σ₂ × Bool) (ns : List (Notif β)) : (σ₂ × Bool) × List (Notif γ) :=
  ns.foldl (midStep m2) (s, [])

theorem seq_step (m1 : Machine σ₁ α β) (m2 : Machine σ₂ β γ) (s1 : σ₁) (s2 : σ₂) (b : Bool) (x : Notif α) :
    (m1.seq m2).step (s1, s2, b) x =
      (((m1.step s1 x).1, (feedMid m2 (s2, b) (m1.step s1 x).2).1.1, (feedMid m2 (s2, b) (m1.step s1 x).2).1.2),
       (feedMid m2 (s2, b) (m1.step s1 x).2).2) := by
  cases x <;> rfl

theorem midFold_closed (m2 : Machine σ₂ β γ) (s2 : σ₂) (acc : List (Notif γ)) (ns : List (Notif β)) :
    ns.foldl (midStep m2) ((s2, false), acc) = ((s2, false), acc) := by
  induction ns with
  | nil => rfl
  | cons n ns ih => simpa [List.foldl_cons, midStep] using ih

theorem midFold_open (m2 : Machine σ₂ β γ) (s2 : σ₂) (acc : List (Notif γ)) (ns : List (Notif β)) :
    ns.foldl (midStep m2) ((s2, true), acc) =
      ((m2.after s2 (gate ns), !hasTerm ns), acc ++ m2.emits s2 (gate ns)) := by
  induction ns generalizing s2 acc with
  | nil => simp [Machine.after, Machine.emits]
  | cons n ns ih =>
    have hstep : (n :: ns).foldl (midStep m2) ((s2, true), acc) =
        ns.foldl (midStep m2) (((m2.step s2 n).1, !n.isTerminal), acc ++ (m2.step s2 n).2) := rfl
    rw [hstep]
    cases hn : n.isTerminal
    · rw [show (!false) = true from rfl, ih]
      simp [gate, hn, Machine.after, Machine.emits, List.append_assoc]
    · rw [show (!true) = false from rfl, midFold_closed]
      simp [gate, hn, Machine.after, Machine.emits]

/-- what the middle subscriber does with a batch of emissions of `m1` -/
theorem feedMid_open (m2 : Machine σ₂ β γ) (s2 : σ₂) (ns : List (Notif β)) :
    feedMid m2 (s2, true) ns = ((m2.after s2 (gate ns), !hasTerm ns), m2.emits s2 (gate ns)) := by
  unfold feedMid; rw [midFold_open]; simp

theorem feedMid_closed (m2 : Machine σ₂ β γ) (s2 : σ₂) (ns : List (Notif β)) :
    feedMid m2 (s2, false) ns = ((s2, false), []) := midFold_closed m2 s2 [] ns

/-- The emissions of the chain machine from any state: with the middle gate open, they are `m2`'s
    emissions over the gated emissions of `m1`; with the middle gate closed, nothing. -/
theorem seq_emits (m1 : Machine σ₁ α β) (m2 : Machine σ₂ β γ) (s1 : σ₁) (s2 : σ₂) (b : Bool)
    (xs : List (Notif α)) :
    (m1.seq m2).emits (s1, s2, b) xs = if b then m2.emits s2 (gate (m1.emits s1 xs)) else [] := by
  induction xs generalizing s1 s2 b with
  | nil => cases b <;> rfl
  | cons x xs ih =>
    have hstep : (m1.seq m2).emits (s1, s2, b) (x :: xs) =
        ((m1.seq m2).step (s1, s2, b) x).2 ++ (m1.seq m2).emits ((m1.seq m2).step (s1, s2, b) x).1 xs := rfl
    rw [hstep, seq_step]
    cases b
    · rw [feedMid_closed, ih]; rfl
    · rw [feedMid_open, ih]
      have he : m1.emits s1 (x :: xs) = (m1.step s1 x).2 ++ m1.emits (m1.step s1 x).1 xs := rfl
      rw [he]
      cases ht : hasTerm (m1.step s1 x).2
      · simp only [Bool.not_false, if_true]
        rw [gate_append_of_noTerm _ _ ht, gate_of_noTerm _ ht, emits_append]
      · simp only [Bool.not_true, if_true, Bool.false_eq_true, if_false, List.append_nil]
        rw [gate_append_of_term _ _ ht]

/-- **C04, structure.** A chain `source |> m1 |> m2` run as one machine delivers exactly what `m2`
    delivers when it is run on the trace delivered by `m1` — for every source mode, subscription
    context and raw script (legal or not). The source modes used for the two separate runs are
    irrelevant. -/
theorem seq_out_modes (m1 : Machine σ₁ α β) (m2 : Machine σ₂ β γ)
    (h1 : ∀ s c, m1.onSubscribe s c = (s, [])) (h2 : ∀ s c, m2.onSubscribe s c = (s, []))
    (hs1 : m1.subscribes = true) (hs2 : m2.subscribes = true)
    (mode mode1 mode2 : SrcMode) (sub : Ctx) (raw : List (Notif α)) :
    (runOp (m1.seq m2) mode sub raw).out = (runOp m2 mode2 sub (runOp m1 mode1 sub raw).out).out := by
  have hs : (m1.seq m2).subscribes = true := hs1
  have h0 : (m1.seq m2).onSubscribe (m1.seq m2).init sub = ((m1.init, m2.init, true), []) := by
    show (m1.seq m2).onSubscribe (m1.init, m2.init, true) sub = _
    simp [Machine.seq, h1, h2]
  rw [runOp_out _ mode sub raw hs, h0, seq_emits]
  rw [runOp_out m2 mode2 sub _ hs2, h2, runOp_out m1 mode1 sub raw hs1, h1]
  simp [gate_idem]

theorem seq_out (m1 : Machine σ₁ α β) (m2 : Machine σ₂ β γ)
    (h1 : ∀ s c, m1.onSubscribe s c = (s, [])) (h2 : ∀ s c, m2.onSubscribe s c = (s, []))
    (hs1 : m1.subscribes = true) (hs2 : m2.subscribes = true)
    (mode : SrcMode) (sub : Ctx) (raw : List (Notif α)) :
    (runOp (m1.seq m2) mode sub raw).out = (runOp m2 .sync sub (runOp m1 .sync sub raw).out).out :=
  seq_out_modes m1 m2 h1 h2 hs1 hs2 mode .sync .sync sub raw

example : (runOp ((findM (fun _ (v : Int) i => decide (v = 2 * i))).seq (clampM 0 1)) .hot Ctx.bg
      [.next (Ctx.bg.tag 1) 3, .next (Ctx.bg.tag 2) 2, .next Ctx.bg 4, .complete (Ctx.bg.tag 7)]).out
    = [.next (Ctx.bg.tag 2) 1, .complete (Ctx.bg.tag 2)]
  ∧ (runOp (clampM 0 1) .sync Ctx.bg
      (runOp (findM (fun _ (v : Int) i => decide (v = 2 * i))) .sync Ctx.bg
        [.next (Ctx.bg.tag 1) 3, .next (Ctx.bg.tag 2) 2, .next Ctx.bg 4, .complete (Ctx.bg.tag 7)]).out).out
    = [.next (Ctx.bg.tag 2) 1, .complete (Ctx.bg.tag 2)] := by decide

end Ro

/-
  RoProofs.Ops.FilterSpecs — machine = specification for the operators of operator_filter.go
  (machines: RoModel/Ops/Filter.lean, specifications: RoModel/Spec/Filter.lean and Spec/Ops.lean).
  Pattern (see RoProofs/Ops/Basic.lean): `runOp_out_plain` reduces the run to
  `gate (emitsV … ++ emitsE …)`; an induction on the value list with the machine state
  generalised gives the emissions; `gate` is discharged by the "no terminal among values" lemmas.
-/
import RoProofs.Script
import RoModel.Ops.Filter
import RoModel.Spec.Filter
namespace Ro
variable {α β κ : Type}

/-! ### helpers -/

private theorem hasTerm_nexts' (vs : List (Ctx × α)) : hasTerm (Spec.nexts vs) = false :=
  hasTerm_map_next vs

private theorem hasTerm_map_nextlike' {γ : Type} (l : List γ) (g : γ → Ctx) (h : γ → β) :
    hasTerm (l.map (fun q => Notif.next (g q) (h q))) = false := by
  induction l with
  | nil => rfl
  | cons p ps ih => simp [ih]

private theorem hasTerm_map_nextP (p : Spec.IPred α) (l : List ((Ctx × α) × Nat)) :
    hasTerm (l.map (Spec.nextP p)) = false :=
  hasTerm_map_nextlike' l _ _

/-! ### Filter -/

theorem filterM_emitsV (p : Pred α) (i : Nat) (vs : List (Ctx × α)) :
    (filterM p).emitsV i vs =
      ((vs.zipIdx i).filter (fun q => (p q.1.1 q.1.2 q.2).2)).map
        (fun q => Notif.next (p q.1.1 q.1.2 q.2).1 q.1.2) := by
  induction vs generalizing i with
  | nil => rfl
  | cons x ps ih =>
    obtain ⟨c, v⟩ := x
    have hstep : (filterM p).emitsV i ((c, v) :: ps) =
        (if (p c v i).2 then [Notif.next (p c v i).1 v] else []) ++ (filterM p).emitsV (i + 1) ps := rfl
    rw [hstep, ih (i + 1), List.zipIdx_cons, List.filter_cons]
    cases (p c v i).2 <;> simp

theorem filter_spec (p : Pred α) (mode : SrcMode) (sub : Ctx) (raw : List (Notif α)) :
    (runOp (filterM p) mode sub raw).out = Spec.filter p (values raw) (ending raw) := by
  rw [runOp_out_plain _ _ _ _ rfl (fun _ _ => rfl)]
  rw [filterM_emitsV, emitsE_fwd _ _ _ (fun _ _ _ => rfl) (fun _ _ => rfl)]
  exact gate_values_ending _ _ (hasTerm_map_nextlike' _ _ _)

/-- keeps the even values at even indices, tags the context; the script has an illegal suffix -/
example :
    (runOp (filterM (fun c v i => (c.tag 7, v % 2 == 0 && i % 2 == 0))) .hot Ctx.bg
      [.next Ctx.bg 4, .next (Ctx.bg.tag 1) 6, .next Ctx.bg 5, .next Ctx.bg 3, .next (Ctx.bg.tag 2) 8,
       .error Ctx.bg (.user 1), .next Ctx.bg 10, .complete Ctx.bg]).out
    = [.next (Ctx.bg.tag 7) 4, .next ((Ctx.bg.tag 2).tag 7) 8, .error Ctx.bg (.user 1)] := by decide

/-! ### DistinctBy -/

theorem distinctByM_emitsV [DecidableEq κ] (key : Ctx → α → Ctx × κ)
    (pre : List (Ctx × α)) (seen : List κ) (vs : List (Ctx × α))
    (hseen : ∀ k, k ∈ seen ↔ ∃ y ∈ pre, (key y.1 y.2).2 = k) :
    (distinctByM key).emitsV seen vs =
      ((vs.zipIdx pre.length).filter (fun q =>
          ((pre ++ vs).take q.2).all (fun y => decide ((key y.1 y.2).2 ≠ (key q.1.1 q.1.2).2)))).map
        (fun q => Notif.next (key q.1.1 q.1.2).1 q.1.2) := by
  induction vs generalizing pre seen with
  | nil => rfl
  | cons x ps ih =>
    obtain ⟨c, v⟩ := x
    have hstep : (distinctByM key).emitsV seen ((c, v) :: ps) =
        (if (key c v).2 ∈ seen then ([] : List (Notif α)) else [Notif.next (key c v).1 v]) ++
          (distinctByM key).emitsV (if (key c v).2 ∈ seen then seen else (key c v).2 :: seen) ps := by
      show ((distinctByM key).onNext seen c v).2 ++
        (distinctByM key).emitsV ((distinctByM key).onNext seen c v).1 ps = _
      have : (distinctByM key).onNext seen c v =
          if (key c v).2 ∈ seen then (seen, []) else ((key c v).2 :: seen, [.next (key c v).1 v]) := rfl
      rw [this]
      split <;> rfl
    have hpre : pre ++ (c, v) :: ps = (pre ++ [(c, v)]) ++ ps := by simp
    have hseen' : ∀ k, k ∈ (if (key c v).2 ∈ seen then seen else (key c v).2 :: seen) ↔
        ∃ y ∈ pre ++ [(c, v)], (key y.1 y.2).2 = k := by
      intro k
      by_cases hm : (key c v).2 ∈ seen
      · simp only [hm, if_true, List.mem_append, List.mem_singleton]
        constructor
        · intro hk
          obtain ⟨y, hy, hyk⟩ := (hseen k).1 hk
          exact ⟨y, Or.inl hy, hyk⟩
        · rintro ⟨y, hy | hy, hyk⟩
          · exact (hseen k).2 ⟨y, hy, hyk⟩
          · subst hy; subst hyk; exact hm
      · rw [if_neg hm, List.mem_cons]
        simp only [List.mem_append, List.mem_singleton]
        constructor
        · rintro (hk | hk)
          · exact ⟨(c, v), Or.inr rfl, hk.symm⟩
          · obtain ⟨y, hy, hyk⟩ := (hseen k).1 hk
            exact ⟨y, Or.inl hy, hyk⟩
        · rintro ⟨y, hy | hy, hyk⟩
          · exact Or.inr ((hseen k).2 ⟨y, hy, hyk⟩)
          · subst hy; exact Or.inl hyk.symm
    have hhead : ((pre ++ (c, v) :: ps).take pre.length).all
        (fun y => decide ((key y.1 y.2).2 ≠ (key c v).2)) = !decide ((key c v).2 ∈ seen) := by
      rw [List.take_left']
      · by_cases hm : (key c v).2 ∈ seen
        · obtain ⟨y, hy, hyk⟩ := (hseen _).1 hm
          simp only [hm, decide_true, Bool.not_true, List.all_eq_false]
          exact ⟨y, hy, by simp [hyk]⟩
        · simp only [hm, decide_false, Bool.not_false, List.all_eq_true, decide_eq_true_eq]
          intro y hy hyk
          exact hm ((hseen _).2 ⟨y, hy, hyk⟩)
      · rfl
    rw [hstep, ih (pre ++ [(c, v)]) _ hseen', List.zipIdx_cons, List.filter_cons, hhead, hpre]
    by_cases hm : (key c v).2 ∈ seen <;> simp [hm]

theorem distinctBy_spec [DecidableEq κ] (key : Ctx → α → Ctx × κ)
    (mode : SrcMode) (sub : Ctx) (raw : List (Notif α)) :
    (runOp (distinctByM key) mode sub raw).out = Spec.distinctBy key (values raw) (ending raw) := by
  rw [runOp_out_plain _ _ _ _ rfl (fun _ _ => rfl)]
  rw [emitsE_fwd _ _ _ (fun _ _ _ => rfl) (fun _ _ => rfl)]
  have h := distinctByM_emitsV key [] [] (values raw) (by simp)
  have hinit : (distinctByM key).init = ([] : List κ) := rfl
  rw [hinit, h]
  exact gate_values_ending _ _ (hasTerm_map_nextlike' _ _ _)

/-- distinct modulo 3, the selector tags the context; illegal suffix after the completion -/
example :
    (runOp (distinctByM (fun c (v : Nat) => (c.tag 9, v % 3))) .sync Ctx.bg
      [.next Ctx.bg 1, .next (Ctx.bg.tag 1) 4, .next Ctx.bg 2, .next Ctx.bg 7, .next (Ctx.bg.tag 2) 3,
       .next Ctx.bg 5, .complete (Ctx.bg.tag 3), .next Ctx.bg 6, .error Ctx.bg (.user 1)]).out
    = [.next (Ctx.bg.tag 9) 1, .next (Ctx.bg.tag 9) 2, .next ((Ctx.bg.tag 2).tag 9) 3,
       .complete (Ctx.bg.tag 3)] := by decide

/-! ### SkipWhile -/

private theorem map_fst_zipIdx' {γ : Type} (l : List γ) (i : Nat) :
    (l.zipIdx i).map (fun q => q.1) = l := List.zipIdx_map_fst i l

/-- once skipping has stopped, everything passes unchanged -/
theorem skipWhileM_emitsV_passing (p : Pred α) (i : Nat) (vs : List (Ctx × α)) :
    (skipWhileM p).emitsV (false, i) vs = Spec.nexts vs := by
  induction vs generalizing i with
  | nil => rfl
  | cons x ps ih =>
    obtain ⟨c, v⟩ := x
    have hstep : (skipWhileM p).emitsV (false, i) ((c, v) :: ps) =
        Notif.next c v :: (skipWhileM p).emitsV (false, i + 1) ps := rfl
    rw [hstep, ih (i + 1)]
    rfl

theorem skipWhileM_emitsV (p : Pred α) (i : Nat) (vs : List (Ctx × α)) :
    (skipWhileM p).emitsV (true, i) vs =
      match (vs.zipIdx i).dropWhile (Spec.holds p) with
      | [] => []
      | q :: rest => Spec.nextP p q :: Spec.nexts (rest.map (·.1)) := by
  induction vs generalizing i with
  | nil => rfl
  | cons x ps ih =>
    obtain ⟨c, v⟩ := x
    have hstep : (skipWhileM p).emitsV (true, i) ((c, v) :: ps) =
        if (p c v i).2 then (skipWhileM p).emitsV (true, i + 1) ps
        else Notif.next (p c v i).1 v :: (skipWhileM p).emitsV (false, i + 1) ps := by
      show ((skipWhileM p).onNext (true, i) c v).2 ++
        (skipWhileM p).emitsV ((skipWhileM p).onNext (true, i) c v).1 ps = _
      have : (skipWhileM p).onNext (true, i) c v =
          if (p c v i).2 then ((true, i + 1), []) else ((false, i + 1), [.next (p c v i).1 v]) := rfl
      rw [this]
      split <;> rfl
    rw [hstep, List.zipIdx_cons, List.dropWhile_cons]
    have hh : Spec.holds p ((c, v), i) = (p c v i).2 := rfl
    rw [hh]
    cases hp : (p c v i).2
    · simp only [Bool.false_eq_true, if_false]
      rw [skipWhileM_emitsV_passing, map_fst_zipIdx']
      rfl
    · simp only [if_true]
      exact ih (i + 1)

theorem skipWhile_spec (p : Pred α) (mode : SrcMode) (sub : Ctx) (raw : List (Notif α)) :
    (runOp (skipWhileM p) mode sub raw).out = Spec.skipWhile p (values raw) (ending raw) := by
  rw [runOp_out_plain _ _ _ _ rfl (fun _ _ => rfl)]
  rw [emitsE_fwd _ _ _ (fun _ _ _ => rfl) (fun _ _ => rfl)]
  have hinit : (skipWhileM p).init = (true, 0) := rfl
  rw [hinit, skipWhileM_emitsV]
  unfold Spec.skipWhile
  apply gate_values_ending
  split
  · rfl
  · simp only [hasTerm_cons, Spec.nextP, Notif.isTerminal_next, Bool.false_or]
    exact hasTerm_nexts' _

/-- skips while `v < 3`; the predicate (which would reject 1 again) is not consulted afterwards;
    the boundary value carries the predicate's context, later ones their own -/
example :
    (runOp (skipWhileM (fun c (v : Nat) i => (c.tag (10 + i), v < 3))) .hot Ctx.bg
      [.next Ctx.bg 1, .next Ctx.bg 2, .next (Ctx.bg.tag 1) 5, .next (Ctx.bg.tag 2) 1, .next Ctx.bg 7,
       .complete (Ctx.bg.tag 3), .next Ctx.bg 9, .complete Ctx.bg]).out
    = [.next ((Ctx.bg.tag 1).tag 12) 5, .next (Ctx.bg.tag 2) 1, .next Ctx.bg 7,
       .complete (Ctx.bg.tag 3)] := by decide

/-! ### SkipLast -/

theorem skipLastM_emitsV (n : Nat) (hn : 0 < n) (q vs : List (Ctx × α)) (hq : q.length ≤ n) :
    (skipLastM n).emitsV q vs = Spec.nexts ((q ++ vs).take (q.length + vs.length - n)) := by
  induction vs generalizing q with
  | nil =>
    have : q.length + ([] : List (Ctx × α)).length - n = 0 := by simp; omega
    rw [this]
    simp [Machine.emitsV, Spec.nexts]
  | cons x ps ih =>
    obtain ⟨c, v⟩ := x
    by_cases hlt : q.length < n
    · have hstep : (skipLastM n).emitsV q ((c, v) :: ps) = (skipLastM n).emitsV (q ++ [(c, v)]) ps := by
        show ((skipLastM n).onNext q c v).2 ++ (skipLastM n).emitsV ((skipLastM n).onNext q c v).1 ps = _
        have : (skipLastM n).onNext q c v = (q ++ [(c, v)], []) := by
          show (if q.length < n then (q ++ [(c, v)], []) else _) = _
          rw [if_pos hlt]
        rw [this]; rfl
      rw [hstep, ih (q ++ [(c, v)]) (by simp; omega)]
      have h1 : (q ++ [(c, v)]).length + ps.length = q.length + ((c, v) :: ps).length := by
        simp; omega
      rw [h1, List.append_assoc]; rfl
    · cases q with
      | nil => simp at hlt; omega
      | cons y rest =>
        obtain ⟨c0, v0⟩ := y
        have hlen : rest.length + 1 = n := by simp at hlt hq; omega
        have hstep : (skipLastM n).emitsV ((c0, v0) :: rest) ((c, v) :: ps) =
            Notif.next c0 v0 :: (skipLastM n).emitsV (rest ++ [(c, v)]) ps := by
          show ((skipLastM n).onNext ((c0, v0) :: rest) c v).2 ++
            (skipLastM n).emitsV ((skipLastM n).onNext ((c0, v0) :: rest) c v).1 ps = _
          have : (skipLastM n).onNext ((c0, v0) :: rest) c v = (rest ++ [(c, v)], [.next c0 v0]) := by
            show (if ((c0, v0) :: rest).length < n then _ else _) = _
            rw [if_neg hlt]
          rw [this]; rfl
        rw [hstep, ih (rest ++ [(c, v)]) (by simp; omega)]
        have h1 : (rest ++ [(c, v)]).length + ps.length - n = ps.length := by simp; omega
        have h2 : ((c0, v0) :: rest).length + ((c, v) :: ps).length - n = ps.length + 1 := by
          simp; omega
        rw [h1, h2, List.append_assoc]
        simp [Spec.nexts, List.take_succ_cons]

theorem skipLast_spec (n : Nat) (hn : 0 < n) (mode : SrcMode) (sub : Ctx) (raw : List (Notif α)) :
    (runOp (skipLastM n) mode sub raw).out = Spec.skipLast n (values raw) (ending raw) := by
  rw [runOp_out_plain _ _ _ _ rfl (fun _ _ => rfl)]
  rw [emitsE_fwd _ _ _ (fun _ _ _ => rfl) (fun _ _ => rfl)]
  have hinit : (skipLastM (α := α) n).init = [] := rfl
  rw [hinit, skipLastM_emitsV n hn [] (values raw) (by simp)]
  simp only [List.nil_append, List.length_nil, Nat.zero_add]
  exact gate_values_ending _ _ (hasTerm_nexts' _)

/-- drops the last two of five values; the error is forwarded, the illegal suffix refused -/
example :
    (runOp (skipLastM 2) .sync Ctx.bg
      [.next (Ctx.bg.tag 1) 1, .next (Ctx.bg.tag 2) 2, .next (Ctx.bg.tag 3) 3, .next Ctx.bg 4,
       .next Ctx.bg 5, .error (Ctx.bg.tag 4) (.user 7), .next Ctx.bg 6, .complete Ctx.bg]).out
    = [.next (Ctx.bg.tag 1) 1, .next (Ctx.bg.tag 2) 2, .next (Ctx.bg.tag 3) 3,
       .error (Ctx.bg.tag 4) (.user 7)] := by decide

/-! ### TakeWhile -/

/-- after the first failing value the machine is silent, ending included -/
theorem takeWhileM_done (p : Pred α) (i : Nat) (vs : List (Ctx × α)) (e : Ending) :
    (takeWhileM p).emitsV (true, i) vs ++
      (takeWhileM p).emitsE ((takeWhileM p).afterV (true, i) vs) e = [] := by
  induction vs generalizing i with
  | nil => cases e <;> rfl
  | cons x ps ih =>
    obtain ⟨c, v⟩ := x
    exact ih (i + 1)

theorem takeWhileM_run (p : Pred α) (i : Nat) (vs : List (Ctx × α)) (e : Ending) :
    (takeWhileM p).emitsV (false, i) vs ++
      (takeWhileM p).emitsE ((takeWhileM p).afterV (false, i) vs) e =
    ((vs.zipIdx i).takeWhile (Spec.holds p)).map (Spec.nextP p) ++
      (match (vs.zipIdx i).find? (fun q => !Spec.holds p q) with
       | some q => [.complete (p q.1.1 q.1.2 q.2).1]
       | none => e.toList) := by
  induction vs generalizing i with
  | nil => cases e <;> rfl
  | cons x ps ih =>
    obtain ⟨c, v⟩ := x
    have hon : (takeWhileM p).onNext (false, i) c v =
        if (p c v i).2 then ((false, i + 1), [.next (p c v i).1 v])
        else ((true, i + 1), [.complete (p c v i).1]) := rfl
    have hV : (takeWhileM p).emitsV (false, i) ((c, v) :: ps) =
        ((takeWhileM p).onNext (false, i) c v).2 ++
          (takeWhileM p).emitsV ((takeWhileM p).onNext (false, i) c v).1 ps := rfl
    have hA : (takeWhileM p).afterV (false, i) ((c, v) :: ps) =
        (takeWhileM p).afterV ((takeWhileM p).onNext (false, i) c v).1 ps := rfl
    have hh : Spec.holds p ((c, v), i) = (p c v i).2 := rfl
    rw [hV, hA, hon]
    cases hp : (p c v i).2
    · have := takeWhileM_done p (i + 1) ps e
      simp only [Bool.false_eq_true, if_false, List.cons_append, List.nil_append] at this ⊢
      rw [this]
      simp [List.zipIdx_cons, hh, hp]
    · have := ih (i + 1)
      simp only [if_true, List.cons_append, List.nil_append] at this ⊢
      rw [this]
      simp [List.zipIdx_cons, hh, hp, Spec.nextP]

theorem takeWhile_spec (p : Pred α) (mode : SrcMode) (sub : Ctx) (raw : List (Notif α)) :
    (runOp (takeWhileM p) mode sub raw).out = Spec.takeWhile p (values raw) (ending raw) := by
  rw [runOp_out_plain _ _ _ _ rfl (fun _ _ => rfl)]
  have hinit : (takeWhileM p).init = (false, 0) := rfl
  rw [hinit, takeWhileM_run]
  unfold Spec.takeWhile
  cases (values raw).zipIdx.find? (fun q => !Spec.holds p q) with
  | some q => exact gate_values_ending _ (.complete _) (hasTerm_map_nextP _ _)
  | none => exact gate_values_ending _ _ (hasTerm_map_nextP _ _)

/-- passes while `v < 5` with the predicate's contexts, completes at the first failing value with
    the context returned by that call; the source's own error comes too late -/
example :
    (runOp (takeWhileM (fun c (v : Nat) i => (c.tag (10 + i), v < 5))) .hot Ctx.bg
      [.next Ctx.bg 1, .next (Ctx.bg.tag 1) 2, .next (Ctx.bg.tag 2) 8, .next Ctx.bg 3,
       .error Ctx.bg (.user 1), .next Ctx.bg 0]).out
    = [.next (Ctx.bg.tag 10) 1, .next ((Ctx.bg.tag 1).tag 11) 2, .complete ((Ctx.bg.tag 2).tag 12)] := by
  decide

/-- the predicate never fails: the source's ending is forwarded -/
example :
    (runOp (takeWhileM (fun c (v : Nat) _ => (c, v < 5))) .sync Ctx.bg
      [.next Ctx.bg 1, .next (Ctx.bg.tag 1) 2, .error (Ctx.bg.tag 3) (.user 1), .next Ctx.bg 0]).out
    = [.next Ctx.bg 1, .next (Ctx.bg.tag 1) 2, .error (Ctx.bg.tag 3) (.user 1)] := by decide

/-! ### TakeLast -/

theorem takeLastM_emitsV (n : Nat) (q vs : List (Ctx × α)) : (takeLastM n).emitsV q vs = [] := by
  induction vs generalizing q with
  | nil => rfl
  | cons x ps ih => obtain ⟨c, v⟩ := x; exact ih _

theorem takeLastM_afterV (n : Nat) (hn : 0 < n) (q vs : List (Ctx × α)) (hq : q.length ≤ n) :
    (takeLastM n).afterV q vs = (q ++ vs).drop (q.length + vs.length - n) := by
  induction vs generalizing q with
  | nil =>
    have : q.length + ([] : List (Ctx × α)).length - n = 0 := by simp; omega
    rw [this]; simp [Machine.afterV]
  | cons x ps ih =>
    obtain ⟨c, v⟩ := x
    have hstep : (takeLastM n).afterV q ((c, v) :: ps) =
        (takeLastM n).afterV ((if q.length ≥ n then q.drop 1 else q) ++ [(c, v)]) ps := rfl
    rw [hstep]
    by_cases hge : q.length ≥ n
    · cases q with
      | nil => simp at hge; omega
      | cons y rest =>
        have hlen : rest.length + 1 = n := by simp at hge hq; omega
        rw [if_pos hge, ih _ (by simp; omega)]
        have h1 : (List.drop 1 (y :: rest) ++ [(c, v)]).length + ps.length - n = ps.length := by
          simp; omega
        have h2 : (y :: rest).length + ((c, v) :: ps).length - n = ps.length + 1 := by
          simp; omega
        rw [h1, h2]
        simp
    · rw [if_neg hge, ih _ (by simp; omega)]
      have h1 : (q ++ [(c, v)]).length + ps.length = q.length + ((c, v) :: ps).length := by
        simp; omega
      rw [h1, List.append_assoc]; rfl

theorem takeLast_spec (n : Nat) (hn : 0 < n) (mode : SrcMode) (sub : Ctx) (raw : List (Notif α)) :
    (runOp (takeLastM n) mode sub raw).out = Spec.takeLast n (values raw) (ending raw) := by
  rw [runOp_out_plain _ _ _ _ rfl (fun _ _ => rfl)]
  have hinit : (takeLastM (α := α) n).init = [] := rfl
  rw [hinit, takeLastM_emitsV, takeLastM_afterV n hn [] (values raw) (by simp)]
  simp only [List.nil_append, List.length_nil, Nat.zero_add]
  cases ending raw with
  | never => rfl
  | error c e => rfl
  | complete c => exact gate_values_ending _ (.complete c) (hasTerm_nexts' _)

/-- the last two of four values with their stored contexts, at completion -/
example :
    (runOp (takeLastM 2) .sync Ctx.bg
      [.next (Ctx.bg.tag 1) 1, .next (Ctx.bg.tag 2) 2, .next (Ctx.bg.tag 3) 3, .next (Ctx.bg.tag 4) 4,
       .complete (Ctx.bg.tag 5), .next Ctx.bg 6, .error Ctx.bg (.user 1)]).out
    = [.next (Ctx.bg.tag 3) 3, .next (Ctx.bg.tag 4) 4, .complete (Ctx.bg.tag 5)] := by decide

/-- nothing but the error on error -/
example :
    (runOp (takeLastM 2) .hot Ctx.bg
      [.next (Ctx.bg.tag 1) 1, .next (Ctx.bg.tag 2) 2, .next (Ctx.bg.tag 3) 3,
       .error (Ctx.bg.tag 5) (.user 1), .complete Ctx.bg]).out
    = [.error (Ctx.bg.tag 5) (.user 1)] := by decide

/-! ### Empty (Take 0, TakeLast 0) -/

theorem empty_spec (mode : SrcMode) (sub : Ctx) (raw : List (Notif α)) :
    (runOp (emptyM (α := α) (β := β)) mode sub raw).out = Spec.empty sub (values raw) (ending raw) := by
  rw [runOp_out_nosub _ _ _ _ rfl]
  rfl

/-- the source is never subscribed: only the completion with the subscription context -/
example :
    (runOp (emptyM (α := Nat) (β := Nat)) .sync (Ctx.bg.tag 4)
      [.next Ctx.bg 1, .next Ctx.bg 2, .error Ctx.bg (.user 1), .next Ctx.bg 3]).out
    = [.complete (Ctx.bg.tag 4)] := by decide

/-! ### Head -/

theorem head_spec (mode : SrcMode) (sub : Ctx) (raw : List (Notif α)) :
    (runOp (headM (α := α)) mode sub raw).out = Spec.head (values raw) (ending raw) := by
  rw [runOp_out_plain _ _ _ _ rfl (fun _ _ => rfl)]
  cases values raw with
  | nil => cases ending raw <;> rfl
  | cons x ps =>
    obtain ⟨c, v⟩ := x
    show gate (([Notif.next c v, Notif.complete c] ++ headM.emitsV () ps) ++ _) = _
    rw [List.append_assoc, gate_append_of_term _ _ rfl]
    rfl

/-- the first value and a completion with its context; later values and the error are refused -/
example :
    (runOp headM .hot Ctx.bg
      [.next (Ctx.bg.tag 1) 5, .next (Ctx.bg.tag 2) 6, .error Ctx.bg (.user 1), .next Ctx.bg 7]).out
    = [.next (Ctx.bg.tag 1) 5, .complete (Ctx.bg.tag 1)] := by decide

/-- `ErrHeadEmpty` when an empty source completes -/
example :
    (runOp (headM (α := Nat)) .sync Ctx.bg [.complete (Ctx.bg.tag 1), .next Ctx.bg 7]).out
    = [.error (Ctx.bg.tag 1) (.sentinel 1)] := by decide

/-! ### Tail -/

theorem tailM_emitsV (s : Option (Ctx × α)) (vs : List (Ctx × α)) : tailM.emitsV s vs = [] := by
  induction vs generalizing s with
  | nil => rfl
  | cons x ps ih => obtain ⟨c, v⟩ := x; exact ih _

theorem tailM_afterV (s : Option (Ctx × α)) (vs : List (Ctx × α)) :
    tailM.afterV s vs = vs.getLast?.or s := by
  induction vs generalizing s with
  | nil => rfl
  | cons x ps ih =>
    obtain ⟨c, v⟩ := x
    have hstep : tailM.afterV s ((c, v) :: ps) = tailM.afterV (some (c, v)) ps := rfl
    rw [hstep, ih, List.getLast?_cons]
    cases ps.getLast? <;> rfl

theorem tail_spec (mode : SrcMode) (sub : Ctx) (raw : List (Notif α)) :
    (runOp (tailM (α := α)) mode sub raw).out = Spec.tail (values raw) (ending raw) := by
  rw [runOp_out_plain _ _ _ _ rfl (fun _ _ => rfl)]
  have hinit : (tailM (α := α)).init = none := rfl
  rw [hinit, tailM_emitsV, tailM_afterV, Option.or_none]
  cases ending raw with
  | never => rfl
  | error c e => rfl
  | complete c =>
    unfold Spec.tail
    cases (values raw).getLast? <;> rfl

/-- the last value with its stored context, then the completion with the completion's context -/
example :
    (runOp tailM .sync Ctx.bg
      [.next (Ctx.bg.tag 1) 5, .next (Ctx.bg.tag 2) 6, .next (Ctx.bg.tag 3) 7,
       .complete (Ctx.bg.tag 4), .next Ctx.bg 8, .error Ctx.bg (.user 1)]).out
    = [.next (Ctx.bg.tag 3) 7, .complete (Ctx.bg.tag 4)] := by decide

/-- `ErrTailEmpty` on an empty source; an error is forwarded alone -/
example :
    (runOp (tailM (α := Nat)) .hot Ctx.bg [.complete (Ctx.bg.tag 1), .next Ctx.bg 7]).out
    = [.error (Ctx.bg.tag 1) (.sentinel 2)] := by decide
example :
    (runOp tailM .hot Ctx.bg [.next Ctx.bg 7, .error (Ctx.bg.tag 1) (.user 3), .complete Ctx.bg]).out
    = [.error (Ctx.bg.tag 1) (.user 3)] := by decide

/-! ### First -/

theorem firstM_gate (p : Pred α) (i : Nat) (vs : List (Ctx × α)) (rest : List (Notif α)) :
    gate ((firstM p).emitsV i vs ++ rest) =
      match (vs.zipIdx i).find? (fun q => (p q.1.1 q.1.2 q.2).2) with
      | some q => [.next (p q.1.1 q.1.2 q.2).1 q.1.2, .complete (p q.1.1 q.1.2 q.2).1]
      | none => gate rest := by
  induction vs generalizing i with
  | nil => rfl
  | cons x ps ih =>
    obtain ⟨c, v⟩ := x
    have hstep : (firstM p).emitsV i ((c, v) :: ps) =
        (if (p c v i).2 then [Notif.next (p c v i).1 v, Notif.complete (p c v i).1] else []) ++
          (firstM p).emitsV (i + 1) ps := rfl
    rw [hstep, List.zipIdx_cons, List.find?_cons]
    cases hp : (p c v i).2
    · simp only [Bool.false_eq_true, if_false, List.nil_append]
      exact ih (i + 1)
    · simp only [if_true]
      rw [List.append_assoc, gate_append_of_term _ _ rfl]
      rfl

theorem first_spec (p : Pred α) (mode : SrcMode) (sub : Ctx) (raw : List (Notif α)) :
    (runOp (firstM p) mode sub raw).out = Spec.first p (values raw) (ending raw) := by
  rw [runOp_out_plain _ _ _ _ rfl (fun _ _ => rfl)]
  have hinit : (firstM p).init = 0 := rfl
  rw [hinit, firstM_gate]
  unfold Spec.first Spec.firstMatch
  cases (values raw).zipIdx.find? (fun q => (p q.1.1 q.1.2 q.2).2) with
  | some q => rfl
  | none => cases ending raw <;> rfl

/-- the first value ≥ 5 at an odd index, with the predicate's context for value and completion;
    the second match (8) is refused -/
example :
    (runOp (firstM (fun c (v : Nat) i => (c.tag (10 + i), v ≥ 5 && i % 2 == 1))) .sync Ctx.bg
      [.next Ctx.bg 6, .next (Ctx.bg.tag 1) 2, .next Ctx.bg 3, .next (Ctx.bg.tag 2) 7, .next Ctx.bg 1,
       .next Ctx.bg 8, .complete Ctx.bg]).out
    = [.next ((Ctx.bg.tag 2).tag 13) 7, .complete ((Ctx.bg.tag 2).tag 13)] := by decide

/-- `ErrFirstEmpty` when nothing matched -/
example :
    (runOp (firstM (fun c (v : Nat) _ => (c.tag 9, v ≥ 5))) .hot Ctx.bg
      [.next Ctx.bg 1, .next Ctx.bg 2, .complete (Ctx.bg.tag 1), .next Ctx.bg 8]).out
    = [.error (Ctx.bg.tag 1) (.sentinel 3)] := by decide

/-! ### Last -/

theorem lastM_emitsV (p : Pred α) (s : Option (Ctx × α) × Nat) (vs : List (Ctx × α)) :
    (lastM p).emitsV s vs = [] := by
  induction vs generalizing s with
  | nil => rfl
  | cons x ps ih => obtain ⟨c, v⟩ := x; exact ih _

theorem lastM_afterV (p : Pred α) (s : Option (Ctx × α)) (i : Nat) (vs : List (Ctx × α)) :
    ((lastM p).afterV (s, i) vs).1 =
      ((((vs.zipIdx i).filter (Spec.holds p)).getLast?).map
        (fun q => ((p q.1.1 q.1.2 q.2).1, q.1.2))).or s := by
  induction vs generalizing s i with
  | nil => rfl
  | cons x ps ih =>
    obtain ⟨c, v⟩ := x
    have hstep : (lastM p).afterV (s, i) ((c, v) :: ps) =
        (lastM p).afterV (if (p c v i).2 then some ((p c v i).1, v) else s, i + 1) ps := rfl
    have hh : Spec.holds p ((c, v), i) = (p c v i).2 := rfl
    rw [hstep, ih, List.zipIdx_cons, List.filter_cons, hh]
    cases hp : (p c v i).2
    · simp
    · simp only [if_true, List.getLast?_cons]
      cases ((ps.zipIdx (i + 1)).filter (Spec.holds p)).getLast? <;> rfl

theorem last_spec (p : Pred α) (mode : SrcMode) (sub : Ctx) (raw : List (Notif α)) :
    (runOp (lastM p) mode sub raw).out = Spec.last p (values raw) (ending raw) := by
  rw [runOp_out_plain _ _ _ _ rfl (fun _ _ => rfl)]
  have hinit : (lastM p).init = (none, 0) := rfl
  rw [hinit, lastM_emitsV]
  cases ending raw with
  | never => rfl
  | error c e => rfl
  | complete c =>
    have hE : ∀ s, (lastM p).emitsE s (.complete c) =
        match s.1 with
        | some (c0, v0) => [.next c0 v0, .complete c0]
        | none => [.error c (.sentinel 4)] := fun _ => rfl
    rw [hE, lastM_afterV, Option.or_none]
    unfold Spec.last
    cases ((values raw).zipIdx.filter (Spec.holds p)).getLast? <;> rfl

/-- the last even value, emitted and completed with the context the predicate returned for it
    (not the completion's context) -/
example :
    (runOp (lastM (fun c (v : Nat) i => (c.tag (10 + i), v % 2 == 0))) .sync Ctx.bg
      [.next Ctx.bg 2, .next (Ctx.bg.tag 1) 4, .next Ctx.bg 3, .complete (Ctx.bg.tag 2),
       .next Ctx.bg 6, .complete Ctx.bg]).out
    = [.next ((Ctx.bg.tag 1).tag 11) 4, .complete ((Ctx.bg.tag 1).tag 11)] := by decide

/-- `ErrLastEmpty` when nothing matched -/
example :
    (runOp (lastM (fun c (v : Nat) _ => (c.tag 9, v % 2 == 0))) .hot Ctx.bg
      [.next Ctx.bg 1, .next Ctx.bg 3, .complete (Ctx.bg.tag 2), .next Ctx.bg 6]).out
    = [.error (Ctx.bg.tag 2) (.sentinel 4)] := by decide

/-! ### ElementAt, ElementAtOrDefault -/

/-- both machines react to values in the same way: the counter stops at `n`, every value seen
    with the counter at `n` is emitted followed by a completion; the gate keeps the first -/
theorem elementAt_gate (m : Machine Nat α α) (n : Nat)
    (hm : ∀ k c v, m.onNext k c v = if k = n then (k, [.next c v, .complete c]) else (k + 1, []))
    (k : Nat) (hk : k ≤ n) (vs : List (Ctx × α)) (rest : List (Notif α)) :
    gate (m.emitsV k vs ++ rest) =
      match vs[n - k]? with
      | some p => [.next p.1 p.2, .complete p.1]
      | none => gate rest := by
  induction vs generalizing k with
  | nil => rfl
  | cons x ps ih =>
    obtain ⟨c, v⟩ := x
    have hstep : m.emitsV k ((c, v) :: ps) = (m.onNext k c v).2 ++ m.emitsV (m.onNext k c v).1 ps := rfl
    rw [hstep, hm]
    by_cases hkn : k = n
    · have h0 : n - k = 0 := by omega
      rw [if_pos hkn, h0, List.append_assoc, gate_append_of_term _ _ rfl]
      rfl
    · have h1 : n - k = (n - (k + 1)) + 1 := by omega
      rw [if_neg hkn, h1, List.getElem?_cons_succ]
      exact ih (k + 1) (by omega)

theorem elementAt_spec (n : Nat) (mode : SrcMode) (sub : Ctx) (raw : List (Notif α)) :
    (runOp (elementAtM n) mode sub raw).out = Spec.elementAt n (values raw) (ending raw) := by
  rw [runOp_out_plain _ _ _ _ rfl (fun _ _ => rfl)]
  have hinit : (elementAtM (α := α) n).init = 0 := rfl
  rw [hinit, elementAt_gate _ n (fun _ _ _ => rfl) 0 (Nat.zero_le _)]
  unfold Spec.elementAt
  rw [Nat.sub_zero]
  cases (values raw)[n]? with
  | some p => rfl
  | none => cases ending raw <;> rfl

/-- the value of index 2 and a completion with its context; everything after is refused -/
example :
    (runOp (elementAtM 2) .sync Ctx.bg
      [.next (Ctx.bg.tag 1) 5, .next (Ctx.bg.tag 2) 6, .next (Ctx.bg.tag 3) 7, .next (Ctx.bg.tag 4) 8,
       .error Ctx.bg (.user 1), .next Ctx.bg 9]).out
    = [.next (Ctx.bg.tag 3) 7, .complete (Ctx.bg.tag 3)] := by decide

/-- `ErrElementAtNotFound` when the source completes too early -/
example :
    (runOp (elementAtM 2) .hot Ctx.bg
      [.next (Ctx.bg.tag 1) 5, .next (Ctx.bg.tag 2) 6, .complete (Ctx.bg.tag 3), .next Ctx.bg 9]).out
    = [.error (Ctx.bg.tag 3) (.sentinel 5)] := by decide

theorem elementAtOrDefault_spec (n : Nat) (d : α) (mode : SrcMode) (sub : Ctx) (raw : List (Notif α)) :
    (runOp (elementAtOrDefaultM n d) mode sub raw).out =
      Spec.elementAtOrDefault n d (values raw) (ending raw) := by
  rw [runOp_out_plain _ _ _ _ rfl (fun _ _ => rfl)]
  have hinit : (elementAtOrDefaultM n d).init = 0 := rfl
  rw [hinit, elementAt_gate _ n (fun _ _ _ => rfl) 0 (Nat.zero_le _)]
  unfold Spec.elementAtOrDefault
  rw [Nat.sub_zero]
  cases (values raw)[n]? with
  | some p => rfl
  | none => cases ending raw <;> rfl

/-- found: same as ElementAt -/
example :
    (runOp (elementAtOrDefaultM 1 0) .hot Ctx.bg
      [.next (Ctx.bg.tag 1) 5, .next (Ctx.bg.tag 2) 6, .next (Ctx.bg.tag 3) 7, .complete Ctx.bg]).out
    = [.next (Ctx.bg.tag 2) 6, .complete (Ctx.bg.tag 2)] := by decide

/-- not found: the fallback and the completion, both with the completion's context;
    an error is forwarded alone -/
example :
    (runOp (elementAtOrDefaultM 2 42) .sync Ctx.bg
      [.next (Ctx.bg.tag 1) 5, .next (Ctx.bg.tag 2) 6, .complete (Ctx.bg.tag 3), .next Ctx.bg 9]).out
    = [.next (Ctx.bg.tag 3) 42, .complete (Ctx.bg.tag 3)] := by decide
example :
    (runOp (elementAtOrDefaultM 2 42) .sync Ctx.bg
      [.next (Ctx.bg.tag 1) 5, .error (Ctx.bg.tag 3) (.user 2), .next Ctx.bg 9]).out
    = [.error (Ctx.bg.tag 3) (.user 2)] := by decide

end Ro

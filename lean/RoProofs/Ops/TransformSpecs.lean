/-
  RoProofs.Ops.TransformSpecs — machine = specification for the transformation family
  (RoModel/Ops/Transform.lean against RoModel/Spec/Transform.lean).
  Pattern (RoProofs/Ops/Basic.lean): `runOp_out_plain` / `runOp_out`, then an induction on the
  value list with the machine state generalised, then the "no terminal among values" lemmas.
-/
import RoProofs.Script
import RoModel.Ops.Transform
import RoModel.Spec.Transform
namespace Ro
variable {α β κ : Type}

/-! ### local helpers -/

private theorem hasTerm_nexts' (vs : List (Ctx × α)) : hasTerm (Spec.nexts vs) = false :=
  hasTerm_map_next vs

private theorem hasTerm_map_nextlike' {γ : Type} (l : List γ) (g : γ → Ctx) (h : γ → β) :
    hasTerm (l.map (fun q => Notif.next (g q) (h q))) = false := by
  induction l with
  | nil => rfl
  | cons p ps ih => simp [ih]

private theorem hasTerm_map_next_const (c : Ctx) (l : List α) :
    hasTerm (l.map (Notif.next c)) = false := by
  induction l with
  | nil => rfl
  | cons p ps ih => simp [ih]

/-- the gate in list vocabulary: the values before the first terminal, then that terminal -/
private theorem gate_append_takeWhile_find (ns l : List (Notif α)) :
    gate (ns ++ l) = ns.takeWhile (fun n => !n.isTerminal) ++
      (match ns.find? Notif.isTerminal with
       | some t => [t]
       | none => gate l) := by
  induction ns with
  | nil => simp
  | cons n ns ih =>
    cases hn : n.isTerminal
    · simp [gate, hn, ih]
    · simp [gate, hn]

private theorem gate_toList (e : Ending) : gate (e.toList (α := α)) = e.toList := by
  cases e <;> simp [Ending.toList, gate]

/-- a machine that re-emits every value unchanged and keeps its state -/
private theorem passV {σ : Type} (m : Machine σ α α) (s : σ)
    (h : ∀ c v, m.onNext s c v = (s, [Notif.next c v])) (vs : List (Ctx × α)) :
    m.emitsV s vs = Spec.nexts vs ∧ m.afterV s vs = s := by
  induction vs with
  | nil => exact ⟨rfl, rfl⟩
  | cons p ps ih =>
    obtain ⟨c, v⟩ := p
    simp [Machine.emitsV, Machine.afterV, h, ih, Spec.nexts]

/-! ### MapTo -/

theorem mapToM_emitsV (b : β) (vs : List (Ctx × α)) :
    (mapToM (α := α) b).emitsV () vs = vs.map (fun p => Notif.next p.1 b) := by
  induction vs with
  | nil => rfl
  | cons p ps ih =>
    obtain ⟨c, v⟩ := p
    have hstep : (mapToM (α := α) b).emitsV () ((c, v) :: ps) =
        [Notif.next c b] ++ (mapToM (α := α) b).emitsV () ps := rfl
    rw [hstep, ih]; rfl

theorem mapTo_spec (b : β) (mode : SrcMode) (sub : Ctx) (raw : List (Notif α)) :
    (runOp (mapToM (α := α) b) mode sub raw).out = Spec.mapTo b (values raw) (ending raw) := by
  rw [runOp_out_plain _ _ _ _ rfl (fun _ _ => rfl)]
  rw [mapToM_emitsV, emitsE_fwd _ _ _ (fun _ _ _ => rfl) (fun _ _ => rfl)]
  exact gate_values_ending _ _ (hasTerm_map_nextlike' _ _ _)

private def ex_mapTo : List (Notif Nat) :=
  [.next (Ctx.bg.tag 1) 5, .next (Ctx.bg.tag 2) 6, .complete (Ctx.bg.tag 3), .next Ctx.bg 7,
   .error Ctx.bg (.user 1)]
example :
    (runOp (mapToM (α := Nat) 'x') .hot Ctx.bg ex_mapTo).out =
      [.next (Ctx.bg.tag 1) 'x', .next (Ctx.bg.tag 2) 'x', .complete (Ctx.bg.tag 3)] ∧
    Spec.mapTo 'x' (values ex_mapTo) (ending ex_mapTo) =
      [.next (Ctx.bg.tag 1) 'x', .next (Ctx.bg.tag 2) 'x', .complete (Ctx.bg.tag 3)] := by
  decide

/-! ### identity -/

theorem id_spec (mode : SrcMode) (sub : Ctx) (raw : List (Notif α)) :
    (runOp (idM (α := α)) mode sub raw).out = Spec.identity (values raw) (ending raw) := by
  rw [runOp_out_plain _ _ _ _ rfl (fun _ _ => rfl)]
  rw [(passV idM () (fun _ _ => rfl) _).1, emitsE_fwd _ _ _ (fun _ _ _ => rfl) (fun _ _ => rfl)]
  exact gate_values_ending _ _ (hasTerm_nexts' _)

/-- the identity machine delivers exactly what passes the gate -/
theorem id_spec_gate (mode : SrcMode) (sub : Ctx) (raw : List (Notif α)) :
    (runOp (idM (α := α)) mode sub raw).out = gate raw := by
  rw [id_spec, gate_eq_legal]; rfl

private def ex_id : List (Notif Nat) :=
  [.next (Ctx.bg.tag 1) 5, .error (Ctx.bg.tag 2) (.user 9), .next Ctx.bg 7, .complete Ctx.bg]
example :
    (runOp (idM (α := Nat)) .sync Ctx.bg ex_id).out =
      [.next (Ctx.bg.tag 1) 5, .error (Ctx.bg.tag 2) (.user 9)] ∧
    Spec.identity (values ex_id) (ending ex_id) =
      [.next (Ctx.bg.tag 1) 5, .error (Ctx.bg.tag 2) (.user 9)] := by
  decide

/-! ### Flatten -/

theorem flattenM_emitsV (vs : List (Ctx × List α)) :
    (flattenM (α := α)).emitsV () vs = Spec.nexts (vs.flatMap (fun p => p.2.map (fun x => (p.1, x)))) := by
  induction vs with
  | nil => rfl
  | cons p ps ih =>
    obtain ⟨c, l⟩ := p
    have hstep : (flattenM (α := α)).emitsV () ((c, l) :: ps) =
        l.map (Notif.next c) ++ (flattenM (α := α)).emitsV () ps := rfl
    rw [hstep, ih]
    simp [Spec.nexts, List.flatMap_cons, Function.comp_def]

theorem flatten_spec (mode : SrcMode) (sub : Ctx) (raw : List (Notif (List α))) :
    (runOp (flattenM (α := α)) mode sub raw).out = Spec.flatten (values raw) (ending raw) := by
  rw [runOp_out_plain _ _ _ _ rfl (fun _ _ => rfl)]
  rw [flattenM_emitsV, emitsE_fwd _ _ _ (fun _ _ _ => rfl) (fun _ _ => rfl)]
  exact gate_values_ending _ _ (hasTerm_nexts' _)

private def ex_flatten : List (Notif (List Nat)) :=
  [.next (Ctx.bg.tag 1) [1, 2], .next (Ctx.bg.tag 2) [], .next (Ctx.bg.tag 3) [3],
   .error (Ctx.bg.tag 4) (.user 0), .next Ctx.bg [9]]
example :
    (runOp (flattenM (α := Nat)) .hot Ctx.bg ex_flatten).out =
      [.next (Ctx.bg.tag 1) 1, .next (Ctx.bg.tag 1) 2, .next (Ctx.bg.tag 3) 3,
       .error (Ctx.bg.tag 4) (.user 0)] ∧
    Spec.flatten (values ex_flatten) (ending ex_flatten) =
      [.next (Ctx.bg.tag 1) 1, .next (Ctx.bg.tag 1) 2, .next (Ctx.bg.tag 3) 3,
       .error (Ctx.bg.tag 4) (.user 0)] := by
  decide

/-! ### StartWith -/

theorem startWith_spec (pre : List α) (mode : SrcMode) (sub : Ctx) (raw : List (Notif α)) :
    (runOp (startWithM pre) mode sub raw).out = Spec.startWith pre sub (values raw) (ending raw) := by
  rw [runOp_out _ _ _ _ rfl, gate_eq_legal raw, emits_legal]
  have h0 : (startWithM pre).onSubscribe (startWithM pre).init sub = ((), pre.map (Notif.next sub)) := rfl
  rw [h0]
  simp only []
  rw [(passV (startWithM pre) () (fun _ _ => rfl) _).1, (passV (startWithM pre) () (fun _ _ => rfl) _).2,
    emitsE_fwd _ _ _ (fun _ _ _ => rfl) (fun _ _ => rfl), ← List.append_assoc]
  exact gate_values_ending _ _ (by simp [hasTerm_nexts', hasTerm_map_next_const])

private def ex_startWith : List (Notif Nat) :=
  [.next (Ctx.bg.tag 1) 5, .complete (Ctx.bg.tag 2), .next Ctx.bg 7]
example :
    (runOp (startWithM [10, 11]) .sync (Ctx.bg.tag 7) ex_startWith).out =
      [.next (Ctx.bg.tag 7) 10, .next (Ctx.bg.tag 7) 11, .next (Ctx.bg.tag 1) 5, .complete (Ctx.bg.tag 2)] ∧
    Spec.startWith [10, 11] (Ctx.bg.tag 7) (values ex_startWith) (ending ex_startWith) =
      [.next (Ctx.bg.tag 7) 10, .next (Ctx.bg.tag 7) 11, .next (Ctx.bg.tag 1) 5, .complete (Ctx.bg.tag 2)] := by
  decide

/-! ### EndWith -/

theorem endWith_spec (suf : List α) (mode : SrcMode) (sub : Ctx) (raw : List (Notif α)) :
    (runOp (endWithM suf) mode sub raw).out = Spec.endWith suf (values raw) (ending raw) := by
  rw [runOp_out_plain _ _ _ _ rfl (fun _ _ => rfl)]
  rw [(passV (endWithM suf) () (fun _ _ => rfl) _).1, (passV (endWithM suf) () (fun _ _ => rfl) _).2]
  cases ending raw with
  | never => exact gate_values_ending _ Ending.never (hasTerm_nexts' _)
  | error c e => exact gate_values_ending _ (Ending.error c e) (hasTerm_nexts' _)
  | complete c =>
    show gate (Spec.nexts (values raw) ++ (suf.map (Notif.next c) ++ [Notif.complete c])) = _
    rw [← List.append_assoc]
    exact gate_values_ending _ (Ending.complete c) (by simp [hasTerm_nexts', hasTerm_map_next_const])

private def ex_endWith : List (Notif Nat) :=
  [.next (Ctx.bg.tag 1) 5, .complete (Ctx.bg.tag 2), .next Ctx.bg 7]
example :
    (runOp (endWithM [10, 11]) .hot Ctx.bg ex_endWith).out =
      [.next (Ctx.bg.tag 1) 5, .next (Ctx.bg.tag 2) 10, .next (Ctx.bg.tag 2) 11, .complete (Ctx.bg.tag 2)] ∧
    Spec.endWith [10, 11] (values ex_endWith) (ending ex_endWith) =
      [.next (Ctx.bg.tag 1) 5, .next (Ctx.bg.tag 2) 10, .next (Ctx.bg.tag 2) 11, .complete (Ctx.bg.tag 2)] := by
  decide
private def ex_endWithErr : List (Notif Nat) :=
  [.next (Ctx.bg.tag 1) 5, .error (Ctx.bg.tag 2) (.user 3), .complete Ctx.bg]
example :
    (runOp (endWithM [10, 11]) .hot Ctx.bg ex_endWithErr).out =
      [.next (Ctx.bg.tag 1) 5, .error (Ctx.bg.tag 2) (.user 3)] ∧
    Spec.endWith [10, 11] (values ex_endWithErr) (ending ex_endWithErr) =
      [.next (Ctx.bg.tag 1) 5, .error (Ctx.bg.tag 2) (.user 3)] := by
  decide

/-! ### OnErrorReturn -/

theorem onErrorReturn_spec (v : α) (mode : SrcMode) (sub : Ctx) (raw : List (Notif α)) :
    (runOp (onErrorReturnM v) mode sub raw).out = Spec.onErrorReturn v (values raw) (ending raw) := by
  rw [runOp_out_plain _ _ _ _ rfl (fun _ _ => rfl)]
  rw [(passV (onErrorReturnM v) () (fun _ _ => rfl) _).1, (passV (onErrorReturnM v) () (fun _ _ => rfl) _).2]
  cases ending raw with
  | never => exact gate_values_ending _ Ending.never (hasTerm_nexts' _)
  | complete c => exact gate_values_ending _ (Ending.complete c) (hasTerm_nexts' _)
  | error c e =>
    show gate (Spec.nexts (values raw) ++ ([Notif.next c v] ++ [Notif.complete c])) = _
    rw [← List.append_assoc]
    have := gate_values_ending (Spec.nexts (values raw) ++ [Notif.next c v]) (Ending.complete c)
      (by simp [hasTerm_nexts'])
    simpa [Spec.onErrorReturn, Ending.toList] using this

private def ex_onErrorReturn : List (Notif Nat) :=
  [.next (Ctx.bg.tag 1) 5, .error (Ctx.bg.tag 2) (.user 3), .next Ctx.bg 7, .complete Ctx.bg]
example :
    (runOp (onErrorReturnM 42) .hot Ctx.bg ex_onErrorReturn).out =
      [.next (Ctx.bg.tag 1) 5, .next (Ctx.bg.tag 2) 42, .complete (Ctx.bg.tag 2)] ∧
    Spec.onErrorReturn 42 (values ex_onErrorReturn) (ending ex_onErrorReturn) =
      [.next (Ctx.bg.tag 1) 5, .next (Ctx.bg.tag 2) 42, .complete (Ctx.bg.tag 2)] := by
  decide

/-! ### ThrowIfEmpty -/

theorem throwIfEmptyM_run (err : Err) (s : Bool) (vs : List (Ctx × α)) :
    (throwIfEmptyM (α := α) err).emitsV s vs = Spec.nexts vs ∧
    (throwIfEmptyM (α := α) err).afterV s vs = (s || !vs.isEmpty) := by
  induction vs generalizing s with
  | nil => simp [Machine.emitsV, Machine.afterV, Spec.nexts]
  | cons p ps ih =>
    obtain ⟨c, v⟩ := p
    have h1 : (throwIfEmptyM (α := α) err).emitsV s ((c, v) :: ps) =
        [Notif.next c v] ++ (throwIfEmptyM (α := α) err).emitsV true ps := rfl
    have h2 : (throwIfEmptyM (α := α) err).afterV s ((c, v) :: ps) =
        (throwIfEmptyM (α := α) err).afterV true ps := rfl
    rw [h1, h2, (ih true).1, (ih true).2]
    simp [Spec.nexts]

theorem throwIfEmpty_spec (err : Err) (mode : SrcMode) (sub : Ctx) (raw : List (Notif α)) :
    (runOp (throwIfEmptyM (α := α) err) mode sub raw).out = Spec.throwIfEmpty err (values raw) (ending raw) := by
  rw [runOp_out_plain _ _ _ _ rfl (fun _ _ => rfl)]
  rw [(throwIfEmptyM_run err _ _).1, (throwIfEmptyM_run err _ _).2]
  cases ending raw with
  | never => exact gate_values_ending _ Ending.never (hasTerm_nexts' _)
  | error c e => exact gate_values_ending _ (Ending.error c e) (hasTerm_nexts' _)
  | complete c =>
    show gate (Spec.nexts (values raw) ++
      (if ((throwIfEmptyM (α := α) err).init || !(values raw).isEmpty) = true then [Notif.complete c] else [Notif.error c err])) = _
    have hi : (throwIfEmptyM (α := α) err).init = false := rfl
    rw [hi]
    cases h : (values raw).isEmpty
    · simpa [Spec.throwIfEmpty, h, Ending.toList] using
        gate_values_ending _ (Ending.complete c) (hasTerm_nexts' (values raw))
    · simpa [Spec.throwIfEmpty, h, Ending.toList] using
        gate_values_ending _ (Ending.error c err) (hasTerm_nexts' (values raw))

private def ex_throwIfEmpty0 : List (Notif Nat) :=
  [.complete (Ctx.bg.tag 2), .next Ctx.bg 7]
example :
    (runOp (throwIfEmptyM (α := Nat) (.sentinel 5)) .hot Ctx.bg ex_throwIfEmpty0).out =
      [.error (Ctx.bg.tag 2) (.sentinel 5)] ∧
    Spec.throwIfEmpty (.sentinel 5) (values ex_throwIfEmpty0) (ending ex_throwIfEmpty0) =
      [.error (Ctx.bg.tag 2) (.sentinel 5)] := by
  decide
private def ex_throwIfEmpty1 : List (Notif Nat) :=
  [.next (Ctx.bg.tag 1) 5, .complete (Ctx.bg.tag 2), .next Ctx.bg 7]
example :
    (runOp (throwIfEmptyM (α := Nat) (.sentinel 5)) .hot Ctx.bg ex_throwIfEmpty1).out =
      [.next (Ctx.bg.tag 1) 5, .complete (Ctx.bg.tag 2)] ∧
    Spec.throwIfEmpty (.sentinel 5) (values ex_throwIfEmpty1) (ending ex_throwIfEmpty1) =
      [.next (Ctx.bg.tag 1) 5, .complete (Ctx.bg.tag 2)] := by
  decide

/-! ### ToSlice -/

theorem toSliceM_run (acc : List α) (vs : List (Ctx × α)) :
    (toSliceM (α := α)).emitsV acc vs = [] ∧
    (toSliceM (α := α)).afterV acc vs = acc ++ vs.map (·.2) := by
  induction vs generalizing acc with
  | nil => simp [Machine.emitsV, Machine.afterV]
  | cons p ps ih =>
    obtain ⟨c, v⟩ := p
    have h1 : (toSliceM (α := α)).emitsV acc ((c, v) :: ps) =
        [] ++ (toSliceM (α := α)).emitsV (acc ++ [v]) ps := rfl
    have h2 : (toSliceM (α := α)).afterV acc ((c, v) :: ps) =
        (toSliceM (α := α)).afterV (acc ++ [v]) ps := rfl
    rw [h1, h2, (ih _).1, (ih _).2]
    simp

theorem toSlice_spec (mode : SrcMode) (sub : Ctx) (raw : List (Notif α)) :
    (runOp (toSliceM (α := α)) mode sub raw).out = Spec.toSlice (values raw) (ending raw) := by
  rw [runOp_out_plain _ _ _ _ rfl (fun _ _ => rfl)]
  rw [(toSliceM_run _ _).1, (toSliceM_run _ _).2]
  have hi : (toSliceM (α := α)).init = [] := rfl
  rw [hi]
  cases ending raw with
  | never => rfl
  | error c e => rfl
  | complete c =>
    show gate ([] ++ [Notif.next c ([] ++ (values raw).map (·.2)), Notif.complete c]) = _
    simp [gate, Spec.toSlice]

private def ex_toSlice : List (Notif Nat) :=
  [.next (Ctx.bg.tag 1) 5, .next (Ctx.bg.tag 1) 6, .complete (Ctx.bg.tag 2), .next Ctx.bg 7]
example :
    (runOp (toSliceM (α := Nat)) .hot Ctx.bg ex_toSlice).out =
      [.next (Ctx.bg.tag 2) [5, 6], .complete (Ctx.bg.tag 2)] ∧
    Spec.toSlice (values ex_toSlice) (ending ex_toSlice) =
      [.next (Ctx.bg.tag 2) [5, 6], .complete (Ctx.bg.tag 2)] := by
  decide

/-! ### Materialize -/

theorem materializeM_run (vs : List (Ctx × α)) :
    (materializeM (α := α)).emitsV () vs = vs.map (fun p => Notif.next p.1 (Notif.next p.1 p.2)) ∧
    (materializeM (α := α)).afterV () vs = () := by
  induction vs with
  | nil => exact ⟨rfl, rfl⟩
  | cons p ps ih =>
    obtain ⟨c, v⟩ := p
    have h1 : (materializeM (α := α)).emitsV () ((c, v) :: ps) =
        [Notif.next c (Notif.next c v)] ++ (materializeM (α := α)).emitsV () ps := rfl
    rw [h1, ih.1]
    exact ⟨rfl, rfl⟩

theorem materialize_spec (mode : SrcMode) (sub : Ctx) (raw : List (Notif α)) :
    (runOp (materializeM (α := α)) mode sub raw).out = Spec.materialize (values raw) (ending raw) := by
  rw [runOp_out_plain _ _ _ _ rfl (fun _ _ => rfl)]
  rw [(materializeM_run _).1]
  have hnt := hasTerm_map_nextlike' (values raw) (fun p => p.1) (fun p => Notif.next p.1 p.2)
  cases ending raw with
  | never => exact gate_values_ending _ Ending.never hnt
  | error c e =>
    show gate (_ ++ ([Notif.next c (Notif.error c e)] ++ [Notif.complete c])) = _
    rw [← List.append_assoc]
    have := gate_values_ending (_ ++ [Notif.next c (Notif.error c e)]) (Ending.complete c)
      (by rw [hasTerm_append, hnt]; rfl)
    simpa [Spec.materialize, Ending.toList] using this
  | complete c =>
    show gate (_ ++ ([Notif.next c (Notif.complete c)] ++ [Notif.complete c])) = _
    rw [← List.append_assoc]
    have := gate_values_ending (_ ++ [Notif.next c (Notif.complete c : Notif α)]) (Ending.complete c)
      (by rw [hasTerm_append, hnt]; rfl)
    simpa [Spec.materialize, Ending.toList] using this

private def ex_materialize : List (Notif Nat) :=
  [.next (Ctx.bg.tag 1) 5, .error (Ctx.bg.tag 2) (.user 3), .next Ctx.bg 7, .complete Ctx.bg]
example :
    (runOp (materializeM (α := Nat)) .hot Ctx.bg ex_materialize).out =
      [.next (Ctx.bg.tag 1) (.next (Ctx.bg.tag 1) 5), .next (Ctx.bg.tag 2) (.error (Ctx.bg.tag 2) (.user 3)),
       .complete (Ctx.bg.tag 2)] ∧
    Spec.materialize (values ex_materialize) (ending ex_materialize) =
      [.next (Ctx.bg.tag 1) (.next (Ctx.bg.tag 1) 5), .next (Ctx.bg.tag 2) (.error (Ctx.bg.tag 2) (.user 3)),
       .complete (Ctx.bg.tag 2)] := by
  decide

/-! ### Dematerialize -/

theorem dematerializeM_emitsV (vs : List (Ctx × Notif α)) :
    (dematerializeM (α := α)).emitsV () vs = vs.map (fun p => Spec.withCtx p.1 p.2) := by
  induction vs with
  | nil => rfl
  | cons p ps ih =>
    obtain ⟨c, n⟩ := p
    have h1 : (dematerializeM (α := α)).emitsV () ((c, n) :: ps) =
        [Spec.withCtx c n] ++ (dematerializeM (α := α)).emitsV () ps := by
      cases n <;> rfl
    rw [h1, ih]; rfl

theorem dematerialize_spec (mode : SrcMode) (sub : Ctx) (raw : List (Notif (Notif α))) :
    (runOp (dematerializeM (α := α)) mode sub raw).out = Spec.dematerialize (values raw) (ending raw) := by
  rw [runOp_out_plain _ _ _ _ rfl (fun _ _ => rfl)]
  rw [dematerializeM_emitsV, emitsE_fwd _ _ _ (fun _ _ _ => rfl) (fun _ _ => rfl)]
  rw [gate_append_takeWhile_find, gate_toList]
  rfl

private def ex_dematerialize : List (Notif (Notif Nat)) :=
  [.next (Ctx.bg.tag 1) (.next Ctx.bg 5), .next (Ctx.bg.tag 2) (.error Ctx.bg (.user 3)),
   .next (Ctx.bg.tag 3) (.next Ctx.bg 6), .complete (Ctx.bg.tag 4)]
example :
    (runOp (dematerializeM (α := Nat)) .hot Ctx.bg ex_dematerialize).out =
      [.next (Ctx.bg.tag 1) 5, .error (Ctx.bg.tag 2) (.user 3)] ∧
    Spec.dematerialize (values ex_dematerialize) (ending ex_dematerialize) =
      [.next (Ctx.bg.tag 1) 5, .error (Ctx.bg.tag 2) (.user 3)] := by
  decide
private def ex_dematerializeSrcErr : List (Notif (Notif Nat)) :=
  [.next (Ctx.bg.tag 1) (.next Ctx.bg 5), .error (Ctx.bg.tag 4) (.user 1), .complete Ctx.bg]
example :
    (runOp (dematerializeM (α := Nat)) .sync Ctx.bg ex_dematerializeSrcErr).out =
      [.next (Ctx.bg.tag 1) 5, .error (Ctx.bg.tag 4) (.user 1)] ∧
    Spec.dematerialize (values ex_dematerializeSrcErr) (ending ex_dematerializeSrcErr) =
      [.next (Ctx.bg.tag 1) 5, .error (Ctx.bg.tag 4) (.user 1)] := by
  decide

/-! ### Materialize ; Dematerialize = what passes the gate -/

theorem matDemat_run (vs : List (Ctx × α)) :
    ((materializeM (α := α)).seq dematerializeM).emitsV ((), (), true) vs = Spec.nexts vs ∧
    ((materializeM (α := α)).seq dematerializeM).afterV ((), (), true) vs = ((), (), true) :=
  passV _ _ (fun _ _ => rfl) vs

theorem materialize_dematerialize_id (mode : SrcMode) (sub : Ctx) (raw : List (Notif α)) :
    (runOp ((materializeM (α := α)).seq dematerializeM) mode sub raw).out = gate raw := by
  rw [runOp_out_plain _ _ _ _ rfl (fun _ _ => rfl)]
  have hi : ((materializeM (α := α)).seq dematerializeM).init = ((), (), true) := rfl
  rw [hi, (matDemat_run _).1, (matDemat_run _).2, gate_eq_legal raw]
  cases ending raw with
  | never => exact gate_values_ending _ Ending.never (hasTerm_nexts' _)
  | error c e =>
    show gate (Spec.nexts (values raw) ++ ([Notif.error c e] ++ [Notif.complete c])) = _
    rw [← List.append_assoc, gate_append_of_term _ _ (by simp)]
    exact gate_values_ending _ (Ending.error c e) (hasTerm_nexts' _)
  | complete c =>
    show gate (Spec.nexts (values raw) ++ ([Notif.complete c] ++ [Notif.complete c])) = _
    rw [← List.append_assoc, gate_append_of_term _ _ (by simp)]
    exact gate_values_ending _ (Ending.complete c) (hasTerm_nexts' _)

private def ex_roundTrip : List (Notif Nat) :=
  [.next (Ctx.bg.tag 1) 5, .error (Ctx.bg.tag 2) (.user 3), .next Ctx.bg 7, .complete Ctx.bg]
example :
    (runOp ((materializeM (α := Nat)).seq dematerializeM) .hot Ctx.bg ex_roundTrip).out =
      [.next (Ctx.bg.tag 1) 5, .error (Ctx.bg.tag 2) (.user 3)] ∧
    gate ex_roundTrip =
      [.next (Ctx.bg.tag 1) 5, .error (Ctx.bg.tag 2) (.user 3)] := by
  decide

/-! ### Pairwise -/

theorem pairwiseM_emitsV (p : Ctx × α) (vs : List (Ctx × α)) :
    (pairwiseM (α := α)).emitsV (some p.2) vs =
      ((p :: vs).zip vs).map (fun pq => Notif.next pq.2.1 [pq.1.2, pq.2.2]) := by
  induction vs generalizing p with
  | nil => rfl
  | cons q qs ih =>
    obtain ⟨c, v⟩ := q
    have h1 : (pairwiseM (α := α)).emitsV (some p.2) ((c, v) :: qs) =
        [Notif.next c [p.2, v]] ++ (pairwiseM (α := α)).emitsV (some v) qs := rfl
    rw [h1, ih (c, v)]
    simp

theorem pairwiseM_emitsV_init (vs : List (Ctx × α)) :
    (pairwiseM (α := α)).emitsV none vs =
      (vs.zip (vs.drop 1)).map (fun pq => Notif.next pq.2.1 [pq.1.2, pq.2.2]) := by
  cases vs with
  | nil => rfl
  | cons q qs =>
    obtain ⟨c, v⟩ := q
    have h1 : (pairwiseM (α := α)).emitsV none ((c, v) :: qs) =
        [] ++ (pairwiseM (α := α)).emitsV (some v) qs := rfl
    rw [h1, pairwiseM_emitsV (c, v) qs]
    simp

theorem pairwise_spec (mode : SrcMode) (sub : Ctx) (raw : List (Notif α)) :
    (runOp (pairwiseM (α := α)) mode sub raw).out = Spec.pairwise (values raw) (ending raw) := by
  rw [runOp_out_plain _ _ _ _ rfl (fun _ _ => rfl)]
  have hi : (pairwiseM (α := α)).init = none := rfl
  rw [hi, pairwiseM_emitsV_init, emitsE_fwd _ _ _ (fun _ _ _ => rfl) (fun _ _ => rfl)]
  exact gate_values_ending _ _ (hasTerm_map_nextlike' _ _ _)

private def ex_pairwise : List (Notif Nat) :=
  [.next (Ctx.bg.tag 1) 5, .next (Ctx.bg.tag 2) 6, .next (Ctx.bg.tag 3) 7, .complete (Ctx.bg.tag 4),
   .next Ctx.bg 8]
example :
    (runOp (pairwiseM (α := Nat)) .hot Ctx.bg ex_pairwise).out =
      [.next (Ctx.bg.tag 2) [5, 6], .next (Ctx.bg.tag 3) [6, 7], .complete (Ctx.bg.tag 4)] ∧
    Spec.pairwise (values ex_pairwise) (ending ex_pairwise) =
      [.next (Ctx.bg.tag 2) [5, 6], .next (Ctx.bg.tag 3) [6, 7], .complete (Ctx.bg.tag 4)] := by
  decide

/-! ### Scan -/

private theorem scanl_eq_cons_drop {γ δ : Type} (g : δ → γ → δ) (a : δ) (l : List γ) :
    l.scanl g a = a :: (l.scanl g a).drop 1 := by
  cases l <;> simp [List.scanl_cons]

theorem scanM_emitsV (f : Ctx → β → α → Nat → Ctx × β) (seed : β) (c0 : Ctx) (acc : β) (i : Nat)
    (vs : List (Ctx × α)) :
    (scanM f seed).emitsV (acc, i) vs =
      Spec.nexts (((vs.zipIdx i).scanl (fun a q => f q.1.1 a.2 q.1.2 q.2) (c0, acc)).drop 1) := by
  induction vs generalizing c0 acc i with
  | nil => rfl
  | cons p ps ih =>
    obtain ⟨c, v⟩ := p
    have h1 : (scanM f seed).emitsV (acc, i) ((c, v) :: ps) =
        [Notif.next (f c acc v i).1 (f c acc v i).2] ++ (scanM f seed).emitsV ((f c acc v i).2, i + 1) ps :=
      rfl
    rw [h1, ih (f c acc v i).1 (f c acc v i).2 (i + 1)]
    rw [List.zipIdx_cons, List.scanl_cons, List.drop_one, List.drop_one, List.tail_cons]
    conv => rhs; rw [scanl_eq_cons_drop]
    simp [Spec.nexts]

theorem scan_spec (f : Ctx → β → α → Nat → Ctx × β) (seed : β) (mode : SrcMode) (sub : Ctx)
    (raw : List (Notif α)) :
    (runOp (scanM f seed) mode sub raw).out = Spec.scan f seed (values raw) (ending raw) := by
  rw [runOp_out_plain _ _ _ _ rfl (fun _ _ => rfl)]
  have hi : (scanM f seed).init = (seed, 0) := rfl
  rw [hi, scanM_emitsV f seed Ctx.bg, emitsE_fwd _ _ _ (fun _ _ _ => rfl) (fun _ _ => rfl)]
  exact gate_values_ending _ _ (hasTerm_nexts' _)

private def ex_scan : List (Notif Nat) :=
  [.next (Ctx.bg.tag 7) 5, .next (Ctx.bg.tag 8) 6, .error (Ctx.bg.tag 9) (.user 1), .next Ctx.bg 8]
example :
    (runOp (scanM (fun c (a : Nat) (v : Nat) i => (c.tag i, a + v)) 100) .hot Ctx.bg ex_scan).out =
      [.next ((Ctx.bg.tag 7).tag 0) 105, .next ((Ctx.bg.tag 8).tag 1) 111, .error (Ctx.bg.tag 9) (.user 1)] ∧
    Spec.scan (fun c (a : Nat) (v : Nat) i => (c.tag i, a + v)) 100 (values ex_scan) (ending ex_scan) =
      [.next ((Ctx.bg.tag 7).tag 0) 105, .next ((Ctx.bg.tag 8).tag 1) 111, .error (Ctx.bg.tag 9) (.user 1)] := by
  decide

/-! ### MapErr -/

/-- the single emission of `mapErrM` for one projection result -/
private def mapErrNotif (r : β × Ctx × Option Err) : Notif β :=
  match r.2.2 with
  | some e => Notif.error r.2.1 e
  | none => Notif.next r.2.1 r.1

theorem mapErrM_emitsV (f : Ctx → α → Nat → β × Ctx × Option Err) (i : Nat) (vs : List (Ctx × α)) :
    (mapErrM f).emitsV i vs = ((vs.zipIdx i).map (fun q => f q.1.1 q.1.2 q.2)).map mapErrNotif := by
  induction vs generalizing i with
  | nil => rfl
  | cons p ps ih =>
    obtain ⟨c, v⟩ := p
    have h1 : (mapErrM f).emitsV i ((c, v) :: ps) =
        [mapErrNotif (f c v i)] ++ (mapErrM f).emitsV (i + 1) ps := by
      show (match (f c v i).2.2 with
        | some e => [Notif.error (f c v i).2.1 e]
        | none => [Notif.next (f c v i).2.1 (f c v i).1]) ++ _ = _
      unfold mapErrNotif
      cases (f c v i).2.2 <;> rfl
    rw [h1, ih (i + 1)]
    simp [List.zipIdx_cons]

private theorem gate_mapErr (rs : List (β × Ctx × Option Err)) (e : Ending) :
    gate (rs.map mapErrNotif ++ e.toList) =
      (rs.takeWhile (fun r => r.2.2.isNone)).map (fun r => Notif.next r.2.1 r.1) ++
        (match rs.findSome? (fun r => r.2.2.map (fun err => (r.2.1, err))) with
         | some ce => [Notif.error ce.1 ce.2]
         | none => e.toList) := by
  induction rs with
  | nil => simpa using gate_toList e
  | cons r rs ih =>
    obtain ⟨b, c, oe⟩ := r
    cases oe with
    | none => simp [mapErrNotif, gate, ih]
    | some err => simp [mapErrNotif, gate]

theorem mapErr_spec (f : Ctx → α → Nat → β × Ctx × Option Err) (mode : SrcMode) (sub : Ctx)
    (raw : List (Notif α)) :
    (runOp (mapErrM f) mode sub raw).out = Spec.mapErr f (values raw) (ending raw) := by
  rw [runOp_out_plain _ _ _ _ rfl (fun _ _ => rfl)]
  have hi : (mapErrM f).init = 0 := rfl
  rw [hi, mapErrM_emitsV, emitsE_fwd _ _ _ (fun _ _ _ => rfl) (fun _ _ => rfl), gate_mapErr]
  rfl

private def ex_mapErr : List (Notif Nat) :=
  [.next (Ctx.bg.tag 7) 5, .next (Ctx.bg.tag 8) 6, .next (Ctx.bg.tag 9) 7, .complete Ctx.bg, .next Ctx.bg 8]
private def ex_mapErrF : Ctx → Nat → Nat → Nat × Ctx × Option Err :=
  fun c v i => (v * 10, c.tag i, if v = 6 then some (Err.user i) else none)
example :
    (runOp (mapErrM ex_mapErrF) .hot Ctx.bg ex_mapErr).out =
      [.next ((Ctx.bg.tag 7).tag 0) 50, .error ((Ctx.bg.tag 8).tag 1) (.user 1)] ∧
    Spec.mapErr ex_mapErrF (values ex_mapErr) (ending ex_mapErr) =
      [.next ((Ctx.bg.tag 7).tag 0) 50, .error ((Ctx.bg.tag 8).tag 1) (.user 1)] := by
  decide

/-! ### ToMap -/

theorem toMapM_run [DecidableEq κ] (kv : Ctx → α → Nat → κ × β) (m : List (κ × β)) (i : Nat)
    (vs : List (Ctx × α)) :
    (toMapM kv).emitsV (m, i) vs = [] ∧
    ((toMapM kv).afterV (m, i) vs).1 =
      ((vs.zipIdx i).map (fun q => kv q.1.1 q.1.2 q.2)).foldl (fun m p => assocSet m p.1 p.2) m := by
  induction vs generalizing m i with
  | nil => exact ⟨rfl, rfl⟩
  | cons p ps ih =>
    obtain ⟨c, v⟩ := p
    have h1 : (toMapM kv).emitsV (m, i) ((c, v) :: ps) =
        [] ++ (toMapM kv).emitsV (assocSet m (kv c v i).1 (kv c v i).2, i + 1) ps := rfl
    have h2 : (toMapM kv).afterV (m, i) ((c, v) :: ps) =
        (toMapM kv).afterV (assocSet m (kv c v i).1 (kv c v i).2, i + 1) ps := rfl
    rw [h1, h2, (ih _ _).1, (ih _ _).2]
    simp [List.zipIdx_cons]

theorem toMap_spec [DecidableEq κ] (kv : Ctx → α → Nat → κ × β) (mode : SrcMode) (sub : Ctx)
    (raw : List (Notif α)) :
    (runOp (toMapM kv) mode sub raw).out = Spec.toMap kv (values raw) (ending raw) := by
  rw [runOp_out_plain _ _ _ _ rfl (fun _ _ => rfl)]
  have hi : (toMapM kv).init = ([], 0) := rfl
  rw [hi, (toMapM_run kv _ _ _).1]
  cases ending raw with
  | never => rfl
  | error c e => rfl
  | complete c =>
    show gate ([] ++ [Notif.next c ((toMapM kv).afterV ([], 0) (values raw)).1, Notif.complete c]) = _
    rw [(toMapM_run kv _ _ _).2]
    simp [gate, Spec.toMap, Spec.buildMap, Spec.kvPairs]

private def ex_toMap : List (Notif Nat) :=
  [.next (Ctx.bg.tag 1) 4, .next (Ctx.bg.tag 1) 5, .next (Ctx.bg.tag 1) 7, .complete (Ctx.bg.tag 2),
   .next Ctx.bg 8]
example :
    (runOp (toMapM (fun _ (v : Nat) i => (v % 3, i))) .hot Ctx.bg ex_toMap).out =
      [.next (Ctx.bg.tag 2) [(1, 2), (2, 1)], .complete (Ctx.bg.tag 2)] ∧
    Spec.toMap (fun _ (v : Nat) i => (v % 3, i)) (values ex_toMap) (ending ex_toMap) =
      [.next (Ctx.bg.tag 2) [(1, 2), (2, 1)], .complete (Ctx.bg.tag 2)] := by
  decide

private theorem lookup_map_set_ne [DecidableEq κ] (m : List (κ × β)) (k k' : κ) (v : β) (h : k ≠ k') :
    (m.map (fun p => if p.1 = k' then (k', v) else p)).lookup k = m.lookup k := by
  induction m with
  | nil => rfl
  | cons a as ih =>
    obtain ⟨a, b⟩ := a
    by_cases ha : a = k'
    · subst ha
      have hb : (k == a) = false := by simp [h]
      simp [List.lookup_cons, hb, ih]
    · simp only [List.map_cons, ha, if_false, List.lookup_cons, ih]

private theorem lookup_map_set_eq [DecidableEq κ] (m : List (κ × β)) (k' : κ) (v : β)
    (h : m.any (fun p => p.1 == k') = true) :
    (m.map (fun p => if p.1 = k' then (k', v) else p)).lookup k' = some v := by
  induction m with
  | nil => simp at h
  | cons a as ih =>
    obtain ⟨a, b⟩ := a
    by_cases ha : a = k'
    · subst ha; simp
    · have hne : (k' == a) = false := by simp [Ne.symm ha]
      have h' : as.any (fun p => p.1 == k') = true := by simpa [ha] using h
      simp only [List.map_cons, ha, if_false, List.lookup_cons, hne, ih h']

private theorem lookup_none_of_not_any [DecidableEq κ] (m : List (κ × β)) (k' : κ)
    (h : m.any (fun p => p.1 == k') = false) : m.lookup k' = none := by
  induction m with
  | nil => rfl
  | cons a as ih =>
    obtain ⟨a, b⟩ := a
    simp only [List.any_cons, Bool.or_eq_false_iff] at h
    have hne : (k' == a) = false := by
      have := h.1; simp only [beq_eq_false_iff_ne, ne_eq] at this ⊢; exact fun e => this e.symm
    simp only [List.lookup_cons, hne, ih h.2]

/-- inserting `(k', v)`: the key `k'` now maps to `v`, every other key is untouched -/
theorem lookup_assocSet [DecidableEq κ] (m : List (κ × β)) (k k' : κ) (v : β) :
    (assocSet m k' v).lookup k = if k = k' then some v else m.lookup k := by
  unfold assocSet
  by_cases hk : k = k'
  · subst hk
    cases h : m.any (fun p => p.1 == k)
    · simp [List.lookup_append, lookup_none_of_not_any m k h]
    · simp [lookup_map_set_eq m k v h]
  · cases h : m.any (fun p => p.1 == k')
    · have hb : (k == k') = false := by simp [hk]
      simp [hk, List.lookup_append, List.lookup_cons, hb]
    · simp [hk, lookup_map_set_ne m k k' v hk]

private theorem lookup_foldl_assocSet [DecidableEq κ] (pairs : List (κ × β)) (m : List (κ × β)) (k : κ) :
    (pairs.foldl (fun m p => assocSet m p.1 p.2) m).lookup k =
      match (pairs.filter (fun p => p.1 == k)).getLast? with
      | some p => some p.2
      | none => m.lookup k := by
  induction pairs generalizing m with
  | nil => rfl
  | cons p ps ih =>
    rw [List.foldl_cons, ih, List.filter_cons]
    by_cases hp : p.1 = k
    · simp only [hp, beq_self_eq_true, if_true, List.getLast?_cons]
      cases (ps.filter (fun p => p.1 == k)).getLast? with
      | none => simp [lookup_assocSet]
      | some q => simp
    · have hb : (p.1 == k) = false := by simp [hp]
      simp only [hb, Bool.false_eq_true, if_false]
      cases (ps.filter (fun p => p.1 == k)).getLast? with
      | none => simp [lookup_assocSet, Ne.symm hp]
      | some q => simp

/-- the meaning of `ToMap`'s result: looking a key up yields the value of the LAST pair with
    that key (and nothing if no pair has it) -/
theorem assocSet_lookup [DecidableEq κ] (pairs : List (κ × β)) (k : κ) :
    (Spec.buildMap pairs).lookup k = ((pairs.filter (fun p => p.1 == k)).getLast?).map (·.2) := by
  unfold Spec.buildMap
  rw [lookup_foldl_assocSet]
  cases (pairs.filter (fun p => p.1 == k)).getLast? <;> rfl

example : (Spec.buildMap [(1, 'a'), (2, 'b'), (1, 'c')]).lookup 1 = some 'c' := by decide

/-! ### BufferWithCount -/

private theorem emitsV_append' {σ : Type} (m : Machine σ α β) (s : σ) (a b : List (Ctx × α)) :
    m.emitsV s (a ++ b) = m.emitsV s a ++ m.emitsV (m.afterV s a) b ∧
    m.afterV s (a ++ b) = m.afterV (m.afterV s a) b := by
  induction a generalizing s with
  | nil => exact ⟨rfl, rfl⟩
  | cons p ps ih =>
    obtain ⟨c, v⟩ := p
    simp [Machine.emitsV, Machine.afterV, ih, List.append_assoc]

/-- fewer values than needed to fill the buffer: nothing is emitted, the values are kept -/
theorem bufferCountM_acc (size : Nat) (buf : List α) (vs : List (Ctx × α))
    (h : buf.length + vs.length < size) :
    (bufferCountM (α := α) size).emitsV buf vs = [] ∧
    (bufferCountM (α := α) size).afterV buf vs = buf ++ vs.map (·.2) := by
  induction vs generalizing buf with
  | nil => simp [Machine.emitsV, Machine.afterV]
  | cons p ps ih =>
    obtain ⟨c, v⟩ := p
    have hlt : ¬ ((buf ++ [v]).length ≥ size) := by simp at h ⊢; omega
    have h1 : (bufferCountM (α := α) size).emitsV buf ((c, v) :: ps) =
        (if (buf ++ [v]).length ≥ size then ([], [Notif.next c (buf ++ [v])]) else (buf ++ [v], [])).2 ++
        (bufferCountM (α := α) size).emitsV
          (if (buf ++ [v]).length ≥ size then ([], [Notif.next c (buf ++ [v])]) else (buf ++ [v], [])).1 ps := rfl
    have h2 : (bufferCountM (α := α) size).afterV buf ((c, v) :: ps) =
        (bufferCountM (α := α) size).afterV
          (if (buf ++ [v]).length ≥ size then ([], [Notif.next c (buf ++ [v])]) else (buf ++ [v], [])).1 ps := rfl
    rw [h1, h2, if_neg hlt]
    have := ih (buf ++ [v]) (by simp at h ⊢; omega)
    simp [this.1, this.2]

/-- exactly the values needed to fill the buffer: one chunk, with the context of the last value -/
theorem bufferCountM_fill (size : Nat) (buf : List α) (vs : List (Ctx × α))
    (h : buf.length + vs.length = size) (hne : vs ≠ []) :
    (bufferCountM (α := α) size).emitsV buf vs =
      (match vs.getLast? with
       | some p => [Notif.next p.1 (buf ++ vs.map (·.2))]
       | none => []) ∧
    (bufferCountM (α := α) size).afterV buf vs = [] := by
  induction vs generalizing buf with
  | nil => exact absurd rfl hne
  | cons p ps ih =>
    obtain ⟨c, v⟩ := p
    have h1 : (bufferCountM (α := α) size).emitsV buf ((c, v) :: ps) =
        (if (buf ++ [v]).length ≥ size then ([], [Notif.next c (buf ++ [v])]) else (buf ++ [v], [])).2 ++
        (bufferCountM (α := α) size).emitsV
          (if (buf ++ [v]).length ≥ size then ([], [Notif.next c (buf ++ [v])]) else (buf ++ [v], [])).1 ps := rfl
    have h2 : (bufferCountM (α := α) size).afterV buf ((c, v) :: ps) =
        (bufferCountM (α := α) size).afterV
          (if (buf ++ [v]).length ≥ size then ([], [Notif.next c (buf ++ [v])]) else (buf ++ [v], [])).1 ps := rfl
    rw [h1, h2]
    cases ps with
    | nil =>
      have hge : (buf ++ [v]).length ≥ size := by simp at h ⊢; omega
      rw [if_pos hge]
      simp [Machine.emitsV, Machine.afterV]
    | cons q qs =>
      have hlt : ¬ ((buf ++ [v]).length ≥ size) := by simp at h ⊢; omega
      rw [if_neg hlt]
      have := ih (buf ++ [v]) (by simp at h ⊢; omega) (by simp)
      rw [this.1, this.2, List.getLast?_cons_of_ne_nil (x := (c, v)) (xs := q :: qs) (by simp)]
      cases (q :: qs).getLast? <;> simp

private theorem chunk_succ {γ : Type} (size : Nat) (l : List γ) (j : Nat) :
    Spec.chunk size l (j + 1) = Spec.chunk size (l.drop size) j := by
  unfold Spec.chunk
  rw [List.drop_drop]
  congr 2
  rw [Nat.succ_mul]; omega

private theorem fullChunks_step (size : Nat) (hs : 0 < size) (vs : List (Ctx × α)) (h : size ≤ vs.length) :
    Spec.fullChunks size vs =
      (match (vs.take size).getLast? with
       | some p => [Notif.next p.1 ((vs.take size).map (·.2))]
       | none => []) ++ Spec.fullChunks size (vs.drop size) := by
  unfold Spec.fullChunks
  rw [Nat.div_eq_sub_div hs h, List.range_succ_eq_map, List.flatMap_cons, List.flatMap_map, List.length_drop]
  have h0 : Spec.chunk size vs 0 = vs.take size := by simp [Spec.chunk]
  rw [h0]
  congr 1
  simp only [Nat.succ_eq_add_one, chunk_succ]

private theorem remainder_step {γ : Type} (size : Nat) (hs : 0 < size) (l : List γ) (h : size ≤ l.length) :
    Spec.remainder size l = Spec.remainder size (l.drop size) := by
  unfold Spec.remainder
  rw [Nat.div_eq_sub_div hs h, List.drop_drop, List.length_drop, Nat.succ_mul]
  congr 1
  omega

theorem bufferCountM_run (size : Nat) (hs : 0 < size) (n : Nat) (vs : List (Ctx × α)) (hn : vs.length ≤ n) :
    (bufferCountM (α := α) size).emitsV [] vs = Spec.fullChunks size vs ∧
    (bufferCountM (α := α) size).afterV [] vs = (Spec.remainder size vs).map (·.2) := by
  induction n generalizing vs with
  | zero =>
    have : vs = [] := List.eq_nil_of_length_eq_zero (by omega)
    subst this
    simp [Machine.emitsV, Machine.afterV, Spec.fullChunks, Spec.remainder]
  | succ n ih =>
    by_cases hlt : vs.length < size
    · have := bufferCountM_acc size [] vs (by simpa using hlt)
      simp [this.1, this.2, Spec.fullChunks, Spec.remainder, Nat.div_eq_of_lt hlt]
    · have hge : size ≤ vs.length := by omega
      have hsplit := emitsV_append' (bufferCountM (α := α) size) [] (vs.take size) (vs.drop size)
      rw [List.take_append_drop] at hsplit
      have hfill := bufferCountM_fill size [] (vs.take size) (by simp; omega)
        (by intro h0; have := congrArg List.length h0; rw [List.length_take, List.length_nil] at this; omega)
      have hrec := ih (vs.drop size) (by simp; omega)
      rw [hsplit.1, hsplit.2, hfill.1, hfill.2, hrec.1, hrec.2,
        fullChunks_step size hs vs hge, remainder_step size hs vs hge]
      simp

theorem bufferCount_spec (size : Nat) (hs : 0 < size) (mode : SrcMode) (sub : Ctx) (raw : List (Notif α)) :
    (runOp (bufferCountM (α := α) size) mode sub raw).out = Spec.bufferCount size (values raw) (ending raw) := by
  rw [runOp_out_plain _ _ _ _ rfl (fun _ _ => rfl)]
  have hi : (bufferCountM (α := α) size).init = [] := rfl
  have hrun := bufferCountM_run size hs _ (values raw) (Nat.le_refl _)
  rw [hi, hrun.1, hrun.2]
  have hnt : hasTerm (Spec.fullChunks size (values raw)) = false := by
    unfold Spec.fullChunks
    generalize List.range _ = js
    induction js with
    | nil => rfl
    | cons j js ih =>
      rw [List.flatMap_cons, hasTerm_append, ih]
      cases (Spec.chunk size (values raw) j).getLast? <;> rfl
  cases ending raw with
  | never => exact gate_values_ending _ Ending.never hnt
  | error c e => exact gate_values_ending _ (Ending.error c e) hnt
  | complete c =>
    show gate (_ ++ ((if ((Spec.remainder size (values raw)).map (·.2)).length > 0
        then [Notif.next c ((Spec.remainder size (values raw)).map (·.2))] else []) ++ [Notif.complete c])) = _
    rw [← List.append_assoc]
    unfold Spec.bufferCount
    cases hr : Spec.remainder size (values raw) with
    | nil => simpa [Ending.toList] using gate_values_ending _ (Ending.complete c) hnt
    | cons r rs =>
      have := gate_values_ending (Spec.fullChunks size (values raw) ++ [Notif.next c ((r :: rs).map (·.2))])
        (Ending.complete c) (by rw [hasTerm_append, hnt]; rfl)
      simpa [Ending.toList] using this

private def ex_bufferCount : List (Notif Nat) :=
  [.next (Ctx.bg.tag 1) 1, .next (Ctx.bg.tag 2) 2, .next (Ctx.bg.tag 3) 3, .next (Ctx.bg.tag 4) 4,
   .next (Ctx.bg.tag 5) 5, .complete (Ctx.bg.tag 6), .next Ctx.bg 9]
example :
    (runOp (bufferCountM (α := Nat) 2) .hot Ctx.bg ex_bufferCount).out =
      [.next (Ctx.bg.tag 2) [1, 2], .next (Ctx.bg.tag 4) [3, 4], .next (Ctx.bg.tag 6) [5],
       .complete (Ctx.bg.tag 6)] ∧
    Spec.bufferCount 2 (values ex_bufferCount) (ending ex_bufferCount) =
      [.next (Ctx.bg.tag 2) [1, 2], .next (Ctx.bg.tag 4) [3, 4], .next (Ctx.bg.tag 6) [5],
       .complete (Ctx.bg.tag 6)] := by
  decide

/-- DEVIATION from the documentation: `BufferWithCount`'s doc comment promises that the pending
    buffer is flushed before an error; the code (and so `Spec.bufferCount`, which the machine
    satisfies by `bufferCount_spec`) forwards the error without flushing.  On the script
    `1, 2, 3, error` with size 2 the documented reading delivers `[3]` before the error, the
    code does not. The documented statement would be
      `(runOp (bufferCountM size) mode sub raw).out = Spec.bufferCountDoc size (values raw) (ending raw)`. -/
theorem bufferCount_doc_deviation :
    (runOp (bufferCountM (α := Nat) 2) .sync Ctx.bg
        [.next Ctx.bg 1, .next Ctx.bg 2, .next Ctx.bg 3, .error (Ctx.bg.tag 1) (.user 0)]).out
      = [.next Ctx.bg [1, 2], .error (Ctx.bg.tag 1) (.user 0)] ∧
    Spec.bufferCount 2 [(Ctx.bg, 1), (Ctx.bg, 2), (Ctx.bg, 3)] (.error (Ctx.bg.tag 1) (.user 0))
      = [.next Ctx.bg [1, 2], .error (Ctx.bg.tag 1) (.user 0)] ∧
    Spec.bufferCountDoc 2 [(Ctx.bg, 1), (Ctx.bg, 2), (Ctx.bg, 3)] (.error (Ctx.bg.tag 1) (.user 0))
      = [.next Ctx.bg [1, 2], .next (Ctx.bg.tag 1) [3], .error (Ctx.bg.tag 1) (.user 0)] ∧
    Spec.bufferCount 2 [(Ctx.bg, 1), (Ctx.bg, 2), (Ctx.bg, 3)] (.error (Ctx.bg.tag 1) (.user 0))
      ≠ Spec.bufferCountDoc 2 [(Ctx.bg, 1), (Ctx.bg, 2), (Ctx.bg, 3)] (.error (Ctx.bg.tag 1) (.user 0)) := by
  decide

/-- where there is nothing pending (or no error) the two readings agree -/
theorem bufferCount_doc_agree (size : Nat) (vs : List (Ctx × α)) (e : Ending)
    (h : (∃ c err, e = .error c err) → (Spec.remainder size vs).isEmpty = true) :
    Spec.bufferCount size vs e = Spec.bufferCountDoc size vs e := by
  cases e with
  | never => rfl
  | complete c => rfl
  | error c err =>
    have := h ⟨c, err, rfl⟩
    simp [Spec.bufferCount, Spec.bufferCountDoc, this, Ending.toList]

end Ro

/-
  RoProofs.PromDriver — transparency stated on the driver's own functions (`kind=prom`): for every
  chain description the driver can parse (every int→int catalogue operator with its parameters,
  variant and named callback, every stand-alone counter) that does not contain `Max` and whose
  callback markers are not the reserved one, every subscription context that is not nil and every
  script it can parse, the per-subscription result with the licence on (instrumented composition,
  counting stand-alone operators) and with the licence off (plain composition, stand-alone
  operators = `return source`) have the same delivered trace, the same number of source
  subscriptions and the same number of releases — the three fields the harness prints per
  subscription.
-/
import RoProofs.PromPairsAll
namespace Ro.Prom
open Ro Ro.Driver Ro.Driver.Drivers.Prom

/-- related chains: licence on (instrumented) and licence off (plain) look the same -/
theorem transparent_related {α : Type} (msI msP : List (AnyM α)) (h : RelatedL msI msP) (hot : Bool) (sub : Ctx)
    (raw : List (Notif α)) (cut : Option Nat) (hs : sub.isNil = false) (hn : NonNil raw) :
    eraseL (Prom.run hot sub (instrument msI) raw cut).out = eraseL (Prom.run hot sub msP raw cut).out ∧
    (Prom.run hot sub (instrument msI) raw cut).rel = (Prom.run hot sub msP raw cut).rel ∧
    (Prom.run hot sub (instrument msI) raw cut).srcSubs = (Prom.run hot sub msP raw cut).srcSubs := by
  obtain ⟨ws, rfl, rfl⟩ := pairs_of_related msI msP h
  obtain ⟨T, hsim⟩ := instrument_sim ws
  exact hsim.run hot sub raw cut hs hn

/-- … and without `PipeN` (stand-alone operators applied directly) -/
theorem plain_related {α : Type} (msI msP : List (AnyM α)) (h : RelatedL msI msP) (hot : Bool) (sub : Ctx)
    (raw : List (Notif α)) (cut : Option Nat) (hs : sub.isNil = false) (hn : NonNil raw) :
    eraseL (Prom.run hot sub msI raw cut).out = eraseL (Prom.run hot sub msP raw cut).out ∧
    (Prom.run hot sub msI raw cut).rel = (Prom.run hot sub msP raw cut).rel ∧
    (Prom.run hot sub msI raw cut).srcSubs = (Prom.run hot sub msP raw cut).srcSubs := by
  obtain ⟨ws, rfl, rfl⟩ := pairs_of_related msI msP h
  obtain ⟨T, hsim⟩ := plain_sim ws
  exact hsim.run hot sub raw cut hs hn

/-- a chain element `Name:params:variant:callback` the theorem covers: not `Max`, and the
    callback's marker (if any) is not the reserved one -/
def ElemGood (t : String) : Prop :=
  ∀ name p var cb, t.splitOn ":" = [name, p, var, cb] →
    name ≠ "Max" ∧ GoodTags (if cb == "-" || cb == "" then [] else [parseCb cb])

theorem standalone_none_iff (name : String) : standalone true name = none ↔ standalone false name = none := by
  unfold standalone
  split <;> simp

theorem parseElem_related (t : String) (eI eP : AnyM Int × Bool) (hg : ElemGood t)
    (hI : parseElem true t = some eI) (hP : parseElem false t = some eP) : Related eI.1 eP.1 := by
  unfold parseElem at hI hP
  split at hI
  · rename_i name p var cb hsplit
    rw [hsplit] at hP
    simp only at hP
    obtain ⟨hmax, htag⟩ := hg name p var cb hsplit
    cases hsI : standalone true name with
    | some aI =>
      cases hsP : standalone false name with
      | some aP =>
        rw [hsI] at hI; rw [hsP] at hP
        cases hI; cases hP
        exact standalone_related name aI aP hsI hsP
      | none => exact absurd ((standalone_none_iff name).mpr hsP) (by rw [hsI]; simp)
    | none =>
      have hsP := (standalone_none_iff name).mp hsI
      rw [hsI] at hI; rw [hsP] at hP
      obtain ⟨aI, haI, rfl⟩ := Option.map_eq_some_iff.mp hI
      obtain ⟨aP, haP, rfl⟩ := Option.map_eq_some_iff.mp hP
      have : aI = aP := Option.some.inj (haI.symm.trans haP)
      subst this
      exact stageOf_related _ _ _ _ aI haI hmax htag
  · cases hI

theorem mapM_related (ts : List String) (eI eP : List (AnyM Int × Bool)) (hg : ∀ t ∈ ts, ElemGood t)
    (hI : ts.mapM (parseElem true) = some eI) (hP : ts.mapM (parseElem false) = some eP) :
    RelatedL (eI.map (·.1)) (eP.map (·.1)) := by
  induction ts generalizing eI eP with
  | nil =>
    simp only [List.mapM_nil, Option.pure_def, Option.some.injEq] at hI hP
    subst hI hP
    trivial
  | cons t rest ih =>
    simp only [List.mapM_cons, Option.pure_def, Option.bind_eq_bind, Option.bind_eq_some_iff, Option.some.injEq] at hI hP
    obtain ⟨xI, hxI, rI, hrI, rfl⟩ := hI
    obtain ⟨xP, hxP, rP, hrP, rfl⟩ := hP
    exact ⟨parseElem_related t xI xP (hg t (List.mem_cons_self ..)) hxI hxP,
           ih rI rP (fun u hu => hg u (List.mem_cons_of_mem _ hu)) hrI hrP⟩

/-- a chain description the theorem covers -/
def ChainGood (s : String) : Prop := ∀ t ∈ s.splitOn "/", ElemGood t

theorem parseChain_related (s : String) (eI eP : List (AnyM Int × Bool)) (hg : ChainGood s)
    (hI : parseChain true s = some eI) (hP : parseChain false s = some eP) :
    RelatedL (eI.map (·.1)) (eP.map (·.1)) := by
  unfold parseChain at hI hP
  split at hI
  · rename_i h
    rw [if_pos h] at hP
    cases hI; cases hP; trivial
  · rename_i h
    rw [if_neg h] at hP
    exact mapM_related _ eI eP hg hI hP

/-! ### scripts the driver parses carry the subscription context or one derived from it -/

theorem parseTok_nonNil (sub : Ctx) (hs : sub.isNil = false) (t : String) (n : Notif Int)
    (h : parseTok sub t = some n) : n.ctx.isNil = false := by
  unfold parseTok at h
  simp only at h
  -- whatever the token, its context is `sub` or `sub.tag k`
  split at h
  · obtain ⟨v, _, rfl⟩ := Option.map_eq_some_iff.mp h
    simp only [ctx_next]
    split
    · split <;> exact hs
    · exact hs
  · obtain ⟨v, _, rfl⟩ := Option.map_eq_some_iff.mp h
    simp only [ctx_error]
    split
    · split <;> exact hs
    · exact hs
  · cases h
    simp only [ctx_complete]
    split
    · split <;> exact hs
    · exact hs
  · cases h

theorem parseScript_nonNil (sub : Ctx) (hs : sub.isNil = false) (s : String) (raw : List (Notif Int))
    (h : parseScript sub s = some raw) : NonNil raw := by
  unfold parseScript at h
  split at h
  · cases h; exact nonNil_nil
  · generalize s.splitOn "," = ts at h
    induction ts generalizing raw with
    | nil =>
      simp only [List.mapM_nil, Option.pure_def, Option.some.injEq] at h
      subst h; exact nonNil_nil
    | cons t rest ih =>
      simp only [List.mapM_cons, Option.pure_def, Option.bind_eq_bind, Option.bind_eq_some_iff, Option.some.injEq] at h
      obtain ⟨n, hn, r, hr, rfl⟩ := h
      exact nonNil_cons (parseTok_nonNil sub hs t n hn) (ih r hr)

/-- The driver's own per-subscription result, licence on vs licence off, every case it accepts
    that has no `Max` and no reserved marker: same trace, same releases, same source
    subscriptions — with `PipeN` (ee) and without (ro). -/
theorem driver_transparent (ee hot : Bool) (subS chain script : String) (cut : Option Nat)
    (eI eP : List (AnyM Int × Bool)) (raw : List (Notif Int))
    (hsub : (parseCtx subS).isNil = false) (hg : ChainGood chain)
    (hI : parseChain true chain = some eI) (hP : parseChain false chain = some eP)
    (hraw : parseScript (parseCtx subS) script = some raw) :
    (runSub ee true hot (parseCtx subS) (eI.map (·.1)) raw cut).trace =
      (runSub ee false hot (parseCtx subS) (eP.map (·.1)) raw cut).trace ∧
    (runSub ee true hot (parseCtx subS) (eI.map (·.1)) raw cut).rel =
      (runSub ee false hot (parseCtx subS) (eP.map (·.1)) raw cut).rel ∧
    (runSub ee true hot (parseCtx subS) (eI.map (·.1)) raw cut).ssub =
      (runSub ee false hot (parseCtx subS) (eP.map (·.1)) raw cut).ssub := by
  have hrel := parseChain_related chain eI eP hg hI hP
  have hn := parseScript_nonNil _ hsub script raw hraw
  cases ee
  · have h := plain_related _ _ hrel hot _ raw cut hsub hn
    simp only [runSub, Bool.false_and, Bool.false_eq_true, if_false]
    exact ⟨by rw [h.1], h.2.1, h.2.2⟩
  · have h := transparent_related _ _ hrel hot _ raw cut hsub hn
    simp only [runSub, Bool.true_and, if_true, Bool.false_eq_true, if_false]
    exact ⟨by rw [h.1], h.2.1, h.2.2⟩

end Ro.Prom

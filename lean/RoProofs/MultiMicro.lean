/-
  RoProofs.MultiMicro — TakeUntil under true concurrency (micro-step model RoModel/Multi/Micro.lean, code
  after fix 3e5361a: the signal's callback completes the destination first and raises the flag afterwards).

  `takeUntilMicro_arrival`: for EVERY pair of scripts and EVERY schedule of atomic actions there is an
  arrival order `evs` — the source's and the signal's notifications, each in its own order (a prefix of
  the script up to its terminal) — such that the output under the schedule is the output the definition
  (minus the signal's error, the known finding) assigns to `evs`, which is also what the logical machine
  delivers when the notifications arrive in that order.
-/
import RoProofs.MultiUntil
import RoModel.Multi.Micro
namespace Ro.Multi.Micro
open Ro Ro.Multi

variable {α : Type}

/-! ### calls are only appended; after a terminal call nothing changes the output -/

theorem step_calls (s : St α) (tid : Nat) : ∃ l, (step s tid).calls = s.calls ++ l := by
  unfold step
  cases tid with
  | zero =>
    simp only
    cases hs : s.src with
    | nil => exact ⟨[], by simp⟩
    | cons x r =>
      cases x with
      | next c v =>
        simp only; split
        · exact ⟨[], by simp⟩
        · exact ⟨_, rfl⟩
      | error c e => exact ⟨_, rfl⟩
      | complete c => exact ⟨_, rfl⟩
  | succ k =>
    simp only
    cases hs : s.sig with
    | nil => exact ⟨[], by simp⟩
    | cons x r =>
      cases x with
      | next c v =>
        simp only; split
        · exact ⟨[], by simp⟩
        · exact ⟨_, rfl⟩
      | error c e => exact ⟨[], by simp⟩
      | complete c => exact ⟨[], by simp⟩

theorem run_calls (sched : List Nat) (s : St α) : ∃ l, (run s sched).calls = s.calls ++ l := by
  induction sched generalizing s with
  | nil => exact ⟨[], by simp [run]⟩
  | cons t ts ih =>
    obtain ⟨l1, h1⟩ := step_calls s t
    obtain ⟨l2, h2⟩ := ih (step s t)
    exact ⟨l1 ++ l2, by simp only [run, List.foldl_cons] at h2 ⊢; rw [h2, h1, List.append_assoc]⟩

theorem run_frozen (sched : List Nat) (s : St α) (h : hasTerm s.calls = true) :
    gate (run s sched).calls = gate s.calls := by
  obtain ⟨l, hl⟩ := run_calls sched s
  rw [hl, gate_append_of_term _ _ h]

/-! ### the schedule's output is the definition's output for the arrival order it amounts to -/

theorem micro_main (sched : List Nat) (s : St α) (hr : s.ready = false) (hm : s.mid = false)
    (hc : hasTerm s.calls = false) :
    gate (run s sched).calls = s.calls ++ Spec.takeUntil false (arrival s sched) := by
  induction sched generalizing s with
  | nil => simp [run, arrival, Spec.takeUntil, gate_of_noTerm _ hc]
  | cons t ts ih =>
    cases t with
    | zero =>
      cases hs : s.src with
      | nil =>
        have hstep : step s 0 = s := by simp [step, hs]
        have := ih s hr hm hc
        simp only [run, List.foldl_cons, hstep] at this ⊢
        rw [this]; simp [arrival, hs]
      | cons x r =>
        have harr : arrival s (0 :: ts) = (0, x) :: arrival (step s 0) ts := by simp [arrival, hs]
        rw [harr]
        cases x with
        | next c v =>
          have hstep : step s 0 = { s with src := r, calls := s.calls ++ [.next c v] } := by simp [step, hs, hr]
          have := ih (step s 0) (by rw [hstep]; exact hr) (by rw [hstep]; exact hm) (by rw [hstep]; simp [hc])
          simp only [run, List.foldl_cons] at this ⊢
          rw [this, hstep]; simp [Spec.takeUntil]
        | error c e =>
          have hstep : step s 0 = { s with src := r, calls := s.calls ++ [.error c e] } := by simp [step, hs]
          have hf := run_frozen ts (step s 0) (by rw [hstep]; simp)
          simp only [run, List.foldl_cons] at hf ⊢
          rw [hf, hstep]
          simp [Spec.takeUntil, gate_append_of_noTerm _ _ hc, gate]
        | complete c =>
          have hstep : step s 0 = { s with src := r, calls := s.calls ++ [.complete c] } := by simp [step, hs]
          have hf := run_frozen ts (step s 0) (by rw [hstep]; simp)
          simp only [run, List.foldl_cons] at hf ⊢
          rw [hf, hstep]
          simp [Spec.takeUntil, gate_append_of_noTerm _ _ hc, gate]
    | succ k =>
      cases hs : s.sig with
      | nil =>
        have hstep : step s (k + 1) = s := by simp [step, hs]
        have := ih s hr hm hc
        simp only [run, List.foldl_cons, hstep] at this ⊢
        rw [this]; simp [arrival, hs]
      | cons x r =>
        have harr : arrival s ((k + 1) :: ts) = (1, x) :: arrival (step s (k + 1)) ts := by simp [arrival, hs, hm]
        rw [harr]
        cases x with
        | next c v =>
          -- the signal's value: the destination is completed (first micro-step); the rest is irrelevant
          have hstep : step s (k + 1) = { s with mid := true, calls := s.calls ++ [.complete c] } := by simp [step, hs, hm]
          have hf := run_frozen ts (step s (k + 1)) (by rw [hstep]; simp)
          simp only [run, List.foldl_cons] at hf ⊢
          rw [hf, hstep]
          simp [Spec.takeUntil, gate_append_of_noTerm _ _ hc, gate]
        | error c e =>
          have hstep : step s (k + 1) = { s with sig := r, mid := false } := by simp [step, hs]
          have := ih (step s (k + 1)) (by rw [hstep]; exact hr) (by rw [hstep]) (by rw [hstep]; exact hc)
          simp only [run, List.foldl_cons] at this ⊢
          rw [this, hstep]; simp [Spec.takeUntil]
        | complete c =>
          have hstep : step s (k + 1) = { s with sig := r, mid := false } := by simp [step, hs]
          have := ih (step s (k + 1)) (by rw [hstep]; exact hr) (by rw [hstep]) (by rw [hstep]; exact hc)
          simp only [run, List.foldl_cons] at this ⊢
          rw [this, hstep]; simp [Spec.takeUntil]

/-! ### the arrival order is compatible with each thread's own order -/

theorem step0_sig (s : St α) : (step s 0).sig = s.sig ∧ (step s 0).mid = s.mid := by
  unfold step
  simp only
  cases s.src with
  | nil => exact ⟨rfl, rfl⟩
  | cons x r =>
    cases x with
    | next c v => simp only; split <;> exact ⟨rfl, rfl⟩
    | error c e => exact ⟨rfl, rfl⟩
    | complete c => exact ⟨rfl, rfl⟩

theorem step0_src (s : St α) (x : Notif α) (r : List (Notif α)) (h : s.src = x :: r) : (step s 0).src = r := by
  unfold step
  simp only [h]
  cases x with
  | next c v => simp only; split <;> rfl
  | error c e => rfl
  | complete c => rfl

theorem step1_src (s : St α) (k : Nat) : (step s (k + 1)).src = s.src := by
  unfold step
  simp only
  cases s.sig with
  | nil => rfl
  | cons x r =>
    cases x with
    | next c v => simp only; split <;> rfl
    | error c e => rfl
    | complete c => rfl

theorem ofSource_cons_same (k : Nat) (x : Notif α) (l : List (MEvent α)) :
    Spec.ofSource k ((k, x) :: l) = x :: Spec.ofSource k l := by simp [Spec.ofSource]

theorem ofSource_cons_other (k j : Nat) (x : Notif α) (l : List (MEvent α)) (h : j ≠ k) :
    Spec.ofSource k ((j, x) :: l) = Spec.ofSource k l := by
  have : (j == k) = false := by simpa using h
  simp [Spec.ofSource, this]

theorem arrival_src (sched : List Nat) (s : St α) : Spec.ofSource 0 (arrival s sched) <+: s.src := by
  induction sched generalizing s with
  | nil => simp [arrival, Spec.ofSource]
  | cons t ts ih =>
    cases t with
    | zero =>
      cases hs : s.src with
      | nil => have := ih s; simpa [arrival, hs] using this
      | cons x r =>
        have harr : arrival s (0 :: ts) = (0, x) :: arrival (step s 0) ts := by simp [arrival, hs]
        rw [harr, ofSource_cons_same]
        have := ih (step s 0)
        rw [step0_src s x r hs] at this
        exact (List.prefix_cons_inj x).2 this
    | succ k =>
      cases hs : s.sig with
      | nil => have := ih s; simpa [arrival, hs] using this
      | cons x r =>
        have := ih (step s (k + 1))
        rw [step1_src] at this
        by_cases hm : s.mid = true
        · simpa [arrival, hs, hm] using this
        · have hm' : s.mid = false := by simpa using hm
          have harr : arrival s ((k + 1) :: ts) = (1, x) :: arrival (step s (k + 1)) ts := by simp [arrival, hs, hm']
          rw [harr, ofSource_cons_other 0 1 x _ (by decide)]
          exact this

theorem arrival_sig (sched : List Nat) (s : St α) :
    Spec.ofSource 1 (arrival s sched) <+: (if s.mid then s.sig.drop 1 else s.sig) := by
  induction sched generalizing s with
  | nil => simp [arrival, Spec.ofSource]
  | cons t ts ih =>
    cases t with
    | zero =>
      have h0 := step0_sig s
      cases hs : s.src with
      | nil => have := ih s; simpa [arrival, hs] using this
      | cons x r =>
        have harr : arrival s (0 :: ts) = (0, x) :: arrival (step s 0) ts := by simp [arrival, hs]
        rw [harr, ofSource_cons_other 1 0 x _ (by decide)]
        have := ih (step s 0)
        rw [h0.1, h0.2] at this
        exact this
    | succ k =>
      cases hs : s.sig with
      | nil =>
        have := ih s
        simp only [hs] at this
        simpa [arrival, hs] using this
      | cons x r =>
        by_cases hm : s.mid = true
        · -- second micro-step (or an impossible state): the head leaves the program, nothing arrives
          have harr : arrival s ((k + 1) :: ts) = arrival (step s (k + 1)) ts := by simp [arrival, hs, hm]
          have hstep : (step s (k + 1)).sig = r ∧ (step s (k + 1)).mid = false := by
            cases x <;> simp [step, hs, hm]
          have := ih (step s (k + 1))
          rw [hstep.1, hstep.2] at this
          rw [harr]; simpa [hm] using this
        · have hm' : s.mid = false := by simpa using hm
          have harr : arrival s ((k + 1) :: ts) = (1, x) :: arrival (step s (k + 1)) ts := by simp [arrival, hs, hm']
          rw [harr, ofSource_cons_same]
          simp only [hm', Bool.false_eq_true, if_false]
          have := ih (step s (k + 1))
          cases x with
          | next c v =>
            have hstep : (step s (k + 1)).sig = .next c v :: r ∧ (step s (k + 1)).mid = true := by simp [step, hs, hm']
            rw [hstep.1, hstep.2] at this
            exact (List.prefix_cons_inj _).2 (by simpa using this)
          | error c e =>
            have hstep : (step s (k + 1)).sig = r ∧ (step s (k + 1)).mid = false := by simp [step, hs]
            rw [hstep.1, hstep.2] at this
            exact (List.prefix_cons_inj _).2 (by simpa using this)
          | complete c =>
            have hstep : (step s (k + 1)).sig = r ∧ (step s (k + 1)).mid = false := by simp [step, hs]
            rw [hstep.1, hstep.2] at this
            exact (List.prefix_cons_inj _).2 (by simpa using this)

theorem arrival_two (sched : List Nat) (s : St α) : ∀ e ∈ arrival s sched, two e.1 = true := by
  induction sched generalizing s with
  | nil => simp [arrival]
  | cons t ts ih =>
    cases t with
    | zero =>
      cases hs : s.src with
      | nil => simpa [arrival, hs] using ih s
      | cons x r =>
        intro e he
        simp only [arrival, hs, List.mem_cons] at he
        cases he with
        | inl h => rw [h]; rfl
        | inr h => exact ih _ e h
    | succ k =>
      cases hs : s.sig with
      | nil => simpa [arrival, hs] using ih s
      | cons x r =>
        intro e he
        simp only [arrival, hs] at he
        split at he
        · exact ih _ e he
        · simp only [List.mem_cons] at he
          cases he with
          | inl h => rw [h]; rfl
          | inr h => exact ih _ e h

/-! ### a compatible arrival order is heard as it is -/

theorem gate_of_prefix_gate (s l : List (Notif α)) (h : l <+: gate s) : gate l = l := by
  induction s generalizing l with
  | nil => simp [gate] at h; simp [h]
  | cons x xs ih =>
    unfold gate at h
    split at h
    · rename_i hx
      cases l with
      | nil => rfl
      | cons y ys =>
        obtain ⟨t, ht⟩ := h
        simp at ht
        obtain ⟨h1, h2, _⟩ := ht
        subst h1; subst h2
        simp [gate, hx]
    · rename_i hx
      cases l with
      | nil => rfl
      | cons y ys =>
        have hy : y = x := by
          obtain ⟨t, ht⟩ := h
          simp at ht; exact ht.1
        subst hy
        have := ih ys ((List.prefix_cons_inj y).1 h)
        simp [gate, hx, this]

theorem gateEventsFrom_fixed (evs : List (MEvent α)) (cl : Nat → Bool)
    (hg : ∀ k, gate (Spec.ofSource k evs) = Spec.ofSource k evs)
    (hcl : ∀ k, cl k = true → Spec.ofSource k evs = []) :
    Spec.gateEventsFrom cl evs = evs := by
  induction evs generalizing cl with
  | nil => rfl
  | cons e es ih =>
    obtain ⟨j, x⟩ := e
    have hj : cl j = false := by
      cases h : cl j with
      | false => rfl
      | true => have := hcl j h; simp [Spec.ofSource] at this
    have hgj := hg j
    rw [ofSource_cons_same] at hgj
    simp only [Spec.gateEventsFrom, hj, Bool.false_eq_true, if_false]
    congr 1
    apply ih
    · intro k
      by_cases hk : k = j
      · subst hk
        by_cases hx : x.isTerminal = true
        · have : gate (x :: Spec.ofSource k es) = [x] := by simp [gate, hx]
          rw [this] at hgj
          have : Spec.ofSource k es = [] := by simpa using hgj.symm
          rw [this]; rfl
        · have hx' : x.isTerminal = false := by simpa using hx
          have : gate (x :: Spec.ofSource k es) = x :: gate (Spec.ofSource k es) := by simp [gate, hx']
          rw [this] at hgj
          simpa using hgj
      · have := hg k
        rw [ofSource_cons_other k j x es (fun h => hk h.symm)] at this
        exact this
    · intro k hk
      by_cases hkj : k = j
      · subst hkj
        by_cases hx : x.isTerminal = true
        · have : gate (x :: Spec.ofSource k es) = [x] := by simp [gate, hx]
          rw [this] at hgj
          simpa using hgj.symm
        · have hx' : x.isTerminal = false := by simpa using hx
          simp [hx', hj] at hk
      · have hck : cl k = true := by
          split at hk
          · rw [setAt_other _ _ hkj] at hk; exact hk
          · exact hk
        have := hcl k hck
        rw [ofSource_cons_other k j x es (fun h => hkj h.symm)] at this
        exact this

theorem restrict_all (p : Nat → Bool) (evs : List (MEvent α)) (h : ∀ e ∈ evs, p e.1 = true) :
    Spec.restrict p evs = evs := by
  unfold Spec.restrict
  exact List.filter_eq_self.2 h

/-- **TakeUntil under true concurrency (repaired code)**: every schedule of atomic actions delivers the
    definition's output for SOME arrival order compatible with each source's own order. -/
theorem takeUntilMicro_arrival (source signal : List (Notif α)) (sched : List Nat)
    (cfg : Sources α) (hhot : ∀ k, cfg.sync k = false) (sub : Ctx) :
    ∃ evs : List (MEvent α),
      (∀ e ∈ evs, e.1 < 2) ∧
      Spec.ofSource 0 evs <+: gate source ∧ Spec.ofSource 1 evs <+: gate signal ∧
      takeUntilMicro source signal sched = Spec.takeUntil false evs ∧
      takeUntilMicro source signal sched = (feedAll takeUntilM cfg (bootSt takeUntilM cfg sub) evs).out := by
  let s0 : St α := { src := gate source, sig := gate signal }
  refine ⟨arrival s0 sched, ?_, arrival_src sched s0, ?_, ?_, ?_⟩
  · intro e he
    have := arrival_two sched s0 e he
    simpa [two] using this
  · simpa [s0] using arrival_sig sched s0
  · have := micro_main sched s0 rfl rfl rfl
    simpa [takeUntilMicro, s0] using this
  · have hm := micro_main sched s0 rfl rfl rfl
    rw [Ro.Multi.takeUntil_impl cfg hhot sub]
    have hheard : heard2 (arrival s0 sched) = arrival s0 sched := by
      unfold heard2 Spec.gateEvents
      rw [restrict_all two _ (arrival_two sched s0)]
      apply gateEventsFrom_fixed
      · intro k
        by_cases h0 : k = 0
        · subst h0; exact gate_of_prefix_gate source _ (arrival_src sched s0)
        · by_cases h1 : k = 1
          · subst h1; exact gate_of_prefix_gate signal _ (by simpa [s0] using arrival_sig sched s0)
          · have : Spec.ofSource k (arrival s0 sched) = [] := by
              unfold Spec.ofSource
              rw [List.filter_eq_nil_iff.2]; rfl
              intro e he
              have := arrival_two sched s0 e he
              simp [two] at this ⊢
              omega
            rw [this]; rfl
      · intro k hk; simp at hk
    rw [hheard]
    simpa [takeUntilMicro, s0] using hm

end Ro.Multi.Micro

/-
  RoProofs.SubjectsUnicast — the unicast subject: closed forms of its operations, the invariant
  (at most one registered subscriber), the per-subscriber automaton whose bookkeeping part is the
  definition's `Spec.ustep`, the simulation, and the refinement of `Spec.unicastPinned` — i.e. of
  the sequential definition everywhere except for a subscriber that arrives after termination
  while a backlog is queued (the pinned tree discards it: subject_unicast.go:68-77).
-/
import RoProofs.SubjectsKinds
namespace Ro.Subj
open Ro Ro.Subj.Spec

variable {α : Type}

/-! ### primitives with unicast's teardown (`s.observer = nil`) -/

theorem subTerminal_clear_reg {s : State α} {i : Nat} (h0 : (s.sub i).status = 0) (ht : (s.sub i).td = true)
    (n : Notif α) :
    subTerminal .clear s i n =
      { s with observers := [],
               sub := fun j => if j = i then { s.sub j with status := termCode n, td := false, got := (s.sub j).got ++ [n] } else s.sub j } := by
  unfold subTerminal runTeardown
  simp only [h0, if_true, modSub_sub, ht]
  apply State.ext' <;> try rfl
  funext j
  by_cases hj : j = i <;> simp [hj]

theorem subUnsubscribe_clear_reg {s : State α} {i : Nat} (h0 : (s.sub i).status = 0) (ht : (s.sub i).td = true) :
    subUnsubscribe .clear s i =
      { s with observers := [],
               sub := fun j => if j = i then { s.sub j with status := 2, td := false } else s.sub j } := by
  unfold subUnsubscribe runTeardown
  simp only [h0, if_true, modSub_sub, ht]
  apply State.ext' <;> try rfl
  funext j
  by_cases hj : j = i <;> simp [hj]

/-- the unicast invariant: the general one, and at most one registered subscriber -/
structure UInv (s : State α) : Prop where
  inv : Inv s
  one : s.observers.length ≤ 1

theorem UInv.obs_cases {s : State α} (h : UInv s) : s.observers = [] ∨ ∃ x, s.observers = [x] := by
  have := h.one
  cases ho : s.observers with
  | nil => exact .inl rfl
  | cons x t =>
    rw [ho] at this
    cases t with
    | nil => exact .inr ⟨x, rfl⟩
    | cons y t => simp at this

/-! ### closed forms of the operations -/

variable (cap : Option Nat)

theorem ustep_subscribe_used {s : State α} {i : Nat} (c : Ctx) (hu : (s.sub i).used = true) :
    unicastStep cap s (.subscribe i c) = s := by
  simp [unicastStep, hu]

theorem ustep_subscribe_late {s : State α} {i : Nat} (c : Ctx) (hu : (s.sub i).used = false) (hc : s.status ≠ .active) :
    unicastStep cap s (.subscribe i c) =
      s.modSub i (fun _ => { used := true, status := (match s.status with | .errored _ _ => 1 | _ => 2), td := false,
                             got := [match s.status with | .errored ec e => .error ec e | _ => .complete c] }) := by
  cases hs : s.status with
  | active => exact absurd hs hc
  | errored ec e =>
    simp only [unicastStep, hu, hs, Bool.false_eq_true, if_false]
    rw [subTerminal_open_notd _ (by simp [fresh]) (by simp [fresh]), fresh, modSub_modSub]
    apply modSub_congr; simp [termCode]
  | completed =>
    simp only [unicastStep, hu, hs, Bool.false_eq_true, if_false]
    rw [subTerminal_open_notd _ (by simp [fresh]) (by simp [fresh]), fresh, modSub_modSub]
    apply modSub_congr; simp [termCode]

theorem ustep_subscribe_busy {s : State α} {i x : Nat} (c : Ctx) (hu : (s.sub i).used = false) (ha : s.status = .active)
    (ho : s.observers = [x]) :
    unicastStep cap s (.subscribe i c) =
      s.modSub i (fun _ => { used := true, status := 1, td := false, got := [.error c (.sentinel 6)] }) := by
  simp only [unicastStep, hu, ha, ho, Bool.false_eq_true, if_false]
  rw [subTerminal_open_notd _ (by simp [fresh]) (by simp [fresh]), fresh, modSub_modSub]
  apply modSub_congr; simp [termCode]

theorem ustep_subscribe_admitted {s : State α} {i : Nat} (c : Ctx) (hu : (s.sub i).used = false) (ha : s.status = .active)
    (ho : s.observers = []) :
    unicastStep cap s (.subscribe i c) =
      { s with values := [], observers := [i],
               sub := fun j => if j = i then { used := true, status := 0, td := true, got := nexts s.values } else s.sub j } := by
  simp only [unicastStep, hu, ha, ho, Bool.false_eq_true, if_false]
  rw [replayTo_open s.values (fresh s i) i (by simp [fresh])]
  apply State.ext'
  · simp [ha, fresh]
  · rfl
  · rfl
  · funext j; by_cases hj : j = i <;> simp [hj, fresh]
  · rfl

theorem ustep_next_closed {s : State α} (c : Ctx) (v : α) (hc : s.status ≠ .active) :
    unicastStep cap s (.next c v) = s.drop (.next c v) := by
  cases hs : s.status <;> simp [unicastStep, hs] at hc ⊢

theorem ustep_next_held {s : State α} (h : UInv s) {x : Nat} (c : Ctx) (v : α) (ha : s.status = .active)
    (ho : s.observers = [x]) :
    unicastStep cap s (.next c v) = s.modSub x (fun y => { y with got := y.got ++ [.next c v] }) := by
  have := h.inv.live x (by simp [ho])
  simp only [unicastStep, ha, ho]
  exact subNext_open this.2.1 c v

theorem ustep_next_idle {s : State α} (c : Ctx) (v : α) (ha : s.status = .active) (ho : s.observers = []) :
    unicastStep cap s (.next c v) = push cap s c v := by
  simp only [unicastStep, ha, ho]

theorem ustep_error_held {s : State α} (h : UInv s) {x : Nat} (c : Ctx) (e : Err) (ha : s.status = .active)
    (ho : s.observers = [x]) :
    unicastStep cap s (.error c e) =
      { s with status := .errored c e, observers := [],
               sub := fun j => if j = x then { s.sub j with status := 1, td := false, got := (s.sub j).got ++ [.error c e] } else s.sub j } := by
  have := h.inv.live x (by simp [ho])
  simp only [unicastStep, ha, ho]
  rw [subTerminal_clear_reg (s := { s with status := .errored c e, observers := [] }) this.2.1 this.2.2]
  rfl

theorem ustep_complete_held {s : State α} (h : UInv s) {x : Nat} (c : Ctx) (ha : s.status = .active)
    (ho : s.observers = [x]) :
    unicastStep cap s (.complete c) =
      { s with status := .completed, observers := [],
               sub := fun j => if j = x then { s.sub j with status := 2, td := false, got := (s.sub j).got ++ [.complete c] } else s.sub j } := by
  have := h.inv.live x (by simp [ho])
  simp only [unicastStep, ha, ho]
  rw [subTerminal_clear_reg (s := { s with status := .completed, observers := [] }) this.2.1 this.2.2]
  rfl

theorem ustep_error_idle {s : State α} (c : Ctx) (e : Err) (ha : s.status = .active) (ho : s.observers = []) :
    unicastStep cap s (.error c e) = { s with status := .errored c e }.drop (.error c e) := by
  simp only [unicastStep, ha, ho]

theorem ustep_complete_idle {s : State α} (c : Ctx) (ha : s.status = .active) (ho : s.observers = []) :
    unicastStep cap s (.complete c) = { s with status := .completed }.drop (.complete c) := by
  simp only [unicastStep, ha, ho]

theorem ustep_terminal_closed {s : State α} (hc : s.status ≠ .active) :
    (∀ c e, unicastStep cap s (.error c e) = s.drop (.error c e)) ∧
    (∀ c, unicastStep cap s (.complete c) = s.drop (.complete c)) := by
  constructor
  · intro c e; cases hs : s.status <;> simp [unicastStep, hs] at hc ⊢
  · intro c; cases hs : s.status <;> simp [unicastStep, hs] at hc ⊢

theorem ustep_unsubscribe_unused {s : State α} {i : Nat} (hu : (s.sub i).used = false) :
    unicastStep cap s (.unsubscribe i) = s := by
  simp [unicastStep, hu]

theorem ustep_unsubscribe_reg {s : State α} (h : UInv s) {i : Nat} (hi : i ∈ s.observers) :
    unicastStep cap s (.unsubscribe i) =
      { s with observers := [],
               sub := fun j => if j = i then { s.sub j with status := 2, td := false } else s.sub j } := by
  have := h.inv.live i hi
  simp only [unicastStep, this.1, if_true]
  exact subUnsubscribe_clear_reg this.2.1 this.2.2

/-! ### the invariant is preserved -/

theorem UInv.drop {s : State α} (h : UInv s) (n : Notif α) : UInv (s.drop n) := ⟨h.inv.drop n, h.one⟩

theorem uinv_init : UInv (Kind.unicast (α := α) cap).init := ⟨inv_init _, by simp [Kind.init]⟩

theorem uinv_step {s : State α} (h : UInv s) (o : Op α) : UInv (unicastStep cap s o) := by
  have hI := h.inv
  cases o with
  | subscribe i c =>
    cases hu : (s.sub i).used with
    | true => rw [ustep_subscribe_used cap c hu]; exact h
    | false =>
      have hi : i ∉ s.observers := hI.not_mem_of_unused hu
      have late_like : ∀ (x : Sub α), x.td = false → UInv (s.modSub i (fun _ => x)) := by
        intro x hx
        refine ⟨⟨?_, ?_, hI.nodup, hI.closed⟩, h.one⟩
        · intro j hj
          have hji : j ≠ i := fun e => hi (e ▸ hj)
          simpa [hji] using hI.live j hj
        · intro j hj
          by_cases hji : j = i
          · simp [hji, hx] at hj
          · simp only [modSub_sub, hji, if_false] at hj; exact hI.td j hj
      by_cases ha : s.status = .active
      · rcases h.obs_cases with ho | ⟨x, ho⟩
        · rw [ustep_subscribe_admitted cap c hu ha ho]
          refine ⟨⟨?_, ?_, by simp, ?_⟩, by simp⟩
          · intro j hj
            simp only [List.mem_singleton] at hj
            simp [hj]
          · intro j hj
            by_cases hji : j = i
            · simp [hji]
            · simp only [hji, if_false] at hj
              have := hI.td j hj
              rw [ho] at this; cases this
          · intro hc; exact absurd ha hc
        · rw [ustep_subscribe_busy cap c hu ha ho]; exact late_like _ rfl
      · rw [ustep_subscribe_late cap c hu ha]; exact late_like _ rfl
  | next c v =>
    by_cases ha : s.status = .active
    · rcases h.obs_cases with ho | ⟨x, ho⟩
      · rw [ustep_next_idle cap c v ha ho]
        obtain ⟨_, h2, h3, h4⟩ := push_values cap s c v
        refine ⟨hI.of_eq_on h3 h4 (fun j => by rw [h2]; exact ⟨rfl, fun _ => ⟨rfl, rfl⟩⟩), by rw [h3]; exact h.one⟩
      · rw [ustep_next_held cap h c v ha ho]
        refine ⟨hI.of_eq_on rfl rfl (fun j => ?_), h.one⟩
        by_cases hj : j = x <;> simp [hj]
    · rw [ustep_next_closed cap c v ha]; exact h.drop _
  | error c e =>
    by_cases ha : s.status = .active
    · rcases h.obs_cases with ho | ⟨x, ho⟩
      · rw [ustep_error_idle cap c e ha ho]
        refine ⟨⟨?_, ?_, ?_, ?_⟩, ?_⟩
        · intro j hj; exact hI.live j hj
        · intro j hj; exact hI.td j hj
        · exact hI.nodup
        · intro _; exact ho
        · exact h.one
      · rw [ustep_error_held cap h c e ha ho]
        refine ⟨⟨by simp, ?_, by simp, by simp⟩, by simp⟩
        intro j hj
        by_cases hjx : j = x
        · simp [hjx] at hj
        · simp only [hjx, if_false] at hj
          have := hI.td j hj
          rw [ho] at this; simp at this; exact absurd this hjx
    · rw [(ustep_terminal_closed cap ha).1]; exact h.drop _
  | complete c =>
    by_cases ha : s.status = .active
    · rcases h.obs_cases with ho | ⟨x, ho⟩
      · rw [ustep_complete_idle cap c ha ho]
        refine ⟨⟨?_, ?_, ?_, ?_⟩, ?_⟩
        · intro j hj; exact hI.live j hj
        · intro j hj; exact hI.td j hj
        · exact hI.nodup
        · intro _; exact ho
        · exact h.one
      · rw [ustep_complete_held cap h c ha ho]
        refine ⟨⟨by simp, ?_, by simp, by simp⟩, by simp⟩
        intro j hj
        by_cases hjx : j = x
        · simp [hjx] at hj
        · simp only [hjx, if_false] at hj
          have := hI.td j hj
          rw [ho] at this; simp at this; exact absurd this hjx
    · rw [(ustep_terminal_closed cap ha).2]; exact h.drop _
  | unsubscribe i =>
    cases hu : (s.sub i).used with
    | false => rw [ustep_unsubscribe_unused cap hu]; exact h
    | true =>
      by_cases hi : i ∈ s.observers
      · rw [ustep_unsubscribe_reg cap h hi]
        refine ⟨⟨by simp, ?_, by simp, by simp⟩, by simp⟩
        intro j hj
        by_cases hji : j = i
        · simp [hji] at hj
        · simp only [hji, if_false] at hj
          have hjm := hI.td j hj
          rcases h.obs_cases with ho | ⟨x, ho⟩
          · rw [ho] at hjm; cases hjm
          · rw [ho] at hjm hi; simp at hjm hi; exact absurd (hjm.trans hi.symm) hji
      · have ht := hI.td_false hi
        obtain ⟨h1, h2, _, h4⟩ := subUnsubscribe_unreg (s := s) (i := i) .clear ht
        simp only [unicastStep, hu, if_true]
        refine ⟨hI.of_eq_on h1 h2 (fun j => ⟨(h4 j).2.2.1, fun hj => ?_⟩), by rw [h1]; exact h.one⟩
        have hji : j ≠ i := fun e => hi (e ▸ hj)
        rw [(h4 j).2.2.2 hji]; exact ⟨rfl, rfl⟩

theorem uinv_runFrom : ∀ (ops : List (Op α)) (s : State α), UInv s → UInv (runFrom (.unicast cap) s ops)
  | [], _, h => h
  | o :: ops, _, h => uinv_runFrom ops _ (uinv_step cap h o)

/-- **unicast admits one subscriber at a time** — every operation sequence -/
theorem unicast_one_observer (ops : List (Op α)) : (run (.unicast cap) ops).observers.length ≤ 1 :=
  (uinv_runFrom cap ops _ (uinv_init cap)).one

end Ro.Subj

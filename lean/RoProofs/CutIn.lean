/-
  RoProofs.CutIn — proofs about RoModel.CutIn:
  §1 the cut-in run is the plain hot run truncated after k deliveries, and it is released;
  §2 Collect is a function of the gated trace only, defined exactly when the trace has a terminal;
  §3 the finalizer loop runs every teardown of every tree exactly once, in order, whatever subset
     panics, and raises the join of the unsubscription errors after the loop.
-/
import RoModel.CutIn
import RoProofs.Release
namespace Ro
variable {σ α β : Type}

/-! ## §1 cut-in -/

theorem push_out_prefix (r : RunSt σ α β) (n : Notif β) : ∃ l, (r.push n).out = r.out ++ l := by
  unfold RunSt.push; split
  · exact ⟨[n], rfl⟩
  · exact ⟨[], by simp⟩

theorem pushAll_out_prefix (r : RunSt σ α β) (ns : List (Notif β)) : ∃ l, (r.pushAll ns).out = r.out ++ l := by
  induction ns generalizing r with
  | nil => exact ⟨[], by simp [RunSt.pushAll]⟩
  | cons n ns ih =>
    obtain ⟨l1, h1⟩ := push_out_prefix r n
    obtain ⟨l2, h2⟩ := ih (r.push n)
    refine ⟨l1 ++ l2, ?_⟩
    simp only [RunSt.pushAll, List.foldl] at h2 ⊢
    rw [h2, h1, List.append_assoc]

theorem feed_out_prefix (m : Machine σ α β) (mode) (r : RunSt σ α β) (x : Notif α) :
    ∃ l, (r.feed m mode x).out = r.out ++ l := by
  unfold RunSt.feed; split
  · obtain ⟨l, h⟩ := pushAll_out_prefix ({ r with st := (m.step r.st x).1 } : RunSt σ α β) (m.step r.st x).2
    exact ⟨l, by simpa [RunSt.settle] using h⟩
  · exact ⟨[], by simp⟩

theorem fold_out_prefix (m : Machine σ α β) (mode) (raw : List (Notif α)) (r : RunSt σ α β) :
    ∃ l, (raw.foldl (RunSt.feed m mode) r).out = r.out ++ l := by
  induction raw generalizing r with
  | nil => exact ⟨[], by simp⟩
  | cons x xs ih =>
    obtain ⟨l1, h1⟩ := feed_out_prefix m mode r x
    obtain ⟨l2, h2⟩ := ih (r.feed m mode x)
    exact ⟨l1 ++ l2, by simp only [List.foldl]; rw [h2, h1, List.append_assoc]⟩

/-- the plain run `r` and the cut-in run `r'` while a reaction is in progress: either fewer than
    `k` notifications have been delivered and the two runs are the same state, or the cut has
    happened: the downstream subscriber of `r'` is closed and holds the first `k` deliveries -/
def SimP (k : Nat) (r r' : RunSt σ α β) : Prop :=
  (r.out.length < k ∧ r' = r) ∨ (k ≤ r.out.length ∧ r'.downOpen = false ∧ r'.out = r.out.take k)

/-- … and between two inputs: after the cut the upstream side of `r'` is released too -/
def SimF (k : Nat) (r r' : RunSt σ α β) : Prop :=
  (r.out.length < k ∧ r' = r) ∨
  (k ≤ r.out.length ∧ r'.downOpen = false ∧ r'.upOpen = false ∧ r'.out = r.out.take k)

theorem SimP.push {k : Nat} {r r' : RunSt σ α β} (h : SimP k r r') (n : Notif β) :
    SimP k (r.push n) (r'.pushCutIn k n) := by
  rcases h with ⟨hlt, rfl⟩ | ⟨hle, hd, ho⟩
  · unfold RunSt.push RunSt.pushCutIn
    cases hdo : r'.downOpen
    · left; exact ⟨by simpa using hlt, by simp⟩
    · by_cases hc : r'.out.length + 1 = k
      · right
        refine ⟨by simp; omega, by simp [hc], ?_⟩
        simp only [if_true]
        rw [List.take_of_length_le (by simp; omega)]
      · left
        refine ⟨by simp; omega, ?_⟩
        simp [hc]
  · right
    obtain ⟨l, hl⟩ := push_out_prefix r n
    refine ⟨by rw [hl]; simp; omega, by simp [RunSt.pushCutIn, hd], ?_⟩
    rw [hl, List.take_append_of_le_length hle]
    simp [RunSt.pushCutIn, hd, ho]

theorem SimP.pushAll {k : Nat} {r r' : RunSt σ α β} (h : SimP k r r') (ns : List (Notif β)) :
    SimP k (r.pushAll ns) (r'.pushAllCutIn k ns) := by
  induction ns generalizing r r' with
  | nil => simpa [RunSt.pushAll, RunSt.pushAllCutIn] using h
  | cons n ns ih =>
    simp only [RunSt.pushAll, RunSt.pushAllCutIn, List.foldl] at ih ⊢
    exact ih (h.push n)

theorem feed_open (m : Machine σ α β) (mode) (r : RunSt σ α β) (x : Notif α) (h : r.upOpen = true) :
    r.feed m mode x =
      (({ r with st := (m.step r.st x).1 } : RunSt σ α β).pushAll (m.step r.st x).2).settle mode x.isTerminal r.out.length := by
  simp only [RunSt.feed, h, if_true]

theorem feedCutIn_open (m : Machine σ α β) (k : Nat) (r : RunSt σ α β) (x : Notif α) (h : r.upOpen = true) :
    r.feedCutIn m k x =
      (({ r with st := (m.step r.st x).1 } : RunSt σ α β).pushAllCutIn k (m.step r.st x).2).settle .hot x.isTerminal r.out.length := by
  simp only [RunSt.feedCutIn, h, if_true]

theorem SimF.feed {k : Nat} {r r' : RunSt σ α β} (m : Machine σ α β) (h : SimF k r r') (x : Notif α) :
    SimF k (r.feed m .hot x) (r'.feedCutIn m k x) := by
  rcases h with ⟨hlt, rfl⟩ | ⟨hle, hd, hu, ho⟩
  · by_cases hup : r'.upOpen = true
    · rw [feed_open m .hot r' x hup, feedCutIn_open m k r' x hup]
      have hp : SimP k ({ r' with st := (m.step r'.st x).1 } : RunSt σ α β) ({ r' with st := (m.step r'.st x).1 } : RunSt σ α β) :=
        Or.inl ⟨hlt, rfl⟩
      rcases hp.pushAll (m.step r'.st x).2 with ⟨hlt', heq⟩ | ⟨hle', hd', ho'⟩
      · left
        rw [heq]
        exact ⟨by simpa [RunSt.settle] using hlt', rfl⟩
      · right
        refine ⟨by simpa [RunSt.settle] using hle', by simpa [RunSt.settle] using hd', ?_, by simpa [RunSt.settle] using ho'⟩
        simp only [RunSt.settle, hd']
        simp
    · have hup' : r'.upOpen = false := by simpa using hup
      left
      refine ⟨by simpa [RunSt.feed, hup'] using hlt, by simp [RunSt.feed, RunSt.feedCutIn, hup']⟩
  · right
    obtain ⟨l, hl⟩ := feed_out_prefix m .hot r x
    have hf : r'.feedCutIn m k x = { r' with drops := r'.drops ++ [.up x], steps := r'.steps ++ [0] } := by
      simp [RunSt.feedCutIn, hu]
    rw [hf]
    refine ⟨by rw [hl]; simp; omega, hd, hu, ?_⟩
    rw [hl, List.take_append_of_le_length hle]
    exact ho

theorem SimF.fold {k : Nat} (m : Machine σ α β) (raw : List (Notif α)) {r r' : RunSt σ α β} (h : SimF k r r') :
    SimF k (raw.foldl (RunSt.feed m .hot) r) (raw.foldl (RunSt.feedCutIn m k) r') := by
  induction raw generalizing r r' with
  | nil => exact h
  | cons x xs ih => exact ih (h.feed m x)

theorem start_simP (m : Machine σ α β) (sub : Ctx) {k : Nat} (hk : 0 < k) :
    SimP k (m.start sub) (m.startCutIn sub k) := by
  unfold Machine.start Machine.startCutIn
  exact SimP.pushAll (Or.inl ⟨by simpa using hk, rfl⟩) _

theorem SimP.afterSubscribe {k : Nat} {r r' : RunSt σ α β} (h : SimP k r r') :
    SimF k (r.afterSubscribe .hot) (r'.afterSubscribe .hot) := by
  rcases h with ⟨hlt, rfl⟩ | ⟨hle, hd, ho⟩
  · left
    refine ⟨?_, rfl⟩
    unfold RunSt.afterSubscribe; split <;> simpa using hlt
  · right
    have h1 : (r.afterSubscribe .hot).out = r.out := by unfold RunSt.afterSubscribe; split <;> rfl
    have h2 : r'.afterSubscribe .hot = { r' with upOpen := false } := by simp [RunSt.afterSubscribe, hd]
    rw [h1, h2]
    exact ⟨hle, hd, rfl, ho⟩

/-- the simulation holds between the two complete runs -/
theorem runOpCutIn_sim (m : Machine σ α β) (sub : Ctx) (raw : List (Notif α)) {k : Nat} (hk : 0 < k)
    (hs : m.subscribes = true) : SimF k (runOp m .hot sub raw) (runOpCutIn m sub raw k) := by
  unfold runOp runOpCutIn
  simp only [hs, if_true]
  exact SimF.fold m raw (start_simP m sub hk).afterSubscribe

/-- **C06, Unsubscribe from inside a callback — what is delivered.** For every machine,
    subscription context, raw script and `k ≥ 1`: the observer that unsubscribes itself during its
    k-th callback receives exactly the first `k` notifications of the undisturbed run, nothing more. -/
theorem runOpCutIn_out (m : Machine σ α β) (sub : Ctx) (raw : List (Notif α)) {k : Nat} (hk : 0 < k) :
    (runOpCutIn m sub raw k).out = ((runOp m .hot sub raw).out).take k := by
  cases hs : m.subscribes
  · -- the operator never subscribes to its source (`Take(0)` …): only subscribe-time emissions
    have h := start_simP m sub (k := k) hk
    unfold runOp runOpCutIn
    simp only [hs]
    rcases h with ⟨hlt, heq⟩ | ⟨_, _, ho⟩
    · simp only [Bool.false_eq_true, if_false]
      rw [heq, List.take_of_length_le (by omega)]
    · simpa using ho
  · rcases runOpCutIn_sim m sub raw hk hs with ⟨hlt, heq⟩ | ⟨_, _, _, ho⟩
    · rw [heq, List.take_of_length_le (by omega)]
    · exact ho

/-- **… and the release.** As soon as `k` notifications have been delivered, the downstream
    subscriber is closed and the source has been unsubscribed. -/
theorem runOpCutIn_released (m : Machine σ α β) (sub : Ctx) (raw : List (Notif α)) {k : Nat} (hk : 0 < k)
    (hs : m.subscribes = true) (h : k ≤ (runOp m .hot sub raw).out.length) :
    (runOpCutIn m sub raw k).downOpen = false ∧ (runOpCutIn m sub raw k).upOpen = false := by
  rcases runOpCutIn_sim m sub raw hk hs with ⟨hlt, _⟩ | ⟨_, hd, hu, _⟩
  · omega
  · exact ⟨hd, hu⟩

/-- for `k` larger than the trace nothing changes: the whole run state is that of the plain run -/
theorem runOpCutIn_unchanged (m : Machine σ α β) (sub : Ctx) (raw : List (Notif α)) {k : Nat} (hk : 0 < k)
    (hs : m.subscribes = true) (h : (runOp m .hot sub raw).out.length < k) :
    runOpCutIn m sub raw k = runOp m .hot sub raw := by
  rcases runOpCutIn_sim m sub raw hk hs with ⟨_, heq⟩ | ⟨hle, _, _, _⟩
  · exact heq
  · omega

/-- once released, a later input is refused upstream: it is dropped, the operator is not invoked,
    nothing is delivered -/
theorem feedCutIn_closed (m : Machine σ α β) (k : Nat) (r : RunSt σ α β) (x : Notif α) (h : r.upOpen = false) :
    (r.feedCutIn m k x).out = r.out ∧ (r.feedCutIn m k x).st = r.st ∧
    (r.feedCutIn m k x).drops = r.drops ++ [.up x] ∧ (r.feedCutIn m k x).upOpen = false := by
  simp [RunSt.feedCutIn, h]

/-- nothing is delivered afterwards, whatever the source goes on to emit -/
theorem runOpCutIn_stable (m : Machine σ α β) (sub : Ctx) (raw more : List (Notif α)) {k : Nat} (hk : 0 < k)
    (h : k ≤ (runOpCutIn m sub raw k).out.length) :
    (runOpCutIn m sub (raw ++ more) k).out = (runOpCutIn m sub raw k).out := by
  rw [runOpCutIn_out m sub (raw ++ more) hk, runOpCutIn_out m sub raw hk]
  rw [runOpCutIn_out m sub raw hk] at h
  have hlen : k ≤ (runOp m .hot sub raw).out.length := by
    rw [List.length_take] at h; omega
  have : ∃ l, (runOp m .hot sub (raw ++ more)).out = (runOp m .hot sub raw).out ++ l := by
    unfold runOp
    cases m.subscribes
    · exact ⟨[], by simp⟩
    · simp only [if_true, List.foldl_append]
      exact fold_out_prefix m .hot more _
  obtain ⟨l, hl⟩ := this
  rw [hl, List.take_append_of_le_length hlen]

/-- the variant with the handle returned by `Subscribe` -/
theorem runOpCutInRet_out (m : Machine σ α β) (sub : Ctx) (raw : List (Notif α)) {k : Nat} (hk : 0 < k)
    (hs : m.subscribes = true) :
    (k ≤ (m.start sub).out.length →
        (runOpCutInRet m sub raw k).out = (runOp m .hot sub []).out ∧ (runOpCutInRet m sub raw k).upOpen = false) ∧
    ((m.start sub).out.length < k → runOpCutInRet m sub raw k = runOpCutIn m sub raw k) := by
  constructor
  · intro h
    have : runOpCutInRet m sub raw k = runOpCut m sub raw 0 := by simp [runOpCutInRet, hk, h]
    rw [this]
    have := runOpCut_out m sub raw 0 hs
    simpa using this
  · intro h
    have : ¬ k ≤ (m.start sub).out.length := by omega
    simp [runOpCutInRet, this]

/-! ## §2 Collect -/

def Ending.ctx : Ending → Option Ctx
  | .never => none
  | .error c _ => some c
  | .complete c => some c

def Ending.err : Ending → Option Err
  | .error _ e => some e
  | _ => none

/-- **Specification of Collect** over a delivered trace: defined when the trace ends; then the
    values in order, the terminal's context, the error if the terminal is an error. -/
def Spec.collect (tr : List (Notif β)) : Option (CollectSt β) :=
  match ending tr with
  | .never => none
  | e => some { values := (values tr).map (·.2), lastCtx := e.ctx, err := e.err }

theorem ending_never_iff (l : List (Notif β)) : ending l = .never ↔ hasTerm l = false := by
  induction l with
  | nil => simp [ending]
  | cons x xs ih => cases x <;> simp [ending, ih]

theorem ending_gate (l : List (Notif β)) : ending (gate l) = ending l := by
  induction l with
  | nil => rfl
  | cons x xs ih => cases x <;> simp [gate, ending, ih]

theorem values_gate (l : List (Notif β)) : values (gate l) = values l := by
  induction l with
  | nil => rfl
  | cons x xs ih => cases x <;> simp [gate, values, ih]

/-- the observer's locals after a gated trace, from any starting locals -/
theorem fold_on_gate (s : CollectSt β) (l : List (Notif β)) :
    (gate l).foldl CollectSt.on s =
      { values := s.values ++ (values l).map (·.2),
        lastCtx := match ending l with | .never => s.lastCtx | e => e.ctx,
        err := match ending l with | .error _ e => some e | _ => s.err } := by
  induction l generalizing s with
  | nil => simp [gate, values, ending]
  | cons x xs ih =>
    cases x with
    | next c v =>
      simp only [gate, Notif.isTerminal_next, Bool.false_eq_true, if_false, List.foldl, values, ending]
      rw [ih]
      simp [CollectSt.on, List.append_assoc]
    | error c e => simp [gate, values, ending, CollectSt.on, Ending.ctx]
    | complete c => simp [gate, values, ending, CollectSt.on, Ending.ctx]

/-- the run invariant: the downstream subscriber is open exactly while no terminal was delivered -/
def OutInv (r : RunSt σ α β) : Prop := r.downOpen = !hasTerm r.out

theorem OutInv.push {r : RunSt σ α β} (h : OutInv r) (n : Notif β) : OutInv (r.push n) := by
  unfold OutInv RunSt.push at *
  cases hd : r.downOpen
  · simpa [hd] using h
  · have : hasTerm r.out = false := by simpa [hd] using h
    simp [this]

theorem OutInv.pushAll {r : RunSt σ α β} (h : OutInv r) (ns : List (Notif β)) : OutInv (r.pushAll ns) := by
  induction ns generalizing r with
  | nil => simpa [RunSt.pushAll] using h
  | cons n ns ih => simp only [RunSt.pushAll, List.foldl] at ih ⊢; exact ih (h.push n)

theorem OutInv.feed {r : RunSt σ α β} (m : Machine σ α β) (mode) (h : OutInv r) (x : Notif α) :
    OutInv (r.feed m mode x) := by
  unfold RunSt.feed; split
  · have := OutInv.pushAll (r := { r with st := (m.step r.st x).1 }) h (m.step r.st x).2
    simpa [OutInv, RunSt.settle] using this
  · exact h

theorem OutInv.fold {r : RunSt σ α β} (m : Machine σ α β) (mode) (raw : List (Notif α)) (h : OutInv r) :
    OutInv (raw.foldl (RunSt.feed m mode) r) := by
  induction raw generalizing r with
  | nil => exact h
  | cons x xs ih => exact ih (h.feed m mode x)

theorem runOp_outInv (m : Machine σ α β) (mode : SrcMode) (sub : Ctx) (raw : List (Notif α)) :
    OutInv (runOp m mode sub raw) := by
  have h0 : OutInv (m.start sub) := by
    unfold Machine.start
    exact OutInv.pushAll (r := { st := (m.onSubscribe m.init sub).1 }) (by simp [OutInv]) _
  unfold runOp
  split
  · apply OutInv.fold
    unfold RunSt.afterSubscribe; split
    · exact h0
    · exact h0
  · exact h0

/-- Collect on a run whose delivered trace is a gated list `gate X` is the specification on `X` -/
theorem collect_of_gate (r : RunSt σ α β) (X : List (Notif β)) (hi : OutInv r) (ho : r.out = gate X) :
    collect r = Spec.collect X := by
  unfold collect Spec.collect
  have hd : r.downOpen = !hasTerm X := by rw [hi, ho, hasTerm_gate]
  cases ht : hasTerm X
  · have : ending X = .never := (ending_never_iff X).2 ht
    simp [hd, ht, this]
  · have hne : ending X ≠ .never := fun h => by rw [(ending_never_iff X).1 h] at ht; cases ht
    simp only [hd, ht, Bool.not_true, Bool.false_eq_true, if_false]
    rw [ho, collectFold, fold_on_gate]
    cases he : ending X with
    | never => exact absurd he hne
    | error c e => simp [Ending.ctx, Ending.err]
    | complete c => simp [Ending.ctx, Ending.err]

/-- **C06, Collect.** For every machine, source mode, subscription context and raw script:
    `Collect` returns the specification applied to the gated trace
    (subscribe-time emissions ++ the machine's emissions over the gated source script) — the
    delivered values in order with the terminal's error — and nothing else enters the result. -/
theorem collect_runOp (m : Machine σ α β) (mode : SrcMode) (sub : Ctx) (raw : List (Notif α))
    (hs : m.subscribes = true) :
    collect (runOp m mode sub raw) =
      Spec.collect ((m.onSubscribe m.init sub).2 ++ m.emits (m.onSubscribe m.init sub).1 (gate raw)) :=
  collect_of_gate _ _ (runOp_outInv m mode sub raw) (runOp_out m mode sub raw hs)

/-- … hence the same whether the source is synchronous or not -/
theorem collect_mode_indep (m : Machine σ α β) (sub : Ctx) (raw : List (Notif α)) :
    collect (runOp m .sync sub raw) = collect (runOp m .hot sub raw) := by
  cases hs : m.subscribes
  · simp [runOp, hs]
  · rw [collect_runOp m .sync sub raw hs, collect_runOp m .hot sub raw hs]

/-- Collect returns exactly when the delivered trace has a terminal (never earlier; never hanging
    on a stream that has terminated; not at all on a stream that never terminates) -/
theorem collect_isSome (m : Machine σ α β) (mode : SrcMode) (sub : Ctx) (raw : List (Notif α)) :
    (collect (runOp m mode sub raw)).isSome = hasTerm (runOp m mode sub raw).out := by
  have h := runOp_outInv m mode sub raw
  unfold collect
  rw [h]
  cases hasTerm (runOp m mode sub raw).out <;> simp

/-- what it returns, stated on the delivered trace itself -/
theorem collect_values (m : Machine σ α β) (mode : SrcMode) (sub : Ctx) (raw : List (Notif α)) (c : CollectSt β)
    (h : collect (runOp m mode sub raw) = some c) :
    c.values = (values (runOp m mode sub raw).out).map (·.2) ∧
    c.err = (ending (runOp m mode sub raw).out).err ∧
    c.lastCtx = (ending (runOp m mode sub raw).out).ctx := by
  have hg : (runOp m mode sub raw).out = gate (runOp m mode sub raw).out := by
    cases hs : m.subscribes
    · rw [runOp_out_nosub m mode sub raw hs, gate_idem]
    · rw [runOp_out m mode sub raw hs, gate_idem]
  rw [collect_of_gate _ _ (runOp_outInv m mode sub raw) hg] at h
  unfold Spec.collect at h
  split at h
  · cases h
  · cases h; exact ⟨rfl, rfl, rfl⟩

/-! ## §3 finalizers -/

theorem leavesL_append (a b : List TErr) : TErr.leavesL (a ++ b) = TErr.leavesL a ++ TErr.leavesL b := by
  induction a with
  | nil => simp [TErr.leavesL]
  | cons x xs ih => simp [TErr.leavesL, ih, List.append_assoc]

mutual
/-- every teardown of the tree runs, depth first, whatever panics -/
theorem Fin.run_log : ∀ f : Fin, f.closureFree = true → (Fin.run f).1 = Fin.ids f
  | .leaf _ _, _ => rfl
  | .sub fs, h => by simp [Fin.run, Fin.ids, Fin.loop_log fs (by simpa [Fin.closureFree] using h)]
  | .closure _, h => by simp [Fin.closureFree] at h
  | .deferred body rel, h => by
    simp [Fin.run, Fin.ids, Fin.run_log body (by simpa [Fin.closureFree] using h)]
theorem Fin.loop_log : ∀ fs : List Fin, Fin.closureFreeL fs = true → (Fin.loop fs).1 = Fin.idsL fs
  | [], _ => rfl
  | f :: fs, h => by
    simp only [Fin.closureFreeL, Bool.and_eq_true] at h
    simp [Fin.loop, Fin.idsL, Fin.run_log f h.1, Fin.loop_log fs h.2]
end

mutual
/-- the root causes of what escapes are the values the panicking teardowns panicked with -/
theorem Fin.run_leaves : ∀ f : Fin, f.closureFree = true → ((Fin.run f).2.map TErr.leaves).getD [] = Fin.panics f
  | .leaf _ p, _ => by cases p <;> simp [Fin.run, Fin.panics, TErr.leaves]
  | .sub fs, h => by
    have := Fin.loop_leaves fs (by simpa [Fin.closureFree] using h)
    simp only [Fin.run, Fin.panics]
    cases h : (Fin.loop fs).2 with
    | nil => rw [h] at this; simpa [TErr.leavesL] using this
    | cons e es => rw [h] at this; simpa [TErr.leaves] using this
  | .closure _, h => by simp [Fin.closureFree] at h
  | .deferred body rel, h => by
    simpa [Fin.run, Fin.panics] using Fin.run_leaves body (by simpa [Fin.closureFree] using h)
theorem Fin.loop_leaves : ∀ fs : List Fin, Fin.closureFreeL fs = true → TErr.leavesL (Fin.loop fs).2 = Fin.panicsL fs
  | [], _ => rfl
  | f :: fs, h => by
    simp only [Fin.closureFreeL, Bool.and_eq_true] at h
    have h1 := Fin.run_leaves f h.1
    have h2 := Fin.loop_leaves fs h.2
    simp only [Fin.loop, Fin.panicsL, leavesL_append, h2]
    cases h : (Fin.run f).2 with
    | none => rw [h] at h1; simp at h1; simp [TErr.leavesL, ← h1]
    | some e => rw [h] at h1; simp at h1; simp [TErr.leavesL, TErr.leaves, ← h1]
end

mutual
/-- nothing escapes when nothing panics (closures included) -/
theorem Fin.run_none : ∀ f : Fin, Fin.panics f = [] → (Fin.run f).2 = none
  | .leaf _ p => by cases p <;> simp [Fin.run, Fin.panics]
  | .sub fs => by
    intro h
    have := Fin.loop_nil fs (by simpa [Fin.panics] using h)
    simp [Fin.run, this]
  | .closure fs => by
    intro h
    simpa [Fin.run] using Fin.seq_none fs (by simpa [Fin.panics] using h)
  | .deferred body rel => by
    intro h
    simpa [Fin.run] using Fin.run_none body (by simpa [Fin.panics] using h)
theorem Fin.loop_nil : ∀ fs : List Fin, Fin.panicsL fs = [] → (Fin.loop fs).2 = []
  | [] => fun _ => rfl
  | f :: fs => by
    intro h
    simp only [Fin.panicsL, List.append_eq_nil_iff] at h
    simp [Fin.loop, Fin.run_none f h.1, Fin.loop_nil fs h.2]
theorem Fin.seq_none : ∀ fs : List Fin, Fin.panicsL fs = [] → (Fin.seq fs).2 = none
  | [] => fun _ => rfl
  | f :: fs => by
    intro h
    simp only [Fin.panicsL, List.append_eq_nil_iff] at h
    simp [Fin.seq, Fin.run_none f h.1, Fin.seq_none fs h.2]
end

mutual
/-- … and then every teardown runs, closures or not -/
theorem Fin.run_log_quiet : ∀ f : Fin, Fin.panics f = [] → (Fin.run f).1 = Fin.ids f
  | .leaf _ _ => fun _ => rfl
  | .sub fs => by
    intro h
    simp [Fin.run, Fin.ids, Fin.loop_log_quiet fs (by simpa [Fin.panics] using h)]
  | .closure fs => by
    intro h
    simp [Fin.run, Fin.ids, Fin.seq_log_quiet fs (by simpa [Fin.panics] using h)]
  | .deferred body rel => by
    intro h
    simp [Fin.run, Fin.ids, Fin.run_log_quiet body (by simpa [Fin.panics] using h)]
theorem Fin.loop_log_quiet : ∀ fs : List Fin, Fin.panicsL fs = [] → (Fin.loop fs).1 = Fin.idsL fs
  | [] => fun _ => rfl
  | f :: fs => by
    intro h
    simp only [Fin.panicsL, List.append_eq_nil_iff] at h
    simp [Fin.loop, Fin.idsL, Fin.run_log_quiet f h.1, Fin.loop_log_quiet fs h.2]
theorem Fin.seq_log_quiet : ∀ fs : List Fin, Fin.panicsL fs = [] → (Fin.seq fs).1 = Fin.idsL fs
  | [] => fun _ => rfl
  | f :: fs => by
    intro h
    simp only [Fin.panicsL, List.append_eq_nil_iff] at h
    simp [Fin.seq, Fin.idsL, Fin.run_none f h.1, Fin.run_log_quiet f h.1, Fin.seq_log_quiet fs h.2]
end

/-- every collected error is an unsubscription error -/
theorem Fin.loop_all_un (fs : List Fin) :
    (Fin.loop fs).2.all (fun e => match e with | .un _ => true | _ => false) = true := by
  induction fs with
  | nil => rfl
  | cons f fs ih =>
    simp only [Fin.loop, List.all_append, ih, Bool.and_true]
    cases (Fin.run f).2 <;> simp

/-- the normal form compared with the implementation: the teardowns that ran, in order, and the
    root causes of the raised value -/
def normalize (r : List Nat × Option TErr) : List Nat × Option (List Err) := (r.1, r.2.map TErr.leaves)

/-- **C03, panicking teardowns, every tree of subscriptions** (no unisolated multi-action closure:
    `closureFree`; see `closure_skips_witness` for what such a closure does).
    `Unsubscribe` runs every teardown reachable from the subscription exactly once, depth first — a
    panic stops nothing; it raises nothing when nothing panicked; otherwise it raises, after the
    loop, a join of unsubscription errors whose root causes are exactly the values the panicking
    teardowns panicked with, in the order they ran. -/
theorem unsubscribe_tree (fs : List Fin) (hc : Fin.closureFreeL fs = true) :
    (unsubscribe fs).1 = Fin.idsL fs ∧
    ((unsubscribe fs).2 = none ↔ Fin.panicsL fs = []) ∧
    (∀ e, (unsubscribe fs).2 = some e → e.isJoinOfUn = true ∧ e.leaves = Fin.panicsL fs) := by
  have hc' : (Fin.sub fs).closureFree = true := by simpa [Fin.closureFree] using hc
  refine ⟨by simp [unsubscribe, Fin.run, Fin.loop_log fs hc], ?_, ?_⟩
  · constructor
    · intro h
      have := Fin.run_leaves (.sub fs) hc'
      rw [show Fin.run (.sub fs) = unsubscribe fs from rfl, h] at this
      simpa [Fin.panics] using this.symm
    · intro h
      exact Fin.run_none (.sub fs) (by simpa [Fin.panics] using h)
  · intro e he
    have hl := Fin.run_leaves (.sub fs) hc'
    rw [show Fin.run (.sub fs) = unsubscribe fs from rfl, he] at hl
    refine ⟨?_, by simpa [Fin.panics] using hl⟩
    simp only [unsubscribe, Fin.run] at he
    split at he
    · cases he
    · rename_i hne
      cases he
      simp only [TErr.isJoinOfUn, Bool.and_eq_true, Bool.not_eq_true']
      exact ⟨by simpa using hne, Fin.loop_all_un fs⟩

/-- the shape of the tree does not matter for the normal form -/
theorem unsubscribe_normal (fs : List Fin) (hc : Fin.closureFreeL fs = true) :
    normalize (unsubscribe fs) = (Fin.idsL fs, if Fin.panicsL fs = [] then none else some (Fin.panicsL fs)) := by
  obtain ⟨h1, h2, h3⟩ := unsubscribe_tree fs hc
  unfold normalize
  rw [h1]
  cases h : (unsubscribe fs).2 with
  | none => simp [h2.1 h]
  | some e =>
    have hne : Fin.panicsL fs ≠ [] := fun hh => by rw [h2.2 hh] at h; cases h
    simp [hne, (h3 e h).2]

/-- without a panic every teardown runs exactly once and nothing is raised — closures included -/
theorem unsubscribe_quiet (fs : List Fin) (h : Fin.panicsL fs = []) :
    unsubscribe fs = (Fin.idsL fs, none) := by
  have h1 := Fin.run_log_quiet (.sub fs) (by simpa [Fin.panics] using h)
  have h2 := Fin.run_none (.sub fs) (by simpa [Fin.panics] using h)
  show Fin.run (.sub fs) = _
  rw [Prod.ext_iff]; exact ⟨by simpa [Fin.ids] using h1, h2⟩

mutual
theorem Fin.assign_ids (pan : Nat → Option Err) : ∀ f : Fin, Fin.ids (Fin.assign pan f) = Fin.ids f
  | .leaf _ _ => rfl
  | .sub fs => by simp [Fin.assign, Fin.ids, Fin.assignL_ids pan fs]
  | .closure fs => by simp [Fin.assign, Fin.ids, Fin.assignL_ids pan fs]
  | .deferred body rel => by simp [Fin.assign, Fin.ids, Fin.assign_ids pan body]
theorem Fin.assignL_ids (pan : Nat → Option Err) : ∀ fs : List Fin, Fin.idsL (Fin.assignL pan fs) = Fin.idsL fs
  | [] => rfl
  | f :: fs => by simp [Fin.assignL, Fin.idsL, Fin.assign_ids pan f, Fin.assignL_ids pan fs]
end

mutual
theorem Fin.assign_panics (pan : Nat → Option Err) : ∀ f : Fin, Fin.panics (Fin.assign pan f) = (Fin.uids f).filterMap pan
  | .leaf id _ => by cases h : pan id <;> simp [Fin.assign, Fin.panics, Fin.uids, h]
  | .sub fs => by simp [Fin.assign, Fin.panics, Fin.uids, Fin.assignL_panics pan fs]
  | .closure fs => by simp [Fin.assign, Fin.panics, Fin.uids, Fin.assignL_panics pan fs]
  | .deferred body rel => by simp [Fin.assign, Fin.panics, Fin.uids, Fin.assign_panics pan body]
theorem Fin.assignL_panics (pan : Nat → Option Err) : ∀ fs : List Fin, Fin.panicsL (Fin.assignL pan fs) = (Fin.uidsL fs).filterMap pan
  | [] => rfl
  | f :: fs => by simp [Fin.assignL, Fin.panicsL, Fin.uidsL, Fin.assign_panics pan f, Fin.assignL_panics pan fs, List.filterMap_append]
end

mutual
theorem Fin.assign_closureFree (pan : Nat → Option Err) : ∀ f : Fin, (Fin.assign pan f).closureFree = f.closureFree
  | .leaf _ _ => rfl
  | .sub fs => by simp [Fin.assign, Fin.closureFree, Fin.assignL_closureFree pan fs]
  | .closure _ => rfl
  | .deferred body rel => by simp [Fin.assign, Fin.closureFree, Fin.assign_closureFree pan body]
theorem Fin.assignL_closureFree (pan : Nat → Option Err) : ∀ fs : List Fin, Fin.closureFreeL (Fin.assignL pan fs) = Fin.closureFreeL fs
  | [] => rfl
  | f :: fs => by simp [Fin.assignL, Fin.closureFreeL, Fin.assign_closureFree pan f, Fin.assignL_closureFree pan fs]
end

/-- **… for every subset of panicking teardowns** (`pan` chooses who panics and with what) -/
theorem unsubscribe_assign (fs : List Fin) (hc : Fin.closureFreeL fs = true) (pan : Nat → Option Err) :
    normalize (unsubscribe (Fin.assignL pan fs)) =
      (Fin.idsL fs, if (Fin.uidsL fs).filterMap pan = [] then none else some ((Fin.uidsL fs).filterMap pan)) := by
  rw [unsubscribe_normal _ (by rw [Fin.assignL_closureFree]; exact hc), Fin.assignL_ids, Fin.assignL_panics]

/-- What the `closureFree` hypothesis excludes (before fix 694a874: `detachOn`,
    `ThrowOnContextCancel`; today no modelled set-up): a teardown written as
    `func() { sub.Unsubscribe(); release() }` skips `release` (here: 90) when a teardown below `sub`
    (here: 1) panics. -/
theorem closure_skips_witness :
    (unsubscribe [.closure [.sub [.sub [.leaf 1 (some (.user 5))]], .leaf 90 none]]).1 = [1] ∧
    (unsubscribe [.sub [.sub [.sub [.leaf 1 (some (.user 5))]], .leaf 90 none]]).1 = [1, 90] := by
  constructor <;> rfl

/-- … whereas `func() { defer release(); sub.Unsubscribe() }` (fix 694a874) runs it, and the
    panic still reaches the caller, wrapped once more by the enclosing loop -/
theorem deferred_runs_release :
    normalize (unsubscribe [.deferred (.sub [.sub [.leaf 1 (some (.user 5))]]) [90]]) = ([1, 90], some [.user 5]) := by
  decide

/-- the single loop of subscription.go:133-149 over user teardowns: every one runs, in order; the
    panics are wrapped one by one, joined, and raised after the loop -/
theorem unsubscribe_flat (l : List (Nat × Option Err)) :
    unsubscribe (l.map (fun p => Fin.leaf p.1 p.2)) =
      (l.map (·.1),
       if (l.filterMap (·.2)).isEmpty then none
       else some (.join (l.filterMap (fun p => p.2.map (fun e => TErr.un (.val e)))))) := by
  have h : Fin.loop (l.map (fun p => Fin.leaf p.1 p.2)) =
      (l.map (·.1), l.filterMap (fun p => p.2.map (fun e => TErr.un (.val e)))) := by
    induction l with
    | nil => rfl
    | cons p ps ih =>
      simp only [List.map_cons, Fin.loop, ih, Fin.run]
      cases hp : p.2 <;> simp [hp]
  have hE : (l.filterMap (fun p => p.2.map (fun e => TErr.un (.val e)))).isEmpty = (l.filterMap (·.2)).isEmpty := by
    clear h
    induction l with
    | nil => rfl
    | cons p ps ih => cases hp : p.2 <;> simp [hp, ih]
  simp only [unsubscribe, Fin.run, h, hE]

end Ro

/-
  RoProofs.RateLimitTime — the arithmetic corollary used by the real-time check, proved for the
  logical model: whatever the alignment `o` of the window grid, a span of length `L` meets at most
  ⌊L/w⌋ + 2 windows, hence at most n · (⌊L/w⌋ + 2) items of one key pass in it.
-/
import RoProofs.RateLimit
namespace Ro.RateLimit
open Ro

variable {κ α β : Type}

theorem add_div_le (x L w : Nat) (hw : 0 < w) : (x + L) / w ≤ x / w + L / w + 1 := by
  have hx := Nat.div_add_mod x w
  have hL := Nat.div_add_mod L w
  have mx := Nat.mod_lt x hw
  have mL := Nat.mod_lt L hw
  have : (x + L) / w < x / w + L / w + 2 := by
    rw [Nat.div_lt_iff_lt_mul hw]
    have e : (x / w + L / w + 2) * w = w * (x / w) + w * (L / w) + 2 * w := by
      rw [Nat.add_mul, Nat.add_mul, Nat.mul_comm (x / w), Nat.mul_comm (L / w)]
    rw [e]
    omega
  omega

/-- **a span of length `L` meets at most ⌊L/w⌋ + 2 windows, whatever the alignment**: the window
    numbers of the two ends of the span differ by at most ⌊L/w⌋ + 1 -/
theorem span_windows (w o a L : Nat) (hw : 0 < w) : widx w o (a + L) + 1 ≤ widx w o a + (L / w + 2) := by
  unfold widx
  have := add_div_le (a + o) L w hw
  have e : a + L + o = a + o + L := by omega
  rw [e]
  omega

theorem widx_mono (w o : Nat) {s t : Nat} (h : s ≤ t) : widx w o s ≤ widx w o t :=
  Nat.div_le_div_right (by omega)

/-- counting by fibres: if every value of `f` is taken at most `n` times and `f` ranges over
    `m` consecutive numbers, the list has at most `n·m` elements -/
theorem length_le_of_fibers (f : β → Nat) (n : Nat) :
    ∀ (m lo : Nat) (l : List β), (∀ x ∈ l, lo ≤ f x ∧ f x < lo + m) →
      (∀ j, (l.filter (fun x => f x = j)).length ≤ n) → l.length ≤ n * m := by
  intro m
  induction m with
  | zero =>
    intro lo l hr _
    cases l with
    | nil => simp
    | cons x xs => have := hr x (by simp); omega
  | succ m ih =>
    intro lo l hr hf
    have hsplit : l.length = (l.filter (fun x => f x = lo + m)).length + (l.filter (fun x => !decide (f x = lo + m))).length := by
      rw [← List.countP_eq_length_filter, ← List.countP_eq_length_filter]
      have := List.length_eq_countP_add_countP (fun x => decide (f x = lo + m)) (l := l)
      simpa using this
    have h1 := hf (lo + m)
    have h2 : (l.filter (fun x => !decide (f x = lo + m))).length ≤ n * m := by
      apply ih lo
      · intro x hx
        have hx' := List.mem_filter.mp hx
        have := hr x hx'.1
        have hne : f x ≠ lo + m := by simpa using hx'.2
        omega
      · intro j
        rw [List.filter_filter]
        have : (l.filter (fun x => decide (f x = j) && !decide (f x = lo + m))).length ≤ (l.filter (fun x => f x = j)).length := by
          rw [← List.countP_eq_length_filter, ← List.countP_eq_length_filter]
          apply List.countP_mono_left
          intro x _ hx
          simp only [Bool.and_eq_true] at hx
          exact hx.1
        exact Nat.le_trans this (hf j)
    rw [hsplit, Nat.mul_succ]
    omega

/-- in a `Consistent` group, window number `j'` contributes: nothing if it is already closed,
    what is left of the quota if it is the current one, at most `n` if it is still to come -/
theorem fiber_le (n w o : Nat) (g : List (GEv (Nat × α))) (c j : Nat) (hc : Consistent w o j g) (j' : Nat) :
    ((winRun n c g).filter (fun p => widx w o p.1 = j')).length ≤ (if j' < j then 0 else if j' = j then n - c else n) := by
  induction g generalizing c j with
  | nil => simp [winRun]
  | cons e r ih =>
    cases e with
    | item p =>
      obtain ⟨hp, hr⟩ := hc
      have := ih (c + 1) j hr
      simp only [winRun, winStep, List.filter_append, List.length_append]
      have hd : ((if c < n then [p] else []).filter (fun p => decide (widx w o p.1 = j'))).length
          = if c < n ∧ j = j' then 1 else 0 := by
        by_cases hlt : c < n <;> by_cases hj : j = j' <;> simp [hlt, hj, hp]
      rw [hd]
      split at this <;> split <;> (try split) <;> (try split at this) <;> omega
    | tick =>
      have := ih 0 (j + 1) hc
      simp only [winRun, winStep, List.nil_append]
      split at this <;> split <;> (try split) <;> (try split at this) <;> omega

/-- never more than `n` items of one window number pass -/
theorem fiber_le_n (n w o : Nat) (g : List (GEv (Nat × α))) (c j : Nat) (hc : Consistent w o j g) (j' : Nat) :
    ((winRun n c g).filter (fun p => widx w o p.1 = j')).length ≤ n := by
  have := fiber_le n w o g c j hc j'
  split at this <;> (try split at this) <;> omega

/-- **the arithmetic corollary, one group**: in every span [a, a+L] at most n·(⌊L/w⌋+2) items pass,
    for every quota, window length, alignment of the grid and placement of the span -/
theorem quota_span_group (n w o : Nat) (hw : 0 < w) (g : List (GEv (Nat × α))) (j : Nat) (hc : Consistent w o j g) (a L : Nat) :
    ((pipeline n g).filter (fun p => a ≤ p.1 && p.1 ≤ a + L)).length ≤ n * (L / w + 2) := by
  rw [← winRun_eq_pipeline]
  apply length_le_of_fibers (fun p : Nat × α => widx w o p.1) n (L / w + 2) (widx w o a)
  · intro x hx
    have hx' := (List.mem_filter.mp hx).2
    simp only [Bool.and_eq_true, decide_eq_true_eq] at hx'
    have h1 := widx_mono w o hx'.1
    have h2 := widx_mono w o hx'.2
    have h3 := span_windows w o a L hw
    omega
  · intro j'
    rw [List.filter_filter]
    have : ((winRun n 0 g).filter (fun p => decide (widx w o p.1 = j') && (decide (a ≤ p.1) && decide (p.1 ≤ a + L)))).length
        ≤ ((winRun n 0 g).filter (fun p => widx w o p.1 = j')).length := by
      rw [← List.countP_eq_length_filter, ← List.countP_eq_length_filter]
      apply List.countP_mono_left
      intro x _ hx
      simp only [Bool.and_eq_true] at hx
      exact hx.1
    exact Nat.le_trans this (fiber_le_n n w o g 0 j hc j')

/-- **the arithmetic corollary, the limiter**: timeline whose items carry their instants; if key
    `k`'s ticks are the crossings of a grid of period `w` (any alignment `o`, any starting
    window `j`), then in every span of length `L` at most n·(⌊L/w⌋+2) items of `k` pass -/
theorem quota_span [DecidableEq κ] (n w o : Nat) (hw : 0 < w) (tl : List (Ev κ (Nat × α))) (k : κ) (j : Nat)
    (hc : Consistent w o j (group k tl)) (a L : Nat) :
    ((((run n tl).filter (fun p => p.1 = k)).map (·.2)).filter (fun p => a ≤ p.1 && p.1 ≤ a + L)).length ≤ n * (L / w + 2) := by
  rw [run_perKey']
  exact quota_span_group n w o hw _ j hc a L

end Ro.RateLimit

/-
  RoProofs.Chain — C02 (b): which subscriber does a stage of a chain emit into, and is it a
  locking one whenever that stage can be fed from several goroutines?

  `observableImpl.SubscribeWithContext` wraps its destination with `NewSubscriberWithConcurrencyMode
  (destination, s.mode)`, and `newSubscriberImpl` returns a destination that already is a
  Subscriber *as is* (subscriber.go:117-121). A pass-through operator hands its own subscriber to
  its source. Hence the subscriber that stage k emits into was created by the most downstream
  operator of the run of pass-through operators directly below it in the pipe (directly
  downstream of k), or by k itself when the next stage is not a pass-through.
-/
import RoModel.FactPreds
namespace Ro.Facts

theorem emitMode_mem : ∀ (r : OpFact) (rest : List OpFact) (c : Ctor), emitMode (r :: rest) = some c →
    c = r.ctor ∨ ∃ q ∈ rest, q.passThrough = true ∧ c = q.ctor
  | r, [], c, h => by simp [emitMode] at h; exact Or.inl h.symm
  | r, r' :: rest, c, h => by
    simp only [emitMode] at h
    split at h
    · rename_i hp
      rcases emitMode_mem r' rest c h with h1 | ⟨q, hq, hqp, hqc⟩
      · exact Or.inr ⟨r', List.mem_cons_self .., hp, h1⟩
      · exact Or.inr ⟨q, List.mem_cons_of_mem _ hq, hqp, hqc⟩
    · simp at h; exact Or.inl h.symm

/-- **C02 (b)**: in any pipe whose stages all satisfy the strict row predicate, every stage that
    can be fed from several goroutines emits into a locking subscriber — whatever follows it. -/
theorem multiFeeder_emits_serialized (r : OpFact) (rest : List OpFact)
    (hr : c02RowStrict r = true) (hrest : ∀ q ∈ rest, c02RowStrict q = true)
    (hm : r.multiFeeder = true) :
    ∃ c, emitMode (r :: rest) = some c ∧ serializedMode c = true := by
  have hex : ∀ (r : OpFact) (rest : List OpFact), ∃ c, emitMode (r :: rest) = some c := by
    intro r rest
    induction rest generalizing r with
    | nil => exact ⟨_, rfl⟩
    | cons r' rest ih =>
      simp only [emitMode]
      split
      · exact ih r'
      · exact ⟨_, rfl⟩
  have hex := hex r rest
  obtain ⟨c, hc⟩ := hex
  refine ⟨c, hc, ?_⟩
  rcases emitMode_mem r rest c hc with h | ⟨q, hq, hqp, hqc⟩
  · subst h
    simp only [c02RowStrict, Bool.and_eq_true, Bool.or_eq_true, Bool.not_eq_true'] at hr
    rcases hr.1.2 with h | h
    · simp [hm] at h
    · simpa [serializedMode, OpFact.serialized] using h
  · subst hqc
    have := hrest q hq
    simp only [c02RowStrict, Bool.and_eq_true, Bool.or_eq_true, Bool.not_eq_true'] at this
    rcases this.2 with h | h
    · simp [hqp] at h
    · simpa [serializedMode, OpFact.serialized] using h

/-- the `_partial` form for the pinned tree: rows satisfy `c02RowOk`; chains that avoid the listed
    unsafe pass-through operators are covered -/
theorem c02RowOk_strict_of_not_known (r : OpFact) (h : c02RowOk r = true)
    (hk : knownUnsafePassThrough.contains r.name = false) : c02RowStrict r = true := by
  simp only [c02RowOk, c02RowStrict, Bool.and_eq_true, Bool.or_eq_true, Bool.not_eq_true'] at *
  refine ⟨⟨h.1.1, h.1.2⟩, ?_⟩
  rcases h.2 with h2 | h2
  · rcases h2 with h3 | h3
    · exact Or.inl h3
    · exact Or.inr h3
  · have : knownUnsafePassThrough.contains r.name = true := by simpa using h2
    rw [hk] at this; exact absurd this (by decide)

theorem multiFeeder_emits_serialized_partial (r : OpFact) (rest : List OpFact)
    (hr : c02RowOk r = true) (hrest : ∀ q ∈ rest, c02RowOk q = true)
    (hkr : knownUnsafePassThrough.contains r.name = false)
    (hkrest : ∀ q ∈ rest, knownUnsafePassThrough.contains q.name = false)
    (hm : r.multiFeeder = true) :
    ∃ c, emitMode (r :: rest) = some c ∧ serializedMode c = true :=
  multiFeeder_emits_serialized r rest (c02RowOk_strict_of_not_known r hr hkr)
    (fun q hq => c02RowOk_strict_of_not_known q (hrest q hq) (hkrest q hq)) hm

end Ro.Facts

/-
  RoProofs.Gate — lemmas about the sequential gate and the generic `runOp` theorem:
  what reaches the final observer is the downstream gate applied to the machine's emissions
  over the upstream-gated script, whatever the source mode.
-/
import RoModel.Machine
namespace Ro
variable {σ α β : Type}

def hasTerm (l : List (Notif α)) : Bool := l.any Notif.isTerminal

@[simp] theorem hasTerm_nil : hasTerm ([] : List (Notif α)) = false := rfl
@[simp] theorem hasTerm_cons (x : Notif α) (l) : hasTerm (x :: l) = (x.isTerminal || hasTerm l) := by
  simp [hasTerm]
@[simp] theorem hasTerm_append (a b : List (Notif α)) : hasTerm (a ++ b) = (hasTerm a || hasTerm b) := by
  simp [hasTerm]

@[simp] theorem gate_nil : gate ([] : List (Notif α)) = [] := rfl
theorem gate_cons_next (c : Ctx) (v : α) (l) : gate (Notif.next c v :: l) = Notif.next c v :: gate l := by
  simp [gate]
theorem gate_cons_error (c : Ctx) (e : Err) (l : List (Notif α)) : gate (Notif.error c e :: l) = [Notif.error c e] := by
  simp [gate]
theorem gate_cons_complete (c : Ctx) (l : List (Notif α)) : gate (Notif.complete c :: l) = [Notif.complete c] := by
  simp [gate]

theorem gate_append_of_term (a l : List (Notif α)) (h : hasTerm a = true) : gate (a ++ l) = gate a := by
  induction a with
  | nil => simp at h
  | cons x xs ih =>
    simp only [List.cons_append, gate]
    cases hx : x.isTerminal
    · simp only [hasTerm_cons, hx, Bool.false_or] at h
      simp [ih h]
    · simp

theorem gate_append_of_noTerm (a l : List (Notif α)) (h : hasTerm a = false) : gate (a ++ l) = a ++ gate l := by
  induction a with
  | nil => simp
  | cons x xs ih =>
    simp only [hasTerm_cons, Bool.or_eq_false_iff] at h
    simp [gate, h.1, ih h.2]

theorem gate_of_noTerm (a : List (Notif α)) (h : hasTerm a = false) : gate a = a := by
  have := gate_append_of_noTerm a [] h
  simpa using this

theorem gate_idem (l : List (Notif α)) : gate (gate l) = gate l := by
  induction l with
  | nil => rfl
  | cons x xs ih =>
    simp only [gate]
    cases hx : x.isTerminal
    · simp [gate, hx, ih]
    · simp [gate, hx]

/-- C01, sequential core: whatever the producer does, what passes the gate obeys the grammar. -/
theorem gate_grammar (l : List (Notif α)) : Grammar (gate l) := by
  induction l with
  | nil => trivial
  | cons x xs ih =>
    simp only [gate]
    cases hx : x.isTerminal
    · simp [Grammar, hx, ih]
    · simp [Grammar, hx]

/-- nothing is invented and nothing is lost: delivered ++ dropped is the raw script -/
theorem gate_partition (l : List (Notif α)) : gate l ++ gateDropped l = l := by
  induction l with
  | nil => rfl
  | cons x xs ih =>
    simp only [gate, gateDropped]
    cases hx : x.isTerminal
    · simp [ih]
    · simp

theorem gate_eq_values_ending (l : List (Notif α)) :
    gate l = (values l).map (fun p => Notif.next p.1 p.2) ++ (ending l).toList := by
  induction l with
  | nil => rfl
  | cons x xs ih =>
    cases x with
    | next c v => simp [gate, values, ending, ih]
    | error c e => simp [gate, values, ending, Ending.toList]
    | complete c => simp [gate, values, ending, Ending.toList]

theorem hasTerm_gate (l : List (Notif α)) : hasTerm (gate l) = hasTerm l := by
  induction l with
  | nil => rfl
  | cons x xs ih =>
    simp only [gate]
    cases hx : x.isTerminal
    · simp [hx, ih]
    · simp [hx]

/-! ### the run state -/

/-- Ghost relation: `acc` is everything pushed so far. -/
structure Tracks (r : RunSt σ α β) (acc : List (Notif β)) : Prop where
  out : r.out = gate acc
  open_ : r.downOpen = !hasTerm acc

theorem Tracks.push {r : RunSt σ α β} {acc} (h : Tracks r acc) (n : Notif β) :
    Tracks (r.push n) (acc ++ [n]) := by
  unfold RunSt.push
  cases hd : r.downOpen
  · have ht : hasTerm acc = true := by simpa [hd] using h.open_
    constructor
    · simp [gate_append_of_term _ _ ht, h.out]
    · simp [ht]
  · have ht : hasTerm acc = false := by simpa [hd] using h.open_
    constructor
    · simp only [if_true, h.out, gate_append_of_noTerm _ _ ht, gate_of_noTerm _ ht]
      cases hn : n.isTerminal <;> simp [gate, hn]
    · simp [ht]

theorem Tracks.pushAll {r : RunSt σ α β} {acc} (h : Tracks r acc) (ns : List (Notif β)) :
    Tracks (r.pushAll ns) (acc ++ ns) := by
  induction ns generalizing r acc with
  | nil => simpa [RunSt.pushAll] using h
  | cons n ns ih =>
    have := ih (h.push n)
    simpa [RunSt.pushAll, List.append_assoc] using this

@[simp] theorem push_st (r : RunSt σ α β) (n) : (r.push n).st = r.st := by
  unfold RunSt.push; split <;> rfl
@[simp] theorem push_upOpen (r : RunSt σ α β) (n) : (r.push n).upOpen = r.upOpen := by
  unfold RunSt.push; split <;> rfl
@[simp] theorem pushAll_st (r : RunSt σ α β) (ns) : (r.pushAll ns).st = r.st := by
  induction ns generalizing r with
  | nil => rfl
  | cons n ns ih => simp [RunSt.pushAll, List.foldl] at *; rw [ih]; simp
@[simp] theorem pushAll_upOpen (r : RunSt σ α β) (ns) : (r.pushAll ns).upOpen = r.upOpen := by
  induction ns generalizing r with
  | nil => rfl
  | cons n ns ih => simp [RunSt.pushAll, List.foldl] at *; rw [ih]; simp

theorem feed_closed_out (m : Machine σ α β) (mode) (r : RunSt σ α β) (x) (h : r.upOpen = false) :
    (r.feed m mode x).out = r.out ∧ (r.feed m mode x).upOpen = false := by
  simp [RunSt.feed, h]

theorem fold_closed_out (m : Machine σ α β) (mode) (raw : List (Notif α)) (r : RunSt σ α β)
    (h : r.upOpen = false) : (raw.foldl (RunSt.feed m mode) r).out = r.out := by
  induction raw generalizing r with
  | nil => rfl
  | cons x xs ih =>
    have := feed_closed_out m mode r x h
    simp only [List.foldl]
    rw [ih _ this.2, this.1]

/-- The generic theorem: from any tracked state with the upstream gate open, folding a raw
    script delivers the downstream gate of (everything pushed so far ++ the machine's emissions
    over the upstream-gated script). -/
theorem fold_out (m : Machine σ α β) (mode) (raw : List (Notif α)) (r : RunSt σ α β) (acc)
    (ht : Tracks r acc) (hu : r.upOpen = true) :
    (raw.foldl (RunSt.feed m mode) r).out = gate (acc ++ m.emits r.st (gate raw)) := by
  induction raw generalizing r acc with
  | nil => simp [Machine.emits, ht.out]
  | cons x xs ih =>
    simp only [List.foldl]
    -- the state after feeding x
    have hstep : Tracks (({ r with st := (m.step r.st x).1 } : RunSt σ α β).pushAll (m.step r.st x).2)
        (acc ++ (m.step r.st x).2) :=
      Tracks.pushAll (r := { r with st := (m.step r.st x).1 }) ⟨ht.out, ht.open_⟩ _
    have hfeed : r.feed m mode x =
        (({ r with st := (m.step r.st x).1 } : RunSt σ α β).pushAll (m.step r.st x).2).settle mode x.isTerminal r.out.length := by
      simp only [RunSt.feed, hu, if_true]
    rw [hfeed]
    generalize hr1 : (({ r with st := (m.step r.st x).1 } : RunSt σ α β).pushAll (m.step r.st x).2) = r1 at hstep
    have hst1 : r1.st = (m.step r.st x).1 := by rw [← hr1]; simp
    simp only [RunSt.settle]
    cases hx : x.isTerminal
    · -- x is a value
      have hg : gate (x :: xs) = x :: gate xs := by simp [gate, hx]
      rw [hg]
      simp only [Machine.emits]
      cases hclose : (mode == SrcMode.hot && !r1.downOpen)
      · -- upstream stays open
        have := ih (r := { r1 with upOpen := !(false || false), steps := r1.steps ++ [r1.out.length - r.out.length] })
          (acc := acc ++ (m.step r.st x).2) ⟨hstep.out, hstep.open_⟩ (by simp)
        simp only [Bool.false_or] at this ⊢
        rw [this]
        simp [hst1, List.append_assoc]
      · -- downstream closed and the hot source was unsubscribed
        have hd : r1.downOpen = false := by
          simp only [Bool.and_eq_true, Bool.not_eq_true'] at hclose; exact hclose.2
        have hterm : hasTerm (acc ++ (m.step r.st x).2) = true := by
          have h2 := hstep.open_; rw [hd] at h2
          cases h : hasTerm (acc ++ (m.step r.st x).2)
          · rw [h] at h2; exact absurd h2 (by decide)
          · rfl
        rw [fold_closed_out _ _ _ _ (by simp)]
        simp only
        rw [hstep.out, ← List.append_assoc, gate_append_of_term _ _ hterm]
    · -- x is the source's own terminal
      have hg : gate (x :: xs) = [x] := by simp [gate, hx]
      rw [hg, fold_closed_out _ _ _ _ (by simp)]
      simp [Machine.emits, hstep.out]

theorem start_tracks (m : Machine σ α β) (sub : Ctx) :
    Tracks (m.start sub) (m.onSubscribe m.init sub).2 := by
  unfold Machine.start
  have : Tracks ({ st := (m.onSubscribe m.init sub).1 } : RunSt σ α β) [] := ⟨rfl, rfl⟩
  simpa using this.pushAll (m.onSubscribe m.init sub).2

@[simp] theorem start_st (m : Machine σ α β) (sub : Ctx) : (m.start sub).st = (m.onSubscribe m.init sub).1 := by
  simp [Machine.start]
@[simp] theorem start_upOpen (m : Machine σ α β) (sub : Ctx) : (m.start sub).upOpen = true := by
  simp [Machine.start]

/-- **Main run theorem.** What the final observer receives from `source |> op` is the gate of
    the subscribe-time emissions followed by the machine's emissions on the gated source
    script — for every raw script and both source modes. -/
theorem runOp_out (m : Machine σ α β) (mode : SrcMode) (sub : Ctx) (raw : List (Notif α))
    (hs : m.subscribes = true) :
    (runOp m mode sub raw).out =
      gate ((m.onSubscribe m.init sub).2 ++ m.emits (m.onSubscribe m.init sub).1 (gate raw)) := by
  unfold runOp
  simp only [hs, if_true]
  unfold RunSt.afterSubscribe
  split
  · -- a hot source unsubscribed right after Subscribe: nothing more can be delivered
    rename_i hc
    have hd : (m.start sub).downOpen = false := by
      simp only [Bool.and_eq_true, Bool.not_eq_true'] at hc; exact hc.2
    have ht := start_tracks m sub
    have hterm : hasTerm (m.onSubscribe m.init sub).2 = true := by
      have h2 := ht.open_; rw [hd] at h2
      cases h : hasTerm (m.onSubscribe m.init sub).2
      · rw [h] at h2; exact absurd h2 (by decide)
      · rfl
    rw [fold_closed_out _ _ _ _ (by simp), gate_append_of_term _ _ hterm]
    exact ht.out
  · have := fold_out m mode raw (m.start sub) _ (start_tracks m sub) (start_upOpen m sub)
    simpa using this

theorem runOp_out_nosub (m : Machine σ α β) (mode : SrcMode) (sub : Ctx) (raw : List (Notif α))
    (hs : m.subscribes = false) :
    (runOp m mode sub raw).out = gate (m.onSubscribe m.init sub).2 := by
  unfold runOp
  simp only [hs]
  exact (start_tracks m sub).out

/-- C01 for every operator machine, every raw script, both source modes. -/
theorem runOp_grammar (m : Machine σ α β) (mode : SrcMode) (sub : Ctx) (raw : List (Notif α)) :
    Grammar (runOp m mode sub raw).out := by
  cases hs : m.subscribes
  · rw [runOp_out_nosub m mode sub raw hs]; exact gate_grammar _
  · rw [runOp_out m mode sub raw hs]; exact gate_grammar _

end Ro

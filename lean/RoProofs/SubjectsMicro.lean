/-
  RoProofs.SubjectsMicro — the micro-step reading of the multicast subjects' operations
  (`Kind.micro`: pre-part, one visit per registered subscriber and loop, post-part) agrees with the
  atomic step when nothing runs in between.
-/
import RoProofs.Subjects
namespace Ro.Subj
open Ro

variable {α : Type}

theorem foldl_apply_map {β : Type} (l : List β) (g : β → State α → State α) (s : State α) :
    (l.map g).foldl (fun s f => f s) s = l.foldl (fun s b => g b s) s := by
  induction l generalizing s with
  | nil => rfl
  | cons b l ih => simp [ih]

theorem subNext_observers (s : State α) (i : Nat) (c : Ctx) (v : α) : (subNext s i c v).observers = s.observers := by
  unfold subNext; split <;> rfl

theorem foldl_subNext_observers (c : Ctx) (v : α) : ∀ (l : List Nat) (s : State α),
    (l.foldl (fun s i => subNext s i c v) s).observers = s.observers
  | [], _ => rfl
  | i :: l, s => by rw [List.foldl_cons, foldl_subNext_observers c v l, subNext_observers]

theorem broadcastNext_observers (s : State α) (c : Ctx) (v : α) : (broadcastNext s c v).observers = s.observers :=
  foldl_subNext_observers c v _ s

/-- flushing the stored values with the observer list taken once (micro) or re-read per value (Go) -/
theorem flush_snapshot (obs : List Nat) : ∀ (vs : List (Ctx × α)) (s : State α), s.observers = obs →
    ((vs.map (fun p => obs.map (fun i (s' : State α) => visitNext s' i p.1 p.2))).flatten).foldl (fun s f => f s) s
      = vs.foldl (fun s p => broadcastNext s p.1 p.2) s ∧
    (vs.foldl (fun s p => broadcastNext s p.1 p.2) s).observers = obs
  | [], s, h => ⟨rfl, h⟩
  | p :: vs, s, h => by
    have hb : (broadcastNext s p.1 p.2).observers = obs := by rw [broadcastNext_observers, h]
    have ih := flush_snapshot obs vs (broadcastNext s p.1 p.2) hb
    simp only [List.map_cons, List.flatten_cons, List.foldl_append, List.foldl_cons]
    rw [foldl_apply_map]
    have : obs.foldl (fun s b => visitNext s b p.1 p.2) s = broadcastNext s p.1 p.2 := by
      unfold broadcastNext visitNext; rw [h]
    rw [this]
    exact ih

/-- **micro-steps run without interruption = the atomic step** (every multicast kind, operation, state) -/
theorem micro_agrees (k : Kind α) (s : State α) (o : Op α) (m : Micro α) (h : k.micro s o = some m) :
    m.run = k.step s o := by
  unfold Kind.micro at h
  cases hs : s.status with
  | errored ec e => rw [hs] at h; cases h
  | completed => rw [hs] at h; cases h
  | active =>
    rw [hs] at h
    cases k with
    | unicast cap => cases h
    | publish =>
      cases o with
      | next c v =>
        cases h
        simp only [Micro.run, nextVisits, foldl_apply_map, Kind.step, publishStep, hs]; rfl
      | error c e =>
        cases h
        simp only [Micro.run, termVisits, foldl_apply_map, Kind.step, publishStep, hs]; rfl
      | complete c =>
        cases h
        simp only [Micro.run, termVisits, foldl_apply_map, Kind.step, publishStep, hs]; rfl
      | subscribe i c => cases h
      | unsubscribe i => cases h
    | behavior init =>
      cases o with
      | next c v =>
        cases h
        simp only [Micro.run, nextVisits, foldl_apply_map, Kind.step, behaviorStep, hs]; rfl
      | error c e =>
        cases h
        simp only [Micro.run, termVisits, foldl_apply_map, Kind.step, behaviorStep, hs]; rfl
      | complete c =>
        cases h
        simp only [Micro.run, termVisits, foldl_apply_map, Kind.step, behaviorStep, hs]; rfl
      | subscribe i c => cases h
      | unsubscribe i => cases h
    | replay cap =>
      cases o with
      | next c v =>
        cases h
        simp only [Micro.run, nextVisits, foldl_apply_map, Kind.step, replayStep, hs]; rfl
      | error c e =>
        cases h
        simp only [Micro.run, termVisits, foldl_apply_map, Kind.step, replayStep, hs]; rfl
      | complete c =>
        cases h
        simp only [Micro.run, termVisits, foldl_apply_map, Kind.step, replayStep, hs]; rfl
      | subscribe i c => cases h
      | unsubscribe i => cases h
    | async =>
      cases o with
      | next c v => cases h
      | error c e =>
        cases h
        simp only [Micro.run, termVisits, foldl_apply_map, Kind.step, asyncStep, hs]; rfl
      | complete c =>
        cases h
        simp only [Micro.run, Kind.step, asyncStep, hs, List.foldl_append, termVisits, nextVisits]
        have hf := flush_snapshot s.observers s.values { s with status := .completed } rfl
        rw [hf.1, foldl_apply_map]
        unfold broadcastTerminal
        rw [hf.2]
      | subscribe i c => cases h
      | unsubscribe i => cases h

end Ro.Subj

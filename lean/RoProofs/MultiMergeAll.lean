/-
  RoProofs.MultiMergeAll — MergeAll / MergeMap* with a hot outer source: inner sources are subscribed when
  the outer value that names them arrives, at any point of the arrival order. For every arrival order
  the output is `Spec.mergeAll` of the events that are heard (`Spec.heard`).
-/
import RoProofs.MultiCore
namespace Ro.Multi
open Ro

variable {α : Type}

/-- every heard value of the outer source names a source that is not being listened to yet
    (an observable subscribed twice is outside the probe model) -/
def freshNames (proj : Ctx → α → Nat → Ctx × Nat) : (Nat → Bool) → (Nat → Bool) → Nat → List (MEvent α) → Bool
  | _, _, _, [] => true
  | L, cl, i, (k, n) :: es =>
    if !L k || cl k then freshNames proj L cl i es
    else
      let cl' := if n.isTerminal then setAt cl k true else cl
      match k, n with
      | 0, .next c v => !L (proj c v i).2 && freshNames proj (setAt L (proj c v i).2 true) cl' (i + 1) es
      | _, _ => freshNames proj L cl' i es

/-- the state after an outer value has named (hot) source `j`: counted, subscribed with context `c'`, collected -/
def subscribed (r : MSt MergeSt α α) (j : Nat) (c' : Ctx) : MSt MergeSt α α :=
  { r with
    st := { r.st with count := r.st.count + 1, comp := { r.st.comp with members := r.st.comp.members ++ [j] }, i := r.st.i + 1 }
    subs := setAt r.subs j (r.subs j + 1)
    sopen := setAt r.sopen j true
    sctx := setAt r.sctx j c' }

theorem phases_onDone (m : MMachine MergeSt α α) (cfg : Sources α) (rec) (r : MSt MergeSt α α) (f : MergeSt → MergeSt)
    (hf : ∀ s, (f s).count = s.count) :
    phases m cfg rec [fun s => (f s).onDone] r =
      if r.st.count - 1 = 0 then MSt.emit m { r with st := { f r.st with count := r.st.count - 1 } } (.complete (f r.st).parentCtx)
      else { r with st := { f r.st with count := r.st.count - 1 } } := by
  simp only [phases, phase, List.foldl_cons, List.foldl_nil, MergeSt.onDone, hf]
  split <;> simp [act]

section reacts
variable (proj : Ctx → α → Nat → Ctx × Nat)

theorem ma_react_outer_next (c : Ctx) (v : α) : (mergeAllM proj).react 0 (.next c v) = [
    fun s => ({ s with count := s.count + 1 }, [.sub (proj c v s.i).2 (proj c v s.i).1]),
    fun s => ({ s with comp := (s.comp.add (β := α) (proj c v s.i).2).1, i := s.i + 1 }, (s.comp.add (proj c v s.i).2).2)] := rfl

theorem ma_react_error (k : Nat) (c : Ctx) (e : Err) :
    (mergeAllM proj).react k (.error c e) = [fun s => (s, [.emit (.error c e)])] := by
  by_cases hk : k = 0 <;> simp [mergeAllM, hk]

theorem ma_react_outer_complete (c : Ctx) :
    (mergeAllM proj).react 0 (.complete c) = [fun s => ({ s with parentCtx := c }.onDone)] := rfl

theorem ma_react_inner_next (k : Nat) (c : Ctx) (v : α) :
    (mergeAllM proj).react (k + 1) (.next c v) = [fun s => (s, [.emit (.next c v)])] := rfl

theorem ma_react_inner_complete (k : Nat) (c : Ctx) :
    (mergeAllM proj).react (k + 1) (.complete c) = [fun s => s.onDone] := rfl

end reacts

structure MAInv (L cl : Nat → Bool) (i live : Nat) (p : Ctx) (r : MSt MergeSt α α) : Prop where
  down : r.downOpen = true
  booted : r.booted = true
  count : r.st.count = Int.ofNat live
  live1 : 1 ≤ live
  idx : r.st.i = i
  pctx : r.st.parentCtx = p
  done : r.st.comp.done = false
  subs : ∀ k, r.subs k ≠ 0 ↔ L k = true
  sopen : ∀ k, L k = true → r.sopen k = !cl k
  clL : ∀ k, cl k = true → L k = true
  L0 : L 0 = true

theorem mergeAll_run (proj : Ctx → α → Nat → Ctx × Nat) (cfg : Sources α) (hhot : ∀ k, cfg.sync k = false)
    (evs : List (MEvent α)) (r : MSt MergeSt α α) (L cl : Nat → Bool) (i live : Nat) (p : Ctx)
    (h : MAInv L cl i live p r) (hf : freshNames proj L cl i evs = true) :
    (feedAll (mergeAllM proj) cfg r evs).out = r.out ++ Spec.mergeAll live p (Spec.heard proj L cl i evs) := by
  induction evs generalizing r L cl i live p with
  | nil => simp [feedAll, Spec.heard, Spec.mergeAll]
  | cons e es ih =>
    obtain ⟨k, n⟩ := e
    by_cases hL : L k = true
    · by_cases hc : cl k = true
      · -- refused by k's closed subscriber
        have hs : r.subs k ≠ 0 := (h.subs k).2 hL
        have ho : r.sopen k = false := by rw [h.sopen k hL]; simp [hc]
        have hfeed : feed (mergeAllM proj) cfg r (k, n) = { r with drops := r.drops ++ [.up k n] } := by
          simp [feed, hs, deliver, ho]
        have hf' : freshNames proj L cl i es = true := by simpa [freshNames, hL, hc] using hf
        have := ih ({ r with drops := r.drops ++ [.up k n] }) L cl i live p
          ⟨h.down, h.booted, h.count, h.live1, h.idx, h.pctx, h.done, h.subs, h.sopen, h.clL, h.L0⟩ hf'
        simp only [feedAll, List.foldl_cons, hfeed] at this ⊢
        rw [this]; simp [Spec.heard, hL, hc]
      · have hc' : cl k = false := by simpa using hc
        have hs : r.subs k ≠ 0 := (h.subs k).2 hL
        have ho : r.sopen k = true := by rw [h.sopen k hL]; simp [hc']
        have hfeed0 : feed (mergeAllM proj) cfg r (k, n) =
            phases (mergeAllM proj) cfg (phasesAt (mergeAllM proj) cfg cfg.n) ((mergeAllM proj).react k n)
              (if n.isTerminal then r.closeSrc k else r) := by
          simp [feed, hs, deliver, ho, phasesAt_depth]
        cases n with
        | next c v =>
          cases k with
          | zero =>
            -- the outer names a new inner source: subscribe it
            have hfr : L (proj c v i).2 = false ∧ freshNames proj (setAt L (proj c v i).2 true) cl (i + 1) es = true := by
              simpa [freshNames, hL, hc'] using hf
            have hheard : Spec.heard proj L cl i ((0, Notif.next c v) :: es) =
                (0, Notif.next c v) :: Spec.heard proj (setAt L (proj c v i).2 true) cl (i + 1) es := by
              simp [Spec.heard, hL, hc']
            have hj0 : (proj c v i).2 ≠ 0 := by
              intro h0; rw [h0, h.L0] at hfr; simp at hfr
            have hfeed : feed (mergeAllM proj) cfg r (0, Notif.next c v) =
                (subscribed r (proj c v i).2 (proj c v i).1) := by
              rw [hfeed0, ma_react_outer_next]
              simp [phases, phase, act, hhot, Comp.add, h.done, h.idx, subscribed]
            have := ih (subscribed r (proj c v i).2 (proj c v i).1) (setAt L (proj c v i).2 true) cl (i + 1) (live + 1) p
              ⟨h.down, h.booted, by simp [subscribed, h.count], by omega, by simp [subscribed, h.idx], h.pctx, h.done,
                by
                  intro j
                  by_cases hj : j = (proj c v i).2
                  · subst hj; simp [subscribed]
                  · simp only [subscribed, setAt, hj, if_false]; exact h.subs j,
                by
                  intro j hjL
                  by_cases hj : j = (proj c v i).2
                  · subst hj
                    have : cl (proj c v i).2 = false := by
                      cases hcl : cl (proj c v i).2 with
                      | false => rfl
                      | true => have := h.clL _ hcl; rw [hfr.1] at this; simp at this
                    simp [subscribed, this]
                  · simp only [subscribed, setAt, hj, if_false] at hjL ⊢; exact h.sopen j hjL,
                by
                  intro j hjc
                  have := h.clL j hjc
                  simp only [setAt]; split
                  · rfl
                  · exact this,
                by simp only [setAt]; split <;> simp [h.L0]⟩ hfr.2
            simp only [feedAll, List.foldl_cons, hfeed] at this ⊢
            rw [this, hheard]; simp [Spec.mergeAll, subscribed]
          | succ k =>
            have hheard : Spec.heard proj L cl i ((k + 1, Notif.next c v) :: es) =
                (k + 1, Notif.next c v) :: Spec.heard proj L cl i es := by
              simp [Spec.heard, hL, hc']
            have hfeed : feed (mergeAllM proj) cfg r (k + 1, Notif.next c v) = { r with out := r.out ++ [.next c v] } := by
              rw [hfeed0, ma_react_inner_next, phases_emit1]
              simp only [Notif.isTerminal_next, Bool.false_eq_true, if_false]
              exact emit_open_next _ r _ h.down rfl
            have hf' : freshNames proj L cl i es = true := by simpa [freshNames, hL, hc'] using hf
            have := ih ({ r with out := r.out ++ [.next c v] }) L cl i live p
              ⟨h.down, h.booted, h.count, h.live1, h.idx, h.pctx, h.done, h.subs, h.sopen, h.clL, h.L0⟩ hf'
            simp only [feedAll, List.foldl_cons, hfeed] at this ⊢
            rw [this, hheard]; simp [Spec.mergeAll]
        | error c e =>
          -- any error is forwarded and ends the output
          have hheard : Spec.mergeAll live p (Spec.heard proj L cl i ((k, Notif.error c e) :: es)) = [.error c e] := by
            cases k <;> simp [Spec.heard, hL, hc', Spec.mergeAll]
          have hfeed : feed (mergeAllM proj) cfg r (k, Notif.error c e) =
              MSt.emit (mergeAllM proj) (r.closeSrc k) (.error c e) := by
            rw [hfeed0, ma_react_error, phases_emit1]
            simp
          have he := emit_open_term (mergeAllM proj) (r.closeSrc k) (.error c e) h.down rfl h.booted
          have hfz := feedAll_frozen (mergeAllM proj) cfg es (feed (mergeAllM proj) cfg r (k, Notif.error c e))
            (by rw [hfeed, he]; simp)
          simp only [feedAll, List.foldl_cons] at hfz ⊢
          rw [hfz.2, hfeed, he, hheard]; simp
        | complete c =>
          have hcount : r.st.count - 1 = 0 ↔ live = 1 := by rw [h.count]; simp; omega
          cases k with
          | zero =>
            have hheard : Spec.heard proj L cl i ((0, Notif.complete c) :: es) =
                (0, Notif.complete c) :: Spec.heard proj L (setAt cl 0 true) i es := by
              simp [Spec.heard, hL, hc']
            have hf' : freshNames proj L (setAt cl 0 true) i es = true := by simpa [freshNames, hL, hc'] using hf
            by_cases hl : live = 1
            · have hz : r.st.count - 1 = 0 := hcount.2 hl
              have hfeed : feed (mergeAllM proj) cfg r (0, Notif.complete c) =
                  MSt.emit (mergeAllM proj) { (r.closeSrc 0) with st := { r.st with parentCtx := c, count := r.st.count - 1 } } (.complete c) := by
                rw [hfeed0, ma_react_outer_complete, phases_onDone _ _ _ _ (fun s => { s with parentCtx := c }) (fun _ => rfl)]
                simp [hz]
              have he := emit_open_term (mergeAllM proj) { (r.closeSrc 0) with st := { r.st with parentCtx := c, count := r.st.count - 1 } }
                (.complete c) h.down rfl h.booted
              have hfz := feedAll_frozen (mergeAllM proj) cfg es (feed (mergeAllM proj) cfg r (0, Notif.complete c))
                (by rw [hfeed, he]; simp)
              simp only [feedAll, List.foldl_cons] at hfz ⊢
              rw [hfz.2, hfeed, he, hheard]; simp [Spec.mergeAll, hl]
            · have hz : ¬ (r.st.count - 1 = 0) := fun hh => hl (hcount.1 hh)
              have hfeed : feed (mergeAllM proj) cfg r (0, Notif.complete c) =
                  { (r.closeSrc 0) with st := { r.st with parentCtx := c, count := r.st.count - 1 } } := by
                rw [hfeed0, ma_react_outer_complete, phases_onDone _ _ _ _ (fun s => { s with parentCtx := c }) (fun _ => rfl)]
                simp [hz]
              have := ih ({ (r.closeSrc 0) with st := { r.st with parentCtx := c, count := r.st.count - 1 } }) L (setAt cl 0 true) i (live - 1) c
                ⟨h.down, h.booted, by have := h.live1; simp [h.count]; omega, by have := h.live1; omega, h.idx, rfl, h.done, h.subs,
                  by
                    intro j hjL
                    simp only [closeSrc_sopen, setAt]
                    split
                    · simp
                    · exact h.sopen j hjL,
                  by
                    intro j hjc
                    simp only [setAt] at hjc
                    split at hjc
                    · rename_i hj; rw [hj]; exact h.L0
                    · exact h.clL j hjc,
                  h.L0⟩ hf'
              simp only [feedAll, List.foldl_cons, hfeed] at this ⊢
              rw [this, hheard]
              have hl2 : ¬ live ≤ 1 := by have := h.live1; omega
              simp [Spec.mergeAll, hl2]
          | succ k =>
            have hheard : Spec.heard proj L cl i ((k + 1, Notif.complete c) :: es) =
                (k + 1, Notif.complete c) :: Spec.heard proj L (setAt cl (k + 1) true) i es := by
              simp [Spec.heard, hL, hc']
            have hf' : freshNames proj L (setAt cl (k + 1) true) i es = true := by simpa [freshNames, hL, hc'] using hf
            by_cases hl : live = 1
            · have hz : r.st.count - 1 = 0 := hcount.2 hl
              have hfeed : feed (mergeAllM proj) cfg r (k + 1, Notif.complete c) =
                  MSt.emit (mergeAllM proj) { (r.closeSrc (k + 1)) with st := { r.st with count := r.st.count - 1 } } (.complete r.st.parentCtx) := by
                rw [hfeed0, ma_react_inner_complete, phases_onDone _ _ _ _ (fun s => s) (fun _ => rfl)]
                simp [hz]
              have he := emit_open_term (mergeAllM proj) { (r.closeSrc (k + 1)) with st := { r.st with count := r.st.count - 1 } }
                (.complete r.st.parentCtx) h.down rfl h.booted
              have hfz := feedAll_frozen (mergeAllM proj) cfg es (feed (mergeAllM proj) cfg r (k + 1, Notif.complete c))
                (by rw [hfeed, he]; simp)
              simp only [feedAll, List.foldl_cons] at hfz ⊢
              rw [hfz.2, hfeed, he, hheard]; simp [Spec.mergeAll, hl, h.pctx]
            · have hz : ¬ (r.st.count - 1 = 0) := fun hh => hl (hcount.1 hh)
              have hfeed : feed (mergeAllM proj) cfg r (k + 1, Notif.complete c) =
                  { (r.closeSrc (k + 1)) with st := { r.st with count := r.st.count - 1 } } := by
                rw [hfeed0, ma_react_inner_complete, phases_onDone _ _ _ _ (fun s => s) (fun _ => rfl)]
                simp [hz]
              have := ih ({ (r.closeSrc (k + 1)) with st := { r.st with count := r.st.count - 1 } }) L (setAt cl (k + 1) true) i (live - 1) p
                ⟨h.down, h.booted, by have := h.live1; simp [h.count]; omega, by have := h.live1; omega, h.idx, h.pctx, h.done, h.subs,
                  by
                    intro j hjL
                    simp only [closeSrc_sopen, setAt]
                    split
                    · simp
                    · exact h.sopen j hjL,
                  by
                    intro j hjc
                    simp only [setAt] at hjc
                    split at hjc
                    · rename_i hj; rw [hj]; exact hL
                    · exact h.clL j hjc,
                  h.L0⟩ hf'
              simp only [feedAll, List.foldl_cons, hfeed] at this ⊢
              rw [this, hheard]
              have hl2 : ¬ live ≤ 1 := by have := h.live1; omega
              simp [Spec.mergeAll, hl2]
    · -- a source nobody listens to (yet): its notification is lost
      have hL' : L k = false := by simpa using hL
      have h0 : r.subs k = 0 := Classical.byContradiction (fun hc => hL ((h.subs k).1 hc))
      have hfeed : feed (mergeAllM proj) cfg r (k, n) = r := by simp [feed, h0]
      have hf' : freshNames proj L cl i es = true := by simpa [freshNames, hL'] using hf
      have := ih r L cl i live p h hf'
      simp only [feedAll, List.foldl_cons, hfeed] at this ⊢
      rw [this]; simp [Spec.heard, hL']

theorem mergeAll_boot (proj : Ctx → α → Nat → Ctx × Nat) (cfg : Sources α) (hhot : ∀ k, cfg.sync k = false) (sub : Ctx) :
    MAInv (fun k => k == 0) (fun _ => false) 0 1 Ctx.nil (bootSt (mergeAllM proj) cfg sub) ∧
    (bootSt (mergeAllM proj) cfg sub).out = [] := by
  have hb : (mergeAllM proj).boot sub = [fun s => (s, [.sub 0 sub]),
      fun s => ({ s with comp := (s.comp.add (β := α) 0).1 }, (s.comp.add 0).2)] := rfl
  unfold bootSt
  simp only [phasesAt_depth, hb, phases, phase, act, hhot, Comp.add, List.foldl_cons, List.foldl_nil]
  simp [mergeAllM]
  refine ⟨rfl, rfl, rfl, by omega, rfl, rfl, rfl, ?_, ?_, ?_, ?_⟩
  · intro k; simp only [setAt]; by_cases hk : k = 0 <;> simp [hk]
  · intro k hk; simp only [setAt]; simp at hk; simp [hk]
  · intro k hk; simp at hk
  · simp

/-- **MergeAll / MergeMap* with a hot outer source and hot inner sources**: for every arrival order in
    which the outer never names a source twice, the output is the definition's output for the events
    that are heard. -/
theorem mergeAll_spec (proj : Ctx → α → Nat → Ctx × Nat) (cfg : Sources α) (hhot : ∀ k, cfg.sync k = false) (sub : Ctx)
    (evs : List (MEvent α)) (hf : freshNames proj (fun k => k == 0) (fun _ => false) 0 evs = true) :
    (feedAll (mergeAllM proj) cfg (bootSt (mergeAllM proj) cfg sub) evs).out =
      Spec.mergeAll 1 Ctx.nil (Spec.heard proj (fun k => k == 0) (fun _ => false) 0 evs) := by
  have hb := mergeAll_boot proj cfg hhot sub
  rw [mergeAll_run proj cfg hhot evs _ _ _ _ _ _ hb.1 hf, hb.2]; simp

end Ro.Multi
